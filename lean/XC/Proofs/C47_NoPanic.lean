/-
  C47 — the data path of `Receive` keeps the slot invariant and never reaches the `generateData` panic.
-/
import XC.Proofs.C47_Slots
namespace XC.C47

/-- the fields the AKE code dereferences (what `AkeInv` talks about) -/
def akeView (p : Party) : Auth × Option Id × Option Id × Option Id := (p.auth, p.gy, p.y, p.x)

/-- `c.smp.saved`, when set, is an SMP1 message (TLV type 2 or 7): `Authenticate` re-runs `processSMP` on
    it and panics if that "completes", which only SMP3 / SMP4 can -/
def SavedInv (p : Party) : Prop := ∀ t, p.saved = some t → (t.typ = 2 ∨ t.typ = 7)

/-- `q` differs from `p` at most in fields the AKE invariant does not read, and keeps the slot and
    saved-TLV invariants -/
structure Keeps (p q : Party) : Prop where
  view : akeView q = akeView p
  slots : SlotInv p.slots → SlotInv q.slots
  saved : SavedInv p → SavedInv q

theorem Keeps.refl (p : Party) : Keeps p p := ⟨rfl, id, id⟩

theorem Keeps.trans {p q r : Party} (h1 : Keeps p q) (h2 : Keeps q r) : Keeps p r :=
  ⟨h2.view.trans h1.view, fun h => h2.slots (h1.slots h), fun h => h2.saved (h1.saved h)⟩

theorem keeps_newId (p : Party) : Keeps p p.newId.1 := ⟨rfl, id, id⟩

theorem keeps_rotate (p : Party) : Keeps p p.rotate :=
  ⟨by simp [akeView, Party.rotate, Party.newId], fun h => by
    simp only [Party.rotate, Party.newId]; exact slotInv_evict _ h, id⟩

theorem keeps_calc (p : Party) (a b : Nat) : Keeps p (p.calcDataKeys a b).1 := by
  unfold Party.calcDataKeys
  cases hhit : findSlot p.slots (fun s => s.used && s.theirKeyId == b && s.myKeyId == a) with
  | some i => exact Keeps.refl p
  | none =>
    simp only
    cases hp : p.pickSlot with
    | none => exact Keeps.refl p
    | some i =>
      simp only
      have hmiss := miss_not_mem p.slots a b hhit
      split
      · exact ⟨rfl, fun h => slotInv_set i _ h hmiss, id⟩
      · exact ⟨rfl, fun h => slotInv_release i h, id⟩

theorem myKeyFor_last (p : Party) : ∃ m, p.myKeyFor (pred32 p.myKeyId) = some m := by
  unfold Party.myKeyFor
  by_cases h : pred32 p.myKeyId = p.myKeyId
  · exact ⟨_, if_pos h⟩
  · refine ⟨p.myLast, ?_⟩
    rw [if_neg h, if_pos rfl]

theorem theirKeyFor_cur (p : Party) : p.theirKeyFor p.theirKeyId = some p.theirCur := by
  unfold Party.theirKeyFor
  rw [if_pos rfl]

/-- **the sending pair is always served** (pigeonhole): `calcDataKeys(myKeyId-1, theirKeyId)` cannot fail -/
theorem calc_send_some (p : Party) (h : SlotInv p.slots) :
    (p.calcDataKeys (pred32 p.myKeyId) p.theirKeyId).2 ≠ none := by
  obtain ⟨m, hm⟩ := myKeyFor_last p
  have ht := theirKeyFor_cur p
  unfold Party.calcDataKeys
  cases hhit : findSlot p.slots
      (fun s => s.used && s.theirKeyId == p.theirKeyId && s.myKeyId == pred32 p.myKeyId) with
  | some i => exact Option.some_ne_none i
  | none =>
    have hmiss := miss_not_mem p.slots _ _ hhit
    have hw : inWin p.myKeyId (pred32 p.myKeyId) p.theirKeyId (pred32 p.theirKeyId)
        (pred32 p.myKeyId, p.theirKeyId) := ⟨Or.inr rfl, Or.inl rfl⟩
    cases hp : p.pickSlot with
    | none => exact absurd hp (pickSlot_some p h _ _ hw hmiss)
    | some i =>
      rw [hm, ht]
      exact Option.some_ne_none i

theorem genData_ok (p : Party) (text : Bytes) (extra : Option STlv) (h : SlotInv p.slots) :
    ∃ q m, p.genData text extra = .ok (q, m) ∧ Keeps p q := by
  unfold Party.genData
  have hs := calc_send_some p h
  have hk := keeps_calc p (pred32 p.myKeyId) p.theirKeyId
  cases hc : p.calcDataKeys (pred32 p.myKeyId) p.theirKeyId with
  | mk q oi =>
    rw [hc] at hs hk
    cases oi with
    | none => exact absurd rfl hs
    | some i => exact ⟨_, _, rfl, ⟨hk.view, hk.slots, hk.saved⟩⟩

theorem keeps_procSMP (p : Party) (t : SmpIn) : Keeps p (p.procSMP t).1 := by
  fun_cases Party.procSMP p t <;> first
    | exact ⟨rfl, id, id⟩
    | (simp only [Party.newId, Prod.mk.injEq] at *
       rename_i h
       obtain ⟨rfl, rfl⟩ := h
       exact ⟨rfl, id, id⟩)

/-- only an SMP1 message (TLV 2 / 7) can ask for the secret, and only SMP3 / SMP4 can complete -/
theorem procSMP_facts (p : Party) (t : SmpIn) :
    ((p.procSMP t).2.err = .secretMissing → (t.typ = 2 ∨ t.typ = 7)) ∧
    ((t.typ = 2 ∨ t.typ = 7) → (p.procSMP t).2.complete = false) := by
  fun_cases Party.procSMP p t <;> simp_all <;> first | omega | (split <;> simp)

/-- the `EachTLV` loop returns (its only panic is `generateData`'s) and keeps the invariants -/
theorem tlvLoop_ok (ts : List RTlv) : ∀ (p : Party) (o : Out), SlotInv p.slots →
    ∃ q o', p.tlvLoop o ts = .ok (q, o') ∧ Keeps p q := by
  induction ts with
  | nil => intro p o _; exact ⟨p, o, rfl, Keeps.refl p⟩
  | cons t ts ih =>
    intro p o hs
    cases t with
    | other => simpa [Party.tlvLoop] using ih p o hs
    | disconnect => exact ⟨_, _, rfl, ⟨rfl, id, id⟩⟩
    | smp t =>
      have hk := keeps_procSMP p t
      have hf := (procSMP_facts p t).1
      unfold Party.tlvLoop
      cases hr : p.procSMP t with
      | mk p1 r =>
        rw [hr] at hk hf
        simp only
        split
        · rename_i hmiss
          refine ⟨_, _, rfl, ⟨hk.view, hk.slots, fun _ t' ht' => ?_⟩⟩
          have : t' = t := by simpa using ht'.symm
          subst this
          exact hf (by simpa using hmiss)
        · cases hrep : r.reply with
          | none => exact ⟨_, _, rfl, hk⟩
          | some rep =>
            simp only
            obtain ⟨q, m, hg, hkq⟩ := genData_ok p1 [] (some rep) (hk.slots hs)
            rw [hg]
            exact ⟨_, _, rfl, hk.trans hkq⟩

theorem keeps_storeCtr (p : Party) (i : Nat) (c : Bytes) : Keeps p (p.storeCtr i c) :=
  ⟨rfl, fun h => ⟨by simpa [Party.storeCtr] using h.1, by
    show (usedKeys (p.slots.set i { p.slots.getD i {} with lastCtr := c })).Nodup
    rw [usedKeys_set_ctr]; exact h.2⟩, id⟩

theorem keeps_rotateMine (p : Party) (rkid : Nat) : Keeps p (p.rotateMine rkid) := by
  unfold Party.rotateMine
  split
  · exact keeps_rotate p
  · exact Keeps.refl p

theorem keeps_rotateTheirs (p : Party) (skid : Nat) (next : Id) : Keeps p (p.rotateTheirs skid next) := by
  unfold Party.rotateTheirs
  split
  · exact ⟨rfl, fun h => slotInv_evict _ h, id⟩
  · exact Keeps.refl p

theorem deliver_ok (p : Party) (d : DataMsg) (hs : SlotInv p.slots) :
    ∃ q o, p.deliver d = .ok (q, o) ∧ Keeps p q := by
  unfold Party.deliver
  split <;> exact tlvLoop_ok _ p _ hs

/-- everything `processData` does after the MAC check returns and keeps the invariants -/
theorem acceptData_ok (p : Party) (i : Nat) (d : DataMsg) (hs : SlotInv p.slots) :
    ∃ q o, p.acceptData i d = .ok (q, o) ∧ Keeps p q := by
  unfold Party.acceptData
  split
  · exact ⟨_, _, rfl, Keeps.refl p⟩
  · have k := ((keeps_storeCtr p i d.ctr).trans (keeps_rotateMine _ d.rkid)).trans
      (keeps_rotateTheirs _ d.skid d.next)
    obtain ⟨q, o, h, hk⟩ := deliver_ok _ d (k.slots hs)
    exact ⟨q, o, h, k.trans hk⟩

/-- **Receive on a data message** returns and keeps the invariants, whatever the message -/
theorem recv_data_ok (p : Party) (ok ign : Bool) (skid rkid : Nat) (g : Option DataMsg) (hs : SlotInv p.slots) :
    ∃ q o, p.recv (.data ok ign skid rkid g) = .ok (q, o) ∧ Keeps p q := by
  simp only [Party.recv]
  split
  · exact ⟨_, _, rfl, Keeps.refl p⟩
  split
  · exact ⟨_, _, rfl, Keeps.refl p⟩
  have hk := keeps_calc p rkid skid
  cases hc : p.calcDataKeys rkid skid with
  | mk p1 oi =>
    rw [hc] at hk
    cases oi with
    | none => exact ⟨_, _, rfl, hk⟩
    | some i =>
      simp only
      cases g with
      | none => exact ⟨_, _, rfl, hk⟩
      | some d =>
        simp only
        split
        · obtain ⟨q, o, h, hkq⟩ := acceptData_ok p1 i d (hk.slots hs)
          exact ⟨q, o, h, hk.trans hkq⟩
        · exact ⟨_, _, rfl, hk⟩

/-! ### every `Receive` keeps the slot invariant -/

theorem slotInv_reset {p : Party} (h : SlotInv p.slots) : SlotInv p.reset.slots :=
  slotInv_map _ (fun _ => Or.inr rfl) h

theorem genKey_slots {q r : Party} {m : Msg} (h : q.genKey = (r, m)) : r.slots = q.slots := by
  simp only [Party.genKey, Party.newId, Prod.mk.injEq] at h
  rw [← h.1]

theorem genCommit_slots {q r : Party} {m : Msg} {dg : Bytes} (h : q.genCommit dg = (r, m)) :
    r.slots = q.slots := by
  simp only [Party.genCommit, Party.newId, Prod.mk.injEq] at h
  rw [← h.1]

theorem slotInv_rotate {p : Party} (h : SlotInv p.slots) : SlotInv p.rotate.slots := (keeps_rotate p).slots h

theorem genReveal_slots {q r : Party} {m : Msg} (h : q.genReveal = .ok (r, m)) (hs : SlotInv q.slots) :
    SlotInv r.slots := by
  unfold Party.genReveal at h
  split at h
  · injection h with h
    simp only [Prod.mk.injEq] at h
    rw [← h.1]
    exact slotInv_rotate (p := { q with ssid := _, myKeyId := _, myCur := _ }) hs
  · cases h

theorem genSig_slots {q r : Party} {m : Msg} (h : q.genSig = (r, m)) (hs : SlotInv q.slots) :
    SlotInv r.slots := by
  simp only [Party.genSig, Prod.mk.injEq] at h
  rw [← h.1]
  exact slotInv_rotate (p := { q with myKeyId := _, myCur := _ }) hs

theorem gyMatch_slots {p r : Party} {y : Id} {b : Bool}
    (h : (match p.gy with
          | some g => (p, decide (g = y))
          | none => ({ p with gy := some y }, false)) = (r, b)) : r.slots = p.slots := by
  cases hg : p.gy <;> simp only [hg, Prod.mk.injEq] at h <;> rw [← h.1]

theorem calc_slots {p q : Party} {oi : Option Nat} {a b : Nat} (hx : p.calcDataKeys a b = (q, oi))
    (hs : SlotInv p.slots) : SlotInv q.slots := by
  have := (keeps_calc p a b).slots hs
  rw [hx] at this; exact this

/-- **every `Receive` keeps the slot invariant**, whatever arrives -/
theorem slotInv_recv (p : Party) (i : In) (hs : SlotInv p.slots) :
    ∀ p' o, p.recv i = .ok (p', o) → SlotInv p'.slots := by
  fun_cases Party.recv p i
  all_goals (intro p' o hr)
  all_goals first
    | (simp only [R.ok.injEq, Prod.mk.injEq] at hr; obtain ⟨rfl, _⟩ := hr; exact hs)
    | (cases hr; done)
    | skip
  case case3 =>
    rename_i dg p1 q m hx
    simp only [R.ok.injEq, Prod.mk.injEq] at hr; obtain ⟨rfl, _⟩ := hr
    rw [genCommit_slots hx]; exact slotInv_reset (p := { p with auth := .awKey }) hs
  case case5 =>
    rename_i p1 q m hx
    simp only [R.ok.injEq, Prod.mk.injEq] at hr; obtain ⟨rfl, _⟩ := hr
    rw [genKey_slots hx]; exact slotInv_reset (p := (p1.procCommit _ _)) hs
  case case8 =>
    rename_i p1 q m hx
    simp only [R.ok.injEq, Prod.mk.injEq] at hr; obtain ⟨rfl, _⟩ := hr
    rw [genKey_slots hx]; exact slotInv_reset (p := (p1.procCommit _ _)) hs
  case case13 =>
    rename_i q m hx
    simp only [R.ok.injEq, Prod.mk.injEq] at hr; obtain ⟨rfl, _⟩ := hr
    show SlotInv q.slots
    rw [genKey_slots hx]; exact slotInv_reset (p := (p.procCommit _ _)) hs
  case case15 =>
    rename_i q hx
    simp only [R.ok.injEq, Prod.mk.injEq] at hr; obtain ⟨rfl, _⟩ := hr
    rw [gyMatch_slots hx]; exact hs
  case case17 =>
    rename_i p1 same hx _ q m hg
    simp only [R.ok.injEq, Prod.mk.injEq] at hr; obtain ⟨rfl, _⟩ := hr
    show SlotInv q.slots
    exact genReveal_slots hg (by rw [gyMatch_slots hx]; exact hs)
  case case20 =>
    rename_i q m _ hx
    simp only [R.ok.injEq, Prod.mk.injEq] at hr; obtain ⟨rfl, _⟩ := hr
    rw [gyMatch_slots hx]; exact hs
  case case21 =>
    rename_i q same hx _
    simp only [R.ok.injEq, Prod.mk.injEq] at hr; obtain ⟨rfl, _⟩ := hr
    rw [gyMatch_slots hx]; exact hs
  case case28 =>
    rename_i q m hx
    simp only [R.ok.injEq, Prod.mk.injEq] at hr; obtain ⟨rfl, _⟩ := hr
    show SlotInv q.slots
    exact genSig_slots hx hs
  case case37 =>
    rename_i q hx
    simp only [R.ok.injEq, Prod.mk.injEq] at hr; obtain ⟨rfl, _⟩ := hr
    exact calc_slots hx hs
  case case38 =>
    rename_i q i hx
    simp only [R.ok.injEq, Prod.mk.injEq] at hr; obtain ⟨rfl, _⟩ := hr
    exact calc_slots hx hs
  case case39 =>
    rename_i q i hx s d _
    have hq := calc_slots hx hs
    obtain ⟨q', o', h, hk⟩ := acceptData_ok q i d hq
    rw [h] at hr
    simp only [R.ok.injEq, Prod.mk.injEq] at hr; obtain ⟨rfl, _⟩ := hr
    exact hk.slots hq
  case case40 =>
    rename_i q i hx s d _
    simp only [R.ok.injEq, Prod.mk.injEq] at hr; obtain ⟨rfl, _⟩ := hr
    exact calc_slots hx hs

/-! ### `c.smp.saved` and `Authenticate` -/

theorem genKey_saved {q r : Party} {m : Msg} (h : q.genKey = (r, m)) : r.saved = q.saved := by
  simp only [Party.genKey, Party.newId, Prod.mk.injEq] at h
  rw [← h.1]

theorem genCommit_saved {q r : Party} {m : Msg} {dg : Bytes} (h : q.genCommit dg = (r, m)) :
    r.saved = q.saved := by
  simp only [Party.genCommit, Party.newId, Prod.mk.injEq] at h
  rw [← h.1]

theorem genReveal_saved {q r : Party} {m : Msg} (h : q.genReveal = .ok (r, m)) : r.saved = q.saved := by
  unfold Party.genReveal at h
  split at h
  · injection h with h
    simp only [Prod.mk.injEq] at h
    rw [← h.1]
    simp [Party.rotate, Party.newId]
  · cases h

theorem genSig_saved {q r : Party} {m : Msg} (h : q.genSig = (r, m)) : r.saved = q.saved := by
  simp only [Party.genSig, Prod.mk.injEq] at h
  rw [← h.1]
  simp [Party.rotate, Party.newId]

theorem gyMatch_saved {p r : Party} {y : Id} {b : Bool}
    (h : (match p.gy with
          | some g => (p, decide (g = y))
          | none => ({ p with gy := some y }, false)) = (r, b)) : r.saved = p.saved := by
  cases hg : p.gy <;> simp only [hg, Prod.mk.injEq] at h <;> rw [← h.1]

theorem calc_saved {p q : Party} {oi : Option Nat} {a b : Nat} (hx : p.calcDataKeys a b = (q, oi))
    (hs : SavedInv p) : SavedInv q := by
  have := (keeps_calc p a b).saved hs
  rw [hx] at this; exact this

/-- every `Receive` keeps "`c.smp.saved` is an SMP1 message" -/
theorem savedInv_recv (p : Party) (i : In) (hs : SlotInv p.slots) (hv : SavedInv p) :
    ∀ p' o, p.recv i = .ok (p', o) → SavedInv p' := by
  fun_cases Party.recv p i
  all_goals (intro p' o hr)
  all_goals first
    | (simp only [R.ok.injEq, Prod.mk.injEq] at hr; obtain ⟨rfl, _⟩ := hr; exact hv)
    | (cases hr; done)
    | skip
  case case3 =>
    rename_i dg p1 q m hx
    simp only [R.ok.injEq, Prod.mk.injEq] at hr; obtain ⟨rfl, _⟩ := hr
    intro t ht; rw [genCommit_saved hx] at ht; exact hv t ht
  case case5 =>
    rename_i p1 q m hx
    simp only [R.ok.injEq, Prod.mk.injEq] at hr; obtain ⟨rfl, _⟩ := hr
    intro t ht; rw [genKey_saved hx] at ht; exact hv t ht
  case case8 =>
    rename_i p1 q m hx
    simp only [R.ok.injEq, Prod.mk.injEq] at hr; obtain ⟨rfl, _⟩ := hr
    intro t ht; rw [genKey_saved hx] at ht; exact hv t ht
  case case13 =>
    rename_i q m hx
    simp only [R.ok.injEq, Prod.mk.injEq] at hr; obtain ⟨rfl, _⟩ := hr
    intro t ht
    have ht' : q.saved = some t := ht
    rw [genKey_saved hx] at ht'; exact hv t ht'
  case case15 =>
    rename_i q hx
    simp only [R.ok.injEq, Prod.mk.injEq] at hr; obtain ⟨rfl, _⟩ := hr
    intro t ht; rw [gyMatch_saved hx] at ht; exact hv t ht
  case case17 =>
    rename_i p1 same hx _ q m hg
    simp only [R.ok.injEq, Prod.mk.injEq] at hr; obtain ⟨rfl, _⟩ := hr
    intro t ht
    have ht' : q.saved = some t := ht
    rw [genReveal_saved hg, gyMatch_saved hx] at ht'; exact hv t ht'
  case case20 =>
    rename_i q m _ hx
    simp only [R.ok.injEq, Prod.mk.injEq] at hr; obtain ⟨rfl, _⟩ := hr
    intro t ht; rw [gyMatch_saved hx] at ht; exact hv t ht
  case case21 =>
    rename_i q same hx _
    simp only [R.ok.injEq, Prod.mk.injEq] at hr; obtain ⟨rfl, _⟩ := hr
    intro t ht; rw [gyMatch_saved hx] at ht; exact hv t ht
  case case28 =>
    rename_i q m hx
    simp only [R.ok.injEq, Prod.mk.injEq] at hr; obtain ⟨rfl, _⟩ := hr
    intro t ht
    have ht' : q.saved = some t := ht
    rw [genSig_saved hx] at ht'; exact hv t ht'
  case case37 =>
    rename_i q hx
    simp only [R.ok.injEq, Prod.mk.injEq] at hr; obtain ⟨rfl, _⟩ := hr
    exact calc_saved hx hv
  case case38 =>
    rename_i q i hx
    simp only [R.ok.injEq, Prod.mk.injEq] at hr; obtain ⟨rfl, _⟩ := hr
    exact calc_saved hx hv
  case case39 =>
    rename_i q i hx s d _
    have hq := calc_slots hx hs
    obtain ⟨q', o', h, hk⟩ := acceptData_ok q i d hq
    rw [h] at hr
    simp only [R.ok.injEq, Prod.mk.injEq] at hr; obtain ⟨rfl, _⟩ := hr
    exact hk.saved (calc_saved hx hv)
  case case40 =>
    rename_i q i hx s d _
    simp only [R.ok.injEq, Prod.mk.injEq] at hr; obtain ⟨rfl, _⟩ := hr
    exact calc_saved hx hv

/-- the loop of `Authenticate` that wraps each TLV of `startSMP` into a data message -/
theorem sendTlvs_ok (tlvs : List STlv) : ∀ (p : Party) (acc : List Msg), SlotInv p.slots →
    ∃ q ms, p.sendTlvs tlvs acc = .ok (q, ms) ∧ Keeps p q := by
  induction tlvs with
  | nil => intro p acc _; exact ⟨p, acc, rfl, Keeps.refl p⟩
  | cons t ts ih =>
    intro p acc hs
    obtain ⟨q, m, hg, hk⟩ := genData_ok p [] (some t) hs
    unfold Party.sendTlvs
    rw [hg]
    obtain ⟨q', ms, h, hk'⟩ := ih q (acc ++ [m]) (hk.slots hs)
    exact ⟨q', ms, h, hk.trans hk'⟩

theorem answerSMP_ok (p : Party) (t : SmpIn) (secret : Bytes) (hs : SlotInv p.slots)
    (htyp : t.typ = 2 ∨ t.typ = 7) :
    ∃ q o, p.answerSMP t secret = .ok (q, o) ∧ akeView q = akeView p ∧ SlotInv q.slots ∧ SavedInv q := by
  unfold Party.answerSMP
  dsimp only
  have hk := keeps_procSMP { p with secret := some ⟨1 - p.side, p.side, p.ssid, secret⟩ } t
  have hc := (procSMP_facts { p with secret := some ⟨1 - p.side, p.side, p.ssid, secret⟩ } t).2 htyp
  rw [hc]
  simp only [Bool.false_eq_true, if_false]
  split
  · exact ⟨_, _, rfl, hk.view, hk.slots hs, fun t' ht' => by cases ht'⟩
  · obtain ⟨q, m, hg, hkq⟩ := genData_ok
      { ({ p with secret := some ⟨1 - p.side, p.side, p.ssid, secret⟩ } : Party).procSMP t |>.1 with saved := none }
      [] (some _) (hk.slots hs)
    rw [hg]
    exact ⟨_, _, rfl, hkq.view.trans hk.view, hkq.slots (hk.slots hs), hkq.saved (fun t' ht' => by cases ht')⟩

/-- **`Authenticate` returns**: neither `generateData` nor the explicit
    `panic("SMP completed on the first message")` is reachable, and the invariants are kept -/
theorem authenticate_ok (p : Party) (question secret : Bytes) (hs : SlotInv p.slots) (hv : SavedInv p) :
    ∃ q o, p.authenticate question secret = .ok (q, o) ∧
      akeView q = akeView p ∧ SlotInv q.slots ∧ SavedInv q := by
  unfold Party.authenticate
  split
  · exact ⟨_, _, rfl, rfl, hs, hv⟩
  · split
    · rename_i t ht
      exact answerSMP_ok p t secret hs (hv t ht)
    · obtain ⟨q, ms, hg, hk⟩ := sendTlvs_ok (p.smpStartTlvs question) (p.smpStartState secret) [] hs
      rw [hg]
      exact ⟨_, _, rfl, hk.view, hk.slots hs, hk.saved hv⟩

end XC.C47
