/-
  C47 — the data path of `Receive` keeps the slot invariant and never reaches the `generateData` panic.
-/
import XC.Proofs.C47_Slots
namespace XC.C47

/-- the fields the AKE code dereferences (what `AkeInv` talks about) -/
def akeView (p : Party) : Auth × Option Id × Option Id × Option Id := (p.auth, p.gy, p.y, p.x)

/-- `q` differs from `p` at most in fields the AKE invariant does not read, and keeps the slot invariant -/
structure Keeps (p q : Party) : Prop where
  view : akeView q = akeView p
  slots : SlotInv p.slots → SlotInv q.slots

theorem Keeps.refl (p : Party) : Keeps p p := ⟨rfl, id⟩

theorem Keeps.trans {p q r : Party} (h1 : Keeps p q) (h2 : Keeps q r) : Keeps p r :=
  ⟨h2.view.trans h1.view, fun h => h2.slots (h1.slots h)⟩

theorem keeps_newId (p : Party) : Keeps p p.newId.1 := ⟨rfl, id⟩

theorem keeps_rotate (p : Party) : Keeps p p.rotate :=
  ⟨by simp [akeView, Party.rotate, Party.newId], fun h => by
    simp only [Party.rotate, Party.newId]; exact slotInv_evict _ h⟩

theorem keeps_calc (p : Party) (a b : Nat) : Keeps p (p.calcDataKeys a b).1 := by
  unfold Party.calcDataKeys
  cases hhit : findSlot p.slots (fun s => s.used && s.theirKeyId == b && s.myKeyId == a) with
  | some i => exact Keeps.refl p
  | none =>
    simp only
    cases hp : p.pickSlot with
    | none => exact Keeps.refl p
    | some i =>
      simp only
      have hmiss := miss_not_mem p.slots a b hhit
      split
      · exact ⟨rfl, fun h => slotInv_set i _ h hmiss⟩
      · exact ⟨rfl, fun h => slotInv_release i h⟩

/-- **the sending pair is always served** (pigeonhole): `calcDataKeys(myKeyId-1, theirKeyId)` cannot fail -/
theorem calc_send_some (p : Party) (h : SlotInv p.slots) :
    (p.calcDataKeys (pred32 p.myKeyId) p.theirKeyId).2 ≠ none := by
  unfold Party.calcDataKeys
  cases hhit : findSlot p.slots
      (fun s => s.used && s.theirKeyId == p.theirKeyId && s.myKeyId == pred32 p.myKeyId) with
  | some i => simp only; exact Option.some_ne_none i
  | none =>
    simp only
    have hmiss := miss_not_mem p.slots _ _ hhit
    have hw : inWin p.myKeyId (pred32 p.myKeyId) p.theirKeyId (pred32 p.theirKeyId)
        (pred32 p.myKeyId, p.theirKeyId) := ⟨Or.inr rfl, Or.inl rfl⟩
    cases hp : p.pickSlot with
    | none => exact absurd hp (pickSlot_some p h _ _ hw hmiss)
    | some i =>
      -- (keep `pred32` opaque: deciding equalities about `(n + 4294967295) % 4294967296` must not unfold it)
      generalize pred32 p.myKeyId = m'
      by_cases hm : m' = p.myKeyId
      · simp only [hm, if_true]; exact Option.some_ne_none i
      · simp only [hm, if_false, if_true]; exact Option.some_ne_none i

theorem genData_ok (p : Party) (text : Bytes) (extra : Option STlv) (h : SlotInv p.slots) :
    ∃ q m, p.genData text extra = .ok (q, m) ∧ Keeps p q := by
  unfold Party.genData
  have hs := calc_send_some p h
  have hk := keeps_calc p (pred32 p.myKeyId) p.theirKeyId
  cases hc : p.calcDataKeys (pred32 p.myKeyId) p.theirKeyId with
  | mk q oi =>
    rw [hc] at hs hk
    cases oi with
    | none => exact absurd rfl hs
    | some i => exact ⟨_, _, rfl, ⟨hk.view, hk.slots⟩⟩

end XC.C47
