/-
  C32 — histories: decomposition of a successful run, and the public-key-cache invariant
  (the cache entry is always the result of the last PublicKeyCallback invocation, made by the
  callback set now in force, with no partial success since).
-/
import XC.Proofs.C32
namespace XC.C32

def bump (st : St) : St := { st with attempts := st.attempts + 1 }

/-- `Steps cfg st rs st' evs`: starting in `st`, the requests `rs` are all read and answered without
    ending the loop, leaving state `st'` and the events `evs` -/
inductive Steps (cfg : Cfg) : St → List Req → St → List Ev → Prop
  | nil (st : St) : Steps cfg st [] st []
  | cons {st st1 st2 : St} {r : Req} {rs : List Req} {e1 e2 : List Ev} :
      tooMany cfg st = false → step cfg (bump st) r = .cont st1 e1 →
      r.follow.length ≤ consumedBy (bump st) r →   -- every follow-up packet was read by this request
      Steps cfg st1 rs st2 e2 →
      Steps cfg st (r :: rs) st2 (e1 ++ e2)

/-- a run that ends in success read a sequence of requests that were all answered with
    "continue", and then one request on which `step` returned success -/
theorem loop_ok {cfg : Cfg} {reads : List Read} {st : St} {evs : List Ev} {p : Nat}
    (h : loop cfg st reads = (evs, .ok p)) :
    ∃ pre r post st' e1 e2, reads = pre.map Read.req ++ Read.req r :: post ∧ Steps cfg st pre st' e1 ∧
      tooMany cfg st' = false ∧ step cfg (bump st') r = .done e2 (.ok p) ∧ evs = e1 ++ e2 := by
  induction reads generalizing st evs with
  | nil =>
    unfold loop at h
    split at h <;> simp at h
  | cons rd rest ih =>
    unfold loop at h
    cases ht : tooMany cfg st
    case true => simp [ht] at h
    simp only [ht] at h
    cases rd with
    | eof => simp at h
    | ioErr => simp at h
    | malformed => simp at h
    | req r =>
      simp only [Bool.false_eq_true, if_false] at h
      cases hs : step cfg { st with attempts := st.attempts + 1 } r with
      | done e f =>
        simp only [hs] at h
        simp at h
        obtain ⟨h1, h2⟩ := h
        subst h1 h2
        exact ⟨[], r, rest, st, [], e, by simp, Steps.nil st, ht, hs, by simp⟩
      | cont st1 e1 =>
        simp only [hs] at h
        by_cases hlo : consumedBy { st with attempts := st.attempts + 1 } r < r.follow.length
        · simp only [hlo, if_true] at h
          split at h <;> simp at h
        simp only [hlo, if_false] at h
        cases hl : loop cfg st1 rest with
        | mk e2 f =>
          simp only [hl] at h
          simp at h
          obtain ⟨h1, h2⟩ := h
          subst h1 h2
          obtain ⟨pre, r', post, st', a1, a2, b1, b2, b3, b4, b5⟩ := ih hl
          refine ⟨r :: pre, r', post, st', e1 ++ a1, a2, by simp [b1], Steps.cons ht hs (by simpa [bump] using hlo) b2, b3, b4,
            by simp [b5]⟩

/-! ## the key-cache invariant -/

abbrev KeyAcc := Option (Nat × String × Nat × Outcome)

/-- scanning the event log: a PublicKeyCallback invocation becomes "the last one"; a partial
    success forgets it; everything else leaves it alone -/
def keyUpd (acc : KeyAcc) : Ev → KeyAcc
  | .cbPk g u k o => some (g, u, k, o)
  | .sendFailure _ true => none
  | _ => acc

def scanKey (acc : KeyAcc) (evs : List Ev) : KeyAcc := evs.foldl keyUpd acc

theorem scanKey_append (acc : KeyAcc) (a b : List Ev) : scanKey acc (a ++ b) = scanKey (scanKey acc a) b := by
  simp [scanKey, List.foldl_append]

/-- the cache entry, if any, is what the last PublicKeyCallback invocation in the log returned —
    invoked by the callback set now in force (`st.gen`), for the entry's user and key bytes, with no
    partial success since — and a cached "accept" is a real accept whose source-address option holds -/
def CacheInv (cfg : Cfg) (st : St) (acc : KeyAcc) : Prop :=
  ∀ c, st.cache = some c → ∃ out, acc = some (st.gen, c.user, c.key, out) ∧
    (c.result = .ok → out = .accept c.perms ∧ cfg.saOk c.perms = true)

theorem CacheInv_congr {cfg : Cfg} {st1 st2 : St} {acc : KeyAcc} (h1 : st2.cache = st1.cache) (h2 : st2.gen = st1.gen)
    (h : CacheInv cfg st1 acc) : CacheInv cfg st2 acc := by
  unfold CacheInv at *
  rw [h1, h2]; exact h

/-- events that are neither a PublicKeyCallback invocation nor a partial-success failure message -/
def neutral : Ev → Bool
  | .cbPk _ _ _ _ => false
  | .sendFailure _ true => false
  | _ => true

theorem scanKey_neutral (acc : KeyAcc) (evs : List Ev) (h : evs.all neutral = true) : scanKey acc evs = acc := by
  induction evs generalizing acc with
  | nil => rfl
  | cons e es ih =>
    simp at h
    simp only [scanKey, List.foldl_cons]
    have : keyUpd acc e = acc := by
      cases e <;> simp [keyUpd, neutral] at h ⊢
      rename_i ms p
      cases p <;> simp_all [keyUpd, neutral]
    rw [this]
    exact ih acc (by simpa using h.2)

theorem pkDecide_again' {cfg : Cfg} {st st' : St} {r : Req} {cand : Cached} {evs evs' : List Ev}
    (h : pkDecide cfg st r cand evs = .again st' evs') :
    st' = st ∧ evs' = evs ++ [Ev.sendPkOk r.pk.algo r.pk.key] ∧ r.pk.isQuery = true ∧
      cand.result.okOrPartial = true := by
  unfold pkDecide at h
  cases hq : r.pk.isQuery <;> simp [hq] at h
  · cases h1 : r.pk.sigParses <;> simp [h1] at h
    by_cases h2 : r.pk.algo ∈ algorithmsForKeyFormat r.pk.keyType <;> simp [h2] at h
    by_cases h3 : r.pk.sigFormat ∈ cfg.algos <;> simp [h3] at h
    cases h4 : isAlgoCompatible r.pk.algo r.pk.sigFormat <;> simp [h4] at h
    cases h5 : sigOk cfg r.pk cand.perms <;> simp [h5] at h
    split at h <;> simp at h
  · cases h1 : r.pk.trailing <;> simp [h1] at h
    cases h2 : cand.result.okOrPartial <;> simp [h2] at h
    obtain ⟨rfl, rfl⟩ := h
    exact ⟨rfl, rfl, rfl, rfl⟩

theorem pkDecide_res' {cfg : Cfg} {st st' : St} {r : Req} {cand : Cached} {evs evs' : List Ev} {p : Nat} {e : AuthErr}
    (h : pkDecide cfg st r cand evs = .res st' evs' p e) :
    st' = st ∧ (evs' = evs ∨ (evs' = evs ++ [Ev.cbVpk st.user r.pk.key cand.perms r.pk.sigFormat r.vcb] ∧
      cfg.verifiedCb = true ∧ r.pk.isQuery = false)) := by
  unfold pkDecide at h
  cases hq : r.pk.isQuery <;> simp [hq] at h
  · cases h1 : r.pk.sigParses <;> simp [h1] at h
    by_cases h2 : r.pk.algo ∈ algorithmsForKeyFormat r.pk.keyType <;> simp [h2] at h
    case neg => obtain ⟨rfl, rfl, _⟩ := h; exact ⟨rfl, Or.inl rfl⟩
    by_cases h3 : r.pk.sigFormat ∈ cfg.algos <;> simp [h3] at h
    case neg => obtain ⟨rfl, rfl, _⟩ := h; exact ⟨rfl, Or.inl rfl⟩
    cases h4 : isAlgoCompatible r.pk.algo r.pk.sigFormat <;> simp [h4] at h
    case false => obtain ⟨rfl, rfl, _⟩ := h; exact ⟨rfl, Or.inl rfl⟩
    cases h5 : sigOk cfg r.pk cand.perms <;> simp [h5] at h
    split at h <;> simp at h
    · rename_i hc
      obtain ⟨rfl, rfl, _⟩ := h; exact ⟨rfl, Or.inr ⟨rfl, by simp_all, rfl⟩⟩
    · obtain ⟨rfl, rfl, _⟩ := h; exact ⟨rfl, Or.inl rfl⟩
  · cases h1 : r.pk.trailing <;> simp [h1] at h
    cases h2 : cand.result.okOrPartial <;> simp [h2] at h
    obtain ⟨rfl, rfl, _⟩ := h; exact ⟨rfl, Or.inl rfl⟩

theorem pkDecide_again {cfg : Cfg} {st st' : St} {r : Req} {cand : Cached} {evs evs' : List Ev}
    (h : pkDecide cfg st r cand evs = .again st' evs') :
    st' = st ∧ ∃ x, evs' = evs ++ x ∧ x.all neutral = true := by
  obtain ⟨a, b, _⟩ := pkDecide_again' h
  exact ⟨a, _, b, by simp [neutral]⟩

theorem pkDecide_res {cfg : Cfg} {st st' : St} {r : Req} {cand : Cached} {evs evs' : List Ev} {p : Nat} {e : AuthErr}
    (h : pkDecide cfg st r cand evs = .res st' evs' p e) :
    st' = st ∧ ∃ x, evs' = evs ++ x ∧ x.all neutral = true := by
  obtain ⟨a, b | ⟨b, _⟩⟩ := pkDecide_res' h
  · exact ⟨a, [], by simp [b], by simp⟩
  · exact ⟨a, _, b, by simp [neutral]⟩

theorem pk_core {cfg : Cfg} {st st' : St} {r : Req} {acc : KeyAcc} {evs : List Ev}
    (hinv : CacheInv cfg st acc)
    (hph : pkPhase cfg st r = .again st' evs ∨ ∃ p e, pkPhase cfg st r = .res st' evs p e) :
    CacheInv cfg st' (scanKey acc evs) ∧ st'.gen = st.gen := by
  unfold pkPhase at hph
  split at hph
  · rename_i ph hp
    rcases pkPre_some hp with h1 | h1 <;> subst h1
    · simp at hph
    · simp at hph
      obtain ⟨rfl, rfl⟩ := hph
      exact ⟨by simpa [scanKey] using hinv, rfl⟩
  · split at hph
    · simp at hph
    · rename_i cand st2 evs2 hl
      obtain ⟨l1, l2, l3, l4⟩ := pkLookup_some hl
      have hd : st' = st2 ∧ ∃ x, evs = evs2 ++ x ∧ x.all neutral = true := by
        rcases hph with h | ⟨p, e, h⟩
        · exact pkDecide_again h
        · exact pkDecide_res h
      obtain ⟨rfl, x, rfl, hx⟩ := hd
      rw [scanKey_append, scanKey_neutral _ _ hx]
      rcases l4 with ⟨a, rfl, rfl⟩ | ⟨a, rfl, rfl, b, c, _⟩
      · exact ⟨by simpa [scanKey] using hinv, rfl⟩
      · refine ⟨?_, rfl⟩
        intro c' hc'
        simp at hc'
        subst hc'
        refine ⟨r.cb, ?_, c⟩
        simp [scanKey, keyUpd, l1, l2]

theorem logEvs_neutral (r : Req) (e : AuthErr) : (logEvs r e).all neutral = true := by
  unfold logEvs
  split <;> simp [neutral]

theorem finish_inv {cfg : Cfg} {st st' : St} {r : Req} {acc : KeyAcc} {evs evs' : List Ev} {perms : Nat} {e : AuthErr}
    (hinv : CacheInv cfg st (scanKey acc evs))
    (h : finish cfg st r evs perms e = .cont st' evs') : CacheInv cfg st' (scanKey acc evs') := by
  unfold finish at h
  generalize saFilter cfg perms e = e' at h
  unfold conclude at h
  cases e' with
  | ok => simp at h
  | partialOk nx g =>
    simp only [] at h
    (repeat' split at h) <;> simp at h
    obtain ⟨rfl, rfl⟩ := h
    intro c hc
    simp at hc
  | fail =>
    simp only [] at h
    (repeat' split at h) <;> simp at h <;> obtain ⟨rfl, rfl⟩ := h
    · rw [scanKey_append, scanKey_neutral _ _ (logEvs_neutral _ _)]
      exact CacheInv_congr rfl rfl hinv
    · rw [← List.append_assoc, scanKey_append, scanKey_append, scanKey_neutral _ _ (logEvs_neutral _ _),
        scanKey_neutral _ _ (by simp [neutral])]
      exact CacheInv_congr rfl rfl hinv
  | bannerFail b =>
    simp only [] at h
    (repeat' split at h) <;> simp at h <;> obtain ⟨rfl, rfl⟩ := h
    · rw [scanKey_append, scanKey_neutral _ _ (logEvs_neutral _ _)]
      exact CacheInv_congr rfl rfl hinv
    · rw [← List.append_assoc, scanKey_append, scanKey_append, scanKey_neutral _ _ (logEvs_neutral _ _),
        scanKey_neutral _ _ (by simp [neutral])]
      exact CacheInv_congr rfl rfl hinv

theorem kgEv_neutral {st : St} {r : Req} {x : List Ev} (h : x.all (kgEv st r) = true) : x.all neutral = true := by
  rw [List.all_eq_true] at h ⊢
  intro e he
  have := h e he
  cases e <;> simp [kgEv, auxEv, neutral] at this ⊢

theorem method_core {cfg : Cfg} {st st' : St} {r : Req} {acc : KeyAcc} {evs : List Ev}
    (hinv : CacheInv cfg st acc)
    (hph : methodPhase cfg st r = .again st' evs ∨ ∃ p e, methodPhase cfg st r = .res st' evs p e) :
    CacheInv cfg st' (scanKey acc evs) := by
  unfold methodPhase at hph
  split at hph
  · unfold nonePhase at hph
    (repeat' split at hph) <;> simp at hph <;> obtain ⟨rfl, rfl⟩ := hph
    · rw [scanKey_neutral _ _ (by simp [neutral])]; exact CacheInv_congr rfl rfl hinv
    · exact CacheInv_congr rfl rfl hinv
    · exact CacheInv_congr rfl rfl hinv
  · split at hph
    · unfold pwPhase at hph
      (repeat' split at hph) <;> simp at hph <;> obtain ⟨rfl, rfl⟩ := hph
      · exact hinv
      · rw [scanKey_neutral _ _ (by simp [neutral])]; exact hinv
    · split at hph
      · rename_i hm
        simp at hm
        obtain ⟨rfl, hx⟩ := kg_result (Or.inl ⟨hm, rfl⟩) hph
        rw [scanKey_neutral _ _ (kgEv_neutral hx)]; exact hinv
      · split at hph
        · exact (pk_core hinv hph).1
        · split at hph
          · rename_i hm
            simp at hm
            obtain ⟨rfl, hx⟩ := kg_result (Or.inr ⟨hm, rfl⟩) hph
            rw [scanKey_neutral _ _ (kgEv_neutral hx)]; exact hinv
          · simp at hph
            obtain ⟨rfl, rfl⟩ := hph
            exact hinv

theorem bannerPhase_neutral (cfg : Cfg) (st : St) : (bannerPhase cfg st).2.all neutral = true := by
  unfold bannerPhase
  (repeat' split) <;> simp [neutral]

/-- the cache invariant is preserved by every loop iteration that continues -/
theorem step_inv {cfg : Cfg} {st st' : St} {r : Req} {acc : KeyAcc} {evs : List Ev}
    (hinv : CacheInv cfg st acc) (h : step cfg (bump st) r = .cont st' evs) :
    CacheInv cfg st' (scanKey acc evs) := by
  unfold step at h
  split at h
  · simp at h
  split at h
  · simp at h
  simp only [] at h
  generalize hsb : bannerPhase cfg { bump st with user := r.user } = sb at h
  have hf := bannerPhase_fields cfg { bump st with user := r.user }
  have hn := bannerPhase_neutral cfg { bump st with user := r.user }
  rw [hsb] at hf hn
  have hinv1 : CacheInv cfg sb.1 acc := by
    apply CacheInv_congr _ _ hinv <;> rw [hf] <;> rfl
  split at h
  · simp at h
  · rename_i st2 evs2 hm
    simp at h
    obtain ⟨rfl, rfl⟩ := h
    rw [scanKey_append, scanKey_neutral _ _ hn]
    exact method_core hinv1 (Or.inl hm)
  · rename_i st2 evs2 perms e hm
    have hinv2 := method_core hinv1 (Or.inr ⟨perms, e, hm⟩)
    split at h
    · simp at h
    · rename_i st3 evs3 hfin
      simp at h
      obtain ⟨rfl, rfl⟩ := h
      rw [scanKey_append, scanKey_neutral _ _ hn]
      exact finish_inv hinv2 hfin

theorem steps_inv {cfg : Cfg} {st st' : St} {rs : List Req} {acc : KeyAcc} {evs : List Ev}
    (hinv : CacheInv cfg st acc) (h : Steps cfg st rs st' evs) : CacheInv cfg st' (scanKey acc evs) := by
  induction h generalizing acc with
  | nil st => simpa [scanKey] using hinv
  | cons ht hs _ _ ih =>
    rw [scanKey_append]
    exact ih (step_inv hinv hs)

theorem init_inv (cfg : Cfg) : CacheInv cfg (St.init cfg) none := by
  intro c hc
  simp [St.init] at hc

/-- on the request that succeeds with publickey, the log up to and including that request ends
    (as far as PublicKeyCallback invocations and partial successes go) with the PublicKeyCallback
    invocation of the callback set in force, for this user and these key bytes, returning accept -/
theorem step_ok_pk {cfg : Cfg} {st : St} {r : Req} {acc : KeyAcc} {evs : List Ev} {p : Nat}
    (hinv : CacheInv cfg st acc) (h : step cfg (bump st) r = .done evs (.ok p))
    (hm : r.method = "publickey") :
    ∃ pkPerms, scanKey acc evs = some (st.gen, r.user, r.pk.key, .accept pkPerms) ∧
      cfg.saOk pkPerms = true ∧ sigOk cfg r.pk pkPerms = true ∧
      ((cfg.verifiedCb = true ∧ r.vcb = .accept p) ∨ (cfg.verifiedCb = false ∧ p = pkPerms)) := by
  unfold step at h
  split at h
  · simp at h
  split at h
  · simp at h
  simp only [] at h
  generalize hsb : bannerPhase cfg { bump st with user := r.user } = sb at h
  have hf := bannerPhase_fields cfg { bump st with user := r.user }
  have hn := bannerPhase_neutral cfg { bump st with user := r.user }
  rw [hsb] at hf hn
  have hinv1 : CacheInv cfg sb.1 acc := by
    apply CacheInv_congr _ _ hinv <;> rw [hf] <;> rfl
  have hgen : sb.1.gen = st.gen := by rw [hf]; rfl
  have huser : sb.1.user = r.user := by rw [hf]
  split at h
  · simp at h
  · simp at h
  · rename_i st2 evs2 perms e hph
    cases hfin : finish cfg st2 r evs2 perms e with
    | cont st3 evs3 => simp [hfin] at h
    | done evs3 f =>
    simp [hfin] at h
    obtain ⟨rfl, rfl⟩ := h
    obtain ⟨rfl, rfl, _, rfl⟩ := finish_ok hfin
    -- the method switch took the publickey branch
    have hpk : pkPhase cfg sb.1 r = .res st2 evs2 perms .ok := by
      unfold methodPhase at hph
      simp [hm] at hph
      exact hph
    have hcore := pk_core hinv1 (Or.inr ⟨perms, .ok, hpk⟩)
    unfold pkPhase at hpk
    split at hpk
    · rename_i ph hp
      rcases pkPre_some hp with h1 | h1 <;> simp [h1] at hpk
    · split at hpk
      · simp at hpk
      · rename_i cand st3 evs4 hl
        obtain ⟨l1, l2, l3, _⟩ := pkLookup_some hl
        obtain ⟨rfl, _, _, _, _, _, d7, d8, d9⟩ := pkDecide_ok hpk
        obtain ⟨out, ho, hacc⟩ := hcore.1 cand l3
        obtain ⟨rfl, hsa⟩ := hacc d8
        refine ⟨cand.perms, ?_, hsa, d7, ?_⟩
        · rw [scanKey_append, scanKey_neutral _ _ hn, scanKey_append, scanKey_neutral _ [_, _] (by simp [neutral]),
            ho, hcore.2, hgen, l1, l2, huser]
        · rcases d9 with ⟨a, b, _⟩ | ⟨a, b, _⟩
          · exact Or.inl ⟨a, b⟩
          · exact Or.inr ⟨a, b⟩

end XC.C32
