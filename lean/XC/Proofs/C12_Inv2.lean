/-
  C12 — inversion of CAST5, Twofish and RC2 for arbitrary round keys / S-box functions.
-/
import XC.Model.C12
import XC.Proofs.C12_Util
import XC.Proofs.C12_Rot
namespace XC.C12

/-! ## CAST5 (generic Feistel network `l, r = r, l ^ g k r`) -/
namespace Cast5

theorem round_swap {κ : Type} (g : κ → UInt32 → UInt32) (s : UInt32 × UInt32) (k : κ) :
    round g ((round g s k).2, (round g s k).1) k = (s.2, s.1) := by
  obtain ⟨l, r⟩ := s
  simp [round, UInt32.xor_assoc]

theorem rounds_swap {κ : Type} (g : κ → UInt32 → UInt32) (ks : List κ) (s : UInt32 × UInt32) :
    ks.reverse.foldl (round g) ((ks.foldl (round g) s).2, (ks.foldl (round g) s).1) = (s.2, s.1) := by
  induction ks generalizing s with
  | nil => rfl
  | cons k ks ih =>
    simp only [List.foldl_cons, List.reverse_cons, List.foldl_append, List.foldl_nil]
    rw [ih]
    exact round_swap g s k

/-- any Feistel network of this shape, with any round functions, is inverted by running it with the
    round keys reversed -/
theorem crypt_inv {κ : Type} (g : κ → UInt32 → UInt32) (ks : List κ) (v : UInt32 × UInt32) :
    crypt g ks.reverse (crypt g ks v) = v := by
  simp only [crypt]
  rw [rounds_swap]

end Cast5

/-! ## Twofish -/
namespace Twofish

theorem decHalf_encHalf (f0 f1 : UInt32 → UInt32) (a b c d k0 k1 : UInt32) :
    decHalf f0 f1 a b (encHalf f0 f1 a b c d k0 k1).1 (encHalf f0 f1 a b c d k0 k1).2 k0 k1 = (c, d) := by
  simp [decHalf, encHalf, rol1_ror1, ror1_rol1, UInt32.xor_assoc]

theorem encHalf_decHalf (f0 f1 : UInt32 → UInt32) (a b c d k0 k1 : UInt32) :
    encHalf f0 f1 a b (decHalf f0 f1 a b c d k0 k1).1 (decHalf f0 f1 a b c d k0 k1).2 k0 k1 = (c, d) := by
  simp [decHalf, encHalf, rol1_ror1, ror1_rol1, UInt32.xor_assoc]

theorem decRound_encRound (f0 f1 : UInt32 → UInt32) (s k : St) :
    decRound f0 f1 (encRound f0 f1 s k) k = s := by
  obtain ⟨a, b, c, d⟩ := s
  obtain ⟨k0, k1, k2, k3⟩ := k
  simp only [decRound, encRound]
  rw [decHalf_encHalf]
  simp only
  rw [decHalf_encHalf]

theorem encRound_decRound (f0 f1 : UInt32 → UInt32) (s k : St) :
    encRound f0 f1 (decRound f0 f1 s k) k = s := by
  obtain ⟨a, b, c, d⟩ := s
  obtain ⟨k0, k1, k2, k3⟩ := k
  simp only [decRound, encRound]
  rw [encHalf_decHalf]
  simp only
  rw [encHalf_decHalf]

theorem xor4_xor4 (s k : St) : xor4 (xor4 s k) k = s := by
  obtain ⟨a, b, c, d⟩ := s
  simp [xor4, UInt32.xor_assoc]

theorem decCore_encCore (f0 f1 : UInt32 → UInt32) (kin kout : St) (rks : List St) (x : St) :
    decCore f0 f1 kin kout rks (encCore f0 f1 kin kout rks x) = x := by
  unfold decCore encCore
  generalize hs : rks.foldl (encRound f0 f1) (xor4 x kin) = s
  obtain ⟨a, b, c, d⟩ := s
  simp only
  rw [xor4_xor4]
  simp only
  rw [← hs, foldl_inv (encRound f0 f1) (decRound f0 f1) (decRound_encRound f0 f1), xor4_xor4]

end Twofish

/-! ## RC2 -/
namespace Rc2

theorem sub3 (x k a b : UInt16) : x + k + a + b - k - a - b = x := by grind

theorem unmix_mix (s k : St) : unmix (mix s k) k = s := by
  obtain ⟨r0, r1, r2, r3⟩ := s
  obtain ⟨k0, k1, k2, k3⟩ := k
  simp only [mix, unmix, rol_rol_1, rol_rol_2, rol_rol_3, rol_rol_5, sub3]

theorem unmash_mash (K : UInt16 → UInt16) (s : St) : unmash K (mash K s) = s := by
  obtain ⟨r0, r1, r2, r3⟩ := s
  simp only [mash, unmash, UInt16.add_sub_cancel]

theorem decCore_encCore (K : UInt16 → UInt16) (k1 k2 k3 : List St) (s : St) :
    decCore K k1 k2 k3 (encCore K k1 k2 k3 s) = s := by
  unfold decCore encCore
  rw [foldl_inv mix unmix unmix_mix, unmash_mash, foldl_inv mix unmix unmix_mix, unmash_mash,
    foldl_inv mix unmix unmix_mix]

end Rc2
end XC.C12
