/-
  C04 — limb arithmetic of `updateGeneric`: one multiply-and-reduce step equals multiplication
  mod 2^130-5 on Nat, with the accumulator bound (`h2 ≤ 4`) preserved and the three overflow
  panics unreachable under the clamp.  Core Lean only (`omega`, `grind` for the ring identity).
-/
import XC.Model.C04
namespace XC.C04

theorem nat_andNot3 (x : Nat) (hx : x < 2^64) : x &&& (2^64 - 4) = 4 * (x / 4) := by
  apply Nat.eq_of_testBit_eq
  intro i
  have e1 : (2:Nat)^64 - 4 = 2^2 * (2^62 - 1) := by decide
  have e2 : 4 * (x / 4) = 2^2 * (x / 2^2) := by simp
  rw [Nat.testBit_and, e1, e2, Nat.testBit_two_pow_mul, Nat.testBit_two_pow_mul, Nat.testBit_two_pow_sub_one,
    Nat.testBit_div_two_pow]
  by_cases h : 2 ≤ i
  · have : i - 2 + 2 = i := by omega
    simp only [h, this, decide_true, Bool.true_and]
    by_cases h2 : i - 2 < 62
    · simp [h2]
    · simp [h2]
      apply Nat.testBit_lt_two_pow
      calc x < 2^64 := hx
        _ ≤ 2^i := Nat.pow_le_pow_right (by decide) (by omega)
  · simp [h]

theorem andNot3 (x : UInt64) : (x &&& maskNotLow2Bits).toNat = 4 * (x.toNat / 4) := by
  have : maskNotLow2Bits.toNat = 2^64 - 4 := by decide
  rw [UInt64.toNat_and, this]
  exact nat_andNot3 _ x.toNat_lt

theorem and3 (x : UInt64) : (x &&& maskLow2Bits).toNat = x.toNat % 4 := by
  simp only [maskLow2Bits, UInt64.toNat_and]
  exact Nat.and_two_pow_sub_one_eq_mod x.toNat 2

theorem and3' (x : UInt64) : (x &&& 3).toNat = x.toNat % 4 := and3 x

theorem shr2 (x : UInt64) : (x >>> 2).toNat = x.toNat / 4 := by
  simp [UInt64.toNat_shiftRight, Nat.shiftRight_eq_div_pow]

theorem shl62_or (a b : UInt64) (ha : a.toNat < 2^62) (hb : b.toNat < 4) :
    (a ||| b <<< 62).toNat = a.toNat + 2^62 * b.toNat := by
  rw [UInt64.toNat_or, UInt64.toNat_shiftLeft]
  have h62 : (62 : UInt64).toNat % 64 = 62 := by decide
  rw [h62]
  have : b.toNat <<< 62 < 2^64 := by
    rw [Nat.shiftLeft_eq]; omega
  rw [Nat.mod_eq_of_lt this, Nat.or_comm, ← Nat.shiftLeft_add_eq_or_of_lt ha, Nat.shiftLeft_eq]
  omega


theorem add64_1 (x y c : UInt64) : (add64 x y c).1.toNat = (x.toNat + y.toNat + c.toNat) % 2^64 := by
  simp [add64]

theorem add64_2 (x y c : UInt64) : (add64 x y c).2.toNat = (x.toNat + y.toNat + c.toNat) / 2^64 := by
  simp only [add64, UInt64.toNat_ofNat']
  have := x.toNat_lt; have := y.toNat_lt; have := c.toNat_lt
  omega

def U128.val (a : U128) : Nat := a.lo.toNat + 2^64 * a.hi.toNat
def H.val (h : H) : Nat := h.h0.toNat + 2^64 * h.h1.toNat + 2^128 * h.h2.toNat

theorem mul128_lo (a b : UInt64) : (mul128 a b).lo.toNat = (a.toNat * b.toNat) % 2^64 := by
  simp [mul128, mul64]

theorem mul128_hi (a b : UInt64) : (mul128 a b).hi.toNat = (a.toNat * b.toNat) / 2^64 := by
  simp only [mul128, mul64, UInt64.toNat_ofNat']
  have := a.toNat_lt; have := b.toNat_lt
  have : a.toNat * b.toNat < 2^64 * 2^64 := Nat.mul_lt_mul'' ‹_› ‹_›
  omega

theorem mul128_val (a b : UInt64) : (mul128 a b).val = a.toNat * b.toNat := by
  simp only [U128.val, mul128_lo, mul128_hi]; omega

theorem add128_some (a b : U128) (h : a.val + b.val < 2^128) :
    ∃ c, add128 a b = some c ∧ c.val = a.val + b.val := by
  have hz : (add64 a.hi b.hi (add64 a.lo b.lo 0).2).2 = 0 := by
    apply UInt64.toNat_inj.mp
    simp only [add64_2, U128.val] at *
    have := a.lo.toNat_lt; have := b.lo.toNat_lt
    simp; omega
  refine ⟨⟨(add64 a.lo b.lo 0).1, (add64 a.hi b.hi (add64 a.lo b.lo 0).2).1⟩, ?_, ?_⟩
  · simp [add128, hz]
  · simp only [U128.val, add64_1, add64_2] at *
    simp; omega

theorem shiftRightBy2_lo (a : U128) :
    (shiftRightBy2 a).lo.toNat = a.lo.toNat / 4 + 2^62 * (a.hi.toNat % 4) := by
  simp only [shiftRightBy2]
  rw [shl62_or, shr2, and3']
  · rw [shr2]; have := a.lo.toNat_lt; omega
  · rw [and3']; omega

theorem shiftRightBy2_hi (a : U128) : (shiftRightBy2 a).hi.toNat = a.hi.toNat / 4 := by
  simp only [shiftRightBy2, shr2]


theorem mulReduce_spec (h0 h1 h2 r0 r1 : UInt64)
    (hr0 : r0.toNat < 2^60) (hr1 : r1.toNat < 2^60) (hh2 : h2.toNat ≤ 6) :
    let T := (h0.toNat + 2^64 * h1.toNat + 2^128 * h2.toNat) * (r0.toNat + 2^64 * r1.toNat)
    ∃ g, mulReduce h0 h1 h2 r0 r1 = some g ∧ g.val = T % 2^130 + 5 * (T / 2^130) ∧ g.h2.toNat ≤ 4 := by
  intro T
  have b0 := h0.toNat_lt; have b1 := h1.toNat_lt
  have q00 : h0.toNat * r0.toNat < 2^64 * 2^60 := Nat.mul_lt_mul'' b0 hr0
  have q10 : h1.toNat * r0.toNat < 2^64 * 2^60 := Nat.mul_lt_mul'' b1 hr0
  have q01 : h0.toNat * r1.toNat < 2^64 * 2^60 := Nat.mul_lt_mul'' b0 hr1
  have q11 : h1.toNat * r1.toNat < 2^64 * 2^60 := Nat.mul_lt_mul'' b1 hr1
  have q20 : h2.toNat * r0.toNat < 7 * 2^60 := Nat.mul_lt_mul'' (by omega) hr0
  have q21 : h2.toNat * r1.toNat < 7 * 2^60 := Nat.mul_lt_mul'' (by omega) hr1
  have hT : T = h0.toNat * r0.toNat + 2^64 * (h1.toNat * r0.toNat + h0.toNat * r1.toNat)
      + 2^128 * (h2.toNat * r0.toNat + h1.toNat * r1.toNat) + 2^192 * (h2.toNat * r1.toNat) := by
    simp only [T]; grind
  obtain ⟨m1, hm1, vm1⟩ := add128_some (mul128 h1 r0) (mul128 h0 r1) (by simp only [mul128_val]; omega)
  obtain ⟨m2, hm2, vm2⟩ := add128_some (mul128 h2 r0) (mul128 h1 r1) (by simp only [mul128_val]; omega)
  have z0 : (mul128 h2 r0).hi = 0 := by
    apply UInt64.toNat_inj.mp; rw [mul128_hi]; simp; omega
  have z1 : (mul128 h2 r1).hi = 0 := by
    apply UInt64.toNat_inj.mp; rw [mul128_hi]; simp; omega
  simp only [mul128_val] at vm1 vm2
  simp only [U128.val] at vm1 vm2
  unfold mulReduce
  simp only [z0, z1, hm1, hm2, bne_self_eq_false, Bool.false_eq_true, if_false]
  have B' : T < 2 ^ 255 := by omega
  refine ⟨_, rfl, ?_⟩
  have hv : ∀ g : H, g.val = T % 2 ^ 130 + 5 * (T / 2 ^ 130) → g.h2.toNat ≤ 4 := by
    intro g hg
    simp only [H.val] at hg
    omega
  refine (fun hval => And.intro hval (hv _ hval)) ?_
  focus
    simp only [H.val, add64_1, add64_2, and3, andNot3, shiftRightBy2_lo, shiftRightBy2_hi, mul128_lo, mul128_hi,
      UInt64.toNat_add]
    generalize h0.toNat * r0.toNat = P00 at *
    generalize h1.toNat * r0.toNat = P10 at *
    generalize h0.toNat * r1.toNat = P01 at *
    generalize h1.toNat * r1.toNat = P11 at *
    generalize h2.toNat * r0.toNat = P20 at *
    generalize h2.toNat * r1.toNat = P21 at *
    generalize m1.lo.toNat = m1l at *
    generalize m1.hi.toNat = m1h at *
    generalize m2.lo.toNat = m2l at *
    generalize m2.hi.toNat = m2h at *
    clear_value T
    simp only [UInt64.toNat_zero, Nat.add_zero]
    generalize hc1 : (m1l + P00 / 2 ^ 64) / 2 ^ 64 = c1
    generalize ht1 : (m1l + P00 / 2 ^ 64) % 2 ^ 64 = t1
    generalize hc2 : (m2l + m1h + c1) / 2 ^ 64 = c2
    generalize ht2 : (m2l + m1h + c1) % 2 ^ 64 = t2
    generalize ht3 : (P21 % 2 ^ 64 + m2h + c2) % 2 ^ 64 = t3
    have A : P00 % 2 ^ 64 + 2 ^ 64 * t1 + 2 ^ 128 * t2 + 2 ^ 192 * t3 = T := by omega
    have B : T < 2 ^ 255 := by omega
    have bt1 : t1 < 2 ^ 64 := by omega
    have bt2 : t2 < 2 ^ 64 := by omega
    generalize P00 % 2 ^ 64 = t0 at *
    have bt0 : t0 < 2 ^ 64 := by omega
    clear hc1 ht1 hc2 ht2 ht3 vm1 vm2 hT q00 q10 q01 q11 q20 q21
    have bt3 : t3 < 2 ^ 63 := by omega
    have hq : T / 2 ^ 130 = t2 / 4 + 2 ^ 62 * t3 := by omega
    have hm : T % 2 ^ 130 = t0 + 2 ^ 64 * t1 + 2 ^ 128 * (t2 % 4) := by omega
    rw [hq, hm]
    have e4 : 4 * (t2 / 4) / 4 = t2 / 4 := by omega
    rw [e4]
    generalize hx : t2 / 4 = x
    generalize hy : t2 % 4 = y
    have bx : x < 2 ^ 62 := by omega
    have by' : y < 4 := by omega
    clear A B hq hm e4 hx hy bt2
    generalize hk0 : (t0 + 4 * x) / 2 ^ 64 = k0
    generalize hs0 : (t0 + 4 * x) % 2 ^ 64 = s0
    generalize hk1 : (t1 + t3 + k0) / 2 ^ 64 = k1
    generalize hs1 : (t1 + t3 + k0) % 2 ^ 64 = s1
    have F1 : s0 + 2 ^ 64 * s1 + 2 ^ 128 * (y + k1) = t0 + 2 ^ 64 * t1 + 2 ^ 128 * y + 4 * x + 2 ^ 64 * t3 := by omega
    have bk1 : k1 ≤ 1 := by omega
    have e5 : (y + k1) % 2 ^ 64 = y + k1 := by omega
    rw [e5]
    have bs0 : s0 < 2 ^ 64 := by omega
    have bs1 : s1 < 2 ^ 64 := by omega
    clear hk0 hs0 hk1 hs1 e5
    generalize hz : t3 % 4 = z
    generalize hw : t3 / 4 = w
    have ht3 : t3 = 4 * w + z := by omega
    have bz : z < 4 := by omega
    subst ht3
    clear hz hw
    generalize hk2 : (s0 + (x + 2 ^ 62 * z)) / 2 ^ 64 = k2
    generalize hu0 : (s0 + (x + 2 ^ 62 * z)) % 2 ^ 64 = u0
    generalize hk3 : (s1 + w + k2) / 2 ^ 64 = k3
    generalize hu1 : (s1 + w + k2) % 2 ^ 64 = u1
    have bk3 : k3 ≤ 1 := by omega
    have e6 : (y + k1 + k3) % 2 ^ 64 = y + k1 + k3 := by omega
    rw [e6]
    omega

end XC.C04
