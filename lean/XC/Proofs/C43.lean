/-
  C43 — helper lemmas: the swap-delete loop and the `for range` expiry loop.
-/
import XC.Model.C43
namespace XC.C43
open XC

/-! ## removeSwap (removeLocked) -/

def keep (want : Bytes) (k : PK) : Bool := !(k.blob == want)

theorem dropLast_append_last {α} (xs : List α) (l : α) (h : xs.getLast? = some l) :
    xs.dropLast ++ [l] = xs := by
  obtain ⟨ys, rfl⟩ := List.getLast?_eq_some_iff.1 h
  simp

theorem dropLast_perm {α} (xs : List α) (l : α) (h : xs.getLast? = some l) :
    List.Perm xs (l :: xs.dropLast) := by
  have h1 : List.Perm xs (xs.dropLast ++ [l]) := by rw [dropLast_append_last xs l h]
  exact h1.trans (List.perm_append_singleton l xs.dropLast)

/-- the live slice after `removeLocked(want)` is, as a multiset, the old one without `want` -/
theorem removeSwap_perm (want : Bytes) (pre rest d : List PK) (f : Bool) :
    List.Perm (removeSwap want pre rest d f).1 (pre ++ rest.filter (keep want)) := by
  fun_induction removeSwap want pre rest d f with
  | case1 pre d f => simp
  | case2 pre d f x xs hx hl =>
    have : xs = [] := by simpa using hl
    subst this
    simp [keep, hx]
  | case3 pre d f x xs hx l hl ih =>
    refine ih.trans ?_
    have hk : keep want x = false := by simp [keep, hx]
    have e : (x :: xs).filter (keep want) = xs.filter (keep want) := by simp [List.filter_cons, hk]
    rw [e]
    exact List.Perm.append_left _ ((dropLast_perm xs l hl).filter _).symm
  | case4 pre d f x xs hx ih =>
    refine ih.trans ?_
    have hk : keep want x = true := by simpa [keep] using hx
    have e : (x :: xs).filter (keep want) = x :: xs.filter (keep want) := by simp [List.filter_cons, hk]
    rw [e]
    simp

theorem removeSwap_found (want : Bytes) (pre rest d : List PK) (f : Bool) :
    (removeSwap want pre rest d f).2.2 = (f || rest.any (fun k => k.blob == want)) := by
  fun_induction removeSwap want pre rest d f with
  | case1 pre d f => simp
  | case2 pre d f x xs hx hl => simp [hx]
  | case3 pre d f x xs hx l hl ih => simp [ih, hx]
  | case4 pre d f x xs hx ih =>
    have : (x.blob == want) = false := by simpa using hx
    simp [ih, this]

/-- two images of the backing array: same length, every slot holding a key other than `want` is
    untouched, and no new values appear -/
def Agree (want : Bytes) (P Q : List PK) : Prop :=
  P.length = Q.length ∧
  (∀ (j : Nat) (e : PK), P[j]? = some e → e.blob ≠ want → Q[j]? = some e) ∧
  (∀ e ∈ Q, e ∈ P)

theorem Agree.refl (want : Bytes) (P : List PK) : Agree want P P :=
  ⟨rfl, fun _ _ h _ => h, fun _ h => h⟩

theorem Agree.trans {want : Bytes} {P Q R : List PK} (h1 : Agree want P Q) (h2 : Agree want Q R) :
    Agree want P R :=
  ⟨h1.1.trans h2.1, fun j e h hb => h2.2.1 j e (h1.2.1 j e h hb) hb, fun e h => h1.2.2 e (h2.2.2 e h)⟩

theorem Agree.append {want : Bytes} {P Q : List PK} (h : Agree want P Q) (s : List PK) :
    Agree want (P ++ s) (Q ++ s) := by
  refine ⟨by simp [h.1], ?_, ?_⟩
  · intro j e hj hb
    by_cases hlt : j < P.length
    · rw [List.getElem?_append_left hlt] at hj
      rw [List.getElem?_append_left (by rw [← h.1]; exact hlt)]
      exact h.2.1 j e hj hb
    · have hge : P.length ≤ j := by omega
      rw [List.getElem?_append_right hge] at hj
      rw [List.getElem?_append_right (by rw [← h.1]; exact hge), ← h.1]
      exact hj
  · intro e he
    rcases List.mem_append.1 he with he | he
    · exact List.mem_append_left _ (h.2.2 e he)
    · exact List.mem_append_right _ he

theorem agree_overwrite (want : Bytes) (pre t : List PK) (x l : PK) (hx : x.blob = want) (hl : l ∈ t) :
    Agree want (pre ++ x :: t) (pre ++ l :: t) := by
  refine ⟨by simp, ?_, ?_⟩
  · intro j e hj hb
    by_cases hlt : j < pre.length
    · rw [List.getElem?_append_left hlt] at hj ⊢; exact hj
    · have hge : pre.length ≤ j := by omega
      rw [List.getElem?_append_right hge] at hj ⊢
      cases hjj : j - pre.length with
      | zero =>
        rw [hjj] at hj
        simp at hj
        subst hj
        exact absurd hx hb
      | succ m =>
        rw [hjj] at hj
        simpa using hj
  · intro e he
    rcases List.mem_append.1 he with he | he
    · exact List.mem_append_left _ he
    · rcases List.mem_cons.1 he with rfl | he
      · exact List.mem_append_right _ (List.mem_cons_of_mem _ hl)
      · exact List.mem_append_right _ (List.mem_cons_of_mem _ he)

/-- the backing array `pre ++ rest ++ dropped` before and after `removeLocked(want)` -/
theorem removeSwap_agree (want : Bytes) (pre rest d : List PK) (f : Bool) :
    Agree want (pre ++ rest ++ d)
      ((removeSwap want pre rest d f).1 ++ (removeSwap want pre rest d f).2.1) := by
  fun_induction removeSwap want pre rest d f with
  | case1 pre d f => simpa using Agree.refl want _
  | case2 pre d f x xs hx hl =>
    have : xs = [] := by simpa using hl
    subst this
    simpa using Agree.refl want _
  | case3 pre d f x xs hx l hl ih =>
    refine Agree.trans ?_ ih
    have hxs : xs.dropLast ++ [l] = xs := dropLast_append_last xs l hl
    have e1 : pre ++ x :: xs ++ d = pre ++ x :: (xs ++ d) := by simp
    have e2 : pre ++ l :: xs.dropLast ++ l :: d = pre ++ l :: (xs ++ d) := by
      conv => rhs; rw [← hxs]
      simp
    rw [e1, e2]
    refine agree_overwrite want pre (xs ++ d) x l (by simpa using hx) ?_
    apply List.mem_append_left
    rw [← hxs]; simp
  | case4 pre d f x xs hx ih =>
    have : pre ++ x :: xs ++ d = pre ++ [x] ++ xs ++ d := by simp
    rw [this]; exact ih

/-! ## the expiry loop -/

/-- loop invariant of `expireKeysLocked` at index `i` with `fuel` iterations to go -/
structure ExpInv (now : Int) (orig : List PK) (fuel i : Nat) (live stale : List PK) : Prop where
  len : (live ++ stale).length = fuel + i
  mem : ∀ e ∈ live ++ stale, e ∈ orig
  removed : ∃ S : List Bytes, (∀ b ∈ S, ∃ k ∈ orig, k.blob = b ∧ k.expired now = true) ∧
      List.Perm live (orig.filter fun e => !S.contains e.blob)
  pending : ∀ e ∈ live, e.expired now = true → ∃ j, i ≤ j ∧ (live ++ stale)[j]? = some e

theorem expireFrom_spec (now : Int) (orig : List PK) (fuel i : Nat) (live stale : List PK)
    (inv : ExpInv now orig fuel i live stale) :
    ∃ ks, expireFrom now fuel i live stale = some ks ∧
      (∀ e ∈ ks, e.expired now = false) ∧
      ∃ S : List Bytes, (∀ b ∈ S, ∃ k ∈ orig, k.blob = b ∧ k.expired now = true) ∧
        List.Perm ks (orig.filter fun e => !S.contains e.blob) := by
  induction fuel generalizing i live stale with
  | zero =>
    refine ⟨live, rfl, ?_, inv.removed⟩
    intro e he
    cases hexp : e.expired now with
    | false => rfl
    | true =>
      obtain ⟨j, hj, hget⟩ := inv.pending e he hexp
      have hlen := inv.len
      have : j < (live ++ stale).length := by
        rcases List.getElem?_eq_some_iff.1 hget with ⟨h, _⟩; exact h
      omega
  | succ fuel ih =>
    have hi : i < (live ++ stale).length := by have := inv.len; omega
    have hget : (live ++ stale)[i]? = some (live ++ stale)[i] := List.getElem?_eq_getElem hi
    generalize hk : (live ++ stale)[i] = k at hget
    have hkmem : k ∈ live ++ stale := by rw [← hk]; exact List.getElem_mem hi
    unfold expireFrom
    simp only [hget]
    by_cases hexp : k.expired now = true
    · simp only [hexp, if_true]
      have hag := removeSwap_agree k.blob [] live [] false
      simp only [List.nil_append, List.append_nil] at hag
      have hperm := removeSwap_perm k.blob [] live [] false
      simp only [List.nil_append] at hperm
      generalize removeSwap k.blob [] live [] false = res at hag hperm
      obtain ⟨live', dropped, fnd⟩ := res
      simp only at hag hperm ⊢
      have hag' : Agree k.blob (live ++ stale) (live' ++ dropped ++ stale) := hag.append stale
      apply ih
      constructor
      · have := hag'.1
        have h0 := inv.len
        simp only [List.append_assoc] at this ⊢
        omega
      · intro e he
        apply inv.mem
        apply hag'.2.2
        simpa [List.append_assoc] using he
      · obtain ⟨S, hS, hp⟩ := inv.removed
        refine ⟨k.blob :: S, ?_, ?_⟩
        · intro b hb
          rcases List.mem_cons.1 hb with rfl | hb
          · exact ⟨k, inv.mem k hkmem, rfl, hexp⟩
          · exact hS b hb
        · refine hperm.trans ?_
          refine (hp.filter _).trans ?_
          rw [List.filter_filter]
          apply List.Perm.of_eq
          apply List.filter_congr
          intro e _
          simp only [keep, List.contains_cons]
          cases h1 : (e.blob == k.blob) <;> cases h2 : S.contains e.blob <;> simp
      · intro e he hee
        have he' : e ∈ live.filter (keep k.blob) := hperm.subset he
        obtain ⟨hel, hkeep⟩ := List.mem_filter.1 he'
        have hne : e.blob ≠ k.blob := by simpa [keep] using hkeep
        obtain ⟨j, hj, hgj⟩ := inv.pending e hel hee
        have hji : j ≠ i := by
          rintro rfl
          rw [hget] at hgj
          simp at hgj
          exact hne (by rw [hgj])
        refine ⟨j, by omega, ?_⟩
        have := hag'.2.1 j e hgj hne
        simpa [List.append_assoc] using this
    · have hexp' : k.expired now = false := by simpa using hexp
      simp only [hexp', Bool.false_eq_true, if_false]
      apply ih
      constructor
      · have := inv.len; omega
      · exact inv.mem
      · exact inv.removed
      · intro e he hee
        obtain ⟨j, hj, hgj⟩ := inv.pending e he hee
        have hji : j ≠ i := by
          rintro rfl
          rw [hget] at hgj
          simp at hgj
          rw [hgj] at hexp'
          rw [hexp'] at hee
          cases hee
        exact ⟨j, by omega, hgj⟩

theorem expInv_init (now : Int) (keys : List PK) : ExpInv now keys keys.length 0 keys [] := by
  constructor
  · simp
  · intro e he; simpa using he
  · exact ⟨[], by simp, by rw [List.filter_eq_self.2 (by intro a _; simp)]⟩
  · intro e he _
    obtain ⟨j, hj, hget⟩ := List.getElem_of_mem he
    refine ⟨j, Nat.zero_le _, ?_⟩
    simp [List.getElem?_eq_getElem hj, hget]

theorem blob_inj {keys : List PK} (hnd : (keys.map (·.blob)).Nodup) {a b : PK} (ha : a ∈ keys) (hb : b ∈ keys)
    (h : a.blob = b.blob) : a = b := by
  induction keys with
  | nil => cases ha
  | cons k ks ih =>
    simp only [List.map_cons, List.nodup_cons, List.mem_map, not_exists, not_and] at hnd
    rcases List.mem_cons.1 ha with rfl | ha'
    · rcases List.mem_cons.1 hb with rfl | hb'
      · rfl
      · exact absurd h.symm (hnd.1 b hb')
    · rcases List.mem_cons.1 hb with rfl | hb'
      · exact absurd h (hnd.1 a ha')
      · exact ih hnd.2 ha' hb' 

end XC.C43
