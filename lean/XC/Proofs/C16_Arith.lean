/-
  C16 — argument validation arithmetic and PBKDF2 output lengths (helpers for Props/C16).
-/
import XC.Model.C16
import XC.Prim.Lemmas
namespace XC.C16
open XC

/-! ## 1. argument validation: accepted ⇒ no `int` overflow anywhere -/

theorem le_tdiv_iff {a b c : Int} (ha : 0 ≤ a) (hc : 0 < c) : b ≤ a.tdiv c ↔ b * c ≤ a := by
  rw [Int.tdiv_eq_ediv_of_nonneg ha]
  exact Int.le_ediv_iff_mul_le hc

theorem wrap64_id {x : Int} (h1 : -2 ^ 63 ≤ x) (h2 : x < 2 ^ 63) : wrap64 x = x := by
  unfold wrap64; omega

structure Accepted (n r p k : Int) : Prop where
  n2 : 2 ≤ n
  npow : andPred n = 0
  r1 : 1 ≤ r
  p1 : 1 ≤ p
  rp : r * p < 2 ^ 30
  nr : n * r ≤ 2 ^ 56 - 1
  k1 : 1 ≤ k
  kmax : k ≤ (2 ^ 32 - 1) * 32

theorem maxInt128 : maxInt.tdiv 128 = 2 ^ 56 - 1 := by decide
theorem maxInt256 : maxInt.tdiv 256 = 2 ^ 55 - 1 := by decide

theorem accepted_of_validate {n r p k : Int} (hkI : k < 2 ^ 63) (h : validate n r p k = .accept) : Accepted n r p k := by
  unfold validate at h
  split at h
  · cases h
  rename_i hn
  split at h
  · cases h
  rename_i hrp
  have hr : 0 < r := by omega
  have hp : 0 < p := by omega
  cases ht : tooLarge n r p with
  | none => simp [ht] at h
  | some b =>
    cases b with
    | true => simp [ht] at h
    | false =>
      simp only [ht] at h
      split at h
      · cases h
      rename_i hk
      unfold tooLarge goDiv at ht
      rw [maxInt128, maxInt256, if_neg (by omega : ¬ p = 0), if_neg (by omega : ¬ r = 0)] at ht
      dsimp only at ht
      have h1 : ¬ (r.toNat % 2 ^ 64 * (p.toNat % 2 ^ 64) % 2 ^ 64 ≥ 2 ^ 30) := by
        intro hc; rw [if_pos hc] at ht; cases ht
      rw [if_neg h1] at ht
      have h2 : ¬ (r > (2 ^ 56 - 1 : Int).tdiv p) := by
        intro hc; rw [if_pos hc] at ht; cases ht
      rw [if_neg h2] at ht
      have h3 : ¬ (r > 2 ^ 55 - 1) := by
        intro hc; rw [if_pos hc] at ht; cases ht
      rw [if_neg h3] at ht
      have h4 : ¬ (n > (2 ^ 56 - 1 : Int).tdiv r) := by
        intro hc; rw [if_pos hc] at ht; cases ht
      have h2' : r * p ≤ 2 ^ 56 - 1 := (le_tdiv_iff (by decide) hp).1 (by omega)
      have h4' : n * r ≤ 2 ^ 56 - 1 := (le_tdiv_iff (by decide) hr).1 (by omega)
      have hrp30 : r * p < 2 ^ 30 := by
        have hR : r.toNat % 2 ^ 64 = r.toNat := Nat.mod_eq_of_lt (by omega)
        have hP : p.toNat % 2 ^ 64 = p.toNat := by
          apply Nat.mod_eq_of_lt
          have : 1 * p ≤ r * p := Int.mul_le_mul_of_nonneg_right (by omega) (by omega)
          omega
        rw [hR, hP] at h1
        have e : (r * p) = ((r.toNat * p.toNat : Nat) : Int) := by
          rw [Int.natCast_mul, Int.toNat_of_nonneg (by omega), Int.toNat_of_nonneg (by omega)]
        have hlt : r.toNat * p.toNat < 2 ^ 64 := by omega
        rw [Nat.mod_eq_of_lt hlt] at h1
        omega
      exact ⟨by omega, by have := hn; simp at this; exact this.2, by omega, by omega, hrp30, h4', by omega, by omega⟩

/-- the accepted set in plain arithmetic: N a power of two ≥ 2 (as `N&(N-1) = 0`), r, p ≥ 1,
    r·p < 2^30, N·r ≤ 2^56 − 1 (= maxInt/128), 1 ≤ keyLen ≤ (2^32−1)·32 -/
theorem validate_accept_iff {n r p k : Int} (hkI : k < 2 ^ 63) :
    validate n r p k = .accept ↔ Accepted n r p k := by
  constructor
  · exact accepted_of_validate hkI
  · rintro ⟨n2, np, r1, p1, rp, nr, k1, kmax⟩
    have hpp : 1 * p ≤ r * p := Int.mul_le_mul_of_nonneg_right r1 (by omega)
    have hrr : r * 1 ≤ r * p := Int.mul_le_mul_of_nonneg_left p1 (by omega)
    unfold validate
    rw [if_neg (by simp [np]; omega), if_neg (by omega)]
    have ht : tooLarge n r p = some false := by
      unfold tooLarge goDiv
      rw [maxInt128, maxInt256, if_neg (by omega : ¬ p = 0), if_neg (by omega : ¬ r = 0)]
      dsimp only
      have hR : r.toNat % 2 ^ 64 = r.toNat := Nat.mod_eq_of_lt (by omega)
      have hP : p.toNat % 2 ^ 64 = p.toNat := Nat.mod_eq_of_lt (by omega)
      have e : (r * p) = ((r.toNat * p.toNat : Nat) : Int) := by
        rw [Int.natCast_mul, Int.toNat_of_nonneg (by omega), Int.toNat_of_nonneg (by omega)]
      have hlt : r.toNat * p.toNat < 2 ^ 64 := by omega
      rw [hR, hP, Nat.mod_eq_of_lt hlt]
      rw [if_neg (by omega)]
      have h2 : r ≤ (2 ^ 56 - 1 : Int).tdiv p := (le_tdiv_iff (by decide) (by omega)).2 (by omega)
      have h4 : n ≤ (2 ^ 56 - 1 : Int).tdiv r := (le_tdiv_iff (by decide) (by omega)).2 nr
      rw [if_neg (by omega), if_neg (by omega), if_neg (by omega)]
    rw [ht]
    dsimp only
    have : k.toNat % 2 ^ 64 = k.toNat := Nat.mod_eq_of_lt (by omega)
    rw [if_neg (by rw [this]; omega)]

/-- **validate_no_overflow.** For parameters that pass every check of `Key`, the true (unbounded)
    products fit in a Go `int`, so each wrapped `int` expression of the code equals the
    mathematical value: `64*r`, `32*N*r`, `p*128*r`; also r·p < 2^30 holds for the true product
    (the code only tests the uint64-wrapped one), and 1 ≤ keyLen ≤ (2^32−1)·32. -/
theorem validate_no_overflow {n r p k : Int} (hkI : k < 2 ^ 63) (h : validate n r p k = .accept) :
    r * p < 2 ^ 30 ∧ 128 * r * p ≤ maxInt ∧ 128 * r * n ≤ maxInt ∧ 64 * r ≤ maxInt ∧
    wrap64 (64 * r) = 64 * r ∧ wrap64 (wrap64 (32 * n) * r) = 32 * n * r ∧
    wrap64 (wrap64 (p * 128) * r) = p * 128 * r ∧ 1 ≤ k ∧ k ≤ (2 ^ 32 - 1) * 32 := by
  obtain ⟨n2, _, r1, p1, rp, nr, k1, kmax⟩ := accepted_of_validate hkI h
  have hnn : n * 1 ≤ n * r := Int.mul_le_mul_of_nonneg_left r1 (by omega)
  have hrr : 2 * r ≤ n * r := Int.mul_le_mul_of_nonneg_right n2 (by omega)
  have hpp : 1 * p ≤ r * p := Int.mul_le_mul_of_nonneg_right r1 (by omega)
  have e1 : 128 * r * p = 128 * (r * p) := by rw [Int.mul_assoc]
  have e2 : 128 * r * n = 128 * (n * r) := by rw [Int.mul_assoc, Int.mul_comm r n]
  have e3 : 32 * n * r = 32 * (n * r) := by rw [Int.mul_assoc]
  have e4 : p * 128 * r = 128 * (r * p) := by rw [Int.mul_comm p 128, Int.mul_assoc, Int.mul_comm p r]
  have w1 : wrap64 (32 * n) = 32 * n := wrap64_id (by omega) (by omega)
  have w2 : wrap64 (p * 128) = p * 128 := wrap64_id (by omega) (by omega)
  refine ⟨rp, ?_, ?_, ?_, wrap64_id (by omega) (by omega), ?_, ?_, k1, kmax⟩
  · unfold maxInt; omega
  · unfold maxInt; omega
  · unfold maxInt; omega
  · rw [w1]; exact wrap64_id (by omega) (by omega)
  · rw [w2]; exact wrap64_id (by omega) (by omega)

/-- the two `maxInt/128/x` divisions are never by zero: the `r <= 0 || p <= 0` check comes first -/
theorem validate_never_div_panics (n r p k : Int) : validate n r p k ≠ .divPanic := by
  unfold validate
  split
  · simp
  split
  · simp
  rename_i _ hrp
  have hr : ¬ r = 0 := by omega
  have hp : ¬ p = 0 := by omega
  have : tooLarge n r p ≠ none := by
    unfold tooLarge goDiv
    rw [if_neg hp, if_neg hr]
    dsimp only
    repeat' split
    all_goals simp
  cases ht : tooLarge n r p with
  | none => exact absurd ht this
  | some b => cases b <;> simp <;> split <;> simp

/-! ## 2. PBKDF2 output length -/

theorem pbkdf2F_length (pw : Bytes) : ∀ (c : Nat) (u t : Bytes), t.length = 32 → (pbkdf2F pw u t c).length = 32 := by
  intro c
  induction c with
  | zero => intro u t h; exact h
  | succ c ih =>
    intro u t h
    unfold pbkdf2F
    exact ih _ _ (by simp [xorBytes_length, Prim.hmacSha256_length, h])

theorem pbkdf2Block_length (pw salt : Bytes) (iter i : Nat) : (pbkdf2Block pw salt iter i).length = 32 := by
  unfold pbkdf2Block
  exact pbkdf2F_length pw _ _ _ (Prim.hmacSha256_length _ _)

theorem pbkdf2Blocks_length (pw salt : Bytes) (iter : Nat) : ∀ k i, (pbkdf2Blocks pw salt iter k i).length = 32 * k := by
  intro k
  induction k with
  | zero => intro i; rfl
  | succ k ih => intro i; simp [pbkdf2Blocks, pbkdf2Block_length, ih]; omega

/-- crypto/pbkdf2 succeeds with exactly keyLen bytes for 1 ≤ keyLen ≤ (2^32−1)·32 -/
theorem pbkdf2Std_some (pw salt : Bytes) (iter : Nat) (k : Int) (h1 : 1 ≤ k) (h2 : k ≤ (2 ^ 32 - 1) * 32) :
    ∃ out, pbkdf2Std pw salt iter k = some out ∧ out.length = k.toNat := by
  unfold pbkdf2Std
  rw [if_neg (by omega)]
  have hw : wrap64 (k + 32) = k + 32 := wrap64_id (by omega) (by omega)
  have hd : (k + 32 - 1).tdiv 32 = (k + 32 - 1) / 32 := Int.tdiv_eq_ediv_of_nonneg (by omega)
  simp only [hw, hd]
  rw [if_neg (by omega)]
  refine ⟨_, rfl, ?_⟩
  rw [List.length_take, pbkdf2Blocks_length]
  omega


theorem makeLen_natCast (n : Nat) : makeLen (n : Int) = some n := by
  unfold makeLen; rw [if_neg (by omega), Int.toNat_natCast]

end XC.C16
