/-
  C03 — refinement: the concrete Cipher (counter, len, buf, overflow, cached p-values), bufSize = 64,
  implements "xor with the RFC 8439 keystream at an abstract byte position".
-/
import XC.Proofs.C03_Block
namespace XC.C03

/-! ## the abstract side -/

/-- byte `i` of the RFC 8439 keystream of (key, nonce): byte `i % 64` of block `i / 64` -/
def ks (k : KeyW) (n : NonceW) (i : Nat) : UInt8 :=
  (blockW k (UInt32.ofNat (i / 64)) n).getD (i % 64) 0

/-- keystream bytes `pos, pos+1, …, pos+len-1` -/
def ksRange (k : KeyW) (n : NonceW) (pos len : Nat) : Bytes := (List.range' pos len).map (ks k n)

/-- number of keystream bytes of one (key, nonce): 2^32 blocks -/
def limit : Nat := 2 ^ 38

/-- the specification of one step on the abstract state "byte position in the keystream" -/
def specStep (k : KeyW) (n : NonceW) (pos : Nat) : Op → Except Panic (Nat × Bytes)
  | .xor src =>
    if src.length = 0 then .ok (pos, [])
    else if pos + src.length > limit then .error .overflow
    else .ok (pos + src.length, xorBytes src (ksRange k n pos src.length))
  | .setCounter c =>
    if pos > limit - 64 ∨ 64 * c.toNat < pos then .error .rollback
    else .ok (64 * c.toNat, [])

def specRun (k : KeyW) (n : NonceW) : Nat → List Op → List Bytes × Option Panic
  | _, [] => ([], none)
  | pos, op :: rest =>
    match specStep k n pos op with
    | .error p => ([], some p)
    | .ok (pos', out) =>
      let r := specRun k n pos' rest
      (out :: r.1, r.2)

/-! ## keystream lemmas -/

theorem ksRange_length (k n) (pos len : Nat) : (ksRange k n pos len).length = len := by
  simp [ksRange]

theorem ksRange_add (k n) (pos a b : Nat) :
    ksRange k n pos (a + b) = ksRange k n pos a ++ ksRange k n (pos + a) b := by
  simp only [ksRange, ← List.map_append]
  congr 1
  rw [List.range'_append_1, Nat.add_comm]

theorem take_range'_min (pos len j : Nat) : (List.range' pos len).take j = List.range' pos (min j len) := by
  apply List.ext_getElem
  · simp
  · intro i h1 h2
    simp

theorem ksRange_take (k n) (pos len j : Nat) :
    (ksRange k n pos len).take j = ksRange k n pos (min j len) := by
  simp [ksRange, ← List.map_take, take_range'_min]

theorem ksRange_drop (k n) (pos len j : Nat) :
    (ksRange k n pos len).drop j = ksRange k n (pos + j) (len - j) := by
  simp [ksRange, ← List.map_drop, List.drop_range']

theorem blockW_length (k : KeyW) (c : UInt32) (n : NonceW) : (blockW k c n).length = 64 := by
  simp [blockW, St.serialize, w2b_length]

theorem ksRange_block (k n) (c : Nat) : ksRange k n (64 * c) 64 = blockW k (UInt32.ofNat c) n := by
  apply List.ext_getElem
  · simp [ksRange_length, blockW_length]
  · intro j h1 h2
    simp only [ksRange_length] at h1
    simp only [ksRange, List.getElem_map, List.getElem_range', ks]
    have e1 : (64 * c + 1 * j) / 64 = c := by omega
    have e2 : (64 * c + 1 * j) % 64 = j := by omega
    rw [e1, e2, List.getD_eq_getElem?_getD, List.getElem?_eq_getElem h2]
    rfl

/-! ## the block loop -/

theorem precomp_ok (s : Cipher) (h : s.precompDone = true → PrecompOK s) : PrecompOK (precomp s) := by
  unfold precomp
  by_cases hd : s.precompDone = true
  · simp only [hd, if_true]; exact h hd
  · simp only [hd]
    refine ⟨rfl, rfl, rfl, rfl⟩

theorem precomp_key (s : Cipher) : (precomp s).key = s.key := by unfold precomp; split <;> rfl
theorem precomp_nonce (s : Cipher) : (precomp s).nonce = s.nonce := by unfold precomp; split <;> rfl
theorem precomp_counter (s : Cipher) : (precomp s).counter = s.counter := by unfold precomp; split <;> rfl
theorem precomp_buf (s : Cipher) : (precomp s).buf = s.buf := by unfold precomp; split <;> rfl
theorem precomp_len (s : Cipher) : (precomp s).len = s.len := by unfold precomp; split <;> rfl
theorem precomp_overflow (s : Cipher) : (precomp s).overflow = s.overflow := by unfold precomp; split <;> rfl

/-- advance the counter by `j` blocks (32-bit wrap-around, as `s.counter += 1` does) -/
def adv (s : Cipher) (j : Nat) : Cipher := { s with counter := s.counter + UInt32.ofNat j }

theorem adv_zero (s : Cipher) : adv s 0 = s := by simp [adv]

theorem blocksLoop_eq (j : Nat) (s : Cipher) (hp : PrecompOK s) (src : Bytes) (hl : src.length = 64 * j)
    (hc : s.counter.toNat + j ≤ 2 ^ 32) :
    blocksLoop j s src = (adv s j, xorBytes src (ksRange s.key s.nonce (64 * s.counter.toNat) (64 * j))) := by
  induction j generalizing s src with
  | zero =>
    have : src = [] := List.eq_nil_of_length_eq_zero (by omega)
    subst this
    simp [blocksLoop, adv_zero, xorBytes]
  | succ j ih =>
    have hge : ¬ src.length < 64 := by omega
    simp only [blocksLoop, hge, if_false]
    have hlt : s.counter.toNat < 2 ^ 32 := by omega
    have hsrc : src = src.take 64 ++ src.drop 64 := (List.take_append_drop 64 src).symm
    have hks : ksRange s.key s.nonce (64 * s.counter.toNat) (64 * (j + 1)) =
        blockW s.key s.counter s.nonce ++ ksRange s.key s.nonce (64 * (s.counter.toNat + 1)) (64 * j) := by
      rw [show 64 * (j + 1) = 64 + 64 * j by omega, ksRange_add, ksRange_block]
      congr 2
      simp
    have hx : xorBlockGo s (src.take 64) = xorBytes (src.take 64) (blockW s.key s.counter s.nonce) :=
      xorBlockGo_eq s hp _ (by simp; omega)
    by_cases hj : j = 0
    · subst hj
      have hd : src.drop 64 = [] := List.eq_nil_of_length_eq_zero (by simp; omega)
      simp only [blocksLoop, hx, List.append_nil]
      rw [hks]
      simp only [Nat.mul_zero, ksRange, List.range'_zero, List.map_nil, List.append_nil]
      have : src.take 64 = src := by rw [List.take_of_length_le (by omega)]
      rw [this]
      rfl
    · have hc' : (s.counter + 1).toNat = s.counter.toNat + 1 := by
        rw [UInt32.toNat_add]; simp; omega
      have hp' : PrecompOK { s with counter := s.counter + 1 } := hp
      have := ih { s with counter := s.counter + 1 } hp' (src.drop 64) (by simp; omega) (by simp only [hc']; omega)
      rw [this, hx]
      simp only [hc']
      rw [hks]
      conv => rhs; rw [hsrc]
      rw [xorBytes_append _ _ _ _ (by simp [blockW_length]; omega)]
      congr 1
      simp [adv, UInt32.add_assoc, UInt32.add_comm]

/-! ## abstraction and invariant (bufSize = 64·m) -/

/-- the block counter as a natural number: after the last block the 32-bit field has wrapped to 0 and
    `overflow` records it -/
def tc (s : Cipher) : Nat := if s.overflow then 2 ^ 32 else s.counter.toNat

/-- abstract state: the byte position in the keystream of the next byte to be used -/
def pos (s : Cipher) : Nat := 64 * tc s - s.len

structure Inv (m : Nat) (s : Cipher) : Prop where
  mpos : 0 < m
  buflen : s.buf.length = 64 * m
  lenlt : s.len < 64 * m
  lenle : s.len ≤ 64 * tc s
  ovf : s.overflow = true → s.counter = 0
  bufks : s.buf.drop (64 * m - s.len) = ksRange s.key s.nonce (pos s) s.len
  pre : s.precompDone = true → PrecompOK s
  /-- once the last block has been generated, less than one block is buffered (the last refill was done
      one block at a time) -/
  ovflen : s.overflow = true → s.len < 64

/-- `s'` is `s` with the counter set to `c` (and possibly the cache filled) -/
structure Same (s s' : Cipher) (c : UInt32) : Prop where
  key : s'.key = s.key
  nonce : s'.nonce = s.nonce
  counter : s'.counter = c
  overflow : s'.overflow = s.overflow
  buf : s'.buf = s.buf
  len : s'.len = s.len
  pre : s'.precompDone = true → PrecompOK s'

theorem blocks_spec (s : Cipher) (hpre : s.precompDone = true → PrecompOK s) (src : Bytes) (j : Nat)
    (hl : src.length = 64 * j) (hc : s.counter.toNat + j ≤ 2 ^ 32) :
    ∃ s', blocks s src = .ok (s', xorBytes src (ksRange s.key s.nonce (64 * s.counter.toNat) (64 * j))) ∧
      Same s s' (s.counter + UInt32.ofNat j) := by
  have h0 : src.length % 64 = 0 := by omega
  have hj : src.length / 64 = j := by omega
  have hp := precomp_ok s hpre
  have := blocksLoop_eq j (precomp s) hp src hl (by rw [precomp_counter]; exact hc)
  refine ⟨adv (precomp s) j, ?_, ?_⟩
  · simp only [blocks, blocksGeneric, h0, hj, this, precomp_key, precomp_nonce, precomp_counter]
    simp
  · refine ⟨precomp_key s, precomp_nonce s, ?_, precomp_overflow s, precomp_buf s, precomp_len s, fun _ => hp⟩
    simp [adv, precomp_counter]

end XC.C03
