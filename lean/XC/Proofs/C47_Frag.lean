/-
  C47 — lemmas for the fragmentation layer: Itoa/Atoi, Split, processFragment on encode's output.
-/
import XC.Model.C47_Wire
namespace XC.C47

/-! ### digits -/

theorem digitsOf_lt (n : Nat) : ∀ d ∈ digitsOf n, d < 10 := by
  induction n using digitsOf.induct with
  | case1 n h => intro d hd; rw [digitsOf] at hd; simp [h] at hd; omega
  | case2 n h ih =>
    intro d hd; rw [digitsOf] at hd; simp [h] at hd
    rcases hd with hd | hd
    · exact ih d hd
    · omega

theorem digitsOf_ne_nil (n : Nat) : digitsOf n ≠ [] := by
  rw [digitsOf]; split <;> simp

theorem digitsOf_foldl (n : Nat) : (digitsOf n).foldl (fun a d => a * 10 + d) 0 = n := by
  induction n using digitsOf.induct with
  | case1 n h => rw [digitsOf]; simp [h]
  | case2 n h ih => rw [digitsOf]; simp [h, List.foldl_append, ih]; omega

theorem digitChar_toNat (d : Nat) (h : d < 10) : (digitChar d).toNat = 48 + d := by
  simp [digitChar, UInt8.toNat_ofNat']; omega

theorem isDigit_digitChar (d : Nat) (h : d < 10) : isDigit (digitChar d) = true := by
  simp [isDigit, digitChar_toNat d h]; omega

theorem parseDigits_map (ds : List Nat) (h : ∀ d ∈ ds, d < 10) (acc : Nat) :
    parseDigits (ds.map digitChar) acc = some (ds.foldl (fun a d => a * 10 + d) acc) := by
  induction ds generalizing acc with
  | nil => simp [parseDigits]
  | cons d r ih =>
    have hd : d < 10 := h d (by simp)
    simp only [List.map_cons, parseDigits, isDigit_digitChar d hd, if_true, List.foldl_cons]
    rw [digitChar_toNat d hd, ih (fun x hx => h x (by simp [hx]))]
    congr 2; omega

theorem itoa_ne_nil (n : Nat) : itoa n ≠ [] := by
  simp [itoa, digitsOf_ne_nil]

theorem itoa_digits (n : Nat) : ∀ c ∈ itoa n, 48 ≤ c.toNat ∧ c.toNat ≤ 57 := by
  intro c hc
  simp only [itoa, List.mem_map] at hc
  obtain ⟨d, hd, rfl⟩ := hc
  have := digitsOf_lt n d hd
  rw [digitChar_toNat d this]; omega

theorem comma_not_mem_itoa (n : Nat) : comma ∉ itoa n := by
  intro h
  have := itoa_digits n comma h
  simp [comma] at this

theorem atoi_itoa (n : Nat) (h : n < 2 ^ 63) : atoi (itoa n) = some (n : Int) := by
  have hne := itoa_ne_nil n
  have hp : parseDigits (itoa n) 0 = some n := by
    rw [itoa, parseDigits_map _ (digitsOf_lt n), digitsOf_foldl]
  cases hs : itoa n with
  | nil => exact absurd hs hne
  | cons c r =>
    have hc := itoa_digits n c (by rw [hs]; simp)
    have h45 : (c == 45) = false := by
      apply beq_false_of_ne; intro e; subst e; simp at hc
    have h43 : (c == 43) = false := by
      apply beq_false_of_ne; intro e; subst e; simp at hc
    rw [hs] at hp
    simp only [atoi, h45, h43, Bool.or_self, Bool.false_eq_true, if_false, List.isEmpty_cons, hp]
    simp [h]

/-! ### split -/

theorem split_ne_nil (sep : UInt8) (b : Bytes) : split sep b ≠ [] := by
  induction b with
  | nil => simp [split]
  | cons c r ih =>
    simp only [split]; split
    · simp
    · split <;> simp

theorem split_no_sep (sep : UInt8) (a : Bytes) (h : sep ∉ a) : split sep a = [a] := by
  induction a with
  | nil => simp [split]
  | cons c r ih =>
    have hc : c ≠ sep := by intro e; apply h; simp [e]
    have hr : sep ∉ r := by intro e; apply h; simp [e]
    simp [split, hc, ih hr]

theorem split_append (sep : UInt8) (a rest : Bytes) (h : sep ∉ a) :
    split sep (a ++ sep :: rest) = a :: split sep rest := by
  induction a with
  | nil => simp [split]
  | cons c r ih =>
    have hc : c ≠ sep := by intro e; apply h; simp [e]
    have hr : sep ∉ r := by intro e; apply h; simp [e]
    simp [split, hc, ih hr]

/-- a fragment as `encode` writes it splits into exactly k, n, piece, "" -/
theorem split_fragment (k n : Nat) (piece : Bytes) (hp : comma ∉ piece) :
    split comma (itoa k ++ [comma] ++ itoa n ++ [comma] ++ piece ++ [comma]) = [itoa k, itoa n, piece, []] := by
  have e : itoa k ++ [comma] ++ itoa n ++ [comma] ++ piece ++ [comma]
      = itoa k ++ comma :: (itoa n ++ comma :: (piece ++ comma :: [])) := by simp
  rw [e, split_append _ _ _ (comma_not_mem_itoa k), split_append _ _ _ (comma_not_mem_itoa n),
    split_append _ _ _ hp]
  simp [split]

theorem drop_prefix (rest : Bytes) : (fragmentPrefix ++ rest).drop fragmentPrefix.length = rest := by
  simp [fragmentPrefix]

/-- `processFragment` on fragment number `k` of `n` as written by `encode` -/
theorem processFragment_encoded (s : FragSt) (k n : Nat) (piece : Bytes) (hp : comma ∉ piece)
    (hk : 1 ≤ k) (hkn : k ≤ n) (hn : n < 2 ^ 63) :
    processFragment s (fragHeader k n ++ piece ++ [comma]) =
      (let s1 : FragSt :=
          if k = 1 then ⟨k, n, fragSet s.frag piece⟩
          else if n = s.n ∧ k = s.k + 1 then ⟨s.k + 1, s.n, fragAppend s.frag piece⟩
          else ⟨0, 0, fragClear s.frag⟩
        if s1.n > 0 ∧ s1.k = s1.n then (⟨0, 0, s1.frag⟩, .done s1.frag) else (s1, .pending)) := by
  have hb : (fragHeader k n ++ piece ++ [comma]).drop fragmentPrefix.length
      = itoa k ++ [comma] ++ itoa n ++ [comma] ++ piece ++ [comma] := by
    have : fragHeader k n ++ piece ++ [comma]
        = fragmentPrefix ++ (itoa k ++ [comma] ++ itoa n ++ [comma] ++ piece ++ [comma]) := by
      simp [fragHeader]
    rw [this, drop_prefix]
  have hk63 : k < 2 ^ 63 := by omega
  unfold processFragment
  simp only [hb, split_fragment k n piece hp, atoi_itoa k hk63, atoi_itoa n hn]
  simp
  intro h; omega

end XC.C47
