/-
  C29 — helper lemmas: the wire codec (u32 / string / mpint) round-trips, hence is uniquely parseable.
-/
import XC.Model.C29
namespace XC.C29
open XC

theorem natToBE_length (n v : Nat) : (natToBE n v).length = n := by
  simp [natToBE, natToLE_length]

theorem natOfBE_natToBE (n v : Nat) : natOfBE (natToBE n v) = v % 256 ^ n := by
  simp [natOfBE, natToBE, natOfLE_natToLE]

theorem natOfLE_append (a b : Bytes) : natOfLE (a ++ b) = natOfLE a + 256 ^ a.length * natOfLE b := by
  induction a with
  | nil => simp [natOfLE]
  | cons x a ih =>
    simp only [List.cons_append, natOfLE, ih, List.length_cons, Nat.pow_succ]
    rw [Nat.mul_add, Nat.add_assoc, ← Nat.mul_assoc, Nat.mul_comm 256 (256 ^ a.length)]

theorem natOfBE_cons_zero (l : Bytes) : natOfBE (0 :: l) = natOfBE l := by
  simp [natOfBE, natOfLE_append, natOfLE]

theorem u32_length (n : Nat) : (u32 n).length = 4 := natToBE_length 4 n

theorem takeU32_u32 (n : Nat) (h : n < 2 ^ 32) (r : Bytes) : takeU32 (u32 n ++ r) = some (n, r) := by
  have hl := u32_length n
  unfold takeU32
  have h1 : ¬ (u32 n ++ r).length < 4 := by simp [hl]
  rw [if_neg h1]
  have h2 : (u32 n ++ r).take 4 = u32 n := by
    rw [List.take_append_of_le_length (by omega)]
    exact List.take_of_length_le (by omega)
  have h3 : (u32 n ++ r).drop 4 = r := by
    rw [← hl]; exact List.drop_left
  rw [h2, h3]
  have : natOfBE (u32 n) = n := by
    unfold u32; rw [natOfBE_natToBE]; exact Nat.mod_eq_of_lt (by simpa using h)
  rw [this]

theorem takeString_sshString (s r : Bytes) (h : s.length < 2 ^ 32) :
    takeString (sshString s ++ r) = some (s, r) := by
  unfold takeString sshString
  rw [List.append_assoc, takeU32_u32 _ h]
  simp

/-! ### mpint -/

theorem lt_pow_byteLen (n : Nat) : n < 256 ^ byteLen n := by
  unfold byteLen
  split
  · subst_vars; simp
  · rename_i hn
    have h1 : n < 2 ^ (n.log2 + 1) := Nat.lt_log2_self
    have h2 : (256 : Nat) ^ (n.log2 / 8 + 1) = 2 ^ (8 * (n.log2 / 8 + 1)) := by
      rw [show (256 : Nat) = 2 ^ 8 by rfl, ← Nat.pow_mul]
    rw [h2]
    exact Nat.lt_of_lt_of_le h1 (Nat.pow_le_pow_right (by omega) (by omega))

theorem natOfBE_natBytes (n : Nat) : natOfBE (natBytes n) = n := by
  unfold natBytes
  rw [natOfBE_natToBE]
  exact Nat.mod_eq_of_lt (lt_pow_byteLen n)

theorem natOfBE_mpintBody (n : Nat) : natOfBE (mpintBody n) = n := by
  have h := natOfBE_natBytes n
  unfold mpintBody
  cases hb : natBytes n with
  | nil => rw [hb] at h; simpa using h
  | cons x r =>
    rw [hb] at h
    simp only
    split
    · rw [natOfBE_cons_zero]; exact h
    · exact h

/-- `parseInt ∘ marshalInt = id` on the non-negative integers the kex code hashes -/
theorem parseMpintBody_mpintBody (n : Nat) : parseMpintBody (mpintBody n) = (n : Int) := by
  have hv := natOfBE_mpintBody n
  unfold mpintBody at hv ⊢
  cases hb : natBytes n with
  | nil =>
    have := natOfBE_natBytes n
    rw [hb] at this
    simp only [parseMpintBody]
    have h0 : n = 0 := by simpa [natOfBE, natOfLE] using this.symm
    subst h0; rfl
  | cons x r =>
    rw [hb] at hv
    simp only at hv ⊢
    split
    · rename_i hx
      rw [if_pos hx] at hv
      simp only [parseMpintBody]
      have : ¬ ((0 : UInt8) &&& 0x80 != 0) = true := by decide
      rw [if_neg this, hv]
    · rename_i hx
      rw [if_neg hx] at hv
      simp only [parseMpintBody]
      rw [if_neg hx, hv]

/-! ### fields: decoder and injectivity -/

def Field.kind : Field → FKind
  | .str _ => .str
  | .mpint _ => .int
  | .u32 _ => .u32

/-- every length that is written into a 4-byte prefix fits (packets are < 2^32 bytes) -/
def Field.WF : Field → Prop
  | .str b => b.length < 2 ^ 32
  | .mpint n => (mpintBody n).length < 2 ^ 32
  | .u32 w => w < 2 ^ 32

def decField : FKind → Bytes → Option (Field × Bytes)
  | .str, d => (takeString d).map fun (s, r) => (Field.str s, r)
  | .int, d => (takeString d).map fun (s, r) => (Field.mpint (natOfBE s), r)
  | .u32, d => (takeU32 d).map fun (n, r) => (Field.u32 n, r)

theorem decField_enc (f : Field) (h : f.WF) (r : Bytes) : decField f.kind (f.enc ++ r) = some (f, r) := by
  cases f with
  | str b => simp [Field.kind, Field.enc, decField, takeString_sshString b r h]
  | mpint n =>
    simp only [Field.kind, Field.enc, decField, mpint]
    rw [takeString_sshString _ r h]
    simp [natOfBE_mpintBody]
  | u32 w => simp [Field.kind, Field.enc, decField, takeU32_u32 w h r]

def decFields : List FKind → Bytes → Option (List Field × Bytes)
  | [], d => some ([], d)
  | k :: ks, d =>
    match decField k d with
    | none => none
    | some (f, r) =>
      match decFields ks r with
      | none => none
      | some (fs, r') => some (f :: fs, r')

theorem decFields_enc (fs : List Field) (h : ∀ f ∈ fs, f.WF) (r : Bytes) :
    decFields (fs.map Field.kind) (encFields fs ++ r) = some (fs, r) := by
  induction fs with
  | nil => simp [decFields, encFields]
  | cons f fs ih =>
    simp only [List.map_cons, encFields, decFields, List.append_assoc]
    rw [decField_enc f (h f (by simp))]
    simp only
    rw [ih (fun g hg => h g (by simp [hg]))]

/-! ### messages: `Unmarshal ∘ Marshal` on the shapes the kex code uses -/

theorem parse_str_int_str (ty : UInt8) (a : Bytes) (n : Nat) (c : Bytes)
    (ha : a.length < 2 ^ 32) (hn : (mpintBody n).length < 2 ^ 32) (hc : c.length < 2 ^ 32) :
    parseMsg ty [.str, .int, .str] (ty :: (sshString a ++ mpint n ++ sshString c)) =
      some [.str a, .int (n : Int), .str c] := by
  simp only [parseMsg, beq_self_eq_true, if_true, parseFields, List.append_assoc, mpint]
  rw [takeString_sshString a _ ha]
  simp only
  rw [takeString_sshString _ _ hn]
  simp only
  have := takeString_sshString c [] hc
  rw [List.append_nil] at this
  rw [this]
  simp [parseMpintBody_mpintBody]

theorem parse_int (ty : UInt8) (n : Nat) (hn : (mpintBody n).length < 2 ^ 32) :
    parseMsg ty [.int] (ty :: mpint n) = some [.int (n : Int)] := by
  simp only [parseMsg, beq_self_eq_true, if_true, parseFields, mpint]
  have := takeString_sshString (mpintBody n) [] hn
  rw [List.append_nil] at this
  rw [this]
  simp [parseMpintBody_mpintBody]

theorem parse_str (ty : UInt8) (a : Bytes) (ha : a.length < 2 ^ 32) :
    parseMsg ty [.str] (ty :: sshString a) = some [.str a] := by
  simp only [parseMsg, beq_self_eq_true, if_true, parseFields]
  have := takeString_sshString a [] ha
  rw [List.append_nil] at this
  rw [this]
  simp

theorem parse_str_str_str (ty : UInt8) (a b c : Bytes)
    (ha : a.length < 2 ^ 32) (hb : b.length < 2 ^ 32) (hc : c.length < 2 ^ 32) :
    parseMsg ty [.str, .str, .str] (ty :: (sshString a ++ sshString b ++ sshString c)) =
      some [.str a, .str b, .str c] := by
  simp only [parseMsg, beq_self_eq_true, if_true, parseFields, List.append_assoc]
  rw [takeString_sshString a _ ha]
  simp only
  rw [takeString_sshString b _ hb]
  simp only
  have := takeString_sshString c [] hc
  rw [List.append_nil] at this
  rw [this]
  simp

theorem parse_int_int (ty : UInt8) (a b : Nat)
    (ha : (mpintBody a).length < 2 ^ 32) (hb : (mpintBody b).length < 2 ^ 32) :
    parseMsg ty [.int, .int] (ty :: (mpint a ++ mpint b)) = some [.int (a : Int), .int (b : Int)] := by
  simp only [parseMsg, beq_self_eq_true, if_true, parseFields, mpint]
  rw [takeString_sshString _ _ ha]
  simp only
  have := takeString_sshString (mpintBody b) [] hb
  rw [List.append_nil] at this
  rw [this]
  simp [parseMpintBody_mpintBody]

theorem parse_u32x3 (ty : UInt8) (a b c : Nat) (ha : a < 2 ^ 32) (hb : b < 2 ^ 32) (hc : c < 2 ^ 32) :
    parseMsg ty [.u32, .u32, .u32] (ty :: (u32 a ++ u32 b ++ u32 c)) = some [.u32 a, .u32 b, .u32 c] := by
  simp only [parseMsg, beq_self_eq_true, if_true, parseFields, List.append_assoc]
  rw [takeU32_u32 a ha]
  simp only
  rw [takeU32_u32 b hb]
  simp only
  have := takeU32_u32 c hc []
  rw [List.append_nil] at this
  rw [this]
  simp

end XC.C29
