/-
  C24 helper lemmas: big-endian fixed-width integers, `natBytes` (= big.Int.Bytes), bit lengths.
-/
import XC.Model.C24

deriving instance DecidableEq for Except

namespace XC.C24

theorem natOfLE_append (a b : Bytes) : natOfLE (a ++ b) = natOfLE a + 256 ^ a.length * natOfLE b := by
  induction a with
  | nil => simp [natOfLE]
  | cons x a ih =>
    simp only [List.cons_append, natOfLE, ih, List.length_cons, Nat.pow_succ]
    rw [Nat.mul_add, Nat.add_assoc, Nat.mul_comm (256 ^ a.length) 256, Nat.mul_assoc]

theorem natOfBE_cons (b : UInt8) (bs : Bytes) : natOfBE (b :: bs) = b.toNat * 256 ^ bs.length + natOfBE bs := by
  simp [natOfBE, natOfLE_append, natOfLE, Nat.mul_comm, Nat.add_comm]

theorem natOfBE_nil : natOfBE [] = 0 := rfl

theorem natOfBE_lt (bs : Bytes) : natOfBE bs < 256 ^ bs.length := by
  induction bs with
  | nil => simp [natOfBE, natOfLE]
  | cons b bs ih =>
    rw [natOfBE_cons, List.length_cons, Nat.pow_succ]
    have hb : b.toNat < 256 := b.toNat_lt
    have : b.toNat * 256 ^ bs.length + 256 ^ bs.length ≤ 256 * 256 ^ bs.length := by
      rw [← Nat.succ_mul]; exact Nat.mul_le_mul_right _ hb
    omega

theorem natToBE_length (n v : Nat) : (natToBE n v).length = n := by
  simp [natToBE, natToLE_length]

theorem natOfBE_natToBE (n v : Nat) : natOfBE (natToBE n v) = v % 256 ^ n := by
  simp [natOfBE, natToBE, natOfLE_natToLE]

theorem u32be_length (w : UInt32) : (u32be w).length = 4 := natToBE_length _ _
theorem u64be_length (w : UInt64) : (u64be w).length = 8 := natToBE_length _ _

theorem be32_u32be (w : UInt32) (tl : Bytes) : be32 (u32be w ++ tl) = w := by
  have h : (u32be w ++ tl).take 4 = u32be w := by
    rw [List.take_append_of_le_length (by simp [u32be_length])]
    exact List.take_of_length_le (by simp [u32be_length])
  have : w.toNat % 256 ^ 4 = w.toNat := Nat.mod_eq_of_lt (by have := w.toNat_lt; omega)
  unfold be32; rw [h]; unfold u32be; rw [natOfBE_natToBE, this]; simp

theorem be64_u64be (w : UInt64) (tl : Bytes) : be64 (u64be w ++ tl) = w := by
  have h : (u64be w ++ tl).take 8 = u64be w := by
    rw [List.take_append_of_le_length (by simp [u64be_length])]
    exact List.take_of_length_le (by simp [u64be_length])
  have : w.toNat % 256 ^ 8 = w.toNat := Nat.mod_eq_of_lt (by have := w.toNat_lt; omega)
  unfold be64; rw [h]; unfold u64be; rw [natOfBE_natToBE, this]; simp

/-! ## natBytes -/

theorem natBytesLE_zero : natBytesLE 0 = [] := by unfold natBytesLE; simp

theorem natBytesLE_pos (n : Nat) (h : n ≠ 0) :
    natBytesLE n = UInt8.ofNat (n % 256) :: natBytesLE (n / 256) := by
  rw [natBytesLE]; simp [h]

theorem natOfLE_natBytesLE (n : Nat) : natOfLE (natBytesLE n) = n := by
  induction n using Nat.strongRecOn with
  | _ n ih =>
    by_cases h : n = 0
    · subst h; simp [natBytesLE_zero, natOfLE]
    · rw [natBytesLE_pos n h, natOfLE, ih (n / 256) (by omega)]
      have : (UInt8.ofNat (n % 256)).toNat = n % 256 := by simp [UInt8.toNat_ofNat']
      omega

theorem natOfBE_natBytes (n : Nat) : natOfBE (natBytes n) = n := by
  simp [natOfBE, natBytes, natOfLE_natBytesLE]

/-- the byte length of the minimal representation brackets the number -/
theorem natBytesLE_bounds (n : Nat) (h : n ≠ 0) :
    256 ^ ((natBytesLE n).length - 1) ≤ n ∧ n < 256 ^ (natBytesLE n).length := by
  induction n using Nat.strongRecOn with
  | _ n ih =>
    rw [natBytesLE_pos n h]
    by_cases h2 : n / 256 = 0
    · simp [h2, natBytesLE_zero]; omega
    · have := ih (n / 256) (by omega) h2
      simp only [List.length_cons, Nat.add_sub_cancel]
      have hl : (natBytesLE (n / 256)).length ≠ 0 := by
        rw [natBytesLE_pos _ h2]; simp
      obtain ⟨lo, hi⟩ := this
      constructor
      · have : 256 ^ (natBytesLE (n / 256)).length = 256 ^ ((natBytesLE (n / 256)).length - 1) * 256 := by
          rw [← Nat.pow_succ]; congr 1; omega
        rw [this]; omega
      · rw [Nat.pow_succ]; omega

theorem natBytes_length (n : Nat) : (natBytes n).length = (natBytesLE n).length := by simp [natBytes]

/-- the most significant byte of the minimal representation -/
theorem natBytes_head (n : Nat) (h : n ≠ 0) :
    ∃ t, natBytes n = UInt8.ofNat (n / 256 ^ ((natBytes n).length - 1)) :: t ∧
      n / 256 ^ ((natBytes n).length - 1) < 256 ∧ 0 < n / 256 ^ ((natBytes n).length - 1) := by
  have hb := natBytesLE_bounds n h
  rw [natBytes_length]
  have hne : natBytes n ≠ [] := by
    simp [natBytes]; rw [natBytesLE_pos n h]; simp
  obtain ⟨b, t, hbt⟩ := List.exists_cons_of_ne_nil hne
  have hlen : (natBytesLE n).length = t.length + 1 := by rw [← natBytes_length, hbt]; simp
  have hval : natOfBE (natBytes n) = n := natOfBE_natBytes n
  rw [hbt, natOfBE_cons] at hval
  have htl := natOfBE_lt t
  have hdiv : n / 256 ^ t.length = b.toNat := by
    rw [← hval, Nat.mul_comm, Nat.mul_add_div (Nat.pow_pos (by omega)), Nat.div_eq_of_lt htl]; simp
  refine ⟨t, ?_, ?_, ?_⟩
  · rw [hbt, hlen]; simp [hdiv]
  · rw [hlen]; simp [hdiv]; exact b.toNat_lt
  · rw [hlen]; simp only [Nat.add_sub_cancel]
    rw [hlen] at hb; simp only [Nat.add_sub_cancel] at hb
    exact Nat.div_pos hb.1 (Nat.pow_pos (by omega))

/-! ## bit length -/

theorem bitLen_bounds (n : Nat) (h : n ≠ 0) : 2 ^ (bitLen n - 1) ≤ n ∧ n < 2 ^ bitLen n := by
  simp only [bitLen, h, if_false, Nat.add_sub_cancel]
  exact ⟨Nat.log2_self_le h, Nat.lt_log2_self⟩

theorem pow256 (k : Nat) : 256 ^ k = 2 ^ (8 * k) := by
  rw [Nat.pow_mul]

/-- ⌈bitLen/8⌉ is the byte length, and the top bit of the top byte is set iff bitLen is a multiple of 8 -/
theorem bitLen_bytes (n : Nat) (h : n ≠ 0) :
    (bitLen n + 7) / 8 = (natBytes n).length ∧
    (bitLen n % 8 = 0 ↔ 128 ≤ n / 256 ^ ((natBytes n).length - 1)) := by
  have hb := natBytesLE_bounds n h
  have hl := bitLen_bounds n h
  rw [natBytes_length]
  generalize (natBytesLE n).length = L at *
  generalize bitLen n = bl at *
  rw [pow256, pow256] at hb
  have hL : L ≠ 0 := by
    intro h0; subst h0; simp at hb; omega
  -- 8L-8 < bl ≤ 8L
  have h1 : bl ≤ 8 * L := by
    by_cases hc : bl ≤ 8 * L
    · exact hc
    · exfalso
      have : 2 ^ (8 * L) ≤ 2 ^ (bl - 1) := Nat.pow_le_pow_right (by omega) (by omega)
      omega
  have h2 : 8 * (L - 1) < bl := by
    by_cases hc : 8 * (L - 1) < bl
    · exact hc
    · exfalso
      have : 2 ^ bl ≤ 2 ^ (8 * (L - 1)) := Nat.pow_le_pow_right (by omega) (by omega)
      omega
  refine ⟨by omega, ?_⟩
  rw [pow256]
  have hpos : 0 < 2 ^ (8 * (L - 1)) := Nat.pow_pos (by omega)
  constructor
  · intro hm
    have hbl : bl = 8 * L := by omega
    subst hbl
    rw [Nat.le_div_iff_mul_le hpos]
    have : 128 * 2 ^ (8 * (L - 1)) = 2 ^ (8 * L - 1) := by
      have : 8 * L - 1 = 7 + 8 * (L - 1) := by omega
      rw [this, Nat.pow_add]
    omega
  · intro hd
    rw [Nat.le_div_iff_mul_le hpos] at hd
    have e : 128 * 2 ^ (8 * (L - 1)) = 2 ^ (8 * L - 1) := by
      have : 8 * L - 1 = 7 + 8 * (L - 1) := by omega
      rw [this, Nat.pow_add]
    rw [e] at hd
    have : 8 * L - 1 < bl := by
      by_cases hc : 8 * L - 1 < bl
      · exact hc
      · exfalso
        have : 2 ^ bl ≤ 2 ^ (8 * L - 1) := Nat.pow_le_pow_right (by omega) (by omega)
        omega
    omega

end XC.C24
