/-
  C52 helper lemmas: big-endian 32-byte codec round trips.
-/
import XC.Model.C52
namespace XC.C52

theorem natToLE_natOfLE (l : Bytes) : natToLE l.length (natOfLE l) = l := by
  induction l with
  | nil => rfl
  | cons a t ih =>
    simp only [List.length_cons, natToLE, natOfLE]
    have h1 : (a.toNat + 256 * natOfLE t) % 256 = a.toNat := by have := a.toNat_lt; omega
    have h2 : (a.toNat + 256 * natOfLE t) / 256 = natOfLE t := by have := a.toNat_lt; omega
    rw [h1, h2, ih]
    simp

theorem natToBE_natOfBE (l : Bytes) : natToBE l.length (natOfBE l) = l := by
  unfold natToBE natOfBE
  have := natToLE_natOfLE l.reverse
  rw [List.length_reverse] at this
  rw [this, List.reverse_reverse]

theorem natOfBE_natToBE (n v : Nat) : natOfBE (natToBE n v) = v % 256 ^ n := by
  unfold natToBE natOfBE
  rw [List.reverse_reverse, natOfLE_natToLE]

theorem natOfLE_lt (l : Bytes) : natOfLE l < 256 ^ l.length := by
  induction l with
  | nil => simp [natOfLE]
  | cons a t ih =>
    simp only [natOfLE, List.length_cons, Nat.pow_succ]
    have := a.toNat_lt
    omega

theorem natOfBE_lt (l : Bytes) : natOfBE l < 256 ^ l.length := by
  unfold natOfBE
  have := natOfLE_lt l.reverse
  rwa [List.length_reverse] at this

theorem p_pos : 0 < p := by decide
theorem p_lt : p < 2 ^ 256 := by decide

/-- a 32-byte string whose value is below p is reproduced by `Mod p` + `Bytes()` + left padding -/
theorem be32_natOfBE (l : Bytes) (h : l.length = 32) (hlt : (natOfBE l : Int) < p) :
    be32 ((natOfBE l : Int) % p) = l := by
  unfold be32
  rw [Int.emod_eq_of_lt (by omega) hlt, Int.toNat_natCast]
  have := natToBE_natOfBE l
  rwa [h] at this

/-- a reduced field element survives `be32` + `SetBytes` -/
theorem natOfBE_be32 (v : Int) (h0 : 0 ≤ v) (hlt : v < p) : (natOfBE (be32 (v % p)) : Int) = v := by
  unfold be32
  rw [Int.emod_eq_of_lt h0 hlt, natOfBE_natToBE]
  have h1 : v.toNat < 256 ^ 32 := by
    have := p_lt
    have : (v.toNat : Int) < 2 ^ 256 := by rw [Int.toNat_of_nonneg h0]; omega
    have e : (256 : Nat) ^ 32 = 2 ^ 256 := by decide
    rw [e]; exact_mod_cast this
  rw [Nat.mod_eq_of_lt h1, Int.toNat_of_nonneg h0]

theorem be32_length (v : Int) : (be32 v).length = 32 := by
  simp [be32, natToBE, natToLE_length]

theorem be32_zero : be32 0 = zeros 32 := by decide

theorem eq_zeros_of_natOfBE_zero (l : Bytes) (h : l.length = 32) (h0 : natOfBE l = 0) : l = zeros 32 := by
  have := natToBE_natOfBE l
  rw [h, h0] at this
  rw [← this]; decide

end XC.C52
