/-
  C52 — GF(p⁶): the Karatsuba product of gfp6.go against the schoolbook product.
-/
import XC.Proofs.C52_Field
namespace XC.C52
open GFp2

theorem GFp2.sub_congr {a a' b b' : GFp2} (ha : Eqv a a') (hb : Eqv b b') : Eqv (sub a b) (sub a' b') := by
  obtain ⟨hax, hay⟩ := ha
  obtain ⟨hbx, hby⟩ := hb
  simp only [Eqv, sub]
  constructor
  · rw [Int.sub_emod, hax, hbx, ← Int.sub_emod]
  · rw [Int.sub_emod, hay, hby, ← Int.sub_emod]

theorem GFp2.mulXi_congr {a a' : GFp2} (ha : Eqv a a') : Eqv (mulXi a) (mulXi a') := by
  refine Eqv.trans (mulXi_eqv a) (Eqv.trans ?_ (mulXi_eqv a').symm)
  rw [mul_congr ha (Eqv.refl _)]
  exact Eqv.refl _

theorem GFp2.mul_eqv_mulZ (a b : GFp2) : Eqv (mul a b) (mulZ a b) := by
  rw [mul_eq_mulZ]; exact minimal_eqv _

/-- ξ·a on integer representatives -/
def GFp2.xiZ (a : GFp2) : GFp2 := ⟨3 * a.x + a.y, 3 * a.y - a.x⟩

theorem GFp2.mulXi_eq_xiZ (a : GFp2) : mulXi a = GFp2.xiZ a := by
  simp only [mulXi, GFp2.xiZ]
  congr 1 <;> omega

/-- **Karatsuba = schoolbook in GF(p⁶) = GF(p²)[τ]/(τ³ − ξ)**: the three coefficients of
    `GFp6.mul` are, mod p, those of the textbook product
    (x₁τ²+y₁τ+z₁)(x₂τ²+y₂τ+z₂) with τ³ = ξ. -/
theorem gfp6_mul_eq_schoolbook (a b : GFp6) :
    Eqv (a.mul b).x (add (add (mulZ a.x b.z) (mulZ a.y b.y)) (mulZ a.z b.x)) ∧
    Eqv (a.mul b).y (add (add (mulZ a.y b.z) (mulZ a.z b.y)) (GFp2.xiZ (mulZ a.x b.x))) ∧
    Eqv (a.mul b).z (add (mulZ a.z b.z) (GFp2.xiZ (add (mulZ a.x b.y) (mulZ a.y b.x)))) := by
  have m := GFp2.mul_eqv_mulZ
  refine ⟨?_, ?_, ?_⟩
  · -- tx = (a.x+a.z)(b.x+b.z) − v0 + v1 − v2
    have h : Eqv (a.mul b).x
        (sub (add (sub (mulZ (add a.x a.z) (add b.x b.z)) (mulZ a.z b.z)) (mulZ a.y b.y)) (mulZ a.x b.x)) := by
      simp only [GFp6.mul]
      exact GFp2.sub_congr (add_congr (GFp2.sub_congr (m _ _) (m _ _)) (m _ _)) (m _ _)
    refine Eqv.trans h ?_
    simp only [Eqv, sub, add, mulZ]
    constructor <;> congr 1 <;> grind
  · have h : Eqv (a.mul b).y
        (add (sub (sub (mulZ (add a.y a.z) (add b.y b.z)) (mulZ a.z b.z)) (mulZ a.y b.y)) (GFp2.xiZ (mulZ a.x b.x))) := by
      simp only [GFp6.mul]
      refine add_congr (GFp2.sub_congr (GFp2.sub_congr (m _ _) (m _ _)) (m _ _)) ?_
      rw [← GFp2.mulXi_eq_xiZ]
      exact GFp2.mulXi_congr (m _ _)
    refine Eqv.trans h ?_
    simp only [Eqv, sub, add, mulZ, GFp2.xiZ]
    constructor <;> congr 1 <;> grind
  · have h : Eqv (a.mul b).z
        (add (GFp2.xiZ (sub (sub (mulZ (add a.x a.y) (add b.x b.y)) (mulZ a.y b.y)) (mulZ a.x b.x))) (mulZ a.z b.z)) := by
      simp only [GFp6.mul]
      refine add_congr ?_ (m _ _)
      rw [← GFp2.mulXi_eq_xiZ]
      exact GFp2.mulXi_congr (GFp2.sub_congr (GFp2.sub_congr (m _ _) (m _ _)) (m _ _))
    refine Eqv.trans h ?_
    simp only [Eqv, sub, add, mulZ, GFp2.xiZ]
    constructor <;> congr 1 <;> grind

end XC.C52
namespace XC.C52
/-- squaring in GF(p⁶) is multiplication by itself — exactly (same reductions) -/
theorem gfp6_square_eq_mul (a : GFp6) : a.square = a.mul a := by
  simp only [GFp6.square, GFp6.mul, GFp2.square_eq_mul]
end XC.C52
