/-
  C09 — the byte-wise counter increment is +1 mod 2^64, and genericXORKeyStream is the specification's
  keystream xor for every input length.
-/
import XC.Proofs.C09
namespace XC.C09

/-! ## counter increment -/

theorem natOfLE_lt (bs : Bytes) : natOfLE bs < 256 ^ bs.length := by
  induction bs with
  | nil => simp [natOfLE]
  | cons b r ih =>
    have := UInt8.toNat_lt b
    simp only [natOfLE, List.length_cons, Nat.pow_succ]
    omega

theorem natToLE_natOfLE (bs : Bytes) : natToLE bs.length (natOfLE bs) = bs := by
  induction bs with
  | nil => rfl
  | cons b r ih =>
    have hb := UInt8.toNat_lt b
    simp only [List.length_cons, natToLE, natOfLE]
    have h1 : (b.toNat + 256 * natOfLE r) % 256 = b.toNat := by omega
    have h2 : (b.toNat + 256 * natOfLE r) / 256 = natOfLE r := by omega
    rw [h1, h2, ih]
    simp

theorem incLoop_length (u : UInt32) (bs : Bytes) : (incLoop u bs).length = bs.length := by
  induction bs generalizing u with
  | nil => rfl
  | cons b r ih => simp [incLoop, ih]

/-- the carry loop adds `u` (0 or 1) to the little-endian number, modulo 256^length -/
theorem incLoop_eq (u : UInt32) (hu : u.toNat ≤ 1) (bs : Bytes) :
    incLoop u bs = natToLE bs.length ((natOfLE bs + u.toNat) % 256 ^ bs.length) := by
  induction bs generalizing u with
  | nil => rfl
  | cons b r ih =>
    have hb := UInt8.toNat_lt b
    have hsum : (u + b.toUInt32).toNat = u.toNat + b.toNat := by
      rw [UInt32.toNat_add]; simp; omega
    have hcarry : ((u + b.toUInt32) >>> 8).toNat = (u.toNat + b.toNat) / 256 := by
      rw [UInt32.toNat_shiftRight, hsum]; simp [Nat.shiftRight_eq_div_pow]
    have key1 : ((b.toNat + 256 * natOfLE r + u.toNat) % 256 ^ (r.length + 1)) % 256 = (u.toNat + b.toNat) % 256 := by
      rw [Nat.pow_succ, Nat.mul_comm (256 ^ r.length) 256, Nat.mod_mul_right_mod]
      omega
    have key2 : ((b.toNat + 256 * natOfLE r + u.toNat) % 256 ^ (r.length + 1)) / 256 =
        (natOfLE r + (u.toNat + b.toNat) / 256) % 256 ^ r.length := by
      rw [Nat.pow_succ, Nat.mul_comm (256 ^ r.length) 256, Nat.mod_mul_right_div_self]
      congr 1
      omega
    simp only [incLoop, List.length_cons, natToLE, natOfLE]
    rw [ih _ (by rw [hcarry]; omega), hcarry, key2]
    congr 1
    apply UInt8.toNat_inj.mp
    rw [UInt32.toNat_toUInt8, hsum, UInt8.toNat_ofNat', key1]
    omega

theorem counterAt_zero (c : Bytes) (hc : c.length = 16) : counterAt c 0 = c := by
  have hf : fit 16 c = c := by simp [fit, hc]
  have h8 : (c.drop 8).length = 8 := by simp [hc]
  have hlt := natOfLE_lt (c.drop 8)
  rw [h8] at hlt
  simp only [counterAt, hf, Nat.add_zero]
  rw [Nat.mod_eq_of_lt (by simpa using hlt)]
  have h := natToLE_natOfLE (c.drop 8)
  rw [h8] at h
  rw [h, List.take_append_drop]

theorem counterAt_length (c : Bytes) (i : Nat) : (counterAt c i).length = 16 := by
  simp [counterAt, fit, natToLE_length, zeros]

/-- one run of the increment loop moves from block `i` to block `i+1` (mod 2^64) -/
theorem incCounter_counterAt (c : Bytes) (i : Nat) : incCounter (counterAt c i) = counterAt c (i + 1) := by
  have hf : (fit 16 c).length = 16 := by simp [fit, zeros]
  have ht : ((fit 16 c).take 8).length = 8 := by simp [hf]
  simp only [incCounter, counterAt]
  rw [List.take_left' ht, List.drop_left' ht]
  congr 1
  rw [incLoop_eq 1 (by decide), natToLE_length, natOfLE_natToLE]
  congr 1
  simp only [show (256 : Nat) ^ 8 = 2 ^ 64 by decide, UInt32.toNat_one, Nat.mod_mod]
  omega

/-- **counter_inc_eq**: on a 16-byte counter block the loop replaces bytes 8..15 by the little-endian
    encoding of (their value + 1) mod 2^64 (carry into the high word, wrap at 2^64) and keeps bytes 0..7 -/
theorem counter_inc_eq (c : Bytes) (hc : c.length = 16) :
    incCounter c = c.take 8 ++ natToLE 8 ((natOfLE (c.drop 8) + 1) % 2 ^ 64) := by
  have := incCounter_counterAt c 0
  rw [counterAt_zero c hc] at this
  rw [this]
  simp [counterAt, fit, hc]

/-! ## the stream -/

theorem xorBytes_append (a b c d : Bytes) (h : a.length = c.length) :
    xorBytes (a ++ b) (c ++ d) = xorBytes a c ++ xorBytes b d := by
  simp [xorBytes, List.zipWith_append h]

theorem xorBytes_take_right (a b : Bytes) : xorBytes a (b.take a.length) = xorBytes a b := by
  induction a generalizing b with
  | nil => simp [xorBytes]
  | cons x xs ih =>
    cases b with
    | nil => simp [xorBytes]
    | cons y ys =>
      simp only [xorBytes, List.length_cons, List.take_succ_cons, List.zipWith_cons_cons]
      congr 1
      exact ih ys

theorem core_length (r : Nat) (b : Bytes) : (core r b).length = 64 := by
  simp [core, St.serialize, w2b]

theorem salsa20Block_length (k i : Bytes) : (salsa20Block k i).length = 64 := core_length _ _

theorem genericLoop_eq (key c : Bytes) (hk : key.length = 32) (fuel i : Nat) (inp : Bytes)
    (hf : inp.length / 64 ≤ fuel) :
    genericLoop key fuel (counterAt c i) inp =
      xorBytes inp ((blocksFrom key c i ((inp.length + 63) / 64)).take inp.length) := by
  induction fuel generalizing i inp with
  | zero =>
    have hlt : inp.length < 64 := by omega
    simp only [genericLoop]
    by_cases h0 : inp.length > 0
    · have h1 : (inp.length + 63) / 64 = 1 := by omega
      simp only [h0, if_true, h1, blocksFrom, List.append_nil]
      rw [coreGo_eq _ _ hk (counterAt_length c i), xorBytes_take_right]
    · have : inp = [] := List.eq_nil_of_length_eq_zero (by omega)
      subst this
      simp [xorBytes]
  | succ fuel ih =>
    simp only [genericLoop]
    by_cases hge : inp.length ≥ 64
    · simp only [hge, if_true]
      have hm : (inp.length + 63) / 64 = ((inp.drop 64).length + 63) / 64 + 1 := by simp; omega
      rw [incCounter_counterAt, ih (i + 1) (inp.drop 64) (by simp; omega), hm]
      simp only [blocksFrom]
      rw [coreGo_eq _ _ hk (counterAt_length c i)]
      have hsplit : inp = inp.take 64 ++ inp.drop 64 := (List.take_append_drop 64 inp).symm
      have htake : (salsa20Block key (counterAt c i) ++
            blocksFrom key c (i + 1) (((inp.drop 64).length + 63) / 64)).take inp.length =
          salsa20Block key (counterAt c i) ++
            (blocksFrom key c (i + 1) (((inp.drop 64).length + 63) / 64)).take (inp.drop 64).length := by
        rw [List.take_append, salsa20Block_length, List.take_of_length_le (by rw [salsa20Block_length]; omega)]
        simp
      rw [htake]
      conv => rhs; lhs; rw [hsplit]
      rw [xorBytes_append _ _ _ _ (by simp [salsa20Block_length]; omega)]
    · have hlt : inp.length < 64 := by omega
      simp only [hge, if_false]
      by_cases h0 : inp.length > 0
      · have h1 : (inp.length + 63) / 64 = 1 := by omega
        simp only [h0, if_true, h1, blocksFrom, List.append_nil]
        rw [coreGo_eq _ _ hk (counterAt_length c i), xorBytes_take_right]
      · have : inp = [] := List.eq_nil_of_length_eq_zero (by omega)
        subst this
        simp [xorBytes]

/-- **xor_eq_spec**: genericXORKeyStream xors `in` with the keystream whose block `i` is
    Salsa20_key(nonce ‖ le64((ctr0 + i) mod 2^64)), for every input length -/
theorem genericXOR_eq (key counter inp : Bytes) (hk : key.length = 32) (hc : counter.length = 16) :
    genericXORKeyStream key counter inp = xorKeyStream key counter inp := by
  unfold genericXORKeyStream xorKeyStream keystream
  have := genericLoop_eq key counter hk (inp.length / 64) 0 inp (Nat.le_refl _)
  rw [counterAt_zero counter hc] at this
  exact this

theorem hsalsa20_length (k i : Bytes) : (hsalsa20 k i).length = 32 := by simp [hsalsa20, w2b]

/-- salsa20.XORKeyStream: Salsa20 for an 8-byte nonce (block counter 0), XSalsa20 for a 24-byte nonce
    (sub-key HSalsa20(key, nonce[0:16]), nonce[16:24], block counter 0), panic otherwise -/
theorem salsa20XORKeyStream_eq (key nonce inp : Bytes) (hk : key.length = 32) :
    salsa20XORKeyStream key nonce inp = salsa20Xor key nonce inp := by
  unfold salsa20XORKeyStream salsa20Xor
  by_cases h24 : nonce.length = 24
  · simp only [h24, if_true]
    rw [hsalsa20Go_eq _ _ hk (by simp; omega),
      genericXOR_eq _ _ _ (hsalsa20_length _ _) (by simp [zeros]; omega)]
  · by_cases h8 : nonce.length = 8
    · rw [if_neg h24, if_pos h8, if_neg h24, if_pos h8]
      rw [genericXOR_eq _ _ _ hk (by simp [zeros]; omega)]
    · simp [h24, h8]

end XC.C09
