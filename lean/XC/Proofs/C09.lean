/-
  C09 — the Go-shaped Salsa20 functions equal the specification-shaped ones.
-/
import XC.Model.C09
namespace XC.C09

theorem goRound2_eq (s : St) : goRound2 s = doubleRound s := rfl

theorem iter_goRound2 (n : Nat) (s : St) : iter goRound2 n s = iter doubleRound n s := by
  induction n generalizing s with
  | zero => rfl
  | succ n ih => simp [iter, ih, goRound2_eq]

theorem len16 (l : Bytes) (h : l.length = 16) :
    ∃ a0 a1 a2 a3 a4 a5 a6 a7 a8 a9 a10 a11 a12 a13 a14 a15 : UInt8, l = [a0, a1, a2, a3, a4, a5, a6, a7, a8, a9, a10, a11, a12, a13, a14, a15] := by
  rcases l with _ | ⟨a0, l⟩
  · simp at h
  rcases l with _ | ⟨a1, l⟩
  · simp at h
  rcases l with _ | ⟨a2, l⟩
  · simp at h
  rcases l with _ | ⟨a3, l⟩
  · simp at h
  rcases l with _ | ⟨a4, l⟩
  · simp at h
  rcases l with _ | ⟨a5, l⟩
  · simp at h
  rcases l with _ | ⟨a6, l⟩
  · simp at h
  rcases l with _ | ⟨a7, l⟩
  · simp at h
  rcases l with _ | ⟨a8, l⟩
  · simp at h
  rcases l with _ | ⟨a9, l⟩
  · simp at h
  rcases l with _ | ⟨a10, l⟩
  · simp at h
  rcases l with _ | ⟨a11, l⟩
  · simp at h
  rcases l with _ | ⟨a12, l⟩
  · simp at h
  rcases l with _ | ⟨a13, l⟩
  · simp at h
  rcases l with _ | ⟨a14, l⟩
  · simp at h
  rcases l with _ | ⟨a15, l⟩
  · simp at h
  have : l = [] := List.eq_nil_of_length_eq_zero (by simpa using h)
  subst this
  exact ⟨a0, a1, a2, a3, a4, a5, a6, a7, a8, a9, a10, a11, a12, a13, a14, a15, rfl⟩

theorem len32 (l : Bytes) (h : l.length = 32) :
    ∃ a0 a1 a2 a3 a4 a5 a6 a7 a8 a9 a10 a11 a12 a13 a14 a15 a16 a17 a18 a19 a20 a21 a22 a23 a24 a25 a26 a27 a28 a29 a30 a31 : UInt8, l = [a0, a1, a2, a3, a4, a5, a6, a7, a8, a9, a10, a11, a12, a13, a14, a15, a16, a17, a18, a19, a20, a21, a22, a23, a24, a25, a26, a27, a28, a29, a30, a31] := by
  rcases l with _ | ⟨a0, l⟩
  · simp at h
  rcases l with _ | ⟨a1, l⟩
  · simp at h
  rcases l with _ | ⟨a2, l⟩
  · simp at h
  rcases l with _ | ⟨a3, l⟩
  · simp at h
  rcases l with _ | ⟨a4, l⟩
  · simp at h
  rcases l with _ | ⟨a5, l⟩
  · simp at h
  rcases l with _ | ⟨a6, l⟩
  · simp at h
  rcases l with _ | ⟨a7, l⟩
  · simp at h
  rcases l with _ | ⟨a8, l⟩
  · simp at h
  rcases l with _ | ⟨a9, l⟩
  · simp at h
  rcases l with _ | ⟨a10, l⟩
  · simp at h
  rcases l with _ | ⟨a11, l⟩
  · simp at h
  rcases l with _ | ⟨a12, l⟩
  · simp at h
  rcases l with _ | ⟨a13, l⟩
  · simp at h
  rcases l with _ | ⟨a14, l⟩
  · simp at h
  rcases l with _ | ⟨a15, l⟩
  · simp at h
  rcases l with _ | ⟨a16, l⟩
  · simp at h
  rcases l with _ | ⟨a17, l⟩
  · simp at h
  rcases l with _ | ⟨a18, l⟩
  · simp at h
  rcases l with _ | ⟨a19, l⟩
  · simp at h
  rcases l with _ | ⟨a20, l⟩
  · simp at h
  rcases l with _ | ⟨a21, l⟩
  · simp at h
  rcases l with _ | ⟨a22, l⟩
  · simp at h
  rcases l with _ | ⟨a23, l⟩
  · simp at h
  rcases l with _ | ⟨a24, l⟩
  · simp at h
  rcases l with _ | ⟨a25, l⟩
  · simp at h
  rcases l with _ | ⟨a26, l⟩
  · simp at h
  rcases l with _ | ⟨a27, l⟩
  · simp at h
  rcases l with _ | ⟨a28, l⟩
  · simp at h
  rcases l with _ | ⟨a29, l⟩
  · simp at h
  rcases l with _ | ⟨a30, l⟩
  · simp at h
  rcases l with _ | ⟨a31, l⟩
  · simp at h
  have : l = [] := List.eq_nil_of_length_eq_zero (by simpa using h)
  subst this
  exact ⟨a0, a1, a2, a3, a4, a5, a6, a7, a8, a9, a10, a11, a12, a13, a14, a15, a16, a17, a18, a19, a20, a21, a22, a23, a24, a25, a26, a27, a28, a29, a30, a31, rfl⟩

/-- the sixteen words Go loads from (c = σ, k, in) are the words of the 64-byte expansion block -/
theorem load_eq_expand (inp k : Bytes) (hk : k.length = 32) (hi : inp.length = 16) :
    loadCKI inp k sigma = St.ofBytes (expand k inp) := by
  obtain ⟨k0,k1,k2,k3,k4,k5,k6,k7,k8,k9,k10,k11,k12,k13,k14,k15,k16,k17,k18,k19,k20,k21,k22,k23,k24,k25,k26,k27,k28,k29,k30,k31, rfl⟩ := len32 k hk
  obtain ⟨i0,i1,i2,i3,i4,i5,i6,i7,i8,i9,i10,i11,i12,i13,i14,i15, rfl⟩ := len16 inp hi
  rfl

/-! ## arbitrary 16-byte constant `c` (the Go functions take the constant as a parameter) -/

/-- the 64-byte block c0 ‖ k0 ‖ c1 ‖ n ‖ c2 ‖ k1 ‖ c3 for a 16-byte constant `c` (σ gives `expand`) -/
def expandC (c key in16 : Bytes) : Bytes :=
  let k := fit 32 key
  let cc := fit 16 c
  cc.take 4 ++ k.take 16 ++ (cc.drop 4).take 4 ++ fit 16 in16 ++ (cc.drop 8).take 4 ++ k.drop 16 ++ cc.drop 12

/-- HSalsa20 with constant `c`: 20 rounds on the expansion, no feed-forward, words 0,5,10,15,6,7,8,9 -/
def hsalsa20C (c key in16 : Bytes) : Bytes :=
  let z := iter doubleRound 10 (St.ofBytes (expandC c key in16))
  w2b z.x0 ++ w2b z.x5 ++ w2b z.x10 ++ w2b z.x15 ++ w2b z.x6 ++ w2b z.x7 ++ w2b z.x8 ++ w2b z.x9

theorem expandC_sigma (key in16 : Bytes) : expandC sigma key in16 = expand key in16 := rfl

theorem load_eq_expandC (inp k c : Bytes) (hk : k.length = 32) (hi : inp.length = 16) (hc : c.length = 16) :
    loadCKI inp k c = St.ofBytes (expandC c k inp) := by
  obtain ⟨k0,k1,k2,k3,k4,k5,k6,k7,k8,k9,k10,k11,k12,k13,k14,k15,k16,k17,k18,k19,k20,k21,k22,k23,k24,k25,k26,k27,k28,k29,k30,k31, rfl⟩ := len32 k hk
  obtain ⟨i0,i1,i2,i3,i4,i5,i6,i7,i8,i9,i10,i11,i12,i13,i14,i15, rfl⟩ := len16 inp hi
  obtain ⟨c0,c1,c2,c3,c4,c5,c6,c7,c8,c9,c10,c11,c12,c13,c14,c15, rfl⟩ := len16 c hc
  rfl

/-- `core(out, in, k, c)` for every constant = Salsa20/20 core of the expansion with that constant -/
theorem coreGo_eqC (inp k c : Bytes) (hk : k.length = 32) (hi : inp.length = 16) (hc : c.length = 16) :
    coreGo inp k c = core 20 (expandC c k inp) := by
  simp only [coreGo, core, coreW, load_eq_expandC inp k c hk hi hc, iter_goRound2]

/-- `HSalsa20(out, in, k, c)` for every constant -/
theorem hsalsa20Go_eqC (inp k c : Bytes) (hk : k.length = 32) (hi : inp.length = 16) (hc : c.length = 16) :
    hsalsa20Go inp k c = hsalsa20C c k inp := by
  simp only [hsalsa20Go, hsalsa20C, load_eq_expandC inp k c hk hi hc, iter_goRound2]

/-- salsa20_ref.go `core` with the σ constant = Salsa20_k(n) of the specification -/
theorem coreGo_eq (inp k : Bytes) (hk : k.length = 32) (hi : inp.length = 16) :
    coreGo inp k sigma = salsa20Block k inp := by
  simp only [coreGo, salsa20Block, core, coreW, load_eq_expand inp k hk hi, iter_goRound2]

/-- hsalsa20.go `HSalsa20` with the σ constant = HSalsa20 of "Extending the Salsa20 nonce" -/
theorem hsalsa20Go_eq (inp k : Bytes) (hk : k.length = 32) (hi : inp.length = 16) :
    hsalsa20Go inp k sigma = hsalsa20 k inp := by
  simp only [hsalsa20Go, hsalsa20, load_eq_expand inp k hk hi, iter_goRound2]

/-- salsa208.go `Core208` = the Salsa20/8 core with feed-forward, for every 64-byte (indeed every) input -/
theorem core208Go_eq (inp : Bytes) : core208Go inp = core208 inp := by
  simp only [core208Go, core208, core, coreW, iter_goRound2]

end XC.C09
