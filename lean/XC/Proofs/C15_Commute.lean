/-
  C15 — lanes of one slice are independent: a segment reads only its own lane and, in other lanes, blocks
  outside the current slice; it writes only its own part of the current slice.  Hence the segments of two
  different lanes of the same (pass, slice) commute — the order in which the goroutines of a slice run (or the
  sequential order of the model) does not matter.
-/
import XC.Proofs.C15_Fill
namespace XC.C15
open XC.C15.Rfc

/-- the part of lane `b` that belongs to slice `s` -/
def inSlice (I : Inst) (b s w : Nat) : Prop := b * I.q + s * I.seg ≤ w ∧ w < b * I.q + s * I.seg + I.seg

/-- the two memories have the same size and agree on every block outside `S` -/
def EqOut (S : Nat → Prop) (m1 m2 : Array Block) : Prop :=
  m1.size = m2.size ∧ ∀ w, ¬ S w → m1.getD w zeroB = m2.getD w zeroB

theorem getD_setG' (a : Array Block) (i j : Nat) (v : Block) :
    (a.setIfInBounds i v).getD j zeroB = if j = i ∧ i < a.size then v else a.getD j zeroB := by
  simp only [Array.getD_eq_getD_getElem?, Array.getElem?_setIfInBounds]
  by_cases h : i = j
  · subst h
    by_cases hi : i < a.size
    · simp [hi]
    · simp [hi]
  · have h' : ¬ j = i := fun e => h e.symm
    simp [h, h']

/-- blocks of different lanes are different blocks -/
theorem lane_sep (q a b x : Nat) (hab : a ≠ b) (hx : x < q) : ¬ (b * q ≤ a * q + x ∧ a * q + x < b * q + q) := by
  rcases Nat.lt_or_gt_of_ne hab with h | h
  · have : (a + 1) * q ≤ b * q := Nat.mul_le_mul_right _ h
    rw [Nat.succ_mul] at this; omega
  · have : (b + 1) * q ≤ a * q := Nat.mul_le_mul_right _ h
    rw [Nat.succ_mul] at this; omega

/-- side conditions on an instance and a segment position -/
structure SegOK (I : Inst) (s : Nat) : Prop where
  q4 : I.q = 4 * I.seg
  seg2 : 2 ≤ I.seg
  s4 : s < 4
  p1 : 1 ≤ I.p

theorem y_lt (J1 m : Nat) (hJ : J1 < 4294967296) (hm : 1 ≤ m) : m * (J1 * J1 / 2 ^ 32) / 2 ^ 32 < m := by
  have hx : J1 * J1 / 2 ^ 32 < 4294967296 := by
    apply Nat.div_lt_of_lt_mul
    have := Nat.mul_lt_mul'' hJ hJ
    omega
  apply Nat.div_lt_of_lt_mul
  have : m * (J1 * J1 / 2 ^ 32) < m * 4294967296 := Nat.mul_lt_mul_of_pos_left hx (by omega)
  omega

theorem refArea_ne (seg r s idx : Nat) (same : Bool) (hr : r ≠ 0) :
    refAreaRFC seg r s idx same = refAreaRFC seg 1 s idx same ∧ startRFC seg r s = startRFC seg 1 s := by
  unfold refAreaRFC startRFC
  simp [hr]

/-- the reference block of lane `a`'s step is never in the current slice of another lane `b` -/
theorem ref_not_in_other_slice (I : Inst) (r a b s idx : Nat) (J : UInt64) (K : SegOK I s)
    (hab : a ≠ b) (hidx : idx < I.seg) (hstart : r = 0 → s = 0 → 2 ≤ idx) :
    ¬ inSlice I b s (refPos I r a s idx J) := by
  have hq := K.q4
  have hseg := K.seg2
  have hs4 := K.s4
  have hsb : s * I.seg ≤ 3 * I.seg := Nat.mul_le_mul_right _ (by omega)
  unfold refPos
  simp only []
  generalize hl' : (if r = 0 ∧ s = 0 then a else J.toNat / 4294967296 % I.p) = l'
  generalize hJ1 : J.toNat % 4294967296 = J1
  have hJ1lt : J1 < 4294967296 := by rw [← hJ1]; exact Nat.mod_lt _ (by decide)
  have hfirst : r = 0 → s = 0 → decide (a = l') = true ∧ 2 ≤ idx := by
    intro h1 h2
    refine ⟨?_, hstart h1 h2⟩
    rw [← hl', if_pos ⟨h1, h2⟩]; simp
  obtain ⟨harea, hpos⟩ := areaNat_eq_rfc I.seg r s idx (decide (a = l')) hseg hs4 hidx hfirst
  rw [harea] at hpos
  simp only [] at hpos
  unfold phiRFC
  simp only []
  generalize hm : refAreaRFC I.seg r s idx (decide (a = l')) = m at *
  have hy := y_lt J1 m hJ1lt hpos
  generalize m * (J1 * J1 / 2 ^ 32) / 2 ^ 32 = y at *
  have hzlt : (startRFC I.seg r s + (m - 1 - y)) % I.q < I.q := Nat.mod_lt _ (by omega)
  unfold inSlice
  by_cases hlb : l' = b
  · -- the reference lane is lane b (so not the own lane): the position is outside slice s
    subst hlb
    have hsame : decide (a = l') = false := by simpa using hab
    rw [hsame] at hm
    have hk : m - 1 - y < m := by omega
    by_cases hr : r = 0
    · subst hr
      have hs0 : s ≠ 0 := by
        intro h0
        have := (hfirst rfl h0).1
        rw [hsame] at this; cases this
      obtain ⟨e1, _, e3⟩ := ref_written_pass0 I.seg s idx (m - 1 - y) false hs4 hidx
        (fun h => absurd h hs0) (by rw [hm]; exact hk)
      rw [hq] at hzlt ⊢
      rw [e1]
      have := (e3 rfl).1
      omega
    · obtain ⟨ea, es⟩ := refArea_ne I.seg r s idx false hr
      rw [ea] at hm
      obtain ⟨_, _, e3⟩ := ref_written_later I.seg s idx (m - 1 - y) false hseg hs4 hidx (by rw [hm]; exact hk)
      have := (e3 rfl).1
      rw [es, hq]
      omega
  · have := lane_sep I.q l' b _ hlb hzlt
    have hsq : s * I.seg + I.seg ≤ I.q := by omega
    omega

theorem prevCol_lt (q j : Nat) (hq : 0 < q) : prevCol q j < q := Nat.mod_lt _ hq

/-- frame: a step writes only its own block, which lies in slice `s` of lane `a` -/
theorem step_frame (I : Inst) (r a s idx : Nat) (mem : Array Block) (hidx : idx < I.seg) :
    (stepRFC I r a s mem idx).size = mem.size ∧
    ∀ w, ¬ inSlice I a s w → (stepRFC I r a s mem idx).getD w zeroB = mem.getD w zeroB := by
  unfold stepRFC
  simp only []
  refine ⟨by simp, fun w hw => ?_⟩
  rw [getD_setG']
  have : ¬ (w = a * I.q + (s * I.seg + idx) ∧ a * I.q + (s * I.seg + idx) < mem.size) := by
    intro ⟨h, _⟩
    apply hw
    unfold inSlice
    omega
  rw [if_neg this]

/-- what a step of lane `a` computes does not depend on the current slice of another lane `b` -/
theorem step_congr (I : Inst) (r a b s idx : Nat) (K : SegOK I s) (hab : a ≠ b) (hidx : idx < I.seg)
    (hstart : r = 0 → s = 0 → 2 ≤ idx) (m1 m2 : Array Block) (h : EqOut (inSlice I b s) m1 m2) :
    EqOut (inSlice I b s) (stepRFC I r a s m1 idx) (stepRFC I r a s m2 idx) := by
  obtain ⟨hsz, hag⟩ := h
  have hq := K.q4
  have hseg := K.seg2
  have hs4 := K.s4
  have hsb : s * I.seg ≤ 3 * I.seg := Nat.mul_le_mul_right _ (by omega)
  have hqpos : 0 < I.q := by omega
  -- the blocks read are outside lane b's slice
  have hcur : ¬ inSlice I b s (a * I.q + (s * I.seg + idx)) := by
    have := lane_sep I.q a b (s * I.seg + idx) hab (by omega)
    unfold inSlice; omega
  have hprev : ¬ inSlice I b s (a * I.q + prevCol I.q (s * I.seg + idx)) := by
    have := lane_sep I.q a b (prevCol I.q (s * I.seg + idx)) hab (prevCol_lt _ _ hqpos)
    unfold inSlice; omega
  have hJ : pseudoRand I m1 r a s idx = pseudoRand I m2 r a s idx := by
    unfold pseudoRand
    split
    · rfl
    · rw [hag _ hprev]
  have href := ref_not_in_other_slice I r a b s idx (pseudoRand I m2 r a s idx) K hab hidx hstart
  unfold stepRFC
  simp only []
  rw [hJ, hag _ hcur, hag _ hprev, hag _ href]
  refine ⟨by simp [hsz], fun w hw => ?_⟩
  rw [getD_setG', getD_setG', hsz, hag w hw]

theorem foldl_range'_inv {α : Type} (P : α → Prop) (f : α → Nat → α) (start : Nat) :
    ∀ (k : Nat) (a : α), P a → (∀ x i, P x → start ≤ i → i < start + k → P (f x i)) →
      P ((List.range' start k).foldl f a) := by
  intro k
  induction k generalizing start with
  | zero => intro a ha _; simpa using ha
  | succ k ih =>
    intro a ha hstep
    rw [List.range'_succ, List.foldl_cons]
    apply ih (start + 1) _ (hstep a start ha (Nat.le_refl _) (by omega))
    intro x i hx h1 h2
    exact hstep x i hx (by omega) (by omega)

theorem foldl_range'_rel {α : Type} (R : α → α → Prop) (f : α → Nat → α) (start : Nat) :
    ∀ (k : Nat) (a b : α), R a b → (∀ x y i, R x y → start ≤ i → i < start + k → R (f x i) (f y i)) →
      R ((List.range' start k).foldl f a) ((List.range' start k).foldl f b) := by
  intro k
  induction k generalizing start with
  | zero => intro a b h _; simpa using h
  | succ k ih =>
    intro a b h hstep
    rw [List.range'_succ, List.foldl_cons, List.foldl_cons]
    apply ih (start + 1) _ _ (hstep a b start h (Nat.le_refl _) (by omega))
    intro x y i hxy h1 h2
    exact hstep x y i hxy (by omega) (by omega)

/-- frame for a whole segment -/
theorem segment_frame (I : Inst) (r a s : Nat) (K : SegOK I s) (mem : Array Block) :
    (segmentRFC I r a s mem).size = mem.size ∧
    ∀ w, ¬ inSlice I a s w → (segmentRFC I r a s mem).getD w zeroB = mem.getD w zeroB := by
  unfold segmentRFC
  simp only []
  generalize hst : (if r = 0 ∧ s = 0 then 2 else 0) = start
  have hle : start ≤ 2 := by rw [← hst]; split <;> omega
  have hseg := K.seg2
  refine foldl_range'_inv (fun m : Array Block => m.size = mem.size ∧ ∀ w, ¬ inSlice I a s w → m.getD w zeroB = mem.getD w zeroB)
    _ _ _ _ ?_ ?_
  · exact ⟨rfl, fun _ _ => rfl⟩
  · intro x i ⟨h1, h2⟩ hi1 hi2
    obtain ⟨f1, f2⟩ := step_frame I r a s i x (by omega)
    exact ⟨by rw [f1, h1], fun w hw => by rw [f2 w hw, h2 w hw]⟩

/-- a whole segment of lane `a` does not depend on the current slice of another lane `b` -/
theorem segment_congr (I : Inst) (r a b s : Nat) (K : SegOK I s) (hab : a ≠ b) (m1 m2 : Array Block)
    (h : EqOut (inSlice I b s) m1 m2) :
    EqOut (inSlice I b s) (segmentRFC I r a s m1) (segmentRFC I r a s m2) := by
  unfold segmentRFC
  simp only []
  generalize hst : (if r = 0 ∧ s = 0 then 2 else 0) = start
  have hseg := K.seg2
  have hle : start ≤ 2 := by rw [← hst]; split <;> omega
  refine foldl_range'_rel (EqOut (inSlice I b s)) _ _ _ _ _ h ?_
  intro x y i hxy hi1 hi2
  apply step_congr I r a b s i K hab (by omega) _ x y hxy
  intro h1 h2
  rw [← hst, if_pos ⟨h1, h2⟩] at hi1
  exact hi1

theorem mem_ext (m1 m2 : Array Block) (hs : m1.size = m2.size)
    (h : ∀ w, w < m1.size → m1.getD w zeroB = m2.getD w zeroB) : m1 = m2 := by
  apply Array.ext hs
  intro i h1 h2
  have := h i h1
  simp only [Array.getD, h1, h2, dif_pos] at this
  exact this

/-- **lanes_commute**: within one (pass, slice) the segments of two different lanes commute — a segment only
    reads blocks of its own lane and, in other lanes, blocks outside the current slice, and only writes its own
    part of the current slice; so whatever order (or interleaving at segment granularity) the lanes of a slice
    are run in, the memory afterwards is the same -/
theorem lanes_commute (I : Inst) (r a b s : Nat) (K : SegOK I s) (hab : a ≠ b) (mem : Array Block) :
    segmentRFC I r a s (segmentRFC I r b s mem) = segmentRFC I r b s (segmentRFC I r a s mem) := by
  obtain ⟨sa, fa⟩ := segment_frame I r a s K mem
  obtain ⟨sb, fb⟩ := segment_frame I r b s K mem
  obtain ⟨sab, fab⟩ := segment_frame I r a s K (segmentRFC I r b s mem)
  obtain ⟨sba, fba⟩ := segment_frame I r b s K (segmentRFC I r a s mem)
  -- A(B mem) ≡ A(mem) outside slice b, and B(A mem) ≡ B(mem) outside slice a
  obtain ⟨_, cab⟩ := segment_congr I r a b s K hab (segmentRFC I r b s mem) mem ⟨sb, fb⟩
  obtain ⟨_, cba⟩ := segment_congr I r b a s K (Ne.symm hab) (segmentRFC I r a s mem) mem ⟨sa, fa⟩
  have hq := K.q4
  have hs4 := K.s4
  have hsb : s * I.seg ≤ 3 * I.seg := Nat.mul_le_mul_right _ (by omega)
  have hdisj : ∀ w, inSlice I a s w → ¬ inSlice I b s w := by
    intro w ⟨h1, h2⟩ ⟨h3, h4⟩
    have := lane_sep I.q a b (w - a * I.q) hab (by omega)
    omega
  apply mem_ext _ _ (by rw [sab, sb, sba, sa])
  intro w _
  by_cases hwa : inSlice I a s w
  · have hwb := hdisj w hwa
    rw [cab w hwb, fba w hwb]
  · by_cases hwb : inSlice I b s w
    · rw [fab w hwa, cba w hwa]
    · rw [fab w hwa, fb w hwb, fba w hwb, fa w hwa]

/-- **any lane order**: running the segments of a slice in any order (any permutation of the lanes) gives the
    memory the model's order 0, 1, …, p−1 gives -/
theorem lanes_any_order (I : Inst) (r s : Nat) (K : SegOK I s) (order : List Nat)
    (h : order.Perm (List.range I.p)) (mem : Array Block) :
    order.foldl (fun mem l => segmentRFC I r l s mem) mem =
      (List.range I.p).foldl (fun mem l => segmentRFC I r l s mem) mem := by
  apply List.Perm.foldl_eq' h
  intro x _ y _ z
  by_cases hxy : x = y
  · subst hxy; rfl
  · exact lanes_commute I r y x s K (Ne.symm hxy) z

/-! non-vacuity -/
example : SegOK ⟨2, 8, 2, 1, 16, 1⟩ 3 := ⟨rfl, by decide, by decide, by decide⟩

/-- an instance of `key_eq_rfc9106`: Argon2id, t = 1, m = 5 (below 8p: 16 blocks are used), p = 2, T = 70 -/
example : deriveKey 2 [1] [2] [] [] 1 5 2 70 = .key (argon2RFC 2 [1] [2] [] [] 1 5 2 70) :=
  key_eq_rfc9106 2 [1] [2] [] [] 1 5 2 70 (by decide) (by decide) (by decide) (by decide) (by decide) (by decide)

end XC.C15
