/-
  C52 — GT: Marshal followed by Unmarshal.
-/
import XC.Proofs.C52_Codec
namespace XC.C52

theorem flatMap_be32_length (l : List Int) : (l.flatMap be32).length = 32 * l.length := by
  induction l with
  | nil => rfl
  | cons a t ih => simp [List.flatMap_cons, be32_length, ih]; omega

theorem flatMap_be32_slice (l : List Int) (i : Nat) (h : i < l.length) :
    ((l.flatMap be32).drop (32 * i)).take 32 = be32 l[i] := by
  induction l generalizing i with
  | nil => simp at h
  | cons a t ih =>
    rw [List.flatMap_cons]
    cases i with
    | zero =>
      simp only [Nat.mul_zero, List.drop_zero, List.getElem_cons_zero]
      rw [List.take_append_of_le_length (by simp [be32_length]), List.take_of_length_le (by simp [be32_length])]
    | succ j =>
      have hj : j < t.length := by simpa using h
      have e : (be32 a ++ t.flatMap be32).drop 32 = t.flatMap be32 := by
        have hl : (be32 a).length = 32 := be32_length a
        rw [← hl, List.drop_left]
      rw [show 32 * (j + 1) = 32 + 32 * j by omega, ← List.drop_drop, e]
      simpa using ih j hj

theorem gt_slice (l : List Int) (i : Nat) (h : i < l.length) (hr : ∀ v ∈ l, 0 ≤ v ∧ v < p) :
    (natOfBE (((l.flatMap be32).drop (32 * i)).take 32) : Int) = l[i] := by
  rw [flatMap_be32_slice l i h]
  have := hr l[i] (List.getElem_mem h)
  have e := natOfBE_be32 l[i] this.1 this.2
  rwa [Int.emod_eq_of_lt this.1 this.2] at e


/-- the 12 coefficients in Marshal order -/
def gtCoeffs (e : GFp12) : List Int :=
  [e.x.x.x, e.x.x.y, e.x.y.x, e.x.y.y, e.x.z.x, e.x.z.y,
   e.y.x.x, e.y.x.y, e.y.y.x, e.y.y.y, e.y.z.x, e.y.z.y]

theorem gtMarshal_eq (e : GFp12) : gtMarshal e = (gtCoeffs e.minimal).flatMap be32 := rfl

theorem gtCoeffs_minimal_range (e : GFp12) : ∀ v ∈ gtCoeffs e.minimal, 0 ≤ v ∧ v < p := by
  intro v hv
  simp only [gtCoeffs, GFp12.minimal, GFp6.minimal, GFp2.minimal, List.mem_cons, List.not_mem_nil, or_false] at hv
  have h := p_pos
  rcases hv with rfl | rfl | rfl | rfl | rfl | rfl | rfl | rfl | rfl | rfl | rfl | rfl <;>
    exact ⟨Int.emod_nonneg _ (by omega), Int.emod_lt_of_pos _ h⟩

/-- **GT: Unmarshal(Marshal e) is e with every coefficient reduced mod p** (the same element) -/
theorem gt_marshal_unmarshal (e : GFp12) : gtUnmarshal (gtMarshal e) = some e.minimal := by
  have hr := gtCoeffs_minimal_range e
  have hl : (gtCoeffs e.minimal).length = 12 := rfl
  unfold gtUnmarshal
  rw [gtMarshal_eq]
  have hlen : ((gtCoeffs e.minimal).flatMap be32).length = 384 := by rw [flatMap_be32_length, hl]
  simp only [hlen, ne_eq, not_true_eq_false, ↓reduceIte]
  rw [gt_slice _ 0 (by omega) hr, gt_slice _ 1 (by omega) hr, gt_slice _ 2 (by omega) hr,
    gt_slice _ 3 (by omega) hr, gt_slice _ 4 (by omega) hr, gt_slice _ 5 (by omega) hr,
    gt_slice _ 6 (by omega) hr, gt_slice _ 7 (by omega) hr, gt_slice _ 8 (by omega) hr,
    gt_slice _ 9 (by omega) hr, gt_slice _ 10 (by omega) hr, gt_slice _ 11 (by omega) hr]
  rfl

/-- and Marshal is insensitive to the representative: re-marshalling the decoded element gives the same bytes -/
theorem gt_roundtrip_bytes (e e' : GFp12) (h : gtUnmarshal (gtMarshal e) = some e') : gtMarshal e' = gtMarshal e := by
  rw [gt_marshal_unmarshal] at h
  injection h with h
  subst h
  simp only [gtMarshal, GFp12.minimal, GFp6.minimal, GFp2.minimal, Int.emod_emod_of_dvd _ (Int.dvd_refl p)]

end XC.C52
