/-
  C13 — memory lemmas for slices of one arena (rd / wr / the left-to-right chunk loop / the bytewise xor
  loop).  Copied from g-stream's C53 library (XC/Proofs/C53.lean) into this namespace so that the two
  properties can evolve independently.
-/
import XC.Model.C13
namespace XC.C13.Mem

theorem getElem?_rd (mem : Bytes) (q n i : Nat) :
    (rd mem q n)[i]? = if i < n then mem[q + i]? else none := by
  simp only [rd, List.getElem?_take, List.getElem?_drop]

theorem getElem?_wr (mem : Bytes) (p : Nat) (A : Bytes) (i : Nat) (h : p + A.length ≤ mem.length) :
    (wr mem p A)[i]? = if i < p then mem[i]? else if i < p + A.length then A[i - p]? else mem[i]? := by
  simp only [wr, List.append_assoc]
  have hl : (mem.take p).length = p := by simp; omega
  by_cases h1 : i < p
  · simp only [h1, if_true]
    rw [List.getElem?_append_left (by omega), List.getElem?_take]
    simp [h1]
  · simp only [h1, if_false]
    rw [List.getElem?_append_right (by omega), hl]
    by_cases h2 : i < p + A.length
    · simp only [h2, if_true]
      rw [List.getElem?_append_left (by omega)]
    · simp only [h2, if_false]
      rw [List.getElem?_append_right (by omega), List.getElem?_drop]
      congr 1
      omega

theorem wr_length (mem : Bytes) (p : Nat) (A : Bytes) (h : p + A.length ≤ mem.length) :
    (wr mem p A).length = mem.length := by
  simp [wr]; omega

theorem rd_length (mem : Bytes) (q n : Nat) (h : q + n ≤ mem.length) : (rd mem q n).length = n := by
  simp [rd]; omega

theorem rd_add (mem : Bytes) (q a b : Nat) : rd mem q (a + b) = rd mem q a ++ rd mem (q + a) b := by
  simp only [rd, List.take_add, List.drop_drop]

theorem rd_take (mem : Bytes) (q a b : Nat) : (rd mem q (a + b)).take a = rd mem q a := by
  simp only [rd, List.take_take]
  congr 1
  omega

theorem rd_drop (mem : Bytes) (q a b : Nat) : (rd mem q (a + b)).drop a = rd mem (q + a) b := by
  simp only [rd, List.drop_take, List.drop_drop]
  congr 1
  omega

/-- two adjacent writes are one write of the concatenation -/
theorem wr_wr_adjacent (mem : Bytes) (p : Nat) (A B : Bytes) (h : p + A.length + B.length ≤ mem.length) :
    wr (wr mem p A) (p + A.length) B = wr mem p (A ++ B) := by
  apply List.ext_getElem?
  intro i
  have h1 : p + A.length ≤ mem.length := by omega
  rw [getElem?_wr _ _ _ _ (by rw [wr_length _ _ _ h1]; omega), getElem?_wr _ _ _ _ h1,
    getElem?_wr _ _ _ _ (by simp; omega)]
  simp only [List.length_append]
  by_cases c1 : i < p
  · have : i < p + A.length := by omega
    simp [c1, this]
  · by_cases c2 : i < p + A.length
    · simp only [c1, c2, if_false, if_true]
      rw [List.getElem?_append_left (by omega)]
      have : i < p + (A.length + B.length) := by omega
      simp [this]
    · simp only [c1, c2, if_false]
      by_cases c3 : i < p + A.length + B.length
      · have c3' : i < p + (A.length + B.length) := by omega
        simp only [c3, c3', if_true]
        rw [List.getElem?_append_right (by omega)]
        congr 1
        omega
      · have c3' : ¬ i < p + (A.length + B.length) := by omega
        simp [c3, c3']

/-- reading a region that a write did not touch -/
theorem rd_wr_disjoint (mem : Bytes) (p : Nat) (A : Bytes) (q n : Nat) (h : p + A.length ≤ mem.length)
    (hd : q + n ≤ p ∨ p + A.length ≤ q) : rd (wr mem p A) q n = rd mem q n := by
  apply List.ext_getElem?
  intro i
  rw [getElem?_rd, getElem?_rd]
  by_cases hi : i < n
  · simp only [hi, if_true]
    rw [getElem?_wr _ _ _ _ h]
    rcases hd with hd | hd
    · have : q + i < p := by omega
      simp [this]
    · have c1 : ¬ q + i < p := by omega
      have c2 : ¬ q + i < p + A.length := by omega
      simp [c1, c2]
  · simp [hi]

def sum : List Nat → Nat
  | [] => 0
  | c :: cs => c + sum cs

/-- **the chunk loop computes the functional result** whenever dst does not start inside src after its
    first byte: `d ≤ s` (this includes the exact overlap d = s and a dst region entirely before src) or dst
    entirely after src.  `g` must preserve lengths. -/
theorem chunkLoop_eq (g : Nat → Bytes → Bytes) (hg : ∀ o b, (g o b).length = b.length)
    (cs : List Nat) (o : Nat) (mem : Bytes) (d s : Nat)
    (hd : d + o + sum cs ≤ mem.length) (hs : s + o + sum cs ≤ mem.length)
    (hov : d ≤ s ∨ s + o + sum cs ≤ d + o) :
    chunkLoop g cs o mem d s = wr mem (d + o) (mapChunks g cs o (rd mem (s + o) (sum cs))) := by
  induction cs generalizing o mem with
  | nil =>
    simp only [chunkLoop, mapChunks, wr, List.append_nil, List.length_nil, Nat.add_zero, List.take_append_drop]
  | cons c cs ih =>
    simp only [sum] at hd hs hov
    have hrl : (rd mem (s + o) c).length = c := rd_length _ _ _ (by omega)
    have hgl : (g o (rd mem (s + o) c)).length = c := by rw [hg, hrl]
    have hwl : (wr mem (d + o) (g o (rd mem (s + o) c))).length = mem.length :=
      wr_length _ _ _ (by rw [hgl]; omega)
    simp only [chunkLoop, mapChunks, sum]
    rw [ih (o + c) _ (by rw [hwl]; omega) (by rw [hwl]; omega) (by omega)]
    rw [rd_wr_disjoint _ _ _ _ _ (by rw [hgl]; omega) (by rw [hgl]; omega)]
    rw [rd_take, rd_drop]
    have e1 : d + (o + c) = d + o + (g o (rd mem (s + o) c)).length := by rw [hgl]; omega
    have e2 : s + (o + c) = s + o + c := by omega
    rw [e1, e2]
    have hml : (mapChunks g cs (o + c) (rd mem (s + o + c) (sum cs))).length = sum cs := by
      have : ∀ (cs : List Nat) (o : Nat) (src : Bytes), src.length = sum cs →
          (mapChunks g cs o src).length = sum cs := by
        intro cs
        induction cs with
        | nil => intro o src _; rfl
        | cons c cs ih2 =>
          intro o src hsrc
          simp only [sum] at hsrc
          simp only [mapChunks, List.length_append, hg, sum, List.length_take]
          rw [ih2 (o + c) (src.drop c) (by simp; omega)]
          omega
      exact this cs (o + c) _ (rd_length _ _ _ (by omega))
    exact wr_wr_adjacent _ _ _ _ (by rw [hgl, hml]; omega)

/-! ## the bytewise xor loop -/

theorem sum_replicate_one (n : Nat) : sum (List.replicate n 1) = n := by
  induction n with
  | zero => rfl
  | succ n ih => simp [List.replicate_succ, sum, ih]; omega

theorem xorG_length (ks : Bytes) (o : Nat) (b : Bytes) : (xorG ks o b).length = b.length := by
  simp [xorG, xorBytes, zeros]

theorem mapChunks_xor (ks : Bytes) (n o : Nat) (src : Bytes) (hl : src.length = n) (hk : o + n ≤ ks.length) :
    mapChunks (xorG ks) (List.replicate n 1) o src = xorBytes src ((ks.drop o).take n) := by
  induction n generalizing o src with
  | zero =>
    have : src = [] := List.eq_nil_of_length_eq_zero hl
    subst this
    simp [mapChunks, xorBytes]
  | succ n ih =>
    cases src with
    | nil => simp at hl
    | cons x xs =>
      simp only [List.length_cons, Nat.add_right_cancel_iff] at hl
      simp only [List.replicate_succ, mapChunks, List.take_succ_cons, List.take_zero, List.drop_succ_cons,
        List.drop_zero]
      rw [ih (o + 1) xs hl (by omega)]
      cases hkd : ks.drop o with
      | nil =>
        have : (ks.drop o).length = ks.length - o := by simp
        rw [hkd] at this
        simp at this
        omega
      | cons k kr =>
        have : ks.drop (o + 1) = kr := by
          rw [← List.drop_drop, hkd]; rfl
        simp [xorG, xorBytes, hkd, this]

/-- the bytewise loop `dst[i] = src[i] ^ ks[i]` on one arena = xor on a separate copy, written to dst -/
theorem xorLoop_eq (ks mem : Bytes) (d s n : Nat) (hk : n ≤ ks.length)
    (hd : d + n ≤ mem.length) (hs : s + n ≤ mem.length) (hov : d ≤ s ∨ s + n ≤ d) :
    xorLoop ks mem d s n = wr mem d (xorBytes (rd mem s n) (ks.take n)) := by
  unfold xorLoop
  have h := chunkLoop_eq (xorG ks) (xorG_length ks) (List.replicate n 1) 0 mem d s
    (by rw [sum_replicate_one]; omega) (by rw [sum_replicate_one]; omega) (by rw [sum_replicate_one]; omega)
  rw [h, sum_replicate_one, Nat.add_zero, Nat.add_zero,
    mapChunks_xor ks n 0 _ (rd_length _ _ _ hs) (by omega), List.drop_zero]


end XC.C13.Mem
