/-
  C03 — one concrete step (XORKeyStream / SetCounter, bufSize = 64) refines the abstract step.
-/
import XC.Proofs.C03_Refine
namespace XC.C03

theorem xorBytes_zeros_left (n : Nat) (b : Bytes) (h : b.length = n) : xorBytes (zeros n) b = b := by
  subst h
  induction b with
  | nil => rfl
  | cons x xs ih => simpa [xorBytes, zeros, List.replicate_succ] using ih

theorem xorBytes_take (a b : Bytes) (n : Nat) : (xorBytes a b).take n = xorBytes (a.take n) (b.take n) := by
  simp [xorBytes, List.take_zipWith]

theorem xorBytes_drop (a b : Bytes) (n : Nat) : (xorBytes a b).drop n = xorBytes (a.drop n) (b.drop n) := by
  simp [xorBytes, List.drop_zipWith]

theorem xorBytes_split (src A B : Bytes) (h : A.length ≤ src.length) :
    xorBytes src (A ++ B) = xorBytes (src.take A.length) A ++ xorBytes (src.drop A.length) B := by
  conv => lhs; rw [← List.take_append_drop A.length src]
  rw [xorBytes_append _ _ _ _ (by simp; omega)]

/-- the "whole buffers" part of XORKeyStream -/
theorem fullPart_spec (s2 : Cipher) (hpre : s2.precompDone = true → PrecompOK s2) (src1 : Bytes)
    (hc : s2.counter.toNat + src1.length / 64 ≤ 2 ^ 32) :
    ∃ s3, (if src1.length - src1.length % 64 > 0 then blocks s2 (src1.take (src1.length - src1.length % 64))
           else .ok (s2, [])) =
        .ok (s3, xorBytes (src1.take (64 * (src1.length / 64)))
                  (ksRange s2.key s2.nonce (64 * s2.counter.toNat) (64 * (src1.length / 64)))) ∧
      Same s2 s3 (s2.counter + UInt32.ofNat (src1.length / 64)) := by
  have e : src1.length - src1.length % 64 = 64 * (src1.length / 64) := by omega
  rw [e]
  by_cases hq : 64 * (src1.length / 64) > 0
  · simp only [hq, if_true]
    exact blocks_spec s2 hpre _ _ (by simp; omega) hc
  · have hq0 : src1.length / 64 = 0 := by omega
    simp only [hq0]
    refine ⟨s2, ?_, ⟨rfl, rfl, by simp, rfl, rfl, rfl, hpre⟩⟩
    simp [xorBytes]

/-- the padded last block of XORKeyStream -/
theorem tailPart_spec (s3 : Cipher) (hpre : s3.precompDone = true → PrecompOK s3) (src2 : Bytes)
    (ht : 0 < src2.length) (ht' : src2.length < 64) :
    ∃ s4 bx, blocks s3 (src2 ++ zeros (64 - src2.length)) = .ok (s4, bx) ∧
      Same s3 s4 (s3.counter + 1) ∧ bx.length = 64 ∧
      bx.take src2.length = xorBytes src2 (ksRange s3.key s3.nonce (64 * s3.counter.toNat) src2.length) ∧
      bx.drop src2.length = ksRange s3.key s3.nonce (64 * s3.counter.toNat + src2.length) (64 - src2.length) := by
  have hl : (src2 ++ zeros (64 - src2.length)).length = 64 * 1 := by simp [zeros]; omega
  obtain ⟨s4, hb, hs⟩ := blocks_spec s3 hpre _ 1 hl (by have := UInt32.toNat_lt s3.counter; omega)
  refine ⟨s4, _, hb, by simpa using hs, ?_, ?_, ?_⟩
  · simp [xorBytes_length, ksRange_length, zeros]; omega
  · rw [xorBytes_take, ksRange_take]
    simp only [List.take_left']
    rw [Nat.min_eq_left (by omega)]
  · rw [xorBytes_drop, ksRange_drop, List.drop_left' rfl]
    rw [xorBytes_zeros_left _ _ (by simp [ksRange_length])]

theorem xorRest_spec (s1 : Cipher) (hi : Inv s1) (hlen : s1.len = 0) (src1 : Bytes) (hr : src1.length ≠ 0) :
    if 64 * tc s1 + src1.length > limit then xorRest 1 s1 src1 = .error .overflow
    else ∃ s', xorRest 1 s1 src1 = .ok (s', xorBytes src1 (ksRange s1.key s1.nonce (64 * tc s1) src1.length)) ∧
         Inv s' ∧ pos s' = 64 * tc s1 + src1.length ∧ s'.key = s1.key ∧ s'.nonce = s1.nonce := by
  have hclt : s1.counter.toNat < 2 ^ 32 := UInt32.toNat_lt _
  by_cases hov : s1.overflow = true
  · have : 64 * tc s1 + src1.length > limit := by simp [tc, hov, limit]; omega
    simp only [this, if_true]
    simp [xorRest, hov]
  · have hov' : s1.overflow = false := by simpa using hov
    have htc : tc s1 = s1.counter.toNat := by simp [tc, hov']
    rw [htc]
    by_cases hpanic : 64 * s1.counter.toNat + src1.length > limit
    · simp only [hpanic, if_true]
      have : s1.counter.toNat + (src1.length + 63) / 64 > 2 ^ 32 := by simp only [limit] at hpanic; omega
      simp [xorRest, hov', this]
    · simp only [hpanic, if_false]
      have hnp : ¬ (s1.counter.toNat + (src1.length + 63) / 64 > 2 ^ 32) := by simp only [limit] at hpanic; omega
      simp only [limit] at hpanic
      -- the state after the overflow bookkeeping
      have hs2 : ∃ s2 : Cipher, (if s1.counter.toNat + (src1.length + 63) / 64 = 2 ^ 32 then { s1 with overflow := true } else s1) = s2 ∧
          s2.key = s1.key ∧ s2.nonce = s1.nonce ∧ s2.counter = s1.counter ∧ s2.buf = s1.buf ∧ s2.len = s1.len ∧
          (s2.precompDone = true → PrecompOK s2) ∧
          (s2.overflow = true ↔ s1.counter.toNat + (src1.length + 63) / 64 = 2 ^ 32) := by
        refine ⟨_, rfl, ?_⟩
        split
        · refine ⟨rfl, rfl, rfl, rfl, rfl, hi.pre, by simpa⟩
        · refine ⟨rfl, rfl, rfl, rfl, rfl, hi.pre, by simp [hov']; assumption⟩
      obtain ⟨s2, hs2e, h2k, h2n, h2c, h2b, h2l, h2p, h2o⟩ := hs2
      have hcq : s2.counter.toNat + src1.length / 64 ≤ 2 ^ 32 := by rw [h2c]; omega
      obtain ⟨s3, hf, hs3⟩ := fullPart_spec s2 h2p src1 hcq
      have e : src1.length - src1.length % 64 = 64 * (src1.length / 64) := by omega
      have h3c : s3.counter.toNat = (s1.counter.toNat + src1.length / 64) % 2 ^ 32 := by
        rw [hs3.counter, h2c, UInt32.toNat_add, UInt32.toNat_ofNat']; simp
      have h3lt : ¬ (s3.counter.toNat + 1 > 2 ^ 32) := by have := UInt32.toNat_lt s3.counter; omega
      have hsplit : src1 = src1.take (64 * (src1.length / 64)) ++ src1.drop (64 * (src1.length / 64)) :=
        (List.take_append_drop _ _).symm
      simp only [xorRest, hov', hnp, Bool.false_or, decide_false, Nat.mul_one, hs2e, hf, bind, Except.bind, h3lt,
        if_false, Bool.false_eq_true]
      by_cases ht : (src1.drop (src1.length - src1.length % 64)).length > 0
      · -- a partial last block
        simp only [ht, if_true]
        have htl : (src1.drop (src1.length - src1.length % 64)).length = src1.length % 64 := by simp; omega
        rw [e] at ht htl ⊢
        have htpos : 0 < src1.length % 64 := by omega
        obtain ⟨s4, bx, hb, hs4, hbl, hbt, hbd⟩ := tailPart_spec s3 hs3.pre (src1.drop (64 * (src1.length / 64)))
          (by omega) (by omega)
        rw [hb]
        have hnowrap : s1.counter.toNat + src1.length / 64 < 2 ^ 32 := by omega
        have h3c' : s3.counter.toNat = s1.counter.toNat + src1.length / 64 := by rw [h3c]; omega
        have h4c : s4.counter.toNat = (s1.counter.toNat + src1.length / 64 + 1) % 2 ^ 32 := by
          rw [hs4.counter, UInt32.toNat_add, h3c']; simp
        have h4o : s4.overflow = true ↔ s1.counter.toNat + src1.length / 64 + 1 = 2 ^ 32 := by
          rw [hs4.overflow, hs3.overflow, h2o]; omega
        obtain ⟨S, hSe, hSk, hSn, hSc, hSo, hSb, hSl, hSp⟩ : ∃ S : Cipher,
            S = { s4 with buf := bx, len := 64 - (src1.drop (64 * (src1.length / 64))).length } ∧
            S.key = s4.key ∧ S.nonce = s4.nonce ∧ S.counter = s4.counter ∧ S.overflow = s4.overflow ∧
            S.buf = bx ∧ S.len = 64 - src1.length % 64 ∧ (S.precompDone = true → PrecompOK S) :=
          ⟨_, rfl, rfl, rfl, rfl, rfl, rfl, by simp only [htl], hs4.pre⟩
        have htcS : tc S = s1.counter.toNat + src1.length / 64 + 1 := by
          simp only [tc, hSo, hSc]
          by_cases hw : s1.counter.toNat + src1.length / 64 + 1 = 2 ^ 32
          · simp [h4o.mpr hw, hw]
          · have : s4.overflow = false := by
              cases h : s4.overflow
              · rfl
              · exact absurd (h4o.mp h) hw
            simp [this, h4c]; omega
        have hposS : pos S = 64 * s1.counter.toNat + src1.length := by
          simp only [pos, htcS, hSl]; omega
        refine ⟨S, ?_, ?_, hposS, ?_, ?_⟩
        · -- output bytes
          rw [hSe]
          simp only []
          congr 2
          have hk : ksRange s1.key s1.nonce (64 * s1.counter.toNat) src1.length =
              ksRange s1.key s1.nonce (64 * s1.counter.toNat) (64 * (src1.length / 64)) ++
              ksRange s1.key s1.nonce (64 * s1.counter.toNat + 64 * (src1.length / 64)) (src1.length % 64) := by
            rw [← ksRange_add]; congr 1; omega
          rw [hk, xorBytes_split _ _ _ (by simp [ksRange_length]; omega), ksRange_length]
          rw [hbt, htl, hs3.key, hs3.nonce, h2k, h2n, h2c, h3c']
          congr 3
          omega
        · -- invariant
          refine ⟨by rw [hSb]; exact hbl, by rw [hSl]; omega, by rw [htcS, hSl]; omega, ?_, ?_, hSp⟩
          · intro ho
            rw [hSo] at ho
            have hw := h4o.mp ho
            apply UInt32.toNat_inj.mp
            rw [hSc, h4c, hw]
            simp
          · rw [hposS, hSl, hSb, hSk, hSn]
            rw [show 64 - (64 - src1.length % 64) = src1.length % 64 by omega]
            rw [← htl, hbd, htl, hs4.key, hs4.nonce, h3c']
            congr 1
            omega
        · rw [hSk, hs4.key, hs3.key, h2k]
        · rw [hSn, hs4.nonce, hs3.nonce, h2n]
      · -- the input ends on a block boundary
        simp only [ht, if_false]
        have ht0 : src1.length % 64 = 0 := by
          have : (src1.drop (src1.length - src1.length % 64)).length = src1.length % 64 := by simp; omega
          omega
        have hq : 64 * (src1.length / 64) = src1.length := by omega
        have h3o : s3.overflow = true ↔ s1.counter.toNat + src1.length / 64 = 2 ^ 32 := by
          rw [hs3.overflow, h2o]; omega
        have htc3 : tc s3 = s1.counter.toNat + src1.length / 64 := by
          simp only [tc]
          by_cases hw : s1.counter.toNat + src1.length / 64 = 2 ^ 32
          · simp [h3o.mpr hw, hw]
          · have : s3.overflow = false := by
              cases h : s3.overflow
              · rfl
              · exact absurd (h3o.mp h) hw
            simp [this, h3c]; omega
        have h3l : s3.len = 0 := by rw [hs3.len, h2l, hlen]
        have hpos3 : pos s3 = 64 * s1.counter.toNat + src1.length := by
          simp only [pos, htc3, h3l]; omega
        refine ⟨s3, ?_, ?_, hpos3, ?_, ?_⟩
        · congr 2
          rw [hq, List.take_of_length_le (Nat.le_refl _), h2k, h2n, h2c]
        · refine ⟨by rw [hs3.buf, h2b]; exact hi.buflen, by omega, by omega, ?_, ?_, hs3.pre⟩
          · intro ho
            have hw := h3o.mp ho
            apply UInt32.toNat_inj.mp
            rw [h3c, hw]
            simp
          · rw [h3l, hs3.buf, h2b]
            simp [ksRange, hi.buflen]
        · rw [hs3.key, h2k]
        · rw [hs3.nonce, h2n]

end XC.C03
