/-
  C03 — one concrete step (XORKeyStream / SetCounter, bufSize = 64·m for every m ≥ 1) refines the abstract step.
-/
import XC.Proofs.C03_Refine
namespace XC.C03

theorem xorBytes_zeros_left (n : Nat) (b : Bytes) (h : b.length = n) : xorBytes (zeros n) b = b := by
  subst h
  induction b with
  | nil => rfl
  | cons x xs ih => simpa [xorBytes, zeros, List.replicate_succ] using ih

theorem xorBytes_take (a b : Bytes) (n : Nat) : (xorBytes a b).take n = xorBytes (a.take n) (b.take n) := by
  simp [xorBytes, List.take_zipWith]

theorem xorBytes_drop (a b : Bytes) (n : Nat) : (xorBytes a b).drop n = xorBytes (a.drop n) (b.drop n) := by
  simp [xorBytes, List.drop_zipWith]

theorem xorBytes_split (src A B : Bytes) (h : A.length ≤ src.length) :
    xorBytes src (A ++ B) = xorBytes (src.take A.length) A ++ xorBytes (src.drop A.length) B := by
  conv => lhs; rw [← List.take_append_drop A.length src]
  rw [xorBytes_append _ _ _ _ (by simp; omega)]

theorem drop_append_add (A B : Bytes) (k : Nat) : (A ++ B).drop (A.length + k) = B.drop k := by
  induction A with
  | nil => simp
  | cons a A ih =>
    rw [List.cons_append, List.length_cons, Nat.add_right_comm, List.drop_succ_cons]
    exact ih

/-- the "whole buffers" part of XORKeyStream: `F = 64·q` bytes -/
theorem fullPart_spec (s2 : Cipher) (hpre : s2.precompDone = true → PrecompOK s2) (src1 : Bytes) (F q : Nat)
    (hF : F = 64 * q) (hle : F ≤ src1.length) (hc : s2.counter.toNat + q ≤ 2 ^ 32) :
    ∃ s3, (if F > 0 then blocks s2 (src1.take F) else .ok (s2, [])) =
        .ok (s3, xorBytes (src1.take (64 * q)) (ksRange s2.key s2.nonce (64 * s2.counter.toNat) (64 * q))) ∧
      Same s2 s3 (s2.counter + UInt32.ofNat q) := by
  subst hF
  by_cases hq : 64 * q > 0
  · simp only [hq, if_true]
    exact blocks_spec s2 hpre _ _ (by simp; omega) hc
  · have hq0 : q = 0 := by omega
    subst hq0
    simp only [Nat.mul_zero, Nat.lt_irrefl, if_false]
    refine ⟨s2, ?_, ⟨rfl, rfl, by simp, rfl, rfl, rfl, hpre⟩⟩
    simp [xorBytes]

/-- the padded tail of XORKeyStream: `j` blocks over `src2 ‖ 0…0` -/
theorem tailPart_spec (s3 : Cipher) (hpre : s3.precompDone = true → PrecompOK s3) (src2 : Bytes) (j : Nat)
    (ht : src2.length ≤ 64 * j) (hc : s3.counter.toNat + j ≤ 2 ^ 32) :
    ∃ s4 bx, blocksGeneric s3 (src2 ++ zeros (64 * j - src2.length)) = .ok (s4, bx) ∧
      Same s3 s4 (s3.counter + UInt32.ofNat j) ∧ bx.length = 64 * j ∧
      bx.take src2.length = xorBytes src2 (ksRange s3.key s3.nonce (64 * s3.counter.toNat) src2.length) ∧
      bx.drop src2.length =
        ksRange s3.key s3.nonce (64 * s3.counter.toNat + src2.length) (64 * j - src2.length) := by
  have hl : (src2 ++ zeros (64 * j - src2.length)).length = 64 * j := by simp [zeros]; omega
  obtain ⟨s4, hb, hs⟩ := blocks_spec s3 hpre _ j hl hc
  refine ⟨s4, _, hb, hs, ?_, ?_, ?_⟩
  · simp [xorBytes_length, ksRange_length, zeros]; omega
  · rw [xorBytes_take, ksRange_take]
    simp only [List.take_left']
    rw [Nat.min_eq_left ht]
  · rw [xorBytes_drop, ksRange_drop, List.drop_left' rfl]
    rw [xorBytes_zeros_left _ _ (by simp [ksRange_length])]

/-- the state after the tail: `C` = block counter before the `j` tail blocks, `t` tail bytes used -/
theorem tail_state_inv (m : Nat) (hm : 0 < m) (S : Cipher) (C j t : Nat)
    (hcnt : S.counter.toNat = (C + j) % 2 ^ 32) (hov : S.overflow = true ↔ C + j = 2 ^ 32)
    (hCj : C + j ≤ 2 ^ 32) (ht : t ≤ 64 * j) (hlen : S.len = 64 * j - t) (hlt : 64 * j - t < 64 * m)
    (hbl : S.buf.length = 64 * m)
    (hbd : S.buf.drop (64 * m - (64 * j - t)) = ksRange S.key S.nonce (64 * C + t) (64 * j - t))
    (hpre : S.precompDone = true → PrecompOK S) (hovl : C + j = 2 ^ 32 → 64 * j - t < 64) :
    Inv m S ∧ pos S = 64 * C + t := by
  have htc : tc S = C + j := by
    simp only [tc]
    by_cases hw : C + j = 2 ^ 32
    · simp [hov.mpr hw, hw]
    · have : S.overflow = false := by
        cases h : S.overflow
        · rfl
        · exact absurd (hov.mp h) hw
      simp [this, hcnt]; omega
  have hpos : pos S = 64 * C + t := by simp only [pos, htc, hlen]; omega
  refine ⟨⟨hm, hbl, by omega, by rw [htc, hlen]; omega, ?_, ?_, hpre, ?_⟩, hpos⟩
  · intro ho
    have hw := hov.mp ho
    apply UInt32.toNat_inj.mp
    rw [hcnt, hw]
    simp
  · rw [hpos, hlen]; exact hbd
  · intro ho
    rw [hlen]
    exact hovl (hov.mp ho)

theorem xorRest_spec (m : Nat) (s1 : Cipher) (hi : Inv m s1) (hlen : s1.len = 0) (src1 : Bytes)
    (hr : src1.length ≠ 0) :
    if 64 * tc s1 + src1.length > limit then xorRest m s1 src1 = .error .overflow
    else ∃ s', xorRest m s1 src1 = .ok (s', xorBytes src1 (ksRange s1.key s1.nonce (64 * tc s1) src1.length)) ∧
         Inv m s' ∧ pos s' = 64 * tc s1 + src1.length ∧ s'.key = s1.key ∧ s'.nonce = s1.nonce := by
  have hm := hi.mpos
  have hclt : s1.counter.toNat < 2 ^ 32 := UInt32.toNat_lt _
  by_cases hov : s1.overflow = true
  · have : 64 * tc s1 + src1.length > limit := by simp [tc, hov, limit]; omega
    simp only [this, if_true]
    simp [xorRest, hov]
  · have hov' : s1.overflow = false := by simpa using hov
    have htc : tc s1 = s1.counter.toNat := by simp [tc, hov']
    rw [htc]
    by_cases hpanic : 64 * s1.counter.toNat + src1.length > limit
    · simp only [hpanic, if_true]
      have : s1.counter.toNat + (src1.length + 63) / 64 > 2 ^ 32 := by simp only [limit] at hpanic; omega
      simp [xorRest, hov', this]
    · simp only [hpanic, if_false]
      have hnp : ¬ (s1.counter.toNat + (src1.length + 63) / 64 > 2 ^ 32) := by simp only [limit] at hpanic; omega
      simp only [limit] at hpanic
      -- the state after the overflow bookkeeping
      have hs2 : ∃ s2 : Cipher, (if s1.counter.toNat + (src1.length + 63) / 64 = 2 ^ 32 then { s1 with overflow := true } else s1) = s2 ∧
          s2.key = s1.key ∧ s2.nonce = s1.nonce ∧ s2.counter = s1.counter ∧ s2.buf = s1.buf ∧ s2.len = s1.len ∧
          (s2.precompDone = true → PrecompOK s2) ∧
          (s2.overflow = true ↔ s1.counter.toNat + (src1.length + 63) / 64 = 2 ^ 32) := by
        refine ⟨_, rfl, ?_⟩
        split
        · refine ⟨rfl, rfl, rfl, rfl, rfl, hi.pre, by simpa⟩
        · refine ⟨rfl, rfl, rfl, rfl, rfl, hi.pre, by simp [hov']; assumption⟩
      obtain ⟨s2, hs2e, h2k, h2n, h2c, h2b, h2l, h2p, h2o⟩ := hs2
      -- full = 64·q, the tail has t < 64·m bytes
      obtain ⟨q, hF, htlt, hqle⟩ : ∃ q, src1.length - src1.length % (64 * m) = 64 * q ∧
          src1.length - 64 * q < 64 * m ∧ 64 * q ≤ src1.length := by
        refine ⟨m * (src1.length / (64 * m)), ?_, ?_, ?_⟩
        · have := Nat.mod_add_div src1.length (64 * m)
          rw [← Nat.mul_assoc]; omega
        · have h1 := Nat.mod_add_div src1.length (64 * m)
          have h2 := Nat.mod_lt src1.length (show 64 * m > 0 by omega)
          rw [← Nat.mul_assoc]; omega
        · have := Nat.mod_add_div src1.length (64 * m)
          rw [← Nat.mul_assoc]; omega
      have hcq : s2.counter.toNat + q ≤ 2 ^ 32 := by rw [h2c]; omega
      obtain ⟨s3, hf, hs3⟩ := fullPart_spec s2 h2p src1 (64 * q) q rfl (by omega) hcq
      have h3c : s3.counter.toNat = (s1.counter.toNat + q) % 2 ^ 32 := by
        rw [hs3.counter, h2c, UInt32.toNat_add, UInt32.toNat_ofNat']; simp
      have h3o : s3.overflow = true ↔ s1.counter.toNat + (src1.length + 63) / 64 = 2 ^ 32 := by
        rw [hs3.overflow, h2o]
      have htl : (src1.drop (64 * q)).length = src1.length - 64 * q := by simp
      have hk : ksRange s1.key s1.nonce (64 * s1.counter.toNat) src1.length =
          ksRange s1.key s1.nonce (64 * s1.counter.toNat) (64 * q) ++
          ksRange s1.key s1.nonce (64 * s1.counter.toNat + 64 * q) (src1.length - 64 * q) := by
        rw [← ksRange_add]; congr 1; omega
      simp only [xorRest, hov', hnp, Bool.false_or, decide_false, hs2e, hF, hf, bind, Except.bind,
        if_false, Bool.false_eq_true]
      by_cases ht0 : src1.length - 64 * q = 0
      · -- the input ends on a buffer boundary: nothing is padded, whichever branch is taken
        have hq : 64 * q = src1.length := by omega
        have hout : xorBytes (src1.take (64 * q)) (ksRange s2.key s2.nonce (64 * s2.counter.toNat) (64 * q)) =
            xorBytes src1 (ksRange s1.key s1.nonce (64 * s1.counter.toNat) src1.length) := by
          rw [hq, List.take_of_length_le (Nat.le_refl _), h2k, h2n, h2c]
        have hnb : ((src1.drop (64 * q)).length + 63) / 64 = 0 := by rw [htl]; omega
        by_cases hA : s3.counter.toNat + m ≥ 2 ^ 32
        · simp only [hA, if_true, htl, ht0]
          obtain ⟨s4, bx, hb, hs4, hbl, hbt, hbd⟩ := tailPart_spec s3 hs3.pre (src1.drop (64 * q)) 0
            (by rw [htl]; omega) (by omega)
          simp only [htl, ht0, Nat.mul_zero, Nat.sub_self] at hb hbl hbt hbd ⊢
          rw [hb]
          have hbx : bx = [] := List.eq_nil_of_length_eq_zero hbl
          subst hbx
          obtain ⟨S, hSe, hSk, hSn, hSc, hSo, hSb, hSl, hSp⟩ : ∃ S : Cipher,
              S = { s4 with buf := zeros (64 * m) ++ [], len := 0 } ∧
              S.key = s4.key ∧ S.nonce = s4.nonce ∧ S.counter = s4.counter ∧ S.overflow = s4.overflow ∧
              S.buf = zeros (64 * m) ++ [] ∧ S.len = 0 ∧ (S.precompDone = true → PrecompOK S) :=
            ⟨_, rfl, rfl, rfl, rfl, rfl, rfl, rfl, hs4.pre⟩
          have h4c : S.counter.toNat = (s1.counter.toNat + q + 0) % 2 ^ 32 := by
            rw [hSc, hs4.counter, UInt32.toNat_add, h3c]; simp
          have := tail_state_inv m hm S (s1.counter.toNat + q) 0 0 h4c
            (by rw [hSo, hs4.overflow, h3o]; omega) (by omega) (by omega) (by rw [hSl]) (by omega)
            (by rw [hSb]; simp [zeros]) (by rw [hSb]; simp [zeros, ksRange]) hSp (by intro; omega)
          refine ⟨S, ?_, this.1, by rw [this.2]; omega, by rw [hSk, hs4.key, hs3.key, h2k],
            by rw [hSn, hs4.nonce, hs3.nonce, h2n]⟩
          rw [hSe]
          simp [hout]
        · have hnt : ¬ ((src1.drop (64 * q)).length > 0) := by rw [htl]; omega
          simp only [hA, hnt, if_false]
          have h3l : s3.len = 0 := by rw [hs3.len, h2l, hlen]
          have := tail_state_inv m hm s3 (s1.counter.toNat + q) 0 0 (by rw [h3c]; simp)
            (by rw [h3o]; omega) (by omega) (by omega) (by rw [h3l]) (by omega)
            (by rw [hs3.buf, h2b]; exact hi.buflen)
            (by rw [hs3.buf, h2b]; simp [hi.buflen, ksRange]) hs3.pre (by intro; omega)
          refine ⟨s3, by rw [hout], this.1, by rw [this.2]; omega, by rw [hs3.key, h2k], by rw [hs3.nonce, h2n]⟩
      · -- a partial last buffer of t = len − 64·q bytes (0 < t < 64·m)
        have hnowrap : s1.counter.toNat + q < 2 ^ 32 := by omega
        have h3c' : s3.counter.toNat = s1.counter.toNat + q := by rw [h3c]; omega
        have hout : ∀ bx : Bytes,
            bx.take (src1.drop (64 * q)).length = xorBytes (src1.drop (64 * q))
              (ksRange s3.key s3.nonce (64 * s3.counter.toNat) (src1.drop (64 * q)).length) →
            xorBytes (src1.take (64 * q)) (ksRange s2.key s2.nonce (64 * s2.counter.toNat) (64 * q)) ++
              bx.take (src1.drop (64 * q)).length =
            xorBytes src1 (ksRange s1.key s1.nonce (64 * s1.counter.toNat) src1.length) := by
          intro bx hbt
          rw [hk, xorBytes_split _ _ _ (by simp [ksRange_length]; omega), ksRange_length]
          rw [hbt, htl, hs3.key, hs3.nonce, h2k, h2n, h2c, h3c']
          congr 3
          omega
        by_cases hA : s3.counter.toNat + m ≥ 2 ^ 32
        · -- one block at a time (the multi-block refill would reach 2^32)
          simp only [hA, if_true]
          have hnbdef : ∃ nb, ((src1.drop (64 * q)).length + 63) / 64 = nb ∧
              (src1.drop (64 * q)).length ≤ 64 * nb ∧ 64 * nb - (src1.drop (64 * q)).length < 64 ∧
              s1.counter.toNat + q + nb = s1.counter.toNat + (src1.length + 63) / 64 := by
            refine ⟨_, rfl, ?_, ?_, ?_⟩ <;> rw [htl] <;> omega
          obtain ⟨nb, hnbe, hnb1, hnb2, hnb3⟩ := hnbdef
          simp only [hnbe]
          obtain ⟨s4, bx, hb, hs4, hbl, hbt, hbd⟩ := tailPart_spec s3 hs3.pre (src1.drop (64 * q)) nb hnb1
            (by rw [h3c']; omega)
          rw [hb]
          obtain ⟨S, hSe, hSk, hSn, hSc, hSo, hSb, hSl, hSp⟩ : ∃ S : Cipher,
              S = { s4 with buf := zeros (64 * m - 64 * nb) ++ bx, len := 64 * nb - (src1.drop (64 * q)).length } ∧
              S.key = s4.key ∧ S.nonce = s4.nonce ∧ S.counter = s4.counter ∧ S.overflow = s4.overflow ∧
              S.buf = zeros (64 * m - 64 * nb) ++ bx ∧ S.len = 64 * nb - (src1.length - 64 * q) ∧
              (S.precompDone = true → PrecompOK S) :=
            ⟨_, rfl, rfl, rfl, rfl, rfl, rfl, by simp only [htl], hs4.pre⟩
          have hnbm : nb ≤ m := by rw [htl] at hnb2; omega
          have h4c : S.counter.toNat = (s1.counter.toNat + q + nb) % 2 ^ 32 := by
            rw [hSc, hs4.counter, UInt32.toNat_add, h3c', UInt32.toNat_ofNat']; simp
          have hzl : (zeros (64 * m - 64 * nb)).length = 64 * m - 64 * nb := by simp [zeros]
          have := tail_state_inv m hm S (s1.counter.toNat + q) nb (src1.length - 64 * q) h4c
            (by rw [hSo, hs4.overflow, h3o]; omega) (by omega) (by rw [htl] at hnb1; exact hnb1) hSl
            (by omega) (by rw [hSb]; simp [zeros, hbl]; omega)
            (by
              rw [hSb, hSk, hSn, hs4.key, hs4.nonce]
              rw [show 64 * m - (64 * nb - (src1.length - 64 * q)) =
                (zeros (64 * m - 64 * nb)).length + (src1.drop (64 * q)).length by rw [hzl, htl]; rw [htl] at hnb1; omega]
              rw [drop_append_add, hbd, htl, h3c']) hSp (by intro; rw [htl] at hnb2; omega)
          refine ⟨S, ?_, this.1, by rw [this.2]; omega, by rw [hSk, hs4.key, hs3.key, h2k],
            by rw [hSn, hs4.nonce, hs3.nonce, h2n]⟩
          rw [hSe]
          simp only []
          congr 2
          exact hout bx hbt
        · -- a whole buffer of m blocks
          have hnt : (src1.drop (64 * q)).length > 0 := by rw [htl]; omega
          simp only [hA, hnt, if_false, if_true]
          obtain ⟨s4, bx, hb, hs4, hbl, hbt, hbd⟩ := tailPart_spec s3 hs3.pre (src1.drop (64 * q)) m
            (by rw [htl]; omega) (by omega)
          simp only [blocks]
          rw [hb]
          obtain ⟨S, hSe, hSk, hSn, hSc, hSo, hSb, hSl, hSp⟩ : ∃ S : Cipher,
              S = { s4 with buf := bx, len := 64 * m - (src1.drop (64 * q)).length } ∧
              S.key = s4.key ∧ S.nonce = s4.nonce ∧ S.counter = s4.counter ∧ S.overflow = s4.overflow ∧
              S.buf = bx ∧ S.len = 64 * m - (src1.length - 64 * q) ∧ (S.precompDone = true → PrecompOK S) :=
            ⟨_, rfl, rfl, rfl, rfl, rfl, rfl, by simp only [htl], hs4.pre⟩
          have h4c : S.counter.toNat = (s1.counter.toNat + q + m) % 2 ^ 32 := by
            rw [hSc, hs4.counter, UInt32.toNat_add, h3c', UInt32.toNat_ofNat']; simp
          have := tail_state_inv m hm S (s1.counter.toNat + q) m (src1.length - 64 * q) h4c
            (by rw [hSo, hs4.overflow, h3o]; omega) (by omega) (by omega) hSl (by omega)
            (by rw [hSb]; exact hbl)
            (by
              rw [hSb, hSk, hSn, hs4.key, hs4.nonce]
              rw [show 64 * m - (64 * m - (src1.length - 64 * q)) = (src1.drop (64 * q)).length by rw [htl]; omega]
              rw [hbd, htl, h3c']) hSp (by intro; omega)
          refine ⟨S, ?_, this.1, by rw [this.2]; omega, by rw [hSk, hs4.key, hs3.key, h2k],
            by rw [hSn, hs4.nonce, hs3.nonce, h2n]⟩
          rw [hSe]
          simp only []
          congr 2
          exact hout bx hbt

end XC.C03
