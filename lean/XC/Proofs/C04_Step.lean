/-
  C04 — block step (`updateBlock`) and `finalize` against arithmetic mod 2^130-5 on Nat;
  little-endian byte lemmas linking 16-byte blocks to `blockVal`.
-/
import XC.Proofs.C04_Limbs
namespace XC.C04

/-- accumulator invariant kept by `updateGeneric` between blocks -/
def Inv (h : H) : Prop := h.h2.toNat ≤ 4

/-- what the proofs need from the clamp: both `r` limbs below 2^60 -/
def Clamped (r0 r1 : UInt64) : Prop := r0.toNat < 2 ^ 60 ∧ r1.toNat < 2 ^ 60

def rVal (r0 r1 : UInt64) : Nat := r0.toNat + 2 ^ 64 * r1.toNat

theorem Inv.val_lt {h : H} (hi : Inv h) : h.val < 2 * p := by
  have := h.h0.toNat_lt; have := h.h1.toNat_lt
  simp only [Inv, H.val, p] at *
  omega

theorem updateBlock_limbs (h : H) (r0 r1 m0 m1 hb : UInt64) (hi : Inv h) (hc : Clamped r0 r1)
    (hhb : hb.toNat ≤ 1) :
    let T := (h.val + (m0.toNat + 2 ^ 64 * m1.toNat + 2 ^ 128 * hb.toNat)) * rVal r0 r1
    ∃ g, updateBlock h r0 r1 m0 m1 hb = some g ∧ g.val = T % 2 ^ 130 + 5 * (T / 2 ^ 130) ∧ Inv g := by
  intro T
  unfold updateBlock
  have b0 := h.h0.toNat_lt; have b1 := h.h1.toNat_lt
  have c0 := m0.toNat_lt; have c1 := m1.toNat_lt
  have e2 : (h.h2 + ((add64 h.h1 m1 (add64 h.h0 m0 0).2).2 + hb)).toNat
      = h.h2.toNat + (h.h1.toNat + m1.toNat + (h.h0.toNat + m0.toNat) / 2 ^ 64) / 2 ^ 64 + hb.toNat := by
    simp only [UInt64.toNat_add, add64_2, UInt64.toNat_zero, Nat.add_zero]
    simp only [Inv] at hi
    omega
  have hs := mulReduce_spec (add64 h.h0 m0 0).1 (add64 h.h1 m1 (add64 h.h0 m0 0).2).1
    (h.h2 + ((add64 h.h1 m1 (add64 h.h0 m0 0).2).2 + hb)) r0 r1 hc.1 hc.2
    (by rw [e2]; simp only [Inv] at hi; omega)
  have eT : ((add64 h.h0 m0 0).1.toNat + 2 ^ 64 * (add64 h.h1 m1 (add64 h.h0 m0 0).2).1.toNat
      + 2 ^ 128 * (h.h2 + ((add64 h.h1 m1 (add64 h.h0 m0 0).2).2 + hb)).toNat)
      = h.val + (m0.toNat + 2 ^ 64 * m1.toNat + 2 ^ 128 * hb.toNat) := by
    rw [e2]
    simp only [add64_1, add64_2, H.val, UInt64.toNat_zero, Nat.add_zero]
    omega
  simp only [eT] at hs
  exact hs

/-- 2^130 ≡ 5 (mod p): folding the high part back with factor 5 preserves the residue -/
theorem fold_mod_p (T : Nat) : (T % 2 ^ 130 + 5 * (T / 2 ^ 130)) % p = T % p := by
  simp only [p]; omega

/-- **one block step**: under the invariant and the clamp, `updateBlock` does not hit any overflow panic,
    computes `(h + block) · r` modulo `2^130 - 5`, and re-establishes the invariant -/
theorem updateBlock_correct (h : H) (r0 r1 m0 m1 hb : UInt64) (hi : Inv h) (hc : Clamped r0 r1)
    (hhb : hb.toNat ≤ 1) :
    ∃ g, updateBlock h r0 r1 m0 m1 hb = some g ∧ Inv g ∧
      g.val % p = ((h.val + (m0.toNat + 2 ^ 64 * m1.toNat + 2 ^ 128 * hb.toNat)) * rVal r0 r1) % p := by
  obtain ⟨g, hg, hv, hinv⟩ := updateBlock_limbs h r0 r1 m0 m1 hb hi hc hhb
  exact ⟨g, hg, hinv, by rw [hv, fold_mod_p]⟩


/-! ## finalize -/

theorem select64_one (x y : UInt64) : select64 1 x y = x := by
  simp [select64]

theorem select64_zero (x y : UInt64) : select64 0 x y = y := by
  simp [select64]

theorem sub64_1 (x y b : UInt64) : (sub64 x y b).1.toNat = (x.toNat + 2 ^ 65 - y.toNat - b.toNat) % 2 ^ 64 := by
  simp [sub64]

theorem natToLE_succ' (n v : Nat) : natToLE (n + 1) v = natToLE n v ++ [UInt8.ofNat (v / 256 ^ n % 256)] := by
  induction n generalizing v with
  | zero => simp [natToLE]
  | succ n ih =>
    rw [natToLE, ih (v / 256), natToLE]
    simp [Nat.div_div_eq_div_mul, Nat.pow_succ, Nat.mul_comm]

theorem natToLE_add (m n v : Nat) : natToLE (m + n) v = natToLE m v ++ natToLE n (v / 256 ^ m) := by
  induction m generalizing v with
  | zero => simp [natToLE]
  | succ m ih =>
    have : m + 1 + n = (m + n) + 1 := by omega
    rw [this, natToLE, natToLE, ih]
    simp [Nat.div_div_eq_div_mul, Nat.pow_succ, Nat.mul_comm]

theorem natToLE_mod (n v : Nat) : natToLE n (v % 256 ^ n) = natToLE n v := by
  induction n generalizing v with
  | zero => simp [natToLE]
  | succ n ih =>
    simp only [natToLE]
    have h1 : v % 256 ^ (n + 1) % 256 = v % 256 := by
      rw [Nat.pow_succ, Nat.mul_comm, Nat.mod_mul_right_mod]
    have h2 : v % 256 ^ (n + 1) / 256 = (v / 256) % 256 ^ n := by
      rw [Nat.pow_succ, Nat.mul_comm, Nat.mod_mul_right_div_self]
    rw [h1, h2, ih]

theorem u64le_pair (a b : UInt64) : u64le a ++ u64le b = natToLE 16 (a.toNat + 2 ^ 64 * b.toNat) := by
  have := a.toNat_lt
  rw [show (16 : Nat) = 8 + 8 from rfl, natToLE_add, u64le, u64le]
  congr 1
  · rw [← natToLE_mod 8 (a.toNat + _)]
    congr 1; omega
  · congr 1; omega

theorem sub64_2 (x y b : UInt64) : (sub64 x y b).2 = if x.toNat < y.toNat + b.toNat then 1 else 0 := rfl

theorem borrow_chain (h : H) :
    (sub64 h.h2 p2 (sub64 h.h1 p1 (sub64 h.h0 p0 0).2).2).2 = if h.val < p then 1 else 0 := by
  have b0 := h.h0.toNat_lt; have b1 := h.h1.toNat_lt; have b2 := h.h2.toNat_lt
  have e0 : p0.toNat = 2 ^ 64 - 5 := by decide
  have e1 : p1.toNat = 2 ^ 64 - 1 := by decide
  have e2 : p2.toNat = 3 := by decide
  simp only [sub64_2, e0, e1, e2, UInt64.toNat_zero]
  have hV : h.val = h.h0.toNat + 2 ^ 64 * h.h1.toNat + 2 ^ 128 * h.h2.toNat := rfl
  have hp : p = 2 ^ 130 - 5 := rfl
  by_cases c0 : h.h0.toNat < 2 ^ 64 - 5 + 0
  · simp only [c0, if_true, UInt64.toNat_one]
    by_cases c1 : h.h1.toNat < 2 ^ 64 - 1 + 1
    · simp only [c1, if_true, UInt64.toNat_one]
      by_cases c2 : h.h2.toNat < 3 + 1
      · rw [if_pos c2, if_pos (by omega)]
      · rw [if_neg c2, if_neg (by omega)]
    · omega
  · simp only [c0, if_false, UInt64.toNat_zero]
    by_cases c1 : h.h1.toNat < 2 ^ 64 - 1 + 0
    · simp only [c1, if_true, UInt64.toNat_one]
      by_cases c2 : h.h2.toNat < 3 + 1
      · rw [if_pos c2, if_pos (by omega)]
      · rw [if_neg c2, if_neg (by omega)]
    · simp only [c1, if_false, UInt64.toNat_zero]
      by_cases c2 : h.h2.toNat < 3 + 0
      · rw [if_pos c2, if_pos (by omega)]
      · rw [if_neg c2, if_neg (by omega)]

theorem finalize_spec (h : H) (s0 s1 : UInt64) (hv : h.val < 2 * p) :
    finalize h s0 s1 = natToLE 16 ((h.val % p + (s0.toNat + 2 ^ 64 * s1.toNat)) % 2 ^ 128) := by
  have b0 := h.h0.toNat_lt; have b1 := h.h1.toNat_lt; have b2 := h.h2.toNat_lt
  have c0 := s0.toNat_lt; have c1 := s1.toNat_lt
  unfold finalize
  simp only []
  rw [u64le_pair, borrow_chain, ← natToLE_mod 16 (_ % 2 ^ 128), ← natToLE_mod 16 (UInt64.toNat _ + _)]
  congr 1
  have e0 : p0.toNat = 2 ^ 64 - 5 := by decide
  have e1 : p1.toNat = 2 ^ 64 - 1 := by decide
  by_cases hlt : h.val < p
  · rw [if_pos hlt, select64_one, select64_one, Nat.mod_eq_of_lt hlt]
    simp only [add64_1, add64_2, UInt64.toNat_zero, Nat.add_zero, H.val]
    omega
  · have hm : h.val % p = h.val - p := by
      rw [Nat.mod_eq_sub_mod (by omega), Nat.mod_eq_of_lt (by omega)]
    rw [if_neg hlt, select64_zero, select64_zero, hm]
    simp only [add64_1, add64_2, sub64_1, sub64_2, e0, e1, UInt64.toNat_zero, Nat.add_zero, H.val, p] at *
    by_cases d0 : h.h0.toNat < 2 ^ 64 - 5
    · rw [if_pos d0]; simp only [UInt64.toNat_one]; omega
    · rw [if_neg d0]; simp only [UInt64.toNat_zero]; omega


/-! ## bytes -/

theorem natOfLE_append (a b : Bytes) : natOfLE (a ++ b) = natOfLE a + 256 ^ a.length * natOfLE b := by
  induction a with
  | nil => simp [natOfLE]
  | cons x a ih =>
    simp only [List.cons_append, natOfLE, ih, List.length_cons, Nat.pow_succ]
    rw [Nat.mul_add, ← Nat.mul_assoc, Nat.mul_comm 256 (256 ^ a.length)]
    omega

theorem natOfLE_lt (a : Bytes) : natOfLE a < 256 ^ a.length := by
  induction a with
  | nil => simp [natOfLE]
  | cons x a ih =>
    simp only [natOfLE, List.length_cons, Nat.pow_succ]
    have := x.toNat_lt
    omega

theorem natOfLE_zeros (n : Nat) : natOfLE (zeros n) = 0 := by
  induction n with
  | zero => rfl
  | succ n ih => simp only [zeros, List.replicate_succ, natOfLE] at *; rw [ih]; rfl

theorem le64_toNat (bs : Bytes) : (le64 bs).toNat = natOfLE (bs.take 8) := by
  simp only [le64, UInt64.toNat_ofNat']
  apply Nat.mod_eq_of_lt
  have h1 := natOfLE_lt (bs.take 8)
  have h2 : (bs.take 8).length ≤ 8 := by simp; omega
  calc natOfLE (bs.take 8) < 256 ^ (bs.take 8).length := h1
    _ ≤ 256 ^ 8 := Nat.pow_le_pow_right (by decide) h2
    _ = 2 ^ 64 := by decide

theorem block_words (b : Bytes) (hb : b.length = 16) :
    (le64 b).toNat + 2 ^ 64 * (le64 (b.drop 8)).toNat = natOfLE b := by
  rw [le64_toNat, le64_toNat]
  have h : b = b.take 8 ++ (b.drop 8).take 8 := by
    rw [List.take_of_length_le (l := b.drop 8) (by simp; omega), List.take_append_drop]
  conv => rhs; rw [h]
  rw [natOfLE_append]
  have : (b.take 8).length = 8 := by simp; omega
  rw [this]

theorem block_full (msg : Bytes) (h : 16 ≤ msg.length) :
    (le64 msg).toNat + 2 ^ 64 * (le64 (msg.drop 8)).toNat + 2 ^ 128 * (1 : UInt64).toNat
      = blockVal (msg.take 16) := by
  have hl : (msg.take 16).length = 16 := by simp; omega
  have e1 : le64 msg = le64 (msg.take 16) := by simp [le64, List.take_take]
  have e2 : le64 (msg.drop 8) = le64 ((msg.take 16).drop 8) := by
    simp only [le64]
    rw [List.drop_take, List.take_take]; simp
  rw [e1, e2, block_words _ hl, blockVal, hl]
  simp

theorem padBlock_length (msg : Bytes) (h : msg.length < 16) : (padBlock msg).length = 16 := by
  simp [padBlock, zeros]; omega

theorem block_partial (msg : Bytes) (h : msg.length < 16) :
    (le64 (padBlock msg)).toNat + 2 ^ 64 * (le64 ((padBlock msg).drop 8)).toNat + 2 ^ 128 * (0 : UInt64).toNat
      = blockVal msg := by
  rw [block_words _ (padBlock_length msg h), padBlock, natOfLE_append, natOfLE_append, natOfLE_zeros, blockVal]
  simp [natOfLE, Nat.pow_mul]


end XC.C04
