/-
  C42 — helper lemmas: tokenizer (trimSpace / nextWord), split/join, SplitHostPort on canonical forms.
-/
import XC.Model.C42
namespace XC.C42
open XC

def NoBlank (w : Bytes) : Prop := ∀ c ∈ w, isSpTab c = false
def AllBlank (w : Bytes) : Prop := ∀ c ∈ w, isSpTab c = true

theorem dropWhile_blank_append (bl r : Bytes) (hb : AllBlank bl) :
    (bl ++ r).dropWhile isSpTab = r.dropWhile isSpTab := by
  induction bl with
  | nil => rfl
  | cons c cs ih =>
    have hc : isSpTab c = true := hb c (by simp)
    simp only [List.cons_append, List.dropWhile_cons, hc, if_true]
    exact ih (fun x hx => hb x (List.mem_cons_of_mem _ hx))

theorem dropWhile_head_nonblank (x : UInt8) (r : Bytes) (hx : isSpTab x = false) :
    (x :: r).dropWhile isSpTab = x :: r := by
  simp [List.dropWhile_cons, hx]

/-- a byte string that is empty or starts and ends with a non-blank -/
def Trimmed (r : Bytes) : Prop :=
  (∀ x t, r = x :: t → isSpTab x = false) ∧ (∀ t y, r = t ++ [y] → isSpTab y = false)

theorem trimmed_nil : Trimmed [] := ⟨by simp, by simp⟩

theorem trimmed_of_noBlank (w : Bytes) (h : NoBlank w) : Trimmed w :=
  ⟨fun x t e => h x (by simp [e]), fun t y e => h y (by simp [e])⟩

theorem dropEndWhile_blank (r bl : Bytes) (hb : AllBlank bl) (hr : Trimmed r) :
    dropEndWhile isSpTab (r ++ bl) = r := by
  unfold dropEndWhile
  rw [List.reverse_append, dropWhile_blank_append _ _ (fun c hc => hb c (List.mem_reverse.1 hc))]
  cases hrev : r.reverse with
  | nil =>
    have : r = [] := by simpa using hrev
    simp [this]
  | cons y t =>
    have hr' : r = t.reverse ++ [y] := by
      have := congrArg List.reverse hrev
      simpa using this
    have hy := hr.2 _ _ hr'
    rw [dropWhile_head_nonblank y t hy, ← hrev, List.reverse_reverse]

/-- **trimSpace spec**: blanks (space/tab) around a trimmed core are removed, nothing else -/
theorem trimSpace_spec (a r b : Bytes) (ha : AllBlank a) (hb : AllBlank b) (hr : Trimmed r) :
    trimSpace (a ++ r ++ b) = r := by
  unfold trimSpace
  rw [List.append_assoc, dropWhile_blank_append _ _ ha]
  cases r with
  | nil =>
    have : (([] : Bytes) ++ b).dropWhile isSpTab = [] := by
      have := dropWhile_blank_append b [] hb
      simpa using this
    rw [this]; rfl
  | cons x t =>
    have hx := hr.1 x t rfl
    rw [List.cons_append, dropWhile_head_nonblank _ _ hx, ← List.cons_append]
    exact dropEndWhile_blank _ _ hb hr

theorem span_noBlank (w rest : Bytes) (hw : NoBlank w) (hrest : ∀ x t, rest = x :: t → isSpTab x = true) :
    (w ++ rest).takeWhile (fun b => !isSpTab b) = w ∧ (w ++ rest).dropWhile (fun b => !isSpTab b) = rest := by
  induction w with
  | nil =>
    cases rest with
    | nil => exact ⟨rfl, rfl⟩
    | cons x t =>
      have := hrest x t rfl
      simp [List.takeWhile_cons, List.dropWhile_cons, this]
  | cons c cs ih =>
    have hc : isSpTab c = false := hw c (by simp)
    have := ih (fun x hx => hw x (List.mem_cons_of_mem _ hx))
    simp only [List.cons_append, List.takeWhile_cons, List.dropWhile_cons, hc, Bool.not_false, if_true]
    exact ⟨by rw [this.1], this.2⟩

/-- **nextWord spec**: a blank-free word, then a non-empty run of blanks, then a trimmed rest -/
theorem nextWord_spec (w bl r : Bytes) (hw : NoBlank w) (hb : AllBlank bl) (hne : bl ≠ []) (hr : Trimmed r) :
    nextWord (w ++ bl ++ r) = (w, r) := by
  unfold nextWord
  have hs := span_noBlank w (bl ++ r) hw (by
    intro x t e
    cases bl with
    | nil => exact absurd rfl hne
    | cons c cs => simp at e; rw [← e.1]; exact hb c (by simp))
  rw [List.append_assoc, hs.1, hs.2]
  cases bl with
  | nil => exact absurd rfl hne
  | cons c cs =>
    simp only [List.cons_append]
    have := trimSpace_spec (c :: cs) r [] hb (by intro x hx; cases hx) hr
    simp only [List.append_nil, List.cons_append] at this
    rw [this]

theorem nextWord_last (w : Bytes) (hw : NoBlank w) : nextWord w = (w, []) := by
  unfold nextWord
  have := span_noBlank w [] hw (by simp)
  simp only [List.append_nil] at this
  rw [this.1, this.2]

/-! ## split / join -/

theorem splitBy_nosep (sep : UInt8) (a : Bytes) (h : ∀ c ∈ a, c ≠ sep) : splitBy sep a = [a] := by
  induction a with
  | nil => rfl
  | cons c cs ih =>
    have hc : (c == sep) = false := by simpa using h c (by simp)
    simp [splitBy, hc, ih (fun x hx => h x (List.mem_cons_of_mem _ hx))]

theorem splitBy_append_sep (sep : UInt8) (a rest : Bytes) (h : ∀ c ∈ a, c ≠ sep) :
    splitBy sep (a ++ sep :: rest) = a :: splitBy sep rest := by
  induction a with
  | nil => simp [splitBy]
  | cons c cs ih =>
    have hc : (c == sep) = false := by simpa using h c (by simp)
    simp [splitBy, hc, ih (fun x hx => h x (List.mem_cons_of_mem _ hx))]

/-- `strings.Split(strings.Join(parts, sep), sep) = parts` when no part contains the separator -/
theorem splitBy_joinBy (sep : UInt8) (parts : List Bytes) (hne : parts ≠ [])
    (h : ∀ p ∈ parts, ∀ c ∈ p, c ≠ sep) : splitBy sep (joinBy sep parts) = parts := by
  induction parts with
  | nil => exact absurd rfl hne
  | cons a rest ih =>
    cases rest with
    | nil => simp [joinBy, splitBy_nosep sep a (h a (by simp))]
    | cons b rest' =>
      simp only [joinBy]
      rw [splitBy_append_sep sep a _ (h a (by simp)),
        ih (by simp) (fun p hp => h p (List.mem_cons_of_mem _ hp))]

theorem mem_joinBy (sep : UInt8) (parts : List Bytes) (c : UInt8) (hc : c ∈ joinBy sep parts) :
    c = sep ∨ ∃ p ∈ parts, c ∈ p := by
  induction parts with
  | nil => simp [joinBy] at hc
  | cons a rest ih =>
    cases rest with
    | nil => simp only [joinBy] at hc; exact Or.inr ⟨a, by simp, hc⟩
    | cons b rest' =>
      simp only [joinBy, List.mem_append, List.mem_cons] at hc
      rcases hc with hc | hc | hc
      · exact Or.inr ⟨a, by simp, hc⟩
      · exact Or.inl hc
      · rcases ih hc with h | ⟨p, hp, hcp⟩
        · exact Or.inl h
        · exact Or.inr ⟨p, List.mem_cons_of_mem _ hp, hcp⟩

theorem joinBy_head (sep : UInt8) (a : Bytes) (rest : List Bytes) (x : UInt8) (t : Bytes) (ha : a = x :: t) :
    (joinBy sep (a :: rest)).head? = some x := by
  subst ha
  cases rest <;> simp [joinBy]

/-! ## indexOf / lastIndexOf / SplitHostPort on canonical forms -/

theorem lastIndexOf_none (c : UInt8) (b : Bytes) (h : ∀ x ∈ b, x ≠ c) : lastIndexOf c b = none := by
  induction b with
  | nil => rfl
  | cons x xs ih =>
    have hx : (x == c) = false := by simpa using h x (by simp)
    simp [lastIndexOf, ih (fun y hy => h y (List.mem_cons_of_mem _ hy)), hx]

theorem lastIndexOf_append (c : UInt8) (a b : Bytes) (h : ∀ x ∈ b, x ≠ c) :
    lastIndexOf c (a ++ c :: b) = some a.length := by
  induction a with
  | nil => simp [lastIndexOf, lastIndexOf_none c b h]
  | cons x xs ih => simp [lastIndexOf, ih]

theorem indexOf_append (c : UInt8) (a b : Bytes) (h : ∀ x ∈ a, x ≠ c) :
    indexOf c (a ++ c :: b) = some a.length := by
  induction a with
  | nil => simp [indexOf]
  | cons x xs ih =>
    have hx : (x == c) = false := by simpa using h x (by simp)
    simp [indexOf, hx, ih (fun y hy => h y (List.mem_cons_of_mem _ hy))]

/-- bytes allowed in the host / port of a canonical address -/
def HostChars (w : Bytes) : Prop :=
  ∀ c ∈ w, c ≠ cCOLON ∧ c ≠ cLB ∧ c ≠ cRB

theorem contains_false_of (w : Bytes) (c : UInt8) (h : ∀ x ∈ w, x ≠ c) : w.contains c = false := by
  simp only [List.contains_eq_mem, decide_eq_false_iff_not]
  intro hm; exact h c hm rfl

/-- `SplitHostPort("h:p") = (h, p)` -/
theorem splitHostPort_plain (h p : Bytes) (hh : HostChars h) (hp : HostChars p) :
    splitHostPort (h ++ cCOLON :: p) = some (h, p) := by
  have hl := lastIndexOf_append cCOLON h p (fun x hx => (hp x hx).1)
  have hhead : ((h ++ cCOLON :: p).head? == some cLB) = false := by
    cases h with
    | nil => simp; decide
    | cons x t => simpa using (hh x (by simp)).2.1
  have hall : ∀ x ∈ h ++ cCOLON :: p, x ≠ cLB ∧ x ≠ cRB := by
    intro x hx
    rcases List.mem_append.1 hx with hx | hx
    · exact (hh x hx).2
    · rcases List.mem_cons.1 hx with rfl | hx
      · decide
      · exact (hp x hx).2
  simp only [splitHostPort, hl, hhead, Bool.false_eq_true, if_false, List.take_left,
    contains_false_of h cCOLON (fun x hx => (hh x hx).1),
    contains_false_of _ cLB (fun x hx => (hall x hx).1), contains_false_of _ cRB (fun x hx => (hall x hx).2)]
  have : (h ++ cCOLON :: p).drop (h.length + 1) = p := by
    rw [← List.drop_drop, List.drop_left]; rfl
  rw [this]

/-- a string without `:` has no port -/
theorem splitHostPort_nocolon (x : Bytes) (h : ∀ c ∈ x, c ≠ cCOLON) : splitHostPort x = none := by
  simp [splitHostPort, lastIndexOf_none cCOLON x h]

/-- `SplitHostPort("[h]:p") = (h, p)` -/
theorem splitHostPort_bracket (h p : Bytes) (hh : HostChars h) (hp : HostChars p) :
    splitHostPort (cLB :: (h ++ cRB :: cCOLON :: p)) = some (h, p) := by
  have e1 : cLB :: (h ++ cRB :: cCOLON :: p) = (cLB :: (h ++ [cRB])) ++ cCOLON :: p := by simp
  have hl : lastIndexOf cCOLON (cLB :: (h ++ cRB :: cCOLON :: p)) = some (h.length + 2) := by
    rw [e1, lastIndexOf_append cCOLON _ p (fun x hx => (hp x hx).1)]; simp
  have e2 : cLB :: (h ++ cRB :: cCOLON :: p) = (cLB :: h) ++ cRB :: (cCOLON :: p) := by simp
  have hi : indexOf cRB (cLB :: (h ++ cRB :: cCOLON :: p)) = some (h.length + 1) := by
    rw [e2, indexOf_append cRB (cLB :: h) _ (by
      intro x hx
      rcases List.mem_cons.1 hx with rfl | hx
      · decide
      · exact (hh x hx).2.2)]; simp
  have hlen : (cLB :: (h ++ cRB :: cCOLON :: p)).length = h.length + 3 + p.length := by simp; omega
  have hc1 : ((cLB :: (h ++ cRB :: cCOLON :: p)).drop 1).contains cLB = false := by
    apply contains_false_of
    intro x hx
    simp only [List.drop_succ_cons, List.drop_zero, List.mem_append, List.mem_cons] at hx
    rcases hx with hx | rfl | rfl | hx
    · exact (hh x hx).2.1
    · decide
    · decide
    · exact (hp x hx).2.1
  have hd2 : (cLB :: (h ++ cRB :: cCOLON :: p)).drop (h.length + 1 + 1) = cCOLON :: p := by
    rw [e2, show h.length + 1 + 1 = (cLB :: h).length + 1 by simp, ← List.drop_drop, List.drop_left]; rfl
  have hc2 : ((cLB :: (h ++ cRB :: cCOLON :: p)).drop (h.length + 1 + 1)).contains cRB = false := by
    rw [hd2]
    apply contains_false_of
    intro x hx
    rcases List.mem_cons.1 hx with rfl | hx
    · decide
    · exact (hp x hx).2.2
  have ht : ((cLB :: (h ++ cRB :: cCOLON :: p)).take (h.length + 1)).drop 1 = h := by
    rw [e2, show h.length + 1 = (cLB :: h).length by simp, List.take_left]; rfl
  have hd3 : (cLB :: (h ++ cRB :: cCOLON :: p)).drop (h.length + 2 + 1) = p := by
    rw [e1, show h.length + 2 + 1 = (cLB :: (h ++ [cRB])).length + 1 by simp, ← List.drop_drop, List.drop_left]; rfl
  simp only [splitHostPort, hl, hi, List.head?_cons, beq_self_eq_true, if_true, hlen, hc1, hc2, ht, hd3,
    Bool.false_eq_true, if_false]
  have n1 : (h.length + 1 + 1 == h.length + 3 + p.length) = false := by
    simp only [beq_eq_false_iff_ne, ne_eq]; omega
  have n2 : (h.length + 1 + 1 == h.length + 2) = true := by simp
  simp [n1, n2]

end XC.C42
