/-
  C46 — armor.Decode ∘ armor.Encode = id (model level), under the header well-formedness predicate.
-/
import XC.Model.C46
import XC.Proofs.C46_LB
import XC.Proofs.C46_CS
import XC.Proofs.C46_B64
namespace XC.C46
open XC

/-! ### line reader on well-formed lines -/

theorem readLine_line (l rest : Bytes) (hl : noLF l) (hlen : l.length < 100) :
    readLine (l ++ LF :: rest) = some (dropLastCR l, false, rest) := by
  unfold readLine
  have hne : (l ++ LF :: rest).isEmpty = false := by cases l <;> simp
  simp only [hne, Bool.false_eq_true, ↓reduceIte, splitLF_append rest hl, bufSize, hlen]

theorem readLine_last (l : Bytes) (hl : noLF l) (hne : l ≠ []) (hlen : l.length < 100) :
    readLine l = some (l, false, []) := by
  unfold readLine
  have he : l.isEmpty = false := by cases l <;> simp_all
  simp only [he, Bool.false_eq_true, ↓reduceIte, splitLF_noLF hl, bufSize, hlen]

/-- a line is "plain-ended" when it neither starts nor ends with a White_Space rune -/
def PlainEnds (l : Bytes) : Prop := leadSpace l = 0 ∧ trailSpace l.reverse = 0

theorem trimSpace_id (l : Bytes) (h : PlainEnds l) : trimSpace l = l := by
  unfold trimSpace
  rw [trimLeftSp]
  simp only [h.1, ↓reduceDIte]
  rw [trimRevSp]
  simp only [h.2, ↓reduceDIte, List.reverse_reverse]

theorem trailSpace_not_cr (l : Bytes) (h : trailSpace l.reverse = 0) : dropLastCR l = l := by
  unfold dropLastCR
  split
  · rename_i heq
    rw [List.getLast?_eq_head?_reverse] at heq
    cases hr : l.reverse with
    | nil => rw [hr] at heq; simp at heq
    | cons c t =>
      rw [hr] at heq h
      simp only [List.head?_cons, Option.some.injEq] at heq
      subst heq
      simp [trailSpace, isAsciiSpace] at h
  · rfl

/-- a byte below 0x80 that is not ASCII white space starts / ends no White_Space rune -/
theorem leadSpace_ascii (a : UInt8) (t : Bytes) (h1 : a < 0x80) (h2 : isAsciiSpace a = false) :
    leadSpace (a :: t) = 0 := by
  have e1 : (a == 0xC2) = false := by
    apply beq_false_of_ne; intro h; subst h; exact absurd h1 (by decide)
  have e2 : (a == 0xE1) = false := by
    apply beq_false_of_ne; intro h; subst h; exact absurd h1 (by decide)
  have e3 : (a == 0xE2) = false := by
    apply beq_false_of_ne; intro h; subst h; exact absurd h1 (by decide)
  have e4 : (a == 0xE3) = false := by
    apply beq_false_of_ne; intro h; subst h; exact absurd h1 (by decide)
  unfold leadSpace
  simp only [h2, Bool.false_eq_true, ↓reduceIte, e1, e2, e3, e4, Bool.false_and]
  split
  · rfl
  · split <;> rfl

theorem trailSpace_ascii (c : UInt8) (t : Bytes) (h1 : c < 0x80) (h2 : isAsciiSpace c = false) :
    trailSpace (c :: t) = 0 := by
  have e1 : (c == 0x85) = false := by
    apply beq_false_of_ne; intro h; subst h; exact absurd h1 (by decide)
  have e2 : (c == 0xA0) = false := by
    apply beq_false_of_ne; intro h; subst h; exact absurd h1 (by decide)
  have e3 : (c == 0x80) = false := by
    apply beq_false_of_ne; intro h; subst h; exact absurd h1 (by decide)
  have e4 : (c == 0x9F) = false := by
    apply beq_false_of_ne; intro h; subst h; exact absurd h1 (by decide)
  have e5 : isE280Space c = false := by
    unfold isE280Space
    have : ¬ (0x80 ≤ c) := by
      intro h; exact absurd (UInt8.lt_of_lt_of_le h1 h) (by simp)
    have e6 : (c == 0xA8) = false := by
      apply beq_false_of_ne; intro h; subst h; exact absurd h1 (by decide)
    have e7 : (c == 0xA9) = false := by
      apply beq_false_of_ne; intro h; subst h; exact absurd h1 (by decide)
    have e8 : (c == 0xAF) = false := by
      apply beq_false_of_ne; intro h; subst h; exact absurd h1 (by decide)
    simp [this, e6, e7, e8]
  unfold trailSpace
  simp only [h2, Bool.false_eq_true, ↓reduceIte, e1, e2, e3, e4, e5, Bool.or_self, Bool.and_false]
  split
  · rfl
  · split <;> rfl

/-! ### block search and headers -/

def WFType (ty : Bytes) : Prop := ty ≠ [] ∧ noLF ty ∧ ty.length ≤ 83

/-- the header well-formedness predicate forced by the proof, per entry, stated on the encoded line
    `key ": " value`: no LF, at most 99 bytes (it must fit bufio's 100-byte window with its LF), no
    White_Space rune at either end (bytes.TrimSpace is applied to the line), and the first `": "` is
    the separator (so the key contains none). -/
def WFEntry (kv : Bytes × Bytes) : Prop :=
  noLF (hdrLine kv) ∧ (hdrLine kv).length ≤ 99 ∧ PlainEnds (hdrLine kv) ∧
  indexOf (str ": ") (hdrLine kv) = some kv.1.length

def WFH (hdr : Hdr) : Prop := (∀ kv ∈ hdr, WFEntry kv) ∧ (hdr.map (·.1)).Nodup

theorem noLF_append {a b : Bytes} (ha : noLF a) (hb : noLF b) : noLF (a ++ b) := by
  intro x hx
  rcases List.mem_append.1 hx with h | h
  · exact ha x h
  · exact hb x h

theorem armorStart_noLF : noLF armorStart := by unfold noLF; decide
theorem armorEOL_noLF : noLF armorEOL := by unfold noLF; decide
theorem armorEnd_noLF : noLF armorEnd := by unfold noLF; decide

theorem beginLine_plain (ty : Bytes) : PlainEnds (armorStart ++ ty ++ armorEOL) := by
  constructor
  · have : armorStart ++ ty ++ armorEOL = 45 :: (str "----BEGIN " ++ ty ++ armorEOL) := by
      simp [armorStart, str]
    rw [this]
    exact leadSpace_ascii 45 _ (by decide) (by decide)
  · have : (armorStart ++ ty ++ armorEOL).reverse = 45 :: (str "----" ++ ty.reverse ++ armorStart.reverse) := by
      simp [armorEOL, str]
    rw [this]
    exact trailSpace_ascii 45 _ (by decide) (by decide)

theorem begin_step (ty rest : Bytes) (hty : WFType ty) :
    findBlock (.skip false) (armorStart ++ ty ++ armorEOL ++ LF :: rest) =
      findBlock (.hdrs ty [] false []) rest := by
  have hpl := beginLine_plain ty
  have hnl : noLF (armorStart ++ ty ++ armorEOL) :=
    noLF_append (noLF_append armorStart_noLF hty.2.1) armorEOL_noLF
  have hlen : (armorStart ++ ty ++ armorEOL).length < 100 := by
    have := hty.2.2
    simp [armorStart, armorEOL, str]; omega
  have hrl := readLine_line _ rest hnl hlen
  rw [trailSpace_not_cr _ hpl.2] at hrl
  rw [findBlock]
  split
  · rename_i heq; rw [hrl] at heq; simp at heq
  · rename_i line isPrefix rest' heq
    rw [hrl] at heq
    simp only [Option.some.injEq, Prod.mk.injEq] at heq
    obtain ⟨rfl, rfl, rfl⟩ := heq
    simp only [Bool.or_self, Bool.false_eq_true, ↓reduceIte, trimSpace_id _ hpl]
    have hpos : 0 < ty.length := List.length_pos_iff.mpr hty.1
    have h1 : (decide ((armorStart ++ ty ++ armorEOL).length > armorStart.length + armorEOL.length) &&
        hasPrefix (armorStart ++ ty ++ armorEOL) armorStart) = true := by
      have : hasPrefix (armorStart ++ ty ++ armorEOL) armorStart = true := by
        rw [List.append_assoc]; exact hasPrefix_append _ _
      rw [this]
      have e1 : armorStart.length = 11 := by decide
      have e2 : armorEOL.length = 5 := by decide
      simp only [List.length_append, e1, e2, Bool.and_true, decide_eq_true_eq]
      omega
    simp only [h1, ↓reduceIte]
    have h2 : ((armorStart ++ ty ++ armorEOL).drop armorStart.length).take
        ((armorStart ++ ty ++ armorEOL).length - armorStart.length - armorEOL.length) = ty := by
      rw [List.append_assoc, List.drop_left]
      simp
    rw [h2]

theorem hdr_step (ty : Bytes) (m : Hdr) (last : Bytes) (kv : Bytes × Bytes) (rest : Bytes) (hkv : WFEntry kv) :
    findBlock (.hdrs ty m false last) (hdrLine kv ++ LF :: rest) =
      findBlock (.hdrs ty (hdrSet m kv.1 kv.2) false kv.1) rest := by
  obtain ⟨hnl, hlen, hpl, hidx⟩ := hkv
  have hrl := readLine_line _ rest hnl (by omega)
  rw [trailSpace_not_cr _ hpl.2] at hrl
  rw [findBlock]
  split
  · rename_i heq; rw [hrl] at heq; simp at heq
  · rename_i line isPrefix rest' heq
    rw [hrl] at heq
    simp only [Option.some.injEq, Prod.mk.injEq] at heq
    obtain ⟨rfl, rfl, rfl⟩ := heq
    have hne : (hdrLine kv).isEmpty = false := by
      simp [hdrLine, str]
    simp only [Bool.false_eq_true, ↓reduceIte, trimSpace_id _ hpl, hne, hidx]
    have h1 : (hdrLine kv).take kv.1.length = kv.1 := by
      simp [hdrLine, List.append_assoc]
    have h2 : (hdrLine kv).drop (kv.1.length + 2) = kv.2 := by
      have : hdrLine kv = kv.1 ++ (str ": " ++ kv.2) := by simp [hdrLine]
      rw [this, ← List.drop_drop, List.drop_left]
      simp [str]
    rw [h1, h2]

theorem hdr_end (ty : Bytes) (m : Hdr) (last : Bytes) (rest : Bytes) :
    findBlock (.hdrs ty m false last) (LF :: rest) = some (ty, m, rest) := by
  have hrl : readLine (LF :: rest) = some ([], false, rest) := by
    have := readLine_line [] rest (by intro x hx; simp at hx) (by simp)
    simpa [dropLastCR] using this
  rw [findBlock]
  split
  · rename_i heq; rw [hrl] at heq; simp at heq
  · rename_i line isPrefix rest' heq
    rw [hrl] at heq
    simp only [Option.some.injEq, Prod.mk.injEq] at heq
    obtain ⟨rfl, rfl, rfl⟩ := heq
    have : trimSpace [] = [] := trimSpace_id [] ⟨rfl, rfl⟩
    simp [this]

theorem hdrSet_new (m : Hdr) (k v : Bytes) (h : k ∉ m.map (·.1)) : hdrSet m k v = m ++ [(k, v)] := by
  unfold hdrSet
  have : m.any (fun e => e.1 == k) = false := by
    rw [List.any_eq_false]
    intro e he hk
    apply h
    have : e.1 = k := by simpa using hk
    rw [← this]; exact List.mem_map_of_mem he
  simp [this]

/-- all header lines, then the blank line: the decoded map is the header list itself -/
theorem hdrs_all (ty : Bytes) (hdr : Hdr) (m : Hdr) (last rest : Bytes)
    (hwf : ∀ kv ∈ hdr, WFEntry kv) (hnd : ((m ++ hdr).map (·.1)).Nodup) :
    findBlock (.hdrs ty m false last) ((hdr.map (fun kv => hdrLine kv ++ [LF])).flatten ++ LF :: rest) =
      some (ty, m ++ hdr, rest) := by
  induction hdr generalizing m last with
  | nil => simpa using hdr_end ty m last rest
  | cons kv t ih =>
    have e : ((kv :: t).map (fun kv => hdrLine kv ++ [LF])).flatten ++ LF :: rest =
        hdrLine kv ++ LF :: ((t.map (fun kv => hdrLine kv ++ [LF])).flatten ++ LF :: rest) := by
      simp [List.append_assoc]
    rw [e, hdr_step ty m last kv _ (hwf kv (by simp))]
    have hk : kv.1 ∉ m.map (·.1) := by
      simp only [List.map_append, List.map_cons] at hnd
      have := (List.nodup_append.1 hnd).2.2
      intro hmem
      exact this _ hmem _ (by simp) rfl
    rw [hdrSet_new m kv.1 kv.2 hk]
    have := ih (m ++ [(kv.1, kv.2)]) kv.1 (fun x hx => hwf x (by simp [hx])) (by simpa [List.append_assoc] using hnd)
    rw [this]
    simp [List.append_assoc]

/-! ### the body -/

theorem dropLastCR_noCR (l : Bytes) (h : ∀ c ∈ l, c ≠ CR) : dropLastCR l = l := by
  unfold dropLastCR
  split
  · rename_i heq
    have := h 13 (List.mem_of_getLast? heq)
    exact absurd rfl this
  · rfl

theorem filter_plain (l : Bytes) (h : ∀ c ∈ l, c ≠ CR ∧ c ≠ LF) :
    l.filter (fun b => b != CR && b != LF) = l := by
  rw [List.filter_eq_self]
  intro c hc
  have := h c hc
  simp [this.1, this.2]

/-- a line of base64 text as the encoder lays it out -/
structure GoodLine (l : Bytes) : Prop where
  chars : ∀ c ∈ l, IsB64 c
  len : l.length ≤ 64
  head : ∃ n, n < 64 ∧ l.head? = some (b64char n)

theorem GoodLine.noLF {l : Bytes} (h : GoodLine l) : noLF l := fun c hc => (h.chars c hc).plain.1
theorem GoodLine.noCR {l : Bytes} (h : GoodLine l) : ∀ c ∈ l, c ≠ CR := fun c hc => (h.chars c hc).plain.2.1

theorem goodLine_of_enc (c : Bytes) (hne : c ≠ []) (hlen : c.length ≤ 48) : GoodLine (b64enc c) :=
  ⟨b64enc_isB64 c, by rw [b64enc_length]; omega, b64enc_head c hne⟩

theorem bodyLines_good (l T : Bytes) (h : GoodLine l) :
    bodyLines (l ++ LF :: T) = (l :: (bodyLines T).1, (bodyLines T).2) := by
  have hrl := readLine_line l T h.noLF (by have := h.len; omega)
  rw [dropLastCR_noCR l h.noCR] at hrl
  rw [bodyLines]
  split
  · rename_i heq; rw [hrl] at heq; simp at heq
  · rename_i line isPrefix rest heq
    rw [hrl] at heq
    simp only [Option.some.injEq, Prod.mk.injEq] at heq
    obtain ⟨rfl, rfl, rfl⟩ := heq
    obtain ⟨n, hn, hh⟩ := h.head
    have hp := b64char_plain ⟨n, hn⟩
    have h1 : hasPrefix l armorEnd = false := by
      cases l with
      | nil => simp at hh
      | cons a t =>
        simp only [List.head?_cons, Option.some.injEq] at hh
        subst hh
        have : (b64char n == 45) = false := by simpa using hp.2.2.1
        simp [armorEnd, str, hasPrefix, this]
    have h2 : (l.length == 5 && l.head? == some PAD) = false := by
      rw [hh]
      have : ((some (b64char n) : Option UInt8) == some PAD) = false := by simpa using hp.2.2.2
      simp [this]
    have h3 : ¬ l.length > 96 := by have := h.len; omega
    simp only [Bool.false_eq_true, ↓reduceIte, h1, h2, h3]

theorem bodyLines_blank (T : Bytes) :
    bodyLines (LF :: T) = ([] :: (bodyLines T).1, (bodyLines T).2) := by
  have hrl : readLine (LF :: T) = some ([], false, T) := by
    have := readLine_line [] T (by intro x hx; simp at hx) (by simp)
    simpa [dropLastCR] using this
  rw [bodyLines]
  split
  · rename_i heq; rw [hrl] at heq; simp at heq
  · rename_i line isPrefix rest heq
    rw [hrl] at heq
    simp only [Option.some.injEq, Prod.mk.injEq] at heq
    obtain ⟨rfl, rfl, rfl⟩ := heq
    simp [hasPrefix, armorEnd, str]

theorem crcBytes_value (crc : Nat) :
    ((crcBytes crc).getD 0 0).toNat * 65536 + ((crcBytes crc).getD 1 0).toNat * 256 + ((crcBytes crc).getD 2 0).toNat
      = crc % 16777216 := by
  simp [crcBytes, UInt8.toNat_ofNat']
  omega

theorem endLine_noLF (ty : Bytes) (hty : WFType ty) : noLF (armorEnd ++ ty ++ armorEOL) :=
  noLF_append (noLF_append armorEnd_noLF hty.2.1) armorEOL_noLF

/-- the checksum line followed by the END line -/
theorem bodyLines_crc (crc : Nat) (ty : Bytes) (hty : WFType ty) :
    bodyLines (PAD :: b64enc (crcBytes crc) ++ LF :: (armorEnd ++ ty ++ armorEOL)) =
      ([], .eofCrc (crc % 16777216)) := by
  have hch := b64enc_isB64 (crcBytes crc)
  have hlen4 : (b64enc (crcBytes crc)).length = 4 := by rw [b64enc_length]; simp [crcBytes]
  have hnl : noLF (PAD :: b64enc (crcBytes crc)) := by
    intro c hc
    rcases List.mem_cons.1 hc with rfl | hc
    · decide
    · exact (hch c hc).plain.1
  have hncr : ∀ c ∈ PAD :: b64enc (crcBytes crc), c ≠ CR := by
    intro c hc
    rcases List.mem_cons.1 hc with rfl | hc
    · decide
    · exact (hch c hc).plain.2.1
  have hrl := readLine_line (PAD :: b64enc (crcBytes crc)) (armorEnd ++ ty ++ armorEOL) hnl (by simp [hlen4])
  rw [dropLastCR_noCR _ hncr] at hrl
  have hend : readLine (armorEnd ++ ty ++ armorEOL) = some (armorEnd ++ ty ++ armorEOL, false, []) := by
    apply readLine_last _ (endLine_noLF ty hty)
    · simp [armorEnd, str]
    · have := hty.2.2
      have e1 : armorEnd.length = 9 := by decide
      have e2 : armorEOL.length = 5 := by decide
      simp only [List.length_append, e1, e2]; omega
  rw [List.cons_append, bodyLines]
  split
  · rename_i heq; rw [← List.cons_append, hrl] at heq; simp at heq
  · rename_i line isPrefix rest heq
    rw [← List.cons_append, hrl] at heq
    simp only [Option.some.injEq, Prod.mk.injEq] at heq
    obtain ⟨rfl, rfl, rfl⟩ := heq
    have h1 : hasPrefix (PAD :: b64enc (crcBytes crc)) armorEnd = false := by
      simp [armorEnd, str, hasPrefix, PAD]
    have h2 : ((PAD :: b64enc (crcBytes crc)).length == 5 && (PAD :: b64enc (crcBytes crc)).head? == some PAD) = true := by
      simp [hlen4]
    have hf : ((PAD :: b64enc (crcBytes crc)).drop 1).filter (fun b => b != CR && b != LF) = b64enc (crcBytes crc) := by
      simp only [List.drop_succ_cons, List.drop_zero]
      exact filter_plain _ (fun c hc => ⟨(hch c hc).plain.2.1, (hch c hc).plain.1⟩)
    have hne : (b64enc (crcBytes crc)).isEmpty = false := by
      cases hh : b64enc (crcBytes crc) with
      | nil => rw [hh] at hlen4; simp at hlen4
      | cons => rfl
    have hl3 : (crcBytes crc).length = 3 := by simp [crcBytes]
    simp only [Bool.false_eq_true, ↓reduceIte, h1, h2, hf, hne, b64dec_enc, Bool.not_true, hl3,
      bne_self_eq_false, hend, crcBytes_value]
    have : hasPrefix (armorEnd ++ (ty ++ armorEOL)) armorEnd = true := hasPrefix_append _ _
    simp [this]

/-- all body lines of an encoded block -/
theorem bodyLines_all (cs : List Bytes) (hg : ∀ l ∈ cs, GoodLine l) (T : Bytes) :
    bodyLines (joinLF cs ++ LF :: T) = ((if cs.isEmpty then [[]] else cs) ++ (bodyLines T).1, (bodyLines T).2) := by
  match cs with
  | [] => simpa [joinLF] using bodyLines_blank T
  | [c] => simpa [joinLF] using bodyLines_good c T (hg c (by simp))
  | c :: d :: rest =>
    have ih := bodyLines_all (d :: rest) (fun l hl => hg l (by simp [hl])) T
    have e : joinLF (c :: d :: rest) ++ LF :: T = c ++ LF :: (joinLF (d :: rest) ++ LF :: T) := by
      simp [joinLF, List.append_assoc]
    rw [e, bodyLines_good c _ (hg c (by simp)), ih]
    simp

/-- the base64 stream decoder over the encoder's lines -/
theorem b64Stream_enc (cs : List Bytes) (fin : LineEnd) :
    b64Stream [] fin (cs.map b64enc) = (cs.flatten, some fin) := by
  induction cs with
  | nil => simp [b64Stream]
  | cons c t ih =>
    have hch := b64enc_isB64 c
    have hf : (b64enc c).filter (fun b => b != CR && b != LF) = b64enc c :=
      filter_plain _ (fun x hx => ⟨(hch x hx).plain.2.1, (hch x hx).plain.1⟩)
    simp only [List.map_cons, b64Stream, List.nil_append, hf]
    by_cases hc : c = []
    · subst hc
      simp [b64enc, ih]
    · have hlen := b64enc_length c
      have hpos : 0 < c.length := List.length_pos_iff.mpr hc
      have h4 : ¬ (b64enc c).length < 4 := by omega
      have hnr : (b64enc c).length / 4 * 4 = (b64enc c).length := by omega
      simp only [h4, ↓reduceIte, hnr, List.take_length, b64dec_enc, Bool.not_true, Bool.false_eq_true,
        List.drop_length, ih]
      simp

theorem b64Stream_blank (fin : LineEnd) : b64Stream [] fin [[]] = ([], some fin) := by
  simp [b64Stream]

theorem flatten_filter_ne_nil (cs : List Bytes) : cs.flatten = (cs.filter (· ≠ [])).flatten := by
  induction cs with
  | nil => rfl
  | cons c t ih =>
    by_cases hc : c = []
    · subst hc; simp [ih]
    · simp [hc, ih]

/-! ### assembly -/

/-- reading the body part of an encoded block, for any checksum value written in the `=XXXX` line -/
theorem readBody_encoded (ty body : Bytes) (crc : Nat) (hty : WFType ty) :
    readBody (breakLines (b64enc body) ++ encTail ty crc) =
      (body, if crc % 16777216 != crc24 crc24Init body % 16777216 then .corrupt else .eof) := by
  have e1 : breakLines (b64enc body) = joinLF ((chunks 48 body).map b64enc) := by
    unfold breakLines
    rw [intercalate_eq_joinLF]
    have : lineLength = 64 := rfl
    rw [this, chunks_b64enc]
  have e2 : encTail ty crc = LF :: (PAD :: b64enc (crcBytes crc) ++ LF :: (armorEnd ++ ty ++ armorEOL)) := by
    simp [encTail, List.append_assoc]
  have hsh := chunks_shape 48 (by decide) body
  have hgood : ∀ l ∈ (chunks 48 body).map b64enc, GoodLine l := by
    intro l hl
    obtain ⟨c, hc, rfl⟩ := List.mem_map.1 hl
    have := hsh.1 c hc
    exact goodLine_of_enc c (by intro h; subst h; simp at this) this.2
  unfold readBody
  rw [e1, e2, bodyLines_all _ hgood, bodyLines_crc crc ty hty]
  simp only [List.append_nil]
  by_cases hb : (chunks 48 body).isEmpty = true
  · have hnil : chunks 48 body = [] := by simpa using hb
    have hbody : body = [] := (chunks_eq_nil_iff 48 body (by decide)).1 hnil
    subst hbody
    simp only [hnil, List.map_nil, List.isEmpty_nil, ↓reduceIte, b64Stream_blank]
    split <;> rfl
  · have hne : ((chunks 48 body).map b64enc).isEmpty = false := by
      cases hh : chunks 48 body with
      | nil => simp [hh] at hb
      | cons => simp
    simp only [hne, Bool.false_eq_true, ↓reduceIte, b64Stream_enc, hsh.2.2]
    split <;> rfl

theorem encode_shape (ty : Bytes) (hdr : Hdr) (body : Bytes) (crc : Nat) :
    encHead ty hdr ++ breakLines (b64enc body) ++ encTail ty crc =
      (armorStart ++ ty ++ armorEOL) ++ LF ::
        ((hdr.map (fun kv => hdrLine kv ++ [LF])).flatten ++ LF :: (breakLines (b64enc body) ++ encTail ty crc)) := by
  simp [encHead, List.append_assoc]

/-- decoding an encoded block whose checksum line carries an arbitrary value `crc` -/
theorem decode_encoded (ty : Bytes) (hdr : Hdr) (body : Bytes) (crc : Nat) (hty : WFType ty) (hh : WFH hdr) :
    decode (encHead ty hdr ++ breakLines (b64enc body) ++ encTail ty crc) =
      some (ty, hdr, body, if crc % 16777216 != crc24 crc24Init body % 16777216 then .corrupt else .eof) := by
  unfold decode
  rw [encode_shape, begin_step _ _ hty, hdrs_all ty hdr [] [] _ hh.1 (by simpa using hh.2)]
  simp only [List.nil_append, readBody_encoded ty body crc hty]

end XC.C46
