/-
  C25 — streamPacketCipher: the writer equals the RFC 4253 §6 description, and the reader keyed alike
  returns the payload, consumes exactly the packet and ends in the writer's state.
-/
import XC.Proofs.C25_Basic
import XC.Proofs.C24_Bytes
namespace XC.C25
open XC.C24 (be32_u32be u32be_length)

theorem ofNat_toNat_u32' (k : Nat) (h : k < 4294967296) : (UInt32.ofNat k).toNat = k := by
  simp [UInt32.toNat_ofNat', Nat.mod_eq_of_lt h]

theorem ofNat_toNat_u8' (k : Nat) (h : k < 256) : (UInt8.ofNat k).toNat = k := by
  simp [UInt8.toNat_ofNat', Nat.mod_eq_of_lt h]

/-- RFC 4253 §6: the cleartext binary packet `packet_length ‖ padding_length ‖ payload ‖ padding` -/
def binaryPacket (payload padding : Bytes) : Bytes :=
  u32be (UInt32.ofNat (payload.length + 1 + padding.length)) ++ [UInt8.ofNat padding.length] ++ payload ++ padding

/-- the stream mode writer in one line each (RFC 4253 §6.4 encrypt-and-MAC; openssh PROTOCOL §1.6 EtM):
    E&M: `enc(packet) ‖ MAC(seq ‖ packet)`;  EtM: `len ‖ enc(packet[4:]) ‖ MAC(seq ‖ len ‖ enc(packet[4:]))` -/
def streamWriteSpec (c : StreamCfg) (st : St) (seq : UInt32) (payload padding : Bytes) : Bytes :=
  let pkt := binaryPacket payload padding
  if c.etmOn then
    let body := pkt.take 4 ++ xorAt c.ks st.pos (pkt.drop 4)
    body ++ c.tag (u32be seq ++ body)
  else
    xorAt c.ks st.pos pkt ++ c.tag (u32be seq ++ pkt)

theorem streamWrite_eq_spec (c : StreamCfg) (st : St) (seq : UInt32) (payload rnd : Bytes) (padLen : Nat)
    (hP : streamPadLen payload.length (if c.etmOn then 4 else 0) = padLen)
    (hmax : payload.length ≤ maxPacket) (hrnd : padLen ≤ rnd.length) :
    streamWrite c st seq payload rnd =
      .ok (streamWriteSpec c st seq payload (rnd.take padLen),
           ⟨st.pos + (if c.etmOn then 1 else 5) + payload.length + padLen, st.iv⟩, rnd.drop padLen) := by
  have h1 : ¬ payload.length > maxPacket := by omega
  have h2 : ¬ rnd.length < padLen := by omega
  obtain ⟨padding, hpd, hpl⟩ : ∃ padding, rnd.take padLen = padding ∧ padding.length = padLen :=
    ⟨_, rfl, by simp; omega⟩
  unfold streamWrite streamWriteSpec binaryPacket
  simp only [h1, if_false, hP, h2, hpd, hpl]
  obtain ⟨lenBytes, hL, hL4⟩ : ∃ lb, u32be (UInt32.ofNat (payload.length + 1 + padLen)) = lb ∧ lb.length = 4 :=
    ⟨_, rfl, u32be_length _⟩
  simp only [hL]
  by_cases he : c.etmOn
  · simp only [he, if_true]
    have ht : List.take 4 (lenBytes ++ [UInt8.ofNat padLen] ++ payload ++ padding) = lenBytes := by
      simp only [List.append_assoc]; exact List.take_left' hL4
    have hd : List.drop 4 (lenBytes ++ [UInt8.ofNat padLen] ++ payload ++ padding) =
        [UInt8.ofNat padLen] ++ payload ++ padding := by
      simp only [List.append_assoc]; exact List.drop_left' hL4
    rw [ht, hd, xorAt_append, xorAt_append]
    simp only [List.length_append, List.length_cons, List.length_nil, List.append_assoc, Nat.zero_add, Nat.add_assoc]
  · simp only [he, Bool.false_eq_true, if_false]
    have h5 : (lenBytes ++ [UInt8.ofNat padLen]).length = 5 := by simp [hL4]
    have hx : xorAt c.ks st.pos (lenBytes ++ [UInt8.ofNat padLen] ++ payload ++ padding) =
        xorAt c.ks st.pos (lenBytes ++ [UInt8.ofNat padLen]) ++ xorAt c.ks (st.pos + 5) payload ++
          xorAt c.ks (st.pos + 5 + payload.length) padding := by
      rw [xorAt_append, xorAt_append]
      simp only [List.length_append, List.length_cons, List.length_nil, hL4]
      have e1 : st.pos + (4 + (0 + 1)) = st.pos + 5 := by omega
      have e2 : st.pos + (4 + (0 + 1) + payload.length) = st.pos + 5 + payload.length := by omega
      rw [e1, e2]
    rw [hx]
    simp only [List.append_assoc, Nat.add_assoc]

/-- hypotheses on the abstract MAC: it has the advertised output size -/
def StreamCfg.OK (c : StreamCfg) : Prop := ∀ m, c.mac = some m → ∀ x, (m x).length = c.macLen

theorem tag_length (c : StreamCfg) (hc : c.OK) (x : Bytes) : (c.tag x).length = c.macSize := by
  unfold StreamCfg.tag StreamCfg.macSize
  cases hm : c.mac with
  | none => simp
  | some m => simp [hc m hm]

/-- one packet: reader after writer -/
theorem streamRead_write (c : StreamCfg) (hc : c.OK) (st : St) (seq : UInt32) (payload rnd tl : Bytes)
    (wire : Bytes) (st' : St) (rnd' : Bytes)
    (hn : 1 ≤ payload.length)
    (hfit : payload.length + 1 + streamPadLen payload.length (if c.etmOn then 4 else 0) ≤ maxPacket)
    (hw : streamWrite c st seq payload rnd = .ok (wire, st', rnd')) :
    streamRead c st seq (wire ++ tl) = ⟨.ok payload, tl, st'⟩ := by
  have hpad := streamPadLen_spec payload.length (if c.etmOn then 4 else 0) (by split <;> omega)
  obtain ⟨padLen, hP⟩ : ∃ p, streamPadLen payload.length (if c.etmOn then 4 else 0) = p := ⟨_, rfl⟩
  rw [hP] at hpad hfit
  have hmaxP : maxPacket = 262144 := rfl
  by_cases hr : rnd.length < padLen
  · exfalso
    unfold streamWrite at hw
    have h1 : ¬ payload.length > maxPacket := by omega
    simp only [h1, if_false, hP, hr, if_true] at hw
    cases hw
  rw [streamWrite_eq_spec c st seq payload rnd padLen hP (by omega) (by omega)] at hw
  simp only [Except.ok.injEq, Prod.mk.injEq] at hw
  obtain ⟨hwire, hst, _⟩ := hw
  obtain ⟨padding, hpd, hpl⟩ : ∃ padding, rnd.take padLen = padding ∧ padding.length = padLen :=
    ⟨_, rfl, by simp; omega⟩
  rw [hpd] at hwire
  have hlen32 : (UInt32.ofNat (payload.length + 1 + padLen)).toNat = payload.length + 1 + padLen :=
    ofNat_toNat_u32' _ (by omega)
  have hpad8 : (UInt8.ofNat padLen).toNat = padLen := ofNat_toNat_u8' _ (by omega)
  obtain ⟨lenBytes, hL, hL4⟩ : ∃ lb, u32be (UInt32.ofNat (payload.length + 1 + padLen)) = lb ∧ lb.length = 4 :=
    ⟨_, rfl, u32be_length _⟩
  have hbe : ∀ x, (be32 (lenBytes ++ x)).toNat = payload.length + 1 + padLen := by
    intro x; rw [← hL, be32_u32be, hlen32]
  have hget : (lenBytes ++ [UInt8.ofNat padLen]).getD 4 0 = UInt8.ofNat padLen := by
    rw [List.getD_eq_getElem?_getD, List.getElem?_append_right (by omega)]; simp [hL4]
  have hc1 : ¬ payload.length + 1 + padLen ≤ padLen + 1 := by omega
  have hc2 : ¬ payload.length + 1 + padLen > maxPacket := by omega
  have htk : (payload ++ padding).take (payload.length + 1 + padLen - padLen - 1) = payload :=
    List.take_left' (by omega)
  simp only [streamWriteSpec, binaryPacket, hpl, hL] at hwire
  by_cases he : c.etmOn
  · -- EtM: len ‖ enc(padlen ‖ payload ‖ padding) ‖ tag
    simp only [he, if_true] at hwire hst
    have ht : List.take 4 (lenBytes ++ [UInt8.ofNat padLen] ++ payload ++ padding) = lenBytes := by
      simp only [List.append_assoc]; exact List.take_left' hL4
    have hd : List.drop 4 (lenBytes ++ [UInt8.ofNat padLen] ++ payload ++ padding) =
        [UInt8.ofNat padLen] ++ (payload ++ padding) := by
      simp only [List.append_assoc]; exact List.drop_left' hL4
    rw [ht, hd, xorAt_append] at hwire
    obtain ⟨p4, hp4, hp4l⟩ : ∃ x, xorAt c.ks st.pos [UInt8.ofNat padLen] = x ∧ x.length = 1 :=
      ⟨_, rfl, by rw [xorAt_length]; rfl⟩
    obtain ⟨E, hE, hEl⟩ : ∃ x, xorAt c.ks (st.pos + [UInt8.ofNat padLen].length) (payload ++ padding) = x ∧
        x.length = payload.length + padLen := ⟨_, rfl, by rw [xorAt_length]; simp [hpl]⟩
    rw [hp4, hE] at hwire
    obtain ⟨tag, hT, hTl⟩ : ∃ t, c.tag (u32be seq ++ (lenBytes ++ (p4 ++ E))) = t ∧ t.length = c.macSize :=
      ⟨_, rfl, tag_length c hc _⟩
    rw [hT] at hwire
    subst hwire
    unfold streamRead
    have hlen5 : ¬ (lenBytes ++ (p4 ++ E) ++ tag ++ tl).length < 5 := by simp; omega
    have hpre : (lenBytes ++ (p4 ++ E) ++ tag ++ tl).take 5 = lenBytes ++ p4 := by
      have : lenBytes ++ (p4 ++ E) ++ tag ++ tl = (lenBytes ++ p4) ++ (E ++ tag ++ tl) := by simp
      rw [this]; exact List.take_left' (by simp; omega)
    have hr1 : (lenBytes ++ (p4 ++ E) ++ tag ++ tl).drop 5 = E ++ tag ++ tl := by
      have : lenBytes ++ (p4 ++ E) ++ tag ++ tl = (lenBytes ++ p4) ++ (E ++ tag ++ tl) := by simp
      rw [this]; exact List.drop_left' (by simp; omega)
    have htk4 : (lenBytes ++ p4).take 4 = lenBytes := List.take_left' hL4
    have hdr4 : (lenBytes ++ p4).drop 4 = p4 := List.drop_left' hL4
    have hdec4 : xorAt c.ks st.pos p4 = [UInt8.ofNat padLen] := by rw [← hp4, xorAt_involutive]
    have hneed : ¬ (E ++ tag ++ tl).length < payload.length + 1 + padLen - 1 + c.macSize := by
      simp; omega
    have hdata : (E ++ tag ++ tl).take (payload.length + 1 + padLen - 1) = E := by
      rw [List.append_assoc]; exact List.take_left' (by omega)
    have htag : ((E ++ tag ++ tl).drop (payload.length + 1 + padLen - 1)).take c.macSize = tag := by
      have : (E ++ tag ++ tl).drop (payload.length + 1 + padLen - 1) = tag ++ tl := by
        rw [List.append_assoc]; exact List.drop_left' (by omega)
      rw [this]; exact List.take_left' hTl
    have hr2 : (E ++ tag ++ tl).drop (payload.length + 1 + padLen - 1 + c.macSize) = tl :=
      List.drop_left' (by simp; omega)
    have hplain : xorAt c.ks (st.pos + 1) E = payload ++ padding := by
      rw [← hE]; exact xorAt_involutive _ _ _
    have hmaceq : (c.tag (u32be seq ++ (lenBytes ++ p4) ++ E) == tag) = true := by
      rw [← hT]; simp [List.append_assoc]
    simp only [hlen5, if_false, hpre, hr1, he, if_true, htk4, hdr4, hdec4, hbe, hget, hpad8, hc1, hc2,
      hneed, hdata, htag, hr2, hplain, hmaceq, Bool.or_true, Bool.not_true, Bool.false_eq_true, htk]
    rw [← hst]
    congr 2
    omega
  · -- encrypt-and-MAC, or no MAC: enc(len ‖ padlen ‖ payload ‖ padding) ‖ tag
    simp only [he, Bool.false_eq_true, if_false] at hwire hst
    have hsplit : lenBytes ++ [UInt8.ofNat padLen] ++ payload ++ padding =
        (lenBytes ++ [UInt8.ofNat padLen]) ++ (payload ++ padding) := by simp
    rw [hsplit, xorAt_append] at hwire
    have h5 : (lenBytes ++ [UInt8.ofNat padLen]).length = 5 := by simp [hL4]
    rw [h5] at hwire
    obtain ⟨EPre, hEPre, hEPrel⟩ : ∃ x, xorAt c.ks st.pos (lenBytes ++ [UInt8.ofNat padLen]) = x ∧ x.length = 5 :=
      ⟨_, rfl, by rw [xorAt_length, h5]⟩
    obtain ⟨E, hE, hEl⟩ : ∃ x, xorAt c.ks (st.pos + 5) (payload ++ padding) = x ∧
        x.length = payload.length + padLen := ⟨_, rfl, by rw [xorAt_length]; simp [hpl]⟩
    rw [hEPre, hE] at hwire
    obtain ⟨tag, hT, hTl⟩ : ∃ t, c.tag (u32be seq ++ ((lenBytes ++ [UInt8.ofNat padLen]) ++ (payload ++ padding))) = t ∧
        t.length = c.macSize := ⟨_, rfl, tag_length c hc _⟩
    rw [hT] at hwire
    subst hwire
    unfold streamRead
    have hlen5 : ¬ (EPre ++ E ++ tag ++ tl).length < 5 := by simp; omega
    have hpre : (EPre ++ E ++ tag ++ tl).take 5 = EPre := by
      simp only [List.append_assoc]; exact List.take_left' hEPrel
    have hr1 : (EPre ++ E ++ tag ++ tl).drop 5 = E ++ tag ++ tl := by
      simp only [List.append_assoc]; exact List.drop_left' hEPrel
    have hdecp : xorAt c.ks st.pos EPre = lenBytes ++ [UInt8.ofNat padLen] := by
      rw [← hEPre, xorAt_involutive]
    have hneed : ¬ (E ++ tag ++ tl).length < payload.length + 1 + padLen - 1 + c.macSize := by
      simp; omega
    have hdata : (E ++ tag ++ tl).take (payload.length + 1 + padLen - 1) = E := by
      rw [List.append_assoc]; exact List.take_left' (by omega)
    have htag : ((E ++ tag ++ tl).drop (payload.length + 1 + padLen - 1)).take c.macSize = tag := by
      have : (E ++ tag ++ tl).drop (payload.length + 1 + padLen - 1) = tag ++ tl := by
        rw [List.append_assoc]; exact List.drop_left' (by omega)
      rw [this]; exact List.take_left' hTl
    have hr2 : (E ++ tag ++ tl).drop (payload.length + 1 + padLen - 1 + c.macSize) = tl :=
      List.drop_left' (by simp; omega)
    have hplain : xorAt c.ks (st.pos + 5) E = payload ++ padding := by
      rw [← hE]; exact xorAt_involutive _ _ _
    have hmaceq : (c.tag (u32be seq ++ (lenBytes ++ [UInt8.ofNat padLen]) ++ (payload ++ padding)) == tag) = true := by
      rw [← hT]; simp [List.append_assoc]
    simp only [hlen5, if_false, hpre, hr1, he, Bool.false_eq_true, hdecp, hbe, hget, hpad8, hc1, hc2,
      hneed, hdata, htag, hr2, hplain, hmaceq, Bool.or_true, Bool.not_true, htk]
    rw [← hst]
    congr 2
    omega

end XC.C25
