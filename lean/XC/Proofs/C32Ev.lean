/-
  C32 — every event of one loop iteration is one the state and the request allow:
  callbacks are consulted only from the callback set in force, for the request's user / key /
  password, PublicKeyCallback only on a cache miss; no disconnect is sent inside an iteration.
-/
import XC.Proofs.C32Hist
namespace XC.C32

def evOk (cfg : Cfg) (st : St) (r : Req) : Ev → Bool
  | .cbPw g u pw o => g == st.gen && st.cbs.pw && u == r.user && pw == r.password && o == r.cb && r.method == "password"
  | .cbKbd g u o => g == st.gen && st.cbs.kbd && u == r.user && o == r.cb && r.method == "keyboard-interactive"
  | .cbPk g u k o => g == st.gen && st.cbs.pk && u == r.user && k == r.pk.key && o == r.cb &&
      r.method == "publickey" && (cacheGet st.cache r.user k).isNone && r.pk.keyParses
  | .cbNone u o => u == r.user && o == r.cb && r.method == "none" && cfg.noClientAuth && cfg.noClientAuthCb && !st.partialRet
  | .cbVpk u k _ sf o => u == r.user && k == r.pk.key && sf == r.pk.sigFormat && o == r.vcb && cfg.verifiedCb &&
      r.method == "publickey" && !r.pk.isQuery
  | .cbGssAllow g u o => g == st.gen && st.cbs.gss && u == r.user && o == r.cb && r.method == "gssapi-with-mic"
  | .cbBanner u => u == r.user && cfg.bannerCb.isSome
  | .sendPkOk a k => a == r.pk.algo && k == r.pk.key && r.pk.isQuery && r.method == "publickey"
  | .log m _ => m == r.method
  | .sendDisconnect => false
  | _ => true

def Phase.evs : Phase → List Ev
  | .hard e => e
  | .again _ e => e
  | .res _ e _ _ => e

def Res.evs : Res → List Ev
  | .done e _ => e
  | .cont _ e => e

theorem pkDecide_hard {cfg : Cfg} {st : St} {r : Req} {cand : Cached} {evs e : List Ev}
    (h : pkDecide cfg st r cand evs = .hard e) : e = evs := by
  unfold pkDecide at h
  cases hq : r.pk.isQuery <;> simp [hq] at h
  · cases h1 : r.pk.sigParses <;> simp [h1] at h
    · exact h.symm
    by_cases h2 : r.pk.algo ∈ algorithmsForKeyFormat r.pk.keyType <;> simp [h2] at h
    by_cases h3 : r.pk.sigFormat ∈ cfg.algos <;> simp [h3] at h
    cases h4 : isAlgoCompatible r.pk.algo r.pk.sigFormat <;> simp [h4] at h
    cases h5 : sigOk cfg r.pk cand.perms <;> simp [h5] at h
    · exact h.symm
    · split at h <;> simp at h
  · cases h1 : r.pk.trailing <;> simp [h1] at h
    · cases h2 : cand.result.okOrPartial <;> simp [h2] at h
    · exact h.symm

theorem pkDecide_evs (cfg : Cfg) (st : St) (r : Req) (cand : Cached) (evs : List Ev) :
    (pkDecide cfg st r cand evs).evs = evs ∨
    ((pkDecide cfg st r cand evs).evs = evs ++ [Ev.sendPkOk r.pk.algo r.pk.key] ∧ r.pk.isQuery = true) ∨
    ((pkDecide cfg st r cand evs).evs = evs ++ [Ev.cbVpk st.user r.pk.key cand.perms r.pk.sigFormat r.vcb] ∧
      cfg.verifiedCb = true ∧ r.pk.isQuery = false) := by
  cases h : pkDecide cfg st r cand evs with
  | hard e =>
    left
    simp [Phase.evs, pkDecide_hard h]
  | again st' e =>
    obtain ⟨_, b, c, _⟩ := pkDecide_again' h
    exact Or.inr (Or.inl ⟨by simp [Phase.evs, b], c⟩)
  | res st' e p er =>
    obtain ⟨_, b | ⟨b, c, d⟩⟩ := pkDecide_res' h
    · exact Or.inl (by simp [Phase.evs, b])
    · exact Or.inr (Or.inr ⟨by simp [Phase.evs, b], c, d⟩)

theorem pkPhase_evs (cfg : Cfg) (st : St) (r : Req) (hu : st.user = r.user) (hm : r.method = "publickey") :
    (pkPhase cfg st r).evs.all (evOk cfg st r) = true := by
  unfold pkPhase
  split
  · rename_i ph hp
    rcases pkPre_some hp with h1 | h1 <;> simp [h1, Phase.evs]
  · rename_i hp
    obtain ⟨p1, _, _, _, _, p6⟩ := pkPre_none hp
    split
    · -- PublicKeyCallback returned partial success although VerifiedPublicKeyCallback is set
      rename_i hl
      have hmiss : cacheGet st.cache st.user r.pk.key = none := by
        unfold pkLookup at hl
        split at hl
        · simp at hl
        · assumption
      simp [Phase.evs, evOk, p1, hu, hm, p6]
      rw [← hu, hmiss]
    · rename_i cand st2 evs2 hl
      obtain ⟨_, _, _, l4⟩ := pkLookup_some hl
      have hst2 : st2.user = st.user := by
        rcases l4 with ⟨_, rfl, _⟩ | ⟨_, rfl, _⟩ <;> rfl
      have hevs2 : evs2.all (evOk cfg st r) = true := by
        rcases l4 with ⟨_, _, rfl⟩ | ⟨hmiss, _, rfl, _⟩
        · rfl
        · simp [evOk, p1, hu, hm, p6]
          rw [← hu, hmiss]
      rcases pkDecide_evs cfg st2 r cand evs2 with h | ⟨h, hq⟩ | ⟨h, hv, hq⟩
      · rw [h]; exact hevs2
      · rw [h, List.all_append, hevs2]; simp [evOk, hq, hm]
      · rw [h, List.all_append, hevs2]; simp [evOk, hq, hm, hv, hst2, hu]

theorem kgEv_evOk {cfg : Cfg} {st : St} {r : Req} {x : List Ev} (hu : st.user = r.user)
    (h : x.all (kgEv st r) = true) : x.all (evOk cfg st r) = true := by
  rw [List.all_eq_true] at h ⊢
  intro e he
  have := h e he
  cases e <;> simp [kgEv, auxEv, evOk, hu] at this ⊢ <;> simp_all

theorem kg_evs {cfg : Cfg} {st : St} {r : Req} {ph : Phase} (hu : st.user = r.user)
    (hkg : (r.method = "keyboard-interactive" ∧ ph = kbdPhase st r) ∨ (r.method = "gssapi-with-mic" ∧ ph = gssPhase st r)) :
    ph.evs.all (evOk cfg st r) = true := by
  obtain ⟨x, hx, h⟩ := kg_simple st r ph hkg
  rcases h with h | h | h <;> rw [h] <;> exact kgEv_evOk hu hx

theorem methodPhase_evs (cfg : Cfg) (st : St) (r : Req) (hu : st.user = r.user) :
    (methodPhase cfg st r).evs.all (evOk cfg st r) = true := by
  unfold methodPhase
  split
  · rename_i hm
    simp at hm
    unfold nonePhase
    (repeat' split) <;> simp [Phase.evs, evOk, hu, hm] <;> simp_all
  · split
    · rename_i hm
      simp at hm
      unfold pwPhase
      (repeat' split) <;> simp [Phase.evs, evOk, hu, hm] <;> simp_all
    · split
      · rename_i hm
        simp at hm
        exact kg_evs hu (Or.inl ⟨hm, rfl⟩)
      · split
        · rename_i hm
          simp at hm
          exact pkPhase_evs cfg st r hu hm
        · split
          · rename_i hm
            simp at hm
            exact kg_evs hu (Or.inr ⟨hm, rfl⟩)
          · simp [Phase.evs]

theorem conclude_evs (cfg : Cfg) (st : St) (r : Req) (evs : List Ev) (perms : Nat) (e : AuthErr) :
    (conclude cfg st r evs perms e).evs = evs ∨ ∃ ms p, (conclude cfg st r evs perms e).evs = evs ++ [Ev.sendFailure ms p] ∨
      (conclude cfg st r evs perms e).evs = evs ++ [Ev.sendSuccess] := by
  unfold conclude
  cases e <;> simp only []
  · exact Or.inr ⟨[], false, Or.inr rfl⟩
  all_goals
    (repeat' split) <;> first
      | exact Or.inl rfl
      | exact Or.inr ⟨_, _, Or.inl rfl⟩

/-- **step_events_allowed.** -/
theorem step_events_allowed (cfg : Cfg) (st : St) (r : Req) :
    (step cfg st r).evs.all (evOk cfg st r) = true := by
  unfold step
  split
  · rfl
  split
  · rfl
  simp only []
  generalize hsb : bannerPhase cfg { st with user := r.user } = sb
  have hf := bannerPhase_fields cfg { st with user := r.user }
  rw [hsb] at hf
  have hban : sb.2.all (evOk cfg st r) = true := by
    rw [← hsb]
    unfold bannerPhase
    (repeat' split) <;> simp [evOk] <;> simp_all
  have hu : sb.1.user = r.user := by rw [hf]
  have hm := methodPhase_evs cfg sb.1 r hu
  have hsame : ∀ e, evOk cfg sb.1 r e = true → evOk cfg st r e = true := by
    intro e he
    have h1 : sb.1.gen = st.gen := by rw [hf]
    have h2 : sb.1.cbs = st.cbs := by rw [hf]
    have h3 : sb.1.cache = st.cache := by rw [hf]
    have h4 : sb.1.partialRet = st.partialRet := by rw [hf]
    cases e <;> simp [evOk, h1, h2, h3, h4] at he ⊢ <;> try exact he
    -- cbBanner never comes out of the method switch: it would need bannerCalled = false on both sides
    all_goals simp_all
  have hm' : (methodPhase cfg sb.1 r).evs.all (evOk cfg st r) = true := by
    rw [List.all_eq_true] at hm ⊢
    exact fun e he => hsame e (hm e he)
  cases hph : methodPhase cfg sb.1 r with
  | hard evs => simp only []; rw [hph] at hm'; simp only [Res.evs, List.all_append, hban, Bool.true_and]; exact hm'
  | again st2 evs => simp only []; rw [hph] at hm'; simp only [Res.evs, List.all_append, hban, Bool.true_and]; exact hm'
  | res st2 evs perms e =>
    rw [hph] at hm'
    simp only [Phase.evs] at hm'
    simp only []
    have hfin : (finish cfg st2 r evs perms e).evs.all (evOk cfg st r) = true := by
      unfold finish
      have hlog : (evs ++ logEvs r (saFilter cfg perms e)).all (evOk cfg st r) = true := by
        rw [List.all_append, hm']
        unfold logEvs
        split <;> simp [evOk]
      rcases conclude_evs cfg st2 r (evs ++ logEvs r (saFilter cfg perms e)) perms (saFilter cfg perms e) with
        h | ⟨ms, p, h | h⟩ <;> rw [h]
      · exact hlog
      · rw [List.all_append, hlog]; simp [evOk]
      · rw [List.all_append, hlog]; simp [evOk]
    cases hfr : finish cfg st2 r evs perms e with
    | done e' f => rw [hfr] at hfin; simp only [Res.evs, List.all_append, hban, Bool.true_and]; exact hfin
    | cont st3 e' => rw [hfr] at hfin; simp only [Res.evs, List.all_append, hban, Bool.true_and]; exact hfin

/-! ## partial success -/

theorem split_partial {o : Outcome} {n : Nat} {nx : Cbs} {g : Nat} (h : (o.split n).2 = .partialOk nx g) :
    o = .partialOk nx (o.split n).1 ∧ g = n := by
  cases o <;> simp [Outcome.split] at h ⊢
  exact ⟨h.1, h.2.symm⟩

/-- where a partial success can come from: the method's own callback on this request,
    VerifiedPublicKeyCallback on this request, or the cached PublicKeyCallback result for this
    user and key -/
def PartialOrigin (st : St) (r : Req) (perms : Nat) (nx : Cbs) (g : Nat) : Prop :=
  (r.cb = .partialOk nx perms ∧ g = st.attempts) ∨ (r.vcb = .partialOk nx perms ∧ g = st.attempts) ∨
  (∃ c, st.cache = some c ∧ c.user = st.user ∧ c.key = r.pk.key ∧ c.result = .partialOk nx g ∧ c.perms = perms)

theorem kg_partial {st st' : St} {r : Req} {ph : Phase} {evs : List Ev} {perms : Nat} {nx : Cbs} {g : Nat}
    (hkg : (r.method = "keyboard-interactive" ∧ ph = kbdPhase st r) ∨ (r.method = "gssapi-with-mic" ∧ ph = gssPhase st r))
    (h : ph = .res st' evs perms (.partialOk nx g)) : PartialOrigin st r perms nx g := by
  obtain ⟨x, _, hx⟩ := kg_simple st r ph hkg
  rcases hx with hx | hx | hx <;> rw [h] at hx <;> simp at hx
  obtain ⟨_, _, c, d⟩ := hx
  obtain ⟨e1, e2⟩ := split_partial d.symm
  rw [← c] at e1
  exact Or.inl ⟨e1, e2⟩

theorem pkDecide_partial {cfg : Cfg} {st st' : St} {r : Req} {cand : Cached} {evs evs' : List Ev} {perms : Nat}
    {nx : Cbs} {g : Nat} (h : pkDecide cfg st r cand evs = .res st' evs' perms (.partialOk nx g)) :
    (r.vcb = .partialOk nx perms ∧ g = st.attempts) ∨ (cand.result = .partialOk nx g ∧ cand.perms = perms) := by
  unfold pkDecide at h
  cases hq : r.pk.isQuery <;> simp [hq] at h
  · cases h1 : r.pk.sigParses <;> simp [h1] at h
    by_cases h2 : r.pk.algo ∈ algorithmsForKeyFormat r.pk.keyType <;> simp [h2] at h
    by_cases h3 : r.pk.sigFormat ∈ cfg.algos <;> simp [h3] at h
    cases h4 : isAlgoCompatible r.pk.algo r.pk.sigFormat <;> simp [h4] at h
    cases h5 : sigOk cfg r.pk cand.perms <;> simp [h5] at h
    split at h <;> simp at h
    · obtain ⟨_, _, c, d⟩ := h
      obtain ⟨e1, e2⟩ := split_partial d
      left
      rw [c] at e1
      exact ⟨e1, e2⟩
    · exact Or.inr ⟨h.2.2.2, h.2.2.1⟩
  · cases h1 : r.pk.trailing <;> simp [h1] at h
    cases h2 : cand.result.okOrPartial <;> simp [h2] at h
    rw [h.2.2.2] at h2
    simp [AuthErr.okOrPartial] at h2

theorem methodPhase_partial {cfg : Cfg} {st st' : St} {r : Req} {evs : List Ev} {perms : Nat} {nx : Cbs} {g : Nat}
    (h : methodPhase cfg st r = .res st' evs perms (.partialOk nx g)) :
    PartialOrigin st r perms nx g := by
  unfold methodPhase at h
  split at h
  · unfold nonePhase at h
    (repeat' split at h) <;> simp at h
    obtain ⟨_, _, c, d⟩ := h
    obtain ⟨e1, e2⟩ := split_partial d
    rw [c] at e1
    exact Or.inl ⟨e1, e2⟩
  · split at h
    · unfold pwPhase at h
      (repeat' split at h) <;> simp at h
      obtain ⟨_, _, c, d⟩ := h
      obtain ⟨e1, e2⟩ := split_partial d
      rw [c] at e1
      exact Or.inl ⟨e1, e2⟩
    · split at h
      · rename_i hm
        simp at hm
        exact kg_partial (Or.inl ⟨hm, rfl⟩) h
      · split at h
        · unfold pkPhase at h
          split at h
          · rename_i ph hp
            rcases pkPre_some hp with h1 | h1 <;> simp [h1] at h
          · split at h
            · simp at h
            · rename_i cand st2 evs2 hl
              obtain ⟨l1, l2, _, l4⟩ := pkLookup_some hl
              have hst2 : st2.attempts = st.attempts := by
                rcases l4 with ⟨_, rfl, _⟩ | ⟨_, rfl, _⟩ <;> rfl
              rcases pkDecide_partial h with ⟨a, b⟩ | ⟨a, b⟩
              · exact Or.inr (Or.inl ⟨a, by rw [b, hst2]⟩)
              · rcases l4 with ⟨c, _, _⟩ | ⟨_, _, _, c, _, d⟩
                · exact Or.inr (Or.inr ⟨cand, c, l1, l2, a, b⟩)
                · obtain ⟨d1, d2, _⟩ := d nx g a
                  rw [b] at d2
                  exact Or.inl ⟨d2, d1⟩
        · split at h
          · rename_i hm
            simp at hm
            exact kg_partial (Or.inr ⟨hm, rfl⟩) h
          · simp at h

theorem methodPhase_cfg {cfg : Cfg} {st st' : St} {r : Req} {evs : List Ev}
    (hph : methodPhase cfg st r = .again st' evs ∨ ∃ p e, methodPhase cfg st r = .res st' evs p e) :
    st'.cbs = st.cbs ∧ st'.gen = st.gen ∧ st'.partialRet = st.partialRet ∧ st'.attempts = st.attempts ∧ st'.user = st.user ∧
    (st'.cache = st.cache ∨ cacheGet st.cache st.user r.pk.key = none) := by
  unfold methodPhase at hph
  split at hph
  · unfold nonePhase at hph
    (repeat' split at hph) <;> simp at hph <;> obtain ⟨rfl, _⟩ := hph <;> simp
  · split at hph
    · unfold pwPhase at hph
      (repeat' split at hph) <;> simp at hph <;> obtain ⟨rfl, _⟩ := hph <;> simp
    · split at hph
      · rename_i hm
        simp at hm
        obtain ⟨rfl, _⟩ := kg_result (Or.inl ⟨hm, rfl⟩) hph
        simp
      · split at hph
        · unfold pkPhase at hph
          split at hph
          · rename_i ph hp
            rcases pkPre_some hp with h1 | h1 <;> subst h1 <;> simp at hph
            obtain ⟨rfl, _⟩ := hph
            simp
          · split at hph
            · simp at hph
            · rename_i cand st2 evs2 hl
              obtain ⟨_, _, _, l4⟩ := pkLookup_some hl
              have hd : st' = st2 := by
                rcases hph with h | ⟨p, e, h⟩
                · exact (pkDecide_again' h).1
                · exact (pkDecide_res' h).1
              subst hd
              rcases l4 with ⟨_, rfl, _⟩ | ⟨hm, rfl, _⟩
              · simp
              · simp [hm]
        · split at hph
          · rename_i hm
            simp at hm
            obtain ⟨rfl, _⟩ := kg_result (Or.inr ⟨hm, rfl⟩) hph
            simp
          · simp at hph
            obtain ⟨rfl, _⟩ := hph
            simp

/-- **step_switch.** A continuing iteration leaves the callback set, its tag and the partial flag
    alone — or it was a partial success: then the new callback set is the `Next` of a
    PartialSuccessError returned with nil permissions for this request (by the method's callback, by
    VerifiedPublicKeyCallback, or by the cached PublicKeyCallback decision for this user and key),
    the key cache is empty, and the last packet sent is a failure message with the partial-success
    flag listing exactly the methods of that set. -/
theorem step_switch {cfg : Cfg} {st st' : St} {r : Req} {evs : List Ev}
    (h : step cfg st r = .cont st' evs) :
    (st'.cbs = st.cbs ∧ st'.gen = st.gen ∧ st'.partialRet = st.partialRet) ∨
    (∃ nx g, PartialOrigin { st with user := r.user } r 0 nx g ∧ st'.cbs = nx ∧ st'.gen = g ∧
      st'.partialRet = true ∧ st'.cache = none ∧ methodsOf nx ≠ [] ∧
      evs.getLast? = some (Ev.sendFailure (methodsOf nx) true)) := by
  unfold step at h
  split at h
  · simp at h
  split at h
  · simp at h
  simp only [] at h
  generalize hsb : bannerPhase cfg { st with user := r.user } = sb at h
  have hf := bannerPhase_fields cfg { st with user := r.user }
  rw [hsb] at hf
  have e1 : sb.1.cbs = st.cbs := by rw [hf]
  have e2 : sb.1.gen = st.gen := by rw [hf]
  have e3 : sb.1.partialRet = st.partialRet := by rw [hf]
  cases hph : methodPhase cfg sb.1 r with
  | hard evs2 => simp [hph] at h
  | again st2 evs2 =>
    simp [hph] at h
    obtain ⟨rfl, _⟩ := h
    obtain ⟨a, b, c, _⟩ := methodPhase_cfg (Or.inl hph)
    exact Or.inl ⟨by rw [a, e1], by rw [b, e2], by rw [c, e3]⟩
  | res st2 evs2 perms e =>
    simp only [hph] at h
    obtain ⟨a, b, c, _⟩ := methodPhase_cfg (Or.inr ⟨perms, e, hph⟩)
    cases hfin : finish cfg st2 r evs2 perms e with
    | done e' f => simp [hfin] at h
    | cont st3 e' =>
      simp [hfin] at h
      obtain ⟨rfl, rfl⟩ := h
      unfold finish at hfin
      cases hsf : saFilter cfg perms e with
      | ok => rw [hsf] at hfin; simp [conclude] at hfin
      | partialOk nx g =>
        rw [hsf] at hfin
        have he := saFilter_partial.mp hsf
        subst he
        simp only [conclude] at hfin
        by_cases hp : perms = 0
        · subst hp
          by_cases hmt : (methodsOf nx).isEmpty = true
          · simp [hmt] at hfin
          · simp [hmt] at hfin
            obtain ⟨rfl, rfl⟩ := hfin
            right
            have horig := methodPhase_partial hph
            have hcache : PartialOrigin { st with user := r.user } r 0 nx g := by
              unfold PartialOrigin at horig ⊢
              rw [hf] at horig
              exact horig
            exact ⟨nx, g, hcache, rfl, rfl, rfl, rfl, by simpa using hmt, by simp⟩
        · simp [hp] at hfin
      | fail =>
        rw [hsf] at hfin
        simp only [conclude] at hfin
        (repeat' split at hfin) <;> simp at hfin <;> obtain ⟨rfl, _⟩ := hfin
        all_goals exact Or.inl ⟨by simp [a, e1], by simp [b, e2], by simp [c, e3]⟩
      | bannerFail bb =>
        rw [hsf] at hfin
        simp only [conclude] at hfin
        (repeat' split at hfin) <;> simp at hfin <;> obtain ⟨rfl, _⟩ := hfin
        all_goals exact Or.inl ⟨by simp [a, e1], by simp [b, e2], by simp [c, e3]⟩

end XC.C32
