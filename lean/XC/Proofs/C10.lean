/-
  C10 — helper lemmas and the secretbox refinement: the Go two-stage encryption (second half of keystream
  block 0, then `counter[8] = 1`) equals the XSalsa20 stream from byte 32 for every message length.
-/
import XC.Model.C10
import XC.Props.C02
namespace XC.C10
open XC.C02 (salsa20Block_length blocksFrom_length salsa_keystream_length salsa_xor_length)

theorem xorBytes_take_right (m l : Bytes) : xorBytes m (l.take m.length) = xorBytes m l := by
  induction m generalizing l with
  | nil => simp [xorBytes]
  | cons a m ih =>
    cases l with
    | nil => simp [xorBytes]
    | cons b l => simp only [xorBytes, List.length_cons, List.take_succ_cons, List.zipWith_cons_cons] at *; rw [ih]

theorem xorBytes_append_right (m P R : Bytes) :
    xorBytes m (P ++ R) = xorBytes (m.take P.length) P ++ xorBytes (m.drop P.length) R := by
  induction P generalizing m with
  | nil => simp [xorBytes]
  | cons p P ih =>
    cases m with
    | nil => simp [xorBytes]
    | cons a m =>
      simp only [xorBytes, List.cons_append, List.zipWith_cons_cons, List.length_cons, List.take_succ_cons,
        List.drop_succ_cons] at *
      rw [ih]

theorem xor_zeros_left (ks : Bytes) (n : Nat) (h : ks.length = n) : xorBytes (zeros n) ks = ks := by
  subst h; exact C01.xor_zeros ks

/-- the 16-byte counter block used by secretbox: nonce[16:24] ‖ 0^8 -/
theorem fit_c0 (n8 : Bytes) (h : n8.length = 8) (t : Bytes) (ht : t.length = 8) : C09.fit 16 (n8 ++ t) = n8 ++ t := by
  have hl : (n8 ++ t).length = 16 := by simp [h, ht]
  simp only [C09.fit]
  rw [← hl, List.take_left]

theorem counterAt_shift (n8 : Bytes) (h : n8.length = 8) (i : Nat) :
    C09.counterAt (ctr1 (n8 ++ zeros 8)) i = C09.counterAt (n8 ++ zeros 8) (i + 1) := by
  have e1 : ctr1 (n8 ++ zeros 8) = n8 ++ ([1] ++ zeros 7) := by
    simp only [ctr1]
    rw [List.take_left' h, show (9 : Nat) = n8.length + 1 by omega, ← List.drop_drop, List.drop_left]
    simp [zeros, List.replicate_succ]
  rw [e1]
  simp only [C09.counterAt]
  rw [fit_c0 n8 h _ (by simp [zeros]), fit_c0 n8 h _ (by simp [zeros])]
  rw [List.take_left' h, List.drop_left' h, List.drop_left' h]
  have z1 : natOfLE (zeros 8) = 0 := C04.natOfLE_zeros 8
  have z2 : natOfLE ([1] ++ zeros 7) = 1 := by
    simp only [List.singleton_append, natOfLE]
    rw [C04.natOfLE_zeros]; rfl
  rw [z1, z2, Nat.zero_add, Nat.add_comm 1 i, List.take_left' h]

theorem blocksFrom_shift (sub n8 : Bytes) (h : n8.length = 8) (i m : Nat) :
    C09.blocksFrom sub (ctr1 (n8 ++ zeros 8)) i m = C09.blocksFrom sub (n8 ++ zeros 8) (i + 1) m := by
  induction m generalizing i with
  | zero => rfl
  | succ m ih => simp only [C09.blocksFrom, counterAt_shift n8 h, ih]

/-- the first keystream block, as the Go code obtains it (encrypting 64 zero bytes from counter 0) -/
theorem firstBlock_eq (sub c0 : Bytes) :
    C09.xorKeyStream sub c0 (zeros 64) = C09.salsa20Block sub (C09.counterAt c0 0) := by
  simp only [C09.xorKeyStream, C09.keystream]
  have : (zeros 64).length = 64 := by simp [zeros]
  rw [this]
  have e : (64 + 63) / 64 = 1 := by decide
  rw [e]
  simp only [C09.blocksFrom, List.append_nil]
  rw [List.take_of_length_le (by simp [salsa20Block_length])]
  exact xor_zeros_left _ 64 (salsa20Block_length _ _)

theorem keystream_unfold (sub c0 : Bytes) (n : Nat) :
    C09.keystream sub c0 (32 + n) =
      (C09.salsa20Block sub (C09.counterAt c0 0) ++ C09.blocksFrom sub c0 1 ((n + 31) / 64)).take (32 + n) := by
  simp only [C09.keystream]
  have : (32 + n + 63) / 64 = (n + 31) / 64 + 1 := by omega
  rw [this]
  simp [C09.blocksFrom]

/-- the Go encryption (first ≤ 32 bytes against the second half of block 0, the rest against the keystream
    restarted at `counter[8] = 1`) is `xor` with the XSalsa20 stream from byte 32 on — for every length -/
theorem crypt_eq_stream (sub n8 msg : Bytes) (h8 : n8.length = 8) :
    cryptGo sub (n8 ++ zeros 8) (C09.salsa20Block sub (C09.counterAt (n8 ++ zeros 8) 0)) msg
      = xorBytes msg ((C09.keystream sub (n8 ++ zeros 8) (32 + msg.length)).drop 32) := by
  rw [keystream_unfold]
  generalize hB : C09.salsa20Block sub (C09.counterAt (n8 ++ zeros 8) 0) = B0
  have hBl : B0.length = 64 := by rw [← hB]; exact salsa20Block_length _ _
  rw [List.drop_take, show 32 + msg.length - 32 = msg.length by omega, xorBytes_take_right,
    List.drop_append_of_le_length (by omega), xorBytes_append_right]
  have hd : (B0.drop 32).length = 32 := by simp [hBl]
  simp only [cryptGo, hd]
  congr 1
  simp only [C09.xorKeyStream, C09.keystream]
  rw [xorBytes_take_right, blocksFrom_shift sub n8 h8]
  by_cases hl : msg.length ≤ 32
  · have : msg.drop 32 = [] := List.drop_of_length_le hl
    simp [this, xorBytes]
  · have : ((msg.drop 32).length + 63) / 64 = (msg.length + 31) / 64 := by
      simp only [List.length_drop]; omega
    rw [this]

theorem polyKey_eq_stream (sub c0 : Bytes) (n : Nat) :
    (C09.keystream sub c0 (32 + n)).take 32 = (C09.salsa20Block sub (C09.counterAt c0 0)).take 32 := by
  rw [keystream_unfold, List.take_take, Nat.min_eq_left (by omega),
    List.take_append_of_le_length (by simp [salsa20Block_length])]

/-- **secretbox.Seal = crypto_secretbox**: for every key, 24-byte nonce and message (any length, in
    particular below / at / above the 32-byte boundary where the first keystream block ends),
    `Seal` returns `out ‖ Poly1305-tag ‖ ciphertext` exactly as the NaCl definition -/
theorem seal_eq_spec (out msg nonce key : Bytes) (hn : nonce.length = 24) :
    sealGo out msg nonce key = some (out ++ secretboxSpec key nonce msg) := by
  have h8 : ((nonce.drop 16).take 8).length = 8 := by simp; omega
  simp only [sealGo, setup, secretboxSpec, xsalsaStream, ctr0]
  rw [firstBlock_eq, crypt_eq_stream _ _ _ h8, polyKey_eq_stream]
  have hkl : ((C09.salsa20Block (C09.hsalsa20 key (nonce.take 16))
      (C09.counterAt ((nonce.drop 16).take 8 ++ zeros 8) 0)).take 32).length = 32 := by
    simp [salsa20Block_length]
  rw [C04.sum_eq_spec _ _ hkl]
  simp [List.append_assoc]

theorem stream_tail_length (sub c0 : Bytes) (n : Nat) : ((C09.keystream sub c0 (32 + n)).drop 32).length = n := by
  simp [salsa_keystream_length]

theorem open_seal_core (out msg sub n8 : Bytes) (h8 : n8.length = 8) :
    (if (C04.tagSpec ((C09.keystream sub (n8 ++ zeros 8) (32 + msg.length)).take 32)
            (xorBytes msg ((C09.keystream sub (n8 ++ zeros 8) (32 + msg.length)).drop 32)) ++
          xorBytes msg ((C09.keystream sub (n8 ++ zeros 8) (32 + msg.length)).drop 32)).length < 16 then OpenRes.fail
      else if C04.tagSpec ((C09.xorKeyStream sub (n8 ++ zeros 8) (zeros 64)).take 32)
            ((C04.tagSpec ((C09.keystream sub (n8 ++ zeros 8) (32 + msg.length)).take 32)
                (xorBytes msg ((C09.keystream sub (n8 ++ zeros 8) (32 + msg.length)).drop 32)) ++
              xorBytes msg ((C09.keystream sub (n8 ++ zeros 8) (32 + msg.length)).drop 32)).drop 16)
          = (C04.tagSpec ((C09.keystream sub (n8 ++ zeros 8) (32 + msg.length)).take 32)
                (xorBytes msg ((C09.keystream sub (n8 ++ zeros 8) (32 + msg.length)).drop 32)) ++
              xorBytes msg ((C09.keystream sub (n8 ++ zeros 8) (32 + msg.length)).drop 32)).take 16 then
        OpenRes.ok (out ++ cryptGo sub (n8 ++ zeros 8) (C09.xorKeyStream sub (n8 ++ zeros 8) (zeros 64))
          ((C04.tagSpec ((C09.keystream sub (n8 ++ zeros 8) (32 + msg.length)).take 32)
                (xorBytes msg ((C09.keystream sub (n8 ++ zeros 8) (32 + msg.length)).drop 32)) ++
              xorBytes msg ((C09.keystream sub (n8 ++ zeros 8) (32 + msg.length)).drop 32)).drop 16))
      else OpenRes.fail) = OpenRes.ok (out ++ msg) := by
  rw [firstBlock_eq]
  generalize hc : xorBytes msg ((C09.keystream sub (n8 ++ zeros 8) (32 + msg.length)).drop 32) = c
  have hcl : c.length = msg.length := by
    rw [← hc]; simp [xorBytes_length, salsa_keystream_length]
  have htl : (C04.tagSpec ((C09.keystream sub (n8 ++ zeros 8) (32 + msg.length)).take 32) c).length = 16 :=
    C04.tagSpec_length _ _
  have e1 : (C04.tagSpec ((C09.keystream sub (n8 ++ zeros 8) (32 + msg.length)).take 32) c ++ c).drop 16 = c := by
    rw [← htl, List.drop_left]
  have e2 : (C04.tagSpec ((C09.keystream sub (n8 ++ zeros 8) (32 + msg.length)).take 32) c ++ c).take 16
      = C04.tagSpec ((C09.keystream sub (n8 ++ zeros 8) (32 + msg.length)).take 32) c := by
    rw [← htl, List.take_left]
  rw [if_neg (by simp [htl])]
  rw [e1, e2, polyKey_eq_stream, if_pos rfl, crypt_eq_stream _ _ _ h8, hcl, ← hc]
  rw [C01.xor_xor _ _ (by simp [salsa_keystream_length])]

/-- `secretbox.Open` of a sealed box returns the message appended to `out` -/
theorem open_seal (out msg nonce key : Bytes) (hn : nonce.length = 24) :
    openGo out (secretboxSpec key nonce msg) nonce key = .ok (out ++ msg) := by
  have h8 : ((nonce.drop 16).take 8).length = 8 := by simp; omega
  rw [C02.secretbox_open_eq]
  exact open_seal_core out msg (C09.hsalsa20 key (nonce.take 16)) ((nonce.drop 16).take 8) h8

end XC.C10
