/-
  C46 — base64 facts used by the armor round trip: decode ∘ encode = id (per line buffer),
  the 64-column lines of the encoded text are the encodings of the 48-byte blocks of the body.
-/
import XC.Model.C46
import XC.Proofs.C46_LB
namespace XC.C46
open XC

theorem b64val_b64char : ∀ n : Fin 64, b64val (b64char n.val) = some n.val := by decide

theorem b64val_char (n : Nat) (h : n < 64) : b64val (b64char n) = some n := b64val_b64char ⟨n, h⟩

theorem b64val_pad : b64val PAD = none := by decide

/-- alphabet characters are not LF, CR, '-', '=' -/
theorem b64char_plain : ∀ n : Fin 64,
    b64char n.val ≠ LF ∧ b64char n.val ≠ CR ∧ b64char n.val ≠ 45 ∧ b64char n.val ≠ PAD := by decide

def IsB64 (c : UInt8) : Prop := (∃ n, n < 64 ∧ c = b64char n) ∨ c = PAD

theorem IsB64.plain {c : UInt8} (h : IsB64 c) : c ≠ LF ∧ c ≠ CR ∧ c ≠ 45 := by
  rcases h with ⟨n, hn, rfl⟩ | rfl
  · have := b64char_plain ⟨n, hn⟩; exact ⟨this.1, this.2.1, this.2.2.1⟩
  · decide

theorem list3_induct (P : Bytes → Prop) (h0 : P []) (h1 : ∀ a, P [a]) (h2 : ∀ a b, P [a, b])
    (h3 : ∀ a b c rest, P rest → P (a :: b :: c :: rest)) : ∀ l, P l := by
  intro l
  induction hl : l.length using Nat.strongRecOn generalizing l with
  | _ n ih =>
    match l with
    | [] => exact h0
    | [a] => exact h1 a
    | [a, b] => exact h2 a b
    | a :: b :: c :: rest => exact h3 a b c rest (ih rest.length (by subst hl; simp only [List.length_cons]; omega) rest rfl)

theorem b64enc_cons3 (a b c : UInt8) (rest : Bytes) :
    b64enc (a :: b :: c :: rest) =
      b64char ((a.toNat * 65536 + b.toNat * 256 + c.toNat) / 262144) ::
      b64char ((a.toNat * 65536 + b.toNat * 256 + c.toNat) / 4096 % 64) ::
      b64char ((a.toNat * 65536 + b.toNat * 256 + c.toNat) / 64 % 64) ::
      b64char ((a.toNat * 65536 + b.toNat * 256 + c.toNat) % 64) :: b64enc rest := by
  simp [b64enc]

theorem b64enc_two (a b : UInt8) :
    b64enc [a, b] = [b64char ((a.toNat * 65536 + b.toNat * 256) / 262144),
      b64char ((a.toNat * 65536 + b.toNat * 256) / 4096 % 64), b64char ((a.toNat * 65536 + b.toNat * 256) / 64 % 64), PAD] := by
  simp [b64enc]

theorem b64enc_one (a : UInt8) :
    b64enc [a] = [b64char ((a.toNat * 65536) / 262144), b64char ((a.toNat * 65536) / 4096 % 64), PAD, PAD] := by
  simp [b64enc]

theorem b64enc_isB64 (d : Bytes) : ∀ c ∈ b64enc d, IsB64 c := by
  have hlt : ∀ v : Nat, v % 64 < 64 := fun v => Nat.mod_lt _ (by decide)
  induction d using list3_induct with
  | h3 a b c rest ih =>
    intro x hx
    have ha := a.toNat_lt; have hb := b.toNat_lt; have hc := c.toNat_lt
    rw [b64enc_cons3] at hx
    simp only [List.mem_cons] at hx
    rcases hx with rfl | rfl | rfl | rfl | hx
    · exact Or.inl ⟨_, by omega, rfl⟩
    · exact Or.inl ⟨_, hlt _, rfl⟩
    · exact Or.inl ⟨_, hlt _, rfl⟩
    · exact Or.inl ⟨_, hlt _, rfl⟩
    · exact ih x hx
  | h2 a b =>
    intro x hx
    have ha := a.toNat_lt; have hb := b.toNat_lt
    rw [b64enc_two] at hx
    simp only [List.mem_cons, List.not_mem_nil, or_false] at hx
    rcases hx with rfl | rfl | rfl | rfl
    · exact Or.inl ⟨_, by omega, rfl⟩
    · exact Or.inl ⟨_, hlt _, rfl⟩
    · exact Or.inl ⟨_, hlt _, rfl⟩
    · exact Or.inr rfl
  | h1 a =>
    intro x hx
    have ha := a.toNat_lt
    rw [b64enc_one] at hx
    simp only [List.mem_cons, List.not_mem_nil, or_false] at hx
    rcases hx with rfl | rfl | rfl | rfl
    · exact Or.inl ⟨_, by omega, rfl⟩
    · exact Or.inl ⟨_, hlt _, rfl⟩
    · exact Or.inr rfl
    · exact Or.inr rfl
  | h0 => intro x hx; simp [b64enc] at hx

/-- the first character of a non-empty encoding is an alphabet character (never '=') -/
theorem b64enc_head (d : Bytes) (h : d ≠ []) : ∃ n, n < 64 ∧ (b64enc d).head? = some (b64char n) := by
  match d, h with
  | [a], _ =>
    exact ⟨(a.toNat * 65536) / 262144, by have := a.toNat_lt; omega, by rw [b64enc_one]; rfl⟩
  | [a, b], _ =>
    exact ⟨(a.toNat * 65536 + b.toNat * 256) / 262144, by have := a.toNat_lt; have := b.toNat_lt; omega,
      by rw [b64enc_two]; rfl⟩
  | a :: b :: c :: rest, _ =>
    exact ⟨(a.toNat * 65536 + b.toNat * 256 + c.toNat) / 262144,
      by have := a.toNat_lt; have := b.toNat_lt; have := c.toNat_lt; omega, by rw [b64enc_cons3]; rfl⟩

theorem bytes3_eq (a b c : UInt8) :
    bytes3 (a.toNat * 65536 + b.toNat * 256 + c.toNat) = [a, b, c] := by
  have ha := a.toNat_lt; have hb := b.toNat_lt; have hc := c.toNat_lt
  unfold bytes3
  have e1 : (a.toNat * 65536 + b.toNat * 256 + c.toNat) / 65536 = a.toNat := by omega
  have e2 : (a.toNat * 65536 + b.toNat * 256 + c.toNat) / 256 % 256 = b.toNat := by omega
  have e3 : (a.toNat * 65536 + b.toNat * 256 + c.toNat) % 256 = c.toNat := by omega
  rw [e1, e2, e3]
  simp

/-- **decode ∘ encode = id** for `Encoding.Decode` on a whole encoded buffer -/
theorem b64dec_enc (d : Bytes) : b64decBuf (b64enc d) = ⟨d, true⟩ := by
  induction d using list3_induct with
  | h3 a b c rest ih =>
    have ha := a.toNat_lt; have hb := b.toNat_lt; have hc := c.toNat_lt
    rw [b64enc_cons3, b64decBuf]
    rw [b64val_char _ (by omega), b64val_char _ (Nat.mod_lt _ (by decide)),
      b64val_char _ (Nat.mod_lt _ (by decide)), b64val_char _ (Nat.mod_lt _ (by decide))]
    simp only [ih]
    have : (a.toNat * 65536 + b.toNat * 256 + c.toNat) / 262144 * 262144 +
        (a.toNat * 65536 + b.toNat * 256 + c.toNat) / 4096 % 64 * 4096 +
        (a.toNat * 65536 + b.toNat * 256 + c.toNat) / 64 % 64 * 64 +
        (a.toNat * 65536 + b.toNat * 256 + c.toNat) % 64 = a.toNat * 65536 + b.toNat * 256 + c.toNat := by omega
    rw [this, bytes3_eq]
    rfl
  | h2 a b =>
    have ha := a.toNat_lt; have hb := b.toNat_lt
    rw [b64enc_two, b64decBuf]
    rw [b64val_char _ (by omega), b64val_char _ (Nat.mod_lt _ (by decide)),
      b64val_char _ (Nat.mod_lt _ (by decide)), b64val_pad]
    have : (a.toNat * 65536 + b.toNat * 256) / 262144 * 262144 +
        (a.toNat * 65536 + b.toNat * 256) / 4096 % 64 * 4096 +
        (a.toNat * 65536 + b.toNat * 256) / 64 % 64 * 64 = a.toNat * 65536 + b.toNat * 256 + (0 : UInt8).toNat := by
      simp; omega
    simp only [beq_self_eq_true, ↓reduceIte, List.isEmpty_nil]
    rw [this, bytes3_eq]
    rfl
  | h1 a =>
    have ha := a.toNat_lt
    rw [b64enc_one, b64decBuf]
    rw [b64val_char _ (by omega), b64val_char _ (Nat.mod_lt _ (by decide)), b64val_pad]
    have : (a.toNat * 65536) / 262144 * 262144 + (a.toNat * 65536) / 4096 % 64 * 4096 =
        a.toNat * 65536 + (0 : UInt8).toNat * 256 + (0 : UInt8).toNat := by
      simp; omega
    simp only [beq_self_eq_true, ↓reduceIte, List.isEmpty_nil]
    rw [this, bytes3_eq]
    rfl
  | h0 => rfl

theorem b64enc_length (d : Bytes) : (b64enc d).length = 4 * ((d.length + 2) / 3) := by
  induction d using list3_induct with
  | h3 a b c rest ih => rw [b64enc_cons3]; simp only [List.length_cons, ih]; omega
  | h2 a b => rw [b64enc_two]; simp
  | h1 a => rw [b64enc_one]; simp
  | h0 => rfl

/-- encoding distributes over a split at a multiple of three bytes -/
theorem b64enc_append (a b : Bytes) (h : a.length % 3 = 0) : b64enc (a ++ b) = b64enc a ++ b64enc b := by
  induction hl : a.length using Nat.strongRecOn generalizing a with
  | _ n ih =>
    match a, h with
    | [], _ => simp [b64enc]
    | [x], h => simp at h
    | [x, y], h => simp at h
    | x :: y :: z :: rest, h =>
      have hr : rest.length % 3 = 0 := by simp only [List.length_cons] at h; omega
      have := ih rest.length (by subst hl; simp only [List.length_cons]; omega) rest hr rfl
      simp only [List.cons_append, b64enc_cons3, this]

/-- the 64-character lines of the encoded text are the encodings of the 48-byte blocks of the body -/
theorem chunks_b64enc (body : Bytes) : chunks 64 (b64enc body) = (chunks 48 body).map b64enc := by
  induction hl : body.length using Nat.strongRecOn generalizing body with
  | _ n ih =>
    by_cases hb : body = []
    · subst hb; simp [b64enc, chunks_nil]
    · have hpos : 0 < body.length := List.length_pos_iff.mpr hb
      have hene : b64enc body ≠ [] := by
        intro h
        have := b64enc_length body
        rw [h] at this
        simp at this; omega
      rw [chunks_cons 64 _ (by decide) hene, chunks_cons 48 _ (by decide) hb]
      have hsplit : b64enc body = b64enc (body.take 48) ++ b64enc (body.drop 48) := by
        by_cases hge : 48 ≤ body.length
        · have : (body.take 48).length % 3 = 0 := by simp [List.length_take]; omega
          rw [← b64enc_append _ _ this, List.take_append_drop]
        · have h1 : body.take 48 = body := List.take_of_length_le (by omega)
          have h2 : body.drop 48 = [] := List.drop_eq_nil_of_le (by omega)
          rw [h1, h2]; simp [b64enc]
      have hlen : (b64enc (body.take 48)).length ≤ 64 := by
        rw [b64enc_length]; simp only [List.length_take]; omega
      have hfull : body.drop 48 ≠ [] → (b64enc (body.take 48)).length = 64 := by
        intro hd
        have : 48 < body.length := by
          have := List.length_pos_iff.mpr hd
          simp only [List.length_drop] at this; omega
        rw [b64enc_length]; simp only [List.length_take]; omega
      have htake : (b64enc body).take 64 = b64enc (body.take 48) := by
        rw [hsplit]
        by_cases hd : body.drop 48 = []
        · rw [hd]; simp only [b64enc, List.append_nil]
          exact List.take_of_length_le hlen
        · rw [List.take_append_of_le_length (by rw [hfull hd]; exact Nat.le_refl _)]
          exact List.take_of_length_le hlen
      have hdrop : (b64enc body).drop 64 = b64enc (body.drop 48) := by
        rw [hsplit]
        by_cases hd : body.drop 48 = []
        · rw [hd]; simp only [b64enc, List.append_nil]
          exact List.drop_eq_nil_of_le hlen
        · have := hfull hd
          rw [List.drop_append_of_le_length (by omega)]
          rw [List.drop_eq_nil_of_le (by omega)]; simp
      rw [htake, hdrop]
      have := ih (body.drop 48).length (by subst hl; simp only [List.length_drop]; omega) (body.drop 48) rfl
      rw [this]
      simp

end XC.C46
