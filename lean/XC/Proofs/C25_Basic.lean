/-
  C25 helper lemmas: keystream application (split-invariance, involution), padding arithmetic,
  incIV, big-endian length fields.
-/
import XC.Model.C25
namespace XC.C25

/-! ## keystream -/

theorem ksRange_length (ks : Nat → UInt8) (pos n : Nat) : (ksRange ks pos n).length = n := by
  simp [ksRange]

theorem ksRange_add (ks : Nat → UInt8) (pos a b : Nat) :
    ksRange ks pos (a + b) = ksRange ks pos a ++ ksRange ks (pos + a) b := by
  simp only [ksRange, ← List.map_append]
  congr 1
  exact (List.range'_append_1 (s := pos) (m := a) (n := b)).symm

theorem xorBytes_append (a b k1 k2 : Bytes) (h : a.length = k1.length) :
    xorBytes (a ++ b) (k1 ++ k2) = xorBytes a k1 ++ xorBytes b k2 := by
  simp [xorBytes, List.zipWith_append h]

theorem xorAt_length (ks : Nat → UInt8) (pos : Nat) (d : Bytes) : (xorAt ks pos d).length = d.length := by
  simp [xorAt, xorBytes, ksRange_length]

/-- split-invariance: XORKeyStream over `a ++ b` = XORKeyStream over `a`, then over `b` (Gen.Stream) -/
theorem xorAt_append (ks : Nat → UInt8) (pos : Nat) (a b : Bytes) :
    xorAt ks pos (a ++ b) = xorAt ks pos a ++ xorAt ks (pos + a.length) b := by
  simp only [xorAt, List.length_append, ksRange_add]
  exact xorBytes_append a b _ _ (by simp [ksRange_length])

theorem xor_xor_cancel (a k : UInt8) : (a ^^^ k) ^^^ k = a := by
  rw [UInt8.xor_assoc, UInt8.xor_self, UInt8.xor_zero]

theorem xorBytes_involutive (d k : Bytes) (h : d.length ≤ k.length) : xorBytes (xorBytes d k) k = d := by
  induction d generalizing k with
  | nil => simp [xorBytes]
  | cons a d ih =>
    cases k with
    | nil => simp at h
    | cons b k =>
      simp only [xorBytes, List.zipWith_cons_cons, xor_xor_cancel, List.cons.injEq, true_and]
      exact ih k (by simpa using h)

/-- decrypting at the same keystream position undoes encrypting -/
theorem xorAt_involutive (ks : Nat → UInt8) (pos : Nat) (d : Bytes) : xorAt ks pos (xorAt ks pos d) = d := by
  simp only [xorAt, xorBytes_length, ksRange_length, Nat.min_self]
  exact xorBytes_involutive d _ (by simp [ksRange_length])

theorem xorBytes_length' (a b : Bytes) (h : a.length ≤ b.length) : (xorBytes a b).length = a.length := by
  simp [xorBytes_length]; omega

/-! ## padding arithmetic (all by omega) -/

/-- streamPacketCipher: 4 ≤ padding ≤ 19 (so it fits the length byte and the 32-byte padding buffer), and the
    packet without the unencrypted part (`aadlen` = 4 for EtM, else 0) is a multiple of 16 -/
theorem streamPadLen_spec (n aadlen : Nat) (h : aadlen ≤ 4) :
    4 ≤ streamPadLen n aadlen ∧ streamPadLen n aadlen ≤ 19 ∧
    (4 + 1 + n + streamPadLen n aadlen - aadlen) % 16 = 0 := by
  unfold streamPadLen
  simp only
  split <;> omega

theorem gcmPadLen_spec (n : Nat) :
    4 ≤ gcmPadLen n ∧ gcmPadLen n ≤ 19 ∧ (1 + n + gcmPadLen n) % 16 = 0 := by
  unfold gcmPadLen
  simp only
  split <;> omega

theorem chaPadLen_spec (n : Nat) :
    4 ≤ chaPadLen n ∧ chaPadLen n ≤ 11 ∧ (1 + n + chaPadLen n) % 8 = 0 := by
  unfold chaPadLen
  simp only
  split <;> omega

/-- cbcCipher (block size 8 or 16): total encrypted length is a multiple of max(8, bs), at least 16,
    padding between 4 and 255 -/
theorem cbcEncLen_spec (bs n : Nat) (hbs : bs = 8 ∨ bs = 16) :
    let e := cbcEncLen bs n
    e % (max 8 bs) = 0 ∧ 16 ≤ e ∧ 5 + n + 4 ≤ e ∧ e < 5 + n + 4 + max 8 bs + 7 ∧
    4 ≤ e - 4 - (1 + n) ∧ e - 4 - (1 + n) ≤ 255 := by
  simp only [cbcEncLen]
  have h8 : max 8 8 = 8 := rfl
  have h16 : max 8 16 = 16 := rfl
  rcases hbs with h | h <;> subst h <;> simp only [h8, h16] <;> rw [Nat.max_def] <;> split <;> omega

/-! ## incIV -/

theorem incLE_length (bs : Bytes) : (incLE bs).length = bs.length := by
  induction bs with
  | nil => rfl
  | cons b r ih => simp only [incLE]; split <;> simp [ih]

theorem u8_add_one_eq_zero (b : UInt8) : (b + 1 == 0) = decide (b.toNat = 255) := by
  have h : ∀ n : Fin 256, ((UInt8.ofNat n.val) + 1 == 0) = decide ((UInt8.ofNat n.val).toNat = 255) := by
    decide +kernel
  have := h ⟨b.toNat, b.toNat_lt⟩
  simpa using this

theorem u8_add_one_toNat (b : UInt8) (h : b.toNat ≠ 255) : (b + 1).toNat = b.toNat + 1 := by
  have hb := b.toNat_lt
  rw [UInt8.toNat_add]; simp; omega

/-- incLE is +1 modulo 256^len on the little-endian value -/
theorem natOfLE_incLE (bs : Bytes) : natOfLE (incLE bs) = (natOfLE bs + 1) % 256 ^ bs.length := by
  induction bs with
  | nil => simp [incLE, natOfLE, Nat.mod_one]
  | cons b r ih =>
    have hlt : natOfLE r < 256 ^ r.length := by
      clear ih
      induction r with
      | nil => simp [natOfLE]
      | cons c r ih2 =>
        simp only [natOfLE, List.length_cons, Nat.pow_succ]
        have := c.toNat_lt; omega
    simp only [incLE, u8_add_one_eq_zero]
    have hb := b.toNat_lt
    by_cases h : b.toNat = 255
    · simp only [h, decide_true, if_true, natOfLE, ih, List.length_cons, Nat.pow_succ]
      have h0 : (0 : UInt8).toNat = 0 := rfl
      rw [h0]
      have hp : 0 < 256 ^ r.length := Nat.pow_pos (by omega)
      by_cases hw : natOfLE r + 1 = 256 ^ r.length
      · rw [hw, Nat.mod_self]
        have : 255 + 256 * natOfLE r + 1 = 256 ^ r.length * 256 := by omega
        rw [this, Nat.mod_self]
      · rw [Nat.mod_eq_of_lt (by omega : natOfLE r + 1 < 256 ^ r.length)]
        rw [Nat.mod_eq_of_lt (by omega)]
        omega
    · simp only [h, decide_false, Bool.false_eq_true, if_false, natOfLE, List.length_cons, Nat.pow_succ,
        u8_add_one_toNat b h]
      rw [Nat.mod_eq_of_lt (by omega)]
      omega

end XC.C25
