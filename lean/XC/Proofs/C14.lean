/-
  C14 — generic lemmas about the MD-style streaming engine (`blocksGo`, `write`, `sum`).
-/
import XC.Model.C14
namespace XC.C14

variable {σ : Type}

/-! ### `_Block` loop -/

theorem blocksGo_short (f : σ → Bytes → σ) (s : σ) (p : Bytes) (h : p.length < 64) :
    blocksGo f s p = (s, p) := by
  rw [blocksGo]; simp; omega

theorem blocksGo_long (f : σ → Bytes → σ) (s : σ) (p : Bytes) (h : 64 ≤ p.length) :
    blocksGo f s p = blocksGo f (f s (p.take 64)) (p.drop 64) := by
  rw [blocksGo]; simp [h]

theorem blocksGo_tail_lt (f : σ → Bytes → σ) (s : σ) (p : Bytes) :
    (blocksGo f s p).2.length < 64 := by
  fun_induction blocksGo f s p with
  | case1 s p h ih => exact ih
  | case2 s p h => simp; omega

theorem blocksGo_block_append (f : σ → Bytes → σ) (s : σ) (b p : Bytes) (h : b.length = 64) :
    blocksGo f s (b ++ p) = blocksGo f (f s b) p := by
  rw [blocksGo_long f s (b ++ p) (by simp; omega)]
  have h1 : (b ++ p).take 64 = b := by
    rw [List.take_append_of_le_length (by omega)]; exact List.take_of_length_le (by omega)
  have h2 : (b ++ p).drop 64 = p := by
    rw [← h]; exact List.drop_left
  rw [h1, h2]

/-- absorbing `a ++ b` = absorbing `a`, then absorbing (leftover of `a`) ++ `b` -/
theorem blocksGo_append (f : σ → Bytes → σ) (s : σ) (a b : Bytes) :
    blocksGo f s (a ++ b) = blocksGo f (blocksGo f s a).1 ((blocksGo f s a).2 ++ b) := by
  fun_induction blocksGo f s a with
  | case1 s a h ih =>
    rw [blocksGo_long f s (a ++ b) (by simp; omega)]
    have h1 : (a ++ b).take 64 = a.take 64 := List.take_append_of_le_length h
    have h2 : (a ++ b).drop 64 = a.drop 64 ++ b := List.drop_append_of_le_length h
    rw [h1, h2]; exact ih
  | case2 s a h => rfl

/-- on a whole number of blocks `_Block` is the fold of the compression function over `chunks 64` -/
theorem blocksGo_chunks (f : σ → Bytes → σ) (s : σ) (m : Bytes) (h : m.length % 64 = 0) :
    blocksGo f s m = ((chunks 64 m).foldl f s, []) := by
  fun_induction blocksGo f s m with
  | case1 s m hl ih =>
    have hne : m.isEmpty = false := by
      cases m with
      | nil => simp at hl
      | cons => rfl
    rw [chunks]
    simp only [hne]
    simp only [Nat.reduceEqDiff, ↓reduceDIte, Bool.false_eq_true, ↓reduceIte, List.foldl_cons]
    apply ih
    simp only [List.length_drop]; omega
  | case2 s m hl =>
    have : m = [] := by
      cases m with
      | nil => rfl
      | cons a t => simp at hl h; omega
    subst this
    rw [chunks]; simp

/-! ### `Write` -/

/-- `Write` = append to the buffered tail, absorb all whole blocks, keep the rest -/
theorem write_eq (alg : MD σ) (d : Digest σ) (p : Bytes) (hx : d.x.length < 64) :
    write alg d p =
      ⟨(blocksGo alg.block d.s (d.x ++ p)).1, (blocksGo alg.block d.s (d.x ++ p)).2,
        d.len + UInt64.ofNat p.length⟩ := by
  unfold write
  by_cases h0 : 0 < d.x.length
  · simp only [h0, ↓reduceIte]
    by_cases hp : p.length > 64 - d.x.length
    · -- top-up fills the block
      simp only [hp, ↓reduceIte]
      have hl : (d.x ++ List.take (64 - d.x.length) p).length = 64 := by
        simp only [List.length_append, List.length_take]; omega
      simp only [hl, ↓reduceIte]
      have hsplit : d.x ++ p = (d.x ++ p.take (64 - d.x.length)) ++ p.drop (64 - d.x.length) := by
        rw [List.append_assoc, List.take_append_drop]
      rw [hsplit, blocksGo_block_append _ _ _ _ hl]
      generalize blocksGo alg.block _ _ = r
      obtain ⟨s2, rest⟩ := r
      cases rest <;> simp
    · simp only [hp, ↓reduceIte, List.take_length, List.drop_length]
      by_cases hl : (d.x ++ p).length = 64
      · simp only [hl, ↓reduceIte]
        have := blocksGo_block_append alg.block d.s (d.x ++ p) [] hl
        rw [List.append_nil] at this
        rw [this, blocksGo_short _ _ [] (by simp)]
        simp
      · simp only [hl, ↓reduceIte]
        have hlt : (d.x ++ p).length < 64 := by
          simp only [List.length_append] at hl ⊢; omega
        rw [blocksGo_short _ _ (d.x ++ p) hlt, blocksGo_short _ _ [] (by simp)]
        simp
  · have hnil : d.x = [] := by
      cases hd : d.x with
      | nil => rfl
      | cons a t => rw [hd] at h0; simp at h0
    simp only [hnil, List.length_nil, Nat.lt_irrefl, ↓reduceIte, List.nil_append]
    generalize blocksGo alg.block _ _ = r
    obtain ⟨s2, rest⟩ := r
    cases rest <;> simp

theorem write_x_lt (alg : MD σ) (d : Digest σ) (p : Bytes) (hx : d.x.length < 64) :
    (write alg d p).x.length < 64 := by
  rw [write_eq alg d p hx]; exact blocksGo_tail_lt _ _ _

/-- two Writes = one Write of the concatenation -/
theorem write_write (alg : MD σ) (d : Digest σ) (a b : Bytes) (hx : d.x.length < 64) :
    write alg (write alg d a) b = write alg d (a ++ b) := by
  rw [write_eq alg (write alg d a) b (write_x_lt alg d a hx), write_eq alg d a hx,
    write_eq alg d (a ++ b) hx]
  simp only
  rw [← List.append_assoc, blocksGo_append alg.block d.s (d.x ++ a) b]
  simp only [List.length_append, UInt64.ofNat_add, UInt64.add_assoc]

/-- any chunking of Writes = one Write of the concatenation -/
theorem foldl_write (alg : MD σ) (d : Digest σ) (cs : List Bytes) (hx : d.x.length < 64) :
    cs.foldl (write alg) d = write alg d cs.flatten := by
  induction cs generalizing d with
  | nil =>
    simp only [List.foldl_nil, List.flatten_nil]
    rw [write_eq alg d [] hx, List.append_nil, blocksGo_short _ _ _ hx]
    simp
  | cons c cs ih =>
    simp only [List.foldl_cons, List.flatten_cons]
    rw [ih (write alg d c) (write_x_lt alg d c hx), write_write alg d c _ hx]

/-! ### the state reached after writing message `m` from `Reset` -/

/-- the digest state that corresponds to "message `m` written since Reset" -/
def stateOf (alg : MD σ) (m : Bytes) : Digest σ :=
  ⟨(blocksGo alg.block alg.init m).1, (blocksGo alg.block alg.init m).2, UInt64.ofNat m.length⟩

theorem stateOf_nil (alg : MD σ) : stateOf alg [] = reset alg := by
  simp [stateOf, reset, blocksGo_short]

theorem stateOf_x_lt (alg : MD σ) (m : Bytes) : (stateOf alg m).x.length < 64 :=
  blocksGo_tail_lt _ _ _

theorem write_stateOf (alg : MD σ) (m p : Bytes) :
    write alg (stateOf alg m) p = stateOf alg (m ++ p) := by
  rw [write_eq alg _ p (stateOf_x_lt alg m)]
  simp only [stateOf]
  rw [← blocksGo_append]
  simp [UInt64.ofNat_add]

end XC.C14
