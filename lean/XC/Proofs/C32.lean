/-
  C32 — lemma layer: what each piece of the auth-loop model can return.
-/
import XC.Model.C32
namespace XC.C32

/-! ## outcome plumbing -/

theorem split_ok {o : Outcome} {n : Nat} (h : (o.split n).2 = .ok) : o = .accept (o.split n).1 := by
  cases o <;> simp [Outcome.split] at h ⊢

theorem saFilter_ok {cfg : Cfg} {perms : Nat} {e : AuthErr} :
    saFilter cfg perms e = .ok ↔ e = .ok ∧ cfg.saOk perms = true := by
  unfold saFilter
  cases e <;> cases h : cfg.saOk perms <;> simp

theorem saFilter_partial {cfg : Cfg} {perms : Nat} {e : AuthErr} {nx : Cbs} {g : Nat} :
    saFilter cfg perms e = .partialOk nx g ↔ e = .partialOk nx g := by
  unfold saFilter
  cases e <;> cases h : cfg.saOk perms <;> simp

/-! ## conclude / finish -/

theorem conclude_ok {cfg : Cfg} {st : St} {r : Req} {evs evs' : List Ev} {perms p : Nat} {e : AuthErr}
    (h : conclude cfg st r evs perms e = .done evs' (.ok p)) :
    e = .ok ∧ perms = p ∧ evs' = evs ++ [Ev.sendSuccess] := by
  unfold conclude at h
  cases e with
  | ok => simp at h; simp [h]
  | partialOk nx g => simp at h; (repeat' split at h) <;> simp at h
  | fail => simp at h; (repeat' split at h) <;> simp at h
  | bannerFail b => simp at h; (repeat' split at h) <;> simp at h

theorem finish_ok {cfg : Cfg} {st : St} {r : Req} {evs evs' : List Ev} {perms p : Nat} {e : AuthErr}
    (h : finish cfg st r evs perms e = .done evs' (.ok p)) :
    e = .ok ∧ perms = p ∧ cfg.saOk p = true ∧ evs' = evs ++ [Ev.log r.method .ok, Ev.sendSuccess] := by
  unfold finish at h
  obtain ⟨h1, h2, h3⟩ := conclude_ok h
  obtain ⟨he, hs⟩ := saFilter_ok.mp h1
  subst h2
  refine ⟨he, rfl, hs, ?_⟩
  rw [h3, h1]
  simp [logEvs, AuthErr.logRes]

/-! ## publickey -/

theorem cacheGet_some {c : Option Cached} {u : String} {k : Nat} {x : Cached}
    (h : cacheGet c u k = some x) : c = some x ∧ x.user = u ∧ x.key = k := by
  unfold cacheGet at h
  cases c with
  | none => simp at h
  | some y =>
    simp at h
    obtain ⟨⟨h1, h2⟩, h3⟩ := h
    subst h3
    exact ⟨rfl, h1, h2⟩

/-- `pkPre` never yields success: it either lets the request through or ends it as a failure / hard error -/
theorem pkPre_some {cfg : Cfg} {st : St} {r : Req} {ph : Phase} (h : pkPre cfg st r = some ph) :
    ph = .hard [] ∨ ph = .res st [] 0 .fail := by
  unfold pkPre at h
  grind

theorem pkPre_none {cfg : Cfg} {st : St} {r : Req} (h : pkPre cfg st r = none) :
    st.cbs.pk = true ∧ r.pk.payloadEmpty = false ∧ r.pk.algoOk = true ∧
    cfg.algos.contains (underlyingAlgo r.pk.algo) = true ∧ r.pk.keyOk = true ∧ r.pk.keyParses = true := by
  unfold pkPre at h
  cases h1 : st.cbs.pk <;> cases h2 : r.pk.payloadEmpty <;> cases h3 : r.pk.algoOk <;>
    cases h4 : cfg.algos.contains (underlyingAlgo r.pk.algo) <;> cases h5 : r.pk.keyOk <;>
    cases h6 : r.pk.keyParses <;> simp_all

/-- the candidate used for a publickey request: a cache hit for exactly (user, key), or the
    PublicKeyCallback just invoked for (user, key) whose result went through the source-address check -/
theorem pkLookup_some {cfg : Cfg} {st st' : St} {r : Req} {cand : Cached} {evs : List Ev}
    (h : pkLookup cfg st r = some (cand, st', evs)) :
    cand.user = st.user ∧ cand.key = r.pk.key ∧ st'.cache = some cand ∧
    ((st.cache = some cand ∧ st' = st ∧ evs = []) ∨
     (cacheGet st.cache st.user r.pk.key = none ∧ st' = { st with cache := some cand } ∧
      evs = [Ev.cbPk st.gen st.user r.pk.key r.cb] ∧ cand.perms = (r.cb.split st.attempts).1 ∧
      (cand.result = .ok → r.cb = .accept cand.perms ∧ cfg.saOk cand.perms = true) ∧
      (∀ nx g, cand.result = .partialOk nx g → g = st.attempts ∧ r.cb = .partialOk nx cand.perms ∧ cfg.verifiedCb = false))) := by
  unfold pkLookup at h
  split at h
  · rename_i c hc
    simp at h
    obtain ⟨h1, h2, h3⟩ := h
    subst h1 h2 h3
    obtain ⟨a, b, c⟩ := cacheGet_some hc
    exact ⟨b, c, a, Or.inl ⟨a, rfl, rfl⟩⟩
  · rename_i hc
    simp only [] at h
    split at h
    · simp at h
    · rename_i hv
      simp at h
      obtain ⟨h1, h2, h3⟩ := h
      subst h1 h2 h3
      refine ⟨rfl, rfl, rfl, Or.inr ⟨hc, rfl, rfl, rfl, ?_, ?_⟩⟩
      · intro hr
        cases hcb : r.cb <;> simp [hcb, Outcome.split, AuthErr.okOrPartial] at hr ⊢
        · rename_i p; cases hs : cfg.saOk p <;> simp [hs] at hr ⊢
        · rename_i nx p; cases hs : cfg.saOk p <;> simp [hs] at hr
      · intro nx g hr
        cases hcb : r.cb <;> simp [hcb, Outcome.split, AuthErr.okOrPartial, AuthErr.isPartial] at hr hv ⊢
        · rename_i p; cases hs : cfg.saOk p <;> simp [hs] at hr
        · rename_i nx' p; cases hs : cfg.saOk p <;> simp [hs] at hr
          simp [hr, hv]

/-! ## the specification: what it means for a request to satisfy its method -/

/-- a publickey signature request the server may accept when the PublicKeyCallback decision in
    force carries permissions `pkPerms` (they decide, via no-touch-required, which Verify applies) -/
def PkGood (cfg : Cfg) (r : Req) (pkPerms : Nat) : Prop :=
  r.pk.isQuery = false ∧ r.pk.keyParses = true ∧ r.pk.sigParses = true ∧
  underlyingAlgo r.pk.algo ∈ cfg.algos ∧
  r.pk.algo ∈ algorithmsForKeyFormat r.pk.keyType ∧
  r.pk.sigFormat ∈ cfg.algos ∧
  isAlgoCompatible r.pk.algo r.pk.sigFormat = true ∧
  sigOk cfg r.pk pkPerms = true

/-- the PublicKeyCallback decision for this request: a cached accept for exactly this user and
    these key bytes, or an accept returned on this very request (cache miss), in both cases with
    the source-address option of the returned permissions satisfied -/
def PkAccepted (cfg : Cfg) (st : St) (r : Req) (pkPerms : Nat) : Prop :=
  st.cache = some ⟨r.user, r.pk.key, .ok, pkPerms⟩ ∨
  (cacheGet st.cache r.user r.pk.key = none ∧ r.cb = .accept pkPerms ∧ cfg.saOk pkPerms = true)

/-- request `r`, arriving in state `st`, satisfies its authentication method and yields permissions `p` -/
def Satisfied (cfg : Cfg) (st : St) (r : Req) (p : Nat) : Prop :=
  (r.method = "none" ∧ cfg.noClientAuth = true ∧ st.partialRet = false ∧
     ((cfg.noClientAuthCb = true ∧ r.cb = .accept p) ∨ (cfg.noClientAuthCb = false ∧ p = 0))) ∨
  (r.method = "password" ∧ st.cbs.pw = true ∧ r.pwShape = .ok ∧ r.cb = .accept p) ∨
  (r.method = "keyboard-interactive" ∧ st.cbs.kbd = true ∧ r.cb = .accept p) ∨
  (r.method = "publickey" ∧ st.cbs.pk = true ∧ ∃ pkPerms, PkGood cfg r pkPerms ∧ PkAccepted cfg st r pkPerms ∧
     ((cfg.verifiedCb = true ∧ r.vcb = .accept p) ∨ (cfg.verifiedCb = false ∧ p = pkPerms)))

theorem pkDecide_ok {cfg : Cfg} {st st' : St} {r : Req} {cand : Cached} {evs evs' : List Ev} {perms : Nat}
    (h : pkDecide cfg st r cand evs = .res st' evs' perms .ok) :
    st' = st ∧ r.pk.isQuery = false ∧ r.pk.sigParses = true ∧
    r.pk.algo ∈ algorithmsForKeyFormat r.pk.keyType ∧ r.pk.sigFormat ∈ cfg.algos ∧
    isAlgoCompatible r.pk.algo r.pk.sigFormat = true ∧ sigOk cfg r.pk cand.perms = true ∧
    cand.result = .ok ∧
    ((cfg.verifiedCb = true ∧ r.vcb = .accept perms ∧
        evs' = evs ++ [Ev.cbVpk st.user r.pk.key cand.perms r.pk.sigFormat r.vcb]) ∨
     (cfg.verifiedCb = false ∧ perms = cand.perms ∧ evs' = evs)) := by
  unfold pkDecide at h
  cases hq : r.pk.isQuery <;> simp [hq] at h
  · cases h1 : r.pk.sigParses <;> simp [h1] at h
    by_cases h2 : r.pk.algo ∈ algorithmsForKeyFormat r.pk.keyType <;> simp [h2] at h
    by_cases h3 : r.pk.sigFormat ∈ cfg.algos <;> simp [h3] at h
    cases h4 : isAlgoCompatible r.pk.algo r.pk.sigFormat <;> simp [h4] at h
    cases h5 : sigOk cfg r.pk cand.perms <;> simp [h5] at h
    by_cases h6 : cand.result = .ok
    · cases h7 : cfg.verifiedCb <;> simp [h6, h7] at h
      · obtain ⟨a, b, c⟩ := h
        exact ⟨a.symm, rfl, rfl, h2, h3, rfl, rfl, h6, Or.inr ⟨rfl, c.symm, b.symm⟩⟩
      · obtain ⟨a, b, c, d⟩ := h
        have := split_ok d
        rw [c] at this
        exact ⟨a.symm, rfl, rfl, h2, h3, rfl, rfl, h6, Or.inl ⟨rfl, this, b.symm⟩⟩
    · simp [h6] at h
  · (repeat' split at h) <;> simp at h
    rename_i hx hy
    simp [h.2.2.2, AuthErr.okOrPartial] at hy

theorem pkPhase_ok {cfg : Cfg} {st st' : St} {r : Req} {evs : List Ev} {perms : Nat}
    (hu : st.user = r.user) (h : pkPhase cfg st r = .res st' evs perms .ok) :
    st.cbs.pk = true ∧ ∃ pkPerms, PkGood cfg r pkPerms ∧ PkAccepted cfg st r pkPerms ∧
     ((cfg.verifiedCb = true ∧ r.vcb = .accept perms) ∨ (cfg.verifiedCb = false ∧ perms = pkPerms)) := by
  unfold pkPhase at h
  split at h
  · rename_i ph hp
    rcases pkPre_some hp with h1 | h1 <;> simp [h1] at h
  · rename_i hp
    obtain ⟨p1, p2, p3, p4, p5, p6⟩ := pkPre_none hp
    split at h
    · simp at h
    · rename_i cand st2 evs2 hl
      obtain ⟨l1, l2, l3, l4⟩ := pkLookup_some hl
      obtain ⟨d1, d2, d3, d4, d5, d6, d7, d8, d9⟩ := pkDecide_ok h
      refine ⟨p1, cand.perms, ⟨d2, p6, d3, by simpa using p4, d4, d5, d6, d7⟩, ?_, ?_⟩
      · rcases l4 with ⟨a, _, _⟩ | ⟨a, _, _, _, b, _⟩
        · left
          rw [a]
          cases cand
          simp_all
        · right
          exact ⟨hu ▸ a, (b d8).1, (b d8).2⟩
      · rcases d9 with ⟨a, b, _⟩ | ⟨a, b, _⟩
        · exact Or.inl ⟨a, b⟩
        · exact Or.inr ⟨a, b⟩

theorem methodPhase_ok {cfg : Cfg} {st st' : St} {r : Req} {evs : List Ev} {perms : Nat}
    (hu : st.user = r.user) (h : methodPhase cfg st r = .res st' evs perms .ok) :
    Satisfied cfg st r perms := by
  unfold methodPhase at h
  split at h
  · rename_i hm
    left
    unfold nonePhase at h
    simp at hm
    cases h1 : cfg.noClientAuth <;> cases h2 : st.partialRet <;> cases h3 : cfg.noClientAuthCb <;> simp [h1, h2, h3] at h
    · exact ⟨hm, rfl, rfl, Or.inr ⟨rfl, h.2.2.symm⟩⟩
    · have := split_ok h.2.2.2
      rw [h.2.2.1] at this
      exact ⟨hm, rfl, rfl, Or.inl ⟨rfl, this⟩⟩
  · split at h
    · rename_i hm
      right; left
      simp at hm
      unfold pwPhase at h
      cases h1 : st.cbs.pw <;> simp [h1] at h
      by_cases h2 : r.pwShape = .ok <;> simp [h2] at h
      have := split_ok h.2.2.2
      rw [h.2.2.1] at this
      exact ⟨hm, rfl, h2, this⟩
    · split at h
      · rename_i hm
        right; right; left
        simp at hm
        unfold kbdPhase at h
        cases h1 : st.cbs.kbd <;> simp [h1] at h
        have := split_ok h.2.2.2
        rw [h.2.2.1] at this
        exact ⟨hm, rfl, this⟩
      · split at h
        · rename_i hm
          right; right; right
          simp at hm
          obtain ⟨a, b⟩ := pkPhase_ok hu h
          exact ⟨hm, a, b⟩
        · simp at h

/-! ## one loop iteration -/

theorem bannerPhase_fields (cfg : Cfg) (st : St) :
    (bannerPhase cfg st).1 = { st with bannerCalled := (bannerPhase cfg st).1.bannerCalled } := by
  unfold bannerPhase
  split
  · split <;> rfl
  · rfl

theorem Satisfied_congr {cfg : Cfg} {st1 st2 : St} {r : Req} {p : Nat}
    (h1 : st1.cache = st2.cache) (h2 : st1.cbs = st2.cbs) (h3 : st1.partialRet = st2.partialRet)
    (h : Satisfied cfg st1 r p) : Satisfied cfg st2 r p := by
  unfold Satisfied PkAccepted at *
  rw [h1, h2, h3] at h
  exact h

/-- a request that ends the loop with success satisfied its method (statement: `Satisfied`) -/
theorem step_ok_sound {cfg : Cfg} {st : St} {r : Req} {evs : List Ev} {p : Nat}
    (h : step cfg st r = .done evs (.ok p)) :
    r.service = "ssh-connection" ∧ (st.partialRet = true → st.user = r.user) ∧
    cfg.saOk p = true ∧ Satisfied cfg st r p := by
  unfold step at h
  by_cases hs : r.service = "ssh-connection"
  case neg => simp [hs] at h
  by_cases hu : st.partialRet = true → st.user = r.user
  case neg =>
    have : (st.user != r.user && st.partialRet) = true := by
      simp only [Classical.not_imp] at hu
      simp [hu.1, hu.2]
    simp [hs, this] at h
  have hg : (st.user != r.user && st.partialRet) = false := by
    cases hp : st.partialRet
    · simp
    · simp [hu hp]
  simp only [hs, hg] at h
  simp at h
  generalize hsb : bannerPhase cfg { st with user := r.user } = sb at h
  have hf := bannerPhase_fields cfg { st with user := r.user }
  rw [hsb] at hf
  split at h
  · simp at h
  · simp at h
  · rename_i st2 evs2 perms e hm
    split at h
    · rename_i evs3 f hfin
      simp at h
      obtain ⟨_, hfp⟩ := h
      subst hfp
      obtain ⟨f1, f2, f3, _⟩ := finish_ok hfin
      subst f1 f2
      have hu2 : sb.1.user = r.user := by rw [hf]
      have := methodPhase_ok hu2 hm
      refine ⟨hs, hu, f3, Satisfied_congr ?_ ?_ ?_ this⟩ <;> rw [hf]
    · simp at h

end XC.C32
