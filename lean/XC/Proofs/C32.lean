/-
  C32 — lemma layer: what each piece of the auth-loop model can return.
-/
import XC.Model.C32
namespace XC.C32

/-! ## outcome plumbing -/

theorem split_ok {o : Outcome} {n : Nat} (h : (o.split n).2 = .ok) : o = .accept (o.split n).1 := by
  cases o <;> simp [Outcome.split] at h ⊢

theorem saFilter_ok {cfg : Cfg} {perms : Nat} {e : AuthErr} :
    saFilter cfg perms e = .ok ↔ e = .ok ∧ cfg.saOk perms = true := by
  unfold saFilter
  cases e <;> cases h : cfg.saOk perms <;> simp

theorem saFilter_partial {cfg : Cfg} {perms : Nat} {e : AuthErr} {nx : Cbs} {g : Nat} :
    saFilter cfg perms e = .partialOk nx g ↔ e = .partialOk nx g := by
  unfold saFilter
  cases e <;> cases h : cfg.saOk perms <;> simp

/-! ## conclude / finish -/

theorem conclude_ok {cfg : Cfg} {st : St} {r : Req} {evs evs' : List Ev} {perms p : Nat} {e : AuthErr}
    (h : conclude cfg st r evs perms e = .done evs' (.ok p)) :
    e = .ok ∧ perms = p ∧ evs' = evs ++ [Ev.sendSuccess] := by
  unfold conclude at h
  cases e with
  | ok => simp at h; simp [h]
  | partialOk nx g => simp at h; (repeat' split at h) <;> simp at h
  | fail => simp at h; (repeat' split at h) <;> simp at h
  | bannerFail b => simp at h; (repeat' split at h) <;> simp at h

theorem finish_ok {cfg : Cfg} {st : St} {r : Req} {evs evs' : List Ev} {perms p : Nat} {e : AuthErr}
    (h : finish cfg st r evs perms e = .done evs' (.ok p)) :
    e = .ok ∧ perms = p ∧ cfg.saOk p = true ∧ evs' = evs ++ [Ev.log r.method .ok, Ev.sendSuccess] := by
  unfold finish at h
  obtain ⟨h1, h2, h3⟩ := conclude_ok h
  obtain ⟨he, hs⟩ := saFilter_ok.mp h1
  subst h2
  refine ⟨he, rfl, hs, ?_⟩
  rw [h3, h1]
  simp [logEvs, AuthErr.logRes]

/-! ## publickey -/

theorem cacheGet_some {c : Option Cached} {u : String} {k : Nat} {x : Cached}
    (h : cacheGet c u k = some x) : c = some x ∧ x.user = u ∧ x.key = k := by
  unfold cacheGet at h
  cases c with
  | none => simp at h
  | some y =>
    simp at h
    obtain ⟨⟨h1, h2⟩, h3⟩ := h
    subst h3
    exact ⟨rfl, h1, h2⟩

/-- `pkPre` never yields success: it either lets the request through or ends it as a failure / hard error -/
theorem pkPre_some {cfg : Cfg} {st : St} {r : Req} {ph : Phase} (h : pkPre cfg st r = some ph) :
    ph = .hard [] ∨ ph = .res st [] 0 .fail := by
  unfold pkPre at h
  grind

theorem pkPre_none {cfg : Cfg} {st : St} {r : Req} (h : pkPre cfg st r = none) :
    st.cbs.pk = true ∧ r.pk.payloadEmpty = false ∧ r.pk.algoOk = true ∧
    cfg.algos.contains (underlyingAlgo r.pk.algo) = true ∧ r.pk.keyOk = true ∧ r.pk.keyParses = true := by
  unfold pkPre at h
  cases h1 : st.cbs.pk <;> cases h2 : r.pk.payloadEmpty <;> cases h3 : r.pk.algoOk <;>
    cases h4 : cfg.algos.contains (underlyingAlgo r.pk.algo) <;> cases h5 : r.pk.keyOk <;>
    cases h6 : r.pk.keyParses <;> simp_all

/-- the candidate used for a publickey request: a cache hit for exactly (user, key), or the
    PublicKeyCallback just invoked for (user, key) whose result went through the source-address check -/
theorem pkLookup_some {cfg : Cfg} {st st' : St} {r : Req} {cand : Cached} {evs : List Ev}
    (h : pkLookup cfg st r = some (cand, st', evs)) :
    cand.user = st.user ∧ cand.key = r.pk.key ∧ st'.cache = some cand ∧
    ((st.cache = some cand ∧ st' = st ∧ evs = []) ∨
     (cacheGet st.cache st.user r.pk.key = none ∧ st' = { st with cache := some cand } ∧
      evs = [Ev.cbPk st.gen st.user r.pk.key r.cb] ∧ cand.perms = (r.cb.split st.attempts).1 ∧
      (cand.result = .ok → r.cb = .accept cand.perms ∧ cfg.saOk cand.perms = true) ∧
      (∀ nx g, cand.result = .partialOk nx g → g = st.attempts ∧ r.cb = .partialOk nx cand.perms ∧ cfg.verifiedCb = false))) := by
  unfold pkLookup at h
  split at h
  · rename_i c hc
    simp at h
    obtain ⟨h1, h2, h3⟩ := h
    subst h1 h2 h3
    obtain ⟨a, b, c⟩ := cacheGet_some hc
    exact ⟨b, c, a, Or.inl ⟨a, rfl, rfl⟩⟩
  · rename_i hc
    simp only [] at h
    split at h
    · simp at h
    · rename_i hv
      simp at h
      obtain ⟨h1, h2, h3⟩ := h
      subst h1 h2 h3
      refine ⟨rfl, rfl, rfl, Or.inr ⟨hc, rfl, rfl, rfl, ?_, ?_⟩⟩
      · intro hr
        cases hcb : r.cb <;> simp [hcb, Outcome.split, AuthErr.okOrPartial] at hr ⊢
        · rename_i p; cases hs : cfg.saOk p <;> simp [hs] at hr ⊢
        · rename_i nx p; cases hs : cfg.saOk p <;> simp [hs] at hr
      · intro nx g hr
        cases hcb : r.cb <;> simp [hcb, Outcome.split, AuthErr.okOrPartial, AuthErr.isPartial] at hr hv ⊢
        · rename_i p; cases hs : cfg.saOk p <;> simp [hs] at hr
        · rename_i nx' p; cases hs : cfg.saOk p <;> simp [hs] at hr
          simp [hr, hv]

/-! ## the specification: what it means for a request to satisfy its method -/

/-- a publickey signature request the server may accept when the PublicKeyCallback decision in
    force carries permissions `pkPerms` (they decide, via no-touch-required, which Verify applies) -/
def PkGood (cfg : Cfg) (r : Req) (pkPerms : Nat) : Prop :=
  r.pk.isQuery = false ∧ r.pk.keyParses = true ∧ r.pk.sigParses = true ∧
  underlyingAlgo r.pk.algo ∈ cfg.algos ∧
  r.pk.algo ∈ algorithmsForKeyFormat r.pk.keyType ∧
  r.pk.sigFormat ∈ cfg.algos ∧
  isAlgoCompatible r.pk.algo r.pk.sigFormat = true ∧
  sigOk cfg r.pk pkPerms = true

/-- the PublicKeyCallback decision for this request: a cached accept for exactly this user and
    these key bytes, or an accept returned on this very request (cache miss), in both cases with
    the source-address option of the returned permissions satisfied -/
def PkAccepted (cfg : Cfg) (st : St) (r : Req) (pkPerms : Nat) : Prop :=
  st.cache = some ⟨r.user, r.pk.key, .ok, pkPerms⟩ ∨
  (cacheGet st.cache r.user r.pk.key = none ∧ r.cb = .accept pkPerms ∧ cfg.saOk pkPerms = true)

/-- every Challenge call of the keyboard-interactive callback was answered: the i-th packet after
    the request is a well-formed INFO_RESPONSE with exactly as many answers as the i-th call asked
    questions -/
def RoundsAnswered : List Nat → List Follow → Prop
  | [], _ => True
  | _ :: _, [] => False
  | q :: qs, f :: rest => f = .infoResp q ∧ RoundsAnswered qs rest

/-- the GSS-API exchange ran to completion: every AcceptSecContext call but the last succeeded and
    asked to continue and was followed by a token packet; the last one succeeded without asking to
    continue and was followed by the MIC packet -/
def GssDone : List GssStep → List Follow → Prop
  | [], _ => False
  | _ :: _, [] => False
  | s :: ss, f :: rest =>
    s.err = false ∧ ((s.cont = true ∧ isToken f = true ∧ GssDone ss rest) ∨ (s.cont = false ∧ f = .gssMic))

theorem kbdRounds_ok {qs : List Nat} {fl : List Follow} (h : (kbdRounds qs fl).1 = true) : RoundsAnswered qs fl := by
  induction qs generalizing fl with
  | nil => trivial
  | cons q qs ih =>
    unfold kbdRounds at h
    by_cases h99 : (q == 99) = true
    · simp [h99] at h
    · simp only [h99, Bool.false_eq_true, if_false] at h
      cases fl with
      | nil => simp at h
      | cons f rest =>
        simp only [] at h
        by_cases ha : answers q f = true
        · simp [ha] at h
          refine ⟨?_, ih h⟩
          cases f <;> simp [answers] at ha
          rw [ha]
        · simp [ha] at h

theorem gssExchange_mic {ss : List GssStep} {fl : List Follow} (h : (gssExchange ss fl).1 = .mic) : GssDone ss fl := by
  induction ss generalizing fl with
  | nil => simp [gssExchange] at h
  | cons s ss ih =>
    unfold gssExchange at h
    cases he : s.err <;> simp [he] at h
    cases fl with
    | nil => simp at h
    | cons f rest =>
      simp only [] at h
      cases hc : s.cont <;> simp [hc] at h
      · by_cases hm : f = .gssMic
        · exact ⟨he, Or.inr ⟨hc, hm⟩⟩
        · simp [hm] at h
      · by_cases ht : isToken f = true
        · simp [ht] at h
          exact ⟨he, Or.inl ⟨hc, ht, ih h⟩⟩
        · simp [ht] at h

/-- request `r`, arriving in state `st`, satisfies its authentication method and yields permissions `p` -/
def Satisfied (cfg : Cfg) (st : St) (r : Req) (p : Nat) : Prop :=
  (r.method = "none" ∧ cfg.noClientAuth = true ∧ st.partialRet = false ∧
     ((cfg.noClientAuthCb = true ∧ r.cb = .accept p) ∨ (cfg.noClientAuthCb = false ∧ p = 0))) ∨
  (r.method = "password" ∧ st.cbs.pw = true ∧ r.pwShape = .ok ∧ r.cb = .accept p) ∨
  (r.method = "keyboard-interactive" ∧ st.cbs.kbd = true ∧ RoundsAnswered r.kbdRounds r.follow ∧ r.cb = .accept p) ∨
  (r.method = "gssapi-with-mic" ∧ st.cbs.gss = true ∧ r.gss.payload = .krb ∧
     (∃ f rest, r.follow = f :: rest ∧ isToken f = true ∧ GssDone r.gss.steps rest) ∧ r.gss.micOk = true ∧
     r.cb = .accept p) ∨
  (r.method = "publickey" ∧ st.cbs.pk = true ∧ ∃ pkPerms, PkGood cfg r pkPerms ∧ PkAccepted cfg st r pkPerms ∧
     ((cfg.verifiedCb = true ∧ r.vcb = .accept p) ∨ (cfg.verifiedCb = false ∧ p = pkPerms)))

theorem pkDecide_ok {cfg : Cfg} {st st' : St} {r : Req} {cand : Cached} {evs evs' : List Ev} {perms : Nat}
    (h : pkDecide cfg st r cand evs = .res st' evs' perms .ok) :
    st' = st ∧ r.pk.isQuery = false ∧ r.pk.sigParses = true ∧
    r.pk.algo ∈ algorithmsForKeyFormat r.pk.keyType ∧ r.pk.sigFormat ∈ cfg.algos ∧
    isAlgoCompatible r.pk.algo r.pk.sigFormat = true ∧ sigOk cfg r.pk cand.perms = true ∧
    cand.result = .ok ∧
    ((cfg.verifiedCb = true ∧ r.vcb = .accept perms ∧
        evs' = evs ++ [Ev.cbVpk st.user r.pk.key cand.perms r.pk.sigFormat r.vcb]) ∨
     (cfg.verifiedCb = false ∧ perms = cand.perms ∧ evs' = evs)) := by
  unfold pkDecide at h
  cases hq : r.pk.isQuery <;> simp [hq] at h
  · cases h1 : r.pk.sigParses <;> simp [h1] at h
    by_cases h2 : r.pk.algo ∈ algorithmsForKeyFormat r.pk.keyType <;> simp [h2] at h
    by_cases h3 : r.pk.sigFormat ∈ cfg.algos <;> simp [h3] at h
    cases h4 : isAlgoCompatible r.pk.algo r.pk.sigFormat <;> simp [h4] at h
    cases h5 : sigOk cfg r.pk cand.perms <;> simp [h5] at h
    by_cases h6 : cand.result = .ok
    · cases h7 : cfg.verifiedCb <;> simp [h6, h7] at h
      · obtain ⟨a, b, c⟩ := h
        exact ⟨a.symm, rfl, rfl, h2, h3, rfl, rfl, h6, Or.inr ⟨rfl, c.symm, b.symm⟩⟩
      · obtain ⟨a, b, c, d⟩ := h
        have := split_ok d
        rw [c] at this
        exact ⟨a.symm, rfl, rfl, h2, h3, rfl, rfl, h6, Or.inl ⟨rfl, this, b.symm⟩⟩
    · simp [h6] at h
  · (repeat' split at h) <;> simp at h
    rename_i hx hy
    simp [h.2.2.2, AuthErr.okOrPartial] at hy

theorem pkPhase_ok {cfg : Cfg} {st st' : St} {r : Req} {evs : List Ev} {perms : Nat}
    (hu : st.user = r.user) (h : pkPhase cfg st r = .res st' evs perms .ok) :
    st.cbs.pk = true ∧ ∃ pkPerms, PkGood cfg r pkPerms ∧ PkAccepted cfg st r pkPerms ∧
     ((cfg.verifiedCb = true ∧ r.vcb = .accept perms) ∨ (cfg.verifiedCb = false ∧ perms = pkPerms)) := by
  unfold pkPhase at h
  split at h
  · rename_i ph hp
    rcases pkPre_some hp with h1 | h1 <;> simp [h1] at h
  · rename_i hp
    obtain ⟨p1, p2, p3, p4, p5, p6⟩ := pkPre_none hp
    split at h
    · simp at h
    · rename_i cand st2 evs2 hl
      obtain ⟨l1, l2, l3, l4⟩ := pkLookup_some hl
      obtain ⟨d1, d2, d3, d4, d5, d6, d7, d8, d9⟩ := pkDecide_ok h
      refine ⟨p1, cand.perms, ⟨d2, p6, d3, by simpa using p4, d4, d5, d6, d7⟩, ?_, ?_⟩
      · rcases l4 with ⟨a, _, _⟩ | ⟨a, _, _, _, b, _⟩
        · left
          rw [a]
          cases cand
          simp_all
        · right
          exact ⟨hu ▸ a, (b d8).1, (b d8).2⟩
      · rcases d9 with ⟨a, b, _⟩ | ⟨a, b, _⟩
        · exact Or.inl ⟨a, b⟩
        · exact Or.inr ⟨a, b⟩

theorem methodPhase_ok {cfg : Cfg} {st st' : St} {r : Req} {evs : List Ev} {perms : Nat}
    (hu : st.user = r.user) (h : methodPhase cfg st r = .res st' evs perms .ok) :
    Satisfied cfg st r perms := by
  unfold methodPhase at h
  split at h
  · rename_i hm
    left
    unfold nonePhase at h
    simp at hm
    cases h1 : cfg.noClientAuth <;> cases h2 : st.partialRet <;> cases h3 : cfg.noClientAuthCb <;> simp [h1, h2, h3] at h
    · exact ⟨hm, rfl, rfl, Or.inr ⟨rfl, h.2.2.symm⟩⟩
    · have := split_ok h.2.2.2
      rw [h.2.2.1] at this
      exact ⟨hm, rfl, rfl, Or.inl ⟨rfl, this⟩⟩
  · split at h
    · rename_i hm
      right; left
      simp at hm
      unfold pwPhase at h
      cases h1 : st.cbs.pw <;> simp [h1] at h
      by_cases h2 : r.pwShape = .ok <;> simp [h2] at h
      have := split_ok h.2.2.2
      rw [h.2.2.1] at this
      exact ⟨hm, rfl, h2, this⟩
    · split at h
      · rename_i hm
        right; right; left
        simp at hm
        unfold kbdPhase at h
        cases h1 : st.cbs.kbd <;> simp [h1] at h
        cases hk : (kbdRounds r.kbdRounds r.follow).1 <;> simp [hk] at h
        have := split_ok h.2.2.2
        rw [h.2.2.1] at this
        exact ⟨hm, rfl, kbdRounds_ok hk, this⟩
      · split at h
        · rename_i hm
          right; right; right; right
          simp at hm
          obtain ⟨a, b⟩ := pkPhase_ok hu h
          exact ⟨hm, a, b⟩
        · split at h
          · rename_i hm
            right; right; right; left
            simp at hm
            unfold gssPhase at h
            cases h1 : st.cbs.gss <;> simp [h1] at h
            cases hp : r.gss.payload <;> simp [hp] at h
            cases hf : r.follow with
            | nil => simp [hf] at h
            | cons f rest =>
              simp only [hf] at h
              cases ht : isToken f <;> simp [ht] at h
              cases hx : (gssExchange r.gss.steps rest).1 <;> simp [hx] at h
              cases hmo : r.gss.micOk <;> simp [hmo] at h
              have := split_ok h.2.2.2
              rw [h.2.2.1] at this
              exact ⟨hm, rfl, rfl, ⟨f, rest, rfl, ht, gssExchange_mic hx⟩, rfl, this⟩
          · simp at h

/-! ## shapes of the keyboard-interactive and gssapi-with-mic branches -/

/-- the events of the two exchanges other than the callback record of keyboard-interactive -/
def auxEv (st : St) (r : Req) : Ev → Bool
  | .sendInfoReq _ => true
  | .sendGssResponse => true
  | .sendGssToken => true
  | .gssAccept => true
  | .gssVerifyMic => true
  | .gssDelete => true
  | .cbGssAllow g u o => g == st.gen && u == st.user && o == r.cb && st.cbs.gss && r.method == "gssapi-with-mic"
  | _ => false

theorem kbdRounds_evs (st : St) (r : Req) (qs : List Nat) (fl : List Follow) :
    (kbdRounds qs fl).2.1.all (auxEv st r) = true := by
  induction qs generalizing fl with
  | nil => simp [kbdRounds]
  | cons q qs ih =>
    unfold kbdRounds
    split
    · rfl
    · cases fl with
      | nil => simp [auxEv]
      | cons f rest =>
        simp only []
        split
        · simp only [List.all_cons, auxEv, Bool.true_and]; exact ih rest
        · simp [auxEv]

theorem gssExchange_evs (st : St) (r : Req) (ss : List GssStep) (fl : List Follow) :
    (gssExchange ss fl).2.1.all (auxEv st r) = true := by
  induction ss generalizing fl with
  | nil => simp [gssExchange, auxEv]
  | cons s ss ih =>
    unfold gssExchange
    split
    · simp [auxEv]
    · have hev : (Ev.gssAccept :: (if s.out then [Ev.sendGssToken] else [])).all (auxEv st r) = true := by
        cases s.out <;> simp [auxEv]
      cases fl with
      | nil => simpa using hev
      | cons f rest =>
        simp only []
        split
        · split
          · simp only [List.all_append, ih rest, Bool.and_true]; simpa using hev
          · simpa using hev
        · split <;> simpa using hev

theorem kbdPhase_cases (st : St) (r : Req) :
    (st.cbs.kbd = false ∧ kbdPhase st r = .res st [] 0 .fail) ∨
    (st.cbs.kbd = true ∧ ∃ x, x.all (auxEv st r) = true ∧
      (kbdPhase st r = .res st (Ev.cbKbd st.gen st.user r.cb :: x) 0 .fail ∨
       ((kbdRounds r.kbdRounds r.follow).1 = true ∧
        kbdPhase st r = .res st (Ev.cbKbd st.gen st.user r.cb :: x) (r.cb.split st.attempts).1 (r.cb.split st.attempts).2))) := by
  unfold kbdPhase
  cases h : st.cbs.kbd
  · simp
  · right
    refine ⟨rfl, (kbdRounds r.kbdRounds r.follow).2.1, kbdRounds_evs st r _ _, ?_⟩
    cases hk : (kbdRounds r.kbdRounds r.follow).1
    · exact Or.inl (by simp [hk])
    · exact Or.inr ⟨rfl, by simp [hk]⟩

theorem gssPhase_cases (st : St) (r : Req) (hm : r.method = "gssapi-with-mic") :
    ∃ x, x.all (auxEv st r) = true ∧
      (gssPhase st r = .hard x ∨ gssPhase st r = .res st x 0 .fail ∨
       (st.cbs.gss = true ∧ gssPhase st r = .res st x (r.cb.split st.attempts).1 (r.cb.split st.attempts).2)) := by
  unfold gssPhase
  cases h : st.cbs.gss
  · exact ⟨[], rfl, Or.inr (Or.inl (by simp))⟩
  · simp only [Bool.not_true, Bool.false_eq_true, if_false]
    cases r.gss.payload
    · exact ⟨[], rfl, Or.inl rfl⟩
    · exact ⟨[], rfl, Or.inr (Or.inl rfl)⟩
    · exact ⟨[], rfl, Or.inr (Or.inl rfl)⟩
    · simp only []
      cases r.follow with
      | nil => exact ⟨[Ev.sendGssResponse], by simp [auxEv], Or.inl rfl⟩
      | cons f rest =>
        simp only []
        cases isToken f
        · exact ⟨[Ev.sendGssResponse], by simp [auxEv], Or.inl rfl⟩
        · simp only [Bool.not_true, Bool.false_eq_true, if_false]
          have hx := gssExchange_evs st r r.gss.steps rest
          generalize (gssExchange r.gss.steps rest).2.1 = gx at hx
          cases (gssExchange r.gss.steps rest).1
          · exact ⟨Ev.sendGssResponse :: gx ++ [Ev.gssDelete], by simp [List.all_append, auxEv, hx], Or.inl rfl⟩
          · exact ⟨Ev.sendGssResponse :: gx ++ [Ev.gssDelete], by simp [List.all_append, auxEv, hx], Or.inr (Or.inl rfl)⟩
          · simp only []
            cases r.gss.micOk
            · exact ⟨Ev.sendGssResponse :: gx ++ [Ev.gssVerifyMic, Ev.gssDelete],
                by simp [List.all_append, auxEv, hx], Or.inr (Or.inl (by simp))⟩
            · exact ⟨Ev.sendGssResponse :: gx ++ [Ev.gssVerifyMic, Ev.cbGssAllow st.gen st.user r.cb, Ev.gssDelete],
                by simp [List.all_append, auxEv, hx, h, hm], Or.inr (Or.inr ⟨trivial, by simp⟩)⟩

/-- events of the keyboard-interactive / gssapi-with-mic branches -/
def kgEv (st : St) (r : Req) (e : Ev) : Bool :=
  auxEv st r e || (e == Ev.cbKbd st.gen st.user r.cb && st.cbs.kbd && r.method == "keyboard-interactive")

/-- both branches leave the state alone and end in a hard error, a plain failure, or with the
    outcome of their callback (KeyboardInteractiveCallback / AllowLogin) -/
theorem kg_simple (st : St) (r : Req) (ph : Phase)
    (h : (r.method = "keyboard-interactive" ∧ ph = kbdPhase st r) ∨ (r.method = "gssapi-with-mic" ∧ ph = gssPhase st r)) :
    ∃ x, x.all (kgEv st r) = true ∧
      (ph = .hard x ∨ ph = .res st x 0 .fail ∨ ph = .res st x (r.cb.split st.attempts).1 (r.cb.split st.attempts).2) := by
  rcases h with ⟨hm, rfl⟩ | ⟨hm, rfl⟩
  · rcases kbdPhase_cases st r with ⟨_, h⟩ | ⟨hk, x, hx, h | ⟨_, h⟩⟩
    · exact ⟨[], rfl, Or.inr (Or.inl h)⟩
    · refine ⟨_, ?_, Or.inr (Or.inl h)⟩
      rw [List.all_eq_true] at hx ⊢
      intro e he
      simp only [List.mem_cons] at he
      rcases he with rfl | he
      · simp [kgEv, hk, hm]
      · simp [kgEv, hx e he]
    · refine ⟨_, ?_, Or.inr (Or.inr h)⟩
      rw [List.all_eq_true] at hx ⊢
      intro e he
      simp only [List.mem_cons] at he
      rcases he with rfl | he
      · simp [kgEv, hk, hm]
      · simp [kgEv, hx e he]
  · obtain ⟨x, hx, h⟩ := gssPhase_cases st r hm
    refine ⟨x, ?_, ?_⟩
    · rw [List.all_eq_true] at hx ⊢
      intro e he; simp [kgEv, hx e he]
    · rcases h with h | h | ⟨_, h⟩
      · exact Or.inl h
      · exact Or.inr (Or.inl h)
      · exact Or.inr (Or.inr h)

theorem kg_result {st st' : St} {r : Req} {evs : List Ev} {ph : Phase}
    (hkg : (r.method = "keyboard-interactive" ∧ ph = kbdPhase st r) ∨ (r.method = "gssapi-with-mic" ∧ ph = gssPhase st r))
    (hph : ph = .again st' evs ∨ ∃ p e, ph = .res st' evs p e) :
    st' = st ∧ evs.all (kgEv st r) = true := by
  obtain ⟨x, hx, h⟩ := kg_simple st r ph hkg
  rcases hph with h1 | ⟨p, e, h1⟩ <;> rcases h with h | h | h <;> rw [h1] at h <;> simp at h
  all_goals exact ⟨h.1, by rw [h.2.1]; exact hx⟩

/-- `methodPhase` on the two exchange methods -/
theorem methodPhase_kg {cfg : Cfg} {st : St} {r : Req}
    (h : r.method = "keyboard-interactive" ∨ r.method = "gssapi-with-mic") :
    (r.method = "keyboard-interactive" ∧ methodPhase cfg st r = kbdPhase st r) ∨
    (r.method = "gssapi-with-mic" ∧ methodPhase cfg st r = gssPhase st r) := by
  unfold methodPhase
  rcases h with h | h
  · left; simp [h]
  · right; simp [h]

/-! ## one loop iteration -/

theorem bannerPhase_fields (cfg : Cfg) (st : St) :
    (bannerPhase cfg st).1 = { st with bannerCalled := (bannerPhase cfg st).1.bannerCalled } := by
  unfold bannerPhase
  split
  · split <;> rfl
  · rfl

theorem Satisfied_congr {cfg : Cfg} {st1 st2 : St} {r : Req} {p : Nat}
    (h1 : st1.cache = st2.cache) (h2 : st1.cbs = st2.cbs) (h3 : st1.partialRet = st2.partialRet)
    (h : Satisfied cfg st1 r p) : Satisfied cfg st2 r p := by
  unfold Satisfied PkAccepted at *
  rw [h1, h2, h3] at h
  exact h

/-- a request that ends the loop with success satisfied its method (statement: `Satisfied`) -/
theorem step_ok_sound {cfg : Cfg} {st : St} {r : Req} {evs : List Ev} {p : Nat}
    (h : step cfg st r = .done evs (.ok p)) :
    r.service = "ssh-connection" ∧ (st.partialRet = true → st.user = r.user) ∧
    cfg.saOk p = true ∧ Satisfied cfg st r p := by
  unfold step at h
  by_cases hs : r.service = "ssh-connection"
  case neg => simp [hs] at h
  by_cases hu : st.partialRet = true → st.user = r.user
  case neg =>
    have : (st.user != r.user && st.partialRet) = true := by
      simp only [Classical.not_imp] at hu
      simp [hu.1, hu.2]
    simp [hs, this] at h
  have hg : (st.user != r.user && st.partialRet) = false := by
    cases hp : st.partialRet
    · simp
    · simp [hu hp]
  simp only [hs, hg] at h
  simp at h
  generalize hsb : bannerPhase cfg { st with user := r.user } = sb at h
  have hf := bannerPhase_fields cfg { st with user := r.user }
  rw [hsb] at hf
  split at h
  · simp at h
  · simp at h
  · rename_i st2 evs2 perms e hm
    split at h
    · rename_i evs3 f hfin
      simp at h
      obtain ⟨_, hfp⟩ := h
      subst hfp
      obtain ⟨f1, f2, f3, _⟩ := finish_ok hfin
      subst f1 f2
      have hu2 : sb.1.user = r.user := by rw [hf]
      have := methodPhase_ok hu2 hm
      refine ⟨hs, hu, f3, Satisfied_congr ?_ ?_ ?_ this⟩ <;> rw [hf]
    · simp at h

end XC.C32
