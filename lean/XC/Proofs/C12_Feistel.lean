/-
  C12 — inversion of TEA / XTEA / Blowfish for arbitrary keys, tables and S-boxes.
-/
import XC.Model.C12
import XC.Proofs.C12_Util
namespace XC.C12

/-! ## TEA -/
namespace Tea

theorem decStep_encStep (k : Key) (sum : UInt32) (v : UInt32 × UInt32) :
    decStep k sum (encStep k sum v) = v := by
  obtain ⟨a, b⟩ := v
  simp [decStep, encStep, UInt32.add_sub_cancel]

theorem encStep_decStep (k : Key) (sum : UInt32) (v : UInt32 × UInt32) :
    encStep k sum (decStep k sum v) = v := by
  obtain ⟨a, b⟩ := v
  simp [decStep, encStep, UInt32.sub_add_cancel]

/-- peel the LAST iteration off the encryption loop -/
theorem encLoop_succ (k : Key) (n : Nat) (sum : UInt32) (v : UInt32 × UInt32) :
    encLoop k (n+1) sum v = encStep k (sum + delta * UInt32.ofNat (n+1)) (encLoop k n sum v) := by
  induction n generalizing sum v with
  | zero =>
    have h1 : UInt32.ofNat (0+1) = 1 := by simp
    rw [h1, UInt32.mul_one]
    unfold encLoop
    unfold encLoop
    rfl
  | succ n ih =>
    rw [encLoop, ih]
    have h2 : UInt32.ofNat (n + 1 + 1) = UInt32.ofNat (n+1) + 1 := by
      rw [UInt32.ofNat_add (n+1) 1]; simp
    have h3 : sum + delta + delta * UInt32.ofNat (n + 1) = sum + delta * UInt32.ofNat (n + 1 + 1) := by
      rw [h2, UInt32.mul_add, UInt32.mul_one, UInt32.add_assoc, UInt32.add_comm delta]
    rw [h3]
    conv => rhs; rw [encLoop]

theorem decLoop_encLoop (k : Key) (n : Nat) (sum : UInt32) (v : UInt32 × UInt32) :
    decLoop k n (sum + delta * UInt32.ofNat n) (encLoop k n sum v) = v := by
  induction n generalizing v with
  | zero => simp [decLoop, encLoop]
  | succ n ih =>
    rw [encLoop_succ, decLoop, decStep_encStep]
    have : sum + delta * UInt32.ofNat (n + 1) - delta = sum + delta * UInt32.ofNat n := by
      have : UInt32.ofNat (n + 1) = UInt32.ofNat n + 1 := by
        rw [UInt32.ofNat_add n 1]; simp
      rw [this, UInt32.mul_add, UInt32.mul_one, ← UInt32.add_assoc, UInt32.add_sub_cancel]
    rw [this, ih]

end Tea

/-! ## XTEA -/
namespace Xtea

theorem decStep_encStep (v t : UInt32 × UInt32) : decStep (encStep v t) t = v := by
  obtain ⟨a, b⟩ := v
  simp [decStep, encStep, UInt32.add_sub_cancel]

theorem encStep_decStep (v t : UInt32 × UInt32) : encStep (decStep v t) t = v := by
  obtain ⟨a, b⟩ := v
  simp [decStep, encStep, UInt32.sub_add_cancel]

end Xtea

/-! ## Blowfish -/
namespace Blowfish

/-- running a Feistel round on the swapped output undoes it (up to the swap) -/
theorem round_swap (f : UInt32 → UInt32) (s : UInt32 × UInt32) (k : UInt32) :
    round f ((round f s k).2, (round f s k).1) k = (s.2, s.1) := by
  obtain ⟨x, y⟩ := s
  simp [round, UInt32.xor_assoc]

theorem rounds_swap (f : UInt32 → UInt32) (ks : List UInt32) (s : UInt32 × UInt32) :
    ks.reverse.foldl (round f) ((ks.foldl (round f) s).2, (ks.foldl (round f) s).1) = (s.2, s.1) := by
  induction ks generalizing s with
  | nil => rfl
  | cons k ks ih =>
    simp only [List.foldl_cons, List.reverse_cons, List.foldl_append, List.foldl_nil]
    rw [ih]
    exact round_swap f s k

/-- the generic statement: a Feistel network run with the reversed key list inverts itself,
    whatever the round function and the round keys are -/
theorem feistel_inv (f : UInt32 → UInt32) (pre post : UInt32) (mid : List UInt32) (l r : UInt32) :
    feistel f post mid.reverse pre (feistel f pre mid post l r).1 (feistel f pre mid post l r).2 = (l, r) := by
  simp only [feistel]
  rw [UInt32.xor_assoc, UInt32.xor_self, UInt32.xor_zero]
  rw [rounds_swap]
  simp [UInt32.xor_assoc]

theorem encryptBlock_eq_spec (c : Box) (l r : UInt32) : encryptBlock c l r = encryptSpec c l r := by
  rfl

theorem decryptBlock_eq_spec (c : Box) (l r : UInt32) : decryptBlock c l r = decryptSpec c l r := by
  rfl

end Blowfish
end XC.C12
