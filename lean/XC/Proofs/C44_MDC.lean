/-
  C44 — seMDCReader: for every short-read schedule of the underlying reader and every sequence of
  caller buffer sizes, the bytes delivered are the body without its last 22 bytes, those 22 bytes are
  what `Close` checks, and the running hash has seen exactly the delivered bytes.
-/
import XC.Model.C44
namespace XC.C44
open XC

theorem Under.readFull_spec (u : Under) (m : Nat) :
    (u.readFull m).1 ++ (u.readFull m).2.data = u.data ∧ (u.readFull m).1.length ≤ m ∧
    ((u.readFull m).1.length < m → (u.readFull m).2.data = []) := by
  induction m using Nat.strongRecOn generalizing u with
  | _ m ih =>
    rw [Under.readFull]
    by_cases hm : m = 0
    · simp [hm]
    · by_cases hd : u.data.isEmpty = true
      · have : u.data = [] := by simpa using hd
        simp [hm, hd, this]
      · simp only [hm, hd, ↓reduceDIte, Bool.false_eq_true]
        have hsp := Under.read_split u m
        have hne : u.data ≠ [] := by simpa using hd
        have hflag : (u.read m).2.1 = false := by
          cases hf : (u.read m).2.1 with
          | false => rfl
          | true => exact absurd (hsp.2.2.1.1 hf) hne
        have hpos := Under.read_pos u m (by omega) hflag
        have := ih (m - (u.read m).1.length) (by omega) (u.read m).2.2
        refine ⟨?_, ?_, ?_⟩
        · rw [List.append_assoc, this.1, hsp.1]
        · simp only [List.length_append]; have := this.2.1; have := hsp.2.1; omega
        · intro hlt
          simp only [List.length_append] at hlt
          exact this.2.2 (by omega)

theorem mdcFill_spec (st : MDCR) (u : Under) (hle : st.trailer.length ≤ mdcTrailerSize) :
    ∃ c, (mdcFill st u).1.trailer = st.trailer ++ c ∧ c ++ (mdcFill st u).2.1.data = u.data ∧
      (mdcFill st u).1.hashed = st.hashed ∧
      ((mdcFill st u).2.2 = .none →
        (mdcFill st u).1.trailer.length = mdcTrailerSize ∧ (mdcFill st u).1.eof = st.eof ∧
        (mdcFill st u).1.error = st.error) ∧
      ((mdcFill st u).2.2 ≠ .none →
        (mdcFill st u).2.1.data = [] ∧ (mdcFill st u).1.trailer.length < mdcTrailerSize) := by
  induction hl : mdcTrailerSize - st.trailer.length using Nat.strongRecOn generalizing st u with
  | _ n ih =>
    rw [mdcFill]
    by_cases hlt : st.trailer.length < mdcTrailerSize
    · rw [dif_pos hlt]
      by_cases hE : (u.read (mdcTrailerSize - st.trailer.length)).2.1 = true
      · have hd : u.data = [] := (Under.read_split u _).2.2.1.1 hE
        have hne : (st.trailer.length != mdcTrailerSize) = true := by
          simp only [bne_iff_ne, ne_eq]; omega
        rw [dif_pos hE, if_pos hne]
        refine ⟨[], ?_, ?_, ?_, ?_, ?_⟩
        · simp
        · simp [hd]
        · rfl
        · intro h; cases h
        · intro _; exact ⟨hd, hlt⟩
      · rw [dif_neg hE]
        have hflag : (u.read (mdcTrailerSize - st.trailer.length)).2.1 = false := by simpa using hE
        have hpos := Under.read_pos u _ (by omega) hflag
        have hsp := Under.read_split u (mdcTrailerSize - st.trailer.length)
        obtain ⟨c, h1, h2, h3, h4, h5⟩ := ih
          (mdcTrailerSize - (st.trailer ++ (u.read (mdcTrailerSize - st.trailer.length)).1).length)
          (by subst hl; simp only [List.length_append]; omega)
          { st with trailer := st.trailer ++ (u.read (mdcTrailerSize - st.trailer.length)).1 }
          (u.read (mdcTrailerSize - st.trailer.length)).2.2
          (by simp only [List.length_append]; have := hsp.2.1; omega) rfl
        refine ⟨(u.read (mdcTrailerSize - st.trailer.length)).1 ++ c, ?_, ?_, h3, h4, h5⟩
        · rw [h1, List.append_assoc]
        · rw [List.append_assoc, h2, hsp.1]
    · rw [dif_neg hlt]
      refine ⟨[], ?_, ?_, ?_, ?_, ?_⟩
      · simp
      · simp
      · rfl
      · intro _; exact ⟨by show st.trailer.length = _; omega, rfl, rfl⟩
      · intro h; exact absurd rfl h

/-- the invariant of the reader: what has been delivered (= hashed), the 22-byte window and what the
    underlying reader still holds make up the whole body `D` -/
structure Inv (D : Bytes) (st : MDCR) (u : Under) (del : Bytes) : Prop where
  noerr : st.error = false
  hashed : st.hashed = del
  split : del ++ st.trailer ++ u.data = D
  tlen : st.trailer.length ≤ mdcTrailerSize
  full : del ≠ [] → st.trailer.length = mdcTrailerSize
  eof : st.eof = true → u.data = [] ∧ st.trailer.length = mdcTrailerSize

/-- one `Read` with any buffer size preserves the invariant and never fails when the body has ≥ 22 bytes -/
theorem mdcRead_inv (D : Bytes) (st : MDCR) (u : Under) (del : Bytes) (m : Nat)
    (hI : Inv D st u del) (hD : mdcTrailerSize ≤ D.length) :
    Inv D (mdcRead st u m).1 (mdcRead st u m).2.1 (del ++ (mdcRead st u m).2.2.1) ∧
    (mdcRead st u m).2.2.2 ≠ .ueof ∧
    ((mdcRead st u m).2.2.2 = .eof → (mdcRead st u m).1.eof = true) := by
  unfold mdcRead
  simp only [hI.noerr, Bool.false_eq_true, ↓reduceIte]
  by_cases he : st.eof = true
  · simp only [he, ↓reduceIte, List.append_nil]
    exact ⟨hI, by simp, fun _ => (by first | exact he | trivial)⟩
  · simp only [he, Bool.false_eq_true, ↓reduceIte]
    obtain ⟨c, f1, f2, f3, f4, f5⟩ := mdcFill_spec st u hI.tlen
    by_cases hf : ((mdcFill st u).2.2 != MErr.none) = true
    · -- the trailer could not be filled: the body is shorter than 22 bytes — excluded
      exfalso
      have hne : (mdcFill st u).2.2 ≠ .none := by simpa using hf
      obtain ⟨hd, hlt⟩ := f5 hne
      have hdel : del = [] := by
        by_cases hdn : del = []
        · exact hdn
        · have := hI.full hdn
          rw [f1] at hlt; simp only [List.length_append] at hlt; omega
      have : D.length < mdcTrailerSize := by
        rw [← hI.split, hdel, ← f2, hd]
        simp only [List.nil_append, List.append_nil, List.length_append]
        rw [f1] at hlt; simpa [List.length_append] using hlt
      omega
    · simp only [hf, Bool.false_eq_true, ↓reduceIte]
      have hnone : (mdcFill st u).2.2 = .none := by simpa using hf
      obtain ⟨g1, g2, g3⟩ := f4 hnone
      -- after the fill: window T of 22 bytes, reader u1
      have hsplit1 : del ++ (mdcFill st u).1.trailer ++ (mdcFill st u).2.1.data = D := by
        rw [f1, ← hI.split, ← f2]; simp [List.append_assoc]
      have hT : (mdcFill st u).1.trailer.length = mdcTrailerSize := g1
      have herr1 : (mdcFill st u).1.error = false := by rw [g3]; exact hI.noerr
      have hhash1 : (mdcFill st u).1.hashed = del := by rw [f3]; exact hI.hashed
      by_cases hm : m ≤ mdcTrailerSize
      · simp only [hm, ↓reduceIte]
        obtain ⟨r1, r2, r3⟩ := Under.readFull_spec (mdcFill st u).2.1 m
        have hn : ((mdcFill st u).2.1.readFull m).1.length ≤ (mdcFill st u).1.trailer.length := by omega
        have hsplit2 : (del ++ (mdcFill st u).1.trailer.take ((mdcFill st u).2.1.readFull m).1.length) ++
            ((mdcFill st u).1.trailer.drop ((mdcFill st u).2.1.readFull m).1.length ++ ((mdcFill st u).2.1.readFull m).1) ++
            ((mdcFill st u).2.1.readFull m).2.data = D := by
          rw [← hsplit1, ← r1]
          simp only [List.append_assoc]
          rw [← List.append_assoc ((mdcFill st u).1.trailer.take _), List.take_append_drop]
        have hlen2 : ((mdcFill st u).1.trailer.drop ((mdcFill st u).2.1.readFull m).1.length ++
            ((mdcFill st u).2.1.readFull m).1).length = mdcTrailerSize := by
          simp only [List.length_append, List.length_drop]; omega
        by_cases hn2 : ((mdcFill st u).2.1.readFull m).1.length < m
        · simp only [hn2, ↓reduceIte]
          refine ⟨⟨herr1, by simp [hhash1], hsplit2, Nat.le_of_eq hlen2, fun _ => hlen2, fun _ => ⟨r3 hn2, hlen2⟩⟩, by simp, fun _ => (by first | rfl | trivial)⟩
        · simp only [hn2, ↓reduceIte]
          refine ⟨⟨herr1, by simp [hhash1], hsplit2, Nat.le_of_eq hlen2, fun _ => hlen2, ?_⟩, by simp, by intro h; cases h⟩
          intro h; rw [g2] at h; exact absurd h he
      · simp only [hm, ↓reduceIte]
        obtain ⟨s1, s2, s3, s4⟩ := Under.read_split (mdcFill st u).2.1 (m - mdcTrailerSize)
        have hsplit2 : (del ++ ((mdcFill st u).1.trailer ++ ((mdcFill st u).2.1.read (m - mdcTrailerSize)).1).take
              ((mdcFill st u).2.1.read (m - mdcTrailerSize)).1.length) ++
            (((mdcFill st u).1.trailer ++ ((mdcFill st u).2.1.read (m - mdcTrailerSize)).1).drop
              ((mdcFill st u).2.1.read (m - mdcTrailerSize)).1.length) ++
            ((mdcFill st u).2.1.read (m - mdcTrailerSize)).2.2.data = D := by
          rw [← hsplit1, ← s1]
          simp only [List.append_assoc]
          rw [← List.append_assoc (List.take _ _), List.take_append_drop]
          simp [List.append_assoc]
        have hlen2 : (((mdcFill st u).1.trailer ++ ((mdcFill st u).2.1.read (m - mdcTrailerSize)).1).drop
              ((mdcFill st u).2.1.read (m - mdcTrailerSize)).1.length).length = mdcTrailerSize := by
          simp only [List.length_drop, List.length_append]; omega
        by_cases hfl : ((mdcFill st u).2.1.read (m - mdcTrailerSize)).2.1 = true
        · simp only [hfl, ↓reduceIte]
          have hd1 : (mdcFill st u).2.1.data = [] := s3.1 hfl
          have hd2 : ((mdcFill st u).2.1.read (m - mdcTrailerSize)).2.2.data = [] := by
            rw [(s4 hfl).2]; exact hd1
          refine ⟨⟨herr1, by simp [hhash1], hsplit2, Nat.le_of_eq hlen2, fun _ => hlen2, fun _ => ⟨hd2, hlen2⟩⟩, by simp, fun _ => (by first | rfl | trivial)⟩
        · simp only [hfl, Bool.false_eq_true, ↓reduceIte]
          refine ⟨⟨herr1, by simp [hhash1], hsplit2, Nat.le_of_eq hlen2, fun _ => hlen2, ?_⟩, by simp, by intro h; cases h⟩
          intro h; rw [g2] at h; exact absurd h he

/-- `Close`'s drain loop reaches EOF (never an error) and keeps the invariant -/
theorem mdcDrain_inv (D : Bytes) (st : MDCR) (u : Under) (del : Bytes)
    (hI : Inv D st u del) (hD : mdcTrailerSize ≤ D.length) :
    (mdcDrain st u).2.2.2 = true ∧ (mdcDrain st u).1.eof = true ∧
    Inv D (mdcDrain st u).1 (mdcDrain st u).2.1 (del ++ (mdcDrain st u).2.2.1) := by
  induction hl : u.data.length using Nat.strongRecOn generalizing st u del with
  | _ n ih =>
    rw [mdcDrain]
    by_cases he : st.eof = true
    · rw [if_pos he]; exact ⟨rfl, he, by simpa using hI⟩
    · simp only [he, Bool.false_eq_true, ↓reduceIte]
      obtain ⟨i1, i2, i3⟩ := mdcRead_inv D st u del 1024 hI hD
      split
      · rename_i h; exact absurd h i2
      · rename_i h; exact ⟨by first | rfl | trivial, i3 h, i1⟩
      · rename_i h
        have hp := mdcRead_progress st u 1024 (by decide) h
        obtain ⟨j1, j2, j3⟩ := ih _ (by subst hl; exact hp) _ _ _ i1 rfl
        refine ⟨j1, j2, ?_⟩
        simpa [List.append_assoc] using j3

/-- at EOF the window is the last 22 bytes and everything before it has been delivered -/
theorem Inv.at_eof {D : Bytes} {st : MDCR} {u : Under} {del : Bytes} (hI : Inv D st u del) (he : st.eof = true) :
    del = D.take (D.length - mdcTrailerSize) ∧ st.trailer = D.drop (D.length - mdcTrailerSize) := by
  obtain ⟨hd, ht⟩ := hI.eof he
  have hs := hI.split
  rw [hd, List.append_nil] at hs
  have hlen : D.length = del.length + mdcTrailerSize := by rw [← hs]; simp [ht]
  have hl2 : D.length - mdcTrailerSize = del.length := by omega
  rw [hl2, ← hs]
  constructor
  · simp
  · simp

theorem mdcCheck_congr (H : Bytes → Bytes) (pre : Bytes) (a b : MDCR)
    (h1 : a.trailer = b.trailer) (h2 : a.hashed = b.hashed) : mdcCheck H pre a = mdcCheck H pre b := by
  unfold mdcCheck; rw [h1, h2]

/-- **mdc_window** for arbitrary read patterns: any sequence of caller buffer sizes `ms`, any short-read
    schedule `u.script` of the underlying reader. From a state satisfying the invariant (the initial
    state does), for a body `D` of at least 22 bytes:
    * no Read returns an error other than EOF, and the bytes the Reads deliver, followed by what
      `Close` drains, are exactly `D` without its last 22 bytes — those are never delivered;
    * `Close` returns the check of the last 22 bytes against the hash of prefix ‖ delivered bytes. -/
theorem mdc_session_inv (H : Bytes → Bytes) (pre D : Bytes) (ms : List Nat) (st : MDCR) (u : Under) (del : Bytes)
    (hI : Inv D st u del) (hD : mdcTrailerSize ≤ D.length) :
    (mdcSession H pre st u ms).2 =
      mdcCheck H pre { trailer := D.drop (D.length - mdcTrailerSize), hashed := D.take (D.length - mdcTrailerSize) } ∧
    (∀ p ∈ (mdcSession H pre st u ms).1, p.2 ≠ .ueof) ∧
    ∃ rest, del ++ ((mdcSession H pre st u ms).1.map (·.1)).flatten ++ rest = D.take (D.length - mdcTrailerSize) := by
  induction ms generalizing st u del with
  | nil =>
    simp only [mdcSession, mdcClose, hI.noerr, Bool.false_eq_true, ↓reduceIte]
    obtain ⟨d1, d2, d3⟩ := mdcDrain_inv D st u del hI hD
    obtain ⟨e1, e2⟩ := d3.at_eof d2
    simp only [d1, Bool.not_true, Bool.false_eq_true, ↓reduceIte, List.map_nil, List.flatten_nil, List.append_nil]
    refine ⟨mdcCheck_congr H pre _ _ e2 (by rw [d3.hashed, e1]), by simp, (mdcDrain st u).2.2.1, e1⟩
  | cons m ms ih =>
    obtain ⟨i1, i2, _⟩ := mdcRead_inv D st u del m hI hD
    obtain ⟨j1, j2, rest, j3⟩ := ih _ _ _ i1
    simp only [mdcSession]
    refine ⟨j1, ?_, rest, ?_⟩
    · intro p hp
      rcases List.mem_cons.1 hp with rfl | hp
      · exact i2
      · exact j2 p hp
    · simpa [List.append_assoc] using j3

theorem Inv.init (D : Bytes) (script : List Nat) : Inv D {} ⟨D, script⟩ [] :=
  ⟨rfl, rfl, by simp, by simp [mdcTrailerSize], by intro h; exact absurd rfl h, by intro h; cases h⟩

end XC.C44
