/-
  C25 — cbcCipher: CBC chaining over block lists, the link to `chunks`, and one packet reader-after-writer.
-/
import XC.Proofs.C25_Aead
namespace XC.C25
open XC.C24 (be32_u32be u32be_length)

/-! ## chunks -/

theorem chunks_nil (n : Nat) : chunks n [] = [] := by
  rw [chunks]; split <;> simp

theorem chunks_block (n : Nat) (hn : 0 < n) (b rest : Bytes) (hb : b.length = n) :
    chunks n (b ++ rest) = b :: chunks n rest := by
  rw [chunks]
  have h0 : ¬ n = 0 := by omega
  have hne : (b ++ rest).isEmpty = false := by
    cases b with
    | nil => simp at hb; omega
    | cons _ _ => rfl
  simp only [h0, dite_false, hne, Bool.false_eq_true, if_false]
  rw [List.take_left' hb, List.drop_left' hb]

theorem chunks_flatten (n : Nat) (hn : 0 < n) (L : List Bytes) (hL : ∀ b ∈ L, b.length = n) (rest : Bytes) :
    chunks n (L.flatten ++ rest) = L ++ chunks n rest := by
  induction L with
  | nil => simp
  | cons b L ih =>
    simp only [List.flatten_cons, List.append_assoc, List.cons_append]
    rw [chunks_block n hn b _ (hL b (by simp)), ih (fun x hx => hL x (List.mem_cons_of_mem _ hx))]

theorem chunks_props (n : Nat) (hn : 0 < n) (P : Bytes) (hP : P.length % n = 0) :
    (chunks n P).flatten = P ∧ ∀ b ∈ chunks n P, b.length = n := by
  induction hlen : P.length using Nat.strongRecOn generalizing P with
  | _ k ih =>
    by_cases hk : P = []
    · subst hk; simp [chunks_nil]
    · have hpos : 0 < P.length := List.length_pos_iff.mpr hk
      have hge : n ≤ P.length := Nat.le_of_dvd hpos (Nat.dvd_of_mod_eq_zero hP)
      have hsplit : P = P.take n ++ P.drop n := (List.take_append_drop n P).symm
      have htl : (P.take n).length = n := by simp; omega
      have hdl : (P.drop n).length = P.length - n := by simp
      have hmod : (P.drop n).length % n = 0 := by
        rw [hdl]
        have := Nat.dvd_of_mod_eq_zero hP
        exact Nat.mod_eq_zero_of_dvd (Nat.dvd_sub this (Nat.dvd_refl n))
      have := ih (P.length - n) (by omega) (P.drop n) hmod hdl
      rw [hsplit, chunks_block n hn _ _ htl]
      refine ⟨by simp [this.1], ?_⟩
      intro b hb
      simp only [List.mem_cons] at hb
      rcases hb with rfl | hb
      · exact htl
      · exact this.2 b hb

/-! ## CBC on block lists -/

structure CbcCfg.OK (c : CbcCfg) : Prop where
  bs : c.bs = 8 ∨ c.bs = 16
  inv : ∀ b, b.length = c.bs → c.dec (c.enc b) = b
  encLen : ∀ b, b.length = c.bs → (c.enc b).length = c.bs
  macLen : ∀ x, (c.mac x).length = c.macLen

theorem encBlocks_length (c : CbcCfg) (hc : c.OK) (iv : Bytes) (hiv : iv.length = c.bs) (BL : List Bytes)
    (hBL : ∀ b ∈ BL, b.length = c.bs) :
    (∀ x ∈ cbcEncBlocks c.enc iv BL, x.length = c.bs) ∧ (lastOr iv (cbcEncBlocks c.enc iv BL)).length = c.bs := by
  induction BL generalizing iv with
  | nil => simp [cbcEncBlocks, lastOr, hiv]
  | cons b BL ih =>
    have hb := hBL b (by simp)
    have hx : (xorBytes b iv).length = c.bs := by rw [xorBytes_length' _ _ (by omega)]; exact hb
    have he := hc.encLen _ hx
    have := ih (c.enc (xorBytes b iv)) he (fun x hx => hBL x (List.mem_cons_of_mem _ hx))
    simp only [cbcEncBlocks, lastOr]
    refine ⟨?_, this.2⟩
    intro x hx'
    simp only [List.mem_cons] at hx'
    rcases hx' with rfl | h
    · exact he
    · exact this.1 x h

theorem encBlocks_count (enc : Bytes → Bytes) (iv : Bytes) (BL : List Bytes) :
    (cbcEncBlocks enc iv BL).length = BL.length := by
  induction BL generalizing iv with
  | nil => rfl
  | cons b BL ih => simp only [cbcEncBlocks, List.length_cons]; rw [ih]

theorem decBlocks_encBlocks (c : CbcCfg) (hc : c.OK) (iv : Bytes) (hiv : iv.length = c.bs) (BL : List Bytes)
    (hBL : ∀ b ∈ BL, b.length = c.bs) :
    cbcDecBlocks c.dec iv (cbcEncBlocks c.enc iv BL) = BL := by
  induction BL generalizing iv with
  | nil => rfl
  | cons b BL ih =>
    have hb := hBL b (by simp)
    have hx : (xorBytes b iv).length = c.bs := by rw [xorBytes_length' _ _ (by omega)]; exact hb
    have he := hc.encLen _ hx
    simp only [cbcEncBlocks, cbcDecBlocks, hc.inv _ hx, xorBytes_involutive b iv (by omega)]
    rw [ih _ he (fun x hx => hBL x (List.mem_cons_of_mem _ hx))]

/-- CBC over a whole number of blocks, decrypted in two calls (first block, then the rest) as the reader does -/
theorem cbc_split_roundtrip (c : CbcCfg) (hc : c.OK) (iv P : Bytes) (hiv : iv.length = c.bs)
    (hP : P.length % c.bs = 0) (hPl : c.bs ≤ P.length) :
    let ct := (cbcEnc c iv P).1
    let iv' := (cbcEnc c iv P).2
    ct.length = P.length ∧ iv'.length = c.bs ∧
    cbcDec c iv (ct.take c.bs) = (P.take c.bs, ct.take c.bs) ∧
    cbcDec c (ct.take c.bs) (ct.drop c.bs) = (P.drop c.bs, iv') := by
  have hbs : 0 < c.bs := by rcases hc.bs with h | h <;> omega
  obtain ⟨hflat, hall⟩ := chunks_props c.bs hbs P hP
  simp only [cbcEnc]
  cases hBL : chunks c.bs P with
  | nil =>
    rw [hBL] at hflat
    simp at hflat
    subst hflat
    simp at hPl; omega
  | cons b1 BL =>
    rw [hBL] at hflat hall
    have hb1 := hall b1 (by simp)
    have hBLl : ∀ b ∈ BL, b.length = c.bs := fun x hx => hall x (List.mem_cons_of_mem _ hx)
    have hx : (xorBytes b1 iv).length = c.bs := by rw [xorBytes_length' _ _ (by omega)]; exact hb1
    have he := hc.encLen _ hx
    obtain ⟨c1, hc1⟩ : ∃ x, c.enc (xorBytes b1 iv) = x := ⟨_, rfl⟩
    rw [hc1] at he
    have hrest := encBlocks_length c hc c1 he BL hBLl
    simp only [cbcEncBlocks, hc1, List.flatten_cons, lastOr]
    have hP' : P = b1 ++ BL.flatten := by rw [← hflat]; simp
    have htk : (c1 ++ (cbcEncBlocks c.enc c1 BL).flatten).take c.bs = c1 := List.take_left' he
    have hdr : (c1 ++ (cbcEncBlocks c.enc c1 BL).flatten).drop c.bs = (cbcEncBlocks c.enc c1 BL).flatten :=
      List.drop_left' he
    have hlenflat : ∀ (L : List Bytes), (∀ x ∈ L, x.length = c.bs) → L.flatten.length = c.bs * L.length := by
      intro L hL
      induction L with
      | nil => simp
      | cons x L ih =>
        simp only [List.flatten_cons, List.length_append, List.length_cons, hL x (by simp),
          ih (fun y hy => hL y (List.mem_cons_of_mem _ hy))]
        rw [Nat.mul_succ]; omega
    have hnb : (cbcEncBlocks c.enc c1 BL).length = BL.length := encBlocks_count c.enc c1 BL
    refine ⟨?_, hrest.2, ?_, ?_⟩
    · rw [hP']
      simp only [List.length_append, he, hb1, hlenflat _ hrest.1, hlenflat _ hBLl, hnb]
    · rw [htk, hP', List.take_left' hb1]
      simp only [cbcDec]
      have : chunks c.bs c1 = [c1] := by
        have := chunks_block c.bs hbs c1 [] he
        rw [List.append_nil, chunks_nil] at this
        exact this
      rw [this]
      simp only [cbcDecBlocks, lastOr, List.flatten_cons, List.flatten_nil, List.append_nil, Prod.mk.injEq, and_true]
      rw [← hc1, hc.inv _ hx, xorBytes_involutive b1 iv (by omega)]
    · rw [htk, hdr, hP', List.drop_left' hb1]
      simp only [cbcDec]
      have := chunks_flatten c.bs hbs (cbcEncBlocks c.enc c1 BL) hrest.1 []
      rw [List.append_nil, chunks_nil, List.append_nil] at this
      rw [this, decBlocks_encBlocks c hc c1 he BL hBLl]

/-! ## one packet -/

/-- RFC 4253 §6 with CBC: the writer in one line:
    `CBC-enc(len ‖ padlen ‖ payload ‖ padding) ‖ MAC(seq ‖ len ‖ padlen ‖ payload ‖ padding)` -/
theorem cbcWrite_eq_spec (c : CbcCfg) (st : St) (seq : UInt32) (payload rnd : Bytes)
    (hrnd : cbcEncLen c.bs payload.length - 4 - (1 + payload.length) ≤ rnd.length) :
    cbcWrite c st seq payload rnd =
      let padLen := cbcEncLen c.bs payload.length - 4 - (1 + payload.length)
      let pkt := u32be (UInt32.ofNat (cbcEncLen c.bs payload.length - 4)) ++ [UInt8.ofNat padLen] ++ payload ++ rnd.take padLen
      .ok ((cbcEnc c st.iv pkt).1 ++ c.mac (u32be seq ++ pkt), ⟨st.pos, (cbcEnc c st.iv pkt).2⟩, rnd.drop padLen) := by
  have h2 : ¬ rnd.length < cbcEncLen c.bs payload.length - 4 - (1 + payload.length) := by omega
  simp only [cbcWrite, h2, if_false]

theorem cbcRead_write (c : CbcCfg) (hc : c.OK) (st : St) (hst : st.iv.length = c.bs) (seq : UInt32)
    (payload rnd tl : Bytes) (wire : Bytes) (st' : St) (rnd' : Bytes)
    (hn : 1 ≤ payload.length) (hfit : cbcEncLen c.bs payload.length - 4 ≤ maxPacket)
    (hw : cbcWrite c st seq payload rnd = .ok (wire, st', rnd')) :
    cbcRead c st seq (wire ++ tl) = ⟨.ok payload, tl, st'⟩ ∧ st'.iv.length = c.bs := by
  have hmaxP : maxPacket = 262144 := rfl
  have hE := cbcEncLen_spec c.bs payload.length hc.bs
  simp only at hE
  obtain ⟨e, hEe⟩ : ∃ e, cbcEncLen c.bs payload.length = e := ⟨_, rfl⟩
  rw [hEe] at hE hfit
  obtain ⟨hmul, h16, hlo, hhi, hp4, hp255⟩ := hE
  by_cases hr : rnd.length < e - 4 - (1 + payload.length)
  · simp [cbcWrite, hEe, hr] at hw
  rw [cbcWrite_eq_spec c st seq payload rnd (by rw [hEe]; omega), hEe] at hw
  simp only [Except.ok.injEq, Prod.mk.injEq] at hw
  obtain ⟨hwire, hst', _⟩ := hw
  obtain ⟨padLen, hPL⟩ : ∃ p, e - 4 - (1 + payload.length) = p := ⟨_, rfl⟩
  rw [hPL] at hwire hst' hp4 hp255
  obtain ⟨padding, hpd, hpl⟩ : ∃ padding, rnd.take padLen = padding ∧ padding.length = padLen :=
    ⟨_, rfl, by simp; omega⟩
  rw [hpd] at hwire hst'
  obtain ⟨lb, hL, hL4⟩ : ∃ lb, u32be (UInt32.ofNat (e - 4)) = lb ∧ lb.length = 4 := ⟨_, rfl, u32be_length _⟩
  rw [hL] at hwire hst'
  have hlen32 : (UInt32.ofNat (e - 4)).toNat = e - 4 := ofNat_toNat_u32' _ (by omega)
  have hpad8 : (UInt8.ofNat padLen).toNat = padLen := ofNat_toNat_u8' _ (by omega)
  obtain ⟨P, hP, hPlen⟩ : ∃ P, lb ++ [UInt8.ofNat padLen] ++ payload ++ padding = P ∧ P.length = e :=
    ⟨_, rfl, by simp [hL4, hpl]; omega⟩
  rw [hP] at hwire hst'
  have hbsle : c.bs ≤ e := by rcases hc.bs with h | h <;> omega
  have hbs8 : 8 ≤ c.bs := by rcases hc.bs with h | h <;> omega
  have hPmod : P.length % c.bs = 0 := by
    rw [hPlen]
    rcases hc.bs with h | h
    · rw [h] at hmul ⊢; simpa using hmul
    · rw [h] at hmul ⊢; simpa using hmul
  obtain ⟨hctl, hivl, hd1, hd2⟩ := cbc_split_roundtrip c hc st.iv P hst hPmod (by omega)
  obtain ⟨ct, hCT⟩ : ∃ x, (cbcEnc c st.iv P).1 = x := ⟨_, rfl⟩
  obtain ⟨iv', hIV⟩ : ∃ x, (cbcEnc c st.iv P).2 = x := ⟨_, rfl⟩
  rw [hCT] at hwire hctl hd1 hd2
  rw [hIV] at hst' hivl hd2
  obtain ⟨tag, hT, hTl⟩ : ∃ t, c.mac (u32be seq ++ P) = t ∧ t.length = c.macLen := ⟨_, rfl, hc.macLen _⟩
  rw [hT] at hwire
  refine ⟨?_, by rw [← hst']; exact hivl⟩
  subst hwire
  unfold cbcRead
  have hfbl : (5 + c.bs - 1) / c.bs * c.bs = c.bs := by rcases hc.bs with h | h <;> rw [h]
  have hin : ¬ (ct ++ tag ++ tl).length < c.bs := by simp; omega
  have htkf : (ct ++ tag ++ tl).take c.bs = ct.take c.bs := by
    rw [List.append_assoc, List.take_append_of_le_length (by omega)]
  have hr1 : (ct ++ tag ++ tl).drop c.bs = ct.drop c.bs ++ tag ++ tl := by
    rw [List.append_assoc, List.drop_append_of_le_length (by omega), List.append_assoc]
  simp only [hfbl, hin, if_false, htkf, hr1, hd1]
  -- the header fields
  have hPtk4 : (P.take c.bs).take 4 = lb := by
    rw [List.take_take, Nat.min_eq_left (by omega), ← hP]
    simp only [List.append_assoc]; exact List.take_left' hL4
  have hbe : (be32 (P.take c.bs)).toNat = e - 4 := by
    unfold be32; rw [hPtk4, ← hL]
    have := be32_u32be (UInt32.ofNat (e - 4)) []
    unfold be32 at this
    rw [List.append_nil, List.take_of_length_le (by simp [u32be_length])] at this
    rw [this, hlen32]
  have hget : (P.take c.bs).getD 4 0 = UInt8.ofNat padLen := by
    rw [List.getD_eq_getElem?_getD, List.getElem?_take_of_lt (by omega), ← hP]
    simp only [List.append_assoc]
    rw [List.getElem?_append_right (by omega)]; simp [hL4]
  simp only [hbe, hget, hpad8]
  have hmax8 : max 8 c.bs = c.bs := Nat.max_eq_right hbs8
  have hmax16 : ¬ e - 4 + 4 < max 16 c.bs := by
    rw [Nat.max_def]; split <;> omega
  have hbad : (decide (e - 4 > maxPacket) || decide (e - 4 + 4 < max 16 c.bs) ||
      (e - 4 + 4) % max 8 c.bs != 0 || decide (padLen < 4) || decide (e - 4 ≤ padLen + 1)) = false := by
    have h1 : ¬ e - 4 > maxPacket := by omega
    have h3 : (e - 4 + 4) % max 8 c.bs = 0 := by
      have : e - 4 + 4 = e := by omega
      rw [this]; exact hmul
    have h4 : ¬ padLen < 4 := by omega
    have h5 : ¬ e - 4 ≤ padLen + 1 := by omega
    simp [h1, hmax16, h3, h4, h5]
  simp only [hbad, Bool.false_eq_true, if_false]
  have hmore : ¬ (ct.drop c.bs ++ tag ++ tl).length < 4 + (e - 4) + c.macLen - c.bs := by
    simp; omega
  have htk2 : (ct.drop c.bs ++ tag ++ tl).take (4 + (e - 4) - c.bs) = ct.drop c.bs := by
    rw [List.append_assoc]; exact List.take_left' (by simp; omega)
  have htag : ((ct.drop c.bs ++ tag ++ tl).drop (4 + (e - 4) - c.bs)).take c.macLen = tag := by
    have : (ct.drop c.bs ++ tag ++ tl).drop (4 + (e - 4) - c.bs) = tag ++ tl := by
      rw [List.append_assoc]; exact List.drop_left' (by simp; omega)
    rw [this]; exact List.take_left' hTl
  have hr2 : (ct.drop c.bs ++ tag ++ tl).drop (4 + (e - 4) + c.macLen - c.bs) = tl :=
    List.drop_left' (by simp; omega)
  have hplain : P.take c.bs ++ P.drop c.bs = P := List.take_append_drop _ _
  have hmac : (c.mac (u32be seq ++ P) == tag) = true := by rw [hT]; simp
  simp only [hmore, if_false, htk2, hd2, htag, hr2, hplain, hmac, Bool.not_true, Bool.false_eq_true]
  have hpay : (P.take (4 + (e - 4) - padLen)).drop 5 = payload := by
    rw [← hP]
    have : lb ++ [UInt8.ofNat padLen] ++ payload ++ padding = (lb ++ [UInt8.ofNat padLen] ++ payload) ++ padding := rfl
    rw [this, List.take_left' (by simp [hL4]; omega)]
    have : lb ++ [UInt8.ofNat padLen] ++ payload = (lb ++ [UInt8.ofNat padLen]) ++ payload := rfl
    rw [this, List.drop_left' (by simp [hL4])]
  rw [hpay, ← hst']

end XC.C25
