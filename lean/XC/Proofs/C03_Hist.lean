/-
  C03 — XORKeyStream / SetCounter refine the abstract step; histories by induction.
-/
import XC.Proofs.C03_Step
namespace XC.C03

theorem tc_le (s : Cipher) : tc s ≤ 2 ^ 32 := by
  unfold tc
  split
  · exact Nat.le_refl _
  · exact Nat.le_of_lt (UInt32.toNat_lt _)

/-- XORKeyStream (bufSize = 64) against the specification -/
theorem xorKeyStream_spec (s : Cipher) (hi : Inv s) (src : Bytes) :
    if src.length = 0 then xorKeyStream 1 s src = .ok (s, [])
    else if pos s + src.length > limit then xorKeyStream 1 s src = .error .overflow
    else ∃ s', xorKeyStream 1 s src = .ok (s', xorBytes src (ksRange s.key s.nonce (pos s) src.length)) ∧
         Inv s' ∧ pos s' = pos s + src.length ∧ s'.key = s.key ∧ s'.nonce = s.nonce := by
  by_cases h0 : src.length = 0
  · simp [h0, xorKeyStream]
  simp only [h0, if_false]
  have htc := tc_le s
  by_cases hl0 : s.len = 0
  · -- nothing buffered
    have hd : drain 1 s src = (s, [], src) := by simp [drain, hl0]
    have hp : pos s = 64 * tc s := by simp [pos, hl0]
    have := xorRest_spec s hi hl0 src h0
    rw [hp]
    simp only [xorKeyStream, h0, hd, if_false]
    by_cases hpanic : 64 * tc s + src.length > limit
    · simp only [hpanic, if_true] at this ⊢
      simp [this, Except.map]
    · simp only [hpanic, if_false] at this ⊢
      obtain ⟨s', he, hinv, hpos, hk, hn⟩ := this
      exact ⟨s', by simp [he, Except.map], hinv, hpos, hk, hn⟩
  · -- drain the buffered keystream first
    have hks : (s.buf.drop (64 * 1 - s.len)).take src.length =
        ksRange s.key s.nonce (pos s) (min src.length s.len) := by
      rw [Nat.mul_one, hi.bufks, ksRange_take]
    have hd : drain 1 s src =
        ({ s with len := s.len - min src.length s.len },
          xorBytes (src.take (min src.length s.len)) (ksRange s.key s.nonce (pos s) (min src.length s.len)),
          src.drop (min src.length s.len)) := by
      simp only [drain, hl0, if_false, hks, ksRange_length]
    have hlenle := hi.lenle
    have hlenlt := hi.lenlt
    by_cases hshort : src.length ≤ s.len
    · -- the buffered keystream suffices
      have hmin : min src.length s.len = src.length := Nat.min_eq_left hshort
      have hpdef : pos s = 64 * tc s - s.len := rfl
      have hnp : ¬ (pos s + src.length > limit) := by simp only [limit]; omega
      simp only [hnp, if_false]
      rw [hmin] at hd
      refine ⟨{ s with len := s.len - src.length }, ?_, ?_, ?_, rfl, rfl⟩
      · simp [xorKeyStream, h0, hd]
      · have hpos' : pos { s with len := s.len - src.length } = pos s + src.length := by
          show 64 * tc s - (s.len - src.length) = pos s + src.length
          omega
        refine ⟨hi.buflen, by simp only; omega, by show s.len - src.length ≤ 64 * tc s; omega, hi.ovf, ?_, hi.pre⟩
        rw [hpos']
        simp only
        rw [show 64 - (s.len - src.length) = (64 - s.len) + src.length by omega, ← List.drop_drop, hi.bufks,
          ksRange_drop]
      · show 64 * tc s - (s.len - src.length) = pos s + src.length
        omega
    · -- all of the buffer is used, the rest comes from fresh blocks
      have hmin : min src.length s.len = s.len := Nat.min_eq_right (by omega)
      rw [hmin, Nat.sub_self] at hd
      have hi1 : Inv { s with len := 0 } := by
        refine ⟨hi.buflen, by simp, by simp, hi.ovf, ?_, hi.pre⟩
        simp [hi.buflen, ksRange]
      have hr : (src.drop s.len).length ≠ 0 := by simp; omega
      have hrl : (src.drop s.len).length = src.length - s.len := by simp
      have htc1 : tc { s with len := 0 } = tc s := rfl
      have := xorRest_spec { s with len := 0 } hi1 rfl (src.drop s.len) hr
      rw [htc1, hrl] at this
      have hcond : (64 * tc s + (src.length - s.len) > limit) ↔ (pos s + src.length > limit) := by
        simp only [pos]; omega
      simp only [xorKeyStream, h0, hd, if_false, hr]
      by_cases hpanic : pos s + src.length > limit
      · simp only [hpanic, if_true]
        simp only [hcond.mpr hpanic, if_true] at this
        simp [this, Except.map]
      · simp only [hpanic, if_false]
        have hnc : ¬ (64 * tc s + (src.length - s.len) > limit) := fun h => hpanic (hcond.mp h)
        simp only [hnc, if_false] at this
        obtain ⟨s', he, hinv, hpos, hk, hn⟩ := this
        refine ⟨s', ?_, hinv, by rw [hpos]; simp only [pos]; omega, hk, hn⟩
        simp only [he, Except.map]
        congr 2
        have hk2 : ksRange s.key s.nonce (pos s) src.length =
            ksRange s.key s.nonce (pos s) s.len ++ ksRange s.key s.nonce (pos s + s.len) (src.length - s.len) := by
          rw [← ksRange_add]; congr 1; omega
        rw [hk2, xorBytes_split _ _ _ (by simp [ksRange_length]; omega), ksRange_length]
        congr 3
        simp only [pos]; omega

/-- SetCounter (bufSize = 64) against the specification -/
theorem setCounter_spec (s : Cipher) (hi : Inv s) (c : UInt32) :
    if pos s > limit - 64 ∨ 64 * c.toNat < pos s then setCounter s c = .error .rollback
    else ∃ s', setCounter s c = .ok s' ∧ Inv s' ∧ pos s' = 64 * c.toNat ∧ s'.key = s.key ∧ s'.nonce = s.nonce := by
  have hlenlt := hi.lenlt
  have hlenle := hi.lenle
  have hl64 : s.len / 64 = 0 := by omega
  have hpdef : pos s = 64 * tc s - s.len := rfl
  have hclt := UInt32.toNat_lt s.counter
  by_cases hov : s.overflow = true
  · have htc : tc s = 2 ^ 32 := by simp [tc, hov]
    have : pos s > limit - 64 := by simp only [limit]; omega
    simp [this, setCounter, hov]
  · have hov' : s.overflow = false := by simpa using hov
    have htc : tc s = s.counter.toNat := by simp [tc, hov']
    have hlt : c < s.counter ↔ 64 * c.toNat < pos s := by
      rw [UInt32.lt_iff_toNat_lt]; omega
    have hnot : ¬ (pos s > limit - 64) := by simp only [limit]; omega
    by_cases hroll : 64 * c.toNat < pos s
    · simp [hroll, setCounter, hov', hl64, hlt.mpr hroll]
    · have hnlt : ¬ (c < s.counter) := fun h => hroll (hlt.mp h)
      simp only [hnot, hroll, or_self, if_false]
      refine ⟨{ s with counter := c, len := 0 }, ?_, ?_, ?_, rfl, rfl⟩
      · simp [setCounter, hov', hl64, hnlt]
      · refine ⟨hi.buflen, by simp, by simp, ?_, ?_, hi.pre⟩
        · intro h; exact absurd h hov
        · simp [hi.buflen, ksRange]
      · simp [pos, tc, hov']

/-- one concrete step refines the abstract step: same panic, or same output with the invariant and the
    abstraction carried to the next state -/
theorem step_refines (s : Cipher) (hi : Inv s) (op : Op) :
    match step 1 s op, specStep s.key s.nonce (pos s) op with
    | .ok (s', out), .ok (p', out') => Inv s' ∧ pos s' = p' ∧ out = out' ∧ s'.key = s.key ∧ s'.nonce = s.nonce
    | .error e, .error e' => e = e'
    | _, _ => False := by
  cases op with
  | xor src =>
    have := xorKeyStream_spec s hi src
    simp only [step, specStep]
    by_cases h0 : src.length = 0
    · simp only [h0, if_true] at this ⊢
      rw [this]
      exact ⟨hi, rfl, rfl, rfl, rfl⟩
    · simp only [h0, if_false] at this ⊢
      by_cases hp : pos s + src.length > limit
      · simp only [hp, if_true] at this ⊢
        rw [this]
      · simp only [hp, if_false] at this ⊢
        obtain ⟨s', he, hinv, hpos, hk, hn⟩ := this
        rw [he]
        exact ⟨hinv, hpos, rfl, hk, hn⟩
  | setCounter c =>
    have := setCounter_spec s hi c
    simp only [step, specStep]
    by_cases hp : pos s > limit - 64 ∨ 64 * c.toNat < pos s
    · simp only [hp, if_true] at this ⊢
      rw [this]
      rfl
    · simp only [hp, if_false] at this ⊢
      obtain ⟨s', he, hinv, hpos, hk, hn⟩ := this
      rw [he]
      exact ⟨hinv, hpos, rfl, hk, hn⟩

/-- **history refinement**: for every history of XORKeyStream / SetCounter calls, the concrete cipher
    produces exactly the outputs and the panic of the position-based specification -/
theorem run_refines (ops : List Op) (s : Cipher) (hi : Inv s) :
    run 1 s ops = specRun s.key s.nonce (pos s) ops := by
  induction ops generalizing s with
  | nil => rfl
  | cons op rest ih =>
    have h := step_refines s hi op
    simp only [run, specRun]
    cases hc : step 1 s op with
    | error e =>
      cases ha : specStep s.key s.nonce (pos s) op with
      | error e' => simp only [hc, ha] at h; simp [h]
      | ok r => simp only [hc, ha] at h
    | ok r =>
      obtain ⟨s', out⟩ := r
      cases ha : specStep s.key s.nonce (pos s) op with
      | error e' => simp only [hc, ha] at h
      | ok r' =>
        obtain ⟨p', out'⟩ := r'
        simp only [hc, ha] at h
        obtain ⟨hinv, hpos, hout, hk, hn⟩ := h
        simp only
        rw [ih s' hinv, hk, hn, hpos, hout]

end XC.C03
