/-
  C03 — XORKeyStream / SetCounter refine the abstract step; histories by induction.
-/
import XC.Proofs.C03_Step
namespace XC.C03

theorem tc_le (s : Cipher) : tc s ≤ 2 ^ 32 := by
  unfold tc
  split
  · exact Nat.le_refl _
  · exact Nat.le_of_lt (UInt32.toNat_lt _)

/-- XORKeyStream (bufSize = 64·m) against the specification -/
theorem xorKeyStream_spec (m : Nat) (s : Cipher) (hi : Inv m s) (src : Bytes) :
    if src.length = 0 then xorKeyStream m s src = .ok (s, [])
    else if pos s + src.length > limit then xorKeyStream m s src = .error .overflow
    else ∃ s', xorKeyStream m s src = .ok (s', xorBytes src (ksRange s.key s.nonce (pos s) src.length)) ∧
         Inv m s' ∧ pos s' = pos s + src.length ∧ s'.key = s.key ∧ s'.nonce = s.nonce := by
  by_cases h0 : src.length = 0
  · simp [h0, xorKeyStream]
  simp only [h0, if_false]
  have htc := tc_le s
  by_cases hl0 : s.len = 0
  · -- nothing buffered
    have hd : drain m s src = (s, [], src) := by simp [drain, hl0]
    have hp : pos s = 64 * tc s := by simp [pos, hl0]
    have := xorRest_spec m s hi hl0 src h0
    rw [hp]
    simp only [xorKeyStream, h0, hd, if_false]
    by_cases hpanic : 64 * tc s + src.length > limit
    · simp only [hpanic, if_true] at this ⊢
      simp [this, Except.map]
    · simp only [hpanic, if_false] at this ⊢
      obtain ⟨s', he, hinv, hpos, hk, hn⟩ := this
      exact ⟨s', by simp [he, Except.map], hinv, hpos, hk, hn⟩
  · -- drain the buffered keystream first
    have hks : (s.buf.drop (64 * m - s.len)).take src.length =
        ksRange s.key s.nonce (pos s) (min src.length s.len) := by
      rw [hi.bufks, ksRange_take]
    have hd : drain m s src =
        ({ s with len := s.len - min src.length s.len },
          xorBytes (src.take (min src.length s.len)) (ksRange s.key s.nonce (pos s) (min src.length s.len)),
          src.drop (min src.length s.len)) := by
      simp only [drain, hl0, if_false, hks, ksRange_length]
    have hlenle := hi.lenle
    have hlenlt := hi.lenlt
    by_cases hshort : src.length ≤ s.len
    · -- the buffered keystream suffices
      have hmin : min src.length s.len = src.length := Nat.min_eq_left hshort
      have hpdef : pos s = 64 * tc s - s.len := rfl
      have hnp : ¬ (pos s + src.length > limit) := by simp only [limit]; omega
      simp only [hnp, if_false]
      rw [hmin] at hd
      refine ⟨{ s with len := s.len - src.length }, ?_, ?_, ?_, rfl, rfl⟩
      · simp [xorKeyStream, h0, hd]
      · have hpos' : pos { s with len := s.len - src.length } = pos s + src.length := by
          show 64 * tc s - (s.len - src.length) = pos s + src.length
          omega
        refine ⟨hi.mpos, hi.buflen, by simp only; omega, by show s.len - src.length ≤ 64 * tc s; omega, hi.ovf, ?_, hi.pre,
          fun h => by have := hi.ovflen h; simp only; omega⟩
        rw [hpos']
        simp only
        rw [show 64 * m - (s.len - src.length) = (64 * m - s.len) + src.length by omega, ← List.drop_drop, hi.bufks,
          ksRange_drop]
      · show 64 * tc s - (s.len - src.length) = pos s + src.length
        omega
    · -- all of the buffer is used, the rest comes from fresh blocks
      have hmin : min src.length s.len = s.len := Nat.min_eq_right (by omega)
      rw [hmin, Nat.sub_self] at hd
      have hm := hi.mpos
      have hi1 : Inv m { s with len := 0 } := by
        refine ⟨hi.mpos, hi.buflen, by simp only; omega, by simp, hi.ovf, ?_, hi.pre, fun _ => by simp⟩
        simp [hi.buflen, ksRange]
      have hr : (src.drop s.len).length ≠ 0 := by simp; omega
      have hrl : (src.drop s.len).length = src.length - s.len := by simp
      have htc1 : tc { s with len := 0 } = tc s := rfl
      have := xorRest_spec m { s with len := 0 } hi1 rfl (src.drop s.len) hr
      rw [htc1, hrl] at this
      have hcond : (64 * tc s + (src.length - s.len) > limit) ↔ (pos s + src.length > limit) := by
        simp only [pos]; omega
      simp only [xorKeyStream, h0, hd, if_false, hr]
      by_cases hpanic : pos s + src.length > limit
      · simp only [hpanic, if_true]
        simp only [hcond.mpr hpanic, if_true] at this
        simp [this, Except.map]
      · simp only [hpanic, if_false]
        have hnc : ¬ (64 * tc s + (src.length - s.len) > limit) := fun h => hpanic (hcond.mp h)
        simp only [hnc, if_false] at this
        obtain ⟨s', he, hinv, hpos, hk, hn⟩ := this
        refine ⟨s', ?_, hinv, by rw [hpos]; simp only [pos]; omega, hk, hn⟩
        simp only [he, Except.map]
        congr 2
        have hk2 : ksRange s.key s.nonce (pos s) src.length =
            ksRange s.key s.nonce (pos s) s.len ++ ksRange s.key s.nonce (pos s + s.len) (src.length - s.len) := by
          rw [← ksRange_add]; congr 1; omega
        rw [hk2, xorBytes_split _ _ _ (by simp [ksRange_length]; omega), ksRange_length]
        congr 3
        simp only [pos]; omega

/-- SetCounter (bufSize = 64·m) against the specification -/
theorem setCounter_spec (m : Nat) (s : Cipher) (hi : Inv m s) (c : UInt32) :
    if pos s > limit - 64 ∨ 64 * c.toNat < pos s then setCounter s c = .error .rollback
    else ∃ s', setCounter s c = .ok s' ∧ Inv m s' ∧ pos s' = 64 * c.toNat ∧ s'.key = s.key ∧ s'.nonce = s.nonce := by
  have hlenlt := hi.lenlt
  have hlenle := hi.lenle
  have hm := hi.mpos
  have hpdef : pos s = 64 * tc s - s.len := rfl
  have hclt := UInt32.toNat_lt s.counter
  by_cases hov : s.overflow = true
  · -- the last block has been produced; less than one block is still buffered
    have htc : tc s = 2 ^ 32 := by simp [tc, hov]
    have hl := hi.ovflen hov
    have : pos s > limit - 64 := by simp only [limit]; omega
    simp [this, setCounter, hov]
  · have hov' : s.overflow = false := by simpa using hov
    have htc : tc s = s.counter.toNat := by simp [tc, hov']
    have hoc : (s.counter - UInt32.ofNat (s.len / 64)).toNat = s.counter.toNat - s.len / 64 := by
      have h1 : (UInt32.ofNat (s.len / 64)).toNat = s.len / 64 := by
        rw [UInt32.toNat_ofNat']; omega
      rw [UInt32.toNat_sub_of_le _ _ (by rw [UInt32.le_iff_toNat_le, h1]; omega), h1]
    have hlt : c < s.counter - UInt32.ofNat (s.len / 64) ↔ 64 * c.toNat < pos s := by
      rw [UInt32.lt_iff_toNat_lt, hoc]; omega
    have hnot : ¬ (pos s > limit - 64) := by simp only [limit]; omega
    by_cases hroll : 64 * c.toNat < pos s
    · simp [hroll, setCounter, hov', hlt.mpr hroll]
    · have hnlt : ¬ (c < s.counter - UInt32.ofNat (s.len / 64)) := fun h => hroll (hlt.mp h)
      simp only [hnot, hroll, or_self, if_false]
      by_cases hin : c < s.counter
      · -- advancing inside the buffered blocks
        have hin' : c.toNat < s.counter.toNat := UInt32.lt_iff_toNat_lt.mp hin
        have hd : (s.counter - c).toNat = s.counter.toNat - c.toNat := by
          rw [UInt32.toNat_sub_of_le _ _ (by rw [UInt32.le_iff_toNat_le]; omega)]
        have hnl : (s.counter - c).toNat * 64 ≤ s.len := by rw [hd]; omega
        refine ⟨{ s with len := (s.counter - c).toNat * 64 }, ?_, ?_, ?_, rfl, rfl⟩
        · simp [setCounter, hov', hnlt, hin]
        · have hpos' : pos { s with len := (s.counter - c).toNat * 64 } = 64 * c.toNat := by
            show 64 * tc s - (s.counter - c).toNat * 64 = 64 * c.toNat
            rw [htc, hd]; omega
          refine ⟨hm, hi.buflen, by simp only; omega, by show (s.counter - c).toNat * 64 ≤ 64 * tc s; omega,
            hi.ovf, ?_, hi.pre, ?_⟩
          · rw [hpos']
            simp only
            rw [show 64 * m - (s.counter - c).toNat * 64 =
              (64 * m - s.len) + (s.len - (s.counter - c).toNat * 64) by omega, ← List.drop_drop, hi.bufks,
              ksRange_drop]
            congr 1
            · rw [hd]; omega
            · omega
          · intro h; exact absurd h hov
        · show 64 * tc s - (s.counter - c).toNat * 64 = 64 * c.toNat
          rw [htc, hd]; omega
      · refine ⟨{ s with counter := c, len := 0 }, ?_, ?_, ?_, rfl, rfl⟩
        · simp [setCounter, hov', hnlt, hin]
        · refine ⟨hm, hi.buflen, by simp only; omega, by simp, ?_, ?_, hi.pre, ?_⟩
          · intro h; exact absurd h hov
          · simp [hi.buflen, ksRange]
          · intro h; exact absurd h hov
        · simp [pos, tc, hov']

/-- one concrete step refines the abstract step: same panic, or same output with the invariant and the
    abstraction carried to the next state -/
theorem step_refines (m : Nat) (s : Cipher) (hi : Inv m s) (op : Op) :
    match step m s op, specStep s.key s.nonce (pos s) op with
    | .ok (s', out), .ok (p', out') => Inv m s' ∧ pos s' = p' ∧ out = out' ∧ s'.key = s.key ∧ s'.nonce = s.nonce
    | .error e, .error e' => e = e'
    | _, _ => False := by
  cases op with
  | xor src =>
    have := xorKeyStream_spec m s hi src
    simp only [step, specStep]
    by_cases h0 : src.length = 0
    · simp only [h0, if_true] at this ⊢
      rw [this]
      exact ⟨hi, rfl, rfl, rfl, rfl⟩
    · simp only [h0, if_false] at this ⊢
      by_cases hp : pos s + src.length > limit
      · simp only [hp, if_true] at this ⊢
        rw [this]
      · simp only [hp, if_false] at this ⊢
        obtain ⟨s', he, hinv, hpos, hk, hn⟩ := this
        rw [he]
        exact ⟨hinv, hpos, rfl, hk, hn⟩
  | setCounter c =>
    have := setCounter_spec m s hi c
    simp only [step, specStep]
    by_cases hp : pos s > limit - 64 ∨ 64 * c.toNat < pos s
    · simp only [hp, if_true] at this ⊢
      rw [this]
      rfl
    · simp only [hp, if_false] at this ⊢
      obtain ⟨s', he, hinv, hpos, hk, hn⟩ := this
      rw [he]
      exact ⟨hinv, hpos, rfl, hk, hn⟩

/-- **history refinement**: for every history of XORKeyStream / SetCounter calls, the concrete cipher
    produces exactly the outputs and the panic of the position-based specification -/
theorem run_refines (m : Nat) (ops : List Op) (s : Cipher) (hi : Inv m s) :
    run m s ops = specRun s.key s.nonce (pos s) ops := by
  induction ops generalizing s with
  | nil => rfl
  | cons op rest ih =>
    have h := step_refines m s hi op
    simp only [run, specRun]
    cases hc : step m s op with
    | error e =>
      cases ha : specStep s.key s.nonce (pos s) op with
      | error e' => simp only [hc, ha] at h; simp [h]
      | ok r => simp only [hc, ha] at h
    | ok r =>
      obtain ⟨s', out⟩ := r
      cases ha : specStep s.key s.nonce (pos s) op with
      | error e' => simp only [hc, ha] at h
      | ok r' =>
        obtain ⟨p', out'⟩ := r'
        simp only [hc, ha] at h
        obtain ⟨hinv, hpos, hout, hk, hn⟩ := h
        simp only
        rw [ih s' hinv, hk, hn, hpos, hout]

end XC.C03
