/-
  C33 — lemma layer: the counters of the auth loop as functions of the observable log.
-/
import XC.Model.C33
import XC.Proofs.C32Hist
namespace XC.C33
open XC.C32

/-- events that are not AuthLogCallback records -/
def nolog : Ev → Bool
  | .log _ _ => false
  | _ => true

theorem fold_nolog (acc : Nat × Nat) (evs : List Ev) (h : evs.all nolog = true) : evs.foldl failStep acc = acc := by
  induction evs generalizing acc with
  | nil => rfl
  | cons e es ih =>
    simp at h
    simp only [List.foldl_cons]
    have : failStep acc e = acc := by
      cases e <;> simp [failStep, nolog] at h ⊢
    rw [this]
    exact ih acc (by simpa using h.2)

/-- the counters an iteration can touch, bundled -/
structure Counts where
  failures : Nat
  attempts : Nat
  noneCount : Nat
  partialRet : Bool
  user : String
deriving DecidableEq

def counts (st : St) : Counts := ⟨st.failures, st.attempts, st.noneCount, st.partialRet, st.user⟩

theorem pkPhase_counts {cfg : Cfg} {st st' : St} {r : Req} {evs : List Ev}
    (hph : pkPhase cfg st r = .again st' evs ∨ ∃ p e, pkPhase cfg st r = .res st' evs p e) :
    counts st' = counts st ∧ st'.cbs = st.cbs ∧ evs.all nolog = true := by
  unfold pkPhase at hph
  split at hph
  · rename_i ph hp
    rcases pkPre_some hp with h1 | h1 <;> subst h1
    · simp at hph
    · simp at hph
      obtain ⟨rfl, rfl⟩ := hph
      simp
  · split at hph
    · simp at hph
    · rename_i cand st2 evs2 hl
      obtain ⟨_, _, _, l4⟩ := pkLookup_some hl
      have hd : st' = st2 ∧ ∃ x, evs = evs2 ++ x ∧ x.all nolog = true := by
        rcases hph with h | ⟨p, e, h⟩
        · obtain ⟨a, b, _⟩ := pkDecide_again' h
          exact ⟨a, _, b, by simp [nolog]⟩
        · obtain ⟨a, b | ⟨b, _⟩⟩ := pkDecide_res' h
          · exact ⟨a, [], by simp [b], by simp⟩
          · exact ⟨a, _, b, by simp [nolog]⟩
      obtain ⟨rfl, x, rfl, hxn⟩ := hd
      rcases l4 with ⟨_, rfl, rfl⟩ | ⟨_, rfl, rfl, _⟩
      · exact ⟨rfl, rfl, by simpa using hxn⟩
      · exact ⟨rfl, rfl, by simp [nolog, hxn]⟩

theorem kgEv_nolog {st : St} {r : Req} {x : List Ev} (h : x.all (kgEv st r) = true) : x.all nolog = true := by
  rw [List.all_eq_true] at h ⊢
  intro e he
  have := h e he
  cases e <;> simp [kgEv, auxEv, nolog] at this ⊢

theorem methodPhase_counts {cfg : Cfg} {st st' : St} {r : Req} {evs : List Ev}
    (hph : methodPhase cfg st r = .again st' evs ∨ ∃ p e, methodPhase cfg st r = .res st' evs p e) :
    counts st' = { counts st with noneCount := if r.method = "none" then st.noneCount + 1 else st.noneCount } ∧
    st'.cbs = st.cbs ∧ evs.all nolog = true ∧
    ((methodPhase cfg st r = .again st' evs) → r.method ≠ "none") := by
  unfold methodPhase at hph ⊢
  by_cases h1 : r.method = "none"
  · simp only [h1] at hph ⊢
    simp only [beq_self_eq_true, if_true] at hph ⊢
    unfold nonePhase at hph ⊢
    (repeat' split at hph) <;> simp at hph <;> obtain ⟨rfl, rfl⟩ := hph <;> simp [counts, nolog]
    all_goals (repeat' split) <;> simp
  · have hb : (r.method == "none") = false := by simpa using h1
    simp only [hb] at hph ⊢
    simp only [Bool.false_eq_true, if_false] at hph ⊢
    simp only [h1, if_false, ne_eq, not_false_eq_true, implies_true, and_true]
    split at hph
    · unfold pwPhase at hph
      (repeat' split at hph) <;> simp at hph <;> obtain ⟨rfl, rfl⟩ := hph <;> simp [counts, nolog]
    · split at hph
      · rename_i hm
        simp at hm
        obtain ⟨rfl, hx⟩ := kg_result (Or.inl ⟨hm, rfl⟩) hph
        exact ⟨rfl, rfl, kgEv_nolog hx⟩
      · split at hph
        · exact pkPhase_counts hph
        · split at hph
          · rename_i hm
            simp at hm
            obtain ⟨rfl, hx⟩ := kg_result (Or.inr ⟨hm, rfl⟩) hph
            exact ⟨rfl, rfl, kgEv_nolog hx⟩
          · simp at hph
            obtain ⟨rfl, rfl⟩ := hph
            simp [counts]

theorem bump_eq (st : St) (r : Req) :
    bumpFailures st r =
      if (LogRes.fail == LogRes.fail && !(st.failures == 0 && r.method == "none" && st.noneCount == 1)) then st.failures + 1
      else st.failures := by
  unfold bumpFailures
  by_cases h1 : st.failures = 0 <;> by_cases h2 : r.method = "none" <;> by_cases h3 : st.noneCount = 1 <;>
    simp [h1, h2, h3] <;> omega

theorem finish_counts {cfg : Cfg} {st st' : St} {r : Req} {evs evs' : List Ev} {perms : Nat} {e : AuthErr}
    (h : finish cfg st r evs perms e = .cont st' evs') :
    ∃ res x, evs' = evs ++ Ev.log r.method res :: x ∧ x.all nolog = true ∧
      st'.attempts = st.attempts ∧ st'.noneCount = st.noneCount ∧ st'.user = st.user ∧
      st'.failures = (if (res == LogRes.fail && !(st.failures == 0 && r.method == "none" && st.noneCount == 1))
        then st.failures + 1 else st.failures) ∧
      (st.partialRet = true → st'.partialRet = true) := by
  unfold finish at h
  generalize saFilter cfg perms e = e' at h
  unfold conclude at h
  cases e' with
  | ok => simp at h
  | partialOk nx g =>
    simp only [] at h
    (repeat' split at h) <;> simp at h
    obtain ⟨rfl, rfl⟩ := h
    exact ⟨.partialOk, [Ev.sendFailure (methodsOf nx) true], by simp [logEvs, AuthErr.logRes], by simp [nolog], rfl, rfl, rfl,
      by simp, fun _ => rfl⟩
  | fail =>
    simp only [] at h
    (repeat' split at h) <;> simp at h <;> obtain ⟨rfl, rfl⟩ := h
    · exact ⟨.fail, [], by simp [logEvs, AuthErr.logRes], by simp, rfl, rfl, rfl, bump_eq st r, fun h => h⟩
    · exact ⟨.fail, [Ev.sendFailure (methodsOf st.cbs) false], by simp [logEvs, AuthErr.logRes], by simp [nolog], rfl, rfl, rfl,
        bump_eq st r, fun h => h⟩
  | bannerFail b =>
    simp only [] at h
    (repeat' split at h) <;> simp at h <;> obtain ⟨rfl, rfl⟩ := h
    · refine ⟨.fail, if b then [Ev.sendBanner] else [], ?_, ?_, rfl, rfl, rfl, bump_eq st r, fun h => h⟩
      · cases b <;> simp [logEvs, AuthErr.logRes]
      · cases b <;> simp [nolog]
    · refine ⟨.fail, (if b then [Ev.sendBanner] else []) ++ [Ev.sendFailure (methodsOf st.cbs) false], ?_, ?_, rfl, rfl, rfl,
        bump_eq st r, fun h => h⟩
      · cases b <;> simp [logEvs, AuthErr.logRes]
      · cases b <;> simp [nolog]

theorem bannerPhase_nolog (cfg : Cfg) (st : St) : (bannerPhase cfg st).2.all nolog = true := by
  unfold bannerPhase
  (repeat' split) <;> simp [nolog]

/-- what one continuing iteration does to the counters, read off the log it produces -/
theorem step_counts {cfg : Cfg} {st st' : St} {r : Req} {evs : List Ev}
    (h : step cfg (bump st) r = .cont st' evs) :
    (st'.failures, st'.noneCount) = evs.foldl failStep (st.failures, st.noneCount) ∧
    st'.attempts = st.attempts + 1 ∧ st'.user = r.user ∧
    (st.partialRet = true → st'.partialRet = true ∧ st.user = r.user) := by
  unfold step at h
  split at h
  · simp at h
  split at h
  · simp at h
  rename_i hus
  have hus' : st.partialRet = true → st.user = r.user := by
    intro hp
    simp [bump, hp] at hus
    exact hus
  simp only [] at h
  generalize hsb : bannerPhase cfg { bump st with user := r.user } = sb at h
  have hf := bannerPhase_fields cfg { bump st with user := r.user }
  have hn := bannerPhase_nolog cfg { bump st with user := r.user }
  rw [hsb] at hf hn
  have hfa : sb.1.failures = st.failures := by rw [hf]; rfl
  have hat : sb.1.attempts = st.attempts + 1 := by rw [hf]; rfl
  have hnc : sb.1.noneCount = st.noneCount := by rw [hf]; rfl
  have hpr : sb.1.partialRet = st.partialRet := by rw [hf]; rfl
  have hur : sb.1.user = r.user := by rw [hf]
  split at h
  · simp at h
  · rename_i st2 evs2 hm
    simp at h
    obtain ⟨rfl, rfl⟩ := h
    obtain ⟨m1, _, m3, m4⟩ := methodPhase_counts (Or.inl hm)
    have hne := m4 hm
    simp only [hne, if_false] at m1
    simp only [counts, Counts.mk.injEq] at m1
    obtain ⟨a, b, c, d, e⟩ := m1
    refine ⟨?_, by rw [b, hat], by rw [e, hur], fun hp => ⟨by rw [d, hpr, hp], hus' hp⟩⟩
    rw [List.foldl_append, fold_nolog _ _ hn, fold_nolog _ _ m3, a, c, hnc, hfa]
  · rename_i st2 evs2 perms e hm
    obtain ⟨m1, _, m3, _⟩ := methodPhase_counts (Or.inr ⟨perms, e, hm⟩)
    simp only [counts, Counts.mk.injEq] at m1
    obtain ⟨a, b, c, d, e'⟩ := m1
    split at h
    · simp at h
    · rename_i st3 evs3 hfin
      simp at h
      obtain ⟨rfl, rfl⟩ := h
      obtain ⟨res, x, rfl, hx, f1, f2, f3, f4, f5⟩ := finish_counts hfin
      refine ⟨?_, by rw [f1, b, hat], by rw [f3, e', hur], fun hp => ⟨f5 (by rw [d, hpr, hp]), hus' hp⟩⟩
      rw [List.foldl_append, fold_nolog _ _ hn, List.foldl_append, fold_nolog _ _ m3, List.foldl_cons, fold_nolog _ _ hx,
        f4, f2, a, c, hfa, hnc]
      simp only [failStep]
      by_cases hnone : r.method = "none" <;> simp [hnone]

theorem steps_counts {cfg : Cfg} {st st' : St} {rs : List Req} {evs : List Ev}
    (h : Steps cfg st rs st' evs) :
    (st'.failures, st'.noneCount) = evs.foldl failStep (st.failures, st.noneCount) ∧
    st'.attempts = st.attempts + rs.length ∧
    (st.partialRet = true → st'.partialRet = true ∧ st'.user = st.user ∧ ∀ r ∈ rs, r.user = st.user) := by
  induction h with
  | nil st => simp
  | @cons st st1 st2 r rs e1 e2 ht hs _ _ ih =>
    obtain ⟨a, b, c, d⟩ := step_counts hs
    obtain ⟨i1, i2, i3⟩ := ih
    refine ⟨?_, ?_, ?_⟩
    · rw [List.foldl_append, ← a, i1]
    · rw [i2, b]; simp; omega
    · intro hp
      obtain ⟨d1, d2⟩ := d hp
      obtain ⟨j1, j2, j3⟩ := i3 d1
      refine ⟨j1, by rw [j2, c, d2], ?_⟩
      intro r' hr'
      simp at hr'
      rcases hr' with rfl | hr'
      · exact d2.symm
      · rw [j3 r' hr', c, d2]

end XC.C33
