/-
  C15 — the Go-shaped segment loop (uint32 offsets, carried address block and counter) equals the RFC-shaped
  iteration `segmentRFC` / `fillRFC` of XC.Props.C15.
-/
import XC.Props.C15
namespace XC.C15
open XC.C15.Rfc

/-- loop-head invariant of segmentLoop at block `i` of segment (r, l, s) -/
structure LoopInv (c : Ctx) (I : Inst) (r l s i : Nat) (index offset : UInt32) (inp addresses : Block) : Prop where
  hi : index.toNat = i
  ho : offset.toNat = l * I.q + s * I.seg + i
  first : r = 0 → s = 0 → 2 ≤ i
  hinp : indep I r s = true → inp = addrInput r l s I.m' I.t I.y ((i + 127) / 128)
  haddr : indep I r s = true → i % 128 ≠ 0 → addresses = addrBlock r l s I.m' I.t I.y ((i + 127) / 128)

theorem seg_bounds (c : Ctx) (I : Inst) (n slice lane : UInt32) (r l s : Nat) (K : CtxOK c I n slice lane r l s) :
    s * I.seg ≤ 3 * I.seg ∧ l * I.q + I.q ≤ I.m' ∧ I.m' < 4294967296 := by
  have h1 : s * I.seg ≤ 3 * I.seg := Nat.mul_le_mul_right _ (by have := K.s4; omega)
  have h2 : (l + 1) * I.q ≤ I.p * I.q := Nat.mul_le_mul_right _ (by have := K.lp; omega)
  rw [Nat.succ_mul] at h2
  have h3 := c.memory.toNat_lt
  rw [K.hm] at h3
  exact ⟨h1, by rw [K.mpq]; exact h2, by simpa using h3⟩

/-- one iteration of the Go loop is `stepRFC` and re-establishes the invariant for `i + 1` -/
theorem loop_step (c : Ctx) (I : Inst) (n slice lane : UInt32) (r l s : Nat) (K : CtxOK c I n slice lane r l s)
    (i : Nat) (index offset : UInt32) (inp addresses : Block) (b : Mem) (fuel : Nat)
    (hlt : i < I.seg) (V : LoopInv c I r l s i index offset inp addresses) :
    ∃ inp' addresses',
      segmentLoop c n slice lane (fuel + 1) index offset inp addresses b =
        segmentLoop c n slice lane fuel (index + 1) (offset + 1) inp' addresses' (stepRFC I r l s b i) ∧
      LoopInv c I r l s (i + 1) (index + 1) (offset + 1) inp' addresses' := by
  obtain ⟨b1, b2, b3⟩ := seg_bounds c I n slice lane r l s K
  have hidxlt : index < c.segments := by
    rw [UInt32.lt_iff_toNat_lt, V.hi, K.hseg]; exact hlt
  rw [segmentLoop_step c n slice lane fuel index offset inp addresses b hidxlt]
  simp only []
  have hdi := dataIndep_eq c I n slice lane r l s K
  -- prev
  have hprev := prev_eq_rfc c slice lane index (by rw [K.hq, K.hseg]; exact K.q4) (by rw [K.hs]; exact K.s4)
    (by rw [V.hi, K.hseg]; exact hlt) (by rw [K.hseg]; have := K.seg2; omega)
    (by rw [K.hl, K.hq]; omega) offset (by rw [V.ho, K.hl, K.hq, K.hs, K.hseg, V.hi])
    (by rw [K.hs, K.hseg]; exact b1)
  rw [K.hl, K.hq, K.hs, K.hseg, V.hi] at hprev
  generalize hpv : (if index == 0 && slice == 0 then offset - 1 + c.lanes else offset - 1) = prev at *
  -- the address generator state after this iteration, and the pseudo-random word
  generalize hst : (if dataIndep c n slice = true then
      (if (index % 128 == 0) = true then nextAddresses inp else (inp, addresses)) else (inp, addresses)) = st
  have c128 : (128 : UInt32).toNat = 128 := by simp
  have c0 : (0 : UInt32).toNat = 0 := by simp
  have hm128 : (index % 128).toNat = i % 128 := by
    rw [UInt32.toNat_mod, V.hi, c128]
  have hb128 : (index % 128 == 0) = decide (i % 128 = 0) := by
    have h := beq_true_iff_32 (index % 128) 0
    rw [hm128, c0] at h
    exact h
  have hrand : (if dataIndep c n slice = true then st.2.getD (index % 128).toNat 0
      else (b.getD prev.toNat zeroBlock).getD 0 0) = pseudoRand I b r l s i ∧
      (indep I r s = true → st.1 = addrInput r l s I.m' I.t I.y ((i + 1 + 127) / 128) ∧
        st.2 = addrBlock r l s I.m' I.t I.y ((i + 1 + 127) / 128)) := by
    unfold pseudoRand
    rw [hdi] at hst ⊢
    by_cases hin : indep I r s = true
    · rw [if_pos hin] at hst
      rw [if_pos hin, if_pos hin, hm128]
      have hcnt : (i + 1 + 127) / 128 = i / 128 + 1 := by omega
      rw [hcnt]
      by_cases h0 : i % 128 = 0
      · rw [hb128, decide_eq_true h0, if_pos rfl, V.hinp hin] at hst
        have hc : (i + 127) / 128 = i / 128 := by omega
        rw [hc, nextAddresses_addrBlock] at hst
        rw [← hst]
        exact ⟨by simp only [], fun _ => ⟨by simp only [], by simp only []⟩⟩
      · rw [hb128, decide_eq_false h0] at hst
        simp only [Bool.false_eq_true, if_false] at hst
        have hc : (i + 127) / 128 = i / 128 + 1 := by omega
        rw [← hst]
        simp only []
        rw [V.haddr hin h0, V.hinp hin, hc]
        exact ⟨rfl, fun _ => ⟨rfl, rfl⟩⟩
    · have hin' : indep I r s = false := by simpa using hin
      rw [hin']
      simp only [Bool.false_eq_true, if_false]
      rw [hprev]
      exact ⟨rfl, fun h => by cases h⟩
  obtain ⟨hr1, hr2⟩ := hrand
  rw [hr1]
  generalize hJ : pseudoRand I b r l s i = J at *
  -- the reference block
  have hmemref : (refLaneOf J c.threads n slice lane).toNat * c.lanes.toNat + c.lanes.toNat ≤ 4294967296 := by
    rw [refLane_toNat c I n slice lane r l s K J, K.hq]
    have hl' : (if r = 0 ∧ s = 0 then l else J.toNat / 4294967296 % I.p) < I.p := by
      split
      · exact K.lp
      · exact Nat.mod_lt _ (by have := K.lp; omega)
    have : ((if r = 0 ∧ s = 0 then l else J.toNat / 4294967296 % I.p) + 1) * I.q ≤ I.p * I.q :=
      Nat.mul_le_mul_right _ hl'
    rw [Nat.succ_mul, ← K.mpq] at this
    omega
  have href := indexAlpha_eq_rfc J c.lanes c.segments c.threads n slice lane index
    (by rw [K.hq, K.hseg]; exact K.q4) (by rw [K.hseg]; exact K.seg2) (by rw [K.hs]; exact K.s4)
    (by rw [V.hi, K.hseg]; exact hlt)
    (by rw [K.hn, K.hs, V.hi]; exact V.first) hmemref
  rw [refLane_toNat c I n slice lane r l s K J, K.hseg, K.hn, K.hs, V.hi, K.hq,
    beq_true_iff_32 lane, refLane_toNat c I n slice lane r l s K J, K.hl] at href
  refine ⟨st.1, st.2, ?_, ?_⟩
  · congr 1
    unfold stepRFC refPos
    simp only []
    rw [hJ, href, hprev, V.ho, Nat.add_assoc]
    rfl
  · have hio : index.toNat + 1 < 4294967296 := by rw [V.hi]; have := K.q4; omega
    have hoo : offset.toNat + 1 < 4294967296 := by rw [V.ho]; have := K.q4; omega
    have one : (1 : UInt32).toNat = 1 := rfl
    refine ⟨?_, ?_, fun h1 h2 => by have := V.first h1 h2; omega, fun h => (hr2 h).1, fun h _ => (hr2 h).2⟩
    · have h1 := V.hi
      rw [UInt32.toNat_add, one, V.hi]; omega
    · have h1 := V.ho
      rw [UInt32.toNat_add, one, V.ho]; omega

/-- the Go loop from block `i` on is the RFC-shaped fold over the remaining blocks of the segment -/
theorem segmentLoop_eq (c : Ctx) (I : Inst) (n slice lane : UInt32) (r l s : Nat) (K : CtxOK c I n slice lane r l s)
    (k : Nat) : ∀ (i : Nat) (index offset : UInt32) (inp addresses : Block) (b : Mem) (fuel : Nat),
    i + k = I.seg → k ≤ fuel → LoopInv c I r l s i index offset inp addresses →
    segmentLoop c n slice lane fuel index offset inp addresses b = (List.range' i k).foldl (stepRFC I r l s) b := by
  induction k with
  | zero =>
    intro i index offset inp addresses b fuel hik _ V
    have hnlt : ¬ index < c.segments := by
      rw [UInt32.lt_iff_toNat_lt, V.hi, K.hseg]; omega
    cases fuel with
    | zero => simp [segmentLoop]
    | succ f => rw [segmentLoop, if_neg hnlt]; simp
  | succ k ih =>
    intro i index offset inp addresses b fuel hik hf V
    cases fuel with
    | zero => omega
    | succ f =>
      obtain ⟨inp', addresses', h1, h2⟩ := loop_step c I n slice lane r l s K i index offset inp addresses b f (by omega) V
      rw [h1, ih (i + 1) _ _ _ _ _ f (by omega) (by omega) h2]
      simp [List.range'_succ]

theorem ofNat_toNat_32 (x : Nat) (h : x < 4294967296) : (UInt32.ofNat x).toNat = x := by
  rw [UInt32.toNat_ofNat']; exact Nat.mod_eq_of_lt h

/-- **processSegment_eq_rfc**: a whole segment — building the address-generator input, the first address block
    in the very first slice, the start index 2 or 0, the uint32 offset — is `segmentRFC` -/
theorem processSegment_eq_rfc (c : Ctx) (I : Inst) (n slice lane : UInt32) (r l s : Nat)
    (K : CtxOK c I n slice lane r l s) (b : Mem) :
    processSegment c n slice lane b = segmentRFC I r l s b := by
  obtain ⟨b1, b2, b3⟩ := seg_bounds c I n slice lane r l s K
  have hdi := dataIndep_eq c I n slice lane r l s K
  have z : (0 : UInt32).toNat = 0 := by simp
  have two : (2 : UInt32).toNat = 2 := by simp
  have hfirst : (n == 0 && slice == 0) = decide (r = 0 ∧ s = 0) := by
    rw [beq_true_iff_32 n 0, beq_true_iff_32 slice 0, z, K.hn, K.hs]
    by_cases h1 : r = 0 <;> by_cases h2 : s = 0 <;> simp [h1, h2]
  have hLS : (lane * c.lanes + slice * c.segments).toNat = l * I.q + s * I.seg := by
    have e1 : (lane * c.lanes).toNat = l * I.q := by
      rw [UInt32.toNat_mul, K.hl, K.hq]; exact Nat.mod_eq_of_lt (by omega)
    have e2 : (slice * c.segments).toNat = s * I.seg := by
      rw [UInt32.toNat_mul, K.hs, K.hseg]; exact Nat.mod_eq_of_lt (by have := K.q4; omega)
    rw [UInt32.toNat_add, e1, e2]; exact Nat.mod_eq_of_lt (by have := K.q4; omega)
  have hinp0 : indep I r s = true →
      (((((zeroBlock.setIfInBounds 0 n.toUInt64).setIfInBounds 1 lane.toUInt64).setIfInBounds 2 slice.toUInt64).setIfInBounds 3
        c.memory.toUInt64).setIfInBounds 4 c.time.toUInt64).setIfInBounds 5 (UInt64.ofNat c.mode) =
      addrInput r l s I.m' I.t I.y 0 := by
    intro _
    rw [addrInput_init, K.hn, K.hl, K.hs, K.hm, K.ht, K.hy]
  unfold processSegment segmentRFC
  simp only []
  rw [hfirst, hdi]
  by_cases hf : r = 0 ∧ s = 0
  · -- first segment of the lane: start at 2, one address block already generated
    obtain ⟨rfl, rfl⟩ := hf
    simp only [and_self, decide_true, if_true, Bool.true_and]
    have hoff : (lane * c.lanes + slice * c.segments + 2).toNat = l * I.q + 0 * I.seg + 2 := by
      rw [UInt32.toNat_add, hLS, two]; exact Nat.mod_eq_of_lt (by have := K.q4; have := K.seg2; omega)
    by_cases hmode : (c.mode == 1 || c.mode == 2) = true
    · have hin : indep I 0 0 = true := by
        unfold indep; rw [← K.hy]
        rcases (Bool.or_eq_true _ _).mp hmode with h | h
        · rw [h]; rfl
        · rw [h]; simp
      rw [hmode, if_pos rfl, hin, if_pos rfl, hinp0 hin, nextAddresses_addrBlock]
      simp only []
      rw [K.hseg]
      apply segmentLoop_eq c I n slice lane 0 l 0 K (I.seg - 2) 2 _ _ _ _ b I.seg (by have := K.seg2; omega) (by omega)
      exact ⟨two, hoff, fun _ _ => Nat.le_refl _, fun _ => rfl, fun _ _ => rfl⟩
    · have hmode' : (c.mode == 1 || c.mode == 2) = false := by simpa using hmode
      have hin : indep I 0 0 = false := by
        unfold indep; rw [← K.hy]
        have h12 := (Bool.or_eq_false_iff).mp hmode'
        rw [h12.1, h12.2]; rfl
      rw [hmode', hin]
      simp only [Bool.false_eq_true, if_false]
      rw [K.hseg]
      apply segmentLoop_eq c I n slice lane 0 l 0 K (I.seg - 2) 2 _ _ _ _ b I.seg (by have := K.seg2; omega) (by omega)
      exact ⟨two, hoff, fun _ _ => Nat.le_refl _, fun h => (by rw [hin] at h; cases h), fun h => (by rw [hin] at h; cases h)⟩
  · have hfd : decide (r = 0 ∧ s = 0) = false := by simpa using hf
    rw [hfd]
    simp only [Bool.false_eq_true, if_false, Bool.false_and, hf]
    have hoff : (lane * c.lanes + slice * c.segments + 0).toNat = l * I.q + s * I.seg + 0 := by
      rw [UInt32.toNat_add, hLS, z]; exact Nat.mod_eq_of_lt (by have := K.q4; omega)
    rw [K.hseg, Nat.sub_zero]
    apply segmentLoop_eq c I n slice lane r l s K I.seg 0 _ _ _ _ b I.seg (by omega) (Nat.le_refl _)
    refine ⟨z, hoff, fun h1 h2 => absurd ⟨h1, h2⟩ hf, fun h => ?_, fun _ h => absurd rfl h⟩
    rw [if_pos h, hinp0 h]

theorem foldl_congr_mem {α β : Type} (l : List β) (f g : α → β → α) (h : ∀ x ∈ l, ∀ a, f a x = g a x) :
    ∀ a, l.foldl f a = l.foldl g a := by
  induction l with
  | nil => intro a; rfl
  | cons x r ih =>
    intro a
    simp only [List.foldl_cons]
    rw [h x (by simp), ih (fun y hy => h y (by simp [hy]))]

/-- the Go context describes instance `I` -/
structure GlobalOK (c : Ctx) (I : Inst) : Prop where
  hq : c.lanes.toNat = I.q
  hseg : c.segments.toNat = I.seg
  hp : c.threads.toNat = I.p
  hm : c.memory.toNat = I.m'
  ht : c.time.toNat = I.t
  hy : c.mode = I.y
  q4 : I.q = 4 * I.seg
  seg2 : 2 ≤ I.seg
  mpq : I.m' = I.p * I.q

/-- **fillBlocks_eq_rfc**: the model's processBlocks (passes → slices → lanes one after the other → the uint32
    segment loop with its carried address block) computes exactly the RFC-shaped iteration `fillRFC`
    (§3.2 steps 5–6 with the §3.4 indexing, G of §3.5) on any initial memory -/
theorem fillBlocks_eq_rfc (c : Ctx) (I : Inst) (G : GlobalOK c I) (b : Mem) :
    processBlocks c b = fillRFC I b := by
  unfold processBlocks fillRFC
  have ht := c.time.toNat_lt
  have hp := c.threads.toNat_lt
  rw [G.ht, G.hp] at *
  apply foldl_congr_mem
  intro r hr b1
  have hr' : r < I.t := by simpa using hr
  apply foldl_congr_mem
  intro s hs b2
  have hs' : s < 4 := by simpa using hs
  apply foldl_congr_mem
  intro l hl b3
  have hl' : l < I.p := by simpa using hl
  apply processSegment_eq_rfc
  exact ⟨G.hq, G.hseg, G.hp, G.hm, G.ht, G.hy, G.q4, G.seg2, G.mpq,
    ofNat_toNat_32 r (by omega), ofNat_toNat_32 s (by omega), hs', ofNat_toNat_32 l (by omega), hl'⟩

/-! ### the initial blocks -/

theorem getD_setG (a : Array Block) (i j : Nat) (v : Block) (hi : i < a.size) :
    (a.setIfInBounds i v).getD j zeroB = if j = i then v else a.getD j zeroB := by
  simp only [Array.getD_eq_getD_getElem?, Array.getElem?_setIfInBounds]
  by_cases h : i = j
  · subst h; simp [hi]
  · have h' : ¬ j = i := fun e => h e.symm
    simp [h, h']

theorem divmod_lane (q k w : Nat) (hq : 2 ≤ q) :
    (w = k * q ↔ w / q = k ∧ w % q = 0) ∧ (w = k * q + 1 ↔ w / q = k ∧ w % q = 1) := by
  have hdm := Nat.div_add_mod w q
  rw [Nat.mul_comm] at hdm
  constructor
  · constructor
    · intro h; subst h
      exact ⟨Nat.mul_div_cancel _ (by omega), by simp⟩
    · intro ⟨h1, h2⟩; rw [h1, h2] at hdm; omega
  · constructor
    · intro h; subst h
      have e1 : (k * q + 1) / q = k := by
        rw [Nat.mul_comm, Nat.mul_add_div (by omega), Nat.div_eq_of_lt (by omega)]; rfl
      have e2 : (k * q + 1) % q = 1 := by
        rw [Nat.mul_comm, Nat.mul_add_mod, Nat.mod_eq_of_lt (by omega)]
      exact ⟨e1, e2⟩
    · intro ⟨h1, h2⟩; rw [h1, h2] at hdm; omega

/-- **initBlocks_eq_rfc**: the first two blocks of every lane are H′^1024(H0 ‖ LE32(0|1) ‖ LE32(lane)), the rest
    of the (freshly allocated) memory is zero -/
theorem initBlocks_eq_rfc (h0 : Bytes) (c : Ctx) (p q : Nat) (hp : c.threads.toNat = p) (hq : c.lanes.toNat = q)
    (hm : c.memory.toNat = p * q) (hq2 : 2 ≤ q) :
    initBlocks h0 c = some (initRFC h0 p q) := by
  unfold initBlocks
  rw [hp, hq, hm]
  -- the loop never fails (1024 ≥ 1) and is a plain fold
  let B0 := fun lane => blockOfBytes (hPrime 1024 (h0 ++ le32 0 ++ le32 lane))
  let B1 := fun lane => blockOfBytes (hPrime 1024 (h0 ++ le32 1 ++ le32 lane))
  have hfold : ∀ (k : Nat) (a : Mem),
      (List.range k).foldlM (fun (b : Mem) lane => do
        let j := lane * q
        let b0 ← blake2bHashGo 1024 (h0 ++ le32 0 ++ le32 lane)
        let b1 ← blake2bHashGo 1024 (h0 ++ le32 1 ++ le32 lane)
        pure ((b.setIfInBounds j (blockOfBytes b0)).setIfInBounds (j+1) (blockOfBytes b1))) a =
      some ((List.range k).foldl (fun b lane => (b.setIfInBounds (lane * q) (B0 lane)).setIfInBounds (lane * q + 1) (B1 lane)) a) := by
    intro k
    induction k with
    | zero => intro a; rfl
    | succ k ih =>
      intro a
      rw [List.range_succ, List.foldlM_append, ih a, List.foldl_append]
      simp only [Option.bind_eq_bind, Option.bind_some, List.foldlM_cons, List.foldlM_nil, List.foldl_cons, List.foldl_nil,
        hprime_eq_rfc 1024 _ (by omega), Option.pure_def]
      rfl
  rw [hfold]
  congr 1
  -- invariant of the fold
  have hinv : ∀ k, k ≤ p →
      ((List.range k).foldl (fun b lane => (b.setIfInBounds (lane * q) (B0 lane)).setIfInBounds (lane * q + 1) (B1 lane))
        (Array.replicate (p * q) zeroBlock)).size = p * q ∧
      ∀ w, w < p * q →
        ((List.range k).foldl (fun b lane => (b.setIfInBounds (lane * q) (B0 lane)).setIfInBounds (lane * q + 1) (B1 lane))
          (Array.replicate (p * q) zeroBlock)).getD w zeroB =
        if w / q < k then (if w % q = 0 then B0 (w / q) else if w % q = 1 then B1 (w / q) else zeroB) else zeroB := by
    intro k
    induction k with
    | zero =>
      intro _
      refine ⟨by simp, fun w hw => ?_⟩
      simp [Array.getD, hw, zeroBlock, zeroB]
    | succ k ih =>
      intro hk
      obtain ⟨hsz, hget⟩ := ih (by omega)
      rw [List.range_succ, List.foldl_append]
      simp only [List.foldl_cons, List.foldl_nil]
      generalize (List.range k).foldl (fun b lane => (b.setIfInBounds (lane * q) (B0 lane)).setIfInBounds (lane * q + 1) (B1 lane))
        (Array.replicate (p * q) zeroBlock) = cur at *
      have hkq : k * q + 1 < p * q := by
        have : (k + 1) * q ≤ p * q := Nat.mul_le_mul_right _ hk
        rw [Nat.succ_mul] at this; omega
      refine ⟨by simp [hsz], fun w hw => ?_⟩
      rw [getD_setG _ _ _ _ (by simp [hsz]; omega), getD_setG _ _ _ _ (by rw [hsz]; omega), hget w hw]
      obtain ⟨d0, d1⟩ := divmod_lane q k w hq2
      by_cases h1 : w = k * q + 1
      · obtain ⟨e1, e2⟩ := d1.mp h1
        rw [if_pos h1, e1, e2, if_pos (Nat.lt_succ_self k), if_neg (by decide), if_pos rfl]
      · rw [if_neg h1]
        by_cases h0 : w = k * q
        · obtain ⟨e1, e2⟩ := d0.mp h0
          rw [if_pos h0, e1, e2, if_pos (Nat.lt_succ_self k), if_pos rfl]
        · rw [if_neg h0]
          by_cases hlt : w / q < k
          · rw [if_pos hlt, if_pos (show w / q < k + 1 by omega)]
          · rw [if_neg hlt]
            by_cases heq : w / q = k
            · rw [if_pos (show w / q < k + 1 by omega)]
              have n0 : ¬ w % q = 0 := fun e => h0 (d0.mpr ⟨heq, e⟩)
              have n1 : ¬ w % q = 1 := fun e => h1 (d1.mpr ⟨heq, e⟩)
              rw [if_neg n0, if_neg n1]
            · rw [if_neg (show ¬ w / q < k + 1 by omega)]
  obtain ⟨hsz, hget⟩ := hinv p (Nat.le_refl _)
  generalize (List.range p).foldl (fun b lane => (b.setIfInBounds (lane * q) (B0 lane)).setIfInBounds (lane * q + 1) (B1 lane))
    (Array.replicate (p * q) zeroBlock) = arr at *
  apply Array.ext (by rw [hsz]; simp [initRFC])
  intro i h1 h2
  have hi : i < p * q := by rw [hsz] at h1; exact h1
  have hg := hget i hi
  have hlt : i / q < p := Nat.div_lt_of_lt_mul (by rw [Nat.mul_comm]; exact hi)
  rw [if_pos hlt] at hg
  have hg2 : arr[i] = arr.getD i zeroB := by simp [Array.getD, h1]
  rw [hg2, hg]
  simp [initRFC, B0, B1]

/-! ### Argon2 end to end (lanes of a slice taken in order) -/

/-- RFC 9106 §3.2, steps 1–8, for type y ∈ {0 = Argon2d, 1 = Argon2i, 2 = Argon2id}, version 0x13:
    H0; m′ = 4p⌊m/4p⌋ (the implementation's floor 8p); the first two blocks of every lane; t passes over
    the memory; the final block; the tag H′^T -/
def argon2RFC (y : Nat) (P S K X : Bytes) (t m p T : Nat) : Bytes :=
  let h0 := C05.blake2Spec C05.B 64 [] (le32 p ++ le32 T ++ le32 m ++ le32 t ++ le32 0x13 ++ le32 y ++
    le32 P.length ++ P ++ le32 S.length ++ S ++ le32 K.length ++ K ++ le32 X.length ++ X)
  let m' := roundMemory m p
  let q := m' / p
  let I : Inst := ⟨p, q, q / 4, t, m', y⟩
  tag (fillRFC I (initRFC h0 p q)) p q T

/-- **key_eq_rfc9106** (sequential lane order): for every password, salt, secret, associated data, type,
    t ≥ 1, 1 ≤ p ≤ 255, memory and tag length T ≥ 1 (all uint32), the model of `deriveKey` returns the Argon2
    tag of RFC 9106 computed by the RFC-shaped definitions -/
theorem key_eq_rfc9106 (y : Nat) (P S K X : Bytes) (t m p T : Nat)
    (ht : 1 ≤ t) (ht32 : t < 4294967296) (hp : 1 ≤ p) (hp8 : p ≤ 255) (hm32 : m < 4294967296) (hT : 1 ≤ T) :
    deriveKey y P S K X t m p T = .key (argon2RFC y P S K X t m p T) := by
  unfold deriveKey argon2RFC
  rw [if_neg (by omega), if_neg (by omega), initHash_eq_spec]
  simp only []
  rw [roundMemoryGo_eq m p hm32 hp hp8]
  generalize C05.blake2Spec C05.B 64 [] _ = h0
  obtain ⟨⟨k, hk, hk2⟩, hge, hlt⟩ := roundMemory_spec m p (by omega)
  generalize hm' : roundMemory m p = m' at *
  have hm'32 : m' < 4294967296 := by
    by_cases h8 : 8 * p ≤ m
    · have := (hge h8).2.1; omega
    · have := hlt (by omega); omega
  have hq : m' / p = 4 * k := by
    rw [hk, show k * (4 * p) = (4 * k) * p by rw [Nat.mul_comm k, Nat.mul_assoc, Nat.mul_comm p k, ← Nat.mul_assoc]]
    exact Nat.mul_div_cancel _ (by omega)
  have hseg : m' / p / 4 = k := by rw [hq]; omega
  have hmpq : m' = p * (m' / p) := by
    rw [hq, hk, Nat.mul_comm k, Nat.mul_assoc, Nat.mul_comm p k, ← Nat.mul_assoc, Nat.mul_comm]
  obtain ⟨c, hc⟩ : ∃ c : Ctx, c = Ctx.mk y (UInt32.ofNat t) (UInt32.ofNat m') (UInt32.ofNat p)
      (UInt32.ofNat (m' / p)) (UInt32.ofNat (m' / p / 4)) := ⟨_, rfl⟩
  have hqlt : m' / p < 4294967296 := Nat.lt_of_le_of_lt (Nat.div_le_self _ _) hm'32
  have c1 : c.lanes.toNat = m' / p := by rw [hc]; exact ofNat_toNat_32 _ hqlt
  have c2 : c.segments.toNat = m' / p / 4 := by rw [hc]; exact ofNat_toNat_32 _ (Nat.lt_of_le_of_lt (Nat.div_le_self _ _) hqlt)
  have c3 : c.threads.toNat = p := by rw [hc]; exact ofNat_toNat_32 _ (by omega)
  have c4 : c.memory.toNat = m' := by rw [hc]; exact ofNat_toNat_32 _ hm'32
  have c5 : c.time.toNat = t := by rw [hc]; exact ofNat_toNat_32 _ ht32
  have c6 : c.mode = y := by rw [hc]
  have G : GlobalOK c ⟨p, m' / p, m' / p / 4, t, m', y⟩ :=
    ⟨c1, c2, c3, c4, c5, c6, by show m' / p = 4 * (m' / p / 4); rw [hseg, hq], by show 2 ≤ m' / p / 4; rw [hseg]; exact hk2, hmpq⟩
  have hinit := initBlocks_eq_rfc h0 c p (m' / p) c3 c1 (by rw [c4]; exact hmpq) (by rw [hq]; omega)
  rw [← hc, hinit]
  simp only []
  rw [fillBlocks_eq_rfc c _ G, extractKey_eq_rfc c _ T hT (by rw [c3]; exact hp) (by rw [c4, c3, c1]; exact hmpq), c3, c1]

end XC.C15
