/-
  C16 — refinement, part B: blockMixGo on the flat array = blockMixRfc' on the blocks it holds.
-/
import XC.Proofs.C16_Refine
namespace XC.C16

/-! ## loops with an exact final index -/

theorem loop2_run {σ : Type} (n : Nat) (body : Nat → σ → Option σ) (P : Nat → σ → Prop) (hn : n % 2 = 0)
    (hstep : ∀ i s, i < n → i % 2 = 0 → P i s → ∃ s', body i s = some s' ∧ P (i + 2) s') :
    ∀ fuel i s, i % 2 = 0 → i ≤ n → n ≤ i + 2 * fuel → P i s → ∃ s', loop2 n body fuel i s = some s' ∧ P n s' := by
  intro fuel
  induction fuel with
  | zero =>
    intro i s _ h1 h2 hp
    have : i = n := by omega
    subst this
    exact ⟨s, rfl, hp⟩
  | succ f ih =>
    intro i s he h1 h2 hp
    unfold loop2
    by_cases hi : i < n
    · obtain ⟨s', hb, hp'⟩ := hstep i s hi he hp
      rw [if_pos hi, hb]
      exact ih (i + 2) s' (by omega) (by omega) (by omega) hp'
    · rw [if_neg hi]
      have : i = n := by omega
      subst this
      exact ⟨s, rfl, hp⟩

theorem loop1_run {σ : Type} (n : Nat) (body : Nat → σ → Option σ) (P : Nat → σ → Prop)
    (hstep : ∀ i s, i < n → P i s → ∃ s', body i s = some s' ∧ P (i + 1) s') :
    ∀ fuel i s, i ≤ n → n ≤ i + fuel → P i s → ∃ s', loop1 n body fuel i s = some s' ∧ P n s' := by
  intro fuel
  induction fuel with
  | zero =>
    intro i s h1 h2 hp
    have : i = n := by omega
    subst this
    exact ⟨s, rfl, hp⟩
  | succ f ih =>
    intro i s h1 h2 hp
    unfold loop1
    by_cases hi : i < n
    · obtain ⟨s', hb, hp'⟩ := hstep i s hi hp
      rw [if_pos hi, hb]
      exact ih (i + 1) s' (by omega) (by omega) hp'
    · rw [if_neg hi]
      have : i = n := by omega
      subst this
      exact ⟨s, rfl, hp⟩

/-! ## the X sequence of BlockMix -/

/-- z 0 = X (the last input block), z (j+1) = Salsa(z j ⊕ B_j) -/
def zseq (t0 : Blk) (inB : Nat → Blk) : Nat → Blk
  | 0 => t0
  | j+1 => salsaXOR (zseq t0 inB j) (inB j)

theorem zseq_shift (t : Blk) (f : Nat → Blk) : ∀ j, zseq (zseq t f 2) (fun k => f (k + 2)) j = zseq t f (j + 2)
  | 0 => rfl
  | j+1 => by
    show salsaXOR (zseq (zseq t f 2) (fun k => f (k + 2)) j) (f (j + 2)) = salsaXOR (zseq t f (j + 2)) (f (j + 2))
    rw [zseq_shift t f j]

theorem range_two_step (m : Nat) (f : Nat → Blk) :
    (List.range (2 * (m + 1))).map f = f 0 :: f 1 :: (List.range (2 * m)).map (fun k => f (k + 2)) := by
  have e : 2 * (m + 1) = 2 * m + 1 + 1 := by omega
  rw [e, List.range_succ_eq_map, List.range_succ_eq_map]
  simp [List.map_map, Function.comp_def]

theorem blockMixPairs_range : ∀ (m : Nat) (t : Blk) (f : Nat → Blk),
    blockMixPairs t ((List.range (2 * m)).map f) =
      ((List.range m).map (fun p => zseq t f (2 * p + 1)), (List.range m).map (fun p => zseq t f (2 * p + 2)))
  | 0, t, f => rfl
  | m+1, t, f => by
    rw [range_two_step]
    simp only [blockMixPairs]
    rw [blockMixPairs_range m _ (fun k => f (k + 2))]
    have e1 : salsaXOR (salsaXOR t (f 0)) (f 1) = zseq t f 2 := rfl
    rw [e1, List.range_succ_eq_map (n := m)]
    simp only [List.map_cons, List.map_map, Function.comp_def, zseq_shift]
    have a1 : ∀ p, 2 * p + 1 + 2 = 2 * (p + 1) + 1 := by intro p; omega
    have a2 : ∀ p, 2 * p + 2 + 2 = 2 * (p + 1) + 2 := by intro p; omega
    simp only [a1, a2]
    rfl

/-- the blocks a flat array holds from offset o -/
def blocksOf (a : Words) (o n : Nat) : List Blk := (List.range n).map (fun j => blkAt a (o + 16 * j))

theorem blocksOf_length (a : Words) (o n : Nat) : (blocksOf a o n).length = n := by simp [blocksOf]

theorem wr16_blk (a : Words) (s : View) (b : Blk) (h1 : 16 ≤ s.len) (h2 : s.off + 16 ≤ a.size) :
    ∃ a', wr16 a s b = some a' ∧ a'.size = a.size ∧
      (∀ i, ¬ (s.off ≤ i ∧ i < s.off + 16) → rdw a' i = rdw a i) ∧ blkAt a' s.off = b := by
  obtain ⟨a', e, hs, hp⟩ := wr16_eq a s b h1 h2
  refine ⟨a', e, hs, ?_, ?_⟩
  · intro i hi; rw [hp i, if_neg hi]
  · apply Blk.ext_get
    intro k hk
    rw [blkAt_get _ _ _ hk, hp, if_pos (by omega)]
    congr 1; omega

/-! ## blockMix -/

/-- the loop invariant of blockMix at an even index i -/
structure MixInv (xy0 : Words) (inp out : View) (r : Nat) (t0 : Blk) (i : Nat) (st : Blk × Words) : Prop where
  size : st.2.size = xy0.size
  tmp : st.1 = zseq t0 (fun j => blkAt xy0 (inp.off + 16 * j)) i
  frame : ∀ idx, ¬ (out.off ≤ idx ∧ idx < out.off + 32 * r) → rdw st.2 idx = rdw xy0 idx
  lo : ∀ p, 2 * p < i → blkAt st.2 (out.off + 16 * p) = zseq t0 (fun j => blkAt xy0 (inp.off + 16 * j)) (2 * p + 1)
  hi : ∀ p, 2 * p < i →
    blkAt st.2 (out.off + 16 * (r + p)) = zseq t0 (fun j => blkAt xy0 (inp.off + 16 * j)) (2 * p + 2)

theorem bmStep_refine (xy0 : Words) (inp out : View) (r : Nat) (t0 : Blk) (hr : 1 ≤ r)
    (hi1 : 32 * r ≤ inp.len) (hi2 : inp.off + inp.len ≤ xy0.size)
    (ho1 : 32 * r ≤ out.len) (ho2 : out.off + out.len ≤ xy0.size)
    (hd : inp.off + 32 * r ≤ out.off ∨ out.off + 32 * r ≤ inp.off)
    (i : Nat) (st : Blk × Words) (hi : i < 2 * r) (hev : i % 2 = 0) (inv : MixInv xy0 inp out r t0 i st) :
    ∃ st', bmStep inp out r i st = some st' ∧ MixInv xy0 inp out r t0 (i + 2) st' := by
  obtain ⟨hsz, htmp, hfr, hlo, hhi⟩ := inv
  unfold bmStep
  simp only [Option.bind_eq_bind, Option.pure_def]
  rw [sliceFrom_some inp (i * 16) (by omega), sliceFrom_some out (i * 8) (by omega)]
  simp only [Option.bind_some]
  -- first read: B_i, untouched so far
  rw [rd16_eq st.2 ⟨inp.off + i * 16, inp.len - i * 16⟩ (by simp only; omega) (by simp only; omega)]
  simp only [Option.bind_some]
  have hb1 : blkAt st.2 (inp.off + i * 16) = blkAt xy0 (inp.off + 16 * i) := by
    apply blkAt_congr
    intro k hk
    rw [hfr _ (by omega)]
    congr 1; omega
  rw [hb1]
  -- first write
  obtain ⟨xy1, e1, s1, f1, w1⟩ := wr16_blk st.2 ⟨out.off + i * 8, out.len - i * 8⟩
    (salsaXOR st.1 (blkAt xy0 (inp.off + 16 * i))) (by simp only; omega) (by simp only; omega)
  rw [e1]; simp only [Option.bind_some]
  rw [sliceFrom_some inp (i * 16 + 16) (by omega), sliceFrom_some out (i * 8 + r * 16) (by omega)]
  simp only [Option.bind_some]
  -- second read: B_(i+1), not touched by the first write
  rw [rd16_eq xy1 ⟨inp.off + (i * 16 + 16), inp.len - (i * 16 + 16)⟩ (by simp only; omega) (by simp only; omega)]
  simp only [Option.bind_some]
  have hb2 : blkAt xy1 (inp.off + (i * 16 + 16)) = blkAt xy0 (inp.off + 16 * (i + 1)) := by
    apply blkAt_congr
    intro k hk
    rw [f1 _ (by simp only; omega), hfr _ (by omega)]
    congr 1; omega
  rw [hb2]
  -- second write
  obtain ⟨xy2, e2, s2, f2, w2⟩ := wr16_blk xy1 ⟨out.off + (i * 8 + r * 16), out.len - (i * 8 + r * 16)⟩
    (salsaXOR (salsaXOR st.1 (blkAt xy0 (inp.off + 16 * i))) (blkAt xy0 (inp.off + 16 * (i + 1))))
    (by simp only; omega) (by simp only; omega)
  rw [e2]
  refine ⟨_, rfl, ?_⟩
  simp only at f1 w1 f2 w2
  have hz1 : salsaXOR st.1 (blkAt xy0 (inp.off + 16 * i)) = zseq t0 (fun j => blkAt xy0 (inp.off + 16 * j)) (i + 1) := by
    rw [htmp]; rfl
  have hz2 : salsaXOR (salsaXOR st.1 (blkAt xy0 (inp.off + 16 * i))) (blkAt xy0 (inp.off + 16 * (i + 1))) =
      zseq t0 (fun j => blkAt xy0 (inp.off + 16 * j)) (i + 2) := by
    rw [hz1]; rfl
  constructor
  · simp only; omega
  · exact hz2
  · intro idx hidx
    simp only
    rw [f2 _ (by omega), f1 _ (by omega), hfr _ hidx]
  · intro p hp
    simp only
    by_cases hold : 2 * p < i
    · have : blkAt xy2 (out.off + 16 * p) = blkAt st.2 (out.off + 16 * p) := by
        apply blkAt_congr
        intro k hk
        rw [f2 _ (by omega), f1 _ (by omega)]
      rw [this, hlo p hold]
    · have hp2 : i = 2 * p := by omega
      have : blkAt xy2 (out.off + 16 * p) = blkAt xy1 (out.off + i * 8) := by
        apply blkAt_congr
        intro k hk
        rw [f2 _ (by omega)]
        congr 1; omega
      rw [this, w1, hz1, hp2]
  · intro p hp
    simp only
    by_cases hold : 2 * p < i
    · have : blkAt xy2 (out.off + 16 * (r + p)) = blkAt st.2 (out.off + 16 * (r + p)) := by
        apply blkAt_congr
        intro k hk
        rw [f2 _ (by omega), f1 _ (by omega)]
      rw [this, hhi p hold]
    · have hp2 : i = 2 * p := by omega
      have e : out.off + 16 * (r + p) = out.off + (i * 8 + r * 16) := by omega
      rw [e, w2, hz2, hp2]

theorem blocksOf_getLast (a : Words) (o n : Nat) (hn : 1 ≤ n) :
    (blocksOf a o n).getLast? = some (blkAt a (o + 16 * (n - 1))) := by
  obtain ⟨m, rfl⟩ : ∃ m, n = m + 1 := ⟨n - 1, by omega⟩
  unfold blocksOf
  rw [List.range_succ, List.map_append, List.getLast?_append]
  simp

/-- what BlockMix computes from the blocks held at `o`, via the X sequence -/
theorem blockMixRfc'_blocksOf (a : Words) (o r : Nat) (hr : 1 ≤ r) :
    blockMixRfc' (blocksOf a o (2 * r)) =
      (List.range r).map (fun p => zseq (blkAt a (o + 16 * (2 * r - 1))) (fun j => blkAt a (o + 16 * j)) (2 * p + 1)) ++
      (List.range r).map (fun p => zseq (blkAt a (o + 16 * (2 * r - 1))) (fun j => blkAt a (o + 16 * j)) (2 * p + 2)) := by
  rw [← blockMixI'_eq_rfc]
  unfold blockMixI' blockMixI
  rw [blocksOf_getLast a o (2 * r) (by omega)]
  simp only
  unfold blocksOf
  rw [blockMixPairs_range]
  rfl

/-- **blockMixGo_eq_blockMixI.** On in-bounds, disjoint `in` / `out` regions of one backing array,
    blockMix leaves everything outside `out` alone and writes BlockMix(in) — as blocks — to `out`. -/
theorem blockMixGo_refine (xy : Words) (inp out : View) (r : Nat) (hr : 1 ≤ r)
    (hi1 : 32 * r ≤ inp.len) (hi2 : inp.off + inp.len ≤ xy.size)
    (ho1 : 32 * r ≤ out.len) (ho2 : out.off + out.len ≤ xy.size)
    (hd : inp.off + 32 * r ≤ out.off ∨ out.off + 32 * r ≤ inp.off) :
    ∃ xy', blockMixGo xy inp out r = some xy' ∧ xy'.size = xy.size ∧
      (∀ idx, ¬ (out.off ≤ idx ∧ idx < out.off + 32 * r) → rdw xy' idx = rdw xy idx) ∧
      blocksOf xy' out.off (2 * r) = blockMixRfc' (blocksOf xy inp.off (2 * r)) := by
  unfold blockMixGo
  simp only [Option.bind_eq_bind, Option.pure_def]
  rw [sliceFrom_some inp ((2 * r - 1) * 16) (by omega)]
  simp only [Option.bind_some]
  rw [rd16_eq xy ⟨inp.off + (2 * r - 1) * 16, inp.len - (2 * r - 1) * 16⟩ (by simp only; omega) (by simp only; omega)]
  simp only [Option.bind_some]
  have et : inp.off + (2 * r - 1) * 16 = inp.off + 16 * (2 * r - 1) := by omega
  rw [et]
  obtain ⟨st', e, inv⟩ := loop2_run (2 * r) (bmStep inp out r)
    (MixInv xy inp out r (blkAt xy (inp.off + 16 * (2 * r - 1)))) (by omega)
    (fun i st hi hev hP => bmStep_refine xy inp out r _ hr hi1 hi2 ho1 ho2 hd i st hi hev hP)
    (2 * r) 0 (blkAt xy (inp.off + 16 * (2 * r - 1)), xy) (by omega) (by omega) (by omega)
    ⟨rfl, rfl, fun _ _ => rfl, fun p hp => by omega, fun p hp => by omega⟩
  rw [e]
  refine ⟨st'.2, rfl, inv.size, inv.frame, ?_⟩
  rw [blockMixRfc'_blocksOf xy inp.off r hr]
  apply List.ext_getElem
  · simp [blocksOf_length]; omega
  · intro j h1 h2
    rw [blocksOf_length] at h1
    simp only [blocksOf, List.getElem_map, List.getElem_range]
    by_cases hj : j < r
    · rw [List.getElem_append_left (by simpa using hj)]
      simp only [List.getElem_map, List.getElem_range]
      exact inv.lo j (by omega)
    · rw [List.getElem_append_right (by simp; omega)]
      simp only [List.length_map, List.length_range, List.getElem_map, List.getElem_range]
      have := inv.hi (j - r) (by omega)
      have e2 : r + (j - r) = j := by omega
      rw [e2] at this
      exact this

end XC.C16
