/-
  C01 — the chacha20.Cipher call sequence of sealGeneric/openGeneric, on the Go-shaped Cipher model of C03:
  `NewUnauthenticatedCipher; XORKeyStream(polyKey, polyKey); SetCounter(1); XORKeyStream(ct, pt)` produces exactly
  the two byte strings the C01 model uses (`polyKeyGo`, `xorStream key nonce 1 pt`) and never panics for
  admissible plaintext lengths.  Uses C03's history refinement (`XC.C03.history_from_new`).
-/
import XC.Model.C01
import XC.Props.C03
namespace XC.C01

theorem cipher_history (key nonce pt : Bytes) (hp : pt.length ≤ maxPlaintext) :
    C03.run 1 (C03.mkCipher 1 (C03.keyWords key) (C03.nonceWords nonce))
        [.xor (zeros 32), .setCounter 1, .xor pt]
      = ([polyKeyGo key nonce, [], C03.xorStream key nonce 1 pt], none) := by
  simp only [maxPlaintext] at hp
  have hz : (zeros 32).length = 32 := by simp [zeros]
  rw [C03.history_from_new 1 (by decide)]
  have h1 := C03.specStep_xor_ok (C03.keyWords key) (C03.nonceWords nonce) 0 (zeros 32) (by simp [hz, C03.limit])
  have h2 : C03.specStep (C03.keyWords key) (C03.nonceWords nonce) (0 + (zeros 32).length) (.setCounter 1)
      = .ok (64, []) := by
    simp [C03.specStep, hz, C03.limit]
  have h3 := C03.specStep_xor_ok (C03.keyWords key) (C03.nonceWords nonce) 64 pt (by simp only [C03.limit]; omega)
  simp only [C03.specRun, h1, h2, h3]
  have k0 := C03.keystream_eq key nonce 0 32 (by simp [C03.limit])
  have k1 := C03.keystream_eq key nonce 1 pt.length (by simp [C03.limit]; omega)
  simp only [polyKeyGo, C03.xorStream, hz, k0, k1]
  simp

end XC.C01
