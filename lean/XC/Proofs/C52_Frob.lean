/-
  C52 — Frobenius maps: applying the p-power map twice is the p²-power map.
-/
import XC.Proofs.C52_Field
namespace XC.C52
open GFp2

theorem GFp2.conj_conj (a : GFp2) : conj (conj a) = a := by
  cases a; simp [conj]

/-- multiplying by a base-field constant `⟨0, c⟩` is `MulScalar` (as values mod p) -/
theorem GFp2.mul_scalar_eqv (a : GFp2) (c : Int) : Eqv (mul a ⟨0, c⟩) (mulScalar a c) := by
  simp only [Eqv, mul, mulScalar, Int.emod_emod_of_dvd _ (Int.dvd_refl p)]
  constructor <;> congr 1 <;> grind

/-- the constants satisfy  conj(k)·k = the p²-constant:  ξ^((2p−2)/3)·its conjugate, etc. -/
theorem frob_constants :
    mul (conj GFp6.xiTo2PMinus2Over3) GFp6.xiTo2PMinus2Over3 = ⟨0, GFp6.xiTo2PSquaredMinus2Over3⟩ ∧
    mul (conj GFp6.xiToPMinus1Over3) GFp6.xiToPMinus1Over3 = ⟨0, GFp6.xiToPSquaredMinus1Over3⟩ := by
  decide +kernel

private theorem frob_twice_coord (a k : GFp2) (c : Int) (hk : mul (conj k) k = ⟨0, c⟩) :
    Eqv (mul (conj (mul (conj a) k)) k) (mulScalar a c) := by
  have h1 : Eqv (conj (mul (conj a) k)) (mul a (conj k)) := by
    have := conj_mul (conj a) k
    rwa [GFp2.conj_conj] at this
  have h2 : mul (conj (mul (conj a) k)) k = mul (mul a (conj k)) k := mul_congr h1 (Eqv.refl k)
  rw [h2, mul_assoc, hk]
  exact GFp2.mul_scalar_eqv a c

/-- **applying the p-power Frobenius of GF(p⁶) twice is the p²-power Frobenius** (coefficient-wise
    mod p) — ties `Frobenius`, `FrobeniusP2` and four of the `xiTo…` constants together -/
theorem GFp6.frobenius_frobenius (a : GFp6) :
    Eqv (a.frobenius.frobenius).x (a.frobeniusP2).x ∧
    Eqv (a.frobenius.frobenius).y (a.frobeniusP2).y ∧
    (a.frobenius.frobenius).z = (a.frobeniusP2).z := by
  refine ⟨?_, ?_, ?_⟩
  · exact frob_twice_coord a.x _ _ frob_constants.1
  · exact frob_twice_coord a.y _ _ frob_constants.2
  · simp [GFp6.frobenius, GFp6.frobeniusP2, GFp2.conj_conj]

end XC.C52
