/-
  C08 — lemmas: xor-into-state, the absorb loop as "fold of absorbBlock over whole blocks",
  padding, and the squeeze loop as a window of the spec stream.
-/
import XC.Model.C08
namespace XC.C08

/-! ### xorAt -/

@[simp] theorem xorAt_length (a : Bytes) (n : Nat) (p : Bytes) : (xorAt a n p).length = a.length := by
  fun_induction xorAt a n p <;> simp_all

@[simp] theorem xorAt_nil (a : Bytes) (n : Nat) : xorAt a n [] = a := by
  induction a generalizing n with
  | nil => rfl
  | cons x a ih => cases n <;> simp [xorAt, ih]

/-- xoring `p` at `n` and then `q` right behind it = xoring `p ++ q` at `n` -/
theorem xorAt_append (a : Bytes) (n : Nat) (p q : Bytes) :
    xorAt (xorAt a n p) (n + p.length) q = xorAt a n (p ++ q) := by
  induction a generalizing n p with
  | nil => simp [xorAt]
  | cons x a ih =>
    cases n with
    | zero =>
      cases p with
      | nil => simp [xorAt]
      | cons y p =>
        simp only [xorAt, List.length_cons, List.cons_append]
        have := ih 0 p
        simp only [Nat.zero_add] at this
        show (x ^^^ y) :: xorAt (xorAt a 0 p) (0 + p.length) q = _
        rw [Nat.zero_add, this]
    | succ m =>
      simp only [xorAt]
      rw [show m + 1 + p.length = (m + p.length) + 1 by omega, xorAt, ih]

/-- xoring zeros changes nothing -/
theorem xorAt_zeros (a : Bytes) (n k : Nat) : xorAt a n (zeros k) = a := by
  induction a generalizing n k with
  | nil => simp [xorAt]
  | cons x a ih =>
    cases n with
    | zero =>
      cases k with
      | zero => simp [zeros]
      | succ k =>
        have := ih 0 k
        simp only [zeros, List.replicate_succ, xorAt] at this ⊢
        simp [this]
    | succ m => simp only [xorAt, ih]

/-- two single-byte xors at the same position combine -/
theorem xorAt_same (a : Bytes) (n : Nat) (u v : UInt8) :
    xorAt (xorAt a n [u]) n [v] = xorAt a n [u ^^^ v] := by
  induction a generalizing n with
  | nil => simp [xorAt]
  | cons x a ih =>
    cases n with
    | zero => simp [xorAt, UInt8.xor_assoc]
    | succ m => simp only [xorAt, ih]

/-! ### generic "absorb whole blocks of r bytes" -/

/-- absorb every whole `r`-byte block of `p` with `f`; return the new state and the leftover -/
def blocksR {σ : Type} (r : Nat) (f : σ → Bytes → σ) (s : σ) (p : Bytes) : σ × Bytes :=
  if r = 0 then (s, p) else
  if r ≤ p.length then blocksR r f (f s (p.take r)) (p.drop r) else (s, p)
termination_by p.length
decreasing_by simp only [List.length_drop]; omega

variable {σ : Type}

theorem blocksR_short (r : Nat) (f : σ → Bytes → σ) (s : σ) (p : Bytes) (h : p.length < r) :
    blocksR r f s p = (s, p) := by
  rw [blocksR]; simp; omega

theorem blocksR_long (r : Nat) (f : σ → Bytes → σ) (s : σ) (p : Bytes) (hr : 0 < r) (h : r ≤ p.length) :
    blocksR r f s p = blocksR r f (f s (p.take r)) (p.drop r) := by
  rw [blocksR]; simp [h]; omega

theorem blocksR_tail_lt (r : Nat) (f : σ → Bytes → σ) (s : σ) (p : Bytes) (hr : 0 < r) :
    (blocksR r f s p).2.length < r := by
  fun_induction blocksR r f s p with
  | case1 s p h => omega
  | case2 s p h hl ih => exact ih
  | case3 s p h hl => simp; omega

theorem blocksR_block_append (r : Nat) (f : σ → Bytes → σ) (s : σ) (b p : Bytes) (hr : 0 < r)
    (h : b.length = r) : blocksR r f s (b ++ p) = blocksR r f (f s b) p := by
  rw [blocksR_long r f s (b ++ p) hr (by simp; omega)]
  have h1 : (b ++ p).take r = b := by
    rw [List.take_append_of_le_length (by omega)]; exact List.take_of_length_le (by omega)
  have h2 : (b ++ p).drop r = p := by
    rw [← h]; exact List.drop_left
  rw [h1, h2]

theorem blocksR_append (r : Nat) (f : σ → Bytes → σ) (s : σ) (a b : Bytes) (hr : 0 < r) :
    blocksR r f s (a ++ b) = blocksR r f (blocksR r f s a).1 ((blocksR r f s a).2 ++ b) := by
  fun_induction blocksR r f s a with
  | case1 s a h => omega
  | case2 s a h hl ih =>
    rw [blocksR_long r f s (a ++ b) hr (by simp; omega)]
    have h1 : (a ++ b).take r = a.take r := List.take_append_of_le_length hl
    have h2 : (a ++ b).drop r = a.drop r ++ b := List.drop_append_of_le_length hl
    rw [h1, h2]; exact ih
  | case3 s a h hl => rfl

theorem blocksR_chunks (r : Nat) (f : σ → Bytes → σ) (s : σ) (m : Bytes) (hr : 0 < r)
    (h : m.length % r = 0) : blocksR r f s m = ((chunks r m).foldl f s, []) := by
  fun_induction blocksR r f s m with
  | case1 s m h0 => omega
  | case2 s m h0 hl ih =>
    have hne : m.isEmpty = false := by
      cases m with
      | nil => simp at hl; omega
      | cons => rfl
    rw [chunks]
    simp only [hne, h0]
    simp only [↓reduceDIte, Bool.false_eq_true, ↓reduceIte, List.foldl_cons]
    apply ih
    simp only [List.length_drop]
    have := Nat.sub_mod_eq_zero_of_mod_eq (m := m.length) (n := r) (k := r) (by simp [h])
    exact this
  | case3 s m h0 hl =>
    have : m = [] := by
      cases m with
      | nil => rfl
      | cons a t =>
        exfalso
        have h1 : (a :: t).length < r := by omega
        rw [Nat.mod_eq_of_lt h1] at h
        simp at h
    subst this
    rw [chunks]; simp


/-! ### the absorb loop -/

theorem ofLanes_length (l : Lanes) : (ofLanes l).length = 200 := by
  simp [ofLanes, List.length_flatMap, u64le, natToLE_length]
  decide

@[simp] theorem permuteBytes_length (a : Bytes) : (permuteBytes a).length = 200 := ofLanes_length _

/-- abstraction of an absorbing sponge: `S` = state after the last permutation (or the zero
    state), `buf` = the `n` bytes xored in since -/
structure AbsInv (d : Sponge) (S buf : Bytes) : Prop where
  ha : d.a = xorAt S 0 buf
  hn : d.n = buf.length
  hlt : buf.length < d.rate
  hS : S.length = 200
  hr : d.rate ≤ 200
  hsq : d.squeezing = false

/-- **Write is "append to the pending block and absorb whole blocks"** — the state after the Write
    loop is determined by `blocksR rate absorbBlock S (buf ++ p)` -/
theorem absorbLoop_eq (d : Sponge) (p S buf : Bytes) (h : AbsInv d S buf) :
    absorbLoop d p =
        { d with a := xorAt (blocksR d.rate absorbBlock S (buf ++ p)).1 0
                        (blocksR d.rate absorbBlock S (buf ++ p)).2,
                 n := (blocksR d.rate absorbBlock S (buf ++ p)).2.length } ∧
      AbsInv (absorbLoop d p) (blocksR d.rate absorbBlock S (buf ++ p)).1
        (blocksR d.rate absorbBlock S (buf ++ p)).2 := by
  fun_induction absorbLoop d p generalizing S buf with
  | case1 d p hp =>
    have : p = [] := by cases p <;> simp_all
    subst this
    rw [List.append_nil, blocksR_short _ _ _ _ h.hlt]
    refine ⟨?_, h⟩
    cases d; simp only [Sponge.mk.injEq, and_true, true_and]
    exact ⟨h.ha, h.hn⟩
  | case2 d p hp h2 =>
    exfalso
    have h1 := h.hlt; have h3 := h.hn
    have : p.length ≠ 0 := by cases p <;> simp_all
    omega
  | case3 d p hp h2 x d1 d2 ih =>
    have hrate : 0 < d.rate := by have := h.hlt; omega
    have hsplit : buf ++ p = (buf ++ p.take x) ++ p.drop x := by
      rw [List.append_assoc, List.take_append_drop]
    have ha1 : d1.a = xorAt S 0 (buf ++ p.take x) := by
      show xorAt d.a d.n (List.take x p) = _
      rw [h.ha, h.hn, ← xorAt_append, Nat.zero_add]
    have hxle : x ≤ p.length := Nat.min_le_right _ _
    have hxle2 : x ≤ d.rate - d.n := Nat.min_le_left _ _
    have hlen1 : (buf ++ p.take x).length = d.n + x := by
      simp only [List.length_append, List.length_take, h.hn]; omega
    by_cases hfull : d.n + x = d.rate
    · -- the block is full: permute
      have hd2 : d2 = { d with a := permuteBytes d1.a, n := 0 } := by
        show (if h : d1.n = d1.rate then d1.permute else d1) = _
        have : d1.n = d1.rate := hfull
        simp only [this, ↓reduceDIte]; rfl
      have hinv2 : AbsInv d2 (absorbBlock S (buf ++ p.take x)) [] := by
        rw [hd2]
        refine ⟨?_, rfl, ?_, by simp [absorbBlock], h.hr, h.hsq⟩
        · simp [absorbBlock, ha1]
        · simpa using hrate
      have := ih _ _ hinv2
      have hr2 : d2.rate = d.rate := by rw [hd2]
      rw [hr2, List.nil_append] at this
      rw [hsplit, blocksR_block_append _ _ _ _ _ hrate (by rw [hlen1, hfull])]
      refine ⟨?_, this.2⟩
      rw [this.1, hd2]
    · -- still room: everything was consumed
      have hx : x = p.length := by omega
      have hd2 : d2 = d1 := by
        show (if h : d1.n = d1.rate then d1.permute else d1) = _
        have : ¬ d1.n = d1.rate := hfull
        simp only [this, ↓reduceDIte]
      have hinv1 : AbsInv d1 S (buf ++ p.take x) :=
        ⟨ha1, by rw [hlen1], by rw [hlen1]; show d.n + x < d.rate; omega, h.hS, h.hr, h.hsq⟩
      rw [hd2] at ih ⊢
      have := ih _ _ hinv1
      have hr1 : d1.rate = d.rate := rfl
      rw [hr1, ← hsplit] at this
      exact ⟨this.1, this.2⟩


/-! ### padding -/

theorem padBytes_length (ds : UInt8) (rate L : Nat) (hr : 0 < rate) :
    (padBytes ds rate L).length = rate - L % rate := by
  unfold padBytes
  have := Nat.mod_lt L hr
  by_cases h : rate - L % rate = 1
  · simp [h]
  · simp [h, zeros]; omega

/-- `padAndPermute` absorbs the final block `buf ‖ pad10*1(ds)` -/
theorem padAndPermute_a (d : Sponge) (S buf : Bytes) (L : Nat) (h : AbsInv d S buf)
    (hL : L % d.rate = buf.length) :
    d.padAndPermute.a = absorbBlock S (buf ++ padBytes d.ds d.rate L) := by
  unfold Sponge.padAndPermute absorbBlock padBytes
  simp only
  have hlt := h.hlt
  congr 1
  rw [h.ha, h.hn, hL]
  have e1 : xorAt (xorAt S 0 buf) buf.length [d.ds] = xorAt S 0 (buf ++ [d.ds]) := by
    have := xorAt_append S 0 buf [d.ds]
    rwa [Nat.zero_add] at this
  by_cases hq : d.rate - buf.length = 1
  · simp only [hq, ↓reduceIte]
    have : d.rate - 1 = buf.length := by omega
    rw [this, xorAt_same]
    have := xorAt_append S 0 buf [d.ds ^^^ 0x80]
    rwa [Nat.zero_add] at this
  · simp only [hq, ↓reduceIte]
    rw [e1]
    have e2 := xorAt_append S 0 (buf ++ [d.ds]) (zeros (d.rate - buf.length - 2))
    rw [xorAt_zeros] at e2
    have e3 := xorAt_append S 0 (buf ++ [d.ds] ++ zeros (d.rate - buf.length - 2)) [0x80]
    rw [← e2, Nat.zero_add] at e3
    have hl : (buf ++ [d.ds] ++ zeros (d.rate - buf.length - 2)).length = d.rate - 1 := by
      simp [zeros]; omega
    rw [hl] at e3
    rw [e3]
    simp [List.append_assoc]

/-! ### squeezing -/

theorem squeezeSpec_le (rate : Nat) (a : Bytes) (t : Nat) (h : t ≤ rate) :
    squeezeSpec rate a t = a.take t := by
  rw [squeezeSpec]; simp [h]

theorem squeezeSpec_add (rate : Nat) (a : Bytes) (j : Nat) (hr : 0 < rate) :
    squeezeSpec rate a (rate + j) = a.take rate ++ squeezeSpec rate (permuteBytes a) j := by
  rw [squeezeSpec]
  by_cases hj : j = 0
  · subst hj; simp [squeezeSpec_le]
  · have : ¬ (rate + j ≤ rate ∨ rate = 0) := by omega
    simp only [this, ↓reduceIte, Nat.add_sub_cancel_left]

theorem squeezeSpec_take (rate : Nat) (a : Bytes) (t n : Nat) (hr : 0 < rate) (hn : n ≤ rate)
    (hnt : n ≤ t) (ha : rate ≤ a.length) : (squeezeSpec rate a t).take n = a.take n := by
  by_cases ht : t ≤ rate
  · rw [squeezeSpec_le _ _ _ ht, List.take_take, Nat.min_eq_left hnt]
  · obtain ⟨j, rfl⟩ : ∃ j, t = rate + j := ⟨t - rate, by omega⟩
    rw [squeezeSpec_add _ _ _ hr, List.take_append_of_le_length (by simp; omega), List.take_take,
      Nat.min_eq_left hn]

/-- `k` bytes of the squeeze stream of block-state `a`, starting at offset `n` of the current block -/
def streamFrom (rate : Nat) (a : Bytes) (n k : Nat) : Bytes := (squeezeSpec rate a (n + k)).drop n

theorem streamFrom_zero (rate : Nat) (a : Bytes) (k : Nat) : streamFrom rate a 0 k = squeezeSpec rate a k := by
  simp [streamFrom]

/-- a drained block (`n = rate`) continues with the permuted state at offset 0 -/
theorem streamFrom_full (rate : Nat) (a : Bytes) (k : Nat) (hr : 0 < rate) (ha : rate ≤ a.length) :
    streamFrom rate a rate k = streamFrom rate (permuteBytes a) 0 k := by
  unfold streamFrom
  rw [squeezeSpec_add _ _ _ hr, Nat.zero_add, List.drop_zero]
  have : (a.take rate).length = rate := by simp; omega
  exact List.drop_left' this

theorem streamFrom_step (rate : Nat) (a : Bytes) (n x j : Nat) (hr : 0 < rate) (hnx : n + x ≤ rate)
    (ha : rate ≤ a.length) :
    streamFrom rate a n (x + j) = (a.drop n).take x ++ streamFrom rate a (n + x) j := by
  unfold streamFrom
  rw [← Nat.add_assoc]
  generalize hZ : squeezeSpec rate a (n + x + j) = Z
  have hpre : Z.take (n + x) = a.take (n + x) := by
    rw [← hZ]; exact squeezeSpec_take _ _ _ _ hr hnx (by omega) ha
  have h1 : (Z.drop n).take x = (a.drop n).take x := by
    rw [List.take_drop, List.take_drop, hpre]
  rw [← h1, ← List.drop_drop, List.take_append_drop]

structure SqInv (d : Sponge) : Prop where
  hn : d.n ≤ d.rate
  hr : 0 < d.rate
  hr2 : d.rate ≤ 200
  ha : d.a.length = 200

/-- **Read squeezes a window of the spec stream** and leaves a state whose future output is the
    continuation of that stream -/
theorem squeezeLoop_eq (d : Sponge) (k : Nat) (h : SqInv d) :
    (squeezeLoop d k).2 = streamFrom d.rate d.a d.n k ∧
    SqInv (squeezeLoop d k).1 ∧
    (squeezeLoop d k).1.rate = d.rate ∧ (squeezeLoop d k).1.ds = d.ds ∧
    (squeezeLoop d k).1.outLen = d.outLen ∧ (squeezeLoop d k).1.squeezing = d.squeezing ∧
    ∀ k', streamFrom d.rate (squeezeLoop d k).1.a (squeezeLoop d k).1.n k' =
      (streamFrom d.rate d.a d.n (k + k')).drop k := by
  fun_induction squeezeLoop d k with
  | case1 d =>
    refine ⟨?_, h, rfl, rfl, rfl, rfl, ?_⟩
    · simp [streamFrom, squeezeSpec_le _ _ _ h.hn]
    · intro k'; simp
  | case2 d want hw d1 hx =>
    exfalso
    have h1 := h.hn; have h2 := h.hr
    by_cases hfull : d.n = d.rate
    · have : d1 = d.permute := by
        show (if h : d.n = d.rate then d.permute else d) = _
        simp [hfull]
      rw [this] at hx
      simp only [Sponge.permute] at hx
      omega
    · have : d1 = d := by
        show (if h : d.n = d.rate then d.permute else d) = _
        simp [hfull]
      rw [this] at hx
      omega
  | case3 d want hw d1 hx x out r ih =>
    -- normalisation step
    have hd1 : SqInv d1 ∧ d1.n < d1.rate ∧ d1.rate = d.rate ∧ d1.ds = d.ds ∧ d1.outLen = d.outLen ∧
        d1.squeezing = d.squeezing ∧
        ∀ k, streamFrom d.rate d.a d.n k = streamFrom d1.rate d1.a d1.n k := by
      by_cases hfull : d.n = d.rate
      · have : d1 = d.permute := by
          show (if h : d.n = d.rate then d.permute else d) = _
          simp [hfull]
        rw [this]
        refine ⟨⟨by simp [Sponge.permute], h.hr, h.hr2, by simp [Sponge.permute]⟩,
          by simpa [Sponge.permute] using h.hr, rfl, rfl, rfl, rfl, ?_⟩
        intro k
        rw [hfull]
        exact streamFrom_full _ _ _ h.hr (by rw [h.ha]; exact h.hr2)
      · have : d1 = d := by
          show (if h : d.n = d.rate then d.permute else d) = _
          simp [hfull]
        rw [this]
        have := h.hn
        exact ⟨h, by omega, rfl, rfl, rfl, rfl, fun _ => rfl⟩
    obtain ⟨hi1, hlt1, hr1, hds1, hol1, hsq1, hnorm⟩ := hd1
    have hxle : x ≤ want := Nat.min_le_right _ _
    have hxle2 : x ≤ d1.rate - d1.n := Nat.min_le_left _ _
    have hinv' : SqInv { d1 with n := d1.n + x } :=
      ⟨by show d1.n + x ≤ d1.rate; omega, hi1.hr, hi1.hr2, hi1.ha⟩
    have ih := ih hinv'
    simp only at ih
    obtain ⟨ihout, ihinv, ihr, ihds, ihol, ihsq, ihk⟩ := ih
    have hstep : ∀ j, streamFrom d1.rate d1.a d1.n (x + j) =
        out ++ streamFrom d1.rate d1.a (d1.n + x) j := by
      intro j
      exact streamFrom_step _ _ _ _ _ hi1.hr (by omega) (by rw [hi1.ha]; exact hi1.hr2)
    have houtlen : out.length = x := by
      show ((d1.a.drop d1.n).take x).length = x
      simp only [List.length_take, List.length_drop, hi1.ha]
      have := hi1.hr2; omega
    refine ⟨?_, ihinv, by rw [ihr, hr1], by rw [ihds, hds1], by rw [ihol, hol1], by rw [ihsq, hsq1], ?_⟩
    · show out ++ r.2 = _
      rw [hnorm, show want = x + (want - x) by omega, hstep, ihout]
    · intro k'
      show streamFrom d.rate r.1.a r.1.n k' = _
      rw [hnorm, ← hr1, ihk, show want + k' = x + (want - x + k') by omega, hstep]
      generalize streamFrom d1.rate d1.a (d1.n + x) (want - x + k') = Y
      have hle : out.length ≤ want := by omega
      rw [List.drop_append, List.drop_eq_nil_of_le hle, List.nil_append, houtlen]

end XC.C08
