/-
  C16 — refinement, part D1: bytes ↔ little-endian words ↔ 16-word blocks as index functions
  (what the load and store loops of smix and `blksOfBytes` / `bytesOfBlks` compute).
-/
import XC.Proofs.C16_RefineSmix
namespace XC.C16
open XC

def w4 (a b c d : UInt8) : UInt32 :=
  a.toUInt32 ||| (b.toUInt32 <<< 8) ||| (c.toUInt32 <<< 16) ||| (d.toUInt32 <<< 24)

def mk16 (f : Nat → UInt32) (o : Nat) : Blk :=
  ⟨f o, f (o + 1), f (o + 2), f (o + 3), f (o + 4), f (o + 5), f (o + 6), f (o + 7), f (o + 8), f (o + 9),
   f (o + 10), f (o + 11), f (o + 12), f (o + 13), f (o + 14), f (o + 15)⟩

theorem blkAt_eq_mk16 (a : Words) (o : Nat) : blkAt a o = mk16 (rdw a) o := rfl

theorem range_step {α : Type} (c k : Nat) (g : Nat → α) :
    (List.range (c * (k + 1))).map g = (List.range c).map g ++ (List.range (c * k)).map (fun j => g (j + c)) := by
  rw [Nat.mul_succ, Nat.add_comm (c * k) c, List.range_add, List.map_append, List.map_map]
  congr 1
  apply List.map_congr_left
  intro j _
  simp [Nat.add_comm]

theorem wordsOfBytes_range : ∀ (k : Nat) (g : Nat → UInt8),
    wordsOfBytes ((List.range (4 * k)).map g) =
      (List.range k).map (fun i => w4 (g (4 * i)) (g (4 * i + 1)) (g (4 * i + 2)) (g (4 * i + 3)))
  | 0, g => rfl
  | k+1, g => by
    rw [range_step 4 k g]
    have e4 : (List.range 4).map g = [g 0, g 1, g 2, g 3] := rfl
    rw [e4]
    simp only [List.cons_append, List.nil_append, wordsOfBytes]
    rw [wordsOfBytes_range k (fun j => g (j + 4)), List.range_succ_eq_map, List.map_cons, List.map_map]
    congr 1

theorem blksOfWords_range : ∀ (k : Nat) (f : Nat → UInt32),
    blksOfWords ((List.range (16 * k)).map f) = (List.range k).map (fun j => mk16 f (16 * j))
  | 0, f => by rw [blksOfWords]; simp
  | k+1, f => by
    rw [blksOfWords]
    have hl : ¬ ((List.range (16 * (k + 1))).map f).length < 16 := by simp; omega
    rw [dif_neg hl, range_step 16 k f]
    have e16 : (List.range 16).map f =
        [f 0, f 1, f 2, f 3, f 4, f 5, f 6, f 7, f 8, f 9, f 10, f 11, f 12, f 13, f 14, f 15] := rfl
    have ht : List.take 16 ((List.range 16).map f ++ (List.range (16 * k)).map (fun j => f (j + 16))) =
        (List.range 16).map f := List.take_left' (by simp)
    have hd : List.drop 16 ((List.range 16).map f ++ (List.range (16 * k)).map (fun j => f (j + 16))) =
        (List.range (16 * k)).map (fun j => f (j + 16)) := List.drop_left' (by simp)
    rw [ht, hd, e16]
    simp only [blkOfWords]
    rw [blksOfWords_range k (fun j => f (j + 16)), List.range_succ_eq_map, List.map_cons, List.map_map]
    congr 1

/-- a slice of a list as an index function -/
theorem drop_take_eq_range (l : Bytes) (o n : Nat) (h : o + n ≤ l.length) :
    (l.drop o).take n = (List.range n).map (fun j => (l[o + j]?).getD 0) := by
  apply List.ext_getElem
  · simp; omega
  · intro j h1 h2
    simp only [List.getElem_take, List.getElem_drop, List.getElem_map, List.getElem_range]
    rw [List.getElem?_eq_getElem (by simp at h1; omega)]
    rfl

/-- blocks of a byte string of 64k bytes given by an index function -/
theorem blksOfBytes_range (k : Nat) (g : Nat → UInt8) :
    blksOfBytes ((List.range (64 * k)).map g) =
      (List.range k).map (fun j => mk16 (fun i => w4 (g (4 * i)) (g (4 * i + 1)) (g (4 * i + 2)) (g (4 * i + 3))) (16 * j)) := by
  unfold blksOfBytes
  have e : 64 * k = 4 * (16 * k) := by omega
  rw [e, wordsOfBytes_range, blksOfWords_range]

/-! bytes of blocks -/

def byteAt (w : UInt32) (t : Nat) : UInt8 := (bytesOfWord w).getD t 0

theorem flatMap_words_blocksOf (a : Words) (o : Nat) : ∀ k,
    (blocksOf a o k).flatMap Blk.words = (List.range (16 * k)).map (fun t => rdw a (o + t))
  | 0 => rfl
  | k+1 => by
    have e : blocksOf a o (k + 1) = blocksOf a o k ++ [blkAt a (o + 16 * k)] := by
      unfold blocksOf; rw [List.range_succ, List.map_append]; rfl
    rw [e, List.flatMap_append, flatMap_words_blocksOf a o k, Nat.mul_succ, List.range_add, List.map_append,
      List.map_map]
    congr 1

theorem flatMap_bytes_range (f : Nat → UInt32) : ∀ k,
    ((List.range k).map f).flatMap bytesOfWord = (List.range (4 * k)).map (fun j => byteAt (f (j / 4)) (j % 4))
  | 0 => rfl
  | k+1 => by
    rw [List.range_succ, List.map_append, List.flatMap_append, flatMap_bytes_range f k, Nat.mul_succ, List.range_add,
      List.map_append, List.map_map]
    congr 1
    have e4 : List.range 4 = [0, 1, 2, 3] := rfl
    rw [e4]
    have d0 : (4 * k + 0) / 4 = k ∧ (4 * k + 0) % 4 = 0 := by omega
    have d1 : (4 * k + 1) / 4 = k ∧ (4 * k + 1) % 4 = 1 := by omega
    have d2 : (4 * k + 2) / 4 = k ∧ (4 * k + 2) % 4 = 2 := by omega
    have d3 : (4 * k + 3) / 4 = k ∧ (4 * k + 3) % 4 = 3 := by omega
    simp only [List.map_cons, List.map_nil, List.flatMap_cons, List.flatMap_nil, List.append_nil, Function.comp_def,
      d0, d1, d2, d3]
    rfl

/-- the bytes `bytesOfBlks` produces from the 2r blocks held at the start of xy -/
theorem bytesOfBlks_blocksOf (a : Words) (k : Nat) :
    bytesOfBlks (blocksOf a 0 k) = (List.range (64 * k)).map (fun j => byteAt (rdw a (j / 4)) (j % 4)) := by
  unfold bytesOfBlks
  rw [flatMap_words_blocksOf a 0 k]
  have e : (fun t => rdw a (0 + t)) = rdw a := by funext t; rw [Nat.zero_add]
  rw [e, flatMap_bytes_range (rdw a) (16 * k)]
  have e2 : 4 * (16 * k) = 64 * k := by omega
  rw [e2]

end XC.C16
