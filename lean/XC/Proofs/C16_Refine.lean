/-
  C16 — refinement of the flat-memory model (L1) to the block-level model (L2).
  Part A: word-level facts about rd16 / wr16; Part B: blockMixGo = blockMixI'.
-/
import XC.Model.C16
import XC.Proofs.C16_NoPanic
import XC.Proofs.C16_Rfc
namespace XC.C16

/-! ## A. words -/

/-- the word at index i (0 outside the array; only used inside) -/
def rdw (a : Words) (i : Nat) : UInt32 := (a[i]?).getD 0

theorem rdw_set (a : Words) (j i : Nat) (v : UInt32) :
    rdw (a.setIfInBounds j v) i = if j = i ∧ j < a.size then v else rdw a i := by
  unfold rdw
  rw [Array.getElem?_setIfInBounds]
  by_cases h : j = i
  · subst h
    by_cases h2 : j < a.size
    · simp [h2]
    · simp [h2]
  · simp [h]

theorem rdw_of_lt (a : Words) (i : Nat) (h : i < a.size) : a[i]? = some (rdw a i) := by
  unfold rdw; rw [Array.getElem?_eq_getElem h]; rfl

/-- the sixteen words starting at o -/
def blkAt (a : Words) (o : Nat) : Blk :=
  ⟨rdw a o, rdw a (o + 1), rdw a (o + 2), rdw a (o + 3), rdw a (o + 4), rdw a (o + 5), rdw a (o + 6), rdw a (o + 7), rdw a (o + 8), rdw a (o + 9), rdw a (o + 10), rdw a (o + 11), rdw a (o + 12), rdw a (o + 13), rdw a (o + 14), rdw a (o + 15)⟩

def Blk.get (b : Blk) (k : Nat) : UInt32 := b.words.getD k 0

theorem blkAt_get (a : Words) (o k : Nat) (hk : k < 16) : (blkAt a o).get k = rdw a (o + k) := by
  have : k = 0 ∨ k = 1 ∨ k = 2 ∨ k = 3 ∨ k = 4 ∨ k = 5 ∨ k = 6 ∨ k = 7 ∨ k = 8 ∨ k = 9 ∨ k = 10 ∨ k = 11 ∨
      k = 12 ∨ k = 13 ∨ k = 14 ∨ k = 15 := by omega
  rcases this with h | h | h | h | h | h | h | h | h | h | h | h | h | h | h | h <;> subst h <;>
    simp [Blk.get, Blk.words, blkAt]

theorem Blk.ext_get (b c : Blk) (h : ∀ k, k < 16 → b.get k = c.get k) : b = c := by
  cases b; cases c
  have h0 := h 0 (by omega); have h1 := h 1 (by omega); have h2 := h 2 (by omega); have h3 := h 3 (by omega)
  have h4 := h 4 (by omega); have h5 := h 5 (by omega); have h6 := h 6 (by omega); have h7 := h 7 (by omega)
  have h8 := h 8 (by omega); have h9 := h 9 (by omega); have h10 := h 10 (by omega); have h11 := h 11 (by omega)
  have h12 := h 12 (by omega); have h13 := h 13 (by omega); have h14 := h 14 (by omega); have h15 := h 15 (by omega)
  simp [Blk.get, Blk.words] at h0 h1 h2 h3 h4 h5 h6 h7 h8 h9 h10 h11 h12 h13 h14 h15
  simp [*]

theorem blkAt_congr (a a' : Words) (o o' : Nat) (h : ∀ k, k < 16 → rdw a' (o' + k) = rdw a (o + k)) :
    blkAt a' o' = blkAt a o := by
  apply Blk.ext_get
  intro k hk
  rw [blkAt_get _ _ _ hk, blkAt_get _ _ _ hk, h k hk]

theorem rd16_eq (a : Words) (s : View) (h1 : 16 ≤ s.len) (h2 : s.off + 16 ≤ a.size) :
    rd16 a s = some (blkAt a s.off) := by
  unfold rd16
  rw [if_pos h1]
  have g : ∀ k, k < 16 → a[s.off + k]? = some (rdw a (s.off + k)) := fun k hk => rdw_of_lt a _ (by omega)
  have g0 : a[s.off]? = some (rdw a s.off) := by simpa using g 0 (by omega)
  simp [g0, g 1, g 2, g 3, g 4, g 5, g 6, g 7, g 8, g 9, g 10, g 11, g 12, g 13, g 14, g 15, blkAt]

/-- writing sixteen words: pointwise description of the new array -/
theorem wr16_eq (a : Words) (s : View) (b : Blk) (h1 : 16 ≤ s.len) (h2 : s.off + 16 ≤ a.size) :
    ∃ a', wr16 a s b = some a' ∧ a'.size = a.size ∧
      ∀ i, rdw a' i = if s.off ≤ i ∧ i < s.off + 16 then b.get (i - s.off) else rdw a i := by
  unfold wr16
  rw [if_pos ⟨h1, h2⟩]
  refine ⟨_, rfl, by simp, ?_⟩
  intro i
  simp only [rdw_set, Array.size_setIfInBounds]
  by_cases hin : s.off ≤ i ∧ i < s.off + 16
  · rw [if_pos hin]
    obtain ⟨k, hk, rfl⟩ : ∃ k, k < 16 ∧ i = s.off + k := ⟨i - s.off, by omega, by omega⟩
    have e : s.off + k - s.off = k := by omega
    rw [e]
    have : k = 0 ∨ k = 1 ∨ k = 2 ∨ k = 3 ∨ k = 4 ∨ k = 5 ∨ k = 6 ∨ k = 7 ∨ k = 8 ∨ k = 9 ∨ k = 10 ∨ k = 11 ∨
        k = 12 ∨ k = 13 ∨ k = 14 ∨ k = 15 := by omega
    rcases this with hk | hk | hk | hk | hk | hk | hk | hk | hk | hk | hk | hk | hk | hk | hk | hk <;> subst hk <;>
      simp [Blk.get, Blk.words] <;> omega
  · rw [if_neg hin]
    have n : ∀ j, j < 16 → ¬ (s.off + j = i) := by intro j hj; omega
    have n0 : ¬ (s.off = i) := by omega
    simp [n0, n 1, n 2, n 3, n 4, n 5, n 6, n 7, n 8, n 9, n 10, n 11, n 12, n 13, n 14, n 15]

end XC.C16
