/-
  C16 — the flat-memory model never takes a bounds-check exit when the buffers have the sizes
  scrypt.Key allocates: len xy = 64r, len v = N·32r, the B slice handed to smix has ≥ 128r bytes.
-/
import XC.Model.C16
namespace XC.C16

/-! ### loops -/

theorem loop2_inv {σ : Type} (n : Nat) (body : Nat → σ → Option σ) (P : Nat → σ → Prop)
    (hstep : ∀ i s, i < n → P i s → ∃ s', body i s = some s' ∧ P (i + 2) s') :
    ∀ fuel i s, P i s → ∃ s' i', loop2 n body fuel i s = some s' ∧ P i' s' := by
  intro fuel
  induction fuel with
  | zero => intro i s h; exact ⟨s, i, rfl, h⟩
  | succ f ih =>
    intro i s h
    unfold loop2
    by_cases hi : i < n
    · obtain ⟨s', hb, hp⟩ := hstep i s hi h
      rw [if_pos hi, hb]
      exact ih (i + 2) s' hp
    · rw [if_neg hi]; exact ⟨s, i, rfl, h⟩

theorem loop1_inv {σ : Type} (n : Nat) (body : Nat → σ → Option σ) (P : Nat → σ → Prop)
    (hstep : ∀ i s, i < n → P i s → ∃ s', body i s = some s' ∧ P (i + 1) s') :
    ∀ fuel i s, P i s → ∃ s' i', loop1 n body fuel i s = some s' ∧ P i' s' := by
  intro fuel
  induction fuel with
  | zero => intro i s h; exact ⟨s, i, rfl, h⟩
  | succ f ih =>
    intro i s h
    unfold loop1
    by_cases hi : i < n
    · obtain ⟨s', hb, hp⟩ := hstep i s hi h
      rw [if_pos hi, hb]
      exact ih (i + 1) s' hp
    · rw [if_neg hi]; exact ⟨s, i, rfl, h⟩

/-! ### sixteen-word reads and writes -/

theorem rd16_some (a : Words) (s : View) (h1 : 16 ≤ s.len) (h2 : s.off + 16 ≤ a.size) :
    ∃ b, rd16 a s = some b := by
  unfold rd16
  rw [if_pos h1]
  have g : ∀ k, k < 16 → ∃ w, a[s.off + k]? = some w := by
    intro k hk
    exact ⟨a[s.off + k]'(by omega), Array.getElem?_eq_getElem (by omega)⟩
  obtain ⟨w0, e0⟩ : ∃ w, a[s.off]? = some w := by simpa using g 0 (by omega)
  obtain ⟨w1, e1⟩ := g 1 (by omega); obtain ⟨w2, e2⟩ := g 2 (by omega)
  obtain ⟨w3, e3⟩ := g 3 (by omega); obtain ⟨w4, e4⟩ := g 4 (by omega)
  obtain ⟨w5, e5⟩ := g 5 (by omega); obtain ⟨w6, e6⟩ := g 6 (by omega)
  obtain ⟨w7, e7⟩ := g 7 (by omega); obtain ⟨w8, e8⟩ := g 8 (by omega)
  obtain ⟨w9, e9⟩ := g 9 (by omega); obtain ⟨w10, e10⟩ := g 10 (by omega)
  obtain ⟨w11, e11⟩ := g 11 (by omega); obtain ⟨w12, e12⟩ := g 12 (by omega)
  obtain ⟨w13, e13⟩ := g 13 (by omega); obtain ⟨w14, e14⟩ := g 14 (by omega)
  obtain ⟨w15, e15⟩ := g 15 (by omega)
  simp [e0, e1, e2, e3, e4, e5, e6, e7, e8, e9, e10, e11, e12, e13, e14, e15]

theorem wr16_some (a : Words) (s : View) (b : Blk) (h1 : 16 ≤ s.len) (h2 : s.off + 16 ≤ a.size) :
    ∃ a', wr16 a s b = some a' ∧ a'.size = a.size := by
  unfold wr16
  rw [if_pos ⟨h1, h2⟩]
  exact ⟨_, rfl, by simp⟩

theorem sliceFrom_some (s : View) (a : Nat) (h : a ≤ s.len) :
    s.sliceFrom a = some ⟨s.off + a, s.len - a⟩ := by
  unfold View.sliceFrom; rw [if_pos h]

/-! ### blockMix -/

theorem bmStep_some (inp out : View) (r : Nat) (sz : Nat) (hr : 1 ≤ r)
    (hi1 : 32 * r ≤ inp.len) (hi2 : inp.off + inp.len ≤ sz)
    (ho1 : 32 * r ≤ out.len) (ho2 : out.off + out.len ≤ sz)
    (i : Nat) (st : Blk × Words) (hi : i < 2 * r) (hev : i % 2 = 0) (hsz : st.2.size = sz) :
    ∃ st', bmStep inp out r i st = some st' ∧ st'.2.size = sz := by
  unfold bmStep
  simp only [Option.bind_eq_bind, Option.pure_def]
  rw [sliceFrom_some inp (i * 16) (by omega), sliceFrom_some out (i * 8) (by omega)]
  simp only [Option.bind_some]
  obtain ⟨b1, e1⟩ := rd16_some st.2 ⟨inp.off + i * 16, inp.len - i * 16⟩ (by simp only; omega) (by simp only; omega)
  rw [e1]; simp only [Option.bind_some]
  obtain ⟨xy1, e2, s2⟩ := wr16_some st.2 ⟨out.off + i * 8, out.len - i * 8⟩ (salsaXOR st.1 b1)
    (by simp only; omega) (by simp only; omega)
  rw [e2]; simp only [Option.bind_some]
  rw [sliceFrom_some inp (i * 16 + 16) (by omega), sliceFrom_some out (i * 8 + r * 16) (by omega)]
  simp only [Option.bind_some]
  obtain ⟨b2, e3⟩ := rd16_some xy1 ⟨inp.off + (i * 16 + 16), inp.len - (i * 16 + 16)⟩
    (by simp only; omega) (by simp only; omega)
  rw [e3]; simp only [Option.bind_some]
  obtain ⟨xy2, e4, s4⟩ := wr16_some xy1 ⟨out.off + (i * 8 + r * 16), out.len - (i * 8 + r * 16)⟩
    (salsaXOR (salsaXOR st.1 b1) b2) (by simp only; omega) (by simp only; omega)
  rw [e4]
  exact ⟨_, rfl, by simp only; omega⟩

theorem blockMixGo_some (xy : Words) (inp out : View) (r : Nat) (hr : 1 ≤ r)
    (hi1 : 32 * r ≤ inp.len) (hi2 : inp.off + inp.len ≤ xy.size)
    (ho1 : 32 * r ≤ out.len) (ho2 : out.off + out.len ≤ xy.size) :
    ∃ xy', blockMixGo xy inp out r = some xy' ∧ xy'.size = xy.size := by
  unfold blockMixGo
  simp only [Option.bind_eq_bind, Option.pure_def]
  rw [sliceFrom_some inp ((2 * r - 1) * 16) (by omega)]
  simp only [Option.bind_some]
  obtain ⟨t, e1⟩ := rd16_some xy ⟨inp.off + (2 * r - 1) * 16, inp.len - (2 * r - 1) * 16⟩
    (by simp only; omega) (by simp only; omega)
  rw [e1]; simp only [Option.bind_some]
  obtain ⟨st', i', e2, hp⟩ := loop2_inv (2 * r) (bmStep inp out r)
    (fun i (st : Blk × Words) => i % 2 = 0 ∧ st.2.size = xy.size)
    (by
      intro i st hi hP
      obtain ⟨st', e, hs⟩ := bmStep_some inp out r xy.size hr hi1 hi2 ho1 ho2 i st hi hP.1 hP.2
      exact ⟨st', e, by omega, hs⟩)
    (2 * r) 0 (t, xy) ⟨rfl, rfl⟩
  rw [e2]
  exact ⟨_, rfl, hp.2⟩

/-! ### integer, blockCopy, blockXOR -/

theorem integerGo_some (xy : Words) (b : View) (r : Nat) (hr : 1 ≤ r)
    (h1 : 32 * r ≤ b.len) (h2 : b.off + b.len ≤ xy.size) : ∃ g, integerGo xy b r = some g := by
  unfold integerGo
  simp only [Option.bind_eq_bind, Option.pure_def]
  rw [if_pos (by omega)]
  rw [Array.getElem?_eq_getElem (by omega : b.off + (2 * r - 1) * 16 < xy.size),
      Array.getElem?_eq_getElem (by omega : b.off + (2 * r - 1) * 16 + 1 < xy.size)]
  exact ⟨_, rfl⟩

theorem blockCopyGo_some (dstA : Words) (dst : View) (srcA : Words) (src : View) (n : Nat)
    (h1 : n ≤ src.len) (h2 : src.off + n ≤ srcA.size) (h3 : dst.off + dst.len ≤ dstA.size) :
    ∃ d, blockCopyGo dstA dst srcA src n = some d ∧ d.size = dstA.size := by
  unfold blockCopyGo
  rw [if_pos ⟨h1, h2, h3⟩]
  obtain ⟨d, i', e, hp⟩ := loop1_inv (min dst.len n)
    (fun i d => do let w ← srcA[src.off + i]?; pure (d.setIfInBounds (dst.off + i) w))
    (fun _ (d : Words) => d.size = dstA.size)
    (by
      intro i d hi hP
      have : src.off + i < srcA.size := by omega
      simp only [Option.bind_eq_bind, Option.pure_def, Array.getElem?_eq_getElem this, Option.bind_some]
      exact ⟨_, rfl, by simpa using hP⟩)
    (min dst.len n) 0 dstA rfl
  exact ⟨d, e, hp⟩

theorem blockXORGo_some (dstA : Words) (dst : View) (srcA : Words) (src : View) (n : Nat)
    (h1 : n ≤ src.len) (h2 : src.off + n ≤ srcA.size) (h3 : n ≤ dst.len) (h4 : dst.off + dst.len ≤ dstA.size) :
    ∃ d, blockXORGo dstA dst srcA src n = some d ∧ d.size = dstA.size := by
  unfold blockXORGo
  rw [if_pos ⟨h1, h2⟩]
  obtain ⟨d, i', e, hp⟩ := loop1_inv n
    (fun i d =>
      if i < dst.len then do
        let w ← srcA[src.off + i]?
        let o ← d[dst.off + i]?
        pure (d.setIfInBounds (dst.off + i) (o ^^^ w))
      else none)
    (fun _ (d : Words) => d.size = dstA.size)
    (by
      intro i d hi hP
      have a1 : src.off + i < srcA.size := by omega
      have a2 : dst.off + i < d.size := by omega
      rw [if_pos (by omega)]
      simp only [Option.bind_eq_bind, Option.pure_def, Array.getElem?_eq_getElem a1,
        Array.getElem?_eq_getElem a2, Option.bind_some]
      exact ⟨_, rfl, by simpa using hP⟩)
    n 0 dstA rfl
  exact ⟨d, e, hp⟩

theorem le32At_some (b : Array UInt8) (j : Nat) (h : j + 4 ≤ b.size) : ∃ w, le32At b j = some w := by
  unfold le32At
  simp only [Option.bind_eq_bind, Option.pure_def]
  rw [if_pos h, Array.getElem?_eq_getElem (by omega : j < b.size),
    Array.getElem?_eq_getElem (by omega : j + 1 < b.size),
    Array.getElem?_eq_getElem (by omega : j + 2 < b.size),
    Array.getElem?_eq_getElem (by omega : j + 3 < b.size)]
  exact ⟨_, rfl⟩

theorem putLe32At_some (b : Array UInt8) (j : Nat) (w : UInt32) (h : j + 4 ≤ b.size) :
    ∃ b', putLe32At b j w = some b' ∧ b'.size = b.size := by
  unfold putLe32At
  rw [if_pos h]
  exact ⟨_, rfl, by simp⟩

/-! ### smix -/

/-- the buffers have the sizes `Key` gives them -/
structure Sized (m : Mem) (boff r n : Nat) : Prop where
  xy : m.xy.size = 64 * r
  v : m.v.size = n * (32 * r)
  b : boff + 128 * r ≤ m.b.size

theorem mul_succ_le {i n R : Nat} (h : i < n) : i * R + R ≤ n * R := by
  have : (i + 1) * R ≤ n * R := Nat.mul_le_mul_right R h
  rw [Nat.add_mul, Nat.one_mul] at this; exact this

theorem fillStep_some (r n : Nat) (hr : 1 ≤ r) (sx sv : Nat) (hsx : sx = 64 * r) (hsv : sv = n * (32 * r))
    (i : Nat) (st : Words × Words) (hi : i < n) (h1 : st.1.size = sv) (h2 : st.2.size = sx) :
    ∃ st', fillStep ⟨0, sx⟩ ⟨32 * r, sx - 32 * r⟩ ⟨0, sv⟩ r i st = some st' ∧
      st'.1.size = sv ∧ st'.2.size = sx := by
  unfold fillStep
  simp only [Option.bind_eq_bind, Option.pure_def]
  have hm := mul_succ_le (R := 32 * r) hi
  have hm2 : (i + 1) * (32 * r) = i * (32 * r) + 32 * r := by rw [Nat.add_mul, Nat.one_mul]
  rw [sliceFrom_some _ _ (by simp only; omega)]
  simp only [Option.bind_some]
  obtain ⟨v1, e1, s1⟩ := blockCopyGo_some st.1 ⟨0 + i * (32 * r), sv - i * (32 * r)⟩ st.2 ⟨0, sx⟩ (32 * r)
    (by simp only; omega) (by simp only; omega) (by simp only; omega)
  rw [e1]; simp only [Option.bind_some]
  obtain ⟨xy1, e2, s2⟩ := blockMixGo_some st.2 ⟨0, sx⟩ ⟨32 * r, sx - 32 * r⟩ r hr
    (by simp only; omega) (by simp only; omega) (by simp only; omega) (by simp only; omega)
  rw [e2]; simp only [Option.bind_some]
  rw [sliceFrom_some _ _ (by simp only; omega)]
  simp only [Option.bind_some]
  obtain ⟨v2, e3, s3⟩ := blockCopyGo_some v1 ⟨0 + (i + 1) * (32 * r), sv - (i + 1) * (32 * r)⟩ xy1
    ⟨32 * r, sx - 32 * r⟩ (32 * r) (by simp only; omega) (by simp only; omega) (by simp only; omega)
  rw [e3]; simp only [Option.bind_some]
  obtain ⟨xy2, e4, s4⟩ := blockMixGo_some xy1 ⟨32 * r, sx - 32 * r⟩ ⟨0, sx⟩ r hr
    (by simp only; omega) (by simp only; omega) (by simp only; omega) (by simp only; omega)
  rw [e4]
  exact ⟨_, rfl, by simp only; omega, by simp only; omega⟩

theorem and_pred_lt (g : UInt64) (n : Nat) (hn : 1 ≤ n) : (g &&& UInt64.ofNat (n - 1)).toNat < n := by
  rw [UInt64.toNat_and]
  have h1 : g.toNat &&& (UInt64.ofNat (n - 1)).toNat ≤ (UInt64.ofNat (n - 1)).toNat := Nat.and_le_right
  have h2 : (UInt64.ofNat (n - 1)).toNat ≤ n - 1 := by
    rw [UInt64.toNat_ofNat']; exact Nat.mod_le _ _
  omega

theorem mixStep_some (r n : Nat) (hr : 1 ≤ r) (hn : 1 ≤ n) (sx sv : Nat) (hsx : sx = 64 * r)
    (hsv : sv = n * (32 * r))
    (i : Nat) (st : Words × Words) (h1 : st.1.size = sv) (h2 : st.2.size = sx) :
    ∃ st', mixStep ⟨0, sx⟩ ⟨32 * r, sx - 32 * r⟩ ⟨0, sv⟩ r n i st = some st' ∧
      st'.1.size = sv ∧ st'.2.size = sx := by
  unfold mixStep
  simp only [Option.bind_eq_bind, Option.pure_def]
  obtain ⟨g1, e1⟩ := integerGo_some st.2 ⟨0, sx⟩ r hr (by simp only; omega) (by simp only; omega)
  rw [e1]; simp only [Option.bind_some]
  have hj1 := mul_succ_le (R := 32 * r) (and_pred_lt g1 n hn)
  rw [sliceFrom_some _ _ (by simp only; omega)]
  simp only [Option.bind_some]
  obtain ⟨xy1, e2, s2⟩ := blockXORGo_some st.2 ⟨0, sx⟩ st.1
    ⟨0 + (g1 &&& UInt64.ofNat (n - 1)).toNat * (32 * r), sv - (g1 &&& UInt64.ofNat (n - 1)).toNat * (32 * r)⟩
    (32 * r) (by simp only; omega) (by simp only; omega) (by simp only; omega) (by simp only; omega)
  rw [e2]; simp only [Option.bind_some]
  obtain ⟨xy2, e3, s3⟩ := blockMixGo_some xy1 ⟨0, sx⟩ ⟨32 * r, sx - 32 * r⟩ r hr
    (by simp only; omega) (by simp only; omega) (by simp only; omega) (by simp only; omega)
  rw [e3]; simp only [Option.bind_some]
  obtain ⟨g2, e4⟩ := integerGo_some xy2 ⟨32 * r, sx - 32 * r⟩ r hr (by simp only; omega) (by simp only; omega)
  rw [e4]; simp only [Option.bind_some]
  have hj2 := mul_succ_le (R := 32 * r) (and_pred_lt g2 n hn)
  rw [sliceFrom_some _ _ (by simp only; omega)]
  simp only [Option.bind_some]
  obtain ⟨xy3, e5, s5⟩ := blockXORGo_some xy2 ⟨32 * r, sx - 32 * r⟩ st.1
    ⟨0 + (g2 &&& UInt64.ofNat (n - 1)).toNat * (32 * r), sv - (g2 &&& UInt64.ofNat (n - 1)).toNat * (32 * r)⟩
    (32 * r) (by simp only; omega) (by simp only; omega) (by simp only; omega) (by simp only; omega)
  rw [e5]; simp only [Option.bind_some]
  obtain ⟨xy4, e6, s6⟩ := blockMixGo_some xy3 ⟨32 * r, sx - 32 * r⟩ ⟨0, sx⟩ r hr
    (by simp only; omega) (by simp only; omega) (by simp only; omega) (by simp only; omega)
  rw [e6]
  exact ⟨_, rfl, by simp only; omega, by simp only; omega⟩

/-- smix on correctly sized buffers never takes a bounds-check exit and keeps the sizes -/
theorem smixGo_some (m : Mem) (boff r n : Nat) (hr : 1 ≤ r) (hn : 1 ≤ n) (hs : Sized m boff r n) :
    ∃ m', smixGo m boff r n = some m' ∧ m'.xy.size = m.xy.size ∧ m'.v.size = m.v.size ∧
      m'.b.size = m.b.size := by
  obtain ⟨hxy, hv, hb⟩ := hs
  unfold smixGo
  rw [if_neg (by omega)]
  simp only
  rw [sliceFrom_some _ _ (by simp only; omega)]
  simp only [Option.bind_some]
  -- load
  obtain ⟨xy1, _, e1, s1⟩ := loop1_inv (32 * r) (loadStep m.b boff ⟨0, m.xy.size⟩)
    (fun _ (a : Words) => a.size = m.xy.size)
    (by
      intro i a hi hP
      unfold loadStep
      rw [if_pos (by simp only; omega)]
      obtain ⟨w, ew⟩ := le32At_some m.b (boff + 4 * i) (by omega)
      simp only [Option.bind_eq_bind, Option.pure_def, ew, Option.bind_some]
      exact ⟨_, rfl, by simpa using hP⟩)
    (32 * r) 0 m.xy rfl
  rw [e1]; simp only [Option.bind_some]
  -- fill
  obtain ⟨st2, _, e2, s2⟩ := loop2_inv n (fillStep ⟨0, m.xy.size⟩ ⟨0 + 32 * r, m.xy.size - 32 * r⟩ ⟨0, m.v.size⟩ r)
    (fun _ (st : Words × Words) => st.1.size = m.v.size ∧ st.2.size = m.xy.size)
    (by
      intro i st hi hP
      have := fillStep_some r n hr m.xy.size m.v.size hxy hv i st hi hP.1 hP.2
      simpa using this)
    n 0 (m.v, xy1) ⟨rfl, s1⟩
  rw [e2]; simp only [Option.bind_some]
  -- mix
  obtain ⟨st3, _, e3, s3⟩ := loop2_inv n (mixStep ⟨0, m.xy.size⟩ ⟨0 + 32 * r, m.xy.size - 32 * r⟩ ⟨0, m.v.size⟩ r n)
    (fun _ (st : Words × Words) => st.1.size = m.v.size ∧ st.2.size = m.xy.size)
    (by
      intro i st _ hP
      have := mixStep_some r n hr hn m.xy.size m.v.size hxy hv i st hP.1 hP.2
      simpa using this)
    n 0 st2 s2
  rw [e3]; simp only [Option.bind_some]
  rw [if_neg (by omega)]
  -- store
  obtain ⟨b4, _, e4, s4⟩ := loop1_inv (32 * r) (storeStep st3.2 boff)
    (fun _ (b : Array UInt8) => b.size = m.b.size)
    (by
      intro i b hi hP
      unfold storeStep
      have : i < st3.2.size := by omega
      simp only [Option.bind_eq_bind, Array.getElem?_eq_getElem this, Option.bind_some]
      obtain ⟨b', eb, sb⟩ := putLe32At_some b (boff + 4 * i) st3.2[i] (by omega)
      exact ⟨b', eb, by omega⟩)
    (32 * r) 0 m.b rfl
  rw [e4]
  exact ⟨_, rfl, s3.2, s3.1, s4⟩

/-- `for i := 0; i < p; i++ { smix(b[i*128*r:], …) }` with len b = p·128·r -/
theorem smixAll_some (r n p : Nat) (hr : 1 ≤ r) (hn : 1 ≤ n) :
    ∀ k i m, i + k = p → m.xy.size = 64 * r → m.v.size = n * (32 * r) → m.b.size = p * 128 * r →
    ∃ m', smixAll r n k i m = some m' ∧ m'.b.size = p * 128 * r := by
  intro k
  induction k with
  | zero => intro i m _ _ _ hb; exact ⟨m, rfl, hb⟩
  | succ k ih =>
    intro i m hik hxy hv hb
    unfold smixAll
    have hle : i * 128 * r + 128 * r ≤ p * 128 * r := by
      have : (i + 1) * (128 * r) ≤ p * (128 * r) := Nat.mul_le_mul_right _ (by omega)
      rw [Nat.add_mul, Nat.one_mul] at this
      simpa [Nat.mul_assoc] using this
    obtain ⟨m', e, s1, s2, s3⟩ := smixGo_some m (i * 128 * r) r n hr hn ⟨hxy, hv, by omega⟩
    rw [e]
    simp only [Option.bind_some]
    exact ih (i + 1) m' (by omega) (by omega) (by omega) (by omega)

end XC.C16
