/-
  C47 — `encode` ↦ `processFragment` round trip.
-/
import XC.Proofs.C47_Frag
namespace XC.C47

theorem hasPrefix_frag (k n : Nat) (x y : Bytes) :
    hasPrefix fragmentPrefix (fragHeader k n ++ x ++ y) = true := by
  simp [hasPrefix, fragHeader, fragmentPrefix]

theorem frontEnd_frag (s : FragSt) (k n : Nat) (piece : Bytes) :
    frontEnd s (fragHeader k n ++ piece ++ [comma]) =
      (match processFragment s (fragHeader k n ++ piece ++ [comma]) with
       | (s', .err) => (s', .err)
       | (s', .pending) => (s', .nothing)
       | (s', .done none) => (s', .nothing)
       | (s', .done (some b)) => (s', .msg b)) := by
  unfold frontEnd
  rw [hasPrefix_frag]
  simp only [if_true]
  rfl

theorem not_mem_take {t : Bytes} (n : Nat) (h : comma ∉ t) : comma ∉ t.take n :=
  fun hm => h (List.mem_of_mem_take hm)

theorem not_mem_drop {t : Bytes} (n : Nat) (h : comma ∉ t) : comma ∉ t.drop n :=
  fun hm => h (List.mem_of_mem_drop hm)

/-- fragments i+1 … N arriving at a state that has collected fragments 1 … i -/
theorem feed_tail (bpf N : Nat) (hN : N < 2 ^ 63) :
    ∀ (cnt i : Nat) (t acc : Bytes), 1 ≤ i → i + cnt = N → 1 ≤ cnt → comma ∉ t →
      feed ⟨i, N, some acc⟩ (fragLoop bpf N cnt i t)
        = (⟨0, 0, some (acc ++ t.take (cnt * bpf))⟩,
           List.replicate (cnt - 1) FrontOut.nothing ++ [.msg (acc ++ t.take (cnt * bpf))]) := by
  intro cnt
  induction cnt with
  | zero => intro i t acc _ _ h; omega
  | succ c ih =>
    intro i t acc hi hsum _ hc
    have hpf := processFragment_encoded ⟨i, N, some acc⟩ (i + 1) N (t.take bpf) (not_mem_take bpf hc)
      (by omega) (by omega) hN
    have hk1 : ¬ (i + 1 = 1) := by omega
    simp only [hk1, if_false, and_self, if_true, fragAppend] at hpf
    by_cases hlast : c = 0
    · subst hlast
      have hcond : N > 0 ∧ i + 1 = N := by omega
      rw [if_pos hcond] at hpf
      simp only [fragLoop, feed, frontEnd_frag, hpf]
      simp
    · have hlt : ¬ (N > 0 ∧ i + 1 = N) := by omega
      rw [if_neg hlt] at hpf
      have ih' := ih (i + 1) (t.drop bpf) (acc ++ t.take bpf) (by omega) (by omega) (by omega) (not_mem_drop bpf hc)
      have e : acc ++ List.take bpf t ++ List.take (c * bpf) (List.drop bpf t)
          = acc ++ List.take ((c + 1) * bpf) t := by
        rw [List.append_assoc, Nat.add_mul, Nat.one_mul, Nat.add_comm (c * bpf) bpf, List.take_add]
      have e2 : c + 1 - 1 = (c - 1) + 1 := by omega
      simp only [fragLoop, feed, frontEnd_frag, hpf, ih', e, e2,
        List.replicate_succ, List.cons_append]

end XC.C47
