/-
  XC.Basic — byte strings, hex, key=value op lines.  Core Lean only.
  Shared by every model and by the line driver `xcdrv`.
-/
namespace XC

abbrev Bytes := List UInt8

/-! ## hex -/

def hexDigit (n : Nat) : Char :=
  if n < 10 then Char.ofNat (48 + n) else Char.ofNat (87 + n)

def hexOfByte (b : UInt8) : String :=
  String.ofList [hexDigit (b.toNat / 16), hexDigit (b.toNat % 16)]

/-- lower-case hex; the empty byte string is written `-` so a field is never empty -/
def toHex (bs : Bytes) : String :=
  if bs.isEmpty then "-" else String.join (bs.map hexOfByte)

def hexVal (c : Char) : Option Nat :=
  if '0' ≤ c ∧ c ≤ '9' then some (c.toNat - 48)
  else if 'a' ≤ c ∧ c ≤ 'f' then some (c.toNat - 87)
  else if 'A' ≤ c ∧ c ≤ 'F' then some (c.toNat - 55)
  else none

def ofHexCharsAux : List Char → Bytes → Option Bytes
  | [], acc => some acc.reverse
  | [_], _ => none
  | a :: b :: rest, acc =>
    match hexVal a, hexVal b with
    | some x, some y => ofHexCharsAux rest (UInt8.ofNat (16 * x + y) :: acc)
    | _, _ => none

/-- tail-recursive, so multi-megabyte fields do not overflow the stack in the compiled driver -/
def ofHexChars (cs : List Char) : Option Bytes := ofHexCharsAux cs []

def ofHex (s : String) : Option Bytes :=
  if s == "-" then some [] else ofHexChars s.toList

/-! ## op lines: `cmd k1=v1 k2=v2 …` -/

structure Op where
  cmd : String
  kv  : List (String × String)

def splitKV (s : String) : String × String :=
  match s.splitOn "=" with
  | [] => (s, "")
  | [k] => (k, "")
  | k :: rest => (k, "=".intercalate rest)

def parseOp (line : String) : Op :=
  match (line.splitOn " ").filter (· ≠ "") with
  | [] => ⟨"", []⟩
  | c :: rest => ⟨c, rest.map splitKV⟩

def Op.get? (o : Op) (k : String) : Option String := o.kv.lookup k
def Op.str (o : Op) (k : String) : String := (o.get? k).getD ""
def Op.nat? (o : Op) (k : String) : Option Nat := (o.get? k).bind String.toNat?
def Op.int? (o : Op) (k : String) : Option Int := (o.get? k).bind String.toInt?
def Op.hex? (o : Op) (k : String) : Option Bytes := (o.get? k).bind ofHex
def Op.natList? (o : Op) (k : String) : Option (List Nat) :=
  match o.get? k with
  | none => none
  | some "-" => some []
  | some s => (s.splitOn ",").mapM String.toNat?

/-! ## integers ↔ bytes -/

def natToLE : Nat → Nat → Bytes
  | 0, _ => []
  | n+1, v => UInt8.ofNat (v % 256) :: natToLE n (v / 256)

def natOfLE : Bytes → Nat
  | [] => 0
  | b :: r => b.toNat + 256 * natOfLE r

def natToBE (n v : Nat) : Bytes := (natToLE n v).reverse
def natOfBE (bs : Bytes) : Nat := natOfLE bs.reverse

def le32 (bs : Bytes) : UInt32 := UInt32.ofNat (natOfLE (bs.take 4))
def be32 (bs : Bytes) : UInt32 := UInt32.ofNat (natOfBE (bs.take 4))
def le64 (bs : Bytes) : UInt64 := UInt64.ofNat (natOfLE (bs.take 8))
def be64 (bs : Bytes) : UInt64 := UInt64.ofNat (natOfBE (bs.take 8))
def u32le (w : UInt32) : Bytes := natToLE 4 w.toNat
def u32be (w : UInt32) : Bytes := natToBE 4 w.toNat
def u64le (w : UInt64) : Bytes := natToLE 8 w.toNat
def u64be (w : UInt64) : Bytes := natToBE 8 w.toNat

def xorBytes (a b : Bytes) : Bytes := List.zipWith (· ^^^ ·) a b

def zeros (n : Nat) : Bytes := List.replicate n 0

/-- split into chunks of `n` bytes (last may be short); `n = 0` gives `[]` (callers guard) -/
def chunks (n : Nat) (bs : Bytes) : List Bytes :=
  if _h : n = 0 then [] else
  if bs.isEmpty then [] else
  bs.take n :: chunks n (bs.drop n)
termination_by bs.length
decreasing_by
  simp only [List.length_drop]
  cases bs with
  | nil => simp at *
  | cons a t => simp; omega

theorem natToLE_length (n v : Nat) : (natToLE n v).length = n := by
  induction n generalizing v with
  | zero => rfl
  | succ n ih => simp [natToLE, ih]

theorem natOfLE_natToLE (n v : Nat) : natOfLE (natToLE n v) = v % 256 ^ n := by
  induction n generalizing v with
  | zero => simp [natToLE, natOfLE, Nat.mod_one]
  | succ n ih =>
    simp only [natToLE, natOfLE, ih]
    have h : (UInt8.ofNat (v % 256)).toNat = v % 256 := by
      simp [UInt8.toNat_ofNat']
    rw [h, Nat.pow_succ, Nat.mul_comm (256 ^ n) 256, Nat.mod_mul, Nat.add_comm]

theorem xorBytes_length (a b : Bytes) : (xorBytes a b).length = min a.length b.length := by
  simp [xorBytes]

end XC
