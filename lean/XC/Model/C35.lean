/-
  C35 — SSH channel flow control (ssh/common.go `window`, ssh/channel.go WriteExtended / handleData /
  adjustWindow / ReadExtended, ssh/buffer.go), modelled AS WRITTEN.

  Primitive functions (shared by the theorems and by the trace-acceptance driver):
    reserve      window.reserve: blocks at 0 (none), else takes min(want, win)
    addWin       window.add: uint32 overflow check `w.win+win < win`
    nextPacket   one iteration of WriteExtended's loop: space = min(maxRemotePayload, len(data)); reserve(space)
    handleData   receiver side: zero length ignored; > maxIncomingPayload error; myWindow < length error;
                 code 1 → extPending, code > 1 → discarded + immediate adjustWindow, code 0 → pending
    adjustWindow threshold rule (channelWindowSize - myWindow > 3*maxIncomingPayload) ∨ (myWindow < channelWindowSize/2)
    bufRead      buffer.Read: returns min(len(buf), bytes pending) when something is pending

  Two-party LTS (`Sys`, `step`): sender {win}, FIFO wire of data packets, FIFO wire of window adjusts,
  receiver {myWindow, myConsumed, unread}; ghost counters granted/used for the wire predicate.
-/
import XC.Basic
namespace XC.C35

def channelMaxPacket : Nat := 32768
def channelWindowSize : Nat := 64 * channelMaxPacket
def minPacketLength : Nat := 9
def u32max : Nat := 4294967295

/-! ## sender primitives -/

/-- window.reserve(want): `none` = the caller blocks (win = 0); else (granted, new win). -/
def reserve (win want : Nat) : Option (Nat × Nat) :=
  if win = 0 then none else
  let n := if win < want then win else want
  some (n, win - n)

/-- window.add(n): `none` = overflow ("invalid window update"); a zero adjust is a no-op. -/
def addWin (win n : Nat) : Option Nat :=
  if n = 0 then some win
  else if (win + n) % 4294967296 < n then none      -- uint32: w.win+win < win
  else some (win + n)

/-- minPayloadSize(limit, length) -/
def minPayloadSize (limit length : Nat) : Nat := if length > limit then limit else length

/-- one loop iteration of WriteExtended with `remaining > 0` bytes left: the payload length of the next packet -/
def nextPacket (win maxRemotePayload remaining : Nat) : Option (Nat × Nat) :=
  reserve win (minPayloadSize maxRemotePayload remaining)

/-! ## receiver primitives -/

structure Rcv where
  myWindow : Nat
  myConsumed : Nat
  pending : Nat        -- unread bytes in `pending` (stdout)
  extPending : Nat     -- unread bytes in `extPending` (stderr)
  maxIncoming : Nat    -- maxIncomingPayload
  winSize : Nat        -- channelWindowSize
deriving DecidableEq, Repr

def Rcv.init : Rcv := ⟨channelWindowSize, 0, 0, 0, channelMaxPacket, channelWindowSize⟩

/-- adjustWindow(adj): returns the new state and the AdditionalBytes of the window-adjust message sent (0 = none) -/
def adjustWindow (r : Rcv) (adj : Nat) : Rcv × Nat :=
  let consumed := r.myConsumed + adj
  if (r.winSize - r.myWindow > 3 * r.maxIncoming) || (r.myWindow < r.winSize / 2) then
    ({ r with myConsumed := 0, myWindow := r.myWindow + consumed }, consumed)
  else ({ r with myConsumed := consumed }, 0)

inductive DataErr | tooLarge | wrongLength | windowExceeded
deriving DecidableEq, Repr

/-- handleData for a packet whose length field is `length`, carrying `actual` payload bytes, extended code `code`
    (0 = plain data). Returns the new state and the window adjust sent (0 = none). -/
def handleData (r : Rcv) (code length actual : Nat) : Except DataErr (Rcv × Nat) :=
  if length = 0 then .ok (r, 0)
  else if length > r.maxIncoming then .error .tooLarge
  else if length ≠ actual then .error .wrongLength
  else if r.myWindow < length then .error .windowExceeded
  else
    let r := { r with myWindow := r.myWindow - length }
    if code = 1 then .ok ({ r with extPending := r.extPending + length }, 0)
    else if code > 0 then .ok (adjustWindow r length)
    else .ok ({ r with pending := r.pending + length }, 0)

/-- buffer.Read into a buffer of `n` bytes when `avail > 0` bytes are pending -/
def bufRead (avail n : Nat) : Nat := if n < avail then n else avail

/-- ReadExtended(data[:n], code) with data available: (new state, bytes read, adjust sent) -/
def readExt (r : Rcv) (code n : Nat) : Rcv × Nat × Nat :=
  if code = 1 then
    let k := bufRead r.extPending n
    let (r', a) := adjustWindow { r with extPending := r.extPending - k } k
    if k = 0 then (r, 0, 0) else (r', k, a)
  else
    let k := bufRead r.pending n
    let (r', a) := adjustWindow { r with pending := r.pending - k } k
    if k = 0 then (r, 0, 0) else (r', k, a)

/-! ## two-party LTS over byte payloads (one stream; extended codes only change which buffer is used) -/

abbrev Bytes' := List UInt8

structure Sys where
  win : Nat                      -- sender: remoteWin.win
  maxPayload : Nat               -- sender: maxRemotePayload
  toSend : Bytes'                -- bytes the writers still have to send on this stream
  dataWire : List Bytes'         -- data packets in flight (FIFO, head = next to arrive)
  adjWire : List Nat             -- window adjusts in flight (FIFO)
  rcv : Rcv
  unread : Bytes'                -- receiver: bytes buffered, not yet read by the application
  readSoFar : Bytes'             -- bytes the application has read
  sent : Bytes'                  -- ghost: every byte handed to writePacket so far
  granted : Nat                  -- ghost: initial window + every adjust the receiver has put on the wire
  used : Nat                     -- ghost: payload bytes put on the wire
  complained : Bool              -- the receiver rejected a data packet ("remote side wrote too much" / too large)
  overflowed : Bool              -- the sender rejected a window adjust ("invalid window update")
deriving Repr

def Sys.init (data : Bytes') (maxPayload : Nat) : Sys :=
  { win := channelWindowSize, maxPayload := maxPayload, toSend := data, dataWire := [], adjWire := [],
    rcv := Rcv.init, unread := [], readSoFar := [], sent := [], granted := channelWindowSize, used := 0,
    complained := false, overflowed := false }

inductive Act
  | send                 -- a writer performs one WriteExtended loop iteration (reserve + writePacket)
  | deliverData          -- the receiver's mux loop handles the next data packet
  | read (n : Nat)       -- the application reads with an n-byte buffer (n > 0, data available)
  | deliverAdj           -- the sender's mux loop handles the next window adjust
deriving DecidableEq, Repr

def sumLens (l : List Bytes') : Nat := (l.map List.length).sum

def step (s : Sys) : Act → Option Sys
  | .send =>
    if s.toSend.isEmpty then none else
    match nextPacket s.win s.maxPayload s.toSend.length with
    | none => none                                             -- blocked in reserve
    | some (n, win') =>
      let p := s.toSend.take n
      some { s with win := win', toSend := s.toSend.drop n, dataWire := s.dataWire ++ [p],
                    sent := s.sent ++ p, used := s.used + n }
  | .deliverData =>
    match s.dataWire with
    | [] => none
    | p :: rest =>
      match handleData s.rcv 0 p.length p.length with
      | .error _ => some { s with dataWire := rest, complained := true }
      | .ok (r, _) => some { s with dataWire := rest, rcv := r, unread := s.unread ++ p }
  | .read n =>
    if n = 0 || s.rcv.pending = 0 then none else
    let (r, k, a) := readExt s.rcv 0 n
    some { s with rcv := r, unread := s.unread.drop k, readSoFar := s.readSoFar ++ s.unread.take k,
                  adjWire := if a = 0 then s.adjWire else s.adjWire ++ [a],
                  granted := s.granted + a }
  | .deliverAdj =>
    match s.adjWire with
    | [] => none
    | a :: rest =>
      match addWin s.win a with
      | none => some { s with adjWire := rest, overflowed := true }
      | some w => some { s with win := w, adjWire := rest }

/-- reachability (same shape as the generic lemma of C37; kept local so the two models stay independent) -/
inductive Reachable (data : Bytes') (maxPayload : Nat) : Sys → Prop
  | init : Reachable data maxPayload (Sys.init data maxPayload)
  | step {s s' : Sys} (a : Act) : Reachable data maxPayload s → step s a = some s' → Reachable data maxPayload s'

theorem invariant_of_step {data : Bytes'} {mp : Nat} (Inv : Sys → Prop) (h0 : Inv (Sys.init data mp))
    (hs : ∀ s a s', Inv s → step s a = some s' → Inv s') : ∀ s, Reachable data mp s → Inv s := by
  intro s h
  induction h with
  | init => exact h0
  | step a _ hst ih => exact hs _ a _ ih hst

end XC.C35
