/-
  C09 — salsa20/salsa (salsa20_ref.go, hsalsa20.go, salsa208.go) and salsa20.XORKeyStream as written.

  * `goRound2`            the body of the `for i := 0; i < N; i += 2` loop (32 statements on 16 locals with the
                          `u` temporary); the loop bodies of core, HSalsa20 and Core208 are textually identical
  * `coreGo`              salsa20_ref.go `core(out, in, k, c)`
  * `incCounter`          the 8-byte little-endian increment loop of genericXORKeyStream (`u` carry)
  * `genericXORKeyStream` the block loop + partial last block, on a copy of the caller's counter
  * `hsalsa20Go`, `core208Go`
  * `salsa20XORKeyStream` salsa20.XORKeyStream: nonce 24 → HSalsa20 sub-key + nonce[16:24]; 8 → plain; else panic
  The amd64 assembly (salsa20_amd64.s) is not modelled; it is compared with this model by the harness.
-/
import XC.Model.C09_Core
namespace XC.C09

/-- two rounds (column round, then row round) exactly as the Go loop body -/
def goRound2 (s : St) : St :=
  let x0 := s.x0
  let x1 := s.x1
  let x2 := s.x2
  let x3 := s.x3
  let x4 := s.x4
  let x5 := s.x5
  let x6 := s.x6
  let x7 := s.x7
  let x8 := s.x8
  let x9 := s.x9
  let x10 := s.x10
  let x11 := s.x11
  let x12 := s.x12
  let x13 := s.x13
  let x14 := s.x14
  let x15 := s.x15
  let u := x0 + x12
  let x4 := x4 ^^^ rotl u 7
  let u := x4 + x0
  let x8 := x8 ^^^ rotl u 9
  let u := x8 + x4
  let x12 := x12 ^^^ rotl u 13
  let u := x12 + x8
  let x0 := x0 ^^^ rotl u 18
  let u := x5 + x1
  let x9 := x9 ^^^ rotl u 7
  let u := x9 + x5
  let x13 := x13 ^^^ rotl u 9
  let u := x13 + x9
  let x1 := x1 ^^^ rotl u 13
  let u := x1 + x13
  let x5 := x5 ^^^ rotl u 18
  let u := x10 + x6
  let x14 := x14 ^^^ rotl u 7
  let u := x14 + x10
  let x2 := x2 ^^^ rotl u 9
  let u := x2 + x14
  let x6 := x6 ^^^ rotl u 13
  let u := x6 + x2
  let x10 := x10 ^^^ rotl u 18
  let u := x15 + x11
  let x3 := x3 ^^^ rotl u 7
  let u := x3 + x15
  let x7 := x7 ^^^ rotl u 9
  let u := x7 + x3
  let x11 := x11 ^^^ rotl u 13
  let u := x11 + x7
  let x15 := x15 ^^^ rotl u 18
  let u := x0 + x3
  let x1 := x1 ^^^ rotl u 7
  let u := x1 + x0
  let x2 := x2 ^^^ rotl u 9
  let u := x2 + x1
  let x3 := x3 ^^^ rotl u 13
  let u := x3 + x2
  let x0 := x0 ^^^ rotl u 18
  let u := x5 + x4
  let x6 := x6 ^^^ rotl u 7
  let u := x6 + x5
  let x7 := x7 ^^^ rotl u 9
  let u := x7 + x6
  let x4 := x4 ^^^ rotl u 13
  let u := x4 + x7
  let x5 := x5 ^^^ rotl u 18
  let u := x10 + x9
  let x11 := x11 ^^^ rotl u 7
  let u := x11 + x10
  let x8 := x8 ^^^ rotl u 9
  let u := x8 + x11
  let x9 := x9 ^^^ rotl u 13
  let u := x9 + x8
  let x10 := x10 ^^^ rotl u 18
  let u := x15 + x14
  let x12 := x12 ^^^ rotl u 7
  let u := x12 + x15
  let x13 := x13 ^^^ rotl u 9
  let u := x13 + x12
  let x14 := x14 ^^^ rotl u 13
  let u := x14 + x13
  let x15 := x15 ^^^ rotl u 18
  ⟨x0, x1, x2, x3, x4, x5, x6, x7, x8, x9, x10, x11, x12, x13, x14, x15⟩

/-- the sixteen `j` words of `core` / `HSalsa20`: constant `c`, key `k`, 16-byte input `inp` -/
def loadCKI (inp k c : Bytes) : St :=
  ⟨wordAt c 0, wordAt k 0, wordAt k 4, wordAt k 8, wordAt k 12, wordAt c 4,
   wordAt inp 0, wordAt inp 4, wordAt inp 8, wordAt inp 12, wordAt c 8,
   wordAt k 16, wordAt k 20, wordAt k 24, wordAt k 28, wordAt c 12⟩

/-- `core(out, in, k, c)`: 10 loop iterations, add the input words, store little-endian -/
def coreGo (inp k c : Bytes) : Bytes :=
  let j := loadCKI inp k c
  let x := iter goRound2 10 j
  (x.add j).serialize

/-- `HSalsa20(out, in, k, c)`: 10 loop iterations, no addition, words 0,5,10,15,6,7,8,9 -/
def hsalsa20Go (inp k c : Bytes) : Bytes :=
  let x := iter goRound2 10 (loadCKI inp k c)
  w2b x.x0 ++ w2b x.x5 ++ w2b x.x10 ++ w2b x.x15 ++ w2b x.x6 ++ w2b x.x7 ++ w2b x.x8 ++ w2b x.x9

/-- `Core208(out, in)`: 4 loop iterations on the 16 words of `in`, add, store -/
def core208Go (inp : Bytes) : Bytes :=
  let j := St.ofBytes inp
  let x := iter goRound2 4 j
  (x.add j).serialize

/-- `for i := 8; i < 16; i++ { u += uint32(counterCopy[i]); counterCopy[i] = byte(u); u >>= 8 }` on the
    bytes from index 8 on -/
def incLoop : UInt32 → Bytes → Bytes
  | _, [] => []
  | u, b :: rest =>
    let u := u + b.toUInt32
    u.toUInt8 :: incLoop (u >>> 8) rest

/-- the counter update of genericXORKeyStream on the 16-byte counterCopy -/
def incCounter (c : Bytes) : Bytes := c.take 8 ++ incLoop 1 (c.drop 8)

/-- the `for len(in) >= 64` loop followed by the partial block (`fuel` ≥ number of whole blocks) -/
def genericLoop (key : Bytes) : Nat → Bytes → Bytes → Bytes
  | 0, counterCopy, inp =>
    if inp.length > 0 then xorBytes inp (coreGo counterCopy key sigma) else []
  | fuel+1, counterCopy, inp =>
    if inp.length ≥ 64 then
      xorBytes (inp.take 64) (coreGo counterCopy key sigma) ++
        genericLoop key fuel (incCounter counterCopy) (inp.drop 64)
    else if inp.length > 0 then xorBytes inp (coreGo counterCopy key sigma) else []

/-- `genericXORKeyStream(out, in, counter, key)` with len(out) = len(in); the caller's counter is copied -/
def genericXORKeyStream (key counter inp : Bytes) : Bytes :=
  genericLoop key (inp.length / 64) counter inp

/-- `salsa20.XORKeyStream(out, in, nonce, key)` with len(out) = len(in); `none` = panic (bad nonce size) -/
def salsa20XORKeyStream (key nonce inp : Bytes) : Option Bytes :=
  if nonce.length = 24 then
    let subKey := hsalsa20Go (nonce.take 16) key sigma
    let subNonce := nonce.drop 16 ++ zeros 8
    some (genericXORKeyStream subKey subNonce inp)
  else if nonce.length = 8 then
    some (genericXORKeyStream key (nonce ++ zeros 8) inp)
  else none

end XC.C09
