/-
  C12 / XTEA — xtea/cipher.go + block.go as written: 16-byte key, the 64-entry precalculated
  table (`sum + k[sum&3]`, `sum += delta`, `sum + k[(sum>>11)&3]`), 32 double rounds.
-/
import XC.Model.C12_Util
namespace XC.C12.Xtea

def delta : UInt32 := 0x9E3779B9

def sel (k : UInt32 × UInt32 × UInt32 × UInt32) (i : UInt32) : UInt32 :=
  if i == 0 then k.1 else if i == 1 then k.2.1 else if i == 2 then k.2.2.1 else k.2.2.2

/-- `initCipher`: the table as a list of 32 pairs `(table[2i], table[2i+1])` -/
def tableLoop (k : UInt32 × UInt32 × UInt32 × UInt32) : Nat → UInt32 → List (UInt32 × UInt32)
  | 0, _ => []
  | n+1, sum =>
    let a := sum + sel k (sum &&& 3)
    let sum' := sum + delta
    let b := sum' + sel k ((sum' >>> 11) &&& 3)
    (a, b) :: tableLoop k n sum'

def initCipher (key : Bytes) : List (UInt32 × UInt32) :=
  tableLoop (be32 key, be32 (key.drop 4), be32 (key.drop 8), be32 (key.drop 12)) 32 0

def newCipher (key : Bytes) : Option (List (UInt32 × UInt32)) :=
  if key.length != 16 then none else some (initCipher key)

/-- loop body of encryptBlock (two rounds) -/
def encStep (v : UInt32 × UInt32) (t : UInt32 × UInt32) : UInt32 × UInt32 :=
  let v0 := v.1 + ((((v.2 <<< 4) ^^^ (v.2 >>> 5)) + v.2) ^^^ t.1)
  let v1 := v.2 + ((((v0 <<< 4) ^^^ (v0 >>> 5)) + v0) ^^^ t.2)
  (v0, v1)

/-- loop body of decryptBlock -/
def decStep (v : UInt32 × UInt32) (t : UInt32 × UInt32) : UInt32 × UInt32 :=
  let v1 := v.2 - ((((v.1 <<< 4) ^^^ (v.1 >>> 5)) + v.1) ^^^ t.2)
  let v0 := v.1 - ((((v1 <<< 4) ^^^ (v1 >>> 5)) + v1) ^^^ t.1)
  (v0, v1)

def encryptW (tbl : List (UInt32 × UInt32)) (v : UInt32 × UInt32) : UInt32 × UInt32 := tbl.foldl encStep v
/-- the table is walked downwards (`i--`) -/
def decryptW (tbl : List (UInt32 × UInt32)) (v : UInt32 × UInt32) : UInt32 × UInt32 := tbl.reverse.foldl decStep v

def encrypt (tbl : List (UInt32 × UInt32)) (src : Bytes) : Bytes := join8 (encryptW tbl (split8 src))
def decrypt (tbl : List (UInt32 × UInt32)) (src : Bytes) : Bytes := join8 (decryptW tbl (split8 src))

/-! ### reference: XTEA as published (Needham & Wheeler 1997), no precalculated table:
    `v0 += (((v1<<4)^(v1>>5)) + v1) ^ (sum + k[sum&3]); sum += delta; v1 += (((v0<<4)^(v0>>5)) + v0) ^ (sum + k[(sum>>11)&3])` -/

abbrev K4 := UInt32 × UInt32 × UInt32 × UInt32

def refEnc (k : K4) : Nat → UInt32 → UInt32 × UInt32 → UInt32 × UInt32
  | 0, _, v => v
  | n+1, sum, v =>
    let v0 := v.1 + ((((v.2 <<< 4) ^^^ (v.2 >>> 5)) + v.2) ^^^ (sum + sel k (sum &&& 3)))
    let sum' := sum + delta
    let v1 := v.2 + ((((v0 <<< 4) ^^^ (v0 >>> 5)) + v0) ^^^ (sum' + sel k ((sum' >>> 11) &&& 3)))
    refEnc k n sum' (v0, v1)

/-- `sum` starts at delta·n: `v1 -= … ^ (sum + k[(sum>>11)&3]); sum -= delta; v0 -= … ^ (sum + k[sum&3])` -/
def refDec (k : K4) : Nat → UInt32 → UInt32 × UInt32 → UInt32 × UInt32
  | 0, _, v => v
  | n+1, sum, v =>
    let v1 := v.2 - ((((v.1 <<< 4) ^^^ (v.1 >>> 5)) + v.1) ^^^ (sum + sel k ((sum >>> 11) &&& 3)))
    let sum' := sum - delta
    let v0 := v.1 - ((((v1 <<< 4) ^^^ (v1 >>> 5)) + v1) ^^^ (sum' + sel k (sum' &&& 3)))
    refDec k n sum' (v0, v1)

def keyWords (key : Bytes) : K4 := (be32 key, be32 (key.drop 4), be32 (key.drop 8), be32 (key.drop 12))

end XC.C12.Xtea
