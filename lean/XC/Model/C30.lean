/-
  C30 — strict key exchange (ssh/transport.go, ssh/handshake.go): the receive path of one endpoint as a
  transition system over the *types* of the packets delivered to it.

  One `step` is one `connectionState.readPacket` plus what happens to the packet afterwards:
    * `seqNum++`;
    * msgNewKeys (21): needs a pending key change (present exactly between `prepareKeyChange` and the
      peer's NEWKEYS, i.e. in phase `newkeys`), installs the cipher, `seqNum = 0` iff strictMode;
      otherwise "bogus newkeys" error; msgDisconnect (1): error;
    * `transport.readPacket`: msgIgnore (2) / msgDebug (4) are dropped unless `strictMode && !initialKEXDone`;
    * the consumer: `readOnePacket(first)` wants msgKexInit (20) first; `enterKeyExchange` detects strict mode
      from the peer's KEXINIT on the first kex only (`setStrictMode` fails unless `reader.seqNum == 1`),
      the kex method then `Unmarshal`s exactly its expected message types, then NEWKEYS is required;
      after the first kex a later KEXINIT starts a re-key (no new strict detection).
  The sequence number is a `UInt32` with wrap-around, exactly as in Go.
-/
import XC.Basic
namespace XC.C30

inductive Phase
  | first                       -- nothing delivered to the handshake yet: the first packet must be KEXINIT
  | kex (rest : List UInt8)     -- inside the kex method: these message types are expected, in order
  | newkeys                     -- kex method finished, keys prepared: NEWKEYS expected
  | done                        -- keys installed (session running)
  | failed
deriving DecidableEq, Repr

structure Cfg where
  strictPeer : Bool             -- the peer's first KEXINIT carries kex-strict-{c,s}-v00@openssh.com
  kexTypes : List UInt8         -- what the negotiated kex method reads from the peer (client: [31]; server: [30]; gex: [31,33] / [34,32])
deriving Repr

structure St where
  phase : Phase
  seq : UInt32                  -- reader.seqNum (wraps)
  strict : Bool                 -- transport.strictMode
  initialDone : Bool            -- transport.initialKEXDone
deriving DecidableEq, Repr

def init : St := ⟨.first, 0, false, false⟩

def msgDisconnect : UInt8 := 1
def msgIgnore : UInt8 := 2
def msgDebug : UInt8 := 4
def msgKexInit : UInt8 := 20
def msgNewKeys : UInt8 := 21

/-- phase entered when a kex method with these expectations starts -/
def enterKex (ks : List UInt8) : Phase := if ks.isEmpty then .newkeys else .kex ks

def fail (s : St) : St := { s with phase := .failed, seq := s.seq + 1 }

def step (cfg : Cfg) (s : St) (ty : UInt8) : St :=
  match s.phase with
  | .failed => s
  | ph =>
    if ty == msgNewKeys then
      match ph with
      | .newkeys => { phase := .done, seq := if s.strict then 0 else s.seq + 1, strict := s.strict, initialDone := true }
      | _ => fail s
    else if ty == msgDisconnect then fail s
    else if (ty == msgIgnore || ty == msgDebug) && !(s.strict && !s.initialDone) then { s with seq := s.seq + 1 }
    else
      match ph with
      | .first =>
        if ty == msgKexInit then
          if cfg.strictPeer then
            if s.seq + 1 == 1 then { phase := enterKex cfg.kexTypes, seq := s.seq + 1, strict := true, initialDone := s.initialDone }
            else fail s
          else { s with phase := enterKex cfg.kexTypes, seq := s.seq + 1 }
        else fail s
      | .kex (t :: rest) =>
        if ty == t then { s with phase := enterKex rest, seq := s.seq + 1 } else fail s
      | .kex [] => fail s
      | .newkeys => fail s
      | .done =>
        if ty == msgKexInit then { s with phase := enterKex cfg.kexTypes, seq := s.seq + 1 }
        else { s with seq := s.seq + 1 }
      | .failed => s

def run (cfg : Cfg) (s : St) (tys : List UInt8) : St := tys.foldl (step cfg) s

/-- the write side: `connectionState.writePacket` -/
def wstep (strict : Bool) (seq : UInt32) (ty : UInt8) : UInt32 :=
  if ty == msgNewKeys && strict then 0 else seq + 1

/-- what an honest peer delivers up to and including its NEWKEYS -/
def honest (cfg : Cfg) : List UInt8 := msgKexInit :: (cfg.kexTypes ++ [msgNewKeys])

/-- packets `transport.readPacket` drops outside the strict initial key exchange -/
def keep (ty : UInt8) : Bool := !(ty == msgIgnore || ty == msgDebug)

end XC.C30
