/-
  C19 — ssh/internal/bcrypt_pbkdf.Key as written: argument checks, SHA-512 of the password,
  per block SHA-512(salt ‖ be32(block)), `bcryptHash` (salted Blowfish setup, 64 × (ExpandKey salt;
  ExpandKey pass), 64 × ECB of "OxychromaticBlowfishSwatDynamite", per-word byte swap), xor folding
  over the rounds and the strided output `key[i*numBlocks + (block-1)]`, `key[:keyLen]`.
  SHA-512 is the stand-in `XC.Prim.sha512`; Blowfish is the C12 model.
-/
import XC.Model.C12_Blowfish
import XC.Prim.Sha512
namespace XC.C19
open XC.C12

inductive Out where
  | ok : Bytes → Out
  | err : Out
  | panic : Out
deriving DecidableEq

/-- "OxychromaticBlowfishSwatDynamite" -/
def magic : Bytes := [0x4f, 0x78, 0x79, 0x63, 0x68, 0x72, 0x6f, 0x6d, 0x61, 0x74, 0x69, 0x63, 0x42, 0x6c, 0x6f, 0x77,
  0x66, 0x69, 0x73, 0x68, 0x53, 0x77, 0x61, 0x74, 0x44, 0x79, 0x6e, 0x61, 0x6d, 0x69, 0x74, 0x65]

def iter {α : Type} (f : α → α) : Nat → α → α
  | 0, a => a
  | n+1, a => iter f n (f a)

/-- `out[i+3], out[i+2], out[i+1], out[i] = out[i], out[i+1], out[i+2], out[i+3]` for every 4-byte group -/
def swap4 : Bytes → Bytes
  | a :: b :: c :: d :: rest => d :: c :: b :: a :: swap4 rest
  | rest => rest

/-- `bcryptHash(out, shapass, shasalt)`; both inputs are 64-byte SHA-512 values, so
    `NewSaltedCipher` cannot fail (the Go code panics if it does) -/
def bcryptHash (shapass shasalt : Bytes) : Option Bytes :=
  match Blowfish.newSaltedCipher shapass shasalt with
  | none => none
  | some c =>
    let pa := shapass.toArray
    let sa := shasalt.toArray
    let c := iter (fun c => Blowfish.expandKey pa (Blowfish.expandKey sa c)) 64 c
    let e := iter (Blowfish.encrypt c) 64
    some (swap4 (e (magic.take 8) ++ e ((magic.drop 8).take 8) ++ e ((magic.drop 16).take 8) ++ e (magic.drop 24)))

/-- `for i := 2; i <= rounds; i++ { tmp = bcryptHash(sha512(tmp)); out ^= tmp }` with `n = rounds - 1` -/
def foldRounds (shapass : Bytes) : Nat → Bytes → Bytes → Option Bytes
  | 0, _, out => some out
  | n+1, tmp, out =>
    match bcryptHash shapass (XC.Prim.sha512 tmp) with
    | none => none
    | some tmp' => foldRounds shapass n tmp' (xorBytes out tmp')

/-- the 32 output bytes of block `block` (1-based) -/
def blockOut (shapass salt : Bytes) (rounds block : Nat) : Option Bytes :=
  match bcryptHash shapass (XC.Prim.sha512 (salt ++ u32be (UInt32.ofNat block))) with
  | none => none
  | some tmp => foldRounds shapass (rounds - 1) tmp tmp

/-- `for i, v := range out { key[i*numBlocks+(block-1)] = v }` -/
def scatter (key : Array UInt8) (numBlocks blk0 : Nat) (out : Bytes) : Array UInt8 :=
  (out.zipIdx.foldl (fun (k : Array UInt8) (vi : UInt8 × Nat) => k.set! (vi.2 * numBlocks + blk0) vi.1) key)

/-- the block loop, Go-shaped: writes into `key` -/
def blocksGo (shapass salt : Bytes) (rounds numBlocks : Nat) : Nat → Array UInt8 → Option (Array UInt8)
  | 0, key => some key
  | todo+1, key =>
    let blk0 := numBlocks - (todo + 1)
    match blockOut shapass salt rounds (blk0 + 1) with
    | none => none
    | some out => blocksGo shapass salt rounds numBlocks todo (scatter key numBlocks blk0 out)

/-- `Key(password, salt, rounds, keyLen)`; a negative keyLen passes the checks and then panics
    (`key[:keyLen]` / `make([]byte, negative)`) -/
def key (password salt : Bytes) (rounds keyLen : Int) : Out :=
  if rounds < 1 then .err
  else if password.length = 0 then .err
  else if salt.length = 0 ∨ salt.length > 2 ^ 20 then .err
  else if keyLen > 1024 then .err
  else if keyLen < 0 then .panic
  else
    let kl := keyLen.toNat
    let numBlocks := (kl + 31) / 32
    let shapass := XC.Prim.sha512 password
    match blocksGo shapass salt rounds.toNat numBlocks numBlocks (Array.replicate (numBlocks * 32) 0) with
    | none => .panic
    | some k => .ok (k.toList.take kl)

/-! ### spec shape of the output ordering (OpenBSD: `key[i * stride + (count - 1)]`, `dest < keylen`) -/

/-- output byte `k` is byte `k / numBlocks` of block `k % numBlocks` -/
def gather (outs : List Bytes) (numBlocks kl : Nat) : Bytes :=
  (List.range kl).map (fun k => (outs.getD (k % numBlocks) []).getD (k / numBlocks) 0)

end XC.C19
