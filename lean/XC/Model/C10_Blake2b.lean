/-
  C10_Blake2b — BLAKE2b (RFC 7693) for unkeyed messages of at most one block, which is all the sealed-box
  nonce needs (`BLAKE2b-24(epk ‖ pk)`, 64 bytes of input).  Written from RFC 7693 §2–§3; core Lean only.
-/
import XC.Basic
namespace XC.C10.B2

def iv : Array UInt64 := #[
  0x6a09e667f3bcc908, 0xbb67ae8584caa73b, 0x3c6ef372fe94f82b, 0xa54ff53a5f1d36f1,
  0x510e527fade682d1, 0x9b05688c2b3e6c1f, 0x1f83d9abfb41bd6b, 0x5be0cd19137e2179]

def sigma : Array (Array Nat) := #[
  #[0, 1, 2, 3, 4, 5, 6, 7, 8, 9, 10, 11, 12, 13, 14, 15],
  #[14, 10, 4, 8, 9, 15, 13, 6, 1, 12, 0, 2, 11, 7, 5, 3],
  #[11, 8, 12, 0, 5, 2, 15, 13, 10, 14, 3, 6, 7, 1, 9, 4],
  #[7, 9, 3, 1, 13, 12, 11, 14, 2, 6, 5, 10, 4, 0, 15, 8],
  #[9, 0, 5, 7, 2, 4, 10, 15, 14, 1, 11, 12, 6, 8, 3, 13],
  #[2, 12, 6, 10, 0, 11, 8, 3, 4, 13, 7, 5, 15, 14, 1, 9],
  #[12, 5, 1, 15, 14, 13, 4, 10, 0, 7, 6, 3, 9, 2, 8, 11],
  #[13, 11, 7, 14, 12, 1, 3, 9, 5, 0, 15, 4, 8, 6, 2, 10],
  #[6, 15, 14, 9, 11, 3, 0, 8, 12, 2, 13, 7, 1, 4, 10, 5],
  #[10, 2, 8, 4, 7, 6, 1, 5, 15, 11, 9, 14, 3, 12, 13, 0]]

@[inline] def rotr (x : UInt64) (n : UInt64) : UInt64 := (x >>> n) ||| (x <<< (64 - n))

/-- §3.1 mixing function G -/
def g (v : Array UInt64) (a b c d : Nat) (x y : UInt64) : Array UInt64 :=
  let va := v[a]! + v[b]! + x
  let vd := rotr (v[d]! ^^^ va) 32
  let vc := v[c]! + vd
  let vb := rotr (v[b]! ^^^ vc) 24
  let va := va + vb + y
  let vd := rotr (vd ^^^ va) 16
  let vc := vc + vd
  let vb := rotr (vb ^^^ vc) 63
  (((v.set! a va).set! b vb).set! c vc).set! d vd

def round (m : Array UInt64) (v : Array UInt64) (r : Nat) : Array UInt64 :=
  let s := sigma[r % 10]!
  let v := g v 0 4 8 12 m[s[0]!]! m[s[1]!]!
  let v := g v 1 5 9 13 m[s[2]!]! m[s[3]!]!
  let v := g v 2 6 10 14 m[s[4]!]! m[s[5]!]!
  let v := g v 3 7 11 15 m[s[6]!]! m[s[7]!]!
  let v := g v 0 5 10 15 m[s[8]!]! m[s[9]!]!
  let v := g v 1 6 11 12 m[s[10]!]! m[s[11]!]!
  let v := g v 2 7 8 13 m[s[12]!]! m[s[13]!]!
  g v 3 4 9 14 m[s[14]!]! m[s[15]!]!

/-- §3.2 compression F(h, m, t, last) for t < 2^64 -/
def compress (h : Array UInt64) (blk : Bytes) (t : UInt64) (last : Bool) : Array UInt64 :=
  let m : Array UInt64 := (Array.range 16).map (fun i => le64 (blk.drop (8 * i)))
  let v : Array UInt64 := h ++ iv
  let v := v.set! 12 (v[12]! ^^^ t)
  let v := if last then v.set! 14 (~~~ v[14]!) else v
  let v := (List.range 12).foldl (round m) v
  (Array.range 8).map (fun i => h[i]! ^^^ v[i]! ^^^ v[i + 8]!)

/-- BLAKE2b with `outLen` output bytes (1..64), no key, for a message of at most 128 bytes -/
def hashShort (outLen : Nat) (msg : Bytes) : Bytes :=
  let h := iv.set! 0 (iv[0]! ^^^ 0x01010000 ^^^ UInt64.ofNat outLen)
  let blk := msg ++ zeros (128 - msg.length)
  let h := compress h blk (UInt64.ofNat msg.length) true
  ((h.toList.map u64le).flatten).take outLen

end XC.C10.B2
