/-
  C17 — bcrypt (bcrypt/bcrypt.go, bcrypt/base64.go) as written, on top of the C12 Blowfish model.
  Go panics are an explicit outcome (`Res.panic`): every slice index / slice expression of
  `newFromHash`, `decodeVersion`, `decodeCost` goes through the guarded `idx` / `slice`.
  encoding/base64 (stdlib) is modelled by a faithful stand-in of the non-strict padded decoder
  (`decodeQuantum`: '\r' '\n' skipped, '=' handling, trailing garbage) — see `b64DecodeGo`.
-/
import XC.Model.C12_Blowfish
namespace XC.C17
open XC.C12

inductive Err where
  | short | prefix | version | costSyntax | costRange | salt | keysize | mismatch | tooLong
deriving DecidableEq, Repr

inductive Res (α : Type) where
  | ok : α → Res α
  | err : Err → Res α
  | panic : Res α
deriving Repr

instance : Monad Res where
  pure := .ok
  bind x f := match x with
    | .ok a => f a
    | .err e => .err e
    | .panic => .panic

/-- `s[i]` -/
def idx (s : Bytes) (i : Nat) : Res UInt8 :=
  match s[i]? with
  | some b => .ok b
  | none => .panic

/-- `s[a:b]` -/
def slice (s : Bytes) (a b : Nat) : Res Bytes :=
  if a ≤ b ∧ b ≤ s.length then .ok ((s.take b).drop a) else .panic

/-- `s[a:]` -/
def sliceFrom (s : Bytes) (a : Nat) : Res Bytes :=
  if a ≤ s.length then .ok (s.drop a) else .panic

/-! ## bcrypt's base64 -/

/-- "./ABCDEFGHIJKLMNOPQRSTUVWXYZabcdefghijklmnopqrstuvwxyz0123456789" -/
def alphaAt (i : Nat) : UInt8 :=
  if i == 0 then 46 else if i == 1 then 47
  else if i < 28 then UInt8.ofNat (65 + (i - 2))
  else if i < 54 then UInt8.ofNat (97 + (i - 28))
  else UInt8.ofNat (48 + (i - 54))

/-- `decodeMap[c]`: index in the alphabet, 0xff if absent -/
def decMap (c : UInt8) : UInt8 :=
  if c == 46 then 0 else if c == 47 then 1
  else if 65 ≤ c ∧ c ≤ 90 then c - 65 + 2
  else if 97 ≤ c ∧ c ≤ 122 then c - 97 + 28
  else if 48 ≤ c ∧ c ≤ 57 then c - 48 + 54
  else 0xff

def encChar (v : Nat) : UInt8 := alphaAt (v % 64)

/-- unpadded base64 of `src` (= `base64Encode`: Encode, then strip the trailing '='); callers pass
    non-empty input (`base64Encode(nil)` would index dst[-1]) -/
def b64Encode : Bytes → Bytes
  | a :: b :: c :: rest =>
    let v := a.toNat * 65536 + b.toNat * 256 + c.toNat
    encChar (v / 262144) :: encChar (v / 4096) :: encChar (v / 64) :: encChar v :: b64Encode rest
  | [a, b] =>
    let v := a.toNat * 65536 + b.toNat * 256
    [encChar (v / 262144), encChar (v / 4096), encChar (v / 64)]
  | [a] =>
    let v := a.toNat * 65536
    [encChar (v / 262144), encChar (v / 4096)]
  | [] => []

def isNL (c : UInt8) : Bool := c == 10 || c == 13

def skipNL : Bytes → Bytes
  | [] => []
  | c :: r => if isNL c then skipNL r else c :: r

/-- bytes of a quantum with `dlen` sextets collected (missing ones are 0) -/
def quantumBytes (d : List UInt8) : Bytes :=
  let g (i : Nat) : Nat := (d.getD i 0).toNat
  let v := g 0 * 262144 + g 1 * 4096 + g 2 * 64 + g 3
  ([UInt8.ofNat (v / 65536), UInt8.ofNat (v / 256), UInt8.ofNat v] : Bytes).take (d.length - 1)

/-- `decodeQuantum`: `d` = sextets collected so far (j = d.length).
    Result: `none` = CorruptInputError, `some (rest, bytes)` -/
def quantum : List UInt8 → Bytes → Option (Bytes × Bytes)
  | d, [] => if d.length == 0 then some ([], []) else none   -- padded encoding: a short quantum is corrupt
  | d, c :: rest =>
    if decMap c != 0xff then
      let d' := d ++ [decMap c]
      if d'.length == 4 then some (rest, quantumBytes d') else quantum d' rest
    else if isNL c then quantum d rest
    else if c != 61 then none
    else
      -- padding
      if d.length < 2 then none
      else
        let afterPad : Option Bytes :=
          if d.length == 2 then
            match skipNL rest with
            | [] => none                                  -- not enough padding
            | c2 :: r2 => if c2 != 61 then none else some r2
          else some rest
        match afterPad with
        | none => none
        | some r =>
          match skipNL r with
          | [] => some ([], quantumBytes d)
          | _ :: _ => none                                 -- trailing garbage

def decodeLoop : Nat → Bytes → Option Bytes
  | 0, [] => some []
  | 0, _ :: _ => none          -- fuel exhausted (cannot happen: every quantum consumes input)
  | fuel+1, src =>
    match src with
    | [] => some []
    | _ =>
      match quantum [] src with
      | none => none
      | some (rest, bs) => (bs ++ ·) <$> decodeLoop fuel rest

/-- `bcEncoding.Decode` -/
def b64DecodeGo (src : Bytes) : Option Bytes := decodeLoop (src.length + 1) src

/-- `base64Decode`: append `4 - len%4` '=' (four of them when len%4 = 0), then Decode -/
def base64Decode (src : Bytes) : Option Bytes :=
  b64DecodeGo (src ++ List.replicate (4 - src.length % 4) 61)

/-! ## the hash string -/

structure Hashed where
  hash : Bytes
  salt : Bytes
  cost : Int
  major : UInt8
  minor : UInt8
deriving Repr

/-- `checkCost` -/
def checkCost (cost : Int) : Res Unit := if cost < 4 ∨ cost > 31 then .err .costRange else .ok ()

def isDigit (c : UInt8) : Bool := 48 ≤ c && c ≤ 57

/-- `strconv.Atoi` on a 2-byte string: "dd", "+d", "-d" -/
def atoi2 (a b : UInt8) : Option Int :=
  if isDigit a && isDigit b then some (((a.toNat - 48) * 10 + (b.toNat - 48) : Nat) : Int)
  else if a == 43 && isDigit b then some ((b.toNat - 48 : Nat) : Int)
  else if a == 45 && isDigit b then some (-((b.toNat - 48 : Nat) : Int))
  else none

/-- `decodeVersion`: returns (major, minor, n) -/
def decodeVersion (s : Bytes) : Res (UInt8 × UInt8 × Nat) := do
  let c0 ← idx s 0
  if c0 != 36 then Res.err .prefix else
  let c1 ← idx s 1
  if c1 > 50 then Res.err .version else
  let c2 ← idx s 2
  if c2 != 36 then pure (c1, c2, 4) else pure (c1, 0, 3)

/-- `decodeCost`: returns (cost, 3) -/
def decodeCost (s : Bytes) : Res (Int × Nat) := do
  let cs ← slice s 0 2
  let a ← idx cs 0
  let b ← idx cs 1
  match atoi2 a b with
  | none => Res.err .costSyntax
  | some cost => do
    checkCost cost
    pure (cost, 3)

/-- `newFromHash` -/
def newFromHash (h : Bytes) : Res Hashed := do
  if h.length < 59 then Res.err .short else
  let (major, minor, n) ← decodeVersion h
  let h ← sliceFrom h n
  let (cost, n) ← decodeCost h
  let h ← sliceFrom h n
  let salt ← slice h 0 22
  let h ← sliceFrom h 22
  pure ⟨h, salt, cost, major, minor⟩

/-- `fmt.Sprintf("%02d", cost)` (two digits for 0..99, which `checkCost` guarantees; wider otherwise) -/
def fmt02 (cost : Int) : Bytes :=
  if 0 ≤ cost ∧ cost < 100 then [UInt8.ofNat (48 + cost.toNat / 10), UInt8.ofNat (48 + cost.toNat % 10)]
  else (if cost < 0 then "-" ++ toString cost.natAbs else toString cost.natAbs).toUTF8.data.toList

/-- `copy` into a zeroed window of `n` bytes: truncate or zero-fill -/
def pad (n : Nat) (l : Bytes) : Bytes := (l ++ zeros n).take n

/-- `(*hashed).Hash()`: `$`, major, minor unless 0, `$`, two cost characters, `$`, then the 22-byte salt
    window and the 31-byte hash window of the 60-byte array (`copy` truncates a longer hash and leaves
    zeros after a shorter one; `p.salt` always has 22 bytes, from `newFromHash` or `base64Encode(16 bytes)`) -/
def hashString (p : Hashed) : Bytes :=
  [36, p.major] ++ (if p.minor != 0 then [p.minor] else []) ++ [36] ++ pad 2 (fmt02 p.cost) ++ [36]
    ++ pad 22 p.salt ++ pad 31 p.hash

/-! ## the hash function -/

/-- `magicCipherData` = "OrpheanBeholderScryDoubt" -/
def magic : Bytes := [0x4f, 0x72, 0x70, 0x68, 0x65, 0x61, 0x6e, 0x42, 0x65, 0x68, 0x6f, 0x6c,
  0x64, 0x65, 0x72, 0x53, 0x63, 0x72, 0x79, 0x44, 0x6f, 0x75, 0x62, 0x74]

def iter {α : Type} (f : α → α) : Nat → α → α
  | 0, a => a
  | n+1, a => iter f n (f a)

/-- `expensiveBlowfishSetup` after the salt is decoded: NewSaltedCipher, then 2^cost × (ExpandKey key; ExpandKey salt) -/
def setupCore (ckey csalt : Bytes) (cost : Nat) : Res Blowfish.Box :=
  match Blowfish.newSaltedCipher ckey csalt with
  | none => .err .keysize
  | some c =>
    let ka := ckey.toArray
    let sa := csalt.toArray
    -- `blowfish.ExpandKey(csalt, c)` indexes csalt[0]: an empty csalt would panic (NewSaltedCipher
    -- with an empty salt succeeds for short keys), so the case is explicit; `Props`: unreachable
    if csalt.isEmpty then .panic
    else .ok (iter (fun c => Blowfish.expandKey sa (Blowfish.expandKey ka c)) (2 ^ cost) c)

/-- `expensiveBlowfishSetup` -/
def setup (key : Bytes) (cost : Nat) (salt : Bytes) : Res Blowfish.Box :=
  match base64Decode salt with
  | none => .err .salt
  | some csalt => setupCore (key ++ [0]) csalt cost

/-- 64 × ECB-encrypt each of the three 8-byte blocks of the magic string -/
def encMagic (c : Blowfish.Box) : Bytes :=
  iter (Blowfish.encrypt c) 64 (magic.take 8) ++ iter (Blowfish.encrypt c) 64 ((magic.drop 8).take 8)
    ++ iter (Blowfish.encrypt c) 64 (magic.drop 16)

/-- `bcrypt(password, cost, salt)`: 31 base64 characters -/
def bcrypt (password : Bytes) (cost : Nat) (salt : Bytes) : Res Bytes := do
  let c ← setup password cost salt
  pure (b64Encode ((encMagic c).take 23))

/-- `CompareHashAndPassword` -/
def compare (hashed password : Bytes) : Res Unit := do
  let p ← newFromHash hashed
  let other ← bcrypt password p.cost.toNat p.salt
  if hashString p == hashString { p with hash := other } then pure () else Res.err .mismatch

/-- `Cost` -/
def cost (hashed : Bytes) : Res Int := do
  let p ← newFromHash hashed
  pure p.cost

/-- `GenerateFromPassword` with the 16 salt bytes read from rand.Reader given as `rnd` -/
def generate (password : Bytes) (cost : Int) (rnd : Bytes) : Res Bytes := do
  if password.length > 72 then Res.err .tooLong else
  let cost := if cost < 4 then 10 else cost
  checkCost cost
  let salt := b64Encode rnd
  let h ← bcrypt password cost.toNat salt
  pure (hashString ⟨h, salt, cost, 50, 97⟩)

end XC.C17
