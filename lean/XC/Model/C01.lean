/-
  C01 / C02 — ChaCha20-Poly1305 and XChaCha20-Poly1305 (chacha20poly1305/*.go).

  Spec-shaped: `sealSpec` is RFC 8439 §2.8 written from the RFC (one-time key = first 32 bytes of block 0,
  ciphertext = plaintext xor keystream from block 1, tag = Poly1305 over
  pad16(ad) ‖ pad16(ct) ‖ le64 |ad| ‖ le64 |ct|, with Poly1305 = the arithmetic definition `C04.tagSpec`).

  Go-shaped: `sealGeneric` / `openGeneric` mirror chacha20poly1305_generic.go — `XORKeyStream(polyKey, polyKey)`
  on 32 zero bytes, `SetCounter(1)`, `writeWithPadding` (a second Write of zeros only when `len % 16 != 0`),
  `writeUint64`, the limb-level Poly1305 `MAC` object of C04 driven by Write/Sum/Verify calls, `sliceForAppend`,
  zeroing of `out` on failure — and `seal` / `open` mirror the exported `Seal` / `Open` of both AEADs
  (nonce-length and size panics, the `len(ciphertext) < 16` error, HChaCha20 sub-key and `0⁴ ‖ nonce[16:24]`).

  The ChaCha20 `Cipher` calls are modelled through the RFC keystream of `XC.C03` (the refinement
  Cipher history ↦ keystream position is property C03): `XORKeyStream` from a fresh cipher = keystream from
  block 0; after `SetCounter(1)` = keystream from block 1.

  Not modelled here: the buffer-overlap panics (`alias.InexactOverlap(out, plaintext/ciphertext)`,
  `alias.AnyOverlap(out, tag)` for Open, `alias.AnyOverlap(out, additionalData)`): dst, input and ad are
  separate byte strings in this model and separate allocations in the harness (overlap is property C53).
-/
import XC.Basic
import XC.Model.C03_Block
import XC.Model.C04
namespace XC.C01

open XC.C04 (Call Out)

/-! ## RFC 8439 §2.8 -/

def pad16 (x : Bytes) : Bytes := x ++ zeros ((16 - x.length % 16) % 16)

/-- the Poly1305 input of the AEAD construction -/
def macData (ad ct : Bytes) : Bytes :=
  pad16 ad ++ pad16 ct ++ natToLE 8 ad.length ++ natToLE 8 ct.length

/-- §2.6 one-time key: first 32 bytes of the block with counter 0 -/
def polyKey (key nonce : Bytes) : Bytes := (C03.block key 0 nonce).take 32

/-- §2.8 `chacha20_aead_encrypt`: ciphertext ‖ tag -/
def sealSpec (key nonce pt ad : Bytes) : Bytes :=
  let ct := C03.xorStream key nonce 1 pt
  ct ++ C04.tagSpec (polyKey key nonce) (macData ad ct)

/-- XChaCha20-Poly1305 (draft-irtf-cfrg-xchacha): the same AEAD under the HChaCha20 sub-key and nonce `0⁴ ‖ n[16:24]` -/
def xsealSpec (key nonce24 pt ad : Bytes) : Bytes :=
  sealSpec (C03.xkey key nonce24) (C03.xnonce nonce24) pt ad

/-! ## chacha20poly1305_generic.go -/

/-- `writeWithPadding(p, b)` as the Write calls it makes -/
def writeWithPadding (b : Bytes) : List Call :=
  if b.length % 16 != 0 then [.write b, .write (zeros (16 - b.length % 16))] else [.write b]

/-- `writeUint64(p, n)` -/
def writeUint64 (n : Nat) : List Call := [.write (u64le (UInt64.ofNat n))]

def macCalls (ad ct : Bytes) : List Call :=
  writeWithPadding ad ++ writeWithPadding ct ++ writeUint64 ad.length ++ writeUint64 ct.length

/-- `s.XORKeyStream(polyKey[:], polyKey[:])` on a fresh cipher, `polyKey` all zero -/
def polyKeyGo (key nonce : Bytes) : Bytes := C03.xorStream key nonce 0 (zeros 32)

/-- `sealGeneric`: `none` = panic (only the Poly1305 overflow panic could be left; it is proved unreachable) -/
def sealGeneric (key nonce dst pt ad : Bytes) : Option Bytes :=
  let ct := C03.xorStream key nonce 1 pt          -- after SetCounter(1)
  match ((C04.new (polyKeyGo key nonce)).run (macCalls ad ct ++ [.sum []])).getLast? with
  | some (.tag t) => some (dst ++ ct ++ t)         -- ret = dst ‖ ciphertext ‖ tag
  | _ => none

inductive Res where
  | ok (ret : Bytes)
  | err (out : Bytes)    -- `nil, errOpen`; `out` = contents left in the region `dst[len(dst):len(dst)+n]`
  | panic
deriving DecidableEq, Repr

/-- `openGeneric` (caller guarantees `16 ≤ len(ciphertext)`) -/
def openGeneric (key nonce dst ctFull ad : Bytes) : Res :=
  let tag := ctFull.drop (ctFull.length - 16)
  let ct := ctFull.take (ctFull.length - 16)
  match ((C04.new (polyKeyGo key nonce)).run (macCalls ad ct ++ [.verify tag])).getLast? with
  | some (.ok true) => .ok (dst ++ C03.xorStream key nonce 1 ct)
  | some (.ok false) => .err (zeros ct.length)     -- `for i := range out { out[i] = 0 }`
  | _ => .panic

/-! ## chacha20poly1305.go / xchacha20poly1305.go: the exported methods -/

/-- exported constants and the `cipher.AEAD` accessors: KeySize, NonceSize, NonceSizeX, Overhead -/
def keySize : Nat := 32
def nonceSize : Nat := 12
def nonceSizeX : Nat := 24
def overhead : Nat := 16

def maxPlaintext : Nat := 2 ^ 38 - 64
def maxCiphertext : Nat := 2 ^ 38 - 48

/-- `(*chacha20poly1305).Seal`; `none` = panic -/
def aeadSeal (key nonce dst pt ad : Bytes) : Option Bytes :=
  if nonce.length != 12 then none
  else if pt.length > maxPlaintext then none
  else sealGeneric key nonce dst pt ad

/-- `(*chacha20poly1305).Open` -/
def aeadOpen (key nonce dst ct ad : Bytes) : Res :=
  if nonce.length != 12 then .panic
  else if ct.length < 16 then .err []
  else if ct.length > maxCiphertext then .panic
  else openGeneric key nonce dst ct ad

/-- `(*xchacha20poly1305).Seal` -/
def xaeadSeal (key nonce dst pt ad : Bytes) : Option Bytes :=
  if nonce.length != 24 then none
  else if pt.length > maxPlaintext then none
  else
    let hKey := C03.hchacha20 key (nonce.take 16)
    let cNonce := zeros 4 ++ (nonce.drop 16).take 8
    sealGeneric hKey cNonce dst pt ad

/-- `(*xchacha20poly1305).Open` -/
def xaeadOpen (key nonce dst ct ad : Bytes) : Res :=
  if nonce.length != 24 then .panic
  else if ct.length < 16 then .err []
  else if ct.length > maxCiphertext then .panic
  else
    let hKey := C03.hchacha20 key (nonce.take 16)
    let cNonce := zeros 4 ++ (nonce.drop 16).take 8
    openGeneric hKey cNonce dst ct ad

end XC.C01
