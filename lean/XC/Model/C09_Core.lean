/-
  C09_Core — the Salsa20 family written from Bernstein's "Salsa20 specification" (quarterround,
  rowround, columnround, doubleround, Salsa20 hash, expansion with σ) and from "Extending the
  Salsa20 nonce" (HSalsa20, XSalsa20).  Core Lean only.  The Go-shaped functions (16 local
  variables, in-loop `u` temporaries, byte-wise counter increment) live in Model/C09.lean and are
  proved equal to these in Props/C09.lean.

  Stable API (imported by NaCl / scrypt models):
    XC.C09.core (rounds : Nat) (input : Bytes) : Bytes        -- 64 bytes → 64 bytes, `rounds/2` double rounds + feed-forward
    XC.C09.core208 (input : Bytes) : Bytes                    -- = core 8  (scrypt's Salsa20/8)
    XC.C09.expand (key : Bytes) (in16 : Bytes) : Bytes        -- the 64-byte input block σ0 k0 σ1 n σ2 k1 σ3
    XC.C09.salsa20Block (key in16 : Bytes) : Bytes            -- Salsa20_k(n) = core 20 (expand key n)
    XC.C09.hsalsa20 (key nonce16 : Bytes) : Bytes             -- 32 bytes
    XC.C09.xorKeyStream (key counter16 src : Bytes) : Bytes   -- salsa.XORKeyStream: counter16 = nonce(8) ‖ block counter(8, LE), counter increments mod 2^64
    XC.C09.salsa20Xor (key nonce src : Bytes) : Option Bytes  -- salsa20.XORKeyStream: nonce 8 bytes (Salsa20) or 24 bytes (XSalsa20); none = panic
  Short inputs are read as if zero-padded (callers check lengths).
-/
import XC.Basic
namespace XC.C09

structure St where
  x0 : UInt32
  x1 : UInt32
  x2 : UInt32
  x3 : UInt32
  x4 : UInt32
  x5 : UInt32
  x6 : UInt32
  x7 : UInt32
  x8 : UInt32
  x9 : UInt32
  x10 : UInt32
  x11 : UInt32
  x12 : UInt32
  x13 : UInt32
  x14 : UInt32
  x15 : UInt32
deriving DecidableEq, Repr

@[inline] def rotl (x : UInt32) (n : UInt32) : UInt32 := (x <<< n) ||| (x >>> (32 - n))

/-- spec §3: quarterround(y0,y1,y2,y3) = (z0,z1,z2,z3) -/
@[inline] def qr (y0 y1 y2 y3 : UInt32) : UInt32 × UInt32 × UInt32 × UInt32 :=
  let z1 := y1 ^^^ rotl (y0 + y3) 7
  let z2 := y2 ^^^ rotl (z1 + y0) 9
  let z3 := y3 ^^^ rotl (z2 + z1) 13
  let z0 := y0 ^^^ rotl (z3 + z2) 18
  (z0, z1, z2, z3)

/-- spec §4 rowround -/
def rowRound (y : St) : St :=
  let (z0, z1, z2, z3) := qr y.x0 y.x1 y.x2 y.x3
  let (z5, z6, z7, z4) := qr y.x5 y.x6 y.x7 y.x4
  let (z10, z11, z8, z9) := qr y.x10 y.x11 y.x8 y.x9
  let (z15, z12, z13, z14) := qr y.x15 y.x12 y.x13 y.x14
  ⟨z0, z1, z2, z3, z4, z5, z6, z7, z8, z9, z10, z11, z12, z13, z14, z15⟩

/-- spec §5 columnround -/
def colRound (x : St) : St :=
  let (y0, y4, y8, y12) := qr x.x0 x.x4 x.x8 x.x12
  let (y5, y9, y13, y1) := qr x.x5 x.x9 x.x13 x.x1
  let (y10, y14, y2, y6) := qr x.x10 x.x14 x.x2 x.x6
  let (y15, y3, y7, y11) := qr x.x15 x.x3 x.x7 x.x11
  ⟨y0, y1, y2, y3, y4, y5, y6, y7, y8, y9, y10, y11, y12, y13, y14, y15⟩

/-- spec §6 doubleround(x) = rowround(columnround(x)) -/
def doubleRound (x : St) : St := rowRound (colRound x)

def iter {α : Type} (f : α → α) : Nat → α → α
  | 0, x => x
  | n+1, x => iter f n (f x)

def St.add (a b : St) : St :=
  ⟨a.x0 + b.x0, a.x1 + b.x1, a.x2 + b.x2, a.x3 + b.x3, a.x4 + b.x4, a.x5 + b.x5, a.x6 + b.x6, a.x7 + b.x7,
   a.x8 + b.x8, a.x9 + b.x9, a.x10 + b.x10, a.x11 + b.x11, a.x12 + b.x12, a.x13 + b.x13, a.x14 + b.x14, a.x15 + b.x15⟩

@[inline] def w2b (w : UInt32) : Bytes :=
  [w.toUInt8, (w >>> 8).toUInt8, (w >>> 16).toUInt8, (w >>> 24).toUInt8]

def St.serialize (s : St) : Bytes :=
  w2b s.x0 ++ w2b s.x1 ++ w2b s.x2 ++ w2b s.x3 ++ w2b s.x4 ++ w2b s.x5 ++ w2b s.x6 ++ w2b s.x7 ++
  w2b s.x8 ++ w2b s.x9 ++ w2b s.x10 ++ w2b s.x11 ++ w2b s.x12 ++ w2b s.x13 ++ w2b s.x14 ++ w2b s.x15

/-- spec §7 littleendian: word at byte offset `i` (missing bytes read as 0) -/
@[inline] def wordAt (bs : Bytes) (i : Nat) : UInt32 :=
  (bs.getD i 0).toUInt32 ||| ((bs.getD (i+1) 0).toUInt32 <<< 8) |||
  ((bs.getD (i+2) 0).toUInt32 <<< 16) ||| ((bs.getD (i+3) 0).toUInt32 <<< 24)

def St.ofBytes (b : Bytes) : St :=
  ⟨wordAt b 0, wordAt b 4, wordAt b 8, wordAt b 12, wordAt b 16, wordAt b 20, wordAt b 24, wordAt b 28,
   wordAt b 32, wordAt b 36, wordAt b 40, wordAt b 44, wordAt b 48, wordAt b 52, wordAt b 56, wordAt b 60⟩

/-- spec §8 with a round-count parameter: x + doubleround^(rounds/2)(x) on words -/
def coreW (rounds : Nat) (x : St) : St := (iter doubleRound (rounds / 2) x).add x

/-- Salsa20/rounds core with feed-forward on a 64-byte block (spec §8 for rounds = 20; scrypt's
    Salsa20/8 core for rounds = 8) -/
def core (rounds : Nat) (input : Bytes) : Bytes := (coreW rounds (St.ofBytes input)).serialize

def core208 (input : Bytes) : Bytes := core 8 input

/-- σ = "expand 32-byte k" -/
def sigma : Bytes := [0x65, 0x78, 0x70, 0x61, 0x6e, 0x64, 0x20, 0x33, 0x32, 0x2d, 0x62, 0x79, 0x74, 0x65, 0x20, 0x6b]

/-- right-pad with zeros / cut to exactly `n` bytes -/
def fit (n : Nat) (b : Bytes) : Bytes := (b ++ zeros n).take n

/-- spec §9: the 64-byte block σ0 ‖ k0 ‖ σ1 ‖ n ‖ σ2 ‖ k1 ‖ σ3 for a 32-byte key and 16-byte n -/
def expand (key in16 : Bytes) : Bytes :=
  let k := fit 32 key
  sigma.take 4 ++ k.take 16 ++ (sigma.drop 4).take 4 ++ fit 16 in16 ++ (sigma.drop 8).take 4 ++ k.drop 16 ++ sigma.drop 12

/-- spec §9: Salsa20_k(n) -/
def salsa20Block (key in16 : Bytes) : Bytes := core 20 (expand key in16)

/-- HSalsa20 ("Extending the Salsa20 nonce" §2): 20 rounds on the expanded block, no feed-forward,
    output words z0, z5, z10, z15, z6, z7, z8, z9 -/
def hsalsa20 (key nonce16 : Bytes) : Bytes :=
  let z := iter doubleRound 10 (St.ofBytes (expand key nonce16))
  w2b z.x0 ++ w2b z.x5 ++ w2b z.x10 ++ w2b z.x15 ++ w2b z.x6 ++ w2b z.x7 ++ w2b z.x8 ++ w2b z.x9

/-- the 16-byte core input for block `i`: nonce ‖ le64 ((ctr0 + i) mod 2^64) -/
def counterAt (counter16 : Bytes) (i : Nat) : Bytes :=
  let c := fit 16 counter16
  c.take 8 ++ natToLE 8 ((natOfLE (c.drop 8) + i) % 2 ^ 64)

def blocksFrom (key counter16 : Bytes) : Nat → Nat → Bytes
  | _, 0 => []
  | i, m+1 => salsa20Block key (counterAt counter16 i) ++ blocksFrom key counter16 (i + 1) m

/-- first `n` keystream bytes for the 16-byte counter block `counter16` -/
def keystream (key counter16 : Bytes) (n : Nat) : Bytes :=
  (blocksFrom key counter16 0 ((n + 63) / 64)).take n

/-- `salsa.XORKeyStream(out, in, counter, key)` as a function -/
def xorKeyStream (key counter16 src : Bytes) : Bytes :=
  xorBytes src (keystream key counter16 src.length)

/-- `salsa20.XORKeyStream`: 8-byte nonce = Salsa20 from block 0; 24-byte nonce = XSalsa20; else panic -/
def salsa20Xor (key nonce src : Bytes) : Option Bytes :=
  if nonce.length = 24 then
    some (xorKeyStream (hsalsa20 key (nonce.take 16)) (nonce.drop 16 ++ zeros 8) src)
  else if nonce.length = 8 then
    some (xorKeyStream key (nonce ++ zeros 8) src)
  else none

end XC.C09
