/-
  C25_KeyMat — transport.go generateKeyMaterial (RFC 4253 §7.2), over an abstract hash.
-/
import XC.Basic
namespace XC.C25

/-- one iteration's digest: the first one hashes K ‖ H ‖ tag ‖ session_id, the later ones K ‖ H ‖ digestsSoFar
    (the code tells them apart by `len(digestsSoFar) == 0`) -/
def kmNext (hash : Bytes → Bytes) (K H first soFar : Bytes) : Bytes :=
  if soFar.isEmpty then hash (K ++ H ++ first) else hash (K ++ H ++ soFar)

/-- the loop of generateKeyMaterial: `need` = len(out) still to fill; fuel bounds the iterations -/
def keyMatLoop (hash : Bytes → Bytes) (K H first : Bytes) : Nat → Nat → Bytes → Bytes
  | 0, _, _ => []
  | fuel+1, need, soFar =>
    if need = 0 then [] else
    let d := kmNext hash K H first soFar
    d.take need ++ keyMatLoop hash K H first fuel (need - d.length) (soFar ++ d)

/-- generateKeyMaterial(out[0:n], tag, {K, H, SessionID}) -/
def keyMat (hash : Bytes → Bytes) (K H tag sid : Bytes) (n : Nat) : Bytes :=
  keyMatLoop hash K H (tag ++ sid) n n []

end XC.C25
