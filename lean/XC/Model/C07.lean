/-
  C07 — hash state (un)marshaling: blake2b/blake2b.go, blake2s/blake2s.go (MarshalBinary/UnmarshalBinary
  live in XC.Model.C05 next to the digest they serialise) and sha3/legacy_hash.go (legacy Keccak sponge).

  This file adds
  * the *checked* semantics of the BLAKE2 digest methods: every Go slice expression whose bounds depend
    on restored fields is an explicit `panic` outcome (`writeE`, `sumE`);
  * the legacy Keccak sponge with its Write / Read / Sum / Reset / MarshalBinary / UnmarshalBinary,
    again with explicit panics (runtime bounds panics and the documented "Write/Sum after Read" panic).
-/
import XC.Model.C05
namespace XC.C07
open XC.C05

/-- how a Go call can blow up: a run-time bounds error, or an explicit `panic("… after Read")` of the API -/
inductive Panic where
  | runtime
  | api
deriving DecidableEq, Repr

variable {A : Alg}

/-! ## BLAKE2 digest methods with Go's bounds checks -/

/-- `Write`: the slice `d.block[d.offset:]` (both branches evaluate it first) needs `offset ≤ len(block)`.
    With `remaining = BlockSize - offset < 0` Go takes the else branch and the same slice panics. -/
def writeE (d : Digest A) (p : Bytes) : Except Panic (Digest A) :=
  if d.offset > 0 ∧ d.offset > d.block.length then .error .runtime
  else .ok (d.write p)

/-- `Sum` = `finalize` (`d.block[:d.offset]` needs `offset ≤ BlockSize`) then `hash[:d.size]` on a
    `[Size]byte` array (needs `size ≤ Size`) -/
def sumE (d : Digest A) : Except Panic Bytes :=
  if d.offset > d.block.length then .error .runtime
  else if d.size > A.maxSize then .error .runtime
  else .ok d.sum

/-- the state predicate UnmarshalBinary has to establish -/
def Safe (d : Digest A) : Prop :=
  1 ≤ d.size ∧ d.size ≤ A.maxSize ∧ d.offset ≤ A.bs ∧ d.block.length = A.bs

/-- the code before the repair (no range checks on the size and offset bytes) — kept to state that the
    checks are necessary -/
def unmarshalUnchecked (d : Digest A) (b : Bytes) : Except UErr (Digest A) :=
  if b.length < A.magic.length ∨ b.take A.magic.length ≠ A.magic then .error .ident
  else if b.length ≠ marshaledSize A then .error .length
  else
    let size := (b.getD (A.magic.length + A.hLen + A.cLen) 0).toNat
    let offset := (b.getD (marshaledSize A - 1) 0).toNat
    let b := b.drop A.magic.length
    let h := A.decH b
    let b := b.drop A.hLen
    let c := A.decC b
    let b := b.drop (A.cLen + 1)
    .ok { d with h := h, c := c, size := size, block := b.take A.bs, offset := offset }

/-! ## Keccak-f[1600] -/

def keccakRC : Array UInt64 := #[
  0x0000000000000001, 0x0000000000008082, 0x800000000000808A, 0x8000000080008000,
  0x000000000000808B, 0x0000000080000001, 0x8000000080008081, 0x8000000000008009,
  0x000000000000008A, 0x0000000000000088, 0x0000000080008009, 0x000000008000000A,
  0x000000008000808B, 0x800000000000008B, 0x8000000000008089, 0x8000000000008003,
  0x8000000000008002, 0x8000000000000080, 0x000000000000800A, 0x800000008000000A,
  0x8000000080008081, 0x8000000000008080, 0x0000000080000001, 0x8000000080008008]

/-- ρ rotation offsets, index x + 5y -/
def keccakRho : Array Nat := #[0, 1, 62, 28, 27, 36, 44, 6, 55, 20, 3, 10, 43, 25, 39, 41, 45, 15, 21, 8, 18, 2, 61, 56, 14]

@[inline] def rotl64 (x : UInt64) (n : Nat) : UInt64 :=
  if n % 64 == 0 then x else (x <<< (n % 64).toUInt64) ||| (x >>> (64 - n % 64).toUInt64)

def keccakRound (a : Array UInt64) (rc : UInt64) : Array UInt64 :=
  let g := fun (i : Nat) => a.getD i 0
  -- θ
  let c := (Array.range 5).map fun x => g x ^^^ g (x+5) ^^^ g (x+10) ^^^ g (x+15) ^^^ g (x+20)
  let d := (Array.range 5).map fun x => c.getD ((x+4) % 5) 0 ^^^ rotl64 (c.getD ((x+1) % 5) 0) 1
  let a1 := (Array.range 25).map fun i => g i ^^^ d.getD (i % 5) 0
  -- ρ and π : B[y, 2x+3y] = rot(A[x,y])
  let b := (Array.range 25).foldl (fun (b : Array UInt64) i =>
      let x := i % 5
      let y := i / 5
      b.set! (y + 5 * ((2*x + 3*y) % 5)) (rotl64 (a1.getD i 0) (keccakRho.getD i 0))) (Array.replicate 25 0)
  -- χ
  let a2 := (Array.range 25).map fun i =>
      let x := i % 5
      let y := i / 5
      b.getD i 0 ^^^ ((~~~ b.getD ((x+1) % 5 + 5*y) 0) &&& b.getD ((x+2) % 5 + 5*y) 0)
  -- ι
  a2.set! 0 (a2.getD 0 0 ^^^ rc)

def lanesOfBytes (bs : Bytes) : Array UInt64 :=
  (Array.range 25).map fun i => leU64 8 (bs.drop (8*i))

def bytesOfLanes (a : Array UInt64) : Bytes :=
  (List.range 25).flatMap fun i => u64toLE 8 (a.getD i 0)

/-- the permutation on the 200-byte state -/
def keccakF (st : Bytes) : Bytes :=
  bytesOfLanes (keccakRC.foldl keccakRound (lanesOfBytes st))

/-! ## legacy Keccak sponge (sha3/legacy_hash.go) -/

structure KState where
  a : Bytes          -- [200]byte
  n : Nat
  rate : Nat
  outputLen : Nat
  dir : Nat          -- 0 = spongeAbsorbing, 1 = spongeSqueezing
deriving DecidableEq, Repr

def newKeccak256 : KState := ⟨zeros 200, 0, 136, 32, 0⟩
def newKeccak512 : KState := ⟨zeros 200, 0, 72, 64, 0⟩

def KState.reset (d : KState) : KState := { d with a := zeros 200, dir := 0, n := 0 }

def KState.permute (d : KState) : KState := { d with a := keccakF d.a, n := 0 }

/-- xor `p` into `a` starting at `off` (the bytes of `p` that fit) -/
def xorAt (a : Bytes) (off : Nat) (p : Bytes) : Bytes :=
  a.take off ++ xorBytes (a.drop off) p ++ a.drop (off + p.length)

/-- the `for len(p) > 0` loop of Write; `d.a[d.n:d.rate]` panics unless `n ≤ rate ≤ 200`
    (`rate = 0` would spin forever; it is 136 or 72) -/
def KState.absorb (d : KState) (p : Bytes) : Except Panic KState :=
  if _hp : p.length = 0 then .ok d
  else if _hb : d.n > d.rate ∨ d.rate > d.a.length ∨ d.rate = 0 then .error .runtime
  else
    let x := min (d.rate - d.n) p.length
    let a1 := xorAt d.a d.n (p.take x)
    if _hx : d.n + x = d.rate then
      KState.absorb { d with a := keccakF a1, n := 0 } (p.drop x)
    else
      KState.absorb { d with a := a1, n := d.n + x } (p.drop x)
termination_by 2 * p.length + (if d.n ≥ d.rate then 1 else 0)
decreasing_by
  · simp only [List.length_drop]
    split <;> split <;> omega
  · simp only [List.length_drop]
    split <;> split <;> omega

def KState.write (d : KState) (p : Bytes) : Except Panic KState :=
  if d.dir ≠ 0 then .error .api else d.absorb p

def KState.padAndPermute (d : KState) : Except Panic KState :=
  if d.n ≥ d.a.length ∨ d.rate = 0 ∨ d.rate > d.a.length then .error .runtime
  else
    let a := xorAt d.a d.n [0x01]          -- dsbyte = dsbyteKeccak = 0x01
    let a := xorAt a (d.rate - 1) [0x80]
    .ok { ({ d with a := a } : KState).permute with dir := 1 }

/-- the squeezing loop of Read -/
def KState.squeeze (d : KState) (k : Nat) (acc : Bytes) : Except Panic (KState × Bytes) :=
  if _hk : k = 0 then .ok (d, acc)
  else if _hb : d.n > d.rate ∨ d.rate > d.a.length ∨ d.rate = 0 then .error .runtime
  else
    if _hn : d.n = d.rate then
      let d1 := d.permute
      let x := min k d1.rate
      KState.squeeze { d1 with n := x } (k - x) (acc ++ d1.a.take x)
    else
      let x := min k (d.rate - d.n)
      KState.squeeze { d with n := d.n + x } (k - x) (acc ++ (d.a.drop d.n).take x)
termination_by k
decreasing_by
  · simp only [KState.permute]; omega
  · omega

def KState.read (d : KState) (k : Nat) : Except Panic (KState × Bytes) := do
  let d ← if d.dir = 0 then d.padAndPermute else .ok d
  d.squeeze k []

def KState.sum (d : KState) : Except Panic Bytes :=
  if d.dir ≠ 0 then .error .api
  else do
    let r ← d.read d.outputLen
    pure r.2

def kMagic : Bytes := [0x73, 0x68, 0x61, 0x0b]

def KState.marshal (d : KState) : Bytes :=
  kMagic ++ [UInt8.ofNat d.rate] ++ d.a ++ [UInt8.ofNat d.n, UInt8.ofNat d.dir]

inductive KErr where
  | length
  | ident
  | func
  | n
  | dir
deriving DecidableEq, Repr

/-- UnmarshalBinary.  The receiver is updated as the checks proceed (`copy(d.a[:], b)` happens before the
    `n` and direction checks, `d.n = n` before the direction check), so an error can leave it modified. -/
def KState.unmarshal (d : KState) (b : Bytes) : Option KErr × KState :=
  if b.length ≠ 207 then (some .length, d)
  else if b.take 4 ≠ kMagic then (some .ident, d)
  else
    let b := b.drop 4
    if (b.getD 0 0).toNat ≠ d.rate then (some .func, d)
    else
      let b := b.drop 1
      let d := { d with a := b.take 200 }
      let b := b.drop 200
      let n := (b.getD 0 0).toNat
      let st := (b.getD 1 0).toNat
      if n > d.rate then (some .n, d)
      else
        let d := { d with n := n }
        if st ≠ 0 ∧ st ≠ 1 then (some .dir, d)
        else (none, { d with dir := st })

end XC.C07
