/-
  C03 — chacha20.Cipher as written in /repo/chacha20/chacha_generic.go (+ chacha_noasm.go, xor.go).

  * `Cipher`            the Go struct: key, counter, nonce, buf, len, overflow, precompDone, p1…p15
  * `newCipher`         NewUnauthenticatedCipher (32-byte key; 12-byte nonce or 24-byte nonce → HChaCha20 sub-key)
  * `xorBlockGo`        one iteration of the loop in xorKeyStreamBlocksGeneric: remainder of the first column
                        round from the cached p-values, first diagonal round, 9 double rounds, addXor ×16
  * `blocksGeneric`     xorKeyStreamBlocksGeneric (length check → panic "internal error", cache fill, loop)
  * `xorKeyStream m`    XORKeyStream for bufSize = 64·m (m = blocksPerBuf; amd64/purego: m = 1, chacha_noasm.go;
                        arm64/ppc64/s390x: m = 4 with xorKeyStreamBlocks = assembly, modelled by the generic loop)
  * `setCounter`        SetCounter
  * `run`               a history of ops; stops at the first panic

  A Go panic is `Except.error`.  `dst` is a fresh buffer of len(src) bytes (aliasing and short dst: C53).
-/
import XC.Model.C03_Block
namespace XC.C03

inductive Panic
  | rollback   -- "chacha20: SetCounter attempted to rollback counter"
  | overflow   -- "chacha20: counter overflow"
  | internal   -- "chacha20: internal error: wrong dst and/or src length"
deriving DecidableEq, Repr

structure Cipher where
  key : KeyW
  counter : UInt32
  nonce : NonceW
  buf : Bytes
  len : Nat
  overflow : Bool
  precompDone : Bool
  p1 : UInt32
  p5 : UInt32
  p9 : UInt32
  p13 : UInt32
  p2 : UInt32
  p6 : UInt32
  p10 : UInt32
  p14 : UInt32
  p3 : UInt32
  p7 : UInt32
  p11 : UInt32
  p15 : UInt32
deriving DecidableEq, Repr

/-- `&Cipher{}` with key and nonce words filled in; `m` = bufSize / 64 -/
def mkCipher (m : Nat) (k : KeyW) (n : NonceW) : Cipher :=
  { key := k, counter := 0, nonce := n, buf := zeros (64 * m), len := 0, overflow := false, precompDone := false,
    p1 := 0, p5 := 0, p9 := 0, p13 := 0, p2 := 0, p6 := 0, p10 := 0, p14 := 0, p3 := 0, p7 := 0, p11 := 0, p15 := 0 }

/-- HChaCha20 as the Go code computes it: ten (column, diagonal) iterations written out on 16 locals -/
def goDouble (s : St) : St :=
  let (x0, x4, x8, x12) := qr s.x0 s.x4 s.x8 s.x12
  let (x1, x5, x9, x13) := qr s.x1 s.x5 s.x9 s.x13
  let (x2, x6, x10, x14) := qr s.x2 s.x6 s.x10 s.x14
  let (x3, x7, x11, x15) := qr s.x3 s.x7 s.x11 s.x15
  let (x0, x5, x10, x15) := qr x0 x5 x10 x15
  let (x1, x6, x11, x12) := qr x1 x6 x11 x12
  let (x2, x7, x8, x13) := qr x2 x7 x8 x13
  let (x3, x4, x9, x14) := qr x3 x4 x9 x14
  ⟨x0, x1, x2, x3, x4, x5, x6, x7, x8, x9, x10, x11, x12, x13, x14, x15⟩

/-- `hChaCha20(out, key, nonce)`; `none` = error return (wrong key / nonce size) -/
def hChaCha20Go (key nonce : Bytes) : Option Bytes :=
  if key.length ≠ 32 then none else
  if nonce.length ≠ 16 then none else
  let s : St := ⟨c0, c1, c2, c3, wordAt key 0, wordAt key 4, wordAt key 8, wordAt key 12,
                 wordAt key 16, wordAt key 20, wordAt key 24, wordAt key 28,
                 wordAt nonce 0, wordAt nonce 4, wordAt nonce 8, wordAt nonce 12⟩
  let r := iter goDouble 10 s
  some (w2b r.x0 ++ w2b r.x1 ++ w2b r.x2 ++ w2b r.x3 ++ w2b r.x12 ++ w2b r.x13 ++ w2b r.x14 ++ w2b r.x15)

/-- `newUnauthenticatedCipher`; `none` = error return -/
def newCipher (m : Nat) (key nonce : Bytes) : Option Cipher :=
  if key.length ≠ 32 then none else
  if nonce.length = 24 then
    match hChaCha20Go key (nonce.take 16) with
    | none => none
    | some sub =>
      let cNonce := zeros 4 ++ (nonce.drop 16).take 8
      some (mkCipher m (keyWords sub) (nonceWords cNonce))
  else if nonce.length ≠ 12 then none
  else some (mkCipher m (keyWords key) (nonceWords nonce))

/-- xor.go `addXor` (the `unaligned` path taken on amd64): LE word of src ^ (a + b), stored LE -/
@[inline] def addXor (src : Bytes) (i : Nat) (a b : UInt32) : Bytes :=
  w2b (wordAt src i ^^^ (a + b))

/-- the `if !s.precompDone` block -/
def precomp (s : Cipher) : Cipher :=
  if s.precompDone then s else
  let (p1, p5, p9, p13) := qr c1 s.key.k1 s.key.k5 s.nonce.n0
  let (p2, p6, p10, p14) := qr c2 s.key.k2 s.key.k6 s.nonce.n1
  let (p3, p7, p11, p15) := qr c3 s.key.k3 s.key.k7 s.nonce.n2
  { s with p1 := p1, p5 := p5, p9 := p9, p13 := p13, p2 := p2, p6 := p6, p10 := p10, p14 := p14,
           p3 := p3, p7 := p7, p11 := p11, p15 := p15, precompDone := true }

/-- the state after the cached first column round and the first diagonal round -/
def goFirstRounds (s : Cipher) : St :=
  let (fcr0, fcr4, fcr8, fcr12) := qr c0 s.key.k0 s.key.k4 s.counter
  let (x0, x5, x10, x15) := qr fcr0 s.p5 s.p10 s.p15
  let (x1, x6, x11, x12) := qr s.p1 s.p6 s.p11 fcr12
  let (x2, x7, x8, x13) := qr s.p2 s.p7 fcr8 s.p13
  let (x3, x4, x9, x14) := qr s.p3 fcr4 s.p9 s.p14
  ⟨x0, x1, x2, x3, x4, x5, x6, x7, x8, x9, x10, x11, x12, x13, x14, x15⟩

/-- one loop iteration of xorKeyStreamBlocksGeneric on a 64-byte `src` (counter not yet incremented) -/
def xorBlockGo (s : Cipher) (src : Bytes) : Bytes :=
  let x := iter goDouble 9 (goFirstRounds s)
  addXor src 0 x.x0 c0 ++ addXor src 4 x.x1 c1 ++ addXor src 8 x.x2 c2 ++ addXor src 12 x.x3 c3 ++
  addXor src 16 x.x4 s.key.k0 ++ addXor src 20 x.x5 s.key.k1 ++ addXor src 24 x.x6 s.key.k2 ++ addXor src 28 x.x7 s.key.k3 ++
  addXor src 32 x.x8 s.key.k4 ++ addXor src 36 x.x9 s.key.k5 ++ addXor src 40 x.x10 s.key.k6 ++ addXor src 44 x.x11 s.key.k7 ++
  addXor src 48 x.x12 s.counter ++ addXor src 52 x.x13 s.nonce.n0 ++ addXor src 56 x.x14 s.nonce.n1 ++ addXor src 60 x.x15 s.nonce.n2

/-- `for len(src) >= 64 && len(dst) >= 64 { … s.counter += 1; src, dst = src[64:], dst[64:] }`
    (`fuel` = number of iterations available; callers pass `src.length / 64`) -/
def blocksLoop : Nat → Cipher → Bytes → Cipher × Bytes
  | 0, s, _ => (s, [])
  | fuel+1, s, src =>
    if src.length < 64 then (s, []) else
    let out := xorBlockGo s (src.take 64)
    let r := blocksLoop fuel { s with counter := s.counter + 1 } (src.drop 64)
    (r.1, out ++ r.2)

/-- `xorKeyStreamBlocksGeneric(dst, src)` with len(dst) = len(src) -/
def blocksGeneric (s : Cipher) (src : Bytes) : Except Panic (Cipher × Bytes) :=
  if src.length % 64 ≠ 0 then .error .internal else
  .ok (blocksLoop (src.length / 64) (precomp s) src)

/-- `xorKeyStreamBlocks`: chacha_noasm.go calls the generic function; the multi-block assembly of
    other ports (which expects a multiple of bufSize) is modelled by the same loop -/
def blocks (s : Cipher) (src : Bytes) : Except Panic (Cipher × Bytes) := blocksGeneric s src

/-- `SetCounter` -/
def setCounter (s : Cipher) (c : UInt32) : Except Panic Cipher :=
  let outputCounter := s.counter - UInt32.ofNat (s.len / 64)
  if s.overflow || c < outputCounter then .error .rollback
  else if c < s.counter then .ok { s with len := (s.counter - c).toNat * 64 }
  else .ok { s with counter := c, len := 0 }

/-- the "drain any remaining key stream" block: (state, bytes written, rest of src) -/
def drain (m : Nat) (s : Cipher) (src : Bytes) : Cipher × Bytes × Bytes :=
  if s.len = 0 then (s, [], src) else
  let keyStream := (s.buf.drop (64 * m - s.len)).take src.length
  ({ s with len := s.len - keyStream.length }, xorBytes (src.take keyStream.length) keyStream, src.drop keyStream.length)

/-- the part of `XORKeyStream` after the drain (`src` non-empty, `s.len = 0`): overflow check, whole
    buffers, padded tail; returns the new state and the bytes written -/
def xorRest (m : Nat) (s1 : Cipher) (src1 : Bytes) : Except Panic (Cipher × Bytes) :=
  let numBlocks := (src1.length + 63) / 64
  if s1.overflow || s1.counter.toNat + numBlocks > 2 ^ 32 then .error .overflow else
  let s2 := if s1.counter.toNat + numBlocks = 2 ^ 32 then { s1 with overflow := true } else s1
  let full := src1.length - src1.length % (64 * m)
  (if full > 0 then blocks s2 (src1.take full) else .ok (s2, [])) >>= fun (s3, out2) =>
  let src2 := src1.drop full
  if s3.counter.toNat + m ≥ 2 ^ 32 then
    -- one block at a time into the tail of a zeroed buffer (the multi-block refill would reach 2^32)
    let nb := (src2.length + 63) / 64
    let b := src2 ++ zeros (64 * nb - src2.length)
    blocksGeneric s3 b >>= fun (s4, bx) =>
    .ok ({ s4 with buf := zeros (64 * m - 64 * nb) ++ bx, len := 64 * nb - src2.length },
         out2 ++ bx.take src2.length)
  else if src2.length > 0 then
    let b := src2 ++ zeros (64 * m - src2.length)
    blocks s3 b >>= fun (s4, bx) =>
    .ok ({ s4 with buf := bx, len := 64 * m - src2.length }, out2 ++ bx.take src2.length)
  else .ok (s3, out2)

/-- `XORKeyStream(dst, src)` with a fresh `dst` of len(src) bytes; returns the new state and dst -/
def xorKeyStream (m : Nat) (s : Cipher) (src : Bytes) : Except Panic (Cipher × Bytes) :=
  if src.length = 0 then .ok (s, []) else
  let d := drain m s src
  if d.2.2.length = 0 then .ok (d.1, d.2.1) else
  (xorRest m d.1 d.2.2).map fun r => (r.1, d.2.1 ++ r.2)

inductive Op
  | xor (src : Bytes)
  | setCounter (c : UInt32)
deriving Repr

/-- observable of one step: bytes written (empty for SetCounter) -/
def step (m : Nat) (s : Cipher) : Op → Except Panic (Cipher × Bytes)
  | .xor src => xorKeyStream m s src
  | .setCounter c => (setCounter s c).map (fun s' => (s', []))

/-- run a history; the outputs of the completed steps and, if a step panicked, the panic (the history ends there) -/
def run (m : Nat) : Cipher → List Op → List Bytes × Option Panic
  | _, [] => ([], none)
  | s, op :: rest =>
    match step m s op with
    | .error p => ([], some p)
    | .ok (s', out) =>
      let r := run m s' rest
      (out :: r.1, r.2)

/-! ## re-use of a cipher after a recovered panic, and the calls that panic before touching the state

  Not part of the property statement (a history ends at its first panic there); modelled so that the
  correspondence run can continue a history after `recover()`:
  * SetCounter panics before it modifies anything;
  * XORKeyStream's overflow panic happens after the buffered keystream has been drained
    (`s.len` is already reduced, `overflow` is not touched);
  * the "output smaller than input" and "invalid buffer overlap" panics happen before any state change. -/

inductive OpX
  | xor (src : Bytes)
  | setCounter (c : UInt32)
  | xorOverlap (src : Bytes)   -- dst = buf[1:n+1], src = buf[0:n]: inexact overlap iff n ≥ 2
  | xorShort (src : Bytes)     -- len(dst) = len(src) − 1
deriving Repr

/-- one step that always returns the state Go leaves behind; `none` = the call panicked -/
def stepCont (m : Nat) (s : Cipher) : OpX → Cipher × Option Bytes
  | .xor src =>
    match xorKeyStream m s src with
    | .ok (s', out) => (s', some out)
    | .error _ => ((drain m s src).1, none)
  | .setCounter c =>
    match setCounter s c with
    | .ok s' => (s', some [])
    | .error _ => (s, none)
  | .xorOverlap src =>
    if src.length ≥ 2 then (s, none) else
    match xorKeyStream m s src with
    | .ok (s', out) => (s', some out)
    | .error _ => ((drain m s src).1, none)
  | .xorShort src =>
    if src.length = 0 then (s, some []) else (s, none)

def runCont (m : Nat) : Cipher → List OpX → List (Option Bytes)
  | _, [] => []
  | s, op :: rest =>
    let r := stepCont m s op
    r.2 :: runCont m r.1 rest

end XC.C03
