/-
  C16 — scrypt (scrypt/scrypt.go, pbkdf2/pbkdf2.go), model of the code as it is after
  commit 2ba38e6 ("return an error for keyLen <= 0") and the follow-up that also rejects
  keyLen > (2^32−1)·32 (the RFC 7914 dkLen bound; crypto/pbkdf2 refuses longer keys and the
  x/crypto/pbkdf2 wrapper turns that refusal into a panic).

  Three layers:
   L1  `…Go`    flat-memory model of the Go code: []uint32 backing arrays, slice views (off,len),
                every slice expression / index is a bounds check whose failure is the outcome
                `none` (= Go panic); Go `int` arithmetic of the argument checks on `Int` with
                explicit 64-bit wrapping, uint64 products and truncated division.
   L2  `…I`     the same algorithm on lists of 16-word blocks, keeping the implementation's
                shape (two salsa calls per loop iteration writing to out[i/2] and out[i/2+r];
                two ROMix steps per loop iteration with the x/y ping-pong).
   L3  `…Rfc`   RFC 7914 §3–§6 written from the RFC text (Salsa20 quarter-round form,
                scryptBlockMix with the explicit Y-shuffle, scryptROMix with V_i = BlockMix^i).
  The driver runs L1 (and cross-checks it against L2 on every accepted input).
  Core Lean only.
-/
import XC.Basic
import XC.Prim.Hmac
namespace XC.C16
open XC

/-! ## Salsa20/8 on sixteen uint32 (scrypt.go: salsaXOR) -/

structure Blk where
  x0 : UInt32
  x1 : UInt32
  x2 : UInt32
  x3 : UInt32
  x4 : UInt32
  x5 : UInt32
  x6 : UInt32
  x7 : UInt32
  x8 : UInt32
  x9 : UInt32
  x10 : UInt32
  x11 : UInt32
  x12 : UInt32
  x13 : UInt32
  x14 : UInt32
  x15 : UInt32
deriving DecidableEq, Repr, Inhabited

/-- `bits.RotateLeft32(x, n)` for a constant 0 < n < 32 -/
@[inline] def rotl (x : UInt32) (n : UInt32) : UInt32 := (x <<< n) ||| (x >>> (32 - n))

def Blk.xor (a b : Blk) : Blk :=
  ⟨a.x0 ^^^ b.x0, a.x1 ^^^ b.x1, a.x2 ^^^ b.x2, a.x3 ^^^ b.x3, a.x4 ^^^ b.x4, a.x5 ^^^ b.x5,
   a.x6 ^^^ b.x6, a.x7 ^^^ b.x7, a.x8 ^^^ b.x8, a.x9 ^^^ b.x9, a.x10 ^^^ b.x10, a.x11 ^^^ b.x11,
   a.x12 ^^^ b.x12, a.x13 ^^^ b.x13, a.x14 ^^^ b.x14, a.x15 ^^^ b.x15⟩

def Blk.add (a b : Blk) : Blk :=
  ⟨a.x0 + b.x0, a.x1 + b.x1, a.x2 + b.x2, a.x3 + b.x3, a.x4 + b.x4, a.x5 + b.x5,
   a.x6 + b.x6, a.x7 + b.x7, a.x8 + b.x8, a.x9 + b.x9, a.x10 + b.x10, a.x11 + b.x11,
   a.x12 + b.x12, a.x13 + b.x13, a.x14 + b.x14, a.x15 + b.x15⟩

/-- one pass of the loop body of salsaXOR (`i += 2`: a column round and a row round),
    statement by statement in the order of the Go source -/
def dround (s : Blk) : Blk :=
  let x0 := s.x0; let x1 := s.x1; let x2 := s.x2; let x3 := s.x3
  let x4 := s.x4; let x5 := s.x5; let x6 := s.x6; let x7 := s.x7
  let x8 := s.x8; let x9 := s.x9; let x10 := s.x10; let x11 := s.x11
  let x12 := s.x12; let x13 := s.x13; let x14 := s.x14; let x15 := s.x15
  let x4 := x4 ^^^ rotl (x0 + x12) 7
  let x8 := x8 ^^^ rotl (x4 + x0) 9
  let x12 := x12 ^^^ rotl (x8 + x4) 13
  let x0 := x0 ^^^ rotl (x12 + x8) 18
  let x9 := x9 ^^^ rotl (x5 + x1) 7
  let x13 := x13 ^^^ rotl (x9 + x5) 9
  let x1 := x1 ^^^ rotl (x13 + x9) 13
  let x5 := x5 ^^^ rotl (x1 + x13) 18
  let x14 := x14 ^^^ rotl (x10 + x6) 7
  let x2 := x2 ^^^ rotl (x14 + x10) 9
  let x6 := x6 ^^^ rotl (x2 + x14) 13
  let x10 := x10 ^^^ rotl (x6 + x2) 18
  let x3 := x3 ^^^ rotl (x15 + x11) 7
  let x7 := x7 ^^^ rotl (x3 + x15) 9
  let x11 := x11 ^^^ rotl (x7 + x3) 13
  let x15 := x15 ^^^ rotl (x11 + x7) 18
  let x1 := x1 ^^^ rotl (x0 + x3) 7
  let x2 := x2 ^^^ rotl (x1 + x0) 9
  let x3 := x3 ^^^ rotl (x2 + x1) 13
  let x0 := x0 ^^^ rotl (x3 + x2) 18
  let x6 := x6 ^^^ rotl (x5 + x4) 7
  let x7 := x7 ^^^ rotl (x6 + x5) 9
  let x4 := x4 ^^^ rotl (x7 + x6) 13
  let x5 := x5 ^^^ rotl (x4 + x7) 18
  let x11 := x11 ^^^ rotl (x10 + x9) 7
  let x8 := x8 ^^^ rotl (x11 + x10) 9
  let x9 := x9 ^^^ rotl (x8 + x11) 13
  let x10 := x10 ^^^ rotl (x9 + x8) 18
  let x12 := x12 ^^^ rotl (x15 + x14) 7
  let x13 := x13 ^^^ rotl (x12 + x15) 9
  let x14 := x14 ^^^ rotl (x13 + x12) 13
  let x15 := x15 ^^^ rotl (x14 + x13) 18
  ⟨x0, x1, x2, x3, x4, x5, x6, x7, x8, x9, x10, x11, x12, x13, x14, x15⟩

/-- salsaXOR on values: w = tmp ⊕ in; four passes (`i = 0,2,4,6`); x += w; result goes to out and tmp -/
def salsaXOR (tmp inp : Blk) : Blk :=
  let w := tmp.xor inp
  (dround (dround (dround (dround w)))).add w

/-! ## L3: RFC 7914, written from the RFC / the Salsa20 specification -/

/-- Salsa20 quarterround(y0,y1,y2,y3) -/
def quarter (y0 y1 y2 y3 : UInt32) : UInt32 × UInt32 × UInt32 × UInt32 :=
  let z1 := y1 ^^^ rotl (y0 + y3) 7
  let z2 := y2 ^^^ rotl (z1 + y0) 9
  let z3 := y3 ^^^ rotl (z2 + z1) 13
  let z0 := y0 ^^^ rotl (z3 + z2) 18
  (z0, z1, z2, z3)

/-- columnround: quarterround on (0,4,8,12) (5,9,13,1) (10,14,2,6) (15,3,7,11) -/
def columnround (s : Blk) : Blk :=
  let (a0, a4, a8, a12) := quarter s.x0 s.x4 s.x8 s.x12
  let (a5, a9, a13, a1) := quarter s.x5 s.x9 s.x13 s.x1
  let (a10, a14, a2, a6) := quarter s.x10 s.x14 s.x2 s.x6
  let (a15, a3, a7, a11) := quarter s.x15 s.x3 s.x7 s.x11
  ⟨a0, a1, a2, a3, a4, a5, a6, a7, a8, a9, a10, a11, a12, a13, a14, a15⟩

/-- rowround: quarterround on (0,1,2,3) (5,6,7,4) (10,11,8,9) (15,12,13,14) -/
def rowround (s : Blk) : Blk :=
  let (a0, a1, a2, a3) := quarter s.x0 s.x1 s.x2 s.x3
  let (a5, a6, a7, a4) := quarter s.x5 s.x6 s.x7 s.x4
  let (a10, a11, a8, a9) := quarter s.x10 s.x11 s.x8 s.x9
  let (a15, a12, a13, a14) := quarter s.x15 s.x12 s.x13 s.x14
  ⟨a0, a1, a2, a3, a4, a5, a6, a7, a8, a9, a10, a11, a12, a13, a14, a15⟩

def doubleround (s : Blk) : Blk := rowround (columnround s)

def iterFn {α : Type} (f : α → α) : Nat → α → α
  | 0, a => a
  | n+1, a => iterFn f n (f a)

/-- Salsa20/8 core: x + doubleround⁴(x) -/
def salsa208 (x : Blk) : Blk := (iterFn doubleround 4 x).add x

/-- scryptBlockMix step 2: X = B[2r-1]; for i: X = Salsa(X ⊕ B[i]); Y[i] = X — returns Y -/
def ysRfc : Blk → List Blk → List Blk
  | _, [] => []
  | x, b :: bs => let y := salsa208 (x.xor b); y :: ysRfc y bs

def evens {α : Type} : List α → List α
  | [] => []
  | [a] => [a]
  | a :: _ :: t => a :: evens t

def odds {α : Type} : List α → List α
  | [] => []
  | [_] => []
  | _ :: b :: t => b :: odds t

/-- scryptBlockMix: B' = (Y[0], Y[2], …, Y[2r−2], Y[1], Y[3], …, Y[2r−1]).
    `none` for the empty input (no B[2r−1]); the caller always has 2r ≥ 2 blocks. -/
def blockMixRfc (b : List Blk) : Option (List Blk) :=
  match b.getLast? with
  | none => none
  | some x => let ys := ysRfc x b; some (evens ys ++ odds ys)

/-- total version used where 2r ≥ 2 is known: empty ↦ empty -/
def blockMixRfc' (b : List Blk) : List Blk := (blockMixRfc b).getD []

/-- Integerify(B[0..2r−1]): the last 64-byte block read as a little-endian integer; only its
    low 64 bits matter for N ≤ 2^63 — words 0 and 1 -/
def integerifyRfc (b : List Blk) : Nat :=
  match b.getLast? with
  | none => 0
  | some x => x.x0.toNat + 2 ^ 32 * x.x1.toNat

def xorBlks (a b : List Blk) : List Blk := List.zipWith Blk.xor a b

/-- scryptROMix step 6–9: N times X = BlockMix(X ⊕ V[Integerify(X) mod N]), V_j = BlockMix^j(B) -/
def romixSecond (n : Nat) (b : List Blk) : Nat → List Blk → List Blk
  | 0, x => x
  | k+1, x =>
    let j := integerifyRfc x % n
    romixSecond n b k (blockMixRfc' (xorBlks x (iterFn blockMixRfc' j b)))

def romixRfc (n : Nat) (b : List Blk) : List Blk :=
  romixSecond n b n (iterFn blockMixRfc' n b)

/-! ## L2: implementation-shaped, on lists of blocks -/

/-- the `for i := 0; i < 2*r; i += 2` loop of blockMix on blocks: consumes the input two blocks at a
    time; the first result of each pair goes to out[i*8:] (the "low" half), the second to
    out[i*8+r*16:] (the "high" half). An odd leftover block cannot occur (2r blocks). -/
def blockMixPairs : Blk → List Blk → List Blk × List Blk
  | _, [] => ([], [])
  | t, [a] => ([salsaXOR t a], [])
  | t, a :: b :: rest =>
    let t1 := salsaXOR t a
    let t2 := salsaXOR t1 b
    let (lo, hi) := blockMixPairs t2 rest
    (t1 :: lo, t2 :: hi)

def blockMixI (inp : List Blk) : Option (List Blk) :=
  match inp.getLast? with
  | none => none
  | some t => let (lo, hi) := blockMixPairs t inp; some (lo ++ hi)

def blockMixI' (inp : List Blk) : List Blk := (blockMixI inp).getD []

def integerI (b : List Blk) : Nat :=
  match b.getLast? with
  | none => 0
  | some x => (x.x0.toUInt64 ||| (x.x1.toUInt64 <<< 32)).toNat

/-- first loop of smix, two V entries per iteration: v[i] = x; y = mix x; v[i+1] = y; x = mix y.
    `k` = number of iterations (N/2); returns (x, V) with V in index order -/
def fillI : Nat → List Blk → List (List Blk) × List Blk
  | 0, x => ([], x)
  | k+1, x =>
    let y := blockMixI' x
    let x' := blockMixI' y
    let (v, xf) := fillI k x'
    (x :: y :: v, xf)

/-- second loop of smix, two steps per iteration: j = integer(x) & (N−1); x ^= v[j]; y = mix x;
    j = integer(y) & (N−1); y ^= v[j]; x = mix y.  A missing V entry is `none` (index panic). -/
def mixI (n : Nat) (v : Array (List Blk)) : Nat → List Blk → Option (List Blk)
  | 0, x => some x
  | k+1, x => do
    let j := integerI x &&& (n - 1)
    let vj ← v[j]?
    let y := blockMixI' (xorBlks x vj)
    let j := integerI y &&& (n - 1)
    let vj ← v[j]?
    mixI n v k (blockMixI' (xorBlks y vj))

def smixI (n : Nat) (b : List Blk) : Option (List Blk) :=
  let (v, x) := fillI (n / 2) b
  mixI n v.toArray (n / 2) x

/-! bytes ↔ blocks (little-endian words) -/

def blkOfWords : List UInt32 → Option Blk
  | [a0, a1, a2, a3, a4, a5, a6, a7, a8, a9, a10, a11, a12, a13, a14, a15] =>
    some ⟨a0, a1, a2, a3, a4, a5, a6, a7, a8, a9, a10, a11, a12, a13, a14, a15⟩
  | _ => none

def Blk.words (b : Blk) : List UInt32 :=
  [b.x0, b.x1, b.x2, b.x3, b.x4, b.x5, b.x6, b.x7, b.x8, b.x9, b.x10, b.x11, b.x12, b.x13, b.x14, b.x15]

def wordsOfBytes : Bytes → List UInt32
  | a :: b :: c :: d :: r =>
    (a.toUInt32 ||| (b.toUInt32 <<< 8) ||| (c.toUInt32 <<< 16) ||| (d.toUInt32 <<< 24)) :: wordsOfBytes r
  | _ => []

def bytesOfWord (w : UInt32) : Bytes :=
  [w.toUInt8, (w >>> 8).toUInt8, (w >>> 16).toUInt8, (w >>> 24).toUInt8]

def blksOfWords (ws : List UInt32) : List Blk :=
  if _h : ws.length < 16 then [] else
  match blkOfWords (ws.take 16) with
  | none => []
  | some b => b :: blksOfWords (ws.drop 16)
termination_by ws.length
decreasing_by simp only [List.length_drop]; omega

def blksOfBytes (bs : Bytes) : List Blk := blksOfWords (wordsOfBytes bs)
def bytesOfBlks (bl : List Blk) : Bytes := (bl.flatMap Blk.words).flatMap bytesOfWord

/-! ## L1: flat memory, bounds-checked (none = Go run-time panic) -/

abbrev Words := Array UInt32

/-- a Go slice of a backing array: every slice in scrypt.go has len = cap -/
structure View where
  off : Nat
  len : Nat
deriving Repr

/-- `s[a:]` -/
def View.sliceFrom (s : View) (a : Nat) : Option View :=
  if a ≤ s.len then some ⟨s.off + a, s.len - a⟩ else none

/-- read sixteen consecutive elements `s[0] … s[15]` (each an index check) -/
def rd16 (a : Words) (s : View) : Option Blk :=
  if 16 ≤ s.len then do
    let o := s.off
    let a0 ← a[o]?; let a1 ← a[o+1]?; let a2 ← a[o+2]?; let a3 ← a[o+3]?
    let a4 ← a[o+4]?; let a5 ← a[o+5]?; let a6 ← a[o+6]?; let a7 ← a[o+7]?
    let a8 ← a[o+8]?; let a9 ← a[o+9]?; let a10 ← a[o+10]?; let a11 ← a[o+11]?
    let a12 ← a[o+12]?; let a13 ← a[o+13]?; let a14 ← a[o+14]?; let a15 ← a[o+15]?
    pure ⟨a0, a1, a2, a3, a4, a5, a6, a7, a8, a9, a10, a11, a12, a13, a14, a15⟩
  else none

/-- write `s[0] … s[15]` -/
def wr16 (a : Words) (s : View) (b : Blk) : Option Words :=
  if 16 ≤ s.len ∧ s.off + 16 ≤ a.size then
    let o := s.off
    let a := a.setIfInBounds o b.x0; let a := a.setIfInBounds (o+1) b.x1
    let a := a.setIfInBounds (o+2) b.x2; let a := a.setIfInBounds (o+3) b.x3
    let a := a.setIfInBounds (o+4) b.x4; let a := a.setIfInBounds (o+5) b.x5
    let a := a.setIfInBounds (o+6) b.x6; let a := a.setIfInBounds (o+7) b.x7
    let a := a.setIfInBounds (o+8) b.x8; let a := a.setIfInBounds (o+9) b.x9
    let a := a.setIfInBounds (o+10) b.x10; let a := a.setIfInBounds (o+11) b.x11
    let a := a.setIfInBounds (o+12) b.x12; let a := a.setIfInBounds (o+13) b.x13
    let a := a.setIfInBounds (o+14) b.x14; let a := a.setIfInBounds (o+15) b.x15
    some a
  else none

/-- `for i := 0; i < n; i += 2 { body }` with an abortable body; `fuel ≥ ⌈n/2⌉` -/
def loop2 {σ : Type} (n : Nat) (body : Nat → σ → Option σ) : Nat → Nat → σ → Option σ
  | 0, _, s => some s
  | f+1, i, s => if i < n then (body i s).bind (loop2 n body f (i + 2)) else some s

/-- `for i := 0; i < n; i++ { body }` -/
def loop1 {σ : Type} (n : Nat) (body : Nat → σ → Option σ) : Nat → Nat → σ → Option σ
  | 0, _, s => some s
  | f+1, i, s => if i < n then (body i s).bind (loop1 n body f (i + 1)) else some s

/-- body of `for i := 0; i < 2*r; i += 2` in blockMix:
    salsaXOR(tmp, in[i*16:], out[i*8:]); salsaXOR(tmp, in[i*16+16:], out[i*8+r*16:]) -/
def bmStep (inp out : View) (r : Nat) (i : Nat) (st : Blk × Words) : Option (Blk × Words) := do
  let in1 ← inp.sliceFrom (i * 16)
  let o1 ← out.sliceFrom (i * 8)
  let b1 ← rd16 st.2 in1
  let t1 := salsaXOR st.1 b1
  let xy ← wr16 st.2 o1 t1
  let in2 ← inp.sliceFrom (i * 16 + 16)
  let o2 ← out.sliceFrom (i * 8 + r * 16)
  let b2 ← rd16 xy in2
  let t2 := salsaXOR t1 b2
  let xy ← wr16 xy o2 t2
  pure (t2, xy)

/-- blockMix(&tmp, in, out, r) with `in`, `out` views of the same backing array `xy`.
    `tmp` is completely overwritten by the first blockCopy, so it is a local here. -/
def blockMixGo (xy : Words) (inp out : View) (r : Nat) : Option Words := do
  -- blockCopy(tmp[:], in[(2*r-1)*16:], 16):  copy(tmp[:], src[:16])
  let src ← inp.sliceFrom ((2 * r - 1) * 16)
  let tmp ← rd16 xy src            -- src[:16] needs 16 ≤ len(src); all 16 words are copied
  let st ← loop2 (2 * r) (bmStep inp out r) (2 * r) 0 (tmp, xy)
  pure st.2

/-- integer(b, r): b[j] | b[j+1]<<32 with j = (2r−1)·16 -/
def integerGo (xy : Words) (b : View) (r : Nat) : Option UInt64 :=
  let j := (2 * r - 1) * 16
  if j + 1 < b.len then do
    let lo ← xy[b.off + j]?
    let hi ← xy[b.off + j + 1]?
    pure (lo.toUInt64 ||| (hi.toUInt64 <<< 32))
  else none

/-- blockCopy(dst, src, n) across two backing arrays: `copy(dst, src[:n])` copies min(len dst, n) -/
def blockCopyGo (dstA : Words) (dst : View) (srcA : Words) (src : View) (n : Nat) : Option Words :=
  if n ≤ src.len ∧ src.off + n ≤ srcA.size ∧ dst.off + dst.len ≤ dstA.size then
    let m := min dst.len n
    loop1 m (fun i d => do let w ← srcA[src.off + i]?; pure (d.setIfInBounds (dst.off + i) w)) m 0 dstA
  else none

/-- blockXOR(dst, src, n): `for i, v := range src[:n] { dst[i] ^= v }` -/
def blockXORGo (dstA : Words) (dst : View) (srcA : Words) (src : View) (n : Nat) : Option Words :=
  if n ≤ src.len ∧ src.off + n ≤ srcA.size then
    loop1 n (fun i d =>
      if i < dst.len then do
        let w ← srcA[src.off + i]?
        let o ← d[dst.off + i]?
        pure (d.setIfInBounds (dst.off + i) (o ^^^ w))
      else none) n 0 dstA
  else none

def le32At (b : Array UInt8) (j : Nat) : Option UInt32 := do
  -- b[j:] needs j ≤ len b; Uint32 needs 4 bytes
  if j + 4 ≤ b.size then
    let b0 ← b[j]?; let b1 ← b[j+1]?; let b2 ← b[j+2]?; let b3 ← b[j+3]?
    pure (b0.toUInt32 ||| (b1.toUInt32 <<< 8) ||| (b2.toUInt32 <<< 16) ||| (b3.toUInt32 <<< 24))
  else none

def putLe32At (b : Array UInt8) (j : Nat) (w : UInt32) : Option (Array UInt8) :=
  if j + 4 ≤ b.size then
    some ((((b.setIfInBounds j w.toUInt8).setIfInBounds (j+1) (w >>> 8).toUInt8).setIfInBounds (j+2)
      (w >>> 16).toUInt8).setIfInBounds (j+3) (w >>> 24).toUInt8)
  else none

structure Mem where
  b : Array UInt8
  v : Words
  xy : Words

/-- x[i] = LittleEndian.Uint32(b[j:]) with j = 4i (b = the caller's b[boff:]) -/
def loadStep (b : Array UInt8) (boff : Nat) (x : View) (i : Nat) (xy : Words) : Option Words :=
  if i < x.len then do let w ← le32At b (boff + 4 * i); pure (xy.setIfInBounds (x.off + i) w) else none

/-- first loop body: blockCopy(v[i*R:], x, R); blockMix(x→y); blockCopy(v[(i+1)*R:], y, R); blockMix(y→x) -/
def fillStep (x y vv : View) (r : Nat) (i : Nat) (st : Words × Words) : Option (Words × Words) := do
  let d1 ← vv.sliceFrom (i * (32 * r))
  let v ← blockCopyGo st.1 d1 st.2 x (32 * r)
  let xy ← blockMixGo st.2 x y r
  let d2 ← vv.sliceFrom ((i + 1) * (32 * r))
  let v ← blockCopyGo v d2 xy y (32 * r)
  let xy ← blockMixGo xy y x r
  pure (v, xy)

/-- second loop body: j = int(integer(x) & uint64(N−1)); blockXOR(x, v[j*R:], R); blockMix(x→y); same from y -/
def mixStep (x y vv : View) (r n : Nat) (_i : Nat) (st : Words × Words) : Option (Words × Words) := do
  let g ← integerGo st.2 x r
  let j := (g &&& UInt64.ofNat (n - 1)).toNat
  let s1 ← vv.sliceFrom (j * (32 * r))
  let xy ← blockXORGo st.2 x st.1 s1 (32 * r)
  let xy ← blockMixGo xy x y r
  let g ← integerGo xy y r
  let j := (g &&& UInt64.ofNat (n - 1)).toNat
  let s2 ← vv.sliceFrom (j * (32 * r))
  let xy ← blockXORGo xy y st.1 s2 (32 * r)
  let xy ← blockMixGo xy y x r
  pure (st.1, xy)

/-- PutUint32(b[j:], x[i]) with j = 4i -/
def storeStep (xy : Words) (boff : Nat) (i : Nat) (b : Array UInt8) : Option (Array UInt8) := do
  let w ← xy[i]?
  putLe32At b (boff + 4 * i) w

/-- smix(b[boff:], r, N, v, xy) -/
def smixGo (m : Mem) (boff r n : Nat) : Option Mem :=
  if boff > m.b.size then none else    -- the slice expression b[i*128*r:] at the call site
  let R := 32 * r
  let x : View := ⟨0, m.xy.size⟩
  let vv : View := ⟨0, m.v.size⟩
  (x.sliceFrom R).bind fun y =>                                   -- y := xy[R:]
  (loop1 R (loadStep m.b boff x) R 0 m.xy).bind fun xy =>
  (loop2 n (fillStep x y vv r) n 0 (m.v, xy)).bind fun st =>
  (loop2 n (mixStep x y vv r n) n 0 st).bind fun st =>
  if R > x.len then none else                                       -- x[:R]
  (loop1 R (storeStep st.2 boff) R 0 m.b).bind fun b =>
  some ⟨b, st.1, st.2⟩

/-! ## PBKDF2 (crypto/pbkdf2 via the x/crypto/pbkdf2 wrapper) -/

def maxInt : Int := 2 ^ 63 - 1

/-- two's-complement wrap of a Go `int` (64-bit) result -/
def wrap64 (x : Int) : Int := (x + 2 ^ 63) % 2 ^ 64 - 2 ^ 63

/-- F(P,S,c,i) = U_1 ⊕ … ⊕ U_c,  U_1 = PRF(P, S‖INT(i)),  U_k = PRF(P, U_{k−1}) -/
def pbkdf2F (pw : Bytes) (u t : Bytes) : Nat → Bytes
  | 0 => t
  | c+1 => let u' := Prim.hmacSha256 pw u; pbkdf2F pw u' (xorBytes t u') c

def pbkdf2Block (pw salt : Bytes) (iter i : Nat) : Bytes :=
  let u1 := Prim.hmacSha256 pw (salt ++ natToBE 4 i)
  pbkdf2F pw u1 u1 (iter - 1)

def pbkdf2Blocks (pw salt : Bytes) (iter : Nat) : Nat → Nat → Bytes
  | 0, _ => []
  | k+1, i => pbkdf2Block pw salt iter i ++ pbkdf2Blocks pw salt iter k (i + 1)

/-- crypto/pbkdf2.Key with SHA-256 (hashLen 32): errors for keyLength ≤ 0, for an `int` overflow of
    keyLength+hashLen, and for more than 2^32−1 blocks -/
def pbkdf2Std (pw salt : Bytes) (iter : Nat) (keyLen : Int) : Option Bytes :=
  if keyLen ≤ 0 then none else
  let numBlocks := (keyLen + 32 - 1).tdiv 32          -- divRoundUp on int64
  if wrap64 (keyLen + 32) < keyLen ∨ numBlocks > 2 ^ 32 - 1 then none else
  some ((pbkdf2Blocks pw salt iter numBlocks.toNat 1).take keyLen.toNat)

inductive Res where
  | ok (key : Bytes)
  | err
  | panic
deriving DecidableEq, Repr

/-! ## scrypt.Key -/

/-- Go `a / b` on int: panics on b = 0, truncates toward zero -/
def goDiv (a b : Int) : Option Int := if b = 0 then none else some (a.tdiv b)

/-- `N&(N-1)` for N ≥ 2 (the left operand of `||` already excluded N ≤ 1) -/
def andPred (n : Int) : Nat := n.toNat &&& (n.toNat - 1)

/-- the three argument checks before `keyLen`; `none` = a division by zero panic -/
def tooLarge (n r p : Int) : Option Bool :=
  -- uint64(r)*uint64(p) >= 1<<30 || r > maxInt/128/p || r > maxInt/256 || N > maxInt/128/r   (r, p > 0 here)
  if (r.toNat % 2 ^ 64) * (p.toNat % 2 ^ 64) % 2 ^ 64 ≥ 2 ^ 30 then some true else
  match goDiv (maxInt.tdiv 128) p with
  | none => none
  | some q =>
    if r > q then some true else
    if r > maxInt.tdiv 256 then some true else
    match goDiv (maxInt.tdiv 128) r with
    | none => none
    | some q' => if n > q' then some true else some false

inductive Verdict where
  | errN | errRP | errLarge | errKeyLen | accept | divPanic
deriving DecidableEq, Repr

def validate (n r p keyLen : Int) : Verdict :=
  if n ≤ 1 ∨ andPred n ≠ 0 then .errN else
  if r ≤ 0 ∨ p ≤ 0 then .errRP else
  match tooLarge n r p with
  | none => .divPanic
  | some true => .errLarge
  | some false =>
    -- keyLen <= 0 || uint64(keyLen) > (1<<32-1)*32     (keyLen > 0 on the right: uint64(keyLen) = keyLen)
    if keyLen ≤ 0 ∨ keyLen.toNat % 2 ^ 64 > (2 ^ 32 - 1) * 32 then .errKeyLen else .accept

/-- `for i := 0; i < p; i++ { smix(b[i*128*r:], r, N, v, xy) }` -/
def smixAll (r n : Nat) : Nat → Nat → Mem → Option Mem
  | 0, _, m => some m
  | k+1, i, m => (smixGo m (i * 128 * r) r n).bind (smixAll r n k (i + 1))

/-- `make([]T, n)` panics for n < 0 (an out-of-memory abort for a huge n is outside the model) -/
def makeLen (n : Int) : Option Nat := if n < 0 then none else some n.toNat

def Key (pw salt : Bytes) (n r p keyLen : Int) : Res :=
  match validate n r p keyLen with
  | .divPanic => .panic
  | .errN | .errRP | .errLarge | .errKeyLen => .err
  | .accept =>
    match makeLen (wrap64 (64 * r)), makeLen (wrap64 (wrap64 (32 * n) * r)) with
    | some lxy, some lv =>
      -- b := pbkdf2.Key(password, salt, 1, p*128*r, sha256.New): the wrapper panics on error
      match pbkdf2Std pw salt 1 (wrap64 (wrap64 (p * 128) * r)) with
      | none => .panic
      | some b =>
        match smixAll r.toNat n.toNat p.toNat 0 ⟨b.toArray, Array.replicate lv 0, Array.replicate lxy 0⟩ with
        | none => .panic
        | some m =>
          match pbkdf2Std pw m.b.toList 1 keyLen with
          | none => .panic
          | some k => .ok k
    | _, _ => .panic

/-- B' = f(B_0) ‖ f(B_1) ‖ … ‖ f(B_(k−1)) over consecutive c-byte blocks of B (f may fail) -/
def mapChunksM (c : Nat) (f : Bytes → Option Bytes) : Nat → Bytes → Option Bytes
  | 0, _ => some []
  | k+1, l => (f (l.take c)).bind fun h => (mapChunksM c f k (l.drop c)).map (h ++ ·)

/-- scryptROMix on one 128r-byte block: L3 (`useRfc = true`) or L2 -/
def romixBytes (useRfc : Bool) (n : Nat) (c : Bytes) : Option Bytes :=
  (if useRfc then some (romixRfc n (blksOfBytes c)) else smixI n (blksOfBytes c)).map bytesOfBlks

/-- RFC 7914 §6: B = PBKDF2(P, S, 1, p·128·r); B_i = ROMix(B_i); DK = PBKDF2(P, B, 1, dkLen) -/
def scryptSpec (useRfc : Bool) (pw salt : Bytes) (n r p dkLen : Nat) : Option Bytes :=
  let b := (pbkdf2Blocks pw salt 1 ((p * 128 * r + 31) / 32) 1).take (p * 128 * r)
  (mapChunksM (128 * r) (romixBytes useRfc n) p b).map fun b' =>
    (pbkdf2Blocks pw b' 1 ((dkLen + 31) / 32) 1).take dkLen

end XC.C16
