/-
  C12 / CAST5 — cast5/cast5.go as written (RFC 2144): only 16-byte keys are accepted, so always
  16 rounds; key schedule driven by the `schedule` index table; f1/f2/f3 round functions.
-/
import XC.Model.C12_Util
import XC.Model.C12_Tables_Cast5a
import XC.Model.C12_Tables_Cast5b
namespace XC.C12.Cast5

def sBox (k : Nat) : Array UInt32 :=
  match k with
  | 0 => sBox0 | 1 => sBox1 | 2 => sBox2 | 3 => sBox3
  | 4 => sBox4 | 5 => sBox5 | 6 => sBox6 | _ => sBox7

/-- `(t[i>>2] >> (24-8*(i&3))) & 0xff`: byte `i` of the 32-byte big-endian view of `t [8]uint32` -/
def byteOf (t : Array UInt32) (i : Nat) : Nat :=
  ((t[i / 4]! >>> (UInt32.ofNat (24 - 8 * (i % 4)))) &&& 0xff).toNat

def sb (k : Nat) (t : Array UInt32) (i : Nat) : UInt32 := (sBox k)[byteOf t i]!

/-- the four `keyScheduleA` rows of one round: `t[a0] = t[a1] ^ S5[..a2] ^ S6[..a3] ^ S7[..a4] ^ S8[..a5] ^ S_x[j][..a6]`,
    `x = {6,7,4,5}` -/
def stepA (t : Array UInt32) (rows : List (List Nat)) : Array UInt32 :=
  (rows.zip [6, 7, 4, 5]).foldl (fun t (a, xj) =>
    let w := t[a[1]!]! ^^^ sb 4 t a[2]! ^^^ sb 5 t a[3]! ^^^ sb 6 t a[4]! ^^^ sb 7 t a[5]! ^^^ sb xj t a[6]!
    t.set! a[0]! w) t

/-- the four `keyScheduleB` rows: sub-key words `S5[b0] ^ S6[b1] ^ S7[b2] ^ S8[b3] ^ S_{5+j}[b4]` -/
def stepB (t : Array UInt32) (rows : List (List Nat)) : List UInt32 :=
  (rows.zip [0, 1, 2, 3]).map (fun (b, j) =>
    sb 4 t b[0]! ^^^ sb 5 t b[1]! ^^^ sb 6 t b[2]! ^^^ sb 7 t b[3]! ^^^ sb (4 + j) t b[4]!)

/-- the 32 words `k[0..31]`: two passes (`half`) over the four schedule rounds, `t` carried through -/
def keyWords (key : Bytes) : List UInt32 :=
  let t0 : Array UInt32 := #[be32 key, be32 (key.drop 4), be32 (key.drop 8), be32 (key.drop 12), 0, 0, 0, 0]
  ((schedule ++ schedule).foldl (fun (st : Array UInt32 × List UInt32) rnd =>
      let t := stepA st.1 rnd.1
      (t, st.2 ++ stepB t rnd.2)) (t0, [])).2

/-- a round key: which f (1,2,3), masking key, rotation (5 bits) -/
structure RK where
  kind : Nat
  m : UInt32
  r : UInt32

def keySchedule (key : Bytes) : List RK :=
  let k := (keyWords key).toArray
  (List.range 16).map (fun i => ⟨i % 3 + 1, k[i]!, k[16 + i]! &&& 0x1f⟩)

def newCipher (key : Bytes) : Option (List RK) :=
  if key.length != 16 then none else some (keySchedule key)

def f1 (d m r : UInt32) : UInt32 :=
  let I := rotl32 (m + d) r
  ((sBox0[(I >>> 24).toNat]! ^^^ sBox1[((I >>> 16) &&& 0xff).toNat]!) - sBox2[((I >>> 8) &&& 0xff).toNat]!)
    + sBox3[(I &&& 0xff).toNat]!
def f2 (d m r : UInt32) : UInt32 :=
  let I := rotl32 (m ^^^ d) r
  ((sBox0[(I >>> 24).toNat]! - sBox1[((I >>> 16) &&& 0xff).toNat]!) + sBox2[((I >>> 8) &&& 0xff).toNat]!)
    ^^^ sBox3[(I &&& 0xff).toNat]!
def f3 (d m r : UInt32) : UInt32 :=
  let I := rotl32 (m - d) r
  ((sBox0[(I >>> 24).toNat]! + sBox1[((I >>> 16) &&& 0xff).toNat]!) ^^^ sBox2[((I >>> 8) &&& 0xff).toNat]!)
    - sBox3[(I &&& 0xff).toNat]!

def f (k : RK) (d : UInt32) : UInt32 :=
  if k.kind == 1 then f1 d k.m k.r else if k.kind == 2 then f2 d k.m k.r else f3 d k.m k.r

/-- `l, r = r, l ^ f(r, Km, Kr)` for an arbitrary round function family `g` -/
def round {κ : Type} (g : κ → UInt32 → UInt32) (s : UInt32 × UInt32) (k : κ) : UInt32 × UInt32 :=
  (s.2, s.1 ^^^ g k s.2)

/-- all rounds, then the halves are written swapped (`dst[0..3] = r`, `dst[4..7] = l`) -/
def crypt {κ : Type} (g : κ → UInt32 → UInt32) (ks : List κ) (v : UInt32 × UInt32) : UInt32 × UInt32 :=
  let s := ks.foldl (round g) v
  (s.2, s.1)

def encryptW (ks : List RK) (v : UInt32 × UInt32) := crypt f ks v
/-- Decrypt is the same network with the round keys (and f kinds) in reverse order -/
def decryptW (ks : List RK) (v : UInt32 × UInt32) := crypt f ks.reverse v

def encrypt (ks : List RK) (src : Bytes) : Bytes := join8 (encryptW ks (split8 src))
def decrypt (ks : List RK) (src : Bytes) : Bytes := join8 (decryptW ks (split8 src))

end XC.C12.Cast5
