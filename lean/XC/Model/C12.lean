/-
  C12 — legacy block ciphers (blowfish, cast5, twofish, tea, xtea, pkcs12/internal/rc2):
  umbrella module of the per-cipher models.
-/
import XC.Model.C12_Tea
import XC.Model.C12_Xtea
import XC.Model.C12_Blowfish
import XC.Model.C12_Cast5
import XC.Model.C12_Twofish
import XC.Model.C12_Rc2
