/-
  C29 — SSH key exchanges (ssh/kex.go, ssh/mlkem.go, client gate of ssh/handshake.go).

  What is modelled, as the code is written:
    * the wire codec the kex code relies on (u32, string, mpint: `intLength`/`marshalInt`/`parseInt`,
      `Unmarshal` of the eight kex messages incl. the type byte and the trailing-bytes error);
    * for every kex method the `Client` and `Server` functions as pure maps
        (magics, own values, the peer's packet(s), shared secret) ↦ reject | exchange-hash pre-image fields
      with the range / point / length checks in place, the pre-image being the exact sequence of
      `writeString` / `writeInt` / `binary.Write` / `h.Write(K)` calls;
    * `chooseDH` (loop with `bestSize`, as written) and the DH-GEX request validation;
    * the client gate `verifyHostKeySignature` (signature blob parse, format = negotiated algorithm).
  Big-integer exponentiation, EC scalar multiplication, X25519, ML-KEM and the signature primitives are
  stdlib: their results enter as arguments (`k`, `sigValid`).  SHA-1/2 come from XC.Prim.
-/
import XC.Basic
import XC.Prim.Sha1
import XC.Prim.Sha256
import XC.Prim.Sha512
namespace XC.C29
open XC

/-! ## wire encoding -/

def u32 (n : Nat) : Bytes := natToBE 4 n
def sshString (s : Bytes) : Bytes := u32 s.length ++ s

/-- number of bytes of `big.Int.Bytes()` -/
def byteLen (n : Nat) : Nat := if n = 0 then 0 else n.log2 / 8 + 1
/-- `big.Int.Bytes()`: minimal big-endian, empty for 0 -/
def natBytes (n : Nat) : Bytes := natToBE (byteLen n) n

/-- body written by `marshalInt` for `n ≥ 0` (0 ↦ empty; 0x00 pad when the top bit is set) -/
def mpintBody (n : Nat) : Bytes :=
  match natBytes n with
  | [] => []
  | x :: r => if x &&& 0x80 != 0 then 0 :: x :: r else x :: r

def mpint (n : Nat) : Bytes := sshString (mpintBody n)

/-- `parseInt` on the string contents: two's complement, any (also non-minimal) length -/
def parseMpintBody (c : Bytes) : Int :=
  match c with
  | [] => 0
  | x :: _ => if x &&& 0x80 != 0 then (natOfBE c : Int) - ((256 ^ c.length : Nat) : Int) else (natOfBE c : Int)

def takeU32 (b : Bytes) : Option (Nat × Bytes) :=
  if b.length < 4 then none else some (natOfBE (b.take 4), b.drop 4)

def takeString (b : Bytes) : Option (Bytes × Bytes) :=
  match takeU32 b with
  | none => none
  | some (n, r) => if r.length < n then none else some (r.take n, r.drop n)

inductive FKind | str | int | u32
deriving DecidableEq, Repr

inductive Val
  | str (b : Bytes)
  | int (i : Int)
  | u32 (n : Nat)
deriving DecidableEq, Repr

def parseFields : List FKind → Bytes → Option (List Val)
  | [], d => if d.isEmpty then some [] else none      -- `Unmarshal`: trailing bytes are an error
  | .str :: ks, d =>
    match takeString d with
    | none => none
    | some (s, r) => (parseFields ks r).map (Val.str s :: ·)
  | .int :: ks, d =>
    match takeString d with
    | none => none
    | some (s, r) => (parseFields ks r).map (Val.int (parseMpintBody s) :: ·)
  | .u32 :: ks, d =>
    match takeU32 d with
    | none => none
    | some (n, r) => (parseFields ks r).map (Val.u32 n :: ·)

/-- `Unmarshal(packet, &msg)` for a message with type byte `ty` -/
def parseMsg (ty : UInt8) (ks : List FKind) (pkt : Bytes) : Option (List Val) :=
  match pkt with
  | [] => none
  | t :: d => if t == ty then parseFields ks d else none

/-! ## exchange-hash pre-image as a list of fields -/

inductive Field
  | str (b : Bytes)      -- writeString
  | mpint (n : Nat)      -- writeInt / marshalInt of a non-negative value
  | u32 (w : Nat)        -- binary.Write(h, BigEndian, uint32)
deriving DecidableEq, Repr

def Field.enc : Field → Bytes
  | .str b => sshString b
  | .mpint n => XC.C29.mpint n
  | .u32 w => XC.C29.u32 w

def encFields : List Field → Bytes
  | [] => []
  | f :: fs => f.enc ++ encFields fs

structure Magics where
  vc : Bytes
  vs : Bytes
  ic : Bytes
  is : Bytes
deriving DecidableEq, Repr

/-- `handshakeMagics.write` -/
def Magics.fields (m : Magics) : List Field := [.str m.vc, .str m.vs, .str m.ic, .str m.is]

/-! ## hashes -/

inductive HashId | sha1 | sha256 | sha384 | sha512
deriving DecidableEq, Repr

def HashId.run : HashId → Bytes → Bytes
  | .sha1 => XC.Prim.sha1
  | .sha256 => XC.Prim.sha256
  | .sha384 => XC.Prim.sha384
  | .sha512 => XC.Prim.sha512

/-! ## classic Diffie-Hellman (dhGroup) -/

/-- `diffieHellman`'s bounds check: reject iff `y ≤ 1 ∨ y ≥ p − 1` -/
def dhInRange (p : Nat) (y : Int) : Bool := decide (1 < y) && decide (y < (p : Int) - 1)

/-- `dhGroup.Client` after X was sent: reply packet ↦ pre-image fields (last field = K). `k` = Y^x mod p. -/
def dhClient (p : Nat) (m : Magics) (X : Nat) (reply : Bytes) (k : Nat) : Option (List Field) :=
  match parseMsg 31 [.str, .int, .str] reply with
  | some [.str hostKey, .int Y, .str _] =>
    if dhInRange p Y then some (m.fields ++ [.str hostKey, .mpint X, .mpint Y.toNat, .mpint k]) else none
  | _ => none

/-- `dhGroup.Server`: init packet ↦ pre-image fields. `Y` = g^y mod p, `k` = X^y mod p. -/
def dhServer (p : Nat) (m : Magics) (init : Bytes) (hostKey : Bytes) (Y : Nat) (k : Nat) : Option (List Field) :=
  match parseMsg 30 [.int] init with
  | some [.int X] =>
    if dhInRange p X then some (m.fields ++ [.str hostKey, .mpint X.toNat, .mpint Y, .mpint k]) else none
  | _ => none

/-! ## ECDH over the NIST curves -/

structure Curve where
  p : Nat
  b : Nat
  byteLen : Nat
  hash : HashId

def hexNatAux : List Char → Nat → Nat
  | [], acc => acc
  | c :: r, acc => hexNatAux r (16 * acc + (hexVal c).getD 0)
def hexNat (s : String) : Nat := hexNatAux s.toList 0

def p256 : Curve :=
  ⟨2^256 - 2^224 + 2^192 + 2^96 - 1,
   hexNat "5ac635d8aa3a93e7b3ebbd55769886bc651d06b0cc53b0f63bce3c3e27d2604b", 32, .sha256⟩
def p384 : Curve :=
  ⟨2^384 - 2^128 - 2^96 + 2^32 - 1,
   hexNat "b3312fa7e23ee7e4988e056be3f82d19181d9c6efe8141120314088f5013875ac656398d8a2ed19d2a85c8edd3ec2aef", 48, .sha384⟩
def p521 : Curve :=
  ⟨2^521 - 1,
   hexNat "51953eb9618e1c9a1f929a21a0b68540eea2da725b99b315f3b8b489918ef109e156193951ec7e937b1652c0bd3bb1bf073573df883d2c34f1ef451fd46b503f00", 66, .sha512⟩

/-- y² = x³ − 3x + b (mod p) -/
def Curve.onCurve (c : Curve) (x y : Nat) : Bool :=
  (y * y) % c.p == (x * x * x + (c.p - 3) * x + c.b) % c.p

/-- `unmarshalECKey`: `elliptic.Unmarshal` (uncompressed form of the exact length, coordinates < P, on curve)
    then `validateECPublicKey` (not (0,0), coordinates < P, on curve). `some (x, y)` iff accepted. -/
def Curve.unmarshal (c : Curve) (pt : Bytes) : Option (Nat × Nat) :=
  if pt.length != 1 + 2 * c.byteLen then none else
  match pt with
  | [] => none
  | t :: d =>
    if t != 4 then none else
    let x := natOfBE (d.take c.byteLen)
    let y := natOfBE (d.drop c.byteLen)
    if x ≥ c.p || y ≥ c.p then none
    else if x == 0 && y == 0 then none
    else if !c.onCurve x y then none
    else some (x, y)

/-- `ecdh.Client`: `secret` = x-coordinate of d·Q_S as a number -/
def ecdhClient (c : Curve) (m : Magics) (qc : Bytes) (reply : Bytes) (secret : Nat) : Option (List Field) :=
  match parseMsg 31 [.str, .str, .str] reply with
  | some [.str hostKey, .str qs, .str _] =>
    match c.unmarshal qs with
    | some _ => some (m.fields ++ [.str hostKey, .str qc, .str qs, .mpint secret])
    | none => none
  | _ => none

def ecdhServer (c : Curve) (m : Magics) (init : Bytes) (hostKey : Bytes) (qs : Bytes) (secret : Nat) : Option (List Field) :=
  match parseMsg 30 [.str] init with
  | some [.str qc] =>
    match c.unmarshal qc with
    | some _ => some (m.fields ++ [.str hostKey, .str qc, .str qs, .mpint secret])
    | none => none
  | _ => none

/-! ## curve25519-sha256 -/

def p25519 : Nat := 2^255 - 19

/-- u-coordinates (reduced) of the points of order dividing 8 on Curve25519 and its twist:
    X25519 returns the all-zero value exactly for these, which `curve25519.X25519` turns into an error. -/
def lowOrderU : List Nat :=
  [0, 1,
   natOfLE ((ofHex "e0eb7a7c3b41b8ae1656e3faf19fc46ada098deb9c32b1fd866205165f49b800").getD []),
   natOfLE ((ofHex "5f9c95bca3508c24b1d0b1559c83ef5b04445cc4581c8e86d8224eddd09f1157").getD []),
   p25519 - 1]

/-- peer value accepted by the curve25519 code: 32 bytes, and not a low-order point
    (RFC 7748 §5: the top bit is masked, the value is reduced mod p) -/
def x25519PeerOK (u : Bytes) : Bool :=
  u.length == 32 && !(lowOrderU.contains ((natOfLE u % 2^255) % p25519))

/-- `curve25519sha256.Client`: `secret` = the 32 X25519 output bytes; K = mpint(SetBytes(secret)) -/
def c25519Client (m : Magics) (pub : Bytes) (reply : Bytes) (secret : Bytes) : Option (List Field) :=
  match parseMsg 31 [.str, .str, .str] reply with
  | some [.str hostKey, .str qs, .str _] =>
    if x25519PeerOK qs then some (m.fields ++ [.str hostKey, .str pub, .str qs, .mpint (natOfBE secret)]) else none
  | _ => none

def c25519Server (m : Magics) (init : Bytes) (hostKey : Bytes) (pub : Bytes) (secret : Bytes) : Option (List Field) :=
  match parseMsg 30 [.str] init with
  | some [.str qc] =>
    if x25519PeerOK qc then some (m.fields ++ [.str hostKey, .str qc, .str pub, .mpint (natOfBE secret)]) else none
  | _ => none

/-! ## mlkem768x25519-sha256 -/

def mlkemEkSize : Nat := 1184
def mlkemCtSize : Nat := 1088
def mlkemQ : Nat := 3329

/-- FIPS 203 modulus check on the 12-bit packed coefficients (3 bytes ↦ 2 coefficients) -/
def coeffsOK : Bytes → Bool
  | a :: b :: c :: r =>
    let d1 := a.toNat + 256 * (b.toNat % 16)
    let d2 := b.toNat / 16 + 16 * c.toNat
    d1 < mlkemQ && d2 < mlkemQ && coeffsOK r
  | _ => true

/-- `mlkem.NewEncapsulationKey768`: length 1184, the first 1152 bytes decode to coefficients < q -/
def mlkemEkOK (ek : Bytes) : Bool := ek.length == mlkemEkSize && coeffsOK (ek.take 1152)

/-- the hybrid shared secret SHA-256(mlkemSecret ‖ x25519Secret) -/
def mlkemK (mk xk : Bytes) : Bytes := XC.Prim.sha256 (mk ++ xk)

/-- `secret` = `mlkemK mlkemSecret x25519Secret`; K is marshalled as a string, not as an mpint -/
def mlkemClient (m : Magics) (hybrid : Bytes) (reply : Bytes) (secret : Bytes) : Option (List Field) :=
  match parseMsg 31 [.str, .str, .str] reply with
  | some [.str hostKey, .str qs, .str _] =>
    if qs.length != mlkemCtSize + 32 then none
    else if !x25519PeerOK (qs.drop mlkemCtSize) then none
    else some (m.fields ++ [.str hostKey, .str hybrid, .str qs, .str secret])
  | _ => none

def mlkemServer (m : Magics) (init : Bytes) (hostKey : Bytes) (hybrid : Bytes) (secret : Bytes) : Option (List Field) :=
  match parseMsg 30 [.str] init with
  | some [.str qc] =>
    if qc.length != mlkemEkSize + 32 then none
    else if !mlkemEkOK (qc.take mlkemEkSize) then none
    else if !x25519PeerOK (qc.drop mlkemEkSize) then none
    else some (m.fields ++ [.str hostKey, .str qc, .str hybrid, .str secret])
  | _ => none

/-! ## DH group exchange -/

/-- `chooseDH`'s loop body over one supported group size, with the running `bestSize` (0 = none yet) -/
def chooseStep (min pref max : UInt32) (bestSize : Nat) (size : Nat) : Nat :=
  if UInt32.ofNat size < min || UInt32.ofNat size > max then bestSize
  else if bestSize == 0 then size
  else
    let closerFromAbove := decide (size ≥ pref.toNat) && decide (size < bestSize)
    let closerFromBelow := decide (size > bestSize) && decide (bestSize < pref.toNat)
    if closerFromAbove || closerFromBelow then size else bestSize

def supportedSizes : List Nat := [2048, 3072, 4096]

/-- `chooseDH`: the size of the chosen group, `none` for the error -/
def chooseDH (min pref max : UInt32) : Option Nat :=
  let best := supportedSizes.foldl (chooseStep min pref max) 0
  if best == 0 then none else some best

/-- the request check at the top of `dhGEXSHA.Server` (true = accepted) -/
def gexRequestOK (min pref max : UInt32) : Bool :=
  !(max < min || pref < min || max < pref || max < 2048 || min > 4096)

def bitLen (n : Nat) : Nat := if n = 0 then 0 else n.log2 + 1

/-- checks of `dhGEXSHA.Client` on the group message -/
def gexGroupOK (P G : Int) : Bool :=
  decide (2048 ≤ bitLen P.natAbs) && decide (bitLen P.natAbs ≤ 8192) && decide (1 < G) && decide (G < P - 1)

/-- `dhGEXSHA.Client` after the GexInit was sent (`X` = g^x mod p); `k` = Y^x mod p, `none` if the harness
    cannot know it (then the derived-k check is taken as passed) -/
def gexClient (m : Magics) (group : Bytes) (X : Nat) (reply : Bytes) (k : Nat) : Option (List Field) :=
  match parseMsg 31 [.int, .int] group with
  | some [.int P, .int G] =>
    if !gexGroupOK P G then none else
    match parseMsg 33 [.str, .int, .str] reply with
    | some [.str hostKey, .int Y, .str _] =>
      if !dhInRange P.toNat Y then none
      else if !dhInRange P.toNat (k : Int) then none
      else some (m.fields ++ [.str hostKey, .u32 2048, .u32 2048, .u32 8192,
                              .mpint P.toNat, .mpint G.toNat, .mpint X, .mpint Y.toNat, .mpint k])
    | _ => none
  | _ => none

/-- first half of `dhGEXSHA.Server`: request ↦ size of the group it offers -/
def gexServerGroup (req : Bytes) : Option (Nat × Nat × Nat × Nat) :=
  match parseMsg 34 [.u32, .u32, .u32] req with
  | some [.u32 mn, .u32 pf, .u32 mx] =>
    if !gexRequestOK (UInt32.ofNat mn) (UInt32.ofNat pf) (UInt32.ofNat mx) then none else
    match chooseDH (UInt32.ofNat mn) (UInt32.ofNat pf) (UInt32.ofNat mx) with
    | none => none
    | some size => some (mn, pf, mx, size)
  | _ => none

/-- second half: `p` is the prime of the chosen group, g = 2 -/
def gexServer (m : Magics) (req : Bytes) (p : Nat) (init : Bytes) (hostKey : Bytes) (Y : Nat) (k : Nat) : Option (List Field) :=
  match gexServerGroup req with
  | none => none
  | some (mn, pf, mx, _) =>
    match parseMsg 32 [.int] init with
    | some [.int X] =>
      if !dhInRange p X then none
      else some (m.fields ++ [.str hostKey, .u32 mn, .u32 pf, .u32 mx,
                              .mpint p, .mpint 2, .mpint X.toNat, .mpint Y, .mpint k])
    | _ => none

/-! ## the client's signature gate (`verifyHostKeySignature`) -/

/-- `parseSignatureBody` for the non-sk formats followed by the `len(rest) > 0 || !ok` test:
    `some format` iff the blob is exactly string ‖ string -/
def sigFormat (sig : Bytes) : Option Bytes :=
  match parseFields [.str, .str] sig with
  | some [.str fmt, .str _] => some fmt
  | _ => none

/-- accept iff the blob parses, its format is the negotiated (underlying) algorithm and the key verifies it over H -/
def hostSigGate (sig : Bytes) (algo : Bytes) (cryptoValid : Bool) : Bool :=
  match sigFormat sig with
  | some fmt => fmt == algo && cryptoValid
  | none => false

/-- `underlyingAlgo`: certificate algorithm names map to the signature algorithm of the certified key
    (`certKeyAlgoNames`); every other name is its own signature algorithm -/
def underlyingAlgo (algo : String) : String :=
  if algo == "ssh-rsa-cert-v01@openssh.com" then "ssh-rsa"
  else if algo == "rsa-sha2-256-cert-v01@openssh.com" then "rsa-sha2-256"
  else if algo == "rsa-sha2-512-cert-v01@openssh.com" then "rsa-sha2-512"
  else if algo == "ssh-dss-cert-v01@openssh.com" then "ssh-dss"
  else if algo == "ecdsa-sha2-nistp256-cert-v01@openssh.com" then "ecdsa-sha2-nistp256"
  else if algo == "ecdsa-sha2-nistp384-cert-v01@openssh.com" then "ecdsa-sha2-nistp384"
  else if algo == "ecdsa-sha2-nistp521-cert-v01@openssh.com" then "ecdsa-sha2-nistp521"
  else if algo == "sk-ecdsa-sha2-nistp256-cert-v01@openssh.com" then "sk-ecdsa-sha2-nistp256@openssh.com"
  else if algo == "ssh-ed25519-cert-v01@openssh.com" then "ssh-ed25519"
  else if algo == "sk-ssh-ed25519-cert-v01@openssh.com" then "sk-ssh-ed25519@openssh.com"
  else algo

/-- `verifyHostKeySignature(hostKey, algo, result)` for the negotiated host key algorithm `algo` (plain or certificate):
    for a certificate the key that must have signed H is the certified key (`Certificate.Verify` = `c.Key.Verify`) -/
def hostSigGateFor (sig : Bytes) (algo : String) (cryptoValid : Bool) : Bool :=
  hostSigGate sig (underlyingAlgo algo).toUTF8.toList cryptoValid

/-- a connection with several key exchanges (`handshakeTransport.client` runs for the first exchange and for every
    re-key): each exchange is gated by its own signature check over its own H and by the host key callback;
    the connection survives iff every exchange passed -/
def sessionAccepts (exchanges : List (Bool × Bool)) : Bool := exchanges.all (fun x => x.1 && x.2)

/-- `enterKeyExchange` on a KEXINIT with first_kex_packet_follows: the next packet (the peer's guess) is read and
    discarded iff the first kex algorithms or the first host key algorithms of the two lists differ (RFC 4253 §7;
    the lists are non-empty here because negotiation succeeded before) -/
def discardGuess (follows : Bool) (ck sk chk shk : List String) : Bool :=
  follows && (ck.head? != sk.head? || chk.head? != shk.head?)

/-! ## the fixed groups -/

def oakley2Hex : String := "FFFFFFFFFFFFFFFFC90FDAA22168C234C4C6628B80DC1CD129024E088A67CC74020BBEA63B139B22514A08798E3404DDEF9519B3CD3A431B302B0A6DF25F14374FE1356D6D51C245E485B576625E7EC6F44C42E9A637ED6B0BFF5CB6F406B7EDEE386BFB5A899FA5AE9F24117C4B1FE649286651ECE65381FFFFFFFFFFFFFFFF"
def oakley14Hex : String := "FFFFFFFFFFFFFFFFC90FDAA22168C234C4C6628B80DC1CD129024E088A67CC74020BBEA63B139B22514A08798E3404DDEF9519B3CD3A431B302B0A6DF25F14374FE1356D6D51C245E485B576625E7EC6F44C42E9A637ED6B0BFF5CB6F406B7EDEE386BFB5A899FA5AE9F24117C4B1FE649286651ECE45B3DC2007CB8A163BF0598DA48361C55D39A69163FA8FD24CF5F83655D23DCA3AD961C62F356208552BB9ED529077096966D670C354E4ABC9804F1746C08CA18217C32905E462E36CE3BE39E772C180E86039B2783A2EC07A28FB5C55DF06F4C52C9DE2BCBF6955817183995497CEA956AE515D2261898FA051015728E5A8AACAA68FFFFFFFFFFFFFFFF"
def oakley15Hex : String := "FFFFFFFFFFFFFFFFC90FDAA22168C234C4C6628B80DC1CD129024E088A67CC74020BBEA63B139B22514A08798E3404DDEF9519B3CD3A431B302B0A6DF25F14374FE1356D6D51C245E485B576625E7EC6F44C42E9A637ED6B0BFF5CB6F406B7EDEE386BFB5A899FA5AE9F24117C4B1FE649286651ECE45B3DC2007CB8A163BF0598DA48361C55D39A69163FA8FD24CF5F83655D23DCA3AD961C62F356208552BB9ED529077096966D670C354E4ABC9804F1746C08CA18217C32905E462E36CE3BE39E772C180E86039B2783A2EC07A28FB5C55DF06F4C52C9DE2BCBF6955817183995497CEA956AE515D2261898FA051015728E5A8AAAC42DAD33170D04507A33A85521ABDF1CBA64ECFB850458DBEF0A8AEA71575D060C7DB3970F85A6E1E4C7ABF5AE8CDB0933D71E8C94E04A25619DCEE3D2261AD2EE6BF12FFA06D98A0864D87602733EC86A64521F2B18177B200CBBE117577A615D6C770988C0BAD946E208E24FA074E5AB3143DB5BFCE0FD108E4B82D120A93AD2CAFFFFFFFFFFFFFFFF"
def oakley16Hex : String := "FFFFFFFFFFFFFFFFC90FDAA22168C234C4C6628B80DC1CD129024E088A67CC74020BBEA63B139B22514A08798E3404DDEF9519B3CD3A431B302B0A6DF25F14374FE1356D6D51C245E485B576625E7EC6F44C42E9A637ED6B0BFF5CB6F406B7EDEE386BFB5A899FA5AE9F24117C4B1FE649286651ECE45B3DC2007CB8A163BF0598DA48361C55D39A69163FA8FD24CF5F83655D23DCA3AD961C62F356208552BB9ED529077096966D670C354E4ABC9804F1746C08CA18217C32905E462E36CE3BE39E772C180E86039B2783A2EC07A28FB5C55DF06F4C52C9DE2BCBF6955817183995497CEA956AE515D2261898FA051015728E5A8AAAC42DAD33170D04507A33A85521ABDF1CBA64ECFB850458DBEF0A8AEA71575D060C7DB3970F85A6E1E4C7ABF5AE8CDB0933D71E8C94E04A25619DCEE3D2261AD2EE6BF12FFA06D98A0864D87602733EC86A64521F2B18177B200CBBE117577A615D6C770988C0BAD946E208E24FA074E5AB3143DB5BFCE0FD108E4B82D120A92108011A723C12A787E6D788719A10BDBA5B2699C327186AF4E23C1A946834B6150BDA2583E9CA2AD44CE8DBBBC2DB04DE8EF92E8EFC141FBECAA6287C59474E6BC05D99B2964FA090C3A2233BA186515BE7ED1F612970CEE2D7AFB81BDD762170481CD0069127D5B05AA993B4EA988D8FDDC186FFB7DC90A6C08F4DF435C934063199FFFFFFFFFFFFFFFF"

def groupPrime (size : Nat) : Option Nat :=
  if size == 1024 then some (hexNat oakley2Hex)
  else if size == 2048 then some (hexNat oakley14Hex)
  else if size == 3072 then some (hexNat oakley15Hex)
  else if size == 4096 then some (hexNat oakley16Hex)
  else none

/-! ## methods -/

inductive Method
  | dh (bits : Nat) (h : HashId)
  | ecdh (c : Curve)
  | c25519
  | gex (h : HashId)
  | mlkem

def methodOf (name : String) : Option Method :=
  if name == "diffie-hellman-group1-sha1" then some (.dh 1024 .sha1)
  else if name == "diffie-hellman-group14-sha1" then some (.dh 2048 .sha1)
  else if name == "diffie-hellman-group14-sha256" then some (.dh 2048 .sha256)
  else if name == "diffie-hellman-group16-sha512" then some (.dh 4096 .sha512)
  else if name == "ecdh-sha2-nistp256" then some (.ecdh p256)
  else if name == "ecdh-sha2-nistp384" then some (.ecdh p384)
  else if name == "ecdh-sha2-nistp521" then some (.ecdh p521)
  else if name == "curve25519-sha256" then some .c25519
  else if name == "curve25519-sha256@libssh.org" then some .c25519
  else if name == "diffie-hellman-group-exchange-sha1" then some (.gex .sha1)
  else if name == "diffie-hellman-group-exchange-sha256" then some (.gex .sha256)
  else if name == "mlkem768x25519-sha256" then some .mlkem
  else none

def Method.hash : Method → HashId
  | .dh _ h => h
  | .ecdh c => c.hash
  | .c25519 => .sha256
  | .gex h => h
  | .mlkem => .sha256

end XC.C29
