/-
  C25_Des — DES and TDEA (FIPS 46-3) with the standard tables, written in the bit convention of the
  tables (entry = bit index counted from the least significant bit of the source word; first entry
  produces the most significant bit of the result).  Stand-in for Go's crypto/des (stdlib, not repo
  code); validated against the stdlib on every run (`prim` ops and every 3des-cbc packet).
-/
import XC.Basic
namespace XC.C25.Des

def initialPermutation : Array UInt8 := #[
  6, 14, 22, 30, 38, 46, 54, 62, 4, 12, 20, 28, 36, 44, 52, 60,
  2, 10, 18, 26, 34, 42, 50, 58, 0, 8, 16, 24, 32, 40, 48, 56,
  7, 15, 23, 31, 39, 47, 55, 63, 5, 13, 21, 29, 37, 45, 53, 61,
  3, 11, 19, 27, 35, 43, 51, 59, 1, 9, 17, 25, 33, 41, 49, 57]

def finalPermutation : Array UInt8 := #[
  24, 56, 16, 48, 8, 40, 0, 32, 25, 57, 17, 49, 9, 41, 1, 33,
  26, 58, 18, 50, 10, 42, 2, 34, 27, 59, 19, 51, 11, 43, 3, 35,
  28, 60, 20, 52, 12, 44, 4, 36, 29, 61, 21, 53, 13, 45, 5, 37,
  30, 62, 22, 54, 14, 46, 6, 38, 31, 63, 23, 55, 15, 47, 7, 39]

def expansionFunction : Array UInt8 := #[
  0, 31, 30, 29, 28, 27, 28, 27, 26, 25, 24, 23, 24, 23, 22, 21,
  20, 19, 20, 19, 18, 17, 16, 15, 16, 15, 14, 13, 12, 11, 12, 11,
  10, 9, 8, 7, 8, 7, 6, 5, 4, 3, 4, 3, 2, 1, 0, 31]

def permutationFunction : Array UInt8 := #[
  16, 25, 12, 11, 3, 20, 4, 15, 31, 17, 9, 6, 27, 14, 1, 22,
  30, 24, 8, 18, 0, 5, 29, 23, 13, 19, 2, 26, 10, 21, 28, 7]

def permutedChoice1 : Array UInt8 := #[
  7, 15, 23, 31, 39, 47, 55, 63, 6, 14, 22, 30, 38, 46, 54, 62,
  5, 13, 21, 29, 37, 45, 53, 61, 4, 12, 20, 28, 1, 9, 17, 25,
  33, 41, 49, 57, 2, 10, 18, 26, 34, 42, 50, 58, 3, 11, 19, 27,
  35, 43, 51, 59, 36, 44, 52, 60]

def permutedChoice2 : Array UInt8 := #[
  42, 39, 45, 32, 55, 51, 53, 28, 41, 50, 35, 46, 33, 37, 44, 52,
  30, 48, 40, 49, 29, 36, 43, 54, 15, 4, 25, 19, 9, 1, 26, 16,
  5, 11, 23, 8, 12, 7, 17, 0, 22, 3, 10, 14, 6, 20, 27, 24]

/-- S-boxes 1..8, each 4 rows × 16 columns, row-major -/
def sBoxes : Array UInt8 := #[
  14, 4, 13, 1, 2, 15, 11, 8, 3, 10, 6, 12, 5, 9, 0, 7,
  0, 15, 7, 4, 14, 2, 13, 1, 10, 6, 12, 11, 9, 5, 3, 8,
  4, 1, 14, 8, 13, 6, 2, 11, 15, 12, 9, 7, 3, 10, 5, 0,
  15, 12, 8, 2, 4, 9, 1, 7, 5, 11, 3, 14, 10, 0, 6, 13,
  15, 1, 8, 14, 6, 11, 3, 4, 9, 7, 2, 13, 12, 0, 5, 10,
  3, 13, 4, 7, 15, 2, 8, 14, 12, 0, 1, 10, 6, 9, 11, 5,
  0, 14, 7, 11, 10, 4, 13, 1, 5, 8, 12, 6, 9, 3, 2, 15,
  13, 8, 10, 1, 3, 15, 4, 2, 11, 6, 7, 12, 0, 5, 14, 9,
  10, 0, 9, 14, 6, 3, 15, 5, 1, 13, 12, 7, 11, 4, 2, 8,
  13, 7, 0, 9, 3, 4, 6, 10, 2, 8, 5, 14, 12, 11, 15, 1,
  13, 6, 4, 9, 8, 15, 3, 0, 11, 1, 2, 12, 5, 10, 14, 7,
  1, 10, 13, 0, 6, 9, 8, 7, 4, 15, 14, 3, 11, 5, 2, 12,
  7, 13, 14, 3, 0, 6, 9, 10, 1, 2, 8, 5, 11, 12, 4, 15,
  13, 8, 11, 5, 6, 15, 0, 3, 4, 7, 2, 12, 1, 10, 14, 9,
  10, 6, 9, 0, 12, 11, 7, 13, 15, 1, 3, 14, 5, 2, 8, 4,
  3, 15, 0, 6, 10, 1, 13, 8, 9, 4, 5, 11, 12, 7, 2, 14,
  2, 12, 4, 1, 7, 10, 11, 6, 8, 5, 3, 15, 13, 0, 14, 9,
  14, 11, 2, 12, 4, 7, 13, 1, 5, 0, 15, 10, 3, 9, 8, 6,
  4, 2, 1, 11, 10, 13, 7, 8, 15, 9, 12, 5, 6, 3, 0, 14,
  11, 8, 12, 7, 1, 14, 2, 13, 6, 15, 0, 9, 10, 4, 5, 3,
  12, 1, 10, 15, 9, 2, 6, 8, 0, 13, 3, 4, 14, 7, 5, 11,
  10, 15, 4, 2, 7, 12, 9, 5, 6, 1, 13, 14, 0, 11, 3, 8,
  9, 14, 15, 5, 2, 8, 12, 3, 7, 0, 4, 10, 1, 13, 11, 6,
  4, 3, 2, 12, 9, 5, 15, 10, 11, 14, 1, 7, 6, 0, 8, 13,
  4, 11, 2, 14, 15, 0, 8, 13, 3, 12, 9, 7, 5, 10, 6, 1,
  13, 0, 11, 7, 4, 9, 1, 10, 14, 3, 5, 12, 2, 15, 8, 6,
  1, 4, 11, 13, 12, 3, 7, 14, 10, 15, 6, 8, 0, 5, 9, 2,
  6, 11, 13, 8, 1, 4, 10, 7, 9, 5, 0, 15, 14, 2, 3, 12,
  13, 2, 8, 4, 6, 15, 11, 1, 10, 9, 3, 14, 5, 0, 12, 7,
  1, 15, 13, 8, 10, 3, 7, 4, 12, 5, 6, 11, 0, 14, 9, 2,
  7, 11, 4, 1, 9, 12, 14, 2, 0, 6, 10, 13, 15, 3, 5, 8,
  2, 1, 14, 7, 4, 10, 8, 13, 15, 12, 9, 0, 3, 5, 6, 11]

def ksRotations : Array UInt64 := #[1, 1, 2, 2, 2, 2, 2, 2, 1, 2, 2, 2, 2, 2, 2, 1]

/-- general bit permutation: result bit (from the top) `p` = source bit `perm[p]` (from the bottom) -/
def permute (src : UInt64) (perm : Array UInt8) : UInt64 :=
  perm.foldl (fun acc n => (acc <<< 1) ||| ((src >>> n.toUInt64) &&& 1)) 0

def sboxGo : Nat → UInt64 → UInt64 → UInt64
  | 0, _, acc => acc
  | k+1, loc, acc =>
    let i := 7 - k                           -- S-box index 0..7, taken from the top 6 bits first
    let l : UInt64 := (loc >>> (6 * k.toUInt64)) &&& 0x3f
    let row : UInt64 := (l &&& (1 : UInt64)) ||| ((l &&& (0x20 : UInt64)) >>> (4 : UInt64))
    let col : UInt64 := (l >>> (1 : UInt64)) &&& (0xf : UInt64)
    let v := (sBoxes.getD (64 * i + 16 * row.toNat + col.toNat) 0).toUInt64
    sboxGo k loc (acc ||| (v <<< (4 * k.toUInt64)))

/-- the cipher function f(R, K) of FIPS 46-3 -/
def feistel (right : UInt64) (key : UInt64) : UInt64 :=
  let loc := key ^^^ permute right expansionFunction
  permute (sboxGo 8 loc 0) permutationFunction

/-- 28-bit circular left shifts of one key half, cumulated over the 16 rounds -/
def ksRotate (inp : UInt64) : Array UInt64 :=
  (ksRotations.foldl (fun (st : UInt64 × Array UInt64) r =>
      let last := st.1
      let out := ((last <<< r) ||| (last >>> (28 - r))) &&& 0xfffffff
      (out, st.2.push out)) (inp, #[])).2

def subkeys (key : Bytes) : Array UInt64 :=
  let k := be64 key
  let pk := permute k permutedChoice1
  let ls := ksRotate (pk >>> 28)
  let rs := ksRotate (pk &&& 0xfffffff)
  (Array.range 16).map fun i => permute ((ls.getD i 0 <<< 28) ||| rs.getD i 0) permutedChoice2

def roundsGo (sk : Array UInt64) (decrypt : Bool) : Nat → UInt64 → UInt64 → UInt64 × UInt64
  | 0, l, r => (l, r)
  | k+1, l, r =>
    let i := 15 - k
    let key := sk.getD (if decrypt then 15 - i else i) 0
    roundsGo sk decrypt k r ((l ^^^ feistel r key) &&& 0xffffffff)

def cryptBlock (sk : Array UInt64) (decrypt : Bool) (b : UInt64) : UInt64 :=
  let b := permute b initialPermutation
  let (l, r) := roundsGo sk decrypt 16 (b >>> 32) (b &&& 0xffffffff)
  permute ((r <<< 32) ||| l) finalPermutation

structure Key3 where
  k1 : Array UInt64
  k2 : Array UInt64
  k3 : Array UInt64

def expandKey3 (key : Bytes) : Key3 := ⟨subkeys (key.take 8), subkeys ((key.drop 8).take 8), subkeys ((key.drop 16).take 8)⟩

/-- TDEA: E_k3(D_k2(E_k1(x))) -/
def encryptBlock3 (k : Key3) (b : Bytes) : Bytes :=
  u64be (cryptBlock k.k3 false (cryptBlock k.k2 true (cryptBlock k.k1 false (be64 b))))

def decryptBlock3 (k : Key3) (b : Bytes) : Bytes :=
  u64be (cryptBlock k.k1 true (cryptBlock k.k2 false (cryptBlock k.k3 true (be64 b))))

def encryptBlock1 (key b : Bytes) : Bytes := u64be (cryptBlock (subkeys key) false (be64 b))

end XC.C25.Des
