/-
  C52 — bn256 (/repo/bn256): field tower, G1 (curve.go), G2 (twist.go), Marshal / Unmarshal
  (bn256.go, the code AFTER the fixes: coordinates must be < p; negative scalars).

  The Go code works on `*big.Int` and reduces mod p only at certain points; the model is a
  transcription on `Int` that reduces at exactly the same points (`big.Int.Mod` is the Euclidean
  modulus = Lean's `%` on `Int`), so every sign test (`Sign() == 0`, `IsZero`, `IsInfinity`) is
  taken on the same integer as in the code.  Pointer receivers become returned values; the
  `bnPool` is dropped.  The field `t` of a point ("t = z² when valid") is written by the code only
  in Set / MakeAffine / Unmarshal / Negative and by the pairing's line functions; Add and Double
  leave the receiver's old `t` in place — the model puts 0 there (it is dead: G1 never reads it,
  G2 reads it only after MakeAffine or a line function has set it).
-/
import XC.Basic
namespace XC.C52

def p : Int := 65000549695646603732796438742359905742825358107623003571877145026864184071783
def order : Int := 65000549695646603732796438742359905742570406053903786389881062969044166799969
def u : Nat := 6518589491078791937

/-- `b^e mod p` -/
def powMod (b : Int) : Nat → Int
  | 0 => 1
  | e+1 =>
    let h := powMod b ((e+1) / 2)
    let s := (h * h) % p
    if (e+1) % 2 = 1 then (s * b) % p else s
decreasing_by omega

/-- `big.Int.ModInverse(a, p)` for `a` prime to `p`: the inverse in `[0, p)` (Fermat).
    For `a ≡ 0` Go leaves the receiver unchanged (pool garbage); the model gives 0 and the
    callers that could reach it are guarded (`pair`). -/
def modInverse (a : Int) : Int := powMod (a % p) (p - 2).toNat

/-! ## GF(p²) = GF(p)[i]/(i²+1); value is `x·i + y` -/

structure GFp2 where
  x : Int
  y : Int
deriving DecidableEq, Repr, Inhabited

namespace GFp2
def zero : GFp2 := ⟨0, 0⟩
def one : GFp2 := ⟨0, 1⟩
def minimal (e : GFp2) : GFp2 := ⟨e.x % p, e.y % p⟩
def isZero (e : GFp2) : Bool := e.x == 0 && e.y == 0
/-- `IsOne` looks at `Bits()`, i.e. the absolute value of y -/
def isOne (e : GFp2) : Bool := e.x == 0 && e.y.natAbs == 1
def conj (a : GFp2) : GFp2 := ⟨-a.x, a.y⟩
def neg (a : GFp2) : GFp2 := ⟨-a.x, -a.y⟩
def add (a b : GFp2) : GFp2 := ⟨a.x + b.x, a.y + b.y⟩
def sub (a b : GFp2) : GFp2 := ⟨a.x - b.x, a.y - b.y⟩
def double (a : GFp2) : GFp2 := ⟨a.x * 2, a.y * 2⟩
def mul (a b : GFp2) : GFp2 := ⟨(a.x * b.y + b.x * a.y) % p, (a.y * b.y - a.x * b.x) % p⟩
def mulScalar (a : GFp2) (b : Int) : GFp2 := ⟨a.x * b, a.y * b⟩
/-- `MulXi`: times ξ = i + 3, not reduced -/
def mulXi (a : GFp2) : GFp2 := ⟨a.x * 2 + a.x + a.y, a.y * 2 + a.y - a.x⟩
/-- complex squaring: `(y-x)(x+y)` and `2xy` -/
def square (a : GFp2) : GFp2 := ⟨(a.x * a.y * 2) % p, ((a.y - a.x) * (a.x + a.y)) % p⟩
def invert (a : GFp2) : GFp2 :=
  let t := a.y * a.y + a.x * a.x
  let inv := modInverse t
  ⟨(-a.x * inv) % p, (a.y * inv) % p⟩
end GFp2

/-! ## GF(p⁶) = GF(p²)[τ]/(τ³−ξ); value is `x·τ² + y·τ + z` -/

structure GFp6 where
  x : GFp2
  y : GFp2
  z : GFp2
deriving DecidableEq, Repr, Inhabited

namespace GFp6
def zero : GFp6 := ⟨.zero, .zero, .zero⟩
def one : GFp6 := ⟨.zero, .zero, .one⟩
def minimal (e : GFp6) : GFp6 := ⟨e.x.minimal, e.y.minimal, e.z.minimal⟩
def isZero (e : GFp6) : Bool := e.x.isZero && e.y.isZero && e.z.isZero
def isOne (e : GFp6) : Bool := e.x.isZero && e.y.isZero && e.z.isOne
def neg (a : GFp6) : GFp6 := ⟨a.x.neg, a.y.neg, a.z.neg⟩
def add (a b : GFp6) : GFp6 := ⟨a.x.add b.x, a.y.add b.y, a.z.add b.z⟩
def sub (a b : GFp6) : GFp6 := ⟨a.x.sub b.x, a.y.sub b.y, a.z.sub b.z⟩
def double (a : GFp6) : GFp6 := ⟨a.x.double, a.y.double, a.z.double⟩

def xiTo2PMinus2Over3 : GFp2 := ⟨19885131339612776214803633203834694332692106372356013117629940868870585019582, 21645619881471562101905880913352894726728173167203616652430647841922248593627⟩
def xiToPMinus1Over3 : GFp2 := ⟨26098034838977895781559542626833399156321265654106457577426020397262786167059, 15931493369629630809226283458085260090334794394361662678240713231519278691715⟩
def xiTo2PSquaredMinus2Over3 : Int := 4985783334309134261147736404674766913742361673560802634030
def xiToPSquaredMinus1Over3 : Int := 65000549695646603727810655408050771481677621702948236658134783353303381437752

def frobenius (a : GFp6) : GFp6 :=
  ⟨a.x.conj.mul xiTo2PMinus2Over3, a.y.conj.mul xiToPMinus1Over3, a.z.conj⟩
def frobeniusP2 (a : GFp6) : GFp6 :=
  ⟨a.x.mulScalar xiTo2PSquaredMinus2Over3, a.y.mulScalar xiToPSquaredMinus1Over3, a.z⟩

/-- Karatsuba, as in gfp6.go -/
def mul (a b : GFp6) : GFp6 :=
  let v0 := a.z.mul b.z
  let v1 := a.y.mul b.y
  let v2 := a.x.mul b.x
  let tz := (((a.x.add a.y).mul (b.x.add b.y)).sub v1 |>.sub v2).mulXi.add v0
  let ty := (((a.y.add a.z).mul (b.y.add b.z)).sub v0 |>.sub v1).add v2.mulXi
  let tx := ((a.x.add a.z).mul (b.x.add b.z)).sub v0 |>.add v1 |>.sub v2
  ⟨tx, ty, tz⟩
def mulScalar (a : GFp6) (b : GFp2) : GFp6 := ⟨a.x.mul b, a.y.mul b, a.z.mul b⟩
def mulGFP (a : GFp6) (b : Int) : GFp6 := ⟨a.x.mulScalar b, a.y.mulScalar b, a.z.mulScalar b⟩
/-- `MulTau`: τ·(aτ²+bτ+c) = bτ²+cτ+aξ -/
def mulTau (a : GFp6) : GFp6 := ⟨a.y, a.z, a.x.mulXi⟩
def square (a : GFp6) : GFp6 :=
  let v0 := a.z.square
  let v1 := a.y.square
  let v2 := a.x.square
  let c0 := ((a.x.add a.y).square.sub v1 |>.sub v2).mulXi.add v0
  let c1 := ((a.y.add a.z).square.sub v0 |>.sub v1).add v2.mulXi
  let c2 := (a.x.add a.z).square.sub v0 |>.add v1 |>.sub v2
  ⟨c2, c1, c0⟩
def invert (a : GFp6) : GFp6 :=
  let A := a.z.square.sub (a.x.mul a.y).mulXi
  let B := a.x.square.mulXi.sub (a.y.mul a.z)
  let C := a.y.square.sub (a.x.mul a.z)
  let F := ((C.mul a.y).mulXi.add (A.mul a.z)).add (B.mul a.x).mulXi
  let F := F.invert
  ⟨C.mul F, B.mul F, A.mul F⟩
end GFp6

/-! ## GF(p¹²) = GF(p⁶)[ω]/(ω²−τ); value is `x·ω + y` -/

structure GFp12 where
  x : GFp6
  y : GFp6
deriving DecidableEq, Repr, Inhabited

namespace GFp12
def one : GFp12 := ⟨.zero, .one⟩
def minimal (e : GFp12) : GFp12 := ⟨e.x.minimal, e.y.minimal⟩
def isZero (e : GFp12) : Bool := e.x.minimal.isZero && e.y.minimal.isZero
def isOne (e : GFp12) : Bool := e.x.minimal.isZero && e.y.minimal.isOne
def conj (a : GFp12) : GFp12 := ⟨a.x.neg, a.y⟩
def xiToPMinus1Over6 : GFp2 := ⟨8669379979083712429711189836753509758585994370025260553045152614783263110636, 19998038925833620163537568958541907098007303196759855091367510456613536016040⟩
def xiToPSquaredMinus1Over6 : Int := 65000549695646603727810655408050771481677621702948236658134783353303381437753
def frobenius (a : GFp12) : GFp12 := ⟨a.x.frobenius.mulScalar xiToPMinus1Over6, a.y.frobenius⟩
def frobeniusP2 (a : GFp12) : GFp12 := ⟨a.x.frobeniusP2.mulGFP xiToPSquaredMinus1Over6, a.y.frobeniusP2⟩
def mul (a b : GFp12) : GFp12 :=
  let tx := (a.x.mul b.y).add (b.x.mul a.y)
  let ty := a.y.mul b.y
  let t := (a.x.mul b.x).mulTau
  ⟨tx, ty.add t⟩
def mulScalar (a : GFp12) (b : GFp6) : GFp12 := ⟨a.x.mul b, a.y.mul b⟩
def square (a : GFp12) : GFp12 :=
  let v0 := a.x.mul a.y
  let t := a.y.add a.x.mulTau
  let ty := ((a.x.add a.y).mul t).sub v0 |>.sub v0.mulTau
  ⟨v0.double, ty⟩
def invert (a : GFp12) : GFp12 :=
  let t1 := a.y.square.sub a.x.square.mulTau
  let t2 := t1.invert
  mulScalar ⟨a.x.neg, a.y⟩ t2

/-- `big.Int.BitLen` -/
def bitLen (k : Int) : Nat := if k = 0 then 0 else k.natAbs.log2 + 1

/-- the square-and-multiply loop of `Exp`: bits `BitLen(|k|)-1 … 0` of `power` (`big.Int.Bit`:
    two's complement for negative values), square then conditionally multiply -/
def expLoop (a : GFp12) (k : Int) : GFp12 :=
  ((List.range (bitLen k)).reverse.map (fun i => (k >>> i) % 2 == 1)).foldl
    (fun sum b => let t := sum.square; if b then t.mul a else t) one

/-- `Exp` (after the negative-scalar fix): a negative power is `(a^|k|)^-1`; the loop only sees `k ≥ 0` -/
def exp (a : GFp12) (k : Int) : GFp12 :=
  if k < 0 then (expLoop a (-k)).invert else expLoop a k
end GFp12

/-! ## G1: y² = x³ + 3 over GF(p), Jacobian coordinates (curve.go) -/

structure CurvePoint where
  x : Int
  y : Int
  z : Int
  t : Int
deriving DecidableEq, Repr, Inhabited

namespace CurvePoint
def gen : CurvePoint := ⟨1, -2, 1, 1⟩
/-- `newCurvePoint` on a fresh pool + `SetInfinity` -/
def infinity0 : CurvePoint := ⟨0, 0, 0, 0⟩

/-- `IsOnCurve` (affine): `y² − x³ − 3 ≡ 0 (mod p)` -/
def isOnCurve (c : CurvePoint) : Bool := (c.y * c.y - c.x * c.x * c.x - 3) % p == 0
def isInfinity (c : CurvePoint) : Bool := c.z == 0

def double (a : CurvePoint) : CurvePoint :=
  let A := (a.x * a.x) % p
  let B := (a.y * a.y) % p
  let C := (B * B) % p
  let t := a.x + B
  let t2 := (t * t) % p
  let t := t2 - A
  let t2 := t - C
  let d := t2 + t2
  let t := A + A
  let e := t + A
  let f := (e * e) % p
  -- z first (the receiver may alias `a`: a.y, a.z are read before c.y is written)
  let t := (a.y * a.z) % p
  let cz := t + t
  let t := d + d
  let cx := f - t
  let t := C + C
  let t2 := t + t
  let t := t2 + t2
  let cy := d - cx
  let t2 := (e * cy) % p
  let cy := t2 - t
  ⟨cx, cy, cz, 0⟩

def add (a b : CurvePoint) : CurvePoint :=
  if a.isInfinity then b
  else if b.isInfinity then a
  else
    let z1z1 := (a.z * a.z) % p
    let z2z2 := (b.z * b.z) % p
    let u1 := (a.x * z2z2) % p
    let u2 := (b.x * z1z1) % p
    let t := (b.z * z2z2) % p
    let s1 := (a.y * t) % p
    let t := (a.z * z1z1) % p
    let s2 := (b.y * t) % p
    let h := u2 - u1
    let xEqual := h == 0
    let t := h + h
    let i := (t * t) % p
    let j := (h * i) % p
    let t := s2 - s1
    let yEqual := t == 0
    if xEqual && yEqual then double a
    else
      let r := t + t
      let v := (u1 * i) % p
      let t4 := (r * r) % p
      let t := v + v
      let t6 := t4 - j
      let cx := t6 - t
      let t := v - cx
      let t4 := (s1 * j) % p
      let t6 := t4 + t4
      let t4 := (r * t) % p
      let cy := t4 - t6
      let t := a.z + b.z
      let t4 := (t * t) % p
      let t := t4 - z1z1
      let t4 := t - z2z2
      let cz := (t4 * h) % p
      ⟨cx, cy, cz, 0⟩

/-- `Negative`: y ↦ −y (not reduced); z and the cached t are kept -/
def neg (a : CurvePoint) : CurvePoint := ⟨a.x, -a.y, a.z, a.t⟩

/-- one round of the `Mul` loop for one scalar bit -/
def mulStep (a : CurvePoint) (sum : CurvePoint) (bit : Bool) : CurvePoint :=
  let t := double sum
  if bit then add t a else t

/-- the bits `Mul` reads: `scalar.Bit(i)` for `i = BitLen(|k|) … 0`; `big.Int.Bit` is the
    two's-complement bit for negative values -/
def goBits (k : Int) : List Bool :=
  (List.range (GFp12.bitLen k + 1)).reverse.map (fun i => (k >>> i) % 2 == 1)

/-- the double-and-add loop of `curvePoint.Mul` -/
def mulLoop (a : CurvePoint) (k : Int) : CurvePoint := (goBits k).foldl (mulStep a) infinity0

/-- `curvePoint.Mul` (after the negative-scalar fix): `scalar.Sign() < 0` ⇒ `Negative(Mul(a, −scalar))` -/
def mul (a : CurvePoint) (k : Int) : CurvePoint :=
  if k < 0 then (mulLoop a (-k)).neg else mulLoop a k

def makeAffine (c : CurvePoint) : CurvePoint :=
  if c.z.natAbs == 1 then c
  else if c.isInfinity then ⟨0, 1, 0, 0⟩
  else
    let zInv := modInverse c.z
    let t := (c.y * zInv) % p
    let zInv2 := (zInv * zInv) % p
    let cy := (t * zInv2) % p
    let t := (c.x * zInv2) % p
    ⟨t, cy, 1, 1⟩
end CurvePoint

/-! ## G2: y² = x³ + 3/ξ over GF(p²) (twist.go) -/

structure TwistPoint where
  x : GFp2
  y : GFp2
  z : GFp2
  t : GFp2
deriving DecidableEq, Repr, Inhabited

namespace TwistPoint
def twistB : GFp2 := ⟨6500054969564660373279643874235990574282535810762300357187714502686418407178, 45500384786952622612957507119651934019977750675336102500314001518804928850249⟩
def gen : TwistPoint :=
  ⟨⟨21167961636542580255011770066570541300993051739349375019639421053990175267184, 64746500191241794695844075326670126197795977525365406531717464316923369116492⟩,
   ⟨20666913350058776956210519119118544732556678129809273996262322366050359951122, 17778617556404439934652658462602675281523610326338642107814333856843981424549⟩,
   ⟨0, 1⟩, ⟨0, 1⟩⟩
def infinity0 : TwistPoint := ⟨.zero, .zero, .zero, .zero⟩

def isOnCurve (c : TwistPoint) : Bool :=
  let yy := c.y.square
  let xxx := c.x.square.mul c.x
  let yy := ((yy.sub xxx).sub twistB).minimal
  yy.x == 0 && yy.y == 0
def isInfinity (c : TwistPoint) : Bool := c.z.isZero

def double (a : TwistPoint) : TwistPoint :=
  let A := a.x.square
  let B := a.y.square
  let C := B.square
  let t := a.x.add B
  let t2 := t.square
  let t := t2.sub A
  let t2 := t.sub C
  let d := t2.add t2
  let t := A.add A
  let e := t.add A
  let f := e.square
  let t := a.y.mul a.z
  let cz := t.add t
  let t := d.add d
  let cx := f.sub t
  let t := C.add C
  let t2 := t.add t
  let t := t2.add t2
  let cy := d.sub cx
  let t2 := e.mul cy
  let cy := t2.sub t
  ⟨cx, cy, cz, .zero⟩

def add (a b : TwistPoint) : TwistPoint :=
  if a.isInfinity then b
  else if b.isInfinity then a
  else
    let z1z1 := a.z.square
    let z2z2 := b.z.square
    let u1 := a.x.mul z2z2
    let u2 := b.x.mul z1z1
    let t := b.z.mul z2z2
    let s1 := a.y.mul t
    let t := a.z.mul z1z1
    let s2 := b.y.mul t
    let h := u2.sub u1
    let xEqual := h.isZero
    let t := h.add h
    let i := t.square
    let j := h.mul i
    let t := s2.sub s1
    let yEqual := t.isZero
    if xEqual && yEqual then double a
    else
      let r := t.add t
      let v := u1.mul i
      let t4 := r.square
      let t := v.add v
      let t6 := t4.sub j
      let cx := t6.sub t
      let t := v.sub cx
      let t4 := s1.mul j
      let t6 := t4.add t4
      let t4 := r.mul t
      let cy := t4.sub t6
      let t := a.z.add b.z
      let t4 := t.square
      let t := t4.sub z1z1
      let t4 := t.sub z2z2
      let cz := t4.mul h
      ⟨cx, cy, cz, .zero⟩

/-- `Negative`: y := 0 − y; z and the cached t = z² are kept (so a negated affine point stays
    usable by the pairing, which reads t without recomputing it when z = 1) -/
def neg (a : TwistPoint) : TwistPoint := ⟨a.x, GFp2.zero.sub a.y, a.z, a.t⟩

def mulStep (a : TwistPoint) (sum : TwistPoint) (bit : Bool) : TwistPoint :=
  let t := double sum
  if bit then add t a else t

def mulLoop (a : TwistPoint) (k : Int) : TwistPoint :=
  (CurvePoint.goBits k).foldl (mulStep a) infinity0

/-- `twistPoint.Mul` (after the negative-scalar fix) -/
def mul (a : TwistPoint) (k : Int) : TwistPoint :=
  if k < 0 then (mulLoop a (-k)).neg else mulLoop a k

def makeAffine (c : TwistPoint) : TwistPoint :=
  if c.z.isOne then c
  else if c.isInfinity then ⟨.zero, .one, .zero, .zero⟩
  else
    let zInv := c.z.invert
    let t := c.y.mul zInv
    let zInv2 := zInv.square
    let cy := t.mul zInv2
    let t := c.x.mul zInv2
    ⟨t, cy, .one, .one⟩
end TwistPoint

/-! ## Marshal / Unmarshal (bn256.go) -/

/-- `big.Int.Bytes()` right-aligned in 32 bytes, for `0 ≤ v < 2^256` -/
def be32 (v : Int) : Bytes := natToBE 32 v.toNat

def g1Marshal (c : CurvePoint) : Bytes :=
  if c.isInfinity then zeros 64
  else
    let c := c.makeAffine
    be32 (c.x % p) ++ be32 (c.y % p)

/-- `G1.Unmarshal` (fixed code): length, both coordinates `< p`, all-zero = infinity, else on curve -/
def g1Unmarshal (m : Bytes) : Option CurvePoint :=
  if m.length ≠ 64 then none
  else
    let x : Int := natOfBE (m.take 32)
    let y : Int := natOfBE (m.drop 32)
    if x ≥ p ∨ y ≥ p then none
    else if x = 0 ∧ y = 0 then some ⟨0, 1, 0, 0⟩
    else
      let c : CurvePoint := ⟨x, y, 1, 1⟩
      if c.isOnCurve then some c else none

def g2Marshal (c : TwistPoint) : Bytes :=
  if c.isInfinity then zeros 128
  else
    let c := c.makeAffine
    be32 (c.x.x % p) ++ (be32 (c.x.y % p) ++ (be32 (c.y.x % p) ++ be32 (c.y.y % p)))

def g2Unmarshal (m : Bytes) : Option TwistPoint :=
  if m.length ≠ 128 then none
  else
    let xx : Int := natOfBE (m.take 32)
    let xy : Int := natOfBE ((m.drop 32).take 32)
    let yx : Int := natOfBE ((m.drop 64).take 32)
    let yy : Int := natOfBE (m.drop 96)
    if xx ≥ p ∨ xy ≥ p ∨ yx ≥ p ∨ yy ≥ p then none
    else if xx = 0 ∧ xy = 0 ∧ yx = 0 ∧ yy = 0 then some ⟨.zero, .one, .zero, .zero⟩
    else
      let c : TwistPoint := ⟨⟨xx, xy⟩, ⟨yx, yy⟩, .one, .one⟩
      if c.isOnCurve then some c else none

def gtMarshal (e : GFp12) : Bytes :=
  let e := e.minimal
  [e.x.x.x, e.x.x.y, e.x.y.x, e.x.y.y, e.x.z.x, e.x.z.y,
   e.y.x.x, e.y.x.y, e.y.y.x, e.y.y.y, e.y.z.x, e.y.z.y].flatMap be32

/-- `GT.Unmarshal`: only the length is checked; coordinates are taken as they are -/
def gtUnmarshal (m : Bytes) : Option GFp12 :=
  if m.length ≠ 384 then none else
  let c (i : Nat) : Int := natOfBE ((m.drop (32 * i)).take 32)
  some ⟨⟨⟨c 0, c 1⟩, ⟨c 2, c 3⟩, ⟨c 4, c 5⟩⟩, ⟨⟨c 6, c 7⟩, ⟨c 8, c 9⟩, ⟨c 10, c 11⟩⟩⟩

end XC.C52
