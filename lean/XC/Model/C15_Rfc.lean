/-
  C15 — RFC 9106 §3.5–3.6 written from the RFC text (not from the Go code): the BlaMka mixing function GB,
  the permutation P on eight 16-byte registers, the compression function G(X, Y) = Z ⊕ R with P applied to the
  rows and then to the columns of the 8×8 register matrix, and the final block / tag of §3.2 steps 7–8.
  A 1024-byte block is 128 little-endian 64-bit words; register R_i is the word pair (2i, 2i+1) and, as §3.6
  says, S_i = (v_{2i+1} ‖ v_{2i}).
-/
import XC.Model.C15
namespace XC.C15.Rfc
open XC.C15

/-- "trunc(a)": the 64-bit value a truncated to its 32 least significant bits -/
def trunc (x : UInt64) : UInt64 := x % 4294967296

/-- right rotation of a 64-bit word (">>>" in §3.6) -/
def ror (x : UInt64) (n : UInt64) : UInt64 := (x >>> n) ||| (x <<< (64 - n))

/-- §3.6  GB(a, b, c, d) -/
def GB (a b c d : UInt64) : UInt64 × UInt64 × UInt64 × UInt64 :=
  let a := a + b + 2 * trunc a * trunc b
  let d := ror (d ^^^ a) 32
  let c := c + d + 2 * trunc c * trunc d
  let b := ror (b ^^^ c) 24
  let a := a + b + 2 * trunc a * trunc b
  let d := ror (d ^^^ a) 16
  let c := c + d + 2 * trunc c * trunc d
  let b := ror (b ^^^ c) 63
  (a, b, c, d)

/-- the 4×4 matrix of 64-bit words v_0 … v_15 -/
structure W16 where
  v0 : UInt64
  v1 : UInt64
  v2 : UInt64
  v3 : UInt64
  v4 : UInt64
  v5 : UInt64
  v6 : UInt64
  v7 : UInt64
  v8 : UInt64
  v9 : UInt64
  v10 : UInt64
  v11 : UInt64
  v12 : UInt64
  v13 : UInt64
  v14 : UInt64
  v15 : UInt64

def W16.get (w : W16) : Nat → UInt64
  | 0 => w.v0 | 1 => w.v1 | 2 => w.v2 | 3 => w.v3 | 4 => w.v4 | 5 => w.v5 | 6 => w.v6 | 7 => w.v7
  | 8 => w.v8 | 9 => w.v9 | 10 => w.v10 | 11 => w.v11 | 12 => w.v12 | 13 => w.v13 | 14 => w.v14 | 15 => w.v15
  | _ => 0

/-- §3.6 with the mixing function as a parameter: GB on the four columns, then on the four diagonals -/
def Pwith (g : UInt64 → UInt64 → UInt64 → UInt64 → UInt64 × UInt64 × UInt64 × UInt64) (w : W16) : W16 :=
  let (v0, v4, v8, v12) := g w.v0 w.v4 w.v8 w.v12
  let (v1, v5, v9, v13) := g w.v1 w.v5 w.v9 w.v13
  let (v2, v6, v10, v14) := g w.v2 w.v6 w.v10 w.v14
  let (v3, v7, v11, v15) := g w.v3 w.v7 w.v11 w.v15
  let (v0, v5, v10, v15) := g v0 v5 v10 v15
  let (v1, v6, v11, v12) := g v1 v6 v11 v12
  let (v2, v7, v8, v13) := g v2 v7 v8 v13
  let (v3, v4, v9, v14) := g v3 v4 v9 v14
  ⟨v0, v1, v2, v3, v4, v5, v6, v7, v8, v9, v10, v11, v12, v13, v14, v15⟩

/-- §3.6  permutation P(S_0, …, S_7) -/
def P (w : W16) : W16 := Pwith GB w

/-- the matrix (v_0 … v_15) of eight registers R_{i0}, …, R_{i7} of block `b`: S_k = (v_{2k+1} ‖ v_{2k}) -/
def regs (b : Block) (i0 i1 i2 i3 i4 i5 i6 i7 : Nat) : W16 :=
  ⟨b.getD (2*i0) 0, b.getD (2*i0+1) 0, b.getD (2*i1) 0, b.getD (2*i1+1) 0, b.getD (2*i2) 0, b.getD (2*i2+1) 0,
   b.getD (2*i3) 0, b.getD (2*i3+1) 0, b.getD (2*i4) 0, b.getD (2*i4+1) 0, b.getD (2*i5) 0, b.getD (2*i5+1) 0,
   b.getD (2*i6) 0, b.getD (2*i6+1) 0, b.getD (2*i7) 0, b.getD (2*i7+1) 0⟩

/-- row r of the 8×8 register matrix: R_{8r}, …, R_{8r+7} -/
def rowRegs (b : Block) (r : Nat) : W16 := regs b (8*r) (8*r+1) (8*r+2) (8*r+3) (8*r+4) (8*r+5) (8*r+6) (8*r+7)

/-- column c: R_c, R_{8+c}, …, R_{56+c} -/
def colRegs (b : Block) (c : Nat) : W16 := regs b c (8+c) (16+c) (24+c) (32+c) (40+c) (48+c) (56+c)

/-- (Q_{8r}, …, Q_{8r+7}) ← P(R_{8r}, …, R_{8r+7}) for every row r: word w lives in register w/2,
    i.e. row (w/2)/8, position (w/2) mod 8 in the row -/
def applyRows (b : Block) : Block :=
  Array.ofFn (n := 128) fun w => (P (rowRegs b (w.val / 2 / 8))).get (2 * (w.val / 2 % 8) + w.val % 2)

/-- (Z_c, Z_{8+c}, …, Z_{56+c}) ← P(Q_c, Q_{8+c}, …, Q_{56+c}) for every column c: register w/2 is in
    column (w/2) mod 8 at position (w/2)/8 -/
def applyCols (b : Block) : Block :=
  Array.ofFn (n := 128) fun w => (P (colRegs b (w.val / 2 % 8))).get (2 * (w.val / 2 / 8) + w.val % 2)

def xorB (x y : Block) : Block := Array.ofFn (n := 128) fun w => x.getD w.val 0 ^^^ y.getD w.val 0

/-- §3.5  compression function G(X, Y): R = X ⊕ Y, rows, columns, output Z ⊕ R -/
def G (x y : Block) : Block :=
  let r := xorB x y
  let z := applyCols (applyRows r)
  xorB z r

/-- §3.4.1.2 (Argon2i / first half of Argon2id pass 0): the 1024-byte input of the address generator,
    Z = LE64(r) ‖ LE64(l) ‖ LE64(sl) ‖ LE64(m′) ‖ LE64(t) ‖ LE64(y) ‖ LE64(i) ‖ ZERO(968) -/
def addrInput (r l sl m' t y i : Nat) : Block :=
  Array.ofFn (n := 128) fun w =>
    match w.val with
    | 0 => UInt64.ofNat r | 1 => UInt64.ofNat l | 2 => UInt64.ofNat sl | 3 => UInt64.ofNat m'
    | 4 => UInt64.ofNat t | 5 => UInt64.ofNat y | 6 => UInt64.ofNat i | _ => 0

def zeroB : Block := Array.replicate 128 0

/-- the i-th block of 128 (J1 ‖ J2) values: G(ZERO(1024), G(ZERO(1024), Z)) -/
def addrBlock (r l sl m' t y i : Nat) : Block := G zeroB (G zeroB (addrInput r l sl m' t y i))

/-- §3.2 steps 5–6 for one block: B[i][j] = G(B[i][j−1], B[l][z]) in the first pass (where B[i][j] is still
    all-zero), B[i][j] = G(B[i][j−1], B[l][z]) XOR B[i][j] afterwards — both are `old ⊕ G(prev, ref)` -/
def newBlock (old prev ref : Block) : Block := xorB old (G prev ref)

/-- position of the previous block in a lane of length q: j − 1, and q − 1 for j = 0 -/
def prevCol (q j : Nat) : Nat := (j + q - 1) % q

/-- §3.2 steps 3–4: B[i][0] = H′^1024(H0 ‖ LE32(0) ‖ LE32(i)), B[i][1] = H′^1024(H0 ‖ LE32(1) ‖ LE32(i)); every
    other block is still untouched (all-zero).  Lane-major: B[i][j] = mem[i·q + j]. -/
def initRFC (h0 : Bytes) (p q : Nat) : Array Block :=
  Array.ofFn (n := p * q) fun w =>
    if w.val % q = 0 then blockOfBytes (hPrime 1024 (h0 ++ le32 0 ++ le32 (w.val / q)))
    else if w.val % q = 1 then blockOfBytes (hPrime 1024 (h0 ++ le32 1 ++ le32 (w.val / q)))
    else zeroB

/-- §3.2 step 7: C = B[0][q−1] ⊕ B[1][q−1] ⊕ … ⊕ B[p−1][q−1]  (`mem` is lane-major: B[i][j] = mem[i·q + j]) -/
def finalBlock (mem : Array Block) (p q : Nat) : Block :=
  (List.range p).foldl (fun acc i => xorB acc (mem.getD (i * q + q - 1) zeroBlock)) (Array.replicate 128 0)

/-- the 1024 bytes of a block: its 128 words little-endian -/
def blockBytes (b : Block) : Bytes := (List.range 128).flatMap fun i => natToLE 8 (b.getD i 0).toNat

/-- §3.2 step 8: the tag H′^T(C) -/
def tag (mem : Array Block) (p q T : Nat) : Bytes := hPrime T (blockBytes (finalBlock mem p q))

end XC.C15.Rfc
