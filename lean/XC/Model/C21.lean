/-
  C21 — PKCS#12 decoding (pkcs12/bmp-string.go, pbkdf.go, mac.go, crypto.go, pkcs12.go).
  Model of the code as written:
    * bmpString / decodeBMPString over lists of code points (Go `range` over a string yields
      Unicode scalar values; utf16.EncodeRune / utf16.Decode are modelled from their definitions);
    * fillWithRepeats, the RFC 7292 App. B.2 KDF `pbkdf` with u = 20, v = 64 and SHA-1, with step 6.C
      on byte strings exactly as the code does it through math/big: SetBytes, Add, Add 1, Bytes()
      (minimal big-endian), keep the last v bytes if longer, left-pad with zeros if shorter;
    * verifyMac's decision and the empty-password retry of getSafeContents;
    * the tail of pbDecrypt: empty / block-size checks and the PKCS#7 padding check, over an
      abstract length-preserving CBC decryption (3DES and CBC are stdlib);
    * a DER reader just strong enough to find the MAC fields of an OpenSSL-produced PFX, so that the
      model decides right/wrong password from the file bytes.
  Core Lean only.
-/
import XC.Basic
import XC.Prim.Hmac
namespace XC.C21
open XC

/-! ## BMP strings -/

/-- utf16.EncodeRune returns a real surrogate pair exactly for 0x10000 ≤ r ≤ 0x10FFFF;
    for everything else it returns (U+FFFD, U+FFFD), which bmpString takes as "fits in UCS-2" -/
def needsSurrogates (r : Nat) : Bool := 0x10000 ≤ r && r ≤ 0x10FFFF

/-- bmpString: two bytes `byte(r/256), byte(r%256)` per rune, then the terminator 00 00;
    `none` = the error "string contains characters that cannot be encoded in UCS-2" -/
def bmpString (rs : List Nat) : Option Bytes :=
  if rs.any needsSurrogates then none
  else some (rs.flatMap (fun r => [UInt8.ofNat (r / 256), UInt8.ofNat (r % 256)]) ++ [0, 0])

/-- big-endian 16-bit units -/
def units16 : Bytes → List Nat
  | a :: b :: rest => (a.toNat * 256 + b.toNat) :: units16 rest
  | _ => []

/-- utf16.Decode: a high surrogate followed by a low surrogate is one rune, any other surrogate
    is U+FFFD, everything else is itself -/
def utf16Decode : List Nat → List Nat
  | [] => []
  | [a] => [if 0xd800 ≤ a ∧ a < 0xe000 then 0xfffd else a]
  | a :: b :: rest =>
    if a < 0xd800 ∨ 0xe000 ≤ a then a :: utf16Decode (b :: rest)
    else if a < 0xdc00 ∧ 0xdc00 ≤ b ∧ b < 0xe000 then
      ((a - 0xd800) * 0x400 + (b - 0xdc00) + 0x10000) :: utf16Decode rest
    else 0xfffd :: utf16Decode (b :: rest)

/-- strip one trailing 00 00 if present -/
def stripTerminator (bs : Bytes) : Bytes :=
  let l := bs.length
  if l ≥ 2 ∧ bs.drop (l - 2) = [0, 0] then bs.take (l - 2) else bs

/-- decodeBMPString: `none` = "odd-length BMP string" -/
def decodeBMPString (bs : Bytes) : Option (List Nat) :=
  if bs.length % 2 ≠ 0 then none
  else some (utf16Decode (units16 (stripTerminator bs)))

/-! ## fillWithRepeats -/

/-- bytes.Repeat(pattern, count)[:n] for count·|pattern| ≥ n -/
def repeatBytes (pattern : Bytes) : Nat → Bytes
  | 0 => []
  | k+1 => pattern ++ repeatBytes pattern k

/-- fillWithRepeats(pattern, v); v > 0 at every call site (v = 64) -/
def fillWithRepeats (pattern : Bytes) (v : Nat) : Bytes :=
  if pattern.length = 0 then []
  else
    let outputLen := v * ((pattern.length + v - 1) / v)
    (repeatBytes pattern ((outputLen + pattern.length - 1) / pattern.length)).take outputLen

/-! ## step 6.C through math/big -/

/-- big.Int.Bytes(): minimal big-endian magnitude (zero ↦ empty), built least significant first -/
def minimalLE (n : Nat) : Bytes :=
  if _h : n = 0 then [] else UInt8.ofNat (n % 256) :: minimalLE (n / 256)
termination_by n
decreasing_by omega

def bigBytes (n : Nat) : Bytes := (minimalLE n).reverse

/-- the length adjustment of the code: longer than v → keep the last v bytes; shorter → left-pad -/
def adjustLen (v : Nat) (ijb : Bytes) : Bytes :=
  let ijb := if ijb.length > v then ijb.drop (ijb.length - v) else ijb
  if ijb.length < v then zeros (v - ijb.length) ++ ijb else ijb

/-- I_j := (I_j + B + 1), as the code computes it on one v-byte block -/
def addBlockGo (v : Nat) (ij b : Bytes) : Bytes :=
  adjustLen v (bigBytes (natOfBE ij + natOfBE b + 1))

/-- the spec: I_j := (I_j + B + 1) mod 2^(8v), as a v-byte big-endian string -/
def addBlockSpec (v : Nat) (ij b : Bytes) : Bytes :=
  natToBE v ((natOfBE ij + natOfBE b + 1) % 256 ^ v)

/-- `for j := 0; j < len(I)/v; j++`: whole v-byte blocks are updated, a tail (never present: |I| is
    a multiple of v) would be left alone -/
def addAllGo (v : Nat) (b : Bytes) (i : Bytes) : Nat → Bytes
  | 0 => i
  | k+1 => addBlockGo v (i.take v) b ++ addAllGo v b (i.drop v) k

/-! ## pbkdf (u = 20, v = 64, SHA-1) -/

def hashIter (h : Bytes → Bytes) (x : Bytes) : Nat → Bytes
  | 0 => x
  | k+1 => hashIter h (h x) k

/-- `for len(B) < v { B = append(B, Ai...) }; B = B[:v]` (|Ai| = 20 > 0) -/
def makeB (ai : Bytes) (v : Nat) : Bytes := (repeatBytes ai ((v + 19) / 20)).take v

/-- the loop `for i := 0; i < c; i++`; `k` = iterations left; returns A (concatenated) -/
def pbkdfLoop (h : Bytes → Bytes) (v : Nat) (d : Bytes) (r : Nat) : Nat → Bytes → Bytes
  | 0, _ => []
  | k+1, i =>
    -- Ai = hash(D‖I); for j := 1; j < r; j++ { Ai = hash(Ai) }
    let ai := hashIter h (h (d ++ i)) (r - 1)
    if k = 0 then ai           -- last iteration: no update of I
    else
      let b := makeB ai v
      ai ++ pbkdfLoop h v d r k (addAllGo v b i (i.length / v))

/-- pbkdf(hash, u=20, v, salt, password, r, ID, size) -/
def pbkdfWith (h : Bytes → Bytes) (v : Nat) (salt password : Bytes) (r : Nat) (id : UInt8) (size : Nat) : Bytes :=
  let d := List.replicate v id
  let i := fillWithRepeats salt v ++ fillWithRepeats password v
  let c := (size + 20 - 1) / 20
  (pbkdfLoop h v d r c i).take size

def pbkdf (salt password : Bytes) (r : Nat) (id : UInt8) (size : Nat) : Bytes :=
  pbkdfWith Prim.sha1 64 salt password r id size

/-! ## verifyMac and the empty-password retry -/

inductive MacRes where
  | ok | incorrectPassword | notImplemented
deriving DecidableEq, Repr

def maxIterations : Int := 2 ^ 20

/-- verifyMac: `oidIsSha1` is the result of the OID comparison (encoding/asn1 parsed the OID) -/
def verifyMac (oidIsSha1 : Bool) (salt : Bytes) (iterations : Int) (digest message password : Bytes) : MacRes :=
  if !oidIsSha1 then .notImplemented
  else if iterations < 0 ∨ iterations > maxIterations then .notImplemented
  else
    let key := pbkdf salt password iterations.toNat 3 20
    if digest = Prim.hmacSha1 key message then .ok else .incorrectPassword

/-- getSafeContents: verify; on ErrIncorrectPassword with password = 00 00 retry with the empty
    password. Returns the verdict and the password used from then on. -/
def verifyWithRetry (oidIsSha1 : Bool) (salt : Bytes) (iterations : Int) (digest message password : Bytes) :
    MacRes × Bytes :=
  match verifyMac oidIsSha1 salt iterations digest message password with
  | .incorrectPassword =>
    if password = [0, 0] then (verifyMac oidIsSha1 salt iterations digest message [], [])
    else (.incorrectPassword, password)
  | r => (r, password)

/-! ## pbDecrypt: checks and PKCS#7 unpadding -/

inductive DecRes where
  | ok (plain : Bytes)
  | errEmpty          -- "empty encrypted data"
  | errBlockSize      -- "input is not a multiple of the block size"
  | errPadding        -- ErrDecryption
  | panic
deriving DecidableEq, Repr

/-- the padding check on the decrypted bytes: psLen = last byte; 0 or > blockSize → error;
    shorter than psLen → error; the last psLen bytes must all equal psLen -/
def unpad (blockSize : Nat) (dec : Bytes) : DecRes :=
  match dec.getLast? with
  | none => .panic                                   -- decrypted[len(decrypted)-1] on an empty slice
  | some last =>
    let psLen := last.toNat
    if psLen = 0 ∨ psLen > blockSize then .errPadding
    else if dec.length < psLen then .errPadding
    else
      let ps := dec.drop (dec.length - psLen)
      if ps = List.replicate psLen last then .ok (dec.take (dec.length - psLen)) else .errPadding

/-- pbDecrypt after the cipher has been set up: `decrypt` is CBC decryption (length-preserving) -/
def pbDecryptTail (blockSize : Nat) (decrypt : Bytes → Bytes) (encrypted : Bytes) : DecRes :=
  if encrypted.length = 0 then .errEmpty
  else if blockSize = 0 then .panic                  -- len(encrypted) % blockSize
  else if encrypted.length % blockSize ≠ 0 then .errBlockSize
  else unpad blockSize (decrypt encrypted)

/-! ## reading the MAC fields of a PFX (DER) -/

/-- one TLV: (tag, contents, rest). Single-octet tags only. Lengths: short form, or long form with
    1..4 length octets. -/
def tlv : Bytes → Option (UInt8 × Bytes × Bytes)
  | tag :: l :: rest =>
    -- high-tag-number form (low five bits all set): never written by OpenSSL here; encoding/asn1 reads
    -- further tag octets, which this reader does not follow
    if tag &&& 0x1f = 0x1f then none else
    if l < 0x80 then
      if rest.length < l.toNat then none else some (tag, rest.take l.toNat, rest.drop l.toNat)
    else
      let k := l.toNat - 0x80
      if k = 0 ∨ k > 4 ∨ rest.length < k then none else
      let len := natOfBE (rest.take k)
      let body := rest.drop k
      if body.length < len then none else some (tag, body.take len, body.drop len)
  | _ => none

/-- the TLVs of a constructed value's contents; `fuel` bounds the count -/
def tlvs : Nat → Bytes → Option (List (UInt8 × Bytes))
  | 0, bs => if bs.isEmpty then some [] else none
  | f+1, bs =>
    if bs.isEmpty then some [] else
    match tlv bs with
    | none => none
    | some (t, c, rest) => (tlvs f rest).map ((t, c) :: ·)

def children (bs : Bytes) : Option (List (UInt8 × Bytes)) := tlvs bs.length bs

structure PfxMac where
  version : Nat
  authSafeIsData : Bool
  content : Bytes        -- the OCTET STRING contents inside authSafe [0]
  oidIsSha1 : Bool
  digest : Bytes
  salt : Bytes
  iterations : Int
deriving Repr

def oidData : Bytes := [0x2a, 0x86, 0x48, 0x86, 0xf7, 0x0d, 0x01, 0x07, 0x01]
def oidSha1 : Bytes := [0x2b, 0x0e, 0x03, 0x02, 0x1a]

/-- two's-complement big-endian INTEGER contents -/
def derInt (bs : Bytes) : Int :=
  match bs with
  | [] => 0
  | b :: _ => if b ≥ 0x80 then (natOfBE bs : Int) - (256 ^ bs.length : Nat) else natOfBE bs

/-- PFX ::= SEQUENCE { version INTEGER, authSafe ContentInfo, macData MacData OPTIONAL }, for
    well-formed DER as OpenSSL writes it; `none` when the shape is different (then the model makes no
    prediction beyond "no panic") -/
def parsePfxMac (file : Bytes) : Option PfxMac := do
  let (t, body, rest) ← tlv file
  if t ≠ 0x30 ∨ !rest.isEmpty then none
  let cs ← children body
  match cs with
  | [(0x02, ver), (0x30, authSafe), (0x30, macData)] =>
    let as ← children authSafe
    let (ctype, wrapped) ← match as with
      | [(0x06, ctype), (0xa0, wrapped)] => some (ctype, wrapped)
      | _ => none
    -- the code unmarshals the [0] contents into an asn1.RawValue: ANY single-byte tag is taken (OpenSSL
    -- writes OCTET STRING)
    let (t2, content, rest2) ← tlv wrapped
    if !rest2.isEmpty then none
    let md ← children macData
    let (digestInfo, salt, iters) ← match md with
      | [(0x30, di), (0x04, salt)] => some (di, salt, (1 : Int))
      | [(0x30, di), (0x04, salt), (0x02, it)] => some (di, salt, derInt it)
      | _ => none
    let di ← children digestInfo
    let (alg, digest) ← match di with
      | [(0x30, alg), (0x04, digest)] => some (alg, digest)
      | _ => none
    let algc ← children alg
    let oid ← match algc with
      | (0x06, oid) :: _ => some oid
      | _ => none
    pure ⟨(derInt ver).toNat, ctype == oidData, content, oid == oidSha1, digest, salt, iters⟩
  | _ => none

inductive OpenRes where
  | macOk (password : Bytes)     -- MAC verified; the password used for the bags
  | incorrectPassword
  | notImplemented               -- a NotImplementedError: version, content type, digest algorithm, iteration count
  | other                        -- a different error
deriving DecidableEq, Repr

/-- Decode/ToPEM up to and including the MAC check, for password runes `rs`;
    `none` = the password is not UCS-2 encodable or the reader does not know the file's shape -/
def openPfx (file : Bytes) (rs : List Nat) : Option OpenRes :=
  match bmpString rs, parsePfxMac file with
  | some pw, some m =>
    if m.version ≠ 3 ∨ !m.authSafeIsData then some .notImplemented else
    match verifyWithRetry m.oidIsSha1 m.salt m.iterations m.digest m.content pw with
    | (.ok, pw') => some (.macOk pw')
    | (.incorrectPassword, _) => some .incorrectPassword
    | (.notImplemented, _) => some .notImplemented
  | _, _ => none

end XC.C21
