/-
  C03_Block — the pure RFC 8439 ChaCha20 block function, HChaCha20 (draft-irtf-cfrg-xchacha §2.2)
  and the keystream.  Core Lean only; written from the RFC, not from the Go code
  (the Go-shaped block function with the cached first round lives in Model/C03.lean and is
  proved equal to this one in Props/C03.lean).

  Stable API (imported by C01/C02 and others):
    XC.C03.block     (key : Bytes) (counter : UInt32) (nonce : Bytes) : Bytes   -- 64 bytes; key 32, nonce 12
    XC.C03.hchacha20 (key nonce16 : Bytes) : Bytes                              -- 32 bytes
    XC.C03.keystream (key nonce : Bytes) (counter : UInt32) (n : Nat) : Bytes   -- n bytes from block `counter` on
    XC.C03.xorStream (key nonce : Bytes) (counter : UInt32) (src : Bytes) : Bytes
    XC.C03.xkey / xnonce : the XChaCha20 sub-key and 12-byte nonce of a 24-byte nonce
  Short keys / nonces are read as if zero-padded (callers check lengths; `le32` of a short list
  is the little-endian value of what is there).
-/
import XC.Basic
namespace XC.C03

/-- the 16-word ChaCha state, named as in RFC 8439 §2.3 (row-major 4×4 matrix) -/
structure St where
  x0 : UInt32
  x1 : UInt32
  x2 : UInt32
  x3 : UInt32
  x4 : UInt32
  x5 : UInt32
  x6 : UInt32
  x7 : UInt32
  x8 : UInt32
  x9 : UInt32
  x10 : UInt32
  x11 : UInt32
  x12 : UInt32
  x13 : UInt32
  x14 : UInt32
  x15 : UInt32
deriving DecidableEq, Repr

@[inline] def rotl (x : UInt32) (n : UInt32) : UInt32 := (x <<< n) ||| (x >>> (32 - n))

/-- RFC 8439 §2.1 quarter round -/
@[inline] def qr (a b c d : UInt32) : UInt32 × UInt32 × UInt32 × UInt32 :=
  let a := a + b
  let d := rotl (d ^^^ a) 16
  let c := c + d
  let b := rotl (b ^^^ c) 12
  let a := a + b
  let d := rotl (d ^^^ a) 8
  let c := c + d
  let b := rotl (b ^^^ c) 7
  (a, b, c, d)

/-- RFC 8439 §2.3: QUARTERROUND on (0,4,8,12) (1,5,9,13) (2,6,10,14) (3,7,11,15) -/
def colRound (s : St) : St :=
  let (x0, x4, x8, x12) := qr s.x0 s.x4 s.x8 s.x12
  let (x1, x5, x9, x13) := qr s.x1 s.x5 s.x9 s.x13
  let (x2, x6, x10, x14) := qr s.x2 s.x6 s.x10 s.x14
  let (x3, x7, x11, x15) := qr s.x3 s.x7 s.x11 s.x15
  ⟨x0, x1, x2, x3, x4, x5, x6, x7, x8, x9, x10, x11, x12, x13, x14, x15⟩

/-- RFC 8439 §2.3: QUARTERROUND on (0,5,10,15) (1,6,11,12) (2,7,8,13) (3,4,9,14) -/
def diagRound (s : St) : St :=
  let (x0, x5, x10, x15) := qr s.x0 s.x5 s.x10 s.x15
  let (x1, x6, x11, x12) := qr s.x1 s.x6 s.x11 s.x12
  let (x2, x7, x8, x13) := qr s.x2 s.x7 s.x8 s.x13
  let (x3, x4, x9, x14) := qr s.x3 s.x4 s.x9 s.x14
  ⟨x0, x1, x2, x3, x4, x5, x6, x7, x8, x9, x10, x11, x12, x13, x14, x15⟩

def doubleRound (s : St) : St := diagRound (colRound s)

def iter {α : Type} (f : α → α) : Nat → α → α
  | 0, x => x
  | n+1, x => iter f n (f x)

/-- 20 rounds = 10 double rounds -/
def rounds20 (s : St) : St := iter doubleRound 10 s

def St.add (a b : St) : St :=
  ⟨a.x0 + b.x0, a.x1 + b.x1, a.x2 + b.x2, a.x3 + b.x3, a.x4 + b.x4, a.x5 + b.x5, a.x6 + b.x6, a.x7 + b.x7,
   a.x8 + b.x8, a.x9 + b.x9, a.x10 + b.x10, a.x11 + b.x11, a.x12 + b.x12, a.x13 + b.x13, a.x14 + b.x14, a.x15 + b.x15⟩

/-- little-endian bytes of one word (byte extraction by shifts, as a machine does it) -/
@[inline] def w2b (w : UInt32) : Bytes :=
  [w.toUInt8, (w >>> 8).toUInt8, (w >>> 16).toUInt8, (w >>> 24).toUInt8]

def St.serialize (s : St) : Bytes :=
  w2b s.x0 ++ w2b s.x1 ++ w2b s.x2 ++ w2b s.x3 ++ w2b s.x4 ++ w2b s.x5 ++ w2b s.x6 ++ w2b s.x7 ++
  w2b s.x8 ++ w2b s.x9 ++ w2b s.x10 ++ w2b s.x11 ++ w2b s.x12 ++ w2b s.x13 ++ w2b s.x14 ++ w2b s.x15

/-- little-endian word at byte offset `i` (missing bytes read as 0) -/
@[inline] def wordAt (bs : Bytes) (i : Nat) : UInt32 :=
  (bs.getD i 0).toUInt32 ||| ((bs.getD (i+1) 0).toUInt32 <<< 8) |||
  ((bs.getD (i+2) 0).toUInt32 <<< 16) ||| ((bs.getD (i+3) 0).toUInt32 <<< 24)

/-- the eight key words -/
structure KeyW where
  k0 : UInt32
  k1 : UInt32
  k2 : UInt32
  k3 : UInt32
  k4 : UInt32
  k5 : UInt32
  k6 : UInt32
  k7 : UInt32
deriving DecidableEq, Repr

/-- the three nonce words -/
structure NonceW where
  n0 : UInt32
  n1 : UInt32
  n2 : UInt32
deriving DecidableEq, Repr

def keyWords (key : Bytes) : KeyW :=
  ⟨wordAt key 0, wordAt key 4, wordAt key 8, wordAt key 12, wordAt key 16, wordAt key 20, wordAt key 24, wordAt key 28⟩

def nonceWords (nonce : Bytes) : NonceW :=
  ⟨wordAt nonce 0, wordAt nonce 4, wordAt nonce 8⟩

def c0 : UInt32 := 0x61707865
def c1 : UInt32 := 0x3320646e
def c2 : UInt32 := 0x79622d32
def c3 : UInt32 := 0x6b206574

/-- RFC 8439 §2.3 initial state: constants, key, block counter, nonce -/
def initSt (k : KeyW) (counter : UInt32) (n : NonceW) : St :=
  ⟨c0, c1, c2, c3, k.k0, k.k1, k.k2, k.k3, k.k4, k.k5, k.k6, k.k7, counter, n.n0, n.n1, n.n2⟩

/-- RFC 8439 §2.3 block function on words -/
def blockW (k : KeyW) (counter : UInt32) (n : NonceW) : Bytes :=
  let s := initSt k counter n
  ((rounds20 s).add s).serialize

/-- RFC 8439 §2.3 `chacha20_block(key, counter, nonce)` -/
def block (key : Bytes) (counter : UInt32) (nonce : Bytes) : Bytes :=
  blockW (keyWords key) counter (nonceWords nonce)

/-- HChaCha20 (draft-irtf-cfrg-xchacha-03 §2.2): 20 rounds on (constants, key, 16-byte nonce),
    no feed-forward, output words 0..3 and 12..15 -/
def hchacha20 (key nonce16 : Bytes) : Bytes :=
  let k := keyWords key
  let s : St := ⟨c0, c1, c2, c3, k.k0, k.k1, k.k2, k.k3, k.k4, k.k5, k.k6, k.k7,
                 wordAt nonce16 0, wordAt nonce16 4, wordAt nonce16 8, wordAt nonce16 12⟩
  let r := rounds20 s
  w2b r.x0 ++ w2b r.x1 ++ w2b r.x2 ++ w2b r.x3 ++ w2b r.x12 ++ w2b r.x13 ++ w2b r.x14 ++ w2b r.x15

/-- `nblocks` consecutive blocks starting at `counter` (the 32-bit counter wraps; RFC 8439 leaves
    behaviour past block 2^32-1 undefined — users of this function stay below it or model the wrap) -/
def blocksW (k : KeyW) (n : NonceW) : UInt32 → Nat → Bytes
  | _, 0 => []
  | c, m+1 => blockW k c n ++ blocksW k n (c + 1) m

/-- first `n` bytes of the keystream that starts with block `counter` -/
def keystream (key nonce : Bytes) (counter : UInt32) (n : Nat) : Bytes :=
  (blocksW (keyWords key) (nonceWords nonce) counter ((n + 63) / 64)).take n

/-- RFC 8439 §2.4 encryption: `src` xor keystream -/
def xorStream (key nonce : Bytes) (counter : UInt32) (src : Bytes) : Bytes :=
  xorBytes src (keystream key nonce counter src.length)

/-- XChaCha20 (draft §2.3): sub-key = HChaCha20(key, nonce[0:16]) -/
def xkey (key nonce24 : Bytes) : Bytes := hchacha20 key (nonce24.take 16)
/-- XChaCha20 (draft §2.3): ChaCha20 nonce = 0⁴ ‖ nonce[16:24] -/
def xnonce (nonce24 : Bytes) : Bytes := zeros 4 ++ (nonce24.drop 16).take 8

end XC.C03
