/-
  C25_Aes — AES-128/192/256 block encryption and decryption written from FIPS-197 (S-box computed
  from its definition: multiplicative inverse in GF(2^8) followed by the affine map), CTR keystream.
  Stand-in for Go's crypto/aes + cipher.NewCTR (stdlib, not repo code); it is validated against the
  stdlib on every run through the `prim` ops of the C25 harness and through every AES-based packet.
-/
import XC.Basic
namespace XC.C25.Aes

@[inline] def xtime (b : UInt8) : UInt8 := if b &&& 0x80 != 0 then (b <<< 1) ^^^ 0x1b else b <<< 1

def gmulGo : Nat → UInt8 → UInt8 → UInt8 → UInt8
  | 0, _, _, acc => acc
  | i+1, a, b, acc => gmulGo i (xtime a) (b >>> 1) (if b &&& 1 != 0 then acc ^^^ a else acc)

/-- multiplication in GF(2^8) modulo x^8+x^4+x^3+x+1 -/
def gmul (a b : UInt8) : UInt8 := gmulGo 8 a b 0

/-- a^254 = a^(-1) (0 ↦ 0) -/
def ginv (a : UInt8) : UInt8 :=
  let a2 := gmul a a
  let a4 := gmul a2 a2
  let a8 := gmul a4 a4
  let a16 := gmul a8 a8
  let a32 := gmul a16 a16
  let a64 := gmul a32 a32
  let a128 := gmul a64 a64
  gmul a2 (gmul a4 (gmul a8 (gmul a16 (gmul a32 (gmul a64 a128)))))

@[inline] def rotl8 (x : UInt8) (n : UInt8) : UInt8 := (x <<< n) ||| (x >>> (8 - n))

/-- FIPS-197 §5.1.1 -/
def sboxOf (x : UInt8) : UInt8 :=
  let b := ginv x
  b ^^^ rotl8 b 1 ^^^ rotl8 b 2 ^^^ rotl8 b 3 ^^^ rotl8 b 4 ^^^ 0x63

def sbox : Array UInt8 := (Array.range 256).map (fun i => sboxOf (UInt8.ofNat i))

def invSbox : Array UInt8 :=
  (List.range 256).foldl (fun acc i => acc.setIfInBounds (sbox.getD i 0).toNat (UInt8.ofNat i)) (Array.replicate 256 0)

@[inline] def sb (b : UInt8) : UInt8 := sbox.getD b.toNat 0
@[inline] def isb (b : UInt8) : UInt8 := invSbox.getD b.toNat 0

def rcon : Array UInt8 := #[0x01, 0x02, 0x04, 0x08, 0x10, 0x20, 0x40, 0x80, 0x1b, 0x36]

/-- FIPS-197 §5.2 key expansion; the schedule as bytes, word `i` at offset `4i` -/
def expandGo (nk total : Nat) : Nat → Nat → Array UInt8 → Array UInt8
  | 0, _, w => w
  | fuel+1, i, w =>
    if i ≥ total then w else
    let t0 := w.getD (4*(i-1)) 0
    let t1 := w.getD (4*(i-1)+1) 0
    let t2 := w.getD (4*(i-1)+2) 0
    let t3 := w.getD (4*(i-1)+3) 0
    let (t0, t1, t2, t3) :=
      if i % nk == 0 then (sb t1 ^^^ rcon.getD (i / nk - 1) 0, sb t2, sb t3, sb t0)
      else if nk > 6 && i % nk == 4 then (sb t0, sb t1, sb t2, sb t3)
      else (t0, t1, t2, t3)
    let w := w.push (w.getD (4*(i-nk)) 0 ^^^ t0)
    let w := w.push (w.getD (4*(i-nk)+1) 0 ^^^ t1)
    let w := w.push (w.getD (4*(i-nk)+2) 0 ^^^ t2)
    let w := w.push (w.getD (4*(i-nk)+3) 0 ^^^ t3)
    expandGo nk total fuel (i+1) w

structure Key where
  nr : Nat
  rk : Array UInt8

def expandKey (key : Bytes) : Key :=
  let nk := key.length / 4
  let nr := nk + 6
  ⟨nr, expandGo nk (4*(nr+1)) (4*(nr+1)) nk key.toArray⟩

@[inline] def addRoundKey (k : Key) (round : Nat) (s : Array UInt8) : Array UInt8 :=
  Array.ofFn (n := 16) fun i => s.getD i.val 0 ^^^ k.rk.getD (16*round + i.val) 0

@[inline] def subShift (s : Array UInt8) : Array UInt8 :=
  Array.ofFn (n := 16) fun i =>
    let r := i.val % 4
    let c := i.val / 4
    sb (s.getD (r + 4*((c + r) % 4)) 0)

@[inline] def invShiftSub (s : Array UInt8) : Array UInt8 :=
  Array.ofFn (n := 16) fun i =>
    let r := i.val % 4
    let c := i.val / 4
    isb (s.getD (r + 4*((c + 4 - r) % 4)) 0)

@[inline] def mixColumns (s : Array UInt8) : Array UInt8 :=
  Array.ofFn (n := 16) fun i =>
    let r := i.val % 4
    let c := 4 * (i.val / 4)
    let a0 := s.getD (c + r) 0
    let a1 := s.getD (c + (r+1) % 4) 0
    let a2 := s.getD (c + (r+2) % 4) 0
    let a3 := s.getD (c + (r+3) % 4) 0
    -- 2·a_r + 3·a_{r+1} + a_{r+2} + a_{r+3}
    xtime a0 ^^^ (xtime a1 ^^^ a1) ^^^ a2 ^^^ a3

@[inline] def invMixColumns (s : Array UInt8) : Array UInt8 :=
  Array.ofFn (n := 16) fun i =>
    let r := i.val % 4
    let c := 4 * (i.val / 4)
    let a0 := s.getD (c + r) 0
    let a1 := s.getD (c + (r+1) % 4) 0
    let a2 := s.getD (c + (r+2) % 4) 0
    let a3 := s.getD (c + (r+3) % 4) 0
    -- 14·a_r + 11·a_{r+1} + 13·a_{r+2} + 9·a_{r+3}
    gmul a0 14 ^^^ gmul a1 11 ^^^ gmul a2 13 ^^^ gmul a3 9

def encRounds (k : Key) : Nat → Nat → Array UInt8 → Array UInt8
  | 0, _, s => s
  | fuel+1, round, s =>
    if round ≥ k.nr then s else
    encRounds k fuel (round+1) (addRoundKey k round (mixColumns (subShift s)))

/-- FIPS-197 §5.1 Cipher -/
def encryptArr (k : Key) (inp : Array UInt8) : Array UInt8 :=
  let s := addRoundKey k 0 inp
  let s := encRounds k k.nr 1 s
  addRoundKey k k.nr (subShift s)

def decRounds (k : Key) : Nat → Array UInt8 → Array UInt8
  | 0, s => s
  | round+1, s =>
    decRounds k round (invMixColumns (addRoundKey k (round+1) (invShiftSub s)))

/-- FIPS-197 §5.3 InvCipher -/
def decryptArr (k : Key) (inp : Array UInt8) : Array UInt8 :=
  let s := addRoundKey k k.nr inp
  let s := decRounds k (k.nr - 1) s
  addRoundKey k 0 (invShiftSub s)

def encryptBlock (k : Key) (b : Bytes) : Bytes := (encryptArr k b.toArray).toList
def decryptBlock (k : Key) (b : Bytes) : Bytes := (decryptArr k b.toArray).toList

/-- CTR mode keystream (NIST SP 800-38A §6.5 as used by RFC 4344: the IV is a 128-bit big-endian
    counter, incremented by one per block): `n` bytes -/
def ctrGo (k : Key) : Nat → Nat → Array UInt8 → Array UInt8
  | 0, _, acc => acc
  | blocks+1, ctr, acc =>
    ctrGo k blocks ((ctr + 1) % 340282366920938463463374607431768211456)
      (acc ++ encryptArr k (natToBE 16 ctr).toArray)

def ctrKeystream (k : Key) (iv : Bytes) (n : Nat) : Array UInt8 :=
  (ctrGo k ((n + 15) / 16) (natOfBE iv) (Array.mkEmpty n)).extract 0 n

end XC.C25.Aes
