/-
  C32 / C33 — SSH server user authentication (ssh/server.go: serverAuthenticate, plus the
  MaxAuthTries / PublicKeyAuthAlgorithms defaulting of NewServerConn, pubKeyCache,
  checkSourceAddress, isAlgoCompatible, ssh/common.go: algorithmsForKeyFormat, ssh/certs.go:
  underlyingAlgo).

  The model is the auth loop as written: one `step` per SSH_MSG_USERAUTH_REQUEST read from the
  transport, the two disconnect guards at the loop head, and the state the Go function keeps in
  local variables (authFailures, authAttempts, noneAuthCount, partialSuccessReturned, authConfig,
  the size-1 public key cache, s.user, calledBannerCallback).

  Not modelled (supplied per request as ORACLE fields by the harness, computed with the stdlib and
  independent of the code under test): whether a key blob parses and its type, whether the
  signature verifies over the RFC 4252 §7 signed data, the per-entry result of matching the
  remote address against a source-address list.  Callbacks are scripted: every request carries the
  outcome its method's callback returns if it is invoked on that request.
-/
import XC.Basic
namespace XC.C32

/-! ## algorithm name tables (ssh/common.go, ssh/certs.go) -/

/-- `certKeyAlgoNames` -/
def certKeyAlgoNames : List (String × String) :=
  [ ("ssh-rsa-cert-v01@openssh.com", "ssh-rsa"),
    ("rsa-sha2-256-cert-v01@openssh.com", "rsa-sha2-256"),
    ("rsa-sha2-512-cert-v01@openssh.com", "rsa-sha2-512"),
    ("ssh-dss-cert-v01@openssh.com", "ssh-dss"),
    ("ecdsa-sha2-nistp256-cert-v01@openssh.com", "ecdsa-sha2-nistp256"),
    ("ecdsa-sha2-nistp384-cert-v01@openssh.com", "ecdsa-sha2-nistp384"),
    ("ecdsa-sha2-nistp521-cert-v01@openssh.com", "ecdsa-sha2-nistp521"),
    ("sk-ecdsa-sha2-nistp256-cert-v01@openssh.com", "sk-ecdsa-sha2-nistp256@openssh.com"),
    ("ssh-ed25519-cert-v01@openssh.com", "ssh-ed25519"),
    ("sk-ssh-ed25519-cert-v01@openssh.com", "sk-ssh-ed25519@openssh.com") ]

def underlyingAlgo (algo : String) : String :=
  match certKeyAlgoNames.lookup algo with
  | some a => a
  | none => algo

def algorithmsForKeyFormat (keyFormat : String) : List String :=
  if keyFormat == "ssh-rsa" then ["rsa-sha2-256", "rsa-sha2-512", "ssh-rsa"]
  else if keyFormat == "ssh-rsa-cert-v01@openssh.com" then
    ["rsa-sha2-256-cert-v01@openssh.com", "rsa-sha2-512-cert-v01@openssh.com", "ssh-rsa-cert-v01@openssh.com"]
  else [keyFormat]

def isRSA (algo : String) : Bool :=
  (algorithmsForKeyFormat "ssh-rsa").contains (underlyingAlgo algo)

def isAlgoCompatible (algo sigFormat : String) : Bool :=
  if isRSA algo && isRSA sigFormat then true else underlyingAlgo algo == sigFormat

/-- `defaultPubKeyAuthAlgos` (non-FIPS build) -/
def defaultPubKeyAuthAlgos : List String :=
  [ "ssh-ed25519", "sk-ssh-ed25519@openssh.com", "sk-ecdsa-sha2-nistp256@openssh.com",
    "ecdsa-sha2-nistp256", "ecdsa-sha2-nistp384", "ecdsa-sha2-nistp521",
    "rsa-sha2-256", "rsa-sha2-512", "ssh-rsa", "ssh-dss" ]

/-! ## configuration, scripted outcomes -/

/-- which fields of a `ServerAuthCallbacks` are non-nil -/
structure Cbs where
  pw : Bool
  pk : Bool
  kbd : Bool
  /-- GSSAPIWithMICConfig with both AllowLogin and Server set -/
  gss : Bool := false
deriving DecidableEq, Repr, Inhabited

/-- what a scripted callback returns.  Permissions are named by an id; id 0 is the nil pointer. -/
inductive Outcome where
  | accept (perms : Nat)                 -- (perms, nil)
  | reject                               -- (nil, errors.New(..))
  | banner (nonEmpty : Bool)             -- (nil, &BannerError{Err: e, Message: "" | "m"})
  | partialOk (next : Cbs) (perms : Nat) -- (perms, &PartialSuccessError{Next: next})
deriving DecidableEq, Repr, Inhabited

/-- per-entry oracle for `checkSourceAddress`: what the stdlib says about one comma-separated
    entry of the option value against the remote TCP address -/
inductive SAEntry where
  | ipEq    -- ParseIP ok, Equal
  | ipNe    -- ParseIP ok, not Equal
  | cidrIn  -- ParseIP nil, ParseCIDR ok, Contains
  | cidrOut -- ParseIP nil, ParseCIDR ok, not Contains
  | bad     -- neither parses
deriving DecidableEq, Repr, Inhabited

structure Perm where
  /-- `CriticalOptions["source-address"]` if present: the entries of `strings.Split(v, ",")` -/
  sa : Option (List SAEntry)
  /-- `Extensions["no-touch-required"]` present -/
  noTouch : Bool
deriving DecidableEq, Repr, Inhabited

inductive AddrKind where
  | nil | nonTcp | tcp
deriving DecidableEq, Repr, Inhabited

structure Cfg where
  /-- `ServerConfig.MaxAuthTries` as given by the application (NewServerConn maps 0 to 6) -/
  maxAuthTries : Int
  noClientAuth : Bool
  noClientAuthCb : Bool
  cbs : Cbs
  verifiedCb : Bool
  /-- BannerCallback: none = nil, some b = set, returning "" (b = false) or a message -/
  bannerCb : Option Bool
  /-- `PublicKeyAuthAlgorithms` as given ([] = unspecified) -/
  pkAlgos : List String
  addr : AddrKind
  perms : List (Nat × Perm)
deriving Repr, Inhabited

def Cfg.maxTries (c : Cfg) : Int := if c.maxAuthTries == 0 then 6 else c.maxAuthTries
def Cfg.algos (c : Cfg) : List String := if c.pkAlgos.isEmpty then defaultPubKeyAuthAlgos else c.pkAlgos
/-- nil pointer and unknown ids carry no options -/
def Cfg.perm (c : Cfg) (id : Nat) : Perm :=
  if id == 0 then ⟨none, false⟩ else (c.perms.lookup id).getD ⟨none, false⟩

/-- `checkSourceAddress` over the oracle: walk the entries in order; a match returns nil, an
    unparsable entry returns an error at once, the end of the list is an error. -/
def matchEntries : List SAEntry → Bool
  | [] => false
  | .ipEq :: _ => true
  | .cidrIn :: _ => true
  | .bad :: _ => false
  | _ :: rest => matchEntries rest

def checkSourceAddress (a : AddrKind) (es : List SAEntry) : Bool :=
  match a with
  | .nil => false
  | .nonTcp => false
  | .tcp => matchEntries es

/-- `checkSourceAddressCriticalOption(s.RemoteAddr(), perms) == nil` -/
def Cfg.saOk (c : Cfg) (id : Nat) : Bool :=
  match (c.perm id).sa with
  | none => true
  | some es => checkSourceAddress c.addr es

/-! ## requests -/

inductive PwShape where
  | ok      -- 00 || string(password)
  | bad     -- empty payload, first byte ≠ 0, truncated string, or trailing bytes
deriving DecidableEq, Repr, Inhabited

structure PkReq where
  payloadEmpty : Bool := false
  isQuery : Bool := false
  algoOk : Bool := true       -- parseString(algo) ok
  algo : String := ""
  keyOk : Bool := true        -- parseString(pubKeyData) ok
  key : Nat := 0              -- names the key blob bytes (equal ids = equal bytes)
  keyParses : Bool := false   -- ORACLE: ParsePublicKey succeeds
  keyType : String := ""      -- ORACLE: pubKey.Type()
  certNoTouch : Bool := false -- ORACLE: key is a certificate with the no-touch-required extension
  trailing : Bool := false    -- query: bytes after the key blob
  sigParses : Bool := true    -- parseSignature ok and nothing after it
  sigFormat : String := ""
  sigValid : Bool := false    -- ORACLE: Verify(signedData, sig) = nil with user presence required
  sigValidNT : Bool := false  -- ORACLE: same with the user-presence requirement waived (SK keys)
deriving DecidableEq, Repr, Inhabited

/-- a packet that follows a USERAUTH_REQUEST in the client's stream and is meant for the exchange that
    request starts (keyboard-interactive answers, GSS-API tokens and MIC).  Message numbers overlap:
    INFO_RESPONSE and GSSAPI_TOKEN are both 61, so each kind is also read in the other context. -/
inductive Follow where
  | infoResp (n : Nat)   -- well-formed USERAUTH_INFO_RESPONSE with n (non-empty) answers
  | infoRespBad          -- type 61, answer count and data inconsistent
  | gssToken             -- USERAUTH_GSSAPI_TOKEN with an 8-byte token
  | gssMic               -- USERAUTH_GSSAPI_MIC
  | other                -- a message of another type (here: SSH_MSG_UNIMPLEMENTED)
deriving DecidableEq, Repr, Inhabited

/-- what `parseGSSAPIPayload` and the OID scan make of the request payload -/
inductive GssPayload where
  | malformed   -- count / string / DER errors, trailing bytes
  | n0          -- zero mechanisms
  | noKrb       -- mechanisms, none of them Kerberos V5
  | krb         -- Kerberos V5 is among the mechanisms
deriving DecidableEq, Repr, Inhabited

/-- one scripted `GSSAPIServer.AcceptSecContext` result -/
structure GssStep where
  err : Bool        -- returns an error
  out : Bool        -- a non-empty output token
  cont : Bool       -- needContinue
deriving DecidableEq, Repr, Inhabited

structure GssReq where
  payload : GssPayload := .krb
  steps : List GssStep := []
  /-- ORACLE: `VerifyMIC(buildMIC(sessionID, user, service, method), MIC)` succeeds -/
  micOk : Bool := false
deriving DecidableEq, Repr, Inhabited

structure Req where
  user : String
  service : String
  method : String
  pwShape : PwShape := .ok
  password : String := ""
  pk : PkReq := {}
  /-- keyboard-interactive: the numbers of questions of the Challenge calls the callback makes, in
      order (it stops and rejects at the first Challenge that returns an error) -/
  kbdRounds : List Nat := []
  gss : GssReq := {}
  /-- the packets that follow this request before the next USERAUTH_REQUEST -/
  follow : List Follow := []
  /-- outcome of the method's own callback (NoClientAuthCallback / PasswordCallback /
      KeyboardInteractiveCallback (after its Challenge rounds) / PublicKeyCallback /
      GSSAPIWithMICConfig.AllowLogin) if it is invoked on this request -/
  cb : Outcome := .reject
  /-- outcome of VerifiedPublicKeyCallback if it is invoked on this request -/
  vcb : Outcome := .reject
deriving DecidableEq, Repr, Inhabited

/-- what `readPacket` + `Unmarshal` yield at one loop iteration -/
inductive Read where
  | eof | ioErr | malformed
  | req (r : Req)
deriving DecidableEq, Repr, Inhabited

/-! ## state, events -/

/-- the error value a request ends with (`authErr`) -/
inductive AuthErr where
  | ok                        -- nil
  | fail                      -- any plain error
  | bannerFail (nonEmpty : Bool)
  | partialOk (next : Cbs) (gen : Nat)
deriving DecidableEq, Repr, Inhabited

structure Cached where
  user : String
  key : Nat
  result : AuthErr
  perms : Nat
deriving DecidableEq, Repr, Inhabited

structure St where
  failures : Nat := 0
  attempts : Nat := 0
  noneCount : Nat := 0
  partialRet : Bool := false
  cbs : Cbs
  /-- which callback set is active: 0 = the ServerConfig's, n = the `Next` returned by the
      callback invoked on request number n -/
  gen : Nat := 0
  cache : Option Cached := none
  user : String := ""
  bannerCalled : Bool := false
deriving DecidableEq, Repr, Inhabited

inductive LogRes where
  | ok | partialOk | fail
deriving DecidableEq, Repr, Inhabited

inductive Ev where
  | sendFailure (methods : List String) (partialOk : Bool)
  | sendPkOk (algo : String) (key : Nat)
  | sendBanner
  | sendSuccess
  | sendDisconnect
  | cbBanner (user : String)
  | cbNone (user : String) (out : Outcome)
  | cbPw (gen : Nat) (user : String) (pw : String) (out : Outcome)
  | cbKbd (gen : Nat) (user : String) (out : Outcome)
  | cbPk (gen : Nat) (user : String) (key : Nat) (out : Outcome)
  | cbVpk (user : String) (key : Nat) (permsIn : Nat) (sigFormat : String) (out : Outcome)
  | sendInfoReq (questions : Nat)            -- USERAUTH_INFO_REQUEST written by Challenge
  | sendGssResponse                          -- USERAUTH_GSSAPI_RESPONSE (Kerberos V5 OID)
  | sendGssToken                             -- USERAUTH_GSSAPI_TOKEN (AcceptSecContext output)
  | gssAccept                                -- GSSAPIServer.AcceptSecContext called
  | gssVerifyMic                             -- GSSAPIServer.VerifyMIC called
  | gssDelete                                -- GSSAPIServer.DeleteSecContext called
  | cbGssAllow (gen : Nat) (user : String) (out : Outcome)   -- GSSAPIWithMICConfig.AllowLogin
  | log (method : String) (res : LogRes)
deriving DecidableEq, Repr, Inhabited

inductive Final where
  | ok (perms : Nat)
  | authErr      -- *ServerAuthError
  | err          -- any other error
deriving DecidableEq, Repr, Inhabited

/-- result of the method switch of one iteration -/
inductive Phase where
  | hard (evs : List Ev)                                   -- `return nil, err`
  | again (st : St) (evs : List Ev)                        -- `continue userAuthLoop` (PK_OK sent)
  | res (st : St) (evs : List Ev) (perms : Nat) (e : AuthErr)

inductive Res where
  | done (evs : List Ev) (f : Final)
  | cont (st : St) (evs : List Ev)

/-- (perms, authErr) returned by a scripted callback invoked on request number `n` -/
def Outcome.split (o : Outcome) (n : Nat) : Nat × AuthErr :=
  match o with
  | .accept p => (p, .ok)
  | .reject => (0, .fail)
  | .banner b => (0, .bannerFail b)
  | .partialOk next p => (p, .partialOk next n)

def AuthErr.isPartial : AuthErr → Bool
  | .partialOk _ _ => true
  | _ => false

def AuthErr.okOrPartial : AuthErr → Bool
  | .ok => true
  | .partialOk _ _ => true
  | _ => false

def cacheGet (c : Option Cached) (user : String) (key : Nat) : Option Cached :=
  match c with
  | some k => if k.user == user && k.key == key then some k else none
  | none => none

/-- cache lookup, else PublicKeyCallback + source-address check + cache.add.
    `none` = the "PublicKeyCallback must not return partial success when VerifiedPublicKeyCallback
    is defined" error. -/
def pkLookup (cfg : Cfg) (st : St) (r : Req) : Option (Cached × St × List Ev) :=
  match cacheGet st.cache st.user r.pk.key with
  | some c => some (c, st, [])
  | none =>
    let pr := r.cb.split st.attempts
    if pr.2.isPartial && cfg.verifiedCb then none else
    let result := if pr.2.okOrPartial && !cfg.saOk pr.1 then AuthErr.fail else pr.2
    let c : Cached := ⟨st.user, r.pk.key, result, pr.1⟩
    some (c, { st with cache := some c }, [Ev.cbPk st.gen st.user r.pk.key r.cb])

/-- `noTouchAllowed(pubKey, candidate.perms)` selects which Verify applies -/
def sigOk (cfg : Cfg) (p : PkReq) (candPerms : Nat) : Bool :=
  if (cfg.perm candPerms).noTouch || p.certNoTouch then p.sigValidNT else p.sigValid

/-- the part of `case "publickey"` after the candidate is known -/
def pkDecide (cfg : Cfg) (st : St) (r : Req) (cand : Cached) (evs : List Ev) : Phase :=
  let p := r.pk
  if p.isQuery then
    if p.trailing then .hard evs else
    if cand.result.okOrPartial then .again st (evs ++ [Ev.sendPkOk p.algo p.key])
    else .res st evs 0 cand.result
  else
    if !p.sigParses then .hard evs else
    if !(algorithmsForKeyFormat p.keyType).contains p.algo then .res st evs 0 .fail else
    if !cfg.algos.contains p.sigFormat then .res st evs 0 .fail else
    if !isAlgoCompatible p.algo p.sigFormat then .res st evs 0 .fail else
    if !sigOk cfg p cand.perms then .hard evs else
    if cand.result == .ok && cfg.verifiedCb then
      .res st (evs ++ [Ev.cbVpk st.user p.key cand.perms p.sigFormat r.vcb])
        (r.vcb.split st.attempts).1 (r.vcb.split st.attempts).2
    else .res st evs cand.perms cand.result

/-- the checks of `case "publickey"` that come before the cache lookup;
    `none` = go on, `some ph` = leave the switch with `ph` -/
def pkPre (cfg : Cfg) (st : St) (r : Req) : Option Phase :=
  let p := r.pk
  if !st.cbs.pk then some (.res st [] 0 .fail) else
  if p.payloadEmpty then some (.hard []) else
  if !p.algoOk then some (.hard []) else
  if !cfg.algos.contains (underlyingAlgo p.algo) then some (.res st [] 0 .fail) else
  if !p.keyOk then some (.hard []) else
  if !p.keyParses then some (.res st [] 0 .fail) else
  none

/-- `case "publickey":` -/
def pkPhase (cfg : Cfg) (st : St) (r : Req) : Phase :=
  match pkPre cfg st r with
  | some ph => ph
  | none =>
    match pkLookup cfg st r with
    | none => .hard [Ev.cbPk st.gen st.user r.pk.key r.cb]
    | some (cand, st, evs) => pkDecide cfg st r cand evs

/-- `case "none":` (after `noneAuthCount++`) -/
def nonePhase (cfg : Cfg) (st : St) (r : Req) : Phase :=
  if cfg.noClientAuth && !st.partialRet then
    if cfg.noClientAuthCb then
      .res st [Ev.cbNone st.user r.cb] (r.cb.split st.attempts).1 (r.cb.split st.attempts).2
    else .res st [] 0 .ok
  else .res st [] 0 .fail

def pwPhase (st : St) (r : Req) : Phase :=
  if !st.cbs.pw then .res st [] 0 .fail else
  if r.pwShape != .ok then .hard [] else
  .res st [Ev.cbPw st.gen st.user r.password r.cb] (r.cb.split st.attempts).1 (r.cb.split st.attempts).2

/-- a packet read by `Challenge` is a USERAUTH_INFO_RESPONSE answering `q` questions -/
def answers (q : Nat) : Follow → Bool
  | .infoResp n => n == q
  | _ => false

/-- the Challenge calls of the callback: (all succeeded, events, packets consumed).  Each call
    writes an INFO_REQUEST and reads one packet; an exhausted stream is io.EOF. -/
def kbdRounds : List Nat → List Follow → Bool × List Ev × Nat
  | [], _ => (true, [], 0)
  | q :: qs, fl =>
    -- 99 stands for a Challenge call whose questions and echos differ in length: it fails before any I/O
    if q == 99 then (false, [], 0) else
    match fl with
    | [] => (false, [Ev.sendInfoReq q], 0)
    | f :: rest =>
      if answers q f then
        let r := kbdRounds qs rest
        (r.1, Ev.sendInfoReq q :: r.2.1, r.2.2 + 1)
      else (false, [Ev.sendInfoReq q], 1)

def kbdPhase (st : St) (r : Req) : Phase :=
  if !st.cbs.kbd then .res st [] 0 .fail else
  let k := kbdRounds r.kbdRounds r.follow
  if k.1 then
    .res st (Ev.cbKbd st.gen st.user r.cb :: k.2.1) (r.cb.split st.attempts).1 (r.cb.split st.attempts).2
  else .res st (Ev.cbKbd st.gen st.user r.cb :: k.2.1) 0 .fail

/-- a packet that unmarshals as USERAUTH_GSSAPI_TOKEN (an INFO_RESPONSE with no answers does) -/
def isToken : Follow → Bool
  | .gssToken => true
  | .infoResp 0 => true
  | _ => false

/-- how `gssExchangeToken` ends -/
inductive GssEnd where
  | hard                -- read / unmarshal error: `return nil, nil, err`
  | fail                -- AcceptSecContext error: authErr = err
  | mic                 -- the MIC packet has been read
deriving DecidableEq, Repr, Inhabited

/-- the AcceptSecContext loop and the read of the MIC: (end, events, packets consumed).
    A scripted server that has run out of steps returns an error. -/
def gssExchange : List GssStep → List Follow → GssEnd × List Ev × Nat
  | [], _ => (.fail, [Ev.gssAccept], 0)
  | s :: ss, fl =>
    if s.err then (.fail, [Ev.gssAccept], 0) else
    let evs := Ev.gssAccept :: (if s.out then [Ev.sendGssToken] else [])
    match fl with
    | [] => (.hard, evs, 0)
    | f :: rest =>
      if s.cont then
        if isToken f then
          let r := gssExchange ss rest
          (r.1, evs ++ r.2.1, r.2.2 + 1)
        else (.hard, evs, 1)
      else if f == .gssMic then (.mic, evs, 1) else (.hard, evs, 1)

/-- `case "gssapi-with-mic":` -/
def gssPhase (st : St) (r : Req) : Phase :=
  if !st.cbs.gss then .res st [] 0 .fail else
  match r.gss.payload with
  | .malformed => .hard []
  | .n0 => .res st [] 0 .fail
  | .noKrb => .res st [] 0 .fail
  | .krb =>
    match r.follow with
    | [] => .hard [Ev.sendGssResponse]
    | f :: rest =>
      if !isToken f then .hard [Ev.sendGssResponse] else
      let x := gssExchange r.gss.steps rest
      match x.1 with
      | .hard => .hard (Ev.sendGssResponse :: x.2.1 ++ [Ev.gssDelete])
      | .fail => .res st (Ev.sendGssResponse :: x.2.1 ++ [Ev.gssDelete]) 0 .fail
      | .mic =>
        if !r.gss.micOk then .res st (Ev.sendGssResponse :: x.2.1 ++ [Ev.gssVerifyMic, Ev.gssDelete]) 0 .fail
        else .res st (Ev.sendGssResponse :: x.2.1 ++ [Ev.gssVerifyMic, Ev.cbGssAllow st.gen st.user r.cb, Ev.gssDelete])
          (r.cb.split st.attempts).1 (r.cb.split st.attempts).2

/-- how many of the request's follow-up packets its processing reads -/
def consumedBy (st : St) (r : Req) : Nat :=
  if r.method == "keyboard-interactive" then
    if st.cbs.kbd then (kbdRounds r.kbdRounds r.follow).2.2 else 0
  else if r.method == "gssapi-with-mic" then
    if st.cbs.gss && r.gss.payload == .krb then
      match r.follow with
      | [] => 0
      | f :: rest => if isToken f then 1 + (gssExchange r.gss.steps rest).2.2 else 1
    else 0
  else 0

/-- the `switch userAuthReq.Method` -/
def methodPhase (cfg : Cfg) (st : St) (r : Req) : Phase :=
  if r.method == "none" then nonePhase cfg { st with noneCount := st.noneCount + 1 } r
  else if r.method == "password" then pwPhase st r
  else if r.method == "keyboard-interactive" then kbdPhase st r
  else if r.method == "publickey" then pkPhase cfg st r
  else if r.method == "gssapi-with-mic" then gssPhase st r
  else .res st [] 0 .fail   -- unknown methods

def methodsOf (c : Cbs) : List String :=
  (if c.pw then ["password"] else []) ++ (if c.pk then ["publickey"] else []) ++
  (if c.kbd then ["keyboard-interactive"] else []) ++ (if c.gss then ["gssapi-with-mic"] else [])

def AuthErr.logRes : AuthErr → LogRes
  | .ok => .ok
  | .partialOk _ _ => .partialOk
  | _ => .fail

/-- the final source-address check on the Permissions of a successful callback -/
def saFilter (cfg : Cfg) (perms : Nat) (e : AuthErr) : AuthErr :=
  if e == .ok && !cfg.saOk perms then .fail else e

/-- AuthLogCallback, then the BannerError message -/
def logEvs (r : Req) (e : AuthErr) : List Ev :=
  Ev.log r.method e.logRes :: (if e == .bannerFail true then [Ev.sendBanner] else [])

/-- "Allow initial attempt of 'none' without penalty." -/
def bumpFailures (st : St) (r : Req) : Nat :=
  if st.failures > 0 || r.method != "none" || st.noneCount != 1 then st.failures + 1 else st.failures

/-- success / partial success / failure handling for the final `authErr` -/
def conclude (cfg : Cfg) (st : St) (r : Req) (evs : List Ev) (perms : Nat) (e : AuthErr) : Res :=
  match e with
  | .ok => .done (evs ++ [Ev.sendSuccess]) (.ok perms)
  | .partialOk next gen =>
    if perms != 0 then .done evs .err else
    let st := { st with partialRet := true, cbs := next, gen := gen, cache := none }
    if (methodsOf next).isEmpty then .done evs .err
    else .cont st (evs ++ [Ev.sendFailure (methodsOf next) true])
  | _ =>
    let st := { st with failures := bumpFailures st r }
    if cfg.maxTries > 0 && (st.failures : Int) ≥ cfg.maxTries then .cont st evs
    else if (methodsOf st.cbs).isEmpty then .done evs .err
    else .cont st (evs ++ [Ev.sendFailure (methodsOf st.cbs) false])

/-- everything after the method switch -/
def finish (cfg : Cfg) (st : St) (r : Req) (evs : List Ev) (perms : Nat) (e : AuthErr) : Res :=
  conclude cfg st r (evs ++ logEvs r (saFilter cfg perms e)) perms (saFilter cfg perms e)

/-- BannerCallback, called once, on the first request that gets this far -/
def bannerPhase (cfg : Cfg) (st : St) : St × List Ev :=
  if !st.bannerCalled then
    match cfg.bannerCb with
    | none => (st, [])
    | some nonEmpty =>
      ({ st with bannerCalled := true },
        Ev.cbBanner st.user :: (if nonEmpty then [Ev.sendBanner] else []))
  else (st, [])

/-- one loop iteration after a request has been read and unmarshalled
    (`st.attempts` has already been incremented) -/
def step (cfg : Cfg) (st : St) (r : Req) : Res :=
  if r.service != "ssh-connection" then .done [] .err else
  if st.user != r.user && st.partialRet then .done [] .err else
  let sb := bannerPhase cfg { st with user := r.user }
  match methodPhase cfg sb.1 r with
  | .hard evs => .done (sb.2 ++ evs) .err
  | .again st evs => .cont st (sb.2 ++ evs)
  | .res st evs perms e =>
    match finish cfg st r evs perms e with
    | .done evs' f => .done (sb.2 ++ evs') f
    | .cont st evs' => .cont st (sb.2 ++ evs')

/-- the two disconnect guards at the head of the loop -/
def tooMany (cfg : Cfg) (st : St) : Bool :=
  (cfg.maxTries > 0 && (st.failures : Int) ≥ cfg.maxTries) || st.attempts ≥ 128

/-- the loop: guards, then one read.  An exhausted script reads as io.EOF. -/
def loop (cfg : Cfg) : St → List Read → List Ev × Final
  | st, [] => if tooMany cfg st then ([Ev.sendDisconnect], .authErr) else ([], .authErr)
  | st, rd :: rest =>
    if tooMany cfg st then ([Ev.sendDisconnect], .authErr) else
    let st := { st with attempts := st.attempts + 1 }
    match rd with
    | .eof => ([], .authErr)
    | .ioErr => ([], .err)
    | .malformed => ([], .err)
    | .req r =>
      match step cfg st r with
      | .done evs f => (evs, f)
      | .cont st' evs =>
        if consumedBy st r < r.follow.length then
          -- a follow-up packet nobody read is what the loop reads next: it is not a USERAUTH_REQUEST
          if tooMany cfg st' then (evs ++ [Ev.sendDisconnect], .authErr) else (evs, .err)
        else
          let (evs', f) := loop cfg st' rest
          (evs ++ evs', f)

def St.init (cfg : Cfg) : St := { cbs := cfg.cbs }

def run (cfg : Cfg) (reads : List Read) : List Ev × Final := loop cfg (St.init cfg) reads

end XC.C32
