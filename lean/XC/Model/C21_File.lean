/-
  C21 — an independent PKCS#12 reader in Lean for the files OpenSSL's legacy writer produces:
  DER walk of the PFX, MAC check (Model/C21), PBE-SHA1-3DES / PBE-SHA1-RC2-40 CBC decryption of the
  bags with the App. B KDF (3DES from Model/C25_Des, RC2 from Model/C12_Rc2), PKCS#7 unpadding,
  SafeBag / CertBag / PKCS#8 extraction, friendlyName (BMPString) and localKeyId attributes.
  It produces the same observable line as the harness computes from pkcs12.Decode / pkcs12.ToPEM:
  SHA-256 of the certificate DER and of the key in the form Go re-marshals it (PKCS#1 for RSA, SEC 1
  ECPrivateKey with named curve and public key for EC).
  This is a reader for well-formed input only: any shape it does not know is `none`.
-/
import XC.Model.C21
import XC.Model.C12_Rc2
import XC.Model.C25_Des
import XC.Prim.Sha256
namespace XC.C21
open XC

/-! ## CBC -/

def cbcDecrypt (dec : Bytes → Bytes) (iv : Bytes) (ct : Bytes) : Bytes :=
  let blocks := chunks 8 ct
  let prevs := iv :: blocks
  (List.zipWith (fun c p => xorBytes (dec c) p) blocks prevs).flatten

def oidPbe3DES : Bytes := [0x2a, 0x86, 0x48, 0x86, 0xf7, 0x0d, 0x01, 0x0c, 0x01, 0x03]
def oidPbeRC2_40 : Bytes := [0x2a, 0x86, 0x48, 0x86, 0xf7, 0x0d, 0x01, 0x0c, 0x01, 0x06]
def oidEncryptedData : Bytes := [0x2a, 0x86, 0x48, 0x86, 0xf7, 0x0d, 0x01, 0x07, 0x06]
def oidKeyBag8 : Bytes := [0x2a, 0x86, 0x48, 0x86, 0xf7, 0x0d, 0x01, 0x0c, 0x0a, 0x01, 0x02]
def oidCertBag : Bytes := [0x2a, 0x86, 0x48, 0x86, 0xf7, 0x0d, 0x01, 0x0c, 0x0a, 0x01, 0x03]
def oidX509Cert : Bytes := [0x2a, 0x86, 0x48, 0x86, 0xf7, 0x0d, 0x01, 0x09, 0x16, 0x01]
def oidFriendlyName : Bytes := [0x2a, 0x86, 0x48, 0x86, 0xf7, 0x0d, 0x01, 0x09, 0x14]
def oidLocalKeyId : Bytes := [0x2a, 0x86, 0x48, 0x86, 0xf7, 0x0d, 0x01, 0x09, 0x15]
def oidRsa : Bytes := [0x2a, 0x86, 0x48, 0x86, 0xf7, 0x0d, 0x01, 0x01, 0x01]
def oidEcPublicKey : Bytes := [0x2a, 0x86, 0x48, 0xce, 0x3d, 0x02, 0x01]

/-- pbDecrypt for an AlgorithmIdentifier { oid, SEQUENCE { salt OCTET STRING, iterations INTEGER } } -/
def pbDecryptFull (alg : Bytes) (data password : Bytes) : Option Bytes := do
  let ac ← children alg
  let (oid, params) ← match ac with
    | [(0x06, oid), (0x30, params)] => some (oid, params)
    | _ => none
  let pc ← children params
  let (salt, iter) ← match pc with
    | [(0x04, salt), (0x02, it)] => some (salt, derInt it)
    | _ => none
  if iter < 0 ∨ iter > maxIterations then none
  let iv := pbkdf salt password iter.toNat 2 8
  let dec ← (if oid = oidPbe3DES then
      let k := C25.Des.expandKey3 (pbkdf salt password iter.toNat 1 24)
      some (C25.Des.decryptBlock3 k)
    else if oid = oidPbeRC2_40 then
      match C12.Rc2.expandKey (pbkdf salt password iter.toNat 1 5) 40 with
      | .ok k => some (C12.Rc2.decrypt k)
      | .panic => none
    else none)
  match pbDecryptTail 8 (cbcDecrypt dec iv) data with
  | .ok p => some p
  | _ => none

/-! ## DER writing (for Go's re-marshalled EC key) -/

def derLen (n : Nat) : Bytes :=
  if n < 0x80 then [UInt8.ofNat n]
  else if n < 0x100 then [0x81, UInt8.ofNat n]
  else [0x82, UInt8.ofNat (n / 256), UInt8.ofNat (n % 256)]

def der (tag : UInt8) (content : Bytes) : Bytes := tag :: derLen content.length ++ content

/-! ## bags -/

structure BagOut where
  type : String            -- "CERTIFICATE" | "PRIVATE-KEY"
  bytes : Bytes            -- what ToPEM puts into the block / Decode returns (re-marshalled)
  friendly : Option (List Nat)
  localKeyId : Option Bytes

/-- attributes: SET OF SEQUENCE { OID, SET { value } } -/
def bagAttrs (attrs : Bytes) : Option (Option (List Nat) × Option Bytes) := do
  let as ← children attrs
  as.foldlM (fun (acc : Option (List Nat) × Option Bytes) (a : UInt8 × Bytes) => do
    let ac ← children a.2
    match ac with
    | [(0x06, oid), (0x31, vals)] =>
      let (_, v, _) ← tlv vals
      if oid = oidFriendlyName then
        let rs ← decodeBMPString v
        pure (some rs, acc.2)
      else if oid = oidLocalKeyId then pure (acc.1, some v)
      else pure acc
    | _ => none) (none, none)

/-- PKCS#8 PrivateKeyInfo → the DER Go writes for the parsed key -/
def keyFromPkcs8 (p8 : Bytes) : Option Bytes := do
  let (t, body, rest) ← tlv p8
  if t ≠ 0x30 ∨ !rest.isEmpty then none
  let cs ← children body
  match cs with
  | (0x02, _) :: (0x30, alg) :: (0x04, inner) :: _ =>
    let ac ← children alg
    match ac with
    | (0x06, oid) :: ps =>
      if oid = oidRsa then some inner                      -- RSAPrivateKey (PKCS#1), canonical DER
      else if oid = oidEcPublicKey then do
        let curve ← match ps with
          | [(0x06, c)] => some c
          | _ => none
        let (t2, ecBody, _) ← tlv inner
        if t2 ≠ 0x30 then none
        let ec ← children ecBody
        let (d, others) ← match ec with
          | (0x02, [1]) :: (0x04, d) :: others => some (d, others)
          | _ => none
        let pub ← (others.find? (fun x => x.1 = 0xa1)).map (·.2)
        -- SEQUENCE { 1, d, [0] namedCurve, [1] publicKey }
        some (der 0x30 (der 0x02 [1] ++ der 0x04 d ++ der 0xa0 (der 0x06 curve) ++ der 0xa1 pub))
      else none
    | _ => none
  | _ => none

def readBag (bag : Bytes) (password : Bytes) : Option BagOut := do
  let bc ← children bag
  let (oid, wrapped, attrs) ← match bc with
    | [(0x06, oid), (0xa0, w)] => some (oid, w, none)
    | [(0x06, oid), (0xa0, w), (0x31, a)] => some (oid, w, some a)
    | _ => none
  let (fr, lk) ← match attrs with
    | none => some (none, none)
    | some a => bagAttrs a
  if oid = oidCertBag then
    let (_, cb, _) ← tlv wrapped
    let cc ← children cb
    match cc with
    | [(0x06, ct), (0xa0, w2)] =>
      if ct ≠ oidX509Cert then none else
      let (t, cert, _) ← tlv w2
      if t ≠ 0x04 then none else
      pure ⟨"CERTIFICATE", cert, fr, lk⟩
    | _ => none
  else if oid = oidKeyBag8 then
    let (_, epki, _) ← tlv wrapped
    let ec ← children epki
    match ec with
    | [(0x30, alg), (0x04, data)] =>
      let p8 ← pbDecryptFull alg data password
      let k ← keyFromPkcs8 p8
      pure ⟨"PRIVATE-KEY", k, fr, lk⟩
    | _ => none
  else none

/-- one ContentInfo of the AuthenticatedSafe → its SafeBags -/
def readSafe (ci : Bytes) (password : Bytes) : Option (List BagOut) := do
  let cc ← children ci
  let (oid, wrapped) ← match cc with
    | [(0x06, oid), (0xa0, w)] => some (oid, w)
    | _ => none
  let safeContents ← (if oid = oidData then do
      let (t, d, _) ← tlv wrapped
      if t ≠ 0x04 then none else some d
    else if oid = oidEncryptedData then do
      let (_, ed, _) ← tlv wrapped
      let ec ← children ed
      match ec with
      | [(0x02, [0]), (0x30, eci)] =>
        let ecc ← children eci
        match ecc with
        | [(0x06, _), (0x30, alg), (0x80, data)] => pbDecryptFull alg data password
        | _ => none
      | _ => none
    else none)
  let (t, bagsBody, rest) ← tlv safeContents
  if t ≠ 0x30 ∨ !rest.isEmpty then none
  let bags ← children bagsBody
  bags.mapM (fun b => readBag b.2 password)

/-- all bags of a PFX whose MAC verified with `password` (the BMP bytes used from then on) -/
def readBags (file : Bytes) (password : Bytes) : Option (List BagOut) := do
  let m ← parsePfxMac file
  let (t, asBody, rest) ← tlv m.content
  if t ≠ 0x30 ∨ !rest.isEmpty then none
  let cis ← children asBody
  if cis.length ≠ 2 then none
  let bagss ← cis.mapM (fun ci => readSafe ci.2 password)
  pure bagss.flatten

def hexOf (b : Bytes) : String := toHex b

def showRunes' (rs : Option (List Nat)) : String :=
  match rs with
  | none => "-"
  | some [] => "-"
  | some l => ",".intercalate (l.map toString)

/-- the observable of `pfx` ops after a verified MAC -/
def openedObservable (bags : List BagOut) (coarse : Bool) : String :=
  let pem :=
    if coarse then s!"blocks:{bags.length}"
    else ";".intercalate (bags.map fun b =>
      s!"{b.type}:{toHex (Prim.sha256 b.bytes)}:{showRunes' b.friendly}:{match b.localKeyId with | none => "-" | some l => toHex l}")
  let certs := bags.filter (·.type == "CERTIFICATE")
  let keys := bags.filter (·.type == "PRIVATE-KEY")
  let decode :=
    match bags.length == 2, certs, keys with
    | true, [c], [k] => s!"ok key={toHex (Prim.sha256 k.bytes)} cert={toHex (Prim.sha256 c.bytes)}"
    | _, _, _ => "err"
  s!"decode={decode} pem={pem}"

/-- Decode + ToPEM on a file and password runes, as far as this reader goes -/
def openFile (file : Bytes) (rs : List Nat) (coarse : Bool) : String :=
  match bmpString rs with
  | none => "decode=err pem=err-password"
  | some _ =>
    match openPfx file rs with
    | some (.macOk pw) =>
      match readBags file pw with
      | some bags => openedObservable bags coarse
      | none => "model-cannot-parse"
    | some .incorrectPassword => "decode=err-password pem=err-password"
    | some .other => "decode=err pem=err"
    | none => "model-cannot-parse"

/-- the reader's verdict on a (possibly corrupted) copy of a corpus file whose true key / certificate
    digests are `key`, `cert`: `accept` = opens to exactly that key and certificate, `reject` = any
    failure (shape unknown to the DER walk, MAC mismatch, decryption / padding / bag errors) -/
def mutClass (file : Bytes) (rs : List Nat) (key cert : String) : String :=
  let out := openFile file rs false
  if out.startsWith s!"decode=ok key={key} cert={cert} " then "accept"
  else if out.startsWith "decode=ok" then "accept-other"
  else "reject"

end XC.C21
