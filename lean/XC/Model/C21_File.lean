/-
  C21 — an independent PKCS#12 reader in Lean for the files OpenSSL's legacy writer produces:
  DER walk of the PFX, MAC check (Model/C21), PBE-SHA1-3DES / PBE-SHA1-RC2-40 CBC decryption of the
  bags with the App. B KDF (3DES from Model/C25_Des, RC2 from Model/C12_Rc2), PKCS#7 unpadding,
  SafeBag / CertBag / PKCS#8 extraction, friendlyName (BMPString) and localKeyId attributes.
  It produces the same observable line as the harness computes from pkcs12.Decode / pkcs12.ToPEM:
  SHA-256 of the certificate DER and of the key in the form Go re-marshals it (PKCS#1 for RSA, SEC 1
  ECPrivateKey with named curve and public key for EC).
  This is a reader for well-formed input only: any shape it does not know is `none`.
-/
import XC.Model.C21
import XC.Model.C12_Rc2
import XC.Model.C25_Des
import XC.Prim.Sha256
namespace XC.C21
open XC

/-! ## CBC -/

def cbcDecrypt (dec : Bytes → Bytes) (iv : Bytes) (ct : Bytes) : Bytes :=
  let blocks := chunks 8 ct
  let prevs := iv :: blocks
  (List.zipWith (fun c p => xorBytes (dec c) p) blocks prevs).flatten

def oidPbe3DES : Bytes := [0x2a, 0x86, 0x48, 0x86, 0xf7, 0x0d, 0x01, 0x0c, 0x01, 0x03]
def oidPbeRC2_40 : Bytes := [0x2a, 0x86, 0x48, 0x86, 0xf7, 0x0d, 0x01, 0x0c, 0x01, 0x06]
def oidEncryptedData : Bytes := [0x2a, 0x86, 0x48, 0x86, 0xf7, 0x0d, 0x01, 0x07, 0x06]
def oidKeyBag8 : Bytes := [0x2a, 0x86, 0x48, 0x86, 0xf7, 0x0d, 0x01, 0x0c, 0x0a, 0x01, 0x02]
def oidCertBag : Bytes := [0x2a, 0x86, 0x48, 0x86, 0xf7, 0x0d, 0x01, 0x0c, 0x0a, 0x01, 0x03]
def oidX509Cert : Bytes := [0x2a, 0x86, 0x48, 0x86, 0xf7, 0x0d, 0x01, 0x09, 0x16, 0x01]
def oidFriendlyName : Bytes := [0x2a, 0x86, 0x48, 0x86, 0xf7, 0x0d, 0x01, 0x09, 0x14]
def oidLocalKeyId : Bytes := [0x2a, 0x86, 0x48, 0x86, 0xf7, 0x0d, 0x01, 0x09, 0x15]
def oidRsa : Bytes := [0x2a, 0x86, 0x48, 0x86, 0xf7, 0x0d, 0x01, 0x01, 0x01]
def oidEcPublicKey : Bytes := [0x2a, 0x86, 0x48, 0xce, 0x3d, 0x02, 0x01]

/-- the error classes a caller can tell apart -/
inductive RErr where
  | password       -- ErrIncorrectPassword
  | notImpl        -- a NotImplementedError
  | decryption     -- ErrDecryption
  | other          -- any other error
deriving DecidableEq, Repr

abbrev R := Except RErr

def opt {α : Type} (o : Option α) : R α :=
  match o with
  | some a => .ok a
  | none => .error .other

/-- pbDecrypt for an AlgorithmIdentifier { oid, SEQUENCE { salt OCTET STRING, iterations INTEGER } }:
    unknown algorithm → NotImplementedError (decided before the parameters are read), iteration count
    outside 0..2^20 → NotImplementedError, bad padding → ErrDecryption -/
def pbDecryptFull (alg : Bytes) (data password : Bytes) : R Bytes := do
  let ac ← opt (children alg)
  let (oid, rest) ← match ac with
    | (0x06, oid) :: rest => pure (oid, rest)
    | _ => .error .other
  if oid ≠ oidPbe3DES ∧ oid ≠ oidPbeRC2_40 then .error .notImpl
  let params ← match rest with
    | (0x30, params) :: _ => pure params
    | _ => .error .other
  let pc ← opt (children params)
  let (salt, iter) ← match pc with
    | (0x04, salt) :: (0x02, it) :: _ => pure (salt, derInt it)
    | _ => .error .other
  if iter < 0 ∨ iter > maxIterations then .error .notImpl
  let iv := pbkdf salt password iter.toNat 2 8
  let dec ← (if oid = oidPbe3DES then
      let k := C25.Des.expandKey3 (pbkdf salt password iter.toNat 1 24)
      pure (C25.Des.decryptBlock3 k)
    else
      match C12.Rc2.expandKey (pbkdf salt password iter.toNat 1 5) 40 with
      | .ok k => pure (C12.Rc2.decrypt k)
      | .panic => .error .other)
  match pbDecryptTail 8 (cbcDecrypt dec iv) data with
  | .ok p => pure p
  | .errPadding => .error .decryption
  | _ => .error .other

/-! ## DER writing (for Go's re-marshalled EC key) -/

def derLen (n : Nat) : Bytes :=
  if n < 0x80 then [UInt8.ofNat n]
  else if n < 0x100 then [0x81, UInt8.ofNat n]
  else [0x82, UInt8.ofNat (n / 256), UInt8.ofNat (n % 256)]

def der (tag : UInt8) (content : Bytes) : Bytes := tag :: derLen content.length ++ content

/-! ## bags -/

def oidCspName : Bytes := [0x2b, 0x06, 0x01, 0x04, 0x01, 0x82, 0x37, 0x11, 0x01]
def oidEd25519 : Bytes := [0x2b, 0x65, 0x70]

/-- a SafeBag as getSafeContents leaves it: not yet decoded -/
structure RawBag where
  oid : Bytes
  value : Bytes                -- contents of the [0] wrapper
  attrs : Option Bytes         -- contents of the attribute SET

structure BagOut where
  type : String                -- "CERTIFICATE" | "PRIVATE-KEY"
  bytes : Bytes                -- what ToPEM puts into the block / Decode returns (re-marshalled)
  pemOk : Bool                 -- false: a key type ToPEM cannot write (neither RSA nor ECDSA)
  friendly : Option (List Nat)
  localKeyId : Option Bytes
  csp : Option (List Nat)

/-- ToPEM's headers: friendlyName and Microsoft CSP Name (BMPString), localKeyId; unknown attributes skipped -/
def bagAttrs (attrs : Bytes) : Option (Option (List Nat) × Option Bytes × Option (List Nat)) := do
  let as ← children attrs
  as.foldlM (fun (acc : Option (List Nat) × Option Bytes × Option (List Nat)) (a : UInt8 × Bytes) => do
    let ac ← children a.2
    match ac with
    | [(0x06, oid), (0x31, vals)] =>
      -- the SET contents are unmarshalled strictly: exactly one value; any tag is taken for the two string
      -- attributes (RawValue), localKeyId must be an OCTET STRING
      if oid = oidFriendlyName then
        let (_, v, rest) ← tlv vals
        if !rest.isEmpty then none
        let rs ← decodeBMPString v
        pure (some rs, acc.2.1, acc.2.2)
      else if oid = oidCspName then
        let (_, v, rest) ← tlv vals
        if !rest.isEmpty then none
        let rs ← decodeBMPString v
        pure (acc.1, acc.2.1, some rs)
      else if oid = oidLocalKeyId then
        let (tg, v, rest) ← tlv vals
        if tg ≠ 0x04 ∨ !rest.isEmpty then none
        pure (acc.1, some v, acc.2.2)
      else pure acc
    | _ => none) (none, none, none)

/-- PKCS#8 PrivateKeyInfo → (the DER the harness digests for the parsed key, can ToPEM write it) -/
def keyFromPkcs8 (p8 : Bytes) : Option (Bytes × Bool) := do
  let (t, body, rest) ← tlv p8
  if t ≠ 0x30 ∨ !rest.isEmpty then none
  let cs ← children body
  match cs with
  | (0x02, _) :: (0x30, alg) :: (0x04, inner) :: _ =>
    let ac ← children alg
    match ac with
    | (0x06, oid) :: ps =>
      if oid = oidRsa then do                              -- RSAPrivateKey (PKCS#1): version and eight INTEGERs
        let (t1, rb, r1) ← tlv inner
        let rc ← children rb
        if t1 ≠ 0x30 ∨ !r1.isEmpty ∨ rc.length < 9 ∨ rc.any (fun x => x.1 ≠ 0x02) then none
        some (inner, true)
      else if oid = oidEd25519 then some (p8, false)       -- Decode returns it; ToPEM refuses the key type
      else if oid = oidEcPublicKey then do
        let curve ← match ps with
          | [(0x06, c)] => some c
          | _ => none
        let (t2, ecBody, _) ← tlv inner
        if t2 ≠ 0x30 then none
        let ec ← children ecBody
        let (d, others) ← match ec with
          | (0x02, [1]) :: (0x04, d) :: others => some (d, others)
          | _ => none
        let pub ← (others.find? (fun x => x.1 = 0xa1)).map (·.2)
        -- SEQUENCE { 1, d, [0] namedCurve, [1] publicKey }
        some (der 0x30 (der 0x02 [1] ++ der 0x04 d ++ der 0xa0 (der 0x06 curve) ++ der 0xa1 pub), true)
      else none
    | _ => none
  | _ => none

def rawBag (bag : Bytes) : Option RawBag := do
  let bc ← children bag
  -- encoding/asn1 fills struct fields in order and ignores further elements of a SEQUENCE; the attribute SET is optional
  match bc with
  | (0x06, oid) :: (0xa0, w) :: (0x31, a) :: _ => some ⟨oid, w, some a⟩
  | (0x06, oid) :: (0xa0, w) :: _ => some ⟨oid, w, none⟩
  | _ => none

/-- decodeCertBag / decodePkcs8ShroudedKeyBag on one bag. `none` in the result = a bag type the
    package does not know (Decode skips it, ToPEM fails). Every failure inside the key bag is re-wrapped
    by the code with errors.New, so it loses its class. -/
def decodeBag (b : RawBag) (password : Bytes) : R (Option BagOut) := do
  if b.oid = oidCertBag then
    -- bag.Value is a RawValue: its Bytes are the whole contents of [0], unmarshalled strictly (no trailing data)
    let (_, cb, rest) ← opt (tlv b.value)
    if !rest.isEmpty then .error .other
    let cc ← opt (children cb)
    match cc with
    | (0x06, ct) :: (0xa0, w2) :: _ =>
      if ct ≠ oidX509Cert then .error .notImpl else
      let (t, cert, _) ← opt (tlv w2)
      if t ≠ 0x04 then .error .other else
      pure (some ⟨"CERTIFICATE", cert, true, none, none, none⟩)
    | _ => .error .other
  else if b.oid = oidKeyBag8 then
    let (_, epki, rest) ← opt (tlv b.value)
    if !rest.isEmpty then .error .other
    let ec ← opt (children epki)
    match ec with
    | (0x30, alg) :: (0x04, data) :: _ =>
      match pbDecryptFull alg data password with
      | .error _ => .error .other
      | .ok p8 =>
        let (k, pemOk) ← opt (keyFromPkcs8 p8)
        pure (some ⟨"PRIVATE-KEY", k, pemOk, none, none, none⟩)
    | _ => .error .other
  else pure none

/-- one ContentInfo of the AuthenticatedSafe → its SafeBags (undecoded) -/
def readSafe (ci : Bytes) (password : Bytes) : R (List RawBag) := do
  let cc ← opt (children ci)
  let (oid, wrapped) ← match cc with
    | (0x06, oid) :: (0xa0, w) :: _ => pure (oid, w)
    | _ => .error .other
  let safeContents ← (if oid = oidData then do
      let (t, d, _) ← opt (tlv wrapped)
      if t ≠ 0x04 then .error .other else pure d
    else if oid = oidEncryptedData then do
      let (_, ed, _) ← opt (tlv wrapped)
      let ec ← opt (children ed)
      match ec with
      | (0x02, ver) :: (0x30, eci) :: _ =>
        if derInt ver ≠ 0 then .error .notImpl else
        let ecc ← opt (children eci)
        match ecc with
        | (0x06, _) :: (0x30, alg) :: (0x80, data) :: _ => pbDecryptFull alg data password
        | _ => .error .other
      | _ => .error .other
    else .error .notImpl)
  let (t, bagsBody, rest) ← opt (tlv safeContents)
  if t ≠ 0x30 ∨ !rest.isEmpty then .error .other
  let bags ← opt (children bagsBody)
  bags.mapM (fun b => opt (rawBag b.2))

/-- getSafeContents after the MAC: exactly two ContentInfos, their bags concatenated -/
def readBags (file : Bytes) (password : Bytes) : R (List RawBag) := do
  let m ← opt (parsePfxMac file)
  let (t, asBody, rest) ← opt (tlv m.content)
  if t ≠ 0x30 ∨ !rest.isEmpty then .error .other
  let cis ← opt (children asBody)
  if cis.length ≠ 2 then .error .notImpl
  let bagss ← cis.mapM (fun ci => readSafe ci.2 password)
  pure bagss.flatten

def hexOf (b : Bytes) : String := toHex b

def showRunes' (rs : Option (List Nat)) : String :=
  match rs with
  | none => "-"
  | some [] => "-"
  | some l => ",".intercalate (l.map toString)

def showErr : RErr → String
  | .password => "err-password"
  | .notImpl => "err-notimpl"
  | .decryption => "err-decryption"
  | .other => "err"

/-- pkcs12.Decode on the bags: exactly two bags; unknown bag types are skipped; one certificate and
    one key must remain -/
def decodeObs (bags : List RawBag) (password : Bytes) : String :=
  if bags.length ≠ 2 then "err" else
  match bags.mapM (fun b => decodeBag b password) with
  | .error e => showErr e
  | .ok outs =>
    let known := outs.filterMap id
    match known.filter (·.type == "CERTIFICATE"), known.filter (·.type == "PRIVATE-KEY") with
    | [c], [k] =>
      -- x509.ParseCertificates must find exactly one certificate: one SEQUENCE and nothing after it
      match tlv c.bytes with
      | some (0x30, _, []) => s!"ok key={toHex (Prim.sha256 k.bytes)} cert={toHex (Prim.sha256 c.bytes)}"
      | _ => "err"
    | _, _ => "err"

/-- pkcs12.ToPEM on the bags, in order: attributes first (errors are plain), then the bag itself -/
def pemObs (bags : List RawBag) (password : Bytes) (coarse : Bool) : String :=
  let step (b : RawBag) : R String := do
    let (fr, lk, csp) ← match b.attrs with
      | none => pure (none, none, none)
      | some a => opt (bagAttrs a)
    match ← decodeBag b password with
    | none => .error .other
    | some o =>
      if !o.pemOk then .error .other else
      let cspS := match csp with | none => "" | some c => s!":csp={showRunes' (some c)}"
      pure s!"{o.type}:{toHex (Prim.sha256 o.bytes)}:{showRunes' fr}:{match lk with | none => "-" | some l => toHex l}{cspS}"
  match bags.mapM step with
  | .error e => showErr e
  | .ok blocks => if coarse then s!"blocks:{blocks.length}" else ";".intercalate blocks

/-- Decode + ToPEM on a file and password runes -/
def openFile (file : Bytes) (rs : List Nat) (coarse : Bool) : String :=
  match bmpString rs with
  | none => "decode=err pem=err-password"
  | some _ =>
    match parsePfxMac file with
    | none => "decode=err pem=err"      -- a shape the walk does not know: no MAC, wrong outer structure, …
    | some _ =>
    match openPfx file rs with
    | some (.macOk pw) =>
      match readBags file pw with
      | .ok bags => s!"decode={decodeObs bags pw} pem={pemObs bags pw coarse}"
      | .error e => s!"decode={showErr e} pem={showErr e}"
    | some .incorrectPassword => "decode=err-password pem=err-password"
    | some .notImplemented => "decode=err-notimpl pem=err-notimpl"
    | some .other => "decode=err pem=err"
    | none => "decode=err pem=err"

/-- the reader's verdict on a (possibly corrupted) copy of a corpus file whose true key / certificate
    digests are `key`, `cert`: `accept` = opens to exactly that key and certificate, `reject` = any
    failure (shape unknown to the DER walk, MAC mismatch, decryption / padding / bag errors) -/
def mutClass (file : Bytes) (rs : List Nat) (key cert : String) : String :=
  let out := openFile file rs false
  if out.startsWith s!"decode=ok key={key} cert={cert} " then "accept"
  else if out.startsWith "decode=ok" then "accept-other"
  else "reject"

end XC.C21
