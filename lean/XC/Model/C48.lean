/-
  C48 — OCSP (ocsp/ocsp.go): the decision logic of `ParseResponseForCert` / `ParseRequest` over
  already-parsed ASN.1, and the field mapping of `CreateResponse` / `CreateRequest`.

  encoding/asn1, crypto/x509 and the signature primitives are not modelled: what they answer is an
  input (`Facts`, computed by the harness with the standard library on its own copy of the RFC 6960
  schema), or — for responses produced by `CreateResponse` — symbolic: a signature by key `k` under
  algorithm `a` verifies under key `k'` iff `k = k'` and x509 accepts `a` (`verifies`).
-/
import XC.Basic
namespace XC.C48

/-! ## OID tables: `hashOIDs` and `signatureAlgorithmDetails` -/

abbrev Oid := List Nat

/-- `hashOIDs`: crypto.Hash (3/5/6/7 = SHA-1/256/384/512) ↦ OID -/
def oidOfHash : Nat → Option Oid
  | 3 => some [1, 3, 14, 3, 2, 26]
  | 5 => some [2, 16, 840, 1, 101, 3, 4, 2, 1]
  | 6 => some [2, 16, 840, 1, 101, 3, 4, 2, 2]
  | 7 => some [2, 16, 840, 1, 101, 3, 4, 2, 3]
  | _ => none

/-- `getHashAlgorithmFromOID` / the loop over `hashOIDs` in ParseResponseForCert: 0 = no entry -/
def hashOfOid (o : Oid) : Nat :=
  if o = [1, 3, 14, 3, 2, 26] then 3
  else if o = [2, 16, 840, 1, 101, 3, 4, 2, 1] then 5
  else if o = [2, 16, 840, 1, 101, 3, 4, 2, 2] then 6
  else if o = [2, 16, 840, 1, 101, 3, 4, 2, 3] then 7
  else 0

/-- the `oid` column of `signatureAlgorithmDetails` (x509.SignatureAlgorithm 1 … 12) -/
def oidOfSigAlg : Nat → Oid
  | 1 => [1, 2, 840, 113549, 1, 1, 2]
  | 2 => [1, 2, 840, 113549, 1, 1, 4]
  | 3 => [1, 2, 840, 113549, 1, 1, 5]
  | 4 => [1, 2, 840, 113549, 1, 1, 11]
  | 5 => [1, 2, 840, 113549, 1, 1, 12]
  | 6 => [1, 2, 840, 113549, 1, 1, 13]
  | 7 => [1, 2, 840, 10040, 4, 3]
  | 8 => [2, 16, 840, 1, 101, 3, 4, 3, 2]
  | 9 => [1, 2, 840, 10045, 4, 1]
  | 10 => [1, 2, 840, 10045, 4, 3, 2]
  | 11 => [1, 2, 840, 10045, 4, 3, 3]
  | 12 => [1, 2, 840, 10045, 4, 3, 4]
  | _ => []

/-- `getSignatureAlgorithmFromOID`: first table row with that OID, 0 = UnknownSignatureAlgorithm -/
def sigAlgOfOid (o : Oid) : Nat :=
  ((List.range 13).drop 1).find? (fun a => oidOfSigAlg a == o) |>.getD 0

/-! ## ParseResponseForCert -/

/-- one SingleResponse as parsed -/
structure Single where
  serial : Int
  good : Bool := false          -- [0] IMPLICIT NULL present
  unknown : Bool := false       -- [2] IMPLICIT NULL present
  crit : Bool := false          -- some singleExtension is critical
  hashOid : Oid := [1, 3, 14, 3, 2, 26]   -- certID.hashAlgorithm.algorithm
  thisUpdate : Int := 0         -- Unix seconds
  nextUpdate : Int := 0
  revokedAt : Int := 0
  reason : Int := 0
  nExt : Nat := 0
deriving DecidableEq, Repr

/-- crypto.Hash of certID.hashAlgorithm: 3/5/6/7 = SHA-1/256/384/512, 0 = not in `hashOIDs` -/
def Single.hash (s : Single) : Nat := hashOfOid s.hashOid

/-- one embedded certificate as the standard library sees it -/
structure CertFact where
  ok : Bool := true           -- x509.ParseCertificate succeeded
  signedResp : Bool := false  -- cert.CheckSignature(sigAlg, tbsResponseData, signature) == nil
  byIssuer : Bool := false    -- issuer.CheckSignature(cert.SignatureAlgorithm, cert.RawTBS, cert.Signature) == nil
deriving DecidableEq, Repr

/-- everything `ParseResponseForCert` learns from the standard library about the input bytes -/
structure Facts where
  outerOk : Bool := true        -- asn1.Unmarshal(bytes, &responseASN1) succeeded
  outerRest : Bool := false     -- … with trailing data
  status : Int := 0             -- OCSPResponseStatus
  typeBasic : Bool := true      -- responseType = id-pkix-ocsp-basic
  basicOk : Bool := true        -- asn1.Unmarshal(response, &basicResponse) succeeded
  basicRest : Bool := false
  producedAt : Int := 0
  singles : List Single := []
  ridTag : Nat := 1             -- tag of the ResponderID CHOICE
  ridOk : Bool := true          -- its content parses (RDNSequence / OCTET STRING) with nothing left over
  certs : List CertFact := []   -- basicResp.Certificates, in order (facts about every one of them)
  sigByIssuer : Bool := false   -- issuer.CheckSignature(sigAlg, tbsResponseData, signature) == nil
  sigOid : Oid := []            -- basicResp.SignatureAlgorithm.Algorithm
deriving DecidableEq, Repr

/-- `len(basicResp.Certificates)` -/
def Facts.ncerts (f : Facts) : Nat := f.certs.length
/-- the code only ever looks at `basicResp.Certificates[0]` -/
def Facts.certOk (f : Facts) : Bool := match f.certs.head? with | some c => c.ok | none => true
def Facts.sigByEmbedded (f : Facts) : Bool := match f.certs.head? with | some c => c.signedResp | none => false
def Facts.embeddedByIssuer (f : Facts) : Bool := match f.certs.head? with | some c => c.byIssuer | none => false
/-- `getSignatureAlgorithmFromOID(basicResp.SignatureAlgorithm.Algorithm)` -/
def Facts.sigAlg (f : Facts) : Nat := sigAlgOfOid f.sigOid

/-- the property-level content of a returned `*Response` -/
structure Fields where
  status : Nat
  serial : Int
  producedAt : Int
  thisUpdate : Int
  nextUpdate : Int
  revokedAt : Int
  reason : Int
  hash : Nat
  sigAlg : Nat
  byName : Bool          -- RawResponderName set (else ResponderKeyHash)
  hasCert : Bool
  nExt : Nat
deriving DecidableEq, Repr

inductive Res where
  | errAsn1                 -- error from encoding/asn1
  | errParse                -- ocsp.ParseError
  | errResp (status : Int)  -- ocsp.ResponseError
  | errX509                 -- error from x509.ParseCertificate
  | ok (f : Fields)
deriving DecidableEq, Repr

def goodSt : Nat := 0
def revokedSt : Nat := 1
def unknownSt : Nat := 2

/-- Unix seconds of Go's zero `time.Time` (0001-01-01T00:00:00Z) -/
def zeroTime : Int := -62135596800

/-- the SingleResponse looked at: the first one, or the first whose serial equals `cert.SerialNumber` -/
def select (cert : Option Int) (ss : List Single) : Option Single :=
  match cert with
  | none => ss.head?
  | some c => ss.find? (fun s => s.serial == c)

def statusOf (s : Single) : Nat := if s.good then goodSt else if s.unknown then unknownSt else revokedSt

def fieldsOf (f : Facts) (s : Single) : Fields :=
  { status := statusOf s, serial := s.serial, producedAt := f.producedAt, thisUpdate := s.thisUpdate,
    nextUpdate := s.nextUpdate,
    revokedAt := if statusOf s = revokedSt then s.revokedAt else zeroTime,
    reason := if statusOf s = revokedSt then s.reason else 0,
    hash := s.hash, sigAlg := f.sigAlg, byName := f.ridTag == 1, hasCert := f.ncerts > 0, nExt := s.nExt }

/-- the signature rule: embedded certificate ⇒ it must have signed the response and, when an issuer is
    given, be signed by the issuer; no embedded certificate ⇒ when an issuer is given it must have signed -/
def sigRule (f : Facts) (issuer : Bool) : Bool :=
  if f.ncerts > 0 then f.sigByEmbedded && (!issuer || f.embeddedByIssuer)
  else !issuer || f.sigByIssuer

/-- the checks on the two ASN.1 envelopes, in the order of the Go code; `none` = all passed -/
def envelopeErr (f : Facts) (cert : Option Int) : Option Res :=
  if !f.outerOk then some .errAsn1 else
  if f.outerRest then some .errParse else
  if f.status ≠ 0 then some (.errResp f.status) else
  if !f.typeBasic then some .errParse else
  if !f.basicOk then some .errAsn1 else
  if f.basicRest then some .errParse else
  if f.singles.length = 0 ∨ (cert.isNone ∧ f.singles.length > 1) then some .errParse else
  none

/-- the checks after a SingleResponse `s` has been selected -/
def checkSingle (f : Facts) (s : Single) (issuer : Bool) : Res :=
  if !((f.ridTag = 1 ∨ f.ridTag = 2) ∧ f.ridOk) then .errParse else
  if f.ncerts > 0 ∧ !f.certOk then .errX509 else
  if !sigRule f issuer then .errParse else
  if s.crit then .errParse else
  if s.hash = 0 then .errParse else
  .ok (fieldsOf f s)

/-- `ParseResponseForCert(bytes, cert, issuer)` in the order of the Go code -/
def parseResponse (f : Facts) (cert : Option Int) (issuer : Bool) : Res :=
  match envelopeErr f cert with
  | some e => e
  | none =>
    match select cert f.singles with
    | none => .errParse
    | some s => checkSingle f s issuer

/-! ## CreateResponse -/

inductive KeyType where
  | rsa | ec224 | ec256 | ec384 | ec521 | ecOther | other
deriving DecidableEq, Repr

/-- x509.SignatureAlgorithm ↦ (public key algorithm: 1 RSA, 2 DSA, 3 ECDSA; crypto.Hash, 0 = none) -/
def sigAlgDetails : Nat → Option (Nat × Nat)
  | 1 => some (1, 0)    -- MD2WithRSA
  | 2 => some (1, 2)    -- MD5WithRSA
  | 3 => some (1, 3)    -- SHA1WithRSA
  | 4 => some (1, 5)
  | 5 => some (1, 6)
  | 6 => some (1, 7)
  | 7 => some (2, 3)    -- DSAWithSHA1
  | 8 => some (2, 5)
  | 9 => some (3, 3)    -- ECDSAWithSHA1
  | 10 => some (3, 5)
  | 11 => some (3, 6)
  | 12 => some (3, 7)
  | _ => none

/-- `signingParamsForPublicKey`: the x509.SignatureAlgorithm written into the response, or an error -/
def signingParams (k : KeyType) (requested : Nat) : Option Nat :=
  let base : Option (Nat × Nat) :=      -- (pubType, default algorithm)
    match k with
    | .rsa => some (1, 4)
    | .ec224 => some (3, 10)
    | .ec256 => some (3, 10)
    | .ec384 => some (3, 11)
    | .ec521 => some (3, 12)
    | .ecOther => none
    | .other => none
  match base with
  | none => none
  | some (pubType, dflt) =>
    if requested = 0 then some dflt else
    match sigAlgDetails requested with
    | none => none
    | some (pk, h) => if pk ≠ pubType then none else if h = 0 then none else some requested

/-- x509 `CheckSignature` refuses MD5 (and MD2) signatures; SHA-1 is still accepted there -/
def verifies (alg : Nat) : Bool := alg ≠ 1 && alg ≠ 2 && alg ≠ 0

/-- a certificate, symbolically: its key and the key that signed it -/
structure CertSym where
  key : Nat
  signedBy : Nat
deriving DecidableEq, Repr

structure Template where
  status : Int
  serial : Option Int           -- nil SerialNumber cannot be marshalled
  thisUpdate : Int
  nextUpdate : Int
  revokedAt : Int
  reason : Int
  issuerHash : Nat              -- crypto.Hash, 0 = default SHA-1
  sigAlg : Nat                  -- requested x509.SignatureAlgorithm, 0 = default
  exts : List Bool              -- ExtraExtensions: critical flags
  cert : Option CertSym         -- template.Certificate
deriving DecidableEq, Repr

/-- the response as an abstract ASN.1 value (what a faithful DER codec transports) -/
structure AbsResp where
  single : Single
  sigAlg : Nat
  signer : Nat
  certs : List CertSym
deriving DecidableEq, Repr

/-- GeneralizedTime holds years 0 … 9999 -/
def timeOk (t : Int) : Bool := -62167219200 ≤ t && t ≤ 253402300799

def hashKnown (h : Nat) : Bool := h == 3 || h == 5 || h == 6 || h == 7

/-- `CreateResponse(issuer, responderCert, template, priv)`; `none` = an error is returned -/
def createResponse (t : Template) (signerKey : Nat) (signerType : KeyType) : Option AbsResp :=
  let h := if t.issuerHash = 0 then 3 else t.issuerHash
  if !hashKnown h then none else
  match t.serial with
  | none => none
  | some serial =>
    let revoked := t.status = 1
    if !timeOk t.thisUpdate ∨ !timeOk t.nextUpdate ∨ (revoked ∧ !timeOk t.revokedAt) then none else
    match signingParams signerType t.sigAlg with
    | none => none
    | some alg =>
      some { single := { serial := serial, good := t.status = 0, unknown := t.status = 2,
                         crit := t.exts.any id, hashOid := (oidOfHash h).getD [], thisUpdate := t.thisUpdate, nextUpdate := t.nextUpdate,
                         revokedAt := if revoked then t.revokedAt else zeroTime,
                         reason := if revoked then t.reason else 0, nExt := t.exts.length },
             sigAlg := alg, signer := signerKey, certs := t.cert.toList }

/-- what the standard library will report about a created response when it is checked against `issuer` -/
def factsOf (r : AbsResp) (producedAt : Int) (issuer : Option Nat) : Facts :=
  { producedAt := producedAt, singles := [r.single], ridTag := 1,
    certs := r.certs.map (fun c =>
      { ok := true, signedResp := verifies r.sigAlg && c.key == r.signer,
        byIssuer := match issuer with | some i => c.signedBy == i | none => false }),
    sigByIssuer := match issuer with | some i => verifies r.sigAlg && r.signer == i | none => false,
    sigOid := oidOfSigAlg r.sigAlg }

/-- `Response.CheckSignatureFrom(issuer)` on a parsed response -/
def checkSignatureFrom (f : Facts) : Bool := f.sigByIssuer

/-! ## constants of the package -/

/-- `Good, Revoked, Unknown, ServerFailed` -/
def statusConsts : List Nat := [0, 1, 2, 3]
/-- RFC 5280 CRLReason values the package names (7 is unassigned) -/
def reasonConsts : List Nat := [0, 1, 2, 3, 4, 5, 6, 8, 9, 10]
/-- `Success … Unauthorized` (4 is unused in OCSP) -/
def respStatusConsts : List Nat := [0, 1, 2, 3, 5, 6]

/-- `ResponseStatus.String()` -/
def respStatusName (s : Int) : String :=
  if s = 0 then "success" else if s = 1 then "malformed" else if s = 2 then "internal error"
  else if s = 3 then "try later" else if s = 5 then "signature required" else if s = 6 then "unauthorized"
  else "unknown OCSP status: " ++ toString s

/-- the pre-serialised error responses `30 03 0A 01 xx`: name ↦ OCSPResponseStatus -/
def errorResponseStatus : String → Option Int
  | "MalformedRequestErrorResponse" => some 1
  | "InternalErrorErrorResponse" => some 2
  | "TryLaterErrorResponse" => some 3
  | "SigRequredErrorResponse" => some 5
  | "UnauthorizedErrorResponse" => some 6
  | _ => none

/-- an error response `SEQUENCE { ENUMERATED s }` as `ParseResponse` sees it -/
def errorResponseFacts (s : Int) : Facts := { status := s, typeBasic := false, basicOk := false }

/-! ## requests -/

structure ReqFacts where
  ok : Bool := true
  rest : Bool := false
  hasSig : Bool := false        -- optionalSignature present
  n : Nat := 1                  -- len(requestList)
  hashOid : Oid := [1, 3, 14, 3, 2, 26]   -- hashAlgorithm of the first request
  nameHash : Bytes := []
  keyHash : Bytes := []
  serial : Int := 0
deriving DecidableEq, Repr

structure ReqFields where
  hash : Nat
  nameHash : Bytes
  keyHash : Bytes
  serial : Int
deriving DecidableEq, Repr

inductive ReqRes where
  | errAsn1 | errParse | ok (f : ReqFields)
deriving DecidableEq, Repr

def parseRequest (f : ReqFacts) : ReqRes :=
  if !f.ok then .errAsn1 else
  if f.rest then .errParse else
  if f.hasSig then .errParse else
  if f.n = 0 then .errParse else
  if hashOfOid f.hashOid = 0 then .errParse else
  .ok ⟨hashOfOid f.hashOid, f.nameHash, f.keyHash, f.serial⟩

/-- `CreateRequest(cert, issuer, opts)`: `hashName`, `hashKey` = the chosen hash of the issuer's subject
    and public key (computed by the standard library); `none` = ErrUnsupportedAlgorithm -/
def createRequest (optHash : Nat) (serial : Int) (hashName hashKey : Nat → Bytes) : Option ReqFacts :=
  let h := if optHash = 0 then 3 else optHash
  if !hashKnown h then none else
  some { hashOid := (oidOfHash h).getD [], nameHash := hashName h, keyHash := hashKey h, serial := serial }

end XC.C48
