/-
  C53 — in-place / overlapping buffers.

  Memory is one flat arena (`Bytes`); a Go slice into it is (off, len) resp. (off, len, cap).
  * `anyOverlap`, `inexactOverlap`    internal/alias (both the unsafe and the reflect version compute this)
  * `rd`, `wr`                         slice read / slice write on the arena
  * `chunkLoop`                        the shape of every xor / block loop in the repo: left to right, read a chunk
                                       of src, compute, write the chunk of dst at the same relative offset
                                       (chacha20: bytes while draining, 4-byte words in addXor, the padded tail;
                                        salsa20: bytes; xts: 16-byte blocks; secretbox: bytes + salsa)
  * `sliceForAppend`                   reuse capacity (in place) or allocate (then nothing can overlap)
  * the guarded wrappers               what each documented function does with (dst, src) as slices of the arena,
                                       parameterised by the function's result on separate buffers (an oracle):
                                       chacha20.XORKeyStream, salsa20.XORKeyStream, chacha20poly1305 Seal/Open,
                                       xts Encrypt/Decrypt, secretbox/box Seal/Open, sign Sign/Open
  A Go panic is `Res.panic`.
-/
import XC.Basic
namespace XC.C53

structure Sl where
  off : Nat
  len : Nat
deriving DecidableEq, Repr

/-- `alias.AnyOverlap(x, y)`: both non-empty and &x[0] ≤ &y[len-1] and &y[0] ≤ &x[len-1] -/
def anyOverlap (x y : Sl) : Bool :=
  decide (x.len > 0) && decide (y.len > 0) &&
  decide (x.off ≤ y.off + (y.len - 1)) && decide (y.off ≤ x.off + (x.len - 1))

/-- `alias.InexactOverlap(x, y)` -/
def inexactOverlap (x y : Sl) : Bool :=
  if x.len = 0 || y.len = 0 || x.off = y.off then false else anyOverlap x y

def rd (mem : Bytes) (off len : Nat) : Bytes := (mem.drop off).take len

/-- overwrite `b.length` bytes at `off` (callers stay inside the arena) -/
def wr (mem : Bytes) (off : Nat) (b : Bytes) : Bytes :=
  mem.take off ++ b ++ mem.drop (off + b.length)

/-- left-to-right chunk loop: for each chunk size `c` (relative offset `o`):
    `dst[o:o+c] = g o src[o:o+c]`, reading the *current* memory -/
def chunkLoop (g : Nat → Bytes → Bytes) : List Nat → Nat → Bytes → Nat → Nat → Bytes
  | [], _, mem, _, _ => mem
  | c :: cs, o, mem, d, s => chunkLoop g cs (o + c) (wr mem (d + o) (g o (rd mem (s + o) c))) d s

/-- the same computation on a separate copy of the source -/
def mapChunks (g : Nat → Bytes → Bytes) : List Nat → Nat → Bytes → Bytes
  | [], _, _ => []
  | c :: cs, o, src => g o (src.take c) ++ mapChunks g cs (o + c) (src.drop c)

/-- xor chunk at relative offset `o` with the keystream bytes `ks[o:o+|chunk|]` (a keystream that is too
    short is continued with zeros, so that the result always has the chunk's length) -/
def xorG (ks : Bytes) (o : Nat) (chunk : Bytes) : Bytes :=
  xorBytes chunk ((ks.drop o ++ zeros chunk.length).take chunk.length)

/-- the bytewise loop `for i := range src { dst[i] = src[i] ^ ks[i] }` on the arena -/
def xorLoop (ks : Bytes) (mem : Bytes) (d s n : Nat) : Bytes :=
  chunkLoop (xorG ks) (List.replicate n 1) 0 mem d s

/-- block loop with an oracle: block at offset `o` of the source maps to `out[o:o+c]` if it still is the
    original source block `orig[o:o+c]` (otherwise the result is marked as corrupted by complementing) -/
def oracleG (orig out : Bytes) (o : Nat) (chunk : Bytes) : Bytes :=
  if chunk = (orig.drop o).take chunk.length then (out.drop o ++ zeros chunk.length).take chunk.length
  else chunk.map (fun b => b ^^^ 0xff)

inductive Res
  | panic
  | ok (ret : Bytes) (mem : Bytes)
deriving DecidableEq, Repr

structure Dst where
  off : Nat
  len : Nat
  cap : Nat
deriving DecidableEq, Repr

/-- `sliceForAppend(in, n)`: `some tail` = capacity reused, the tail lies in the arena right after `in`;
    `none` = a fresh allocation (disjoint from everything) -/
def sliceForAppend (dst : Dst) (n : Nat) : Option Sl :=
  if dst.cap ≥ dst.len + n then some ⟨dst.off + dst.len, n⟩ else none

def anyOverlapO (x : Option Sl) (y : Sl) : Bool :=
  match x with
  | none => false
  | some x => anyOverlap x y

def inexactOverlapO (x : Option Sl) (y : Sl) : Bool :=
  match x with
  | none => false
  | some x => inexactOverlap x y

/-- `chacha20.(*Cipher).XORKeyStream(dst, src)`; `ks` = keystream for this call (oracle: out xor src on
    separate buffers). Returns nothing (ret = []). -/
def chachaXor (ks : Bytes) (mem : Bytes) (dst src : Sl) : Res :=
  if src.len = 0 then .ok [] mem else
  if dst.len < src.len then .panic else
  if inexactOverlap ⟨dst.off, src.len⟩ src then .panic else
  .ok [] (xorLoop ks mem dst.off src.off src.len)

/-- `salsa20.XORKeyStream(out, in, nonce, key)` (valid nonce size) -/
def salsaXor (ks : Bytes) (mem : Bytes) (out inp : Sl) : Res :=
  if out.len < inp.len then .panic else
  if inexactOverlap ⟨out.off, inp.len⟩ inp then .panic else
  .ok [] (xorLoop ks mem out.off inp.off inp.len)

/-- `xts.Encrypt(ciphertext, plaintext, sector)` / `Decrypt` (same shape); `orig` = the source bytes before
    the call, `out` = result on separate buffers -/
def xtsCrypt (orig out : Bytes) (mem : Bytes) (dst src : Sl) : Res :=
  if dst.len < src.len then .panic else
  if src.len % 16 ≠ 0 then .panic else
  if inexactOverlap ⟨dst.off, src.len⟩ src then .panic else
  .ok [] (chunkLoop (oracleG orig out) (List.replicate (src.len / 16) 16) 0 mem dst.off src.off)

/-- `chacha20poly1305.Seal(dst, nonce, plaintext, ad)` (both the assembly and the generic path perform the
    same checks); `ct`, `tag` = result on separate buffers -/
def aeadSeal (ct tag : Bytes) (mem : Bytes) (dst : Dst) (pt ad : Sl) : Res :=
  let out := sliceForAppend dst (pt.len + 16)
  if inexactOverlapO out pt then .panic else
  if anyOverlapO out ad then .panic else
  let ks := xorBytes ct (rd mem pt.off pt.len)
  match out with
  | none => .ok (rd mem dst.off dst.len ++ ct ++ tag) mem
  | some o =>
    let mem1 := xorLoop ks mem o.off pt.off pt.len
    let mem2 := wr mem1 (o.off + pt.len) tag
    .ok (rd mem2 dst.off (dst.len + pt.len + 16)) mem2

/-- `chacha20poly1305.Open(dst, nonce, ciphertext, ad)` for an authentic ciphertext of `ct.len ≥ 16` bytes;
    `pt` = plaintext (result on separate buffers).  Both paths check the appended region against
    `ciphertext[:len-16]` (inexact overlap) and against the 16 tag bytes (any overlap). -/
def aeadOpen (pt : Bytes) (mem : Bytes) (dst : Dst) (ct ad : Sl) : Res :=
  let n := ct.len - 16
  let out := sliceForAppend dst n
  if inexactOverlapO out ⟨ct.off, n⟩ || anyOverlapO out ⟨ct.off + n, 16⟩ then .panic else
  if anyOverlapO out ad then .panic else
  let ks := xorBytes pt (rd mem ct.off n)
  match out with
  | none => .ok (rd mem dst.off dst.len ++ pt) mem
  | some o =>
    let mem1 := xorLoop ks mem o.off ct.off n
    .ok (rd mem1 dst.off (dst.len + n)) mem1

/-- secretbox.Seal / box.Seal* / sign.Sign / secretbox.Open / box.Open* / sign.Open (authentic input):
    `res` = the bytes appended on separate buffers; any overlap of the appended region with the input panics -/
def appendNoOverlap (res : Bytes) (mem : Bytes) (dst : Dst) (inp : Sl) : Res :=
  let out := sliceForAppend dst res.length
  if anyOverlapO out inp then .panic else
  match out with
  | none => .ok (rd mem dst.off dst.len ++ res) mem
  | some o =>
    let mem1 := wr mem o.off res
    .ok (rd mem1 dst.off (dst.len + res.length)) mem1

end XC.C53
