/-
  C41 — OpenSSH certificates (ssh/certs.go): parseCert, parseTuples, parseSignatureBody,
  Certificate.Marshal, bytesForSigning, CertChecker.CheckCert / Authenticate / CheckHostKey,
  SignCert's algorithm choice.  The code is modelled as written: `CheckCert` verifies the CA signature over
  `bytesForSigning` = a RE-MARSHAL of the parsed certificate; since fix 03f8929 `parseCert` only accepts
  encodings that re-marshal to themselves, so that is the same as verifying over the received bytes
  (`checkCertRecv`; XC/Props/C41.lean proves the two equal on everything the parser accepts).

  Not modelled (oracles): `PublicKey.Verify` of the CA key (`Verify`), elliptic-curve point
  validation (`PtOracle`), `net.SplitHostPort`, the application callbacks.
-/
import XC.Model.C38_Keys
namespace XC.C41
open XC XC.C38

structure Sig where
  format : Bytes
  blob : Bytes
  rest : Bytes
deriving DecidableEq, Repr

/-- `Certificate`; the two `map[string]string` are association lists (parseTuples only produces
    strictly increasing keys, marshalTuples sorts) -/
structure Cert where
  nonce : Bytes
  key : PubKey
  serial : Nat
  certType : Nat
  keyId : Bytes
  principals : List Bytes
  validAfter : Nat
  validBefore : Nat
  critOpts : List (Bytes × Bytes)
  exts : List (Bytes × Bytes)
  reserved : Bytes
  sigKey : PubKey
  sig : Option Sig
deriving DecidableEq, Repr

/-! ## tuples (critical options / extensions) -/

/-- `haveLastKey && keyStr <= lastKey` (`last = none` ↔ `haveLastKey = false`) -/
def outOfOrder (last : Option Bytes) (key : Bytes) : Bool :=
  match last with
  | some l => bytesLe key l
  | none => false

/-- `parseTuples`: name string, data string; names strictly increasing; a non-empty data field must
    hold exactly one inner string, an empty data field is the empty value.
    `last = none` ↔ `haveLastKey = false`. -/
def parseTuplesGo : Nat → Bytes → Option Bytes → Option (List (Bytes × Bytes))
  | 0, b, _ => if b.isEmpty then some [] else none
  | f+1, b, last =>
    if b.isEmpty then some [] else
    match parseString b with
    | none => none
    | some (key, r) =>
      if outOfOrder last key then none else
      match parseString r with
      | none => none
      | some (val, r') =>
        if val.isEmpty then
          (parseTuplesGo f r' (some key)).map ((key, []) :: ·)
        else
          match parseString val with
          | none => none
          | some (v, extra) =>
            if !extra.isEmpty then none
            else (parseTuplesGo f r' (some key)).map ((key, v) :: ·)

def parseTuples (b : Bytes) : Option (List (Bytes × Bytes)) := parseTuplesGo b.length b none

/-- one tuple as `marshalTuples` writes it: empty values get an empty data field, non-empty values
    are wrapped in a second length prefix -/
def putTuple (kv : Bytes × Bytes) : Bytes :=
  putString kv.1 ++ (if kv.2.isEmpty then putString [] else putString (putString kv.2))

/-- insertion into a key-sorted association list (`sort.Strings(keys)` over a Go map: keys are
    distinct, a later assignment to the same key overwrites) -/
def insertKV (kv : Bytes × Bytes) : List (Bytes × Bytes) → List (Bytes × Bytes)
  | [] => [kv]
  | x :: r =>
    if bytesLt kv.1 x.1 then kv :: x :: r
    else if kv.1 = x.1 then kv :: r
    else x :: insertKV kv r

def sortKV (l : List (Bytes × Bytes)) : List (Bytes × Bytes) := l.foldl (fun acc kv => insertKV kv acc) []

/-- `marshalTuples` of a map given in sorted association-list form -/
def putTuples (l : List (Bytes × Bytes)) : Bytes := (l.map putTuple).flatten

/-! ## signature -/

def skFormat (f : Bytes) : Bool :=
  f = algoSKECDSA || f = nm "sk-ecdsa-sha2-nistp256-cert-v01@openssh.com" ||
  f = algoSKED25519 || f = nm "sk-ssh-ed25519-cert-v01@openssh.com"

/-- `parseSignatureBody` followed by parseCert's `!ok || len(rest) > 0` test -/
def parseSigBody (b : Bytes) : Option Sig :=
  match parseString b with
  | none => none
  | some (format, r) =>
    match parseString r with
    | none => none
    | some (blob, r') =>
      if skFormat format then some ⟨format, blob, r'⟩
      else if r'.isEmpty then some ⟨format, blob, []⟩ else none

/-- `Marshal(c.Signature)` -/
def putSig (s : Sig) : Bytes := putString s.format ++ putString s.blob ++ s.rest

/-! ## certificate algorithm names -/

def certAlgoRSA := nm "ssh-rsa-cert-v01@openssh.com"
def certAlgoDSA := nm "ssh-dss-cert-v01@openssh.com"
def certAlgoECDSA256 := nm "ecdsa-sha2-nistp256-cert-v01@openssh.com"
def certAlgoECDSA384 := nm "ecdsa-sha2-nistp384-cert-v01@openssh.com"
def certAlgoECDSA521 := nm "ecdsa-sha2-nistp521-cert-v01@openssh.com"
def certAlgoSKECDSA := nm "sk-ecdsa-sha2-nistp256-cert-v01@openssh.com"
def certAlgoED25519 := nm "ssh-ed25519-cert-v01@openssh.com"
def certAlgoSKED25519 := nm "sk-ssh-ed25519-cert-v01@openssh.com"
def certAlgoRSASHA256 := nm "rsa-sha2-256-cert-v01@openssh.com"
def certAlgoRSASHA512 := nm "rsa-sha2-512-cert-v01@openssh.com"

/-- `certKeyAlgoNames` (10 entries) -/
def certKeyAlgoNames : List (Bytes × Bytes) :=
  [(certAlgoRSA, algoRSA), (certAlgoRSASHA256, algoRSASHA256), (certAlgoRSASHA512, algoRSASHA512),
   (certAlgoDSA, algoDSA), (certAlgoECDSA256, algoECDSA256), (certAlgoECDSA384, algoECDSA384),
   (certAlgoECDSA521, algoECDSA521), (certAlgoSKECDSA, algoSKECDSA), (certAlgoED25519, algoED25519),
   (certAlgoSKED25519, algoSKED25519)]

/-- the eight certificate arms of `parsePubKey` -/
def certArms : List Bytes :=
  [certAlgoRSA, certAlgoDSA, certAlgoECDSA256, certAlgoECDSA384, certAlgoECDSA521, certAlgoSKECDSA,
   certAlgoED25519, certAlgoSKED25519]

/-- `certificateAlgo(c.Key.Type())`; `none` = the panic in `Certificate.Type` -/
def certTypeOf (k : PubKey) : Option Bytes :=
  (certKeyAlgoNames.find? (fun p => p.2 = k.type)).map (·.1)

/-! ## parseCert / Marshal -/

/-- `parseCert(in, privAlgo)` up to (not including) the final canonical-encoding check -/
def parseCertNoCheck (o : PtOracle) (privAlgo : Bytes) (b : Bytes) : Option Cert :=
  match parseString b with
  | none => none
  | some (nonce, r0) =>
  match parsePlain o privAlgo r0 with
  | none => none
  | some (key, r1) =>
  -- Unmarshal(rest, &g): every field, then no trailing bytes
  match parseU64 r1 with
  | none => none
  | some (serial, r2) =>
  match parseU32 r2 with
  | none => none
  | some (ctype, r3) =>
  match parseString r3 with
  | none => none
  | some (keyId, r4) =>
  match parseString r4 with
  | none => none
  | some (princ, r5) =>
  match parseU64 r5 with
  | none => none
  | some (va, r6) =>
  match parseU64 r6 with
  | none => none
  | some (vb, r7) =>
  match parseString r7 with
  | none => none
  | some (crit, r8) =>
  match parseString r8 with
  | none => none
  | some (ext, r9) =>
  match parseString r9 with
  | none => none
  | some (reserved, r10) =>
  match parseString r10 with
  | none => none
  | some (sigKeyB, r11) =>
  match parseString r11 with
  | none => none
  | some (sigB, r12) =>
    if !r12.isEmpty then none else
    match parseStrings princ with
    | none => none
    | some principals =>
    match parseTuples crit with
    | none => none
    | some critOpts =>
    match parseTuples ext with
    | none => none
    | some exts =>
    match parseString sigKeyB with
    | none => none
    | some (sigAlgo, _) =>
      if certKeyAlgoNames.any (fun p => p.1 = sigAlgo) then none else
      match parsePlainKey o sigKeyB with
      | none => none
      | some sigKey =>
        match parseSigBody sigB with
        | none => none
        | some sig =>
          some ⟨nonce, key, serial, ctype, keyId, principals, va, vb, critOpts, exts, reserved, sigKey, some sig⟩

/-- everything `Marshal` writes before the signature field -/
def Cert.signedPart (c : Cert) (tname : Bytes) : Bytes :=
  putString tname ++ putString c.nonce ++ c.key.body ++
  putU64 c.serial ++ putU32 c.certType ++ putString c.keyId ++ putString (putStrings c.principals) ++
  putU64 c.validAfter ++ putU64 c.validBefore ++ putString (putTuples c.critOpts) ++
  putString (putTuples c.exts) ++ putString c.reserved ++ putString c.sigKey.marshal

/-- `Certificate.Marshal()`; `none` = panic (unknown key type for a certificate) -/
def Cert.marshal (c : Cert) : Option Bytes :=
  match certTypeOf c.key with
  | none => none
  | some tname =>
    some (c.signedPart tname ++ putString (match c.sig with | none => [] | some s => putSig s))

/-- `bytesForSigning`: Marshal with Signature = nil, minus the trailing 4 length bytes -/
def Cert.bytesForSigning (c : Cert) : Option Bytes :=
  match ({ c with sig := none } : Cert).marshal with
  | none => none
  | some out => some (out.take (out.length - 4))

/-- `parseCert(in, privAlgo)`: the fields, then the canonical-encoding check added by 03f8929
    ("ssh: reject certificates that are not canonically encoded"):
    `_, body, ok := parseString(c.Marshal()); !ok || !bytes.Equal(body, in)` ⇒ error.
    `c.Marshal()` panics for a key without certificate type; `parsePlain` never returns such a key
    (theorem `parseCertNoCheck_marshal_some`), so the `none` arm below is unreachable. -/
def parseCert (o : PtOracle) (privAlgo : Bytes) (b : Bytes) : Option Cert :=
  match parseCertNoCheck o privAlgo b with
  | none => none
  | some c =>
    match c.marshal with
    | none => none
    | some m =>
      match parseString m with
      | none => none
      | some (_, body) => if body = b then some c else none

/-- the pre-03f8929 parser (no canonical-encoding check): only used to state what the check excludes -/
def parseCertKeyNoCheck (o : PtOracle) (b : Bytes) : Option Cert :=
  match parseString b with
  | none => none
  | some (algo, r) =>
    if certArms.contains algo then
      match certKeyAlgoNames.find? (fun p => p.1 = algo) with
      | none => none
      | some p => parseCertNoCheck o p.2 r
    else none

/-- `ParsePublicKey` for certificate blobs: type name ∈ the eight certificate arms -/
def parseCertKey (o : PtOracle) (b : Bytes) : Option Cert :=
  match parseString b with
  | none => none
  | some (algo, r) =>
    if certArms.contains algo then
      match certKeyAlgoNames.find? (fun p => p.1 = algo) with
      | none => none
      | some p => parseCert o p.2 r
    else none

/-- what `ParsePublicKey` returns -/
inductive AnyKey where
  | plain (k : PubKey)
  | cert (c : Cert)
deriving DecidableEq, Repr

def parsePublicKey (o : PtOracle) (b : Bytes) : Option AnyKey :=
  match parseString b with
  | none => none
  | some (algo, _) =>
    if certArms.contains algo then (parseCertKey o b).map .cert
    else (parsePlainKey o b).map .plain

def AnyKey.marshal : AnyKey → Option Bytes
  | .plain k => some k.marshal
  | .cert c => c.marshal

/-! ## CheckCert -/

inductive Res where
  | accept | reject | panic
deriving DecidableEq, Repr

/-- `int64(u)` for a uint64 -/
def toInt64 (u : Nat) : Int := if u < 9223372036854775808 then (u : Int) else (u : Int) - 18446744073709551616

def certTimeInfinity : Nat := 18446744073709551615

def sourceAddress := nm "source-address"

structure Checker where
  supported : List Bytes
  /-- `IsRevoked`; `none` = nil callback -/
  isRevoked : Option (Cert → Bool)
  /-- `clock().Unix()` -/
  now : Int

/-- `c.IsRevoked != nil && c.IsRevoked(cert)` -/
def Checker.revoked (ck : Checker) (c : Cert) : Bool :=
  match ck.isRevoked with
  | some f => f c
  | none => false

/-- the two timestamp tests exactly as written in CheckCert -/
def timeGo (now : Int) (va vb : Nat) : Bool :=
  if toInt64 va < 0 ∨ now < toInt64 va then false
  else if vb ≠ certTimeInfinity ∧ (now ≥ toInt64 vb ∨ toInt64 vb < 0) then false
  else true

def optsOk (supported : List Bytes) (crit : List (Bytes × Bytes)) : Bool :=
  crit.all (fun kv => kv.1 = sourceAddress || supported.contains kv.1)

def principalOk (principal : Bytes) (ps : List Bytes) : Bool :=
  ps.isEmpty || ps.contains principal

/-- `CheckCert` in the order of the code.  `verify key msg sig` is `skKeyWithoutUP(key).Verify(msg, sig)`. -/
def checkCert (verify : PubKey → Bytes → Sig → Bool) (ck : Checker) (principal : Bytes) (c : Cert) : Res :=
  if ck.revoked c then .reject
  else if !optsOk ck.supported c.critOpts then .reject
  else if !principalOk principal c.principals then .reject
  else if !timeGo ck.now c.validAfter c.validBefore then .reject
  else
    match c.bytesForSigning with
    | none => .panic
    | some msg =>
      match c.sig with
      | none => .panic           -- nil *Signature dereferenced in Verify
      | some s => if verify c.sigKey msg s then .accept else .reject

/-- The check the property asks for: same rules, but the CA signature is verified over the bytes
    that were RECEIVED (`recv` = the received blob without its trailing signature field). -/
def checkCertRecv (verify : PubKey → Bytes → Sig → Bool) (ck : Checker) (principal : Bytes) (c : Cert)
    (recvSigned : Bytes) : Res :=
  if ck.revoked c then .reject
  else if !optsOk ck.supported c.critOpts then .reject
  else if !principalOk principal c.principals then .reject
  else if !timeGo ck.now c.validAfter c.validBefore then .reject
  else
    match c.sig with
    | none => .panic
    | some s => if verify c.sigKey recvSigned s then .accept else .reject

/-- the received signed bytes of a blob that parsed to `c`: everything before the last field
    (the signature string, whose encoding is unique) -/
def recvSigned (b : Bytes) (c : Cert) : Bytes :=
  match c.sig with
  | none => b
  | some s => b.take (b.length - (putString (putSig s)).length)

/-! ## Authenticate / CheckHostKey -/

/-- result of a fallback / authority callback configuration -/
inductive Fallback where
  | unset | ok | err
deriving DecidableEq, Repr

structure AuthCfg where
  /-- `IsUserAuthority` / `IsHostAuthority`: `none` = nil, else the accepted CA key blobs -/
  authorities : Option (List Bytes)
  fallback : Fallback

/-- `Authenticate(conn, pubKey)`; `chk` is the CheckCert decision for `conn.User()` -/
def authenticate (cfg : AuthCfg) (key : AnyKey) (chk : Cert → Res) : Res :=
  match key with
  | .plain _ => (match cfg.fallback with | .ok => .accept | _ => .reject)
  | .cert c =>
    if c.certType ≠ 1 then .reject else
    match cfg.authorities with
    | none => .reject
    | some auths =>
      if !auths.contains c.sigKey.marshal then .reject else chk c

/-- `CheckHostKey(addr, remote, key)`; `split` = `net.SplitHostPort(addr)` (`none` = error) -/
def checkHostKey (cfg : AuthCfg) (key : AnyKey) (split : Option Bytes) (chk : Bytes → Cert → Res) : Res :=
  match key with
  | .plain _ => (match cfg.fallback with | .ok => .accept | _ => .reject)
  | .cert c =>
    if c.certType ≠ 2 then .reject else
    match cfg.authorities with
    | none => .reject
    | some auths =>
      if !auths.contains c.sigKey.marshal then .reject else
      match split with
      | none => .reject
      | some host => chk host c

/-! ## SignCert -/

/-- signature algorithm `SignCert` asks the authority for: first of `Algorithms()` for a
    MultiAlgorithmSigner (`algos = some l`), rsa-sha2-512 for an ssh-rsa AlgorithmSigner,
    else the key type (`Sign`).  `none` = error (empty list / certificate authority). -/
def signCertAlgo (caType : Bytes) (algos : Option (List Bytes)) (isAlgoSigner : Bool) : Option Bytes :=
  if certKeyAlgoNames.any (fun p => p.1 = caType) then none else
  match algos with
  | some [] => none
  | some (a :: _) => some a
  | none => if isAlgoSigner ∧ caType = algoRSA then some algoRSASHA512 else some caType

end XC.C41
