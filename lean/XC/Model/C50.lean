/-
  C50 — ACME client HTTP layer (acme/acme.go: popNonce, addNonce, clearNonces, fetchNonce, Discover,
  accountKID; acme/http.go: get, post, postNoRetry, retryTimer.backoff, isBadNonce, isRetriable;
  acme/rfc8555.go: the callers).

  Model of the code as written, for one goroutine driving one Client against an arbitrary server:
  the server is a list of replies (consumed one per request that reaches it), the client is a
  deterministic function of that list.  The nonce pool is a duplicate-free list; `Client.nonces` is a
  Go map whose iteration order is unspecified, so which element `popNonce` removes is a parameter
  (`pick`) of the model — the theorems hold for every `pick`, and `pool_le_one` shows that a single
  goroutine never has a choice.
-/
import XC.Basic
namespace XC.C50

inductive Method | head | get | post
deriving DecidableEq, Repr

/-- a request as the server sees it; `nonce`/`kidForm` are read from the JWS protected header -/
structure Req where
  method : Method
  url : String
  nonce : Option String := none
  kidForm : Bool := false
deriving DecidableEq, Repr

/-- a server response: status, problem `type` of the body ("" = none / not JSON), Replay-Nonce -/
structure Resp where
  status : Nat
  prob : String
  replayNonce : List String    -- the Replay-Nonce header fields of the response, in order (possibly empty strings)
  body : String := ""          -- what a 2xx body says: `<status>/<member>/…` ("bad" = not JSON); opaque but for its status
deriving DecidableEq, Repr

/-- `nonceFromHeader` = `h.Get("Replay-Nonce")`: the first field only; the callers (`addNonce`,
    `fetchNonce`) treat an empty value as "no nonce" -/
def nonceFromHeader (h : List String) : Option String :=
  match h with
  | [] => none
  | v :: _ => if v == "" then none else some v

/-- the nonce the client takes from a response -/
def Resp.nonce (p : Resp) : Option String := nonceFromHeader p.replayNonce

inductive Reply
  | resp (r : Resp)
  | fail                       -- transport error (no response)
  | cancel                     -- the reply is slow and the caller's context is cancelled while waiting
deriving DecidableEq, Repr

/-- what happened on the wire, newest first -/
inductive Ev
  | req (r : Req)
  | rep (r : Resp)
deriving DecidableEq, Repr

structure Cfg where
  nonceURL : Bool              -- the directory advertises newNonce
  backoffOK : Nat              -- RetryBackoff(n) > 0 iff n ≤ backoffOK
  cancelAt : Nat               -- the cancelAt-th call of RetryBackoff cancels the context (0 = never)
  pick : List String → Nat     -- which pool element popNonce takes (Go map iteration order)

structure St where
  pool : List String
  script : List Reply
  log : List Ev
  dir : Bool := false          -- directory cached
  kid : Bool := false          -- Client.KID known
  cancelled : Bool := false
  boCalls : Nat := 0

inductive Err
  | status (code : Nat) (prob : String)     -- *acme.Error built from a response
  | transport
  | ctx
  | noNonce                                 -- "acme: nonce not found"
  | exists_                                 -- ErrAccountAlreadyExists
  | noAccount                               -- ErrNoAccount
  | invalid                                 -- *AuthorizationError / *OrderError: the polled object became invalid
  | other                                   -- an untyped error (e.g. a 2xx body that does not decode)
deriving DecidableEq, Repr

def maxNonces : Nat := 100

/-- what a server with an exhausted script answers -/
def defaultResp : Resp := ⟨418, "", [], ""⟩

/-- one round trip. A cancelled context never reaches the server. -/
def serve (st : St) (r : Req) : St × Except Err Resp :=
  if st.cancelled then (st, .error .ctx) else
  match st.script with
  | [] => ({ st with log := .rep defaultResp :: .req r :: st.log }, .ok defaultResp)
  | .fail :: rest => ({ st with log := .req r :: st.log, script := rest }, .error .transport)
  | .cancel :: rest => ({ st with log := .req r :: st.log, script := rest, cancelled := true }, .error .ctx)
  | .resp p :: rest => ({ st with log := .rep p :: .req r :: st.log, script := rest }, .ok p)

/-- `addNonce` -/
def addNonce (pool : List String) (v : Option String) : List String :=
  match v with
  | none => pool
  | some v => if pool.length ≥ maxNonces then pool else if pool.contains v then pool else v :: pool

/-- `isBadNonce`: problem type ends in ":badnonce", case-insensitively -/
def isBadNonce (prob : String) : Bool := (prob.toLower).endsWith ":badnonce"

/-- `isRetriable` -/
def isRetriable (code : Nat) : Bool := code ≤ 399 || code ≥ 500 || code == 429

/-- `fetchNonce`: HEAD; a Replay-Nonce header is accepted whatever the status. A HEAD response has no
    body, so the error built from it has no problem type. -/
def fetchNonce (st : St) (url : String) : St × Except Err String :=
  match serve st ⟨.head, url, none, false⟩ with
  | (st, .error e) => (st, .error e)
  | (st, .ok p) =>
    match p.nonce with
    | some v => (st, .ok v)
    | none => if p.status > 299 then (st, .error (.status p.status "")) else (st, .error .noNonce)

def dirURL : String := "dir"
def nonceURL : String := "nonce"

/-- `popNonce` -/
def popNonce (cfg : Cfg) (st : St) (url : String) : St × Except Err String :=
  if st.pool.isEmpty then
    if st.dir && cfg.nonceURL then fetchNonce st nonceURL
    else
      match fetchNonce st dirURL with
      | (st, .error e) => if url != dirURL then fetchNonce st url else (st, .error e)
      | r => r
  else
    let i := cfg.pick st.pool % st.pool.length
    ({ st with pool := st.pool.eraseIdx i }, .ok (st.pool.getD i ""))

/-- `retryTimer.backoff` after `inc`: true = slept and may retry -/
def backoff (cfg : Cfg) (st : St) (n : Nat) : St × Bool :=
  let calls := st.boCalls + 1
  let st := { st with boCalls := calls, cancelled := st.cancelled || calls == cfg.cancelAt }
  (st, n ≤ cfg.backoffOK && !st.cancelled)

/-- outcome of one loop iteration: finished, or retry allowed (carrying the error of the last reply) -/
inductive StepRes
  | done (r : Except Err Resp)
  | again (last : Err)

/-- what `post`/`get` do with a response that is not ok: clear the pool on badNonce (post only), give
    up on a non-retriable status, else `retry.inc()` + `retry.backoff` -/
def afterReply (cfg : Cfg) (clearOnBad : Bool) (n : Nat) (st : St) (p : Resp) : St × StepRes :=
  let bad := clearOnBad && isBadNonce p.prob
  if !bad && !isRetriable p.status then (st, .done (.error (.status p.status p.prob)))
  else
    let b := backoff cfg (if bad then { st with pool := [] } else st) (n + 1)
    (b.1, if b.2 then .again (.status p.status p.prob) else .done (.error (.status p.status p.prob)))

/-- one iteration of the `post` loop = `postNoRetry` + the decision; `resolve` = how `postNoRetry`
    chooses JWK/KID form (it may itself talk to the server: accountKID) -/
def postStep (cfg : Cfg) (resolve : St → St × Bool) (url : String) (ok : List Nat) (n : Nat) (st : St) :
    St × StepRes :=
  let (st, kidForm) := resolve st
  match popNonce cfg st url with
  | (st, .error e) => (st, .done (.error e))
  | (st, .ok nonce) =>
    match serve st ⟨.post, url, some nonce, kidForm⟩ with
    | (st, .error e) => (st, .done (.error e))
    | (st, .ok p) =>
      let st := { st with pool := addNonce st.pool p.nonce }
      if ok.contains p.status then (st, .done (.ok p))
      else afterReply cfg true n st p

/-- the `post` retry loop; `n` = retries so far -/
def postLoop (cfg : Cfg) (resolve : St → St × Bool) (url : String) (ok : List Nat) (n : Nat) (st : St) :
    St × Except Err Resp :=
  match postStep cfg resolve url ok n st with
  | (st, .done r) => (st, r)
  | (st, .again last) =>
    if n + 1 ≤ cfg.backoffOK then postLoop cfg resolve url ok (n + 1) st
    else (st, .error last)      -- not reached: `again` implies n + 1 ≤ backoffOK
termination_by cfg.backoffOK + 1 - n
decreasing_by omega

/-- an explicit signing key: JWK form, no lookup -/
def resolveJWK (st : St) : St × Bool := (st, false)

def acctURL : String := "acct"

/-- `accountKID`: cached, else one `getRegRFC` round (`onlyReturnExisting`, JWK form, wants 200) -/
def accountKID (cfg : Cfg) (st : St) : St × Bool :=
  if st.kid then (st, true) else
  match postLoop cfg resolveJWK acctURL [200] 0 st with
  | (st, .ok p) => if p.body == "bad" then (st, false) else ({ st with kid := true }, true)   -- responseAccount must decode
  | (st, .error _) => (st, false)

/-- `Client.post` with `key == nil` (account key, KID form when known) or with an explicit key -/
def post (cfg : Cfg) (explicitKey : Bool) (url : String) (ok : List Nat) (st : St) : St × Except Err Resp :=
  postLoop cfg (if explicitKey then resolveJWK else accountKID cfg) url ok 0 st

def getStep (cfg : Cfg) (url : String) (ok : List Nat) (n : Nat) (st : St) : St × StepRes :=
  match serve st ⟨.get, url, none, false⟩ with
  | (st, .error e) => (st, .done (.error e))
  | (st, .ok p) =>
    if ok.contains p.status then (st, .done (.ok p))
    else afterReply cfg false n st p

/-- the `get` retry loop (no nonce handling inside) -/
def getLoop (cfg : Cfg) (url : String) (ok : List Nat) (n : Nat) (st : St) : St × Except Err Resp :=
  match getStep cfg url ok n st with
  | (st, .done r) => (st, r)
  | (st, .again last) =>
    if n + 1 ≤ cfg.backoffOK then getLoop cfg url ok (n + 1) st
    else (st, .error last)
termination_by cfg.backoffOK + 1 - n
decreasing_by omega

/-- `Discover` -/
def discover (cfg : Cfg) (st : St) : St × Except Err Unit :=
  if st.dir then (st, .ok ()) else
  match getLoop cfg dirURL [200] 0 st with
  | (st, .error e) => (st, .error e)
  | (st, .ok p) => ({ st with pool := addNonce st.pool p.nonce, dir := true }, .ok ())

/-- one signed request of the public API: which key signs, where to, which statuses count as success,
    whether the 2xx body is decoded, and which problem type is turned into another result -/
structure Simple where
  explicitKey : Bool          -- signed with a key given by the caller (JWK form), else account key (KID form if known)
  needKid : Bool              -- the URL is the account URL: `accountKID` first, ErrNoAccount if unknown
  url : String
  ok : List Nat
  decode : Bool               -- a 2xx body that is not JSON is an error
  okStates : List String := [] -- if non-empty: the decoded object must be in one of these states
  soft : String := ""         -- this problem type of an error reply …
  softErr : Option Err := none --   … becomes this error (none = success)
deriving DecidableEq, Repr

/-- the public calls the harness drives -/
inductive Call
  | discover
  | simple (s : Simple)
  | register             -- Register: POST acct signed with the explicit account key, wants 200/201
  | waitAuthz            -- WaitAuthorization: poll authz (200/202) until valid / invalid
  | waitOrder            -- WaitOrder: poll order (200) until ready / valid / invalid
  | createOrderCert      -- CreateOrderCert: finalize, WaitOrder unless already valid, fetch the chain
deriving DecidableEq, Repr

inductive Outcome
  | ok
  | okBody (b : String)  -- success, the returned object was decoded from this body
  | err (e : Err)
deriving DecidableEq, Repr

/-- the `status` member of a body token -/
def bodyStatus (b : String) : String := (b.splitOn "/").headD ""

/-- does the body token name this optional member? -/
def hasMember (b k : String) : Bool := ((b.splitOn "/").drop 1).any fun m => (m.splitOn "=").headD "" == k

def kidURL : String := "acct/1"

def runSimple (cfg : Cfg) (s : Simple) (st : St) : St × Outcome :=
  let go (url : String) (st : St) : St × Outcome :=
    match post cfg s.explicitKey url s.ok st with
    | (st, .ok p) =>
      if s.decode && p.body == "bad" then (st, .err .other)
      else if s.decode && !s.okStates.isEmpty && !s.okStates.contains (bodyStatus p.body) then (st, .err .other)
      else (st, if s.decode then .okBody p.body else .ok)
    | (st, .error (.status c pr)) =>
      if s.soft != "" && pr == s.soft then
        (st, match s.softErr with | none => .ok | some e => .err e)
      else (st, .err (.status c pr))
    | (st, .error e) => (st, .err e)
  if s.needKid then
    match accountKID cfg st with
    | (st, true) => go s.url st
    | (st, false) => (st, .err .noAccount)
  else go s.url st

/-- `WaitAuthorization` / `WaitOrder`: POST-as-GET until the object reaches a final state. `fuel` bounds
    the recursion (every round consumes a reply or fails; the top level passes script length + 1). -/
def pollLoop (cfg : Cfg) (url : String) (ok : List Nat) (final : List String) (fuel : Nat) (st : St) : St × Outcome :=
  match fuel with
  | 0 => (st, .err .other)
  | fuel + 1 =>
    match post cfg false url ok st with
    | (st, .error e) => (st, .err e)
    | (st, .ok p) =>
      if p.body == "bad" then pollLoop cfg url ok final fuel st          -- does not decode: skip and retry
      else if bodyStatus p.body == "invalid" then (st, .err .invalid)
      else if final.contains (bodyStatus p.body) then (st, .okBody p.body)
      else pollLoop cfg url ok final fuel st

def waitOrder (cfg : Cfg) (url : String) (st : St) : St × Outcome :=
  pollLoop cfg url [200] ["ready", "valid"] (st.script.length + 1) st

def runCall (cfg : Cfg) (st : St) (c : Call) : St × Outcome :=
  match discover cfg st with
  | (st, .error e) => (st, .err e)
  | (st, .ok ()) =>
    match c with
    | .discover => (st, .ok)
    | .simple s => runSimple cfg s st
    | .register =>
      match post cfg true acctURL [200, 201] st with
      | (st, .ok p) =>
        if p.body == "bad" then (st, .err .other)
        else ({ st with kid := true }, if p.status == 200 then .err .exists_ else .ok)
      | (st, .error e) => (st, .err e)
    | .waitAuthz => pollLoop cfg "authz" [200, 202] ["valid"] (st.script.length + 1) st
    | .waitOrder => waitOrder cfg "order" st
    | .createOrderCert =>
      match post cfg false "fin" [200] st with
      | (st, .error e) => (st, .err e)
      | (st, .ok p) =>
        if p.body == "bad" then (st, .err .other) else
        let r : St × Outcome := if bodyStatus p.body == "valid" then (st, .okBody p.body) else waitOrder cfg "loc" st
        match r with
        | (st, .okBody b) =>
          if bodyStatus b != "valid" then (st, .err .invalid)
          else
            -- `o.CertURL` is whatever the final order object said (nothing, if the member is missing);
            -- the scripted CA serves a PEM chain at its certificate URL only
            let certURL := if hasMember b "crt" then "cert" else ""
            match post cfg false certURL [200] st with
            | (st, .ok q) => if q.body == "bad" || certURL != "cert" then (st, .err .other) else (st, .okBody q.body)
            | (st, .error e) => (st, .err e)
        | r => r

/-- the signing methods of `acme.Client`, by the letters of the op line -/
def apiTable : List (String × Call) :=
  let pd := "urn:ietf:params:acme:error:"
  [ ("D", .discover), ("N", .register), ("W", .waitAuthz), ("V", .waitOrder), ("X", .createOrderCert),
    ("R", .simple { explicitKey := false, needKid := false, url := "authz", ok := [200], decode := false }),        -- RevokeAuthorization
    ("O", .simple { explicitKey := false, needKid := false, url := "order", ok := [201], decode := true }),         -- AuthorizeOrder
    ("A", .simple { explicitKey := false, needKid := false, url := "chal", ok := [200, 202], decode := true }),     -- Accept
    ("G", .simple { explicitKey := false, needKid := false, url := "authz", ok := [200], decode := true }),         -- GetAuthorization
    ("Q", .simple { explicitKey := false, needKid := false, url := "order", ok := [200], decode := true }),         -- GetOrder
    ("C", .simple { explicitKey := false, needKid := false, url := "chal", ok := [200, 202], decode := true }),     -- GetChallenge
    ("F", .simple { explicitKey := false, needKid := false, url := "cert", ok := [200], decode := true }),          -- FetchCert
    ("L", .simple { explicitKey := false, needKid := false, url := "cert", ok := [200], decode := false }),         -- ListCertAlternates
    ("U", .simple { explicitKey := false, needKid := true, url := kidURL, ok := [200], decode := true }),           -- UpdateReg
    ("T", .simple { explicitKey := false, needKid := true, url := kidURL, ok := [200], decode := false }),          -- DeactivateReg
    ("Y", .simple { explicitKey := false, needKid := true, url := "keychange", ok := [200], decode := false }),     -- AccountKeyRollover
    ("E", .simple { explicitKey := true, needKid := false, url := acctURL, ok := [200], decode := true,
                    soft := pd ++ "accountDoesNotExist", softErr := some .noAccount }),                             -- GetReg
    ("K", .simple { explicitKey := true, needKid := false, url := "revoke", ok := [200], decode := false,
                    soft := pd ++ "alreadyRevoked" }),                                                              -- RevokeCert(key)
    ("k", .simple { explicitKey := false, needKid := false, url := "revoke", ok := [200], decode := false,
                    soft := pd ++ "alreadyRevoked" }),                                                              -- RevokeCert(nil)
    ("Z", .simple { explicitKey := false, needKid := false, url := "newauthz", ok := [201], decode := true,
                    okStates := ["pending", "valid"] }) ]                                                           -- Authorize

def runCalls (cfg : Cfg) (st : St) : List Call → St × List Outcome
  | [] => (st, [])
  | c :: cs =>
    let (st, o) := runCall cfg st c
    let (st, os) := runCalls cfg st cs
    (st, o :: os)

/-! ## `defaultBackoff` (used when `Client.RetryBackoff` is nil) -/

/-- the Retry-After header of the failed response, as `retryAfter` reads it -/
inductive RetryAfter
  | absent
  | secs (i : Int)        -- strconv.Atoi succeeded
  | invalid               -- neither an integer nor an HTTP date: 0
deriving DecidableEq, Repr

def second : Int := 1000000000
def maxBackoff : Int := 10 * second

/-- `defaultBackoff(n, _, res)` in nanoseconds; `jitter` is the random 1..1000 ms it adds -/
def defaultBackoff (n : Int) (ra : RetryAfter) (jitter : Int) : Int :=
  match ra with
  | .secs i => i * second + jitter
  | .invalid => jitter
  | .absent =>
    let n := if n < 1 then 1 else if n > 30 then 30 else n
    min (2 ^ (n - 1).toNat * second + jitter) maxBackoff

/-- the whole seconds of `d − 1ns`, rounded down: independent of the jitter (`dbo_floor_indep`) -/
def backoffSeconds (n : Int) (ra : RetryAfter) : Int :=
  match ra with
  | .secs i => i
  | .invalid => 0
  | .absent =>
    let n := if n < 1 then 1 else if n > 30 then 30 else n
    if n ≥ 5 then 9 else 2 ^ (n - 1).toNat

/-! ## readings of the wire log -/

/-- nonces received in response headers, newest first -/
def issuedOf : List Ev → List String
  | [] => []
  | .rep p :: l => (match p.nonce with | some v => v :: issuedOf l | none => issuedOf l)
  | .req _ :: l => issuedOf l

/-- nonces sent in signed requests, newest first -/
def usedOf : List Ev → List String
  | [] => []
  | .req r :: l => (match r.nonce with | some v => v :: usedOf l | none => usedOf l)
  | .rep _ :: l => usedOf l

def requestsOf : List Ev → List Req
  | [] => []
  | .req r :: l => r :: requestsOf l
  | .rep _ :: l => requestsOf l

def scriptNonces : List Reply → List String
  | [] => []
  | .resp p :: l => (match p.nonce with | some v => v :: scriptNonces l | none => scriptNonces l)
  | .fail :: l => scriptNonces l
  | .cancel :: l => scriptNonces l

end XC.C50
