/-
  C43 — the pipelined agent client (ssh/agent/client.go: pipeline.call / readLoop) and the keyring mutex,
  as labelled transition systems over an abstract sequential server `step : σ → Req → σ × Rep`.

  pipeline.call, under writeMu:  enqueue the caller's reply channel on `pending`, then write the request.
  server (ServeAgent):            take the oldest request off the wire, answer it.
  readLoop:                       read one reply, pop the head of `pending`, hand the reply to it.
-/
import XC.Basic
namespace XC.C43.Pipe

structure PState (σ Req Rep : Type) where
  srv : σ
  wire : List Req                 -- requests written, not yet read by the server
  pending : List Nat              -- FIFO of waiting callers (the chan-of-chan)
  replies : List Rep              -- replies written by the server, not yet read by readLoop
  delivered : List (Nat × Rep)    -- (caller, reply) in delivery order
  sent : List (Nat × Req)         -- ghost: every call made, in write order

inductive PStep {σ Req Rep : Type} (step : σ → Req → σ × Rep) : PState σ Req Rep → PState σ Req Rep → Prop
  | call (s : PState σ Req Rep) (c : Nat) (q : Req) :
      PStep step s { s with pending := s.pending ++ [c], wire := s.wire ++ [q], sent := s.sent ++ [(c, q)] }
  | serve (s : PState σ Req Rep) (q : Req) (w : List Req) (h : s.wire = q :: w) :
      PStep step s { s with srv := (step s.srv q).1, wire := w, replies := s.replies ++ [(step s.srv q).2] }
  | read (s : PState σ Req Rep) (rp : Rep) (rs : List Rep) (c : Nat) (ps : List Nat)
      (h1 : s.replies = rp :: rs) (h2 : s.pending = c :: ps) :
      PStep step s { s with replies := rs, pending := ps, delivered := s.delivered ++ [(c, rp)] }

/-- the sequential server run on a list of requests -/
def seqRun {σ Req Rep : Type} (step : σ → Req → σ × Rep) : σ → List Req → σ × List Rep
  | s, [] => (s, [])
  | s, q :: qs =>
    let (s', r) := step s q
    let (s'', rs) := seqRun step s' qs
    (s'', r :: rs)

inductive Reach {σ Req Rep : Type} (step : σ → Req → σ × Rep) (s0 : σ) : PState σ Req Rep → Prop
  | init : Reach step s0 ⟨s0, [], [], [], [], []⟩
  | next {s t} : Reach step s0 s → PStep step s t → Reach step s0 t

/-! keyring mutex: every Agent method runs entirely inside `r.mu.Lock()/Unlock()`, so a concurrent
    execution is an interleaving of ATOMIC steps of the callers' programs. -/

/-- one scheduling decision: thread `i` runs its next operation to completion -/
def runSchedule {σ Op Res : Type} (step : σ → Op → σ × Res) :
    σ → List (List Op) → List Nat → σ × List (Nat × Res)
  | s, _, [] => (s, [])
  | s, progs, i :: sched =>
    match progs[i]? with
    | some (op :: rest) =>
      let (s', r) := step s op
      let (s'', out) := runSchedule step s' (progs.set i rest) sched
      (s'', (i, r) :: out)
    | _ => runSchedule step s progs sched

/-- the operations a schedule executes, in execution order -/
def linearization {Op : Type} : List (List Op) → List Nat → List Op
  | _, [] => []
  | progs, i :: sched =>
    match progs[i]? with
    | some (op :: rest) => op :: linearization (progs.set i rest) sched
    | _ => linearization progs sched

end XC.C43.Pipe
