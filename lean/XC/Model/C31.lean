/-
  C31 — re-keying under concurrent writers (ssh/handshake.go: writePacket, sendKexInit, kexLoop,
  enterKeyExchange, requestKeyExchange).

  One endpoint's send side as a labelled transition system whose atomic steps are the `t.mu` critical
  sections (and the un-locked pushes of `enterKeyExchange`, which run while `sentInitMsg != nil`):

    submit w   `writePacket` of writer w's next packet (w, next w) up to its first unlock:
                 ¬sentInit            → pushed on the wire
                 sentInit, |pending|<64 → appended to `pendingPackets` (writePacket returns nil)
                 sentInit, |pending|=64 → `writeCond.Wait()`: the writer is parked with its packet
    wake w     a parked writer that was signalled re-acquires `t.mu`: still `sentInitMsg != nil` → waits again,
               otherwise pushes its packet
    kexinit    `sendKexInit`: pushes KEXINIT and sets `sentInitMsg` in one critical section
    kexmsg     `enterKeyExchange` pushes a kex-method message (or EXT_INFO after NEWKEYS)
    newkeys    `enterKeyExchange` pushes NEWKEYS
    finish     the critical section of `kexLoop` after `enterKeyExchange`: clears `sentInitMsg`, pushes all
               pending packets in order, empties the queue, `writeCond.Broadcast()`

  Writers are natural numbers; writer w's k-th packet is (w, k). `sync.Cond.Wait` has no spurious wake-ups.
  Errors (`writeError`) are not modelled: the statements are about runs without transport errors.
-/
import XC.Basic
namespace XC.C31

/-- what is pushed to the keyingTransport, in order -/
inductive Item
  | app (w n : Nat)
  | kexinit
  | kexmsg
  | newkeys
deriving DecidableEq, Repr

inductive KPhase
  | idle        -- no key exchange in progress on this side
  | sent        -- our KEXINIT is on the wire, our NEWKEYS not yet
  | finishing   -- our NEWKEYS is on the wire, the closing critical section has not run yet
deriving DecidableEq, Repr

structure Parked where
  w : Nat
  n : Nat
  signalled : Bool
deriving DecidableEq, Repr

def maxPending : Nat := 64

structure St where
  sentInit : Bool
  kphase : KPhase
  pending : List (Nat × Nat)
  parked : List Parked
  wire : List Item
  next : Nat → Nat              -- how many packets each writer has submitted so far

def init : St := ⟨false, .idle, [], [], [], fun _ => 0⟩

inductive Label
  | submit (w : Nat)
  | wake (w : Nat)
  | kexinit
  | kexmsg
  | newkeys
  | finish
deriving DecidableEq, Repr

def isParked (s : St) (w : Nat) : Bool := s.parked.any (fun p => p.w == w)

def bump (f : Nat → Nat) (w : Nat) : Nat → Nat := fun x => if x = w then f x + 1 else f x

/-- `none` = the label is not enabled in this state -/
def step (s : St) : Label → Option St
  | .submit w =>
    if isParked s w then none else
    let p := (w, s.next w)
    if !s.sentInit then
      some { s with wire := s.wire ++ [.app p.1 p.2], next := bump s.next w }
    else if s.pending.length < maxPending then
      some { s with pending := s.pending ++ [p], next := bump s.next w }
    else
      some { s with parked := s.parked ++ [⟨p.1, p.2, false⟩], next := bump s.next w }
  | .wake w =>
    match s.parked.find? (fun p => p.w == w) with
    | none => none
    | some p =>
      if !p.signalled then none
      else if s.sentInit then
        some { s with parked := s.parked.map (fun q => if q.w == w then { q with signalled := false } else q) }
      else
        some { s with parked := s.parked.filter (fun q => !(q.w == w)), wire := s.wire ++ [.app p.w p.n] }
  | .kexinit =>
    if s.kphase == .idle && !s.sentInit then
      some { s with wire := s.wire ++ [.kexinit], sentInit := true, kphase := .sent }
    else none
  | .kexmsg =>
    if s.kphase == .idle then none else some { s with wire := s.wire ++ [.kexmsg] }
  | .newkeys =>
    if s.kphase == .sent then some { s with wire := s.wire ++ [.newkeys], kphase := .finishing } else none
  | .finish =>
    if s.kphase == .finishing then
      some { s with sentInit := false, kphase := .idle,
                    wire := s.wire ++ s.pending.map (fun p => Item.app p.1 p.2), pending := [],
                    parked := s.parked.map (fun q => { q with signalled := true }) }
    else none

def runFrom (s : St) : List Label → Option St
  | [] => some s
  | l :: ls => match step s l with
    | none => none
    | some s' => runFrom s' ls

/-! ## the safety predicates evaluated on an observed wire trace -/

/-- scan: `inKex` = between our KEXINIT and our NEWKEYS. `false` as soon as an application packet appears
    inside, a KEXINIT is repeated inside, or a NEWKEYS appears outside. -/
def wireScan : Bool → List Item → Bool
  | _, [] => true
  | inKex, .app _ _ :: r => !inKex && wireScan inKex r
  | inKex, .kexinit :: r => !inKex && wireScan true r
  | inKex, .kexmsg :: r => wireScan inKex r
  | inKex, .newkeys :: r => inKex && wireScan false r

/-- no application packet between this side's KEXINIT and its NEWKEYS -/
def wireOK (wire : List Item) : Bool := wireScan false wire

def inKexAfter : Bool → List Item → Bool
  | b, [] => b
  | b, .app _ _ :: r => inKexAfter b r
  | _, .kexinit :: r => inKexAfter true r
  | b, .kexmsg :: r => inKexAfter b r
  | _, .newkeys :: r => inKexAfter false r

/-- sequence numbers of writer w's packets on the wire, in wire order -/
def onWire (w : Nat) : List Item → List Nat
  | [] => []
  | .app v n :: r => if v = w then n :: onWire w r else onWire w r
  | _ :: r => onWire w r

/-- writer w's packets appear exactly once and in submission order: 0, 1, …, k−1 -/
def writerOrdered (w : Nat) (count : Nat) (wire : List Item) : Bool := onWire w wire == List.range count

/-- application packets of the wire in order (what the peer must receive, in this order) -/
def appsOf : List Item → List (Nat × Nat)
  | [] => []
  | .app w n :: r => (w, n) :: appsOf r
  | _ :: r => appsOf r

end XC.C31
