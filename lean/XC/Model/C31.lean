/-
  C31 — re-keying under concurrent writers (ssh/handshake.go: writePacket, sendKexInit, kexLoop,
  enterKeyExchange, requestKeyExchange).

  One endpoint's send side as a labelled transition system whose atomic steps are the `t.mu` critical
  sections (and the un-locked pushes of `enterKeyExchange`, which run while `sentInitMsg != nil`):

    submit w   `writePacket` of writer w's next packet (w, next w) up to its first unlock:
                 ¬sentInit            → pushed on the wire
                 sentInit, |pending|<64 → appended to `pendingPackets` (writePacket returns nil)
                 sentInit, |pending|=64 → `writeCond.Wait()`: the writer is parked with its packet
    wake w     a parked writer that was signalled re-acquires `t.mu`: still `sentInitMsg != nil` → waits again,
               otherwise pushes its packet
    kexinit    `sendKexInit`: pushes KEXINIT and sets `sentInitMsg` in one critical section
    kexmsg     `enterKeyExchange` pushes a kex-method message (or EXT_INFO after NEWKEYS)
    newkeys    `enterKeyExchange` pushes NEWKEYS
    finish     the critical section of `kexLoop` after `enterKeyExchange`: clears `sentInitMsg`, pushes all
               pending packets in order, empties the queue, `writeCond.Broadcast()`

  Writers are natural numbers; writer w's k-th packet is (w, k). `sync.Cond.Wait` has no spurious wake-ups.
  Errors (`writeError`) are not modelled: the statements are about runs without transport errors.
-/
import XC.Basic
namespace XC.C31

/-- what is pushed to the keyingTransport, in order -/
inductive Item
  | app (w n : Nat)
  | kexinit
  | kexmsg
  | newkeys
deriving DecidableEq, Repr

inductive KPhase
  | idle        -- no key exchange in progress on this side
  | sent        -- our KEXINIT is on the wire, our NEWKEYS not yet
  | finishing   -- our NEWKEYS is on the wire, the closing critical section has not run yet
deriving DecidableEq, Repr

structure Parked where
  w : Nat
  n : Nat
  signalled : Bool
deriving DecidableEq, Repr

def maxPending : Nat := 64

structure St where
  sentInit : Bool
  kphase : KPhase
  pending : List (Nat × Nat)
  parked : List Parked
  wire : List Item
  next : Nat → Nat              -- how many packets each writer has submitted so far

def init : St := ⟨false, .idle, [], [], [], fun _ => 0⟩

inductive Label
  | submit (w : Nat)
  | wake (w : Nat)
  | kexinit
  | kexmsg
  | newkeys
  | finish
deriving DecidableEq, Repr

def isParked (s : St) (w : Nat) : Bool := s.parked.any (fun p => p.w == w)

def bump (f : Nat → Nat) (w : Nat) : Nat → Nat := fun x => if x = w then f x + 1 else f x

/-- `none` = the label is not enabled in this state -/
def step (s : St) : Label → Option St
  | .submit w =>
    if isParked s w then none else
    let p := (w, s.next w)
    if !s.sentInit then
      some { s with wire := s.wire ++ [.app p.1 p.2], next := bump s.next w }
    else if s.pending.length < maxPending then
      some { s with pending := s.pending ++ [p], next := bump s.next w }
    else
      some { s with parked := s.parked ++ [⟨p.1, p.2, false⟩], next := bump s.next w }
  | .wake w =>
    match s.parked.find? (fun p => p.w == w) with
    | none => none
    | some p =>
      if !p.signalled then none
      else if s.sentInit then
        some { s with parked := s.parked.map (fun q => if q.w == w then { q with signalled := false } else q) }
      else
        some { s with parked := s.parked.filter (fun q => !(q.w == w)), wire := s.wire ++ [.app p.w p.n] }
  | .kexinit =>
    if s.kphase == .idle && !s.sentInit then
      some { s with wire := s.wire ++ [.kexinit], sentInit := true, kphase := .sent }
    else none
  | .kexmsg =>
    if s.kphase == .idle then none else some { s with wire := s.wire ++ [.kexmsg] }
  | .newkeys =>
    if s.kphase == .sent then some { s with wire := s.wire ++ [.newkeys], kphase := .finishing } else none
  | .finish =>
    if s.kphase == .finishing then
      some { s with sentInit := false, kphase := .idle,
                    wire := s.wire ++ s.pending.map (fun p => Item.app p.1 p.2), pending := [],
                    parked := s.parked.map (fun q => { q with signalled := true }) }
    else none

def runFrom (s : St) : List Label → Option St
  | [] => some s
  | l :: ls => match step s l with
    | none => none
    | some s' => runFrom s' ls

/-! ## the safety predicates evaluated on an observed wire trace -/

/-- scan: `inKex` = between our KEXINIT and our NEWKEYS. `false` as soon as an application packet appears
    inside, a KEXINIT is repeated inside, or a NEWKEYS appears outside. -/
def wireScan : Bool → List Item → Bool
  | _, [] => true
  | inKex, .app _ _ :: r => !inKex && wireScan inKex r
  | inKex, .kexinit :: r => !inKex && wireScan true r
  | inKex, .kexmsg :: r => wireScan inKex r
  | inKex, .newkeys :: r => inKex && wireScan false r

/-- no application packet between this side's KEXINIT and its NEWKEYS -/
def wireOK (wire : List Item) : Bool := wireScan false wire

def inKexAfter : Bool → List Item → Bool
  | b, [] => b
  | b, .app _ _ :: r => inKexAfter b r
  | _, .kexinit :: r => inKexAfter true r
  | b, .kexmsg :: r => inKexAfter b r
  | _, .newkeys :: r => inKexAfter false r

/-- sequence numbers of writer w's packets on the wire, in wire order -/
def onWire (w : Nat) : List Item → List Nat
  | [] => []
  | .app v n :: r => if v = w then n :: onWire w r else onWire w r
  | _ :: r => onWire w r

/-- writer w's packets appear exactly once and in submission order: 0, 1, …, k−1 -/
def writerOrdered (w : Nat) (count : Nat) (wire : List Item) : Bool := onWire w wire == List.range count

/-- application packets of the wire in order (what the peer must receive, in this order) -/
def appsOf : List Item → List (Nat × Nat)
  | [] => []
  | .app w n :: r => (w, n) :: appsOf r
  | _ :: r => appsOf r

/-! ## the receive side across key changes (readLoop / readOnePacket / kexLoop reading during a kex)

  What arrives from the peer is the peer's wire. `readLoop` hands application packets to `incoming` in arrival
  order; the peer's KEXINIT makes `readOnePacket` block on `startKex` / `kex.done` while `kexLoop` itself reads the
  kex messages and the peer's NEWKEYS from the connection; afterwards `readLoop` continues. A kex message outside a key
  exchange (EXT_INFO after NEWKEYS) is passed up like any other non-application packet. An application packet
  or a second KEXINIT inside the key exchange makes the kex method fail; a NEWKEYS outside is "bogus newkeys". -/

inductive RPhase | idle | inKex | failed
deriving DecidableEq, Repr

structure RSt where
  phase : RPhase
  delivered : List (Nat × Nat)      -- application packets put into `incoming`, in order
deriving DecidableEq, Repr

def rinit : RSt := ⟨.idle, []⟩

def recv (s : RSt) (it : Item) : RSt :=
  match s.phase, it with
  | .failed, _ => s
  | .idle, .app w n => { s with delivered := s.delivered ++ [(w, n)] }
  | .idle, .kexinit => { s with phase := .inKex }
  | .idle, .kexmsg => s
  | .idle, .newkeys => { s with phase := .failed }
  | .inKex, .app _ _ => { s with phase := .failed }
  | .inKex, .kexinit => { s with phase := .failed }
  | .inKex, .kexmsg => s
  | .inKex, .newkeys => { s with phase := .idle }

def recvRun (s : RSt) (l : List Item) : RSt := l.foldl recv s

/-! ## threshold accounting (writeBytesLeft / writePacketsLeft in `writePacket`, and identically
     readBytesLeft / readPacketsLeft in `readOnePacket`) and the re-key request channel

  push z     a packet of z bytes takes the direct path (`sentInitMsg == nil`): for each of the two budgets,
             `if left > 0 { left -= … } else { requestKeyExchange() }`
  request    an explicit `requestKeyExchange()` (non-blocking send on the capacity-1 channel)
  take       `kexLoop` receives from `requestKex` while idle and goes on to `sendKexInit`
  peerInit   `kexLoop` receives the peer's KEXINIT from `startKex` while idle and goes on to `sendKexInit`
  drain      `kexLoop` receives from `requestKex` while our KEXINIT is already out (no effect besides emptying it)
  kexinit    `sendKexInit`
  finish     the closing critical section: `resetWriteThresholds()`, the channel is emptied; the queued packets
             it flushes are *not* charged to the new budget
  `counted`, `direct`, `over` are ghost variables. -/

def packetBudget : Nat := 2 ^ 31

structure BSt where
  thr : Nat                 -- RekeyThreshold in effect
  bytesLeft : Int
  pktsLeft : Nat
  reqKex : Bool             -- a token sits in the requestKex channel
  woken : Bool              -- kexLoop has decided to send KEXINIT and has not done it yet
  sentInit : Bool
  counted : Nat             -- ghost: bytes charged to the byte budget since the last reset
  direct : Nat              -- ghost: bytes of all direct pushes since the last reset
  over : Nat                -- ghost: direct pushes since the last reset that found a budget exhausted

def binit (thr : Nat) : BSt := ⟨thr, thr, packetBudget, false, false, false, 0, 0, 0⟩

inductive BLabel
  | push (z : Nat)
  | request
  | take
  | peerInit
  | drain
  | kexinit
  | finish
deriving DecidableEq, Repr

def bstep (s : BSt) : BLabel → Option BSt
  | .push z =>
    if s.sentInit then none else
    let bytesEx := decide (s.bytesLeft ≤ 0)
    let pktsEx := decide (s.pktsLeft = 0)
    some { s with
      bytesLeft := if bytesEx then s.bytesLeft else s.bytesLeft - z,
      counted := if bytesEx then s.counted else s.counted + z,
      pktsLeft := if pktsEx then s.pktsLeft else s.pktsLeft - 1,
      reqKex := s.reqKex || bytesEx || pktsEx,
      over := if bytesEx || pktsEx then s.over + 1 else s.over,
      direct := s.direct + z }
  | .request => some { s with reqKex := true }
  | .take => if s.reqKex && !s.woken && !s.sentInit then some { s with reqKex := false, woken := true } else none
  | .peerInit => if !s.woken && !s.sentInit then some { s with woken := true } else none
  | .drain => if s.reqKex && s.sentInit then some { s with reqKex := false } else none
  | .kexinit => if s.woken && !s.sentInit then some { s with woken := false, sentInit := true } else none
  | .finish =>
    if s.sentInit then
      some { s with sentInit := false, bytesLeft := s.thr, pktsLeft := packetBudget, reqKex := false,
                    counted := 0, direct := 0, over := 0 }
    else none

def brun (s : BSt) : List BLabel → Option BSt
  | [] => some s
  | l :: ls => match bstep s l with
    | none => none
    | some s' => brun s' ls

/-- every pushed packet is at most `m` bytes -/
def sizesBounded (m : Nat) : List BLabel → Bool
  | [] => true
  | .push z :: r => decide (z ≤ m) && sizesBounded m r
  | _ :: r => sizesBounded m r

/-- the acceptor for recorded traces: application packets as (size, bytesLeft shown by the implementation when the
    packet was pushed), `none` = a NEWKEYS of this side (after which the budget is reset and queued packets are
    flushed uncharged). `cur` = budget after the previous event, `flush` = still inside the uncharged flush. -/
def budgetScan (thr : Int) : Int → Bool → List (Option (Nat × Int)) → Bool
  | _, _, [] => true
  | _, _, none :: r => budgetScan thr thr true r
  | cur, flush, some (z, l) :: r =>
    if decide (0 < cur) && l == cur - z then budgetScan thr l false r          -- charged
    else if l == cur && (flush || decide (cur ≤ 0)) then budgetScan thr cur flush r   -- flushed, or budget exhausted
    else false

/-- `Config.SetDefaults` + `resetWriteThresholds`: the byte budget in effect for a configured RekeyThreshold:
    0 ↦ the cipher's default (`rekeyBytes`: 2^36 for the AES ciphers, 2^30 otherwise), 1..255 ↦ 256 (minimum),
    ≥ 2^63 − 1 ↦ 2^63 − 1 (so that the int64 budget cannot go negative by conversion) -/
def effectiveThreshold (thr : Nat) (cipher : String) : Nat :=
  if thr == 0 then
    (if cipher == "aes128-ctr" || cipher == "aes192-ctr" || cipher == "aes256-ctr" || cipher == "aes128-gcm@openssh.com"
        || cipher == "aes256-gcm@openssh.com" || cipher == "aes128-cbc" then 16 * 2 ^ 32 else 2 ^ 30)
  else if thr < 256 then 256
  else if thr ≥ 2 ^ 63 - 1 then 2 ^ 63 - 1
  else thr

/-! ## the error path (`writeError`): `recordWriteError`, a failing push in `writePacket`, a failed key exchange

  fail        `writeError` is set and `writeCond.Broadcast()` is called (recordWriteError / writePacket's own failure)
  submitErr w `writePacket` while `writeError != nil`: returns the error, nothing is queued or pushed
  wake w      a parked writer wakes with `writeError != nil`: returns the error, its packet is dropped
  finishErr   the closing critical section of `kexLoop` after `enterKeyExchange` returned an error:
              `t.writeError = err`, `sentInitMsg = nil`, the flush is skipped (`if t.writeError == nil { … }`),
              the queue is dropped, `writeCond.Broadcast()` -/

structure ESt where
  s : St
  err : Bool

def einit : ESt := ⟨init, false⟩

inductive ELabel
  | ok (l : Label)
  | fail
  | submitErr (w : Nat)
  | finishErr
deriving DecidableEq, Repr

def estep (e : ESt) : ELabel → Option ESt
  | .ok (.wake w) =>
    if e.err then
      match e.s.parked.find? (fun p => p.w == w) with
      | none => none
      | some p => if !p.signalled then none
                  else some { e with s := { e.s with parked := e.s.parked.filter (fun q => !(q.w == w)) } }
    else (step e.s (.wake w)).map (fun s' => { e with s := s' })
  | .ok l => if e.err then none else (step e.s l).map (fun s' => { e with s := s' })
  | .fail =>
    some { s := { e.s with parked := e.s.parked.map (fun q => { q with signalled := true }) }, err := true }
  | .submitErr _ => if e.err then some e else none
  | .finishErr =>
    if e.err || e.s.kphase == .idle then none else
    some { s := { e.s with sentInit := false, kphase := .idle, pending := [],
                           parked := e.s.parked.map (fun q => { q with signalled := true }) },
           err := true }

def erun (e : ESt) : List ELabel → Option ESt
  | [] => some e
  | l :: ls => match estep e l with
    | none => none
    | some e' => erun e' ls

/-! ## the end of a key exchange over bounded connection buffers: release the read loop, then flush

  Two endpoints (false / true), each finishing the same key exchange with `toFlush` queued packets; the connection
  buffer i → peer holds at most `cap` packets (`ch`). Per endpoint:
    exch      inside `enterKeyExchange`: its read loop is parked on `kex.done`, kexLoop itself reads the kex packets
    flushing  closing critical section after `request.done <- …`: pushes the queued packets one by one; a push blocks
              while the buffer towards the peer is full
    idle      closing section left
  `release i` (exch → flushing) is enabled as soon as i's `enterKeyExchange` can finish: the peer's NEWKEYS precedes
  the peer's flushed packets on the wire, so it does not depend on the buffer contents modelled here.
  A packet is taken out of the buffer i → j only by j's read loop, i.e. only while it is not parked:
    `early = true`  (the code as written): the read loop is released *before* the flush — free in `flushing` and `idle`
    `early = false` (the other order): released after the flush — free only in `idle`. -/

inductive DPhase | exch | flushing | idle
deriving DecidableEq, Repr

structure DEnd where
  phase : DPhase
  toFlush : Nat
deriving DecidableEq, Repr

structure DSt where
  e : Bool → DEnd
  ch : Bool → Nat          -- ch i = packets in the buffer from endpoint i to its peer
  cap : Nat

inductive DLabel
  | release (i : Bool)
  | flushOne (i : Bool)
  | flushDone (i : Bool)
  | consume (j : Bool)     -- j's read loop takes one packet sent by its peer
deriving DecidableEq, Repr

def readerFree (early : Bool) (p : DPhase) : Bool :=
  match p with
  | .exch => false
  | .flushing => early
  | .idle => true

def setE (s : DSt) (i : Bool) (x : DEnd) : DSt := { s with e := fun k => if k = i then x else s.e k }
def setCh (s : DSt) (i : Bool) (n : Nat) : DSt := { s with ch := fun k => if k = i then n else s.ch k }

def dstep (early : Bool) (s : DSt) : DLabel → Option DSt
  | .release i => if (s.e i).phase == .exch then some (setE s i { (s.e i) with phase := .flushing }) else none
  | .flushOne i =>
    if (s.e i).phase == .flushing && decide (0 < (s.e i).toFlush) && decide (s.ch i < s.cap) then
      some (setCh (setE s i { (s.e i) with toFlush := (s.e i).toFlush - 1 }) i (s.ch i + 1))
    else none
  | .flushDone i =>
    if (s.e i).phase == .flushing && (s.e i).toFlush == 0 then some (setE s i { (s.e i) with phase := .idle }) else none
  | .consume j =>
    if readerFree early (s.e j).phase && decide (0 < s.ch (!j)) then some (setCh s (!j) (s.ch (!j) - 1)) else none

def dStuck (early : Bool) (s : DSt) : Prop := ∀ l, dstep early s l = none

def dDone (s : DSt) : Prop := ∀ i, (s.e i).phase = .idle ∧ s.ch i = 0

def drun (early : Bool) (s : DSt) : List DLabel → Option DSt
  | [] => some s
  | l :: ls => match dstep early s l with
    | none => none
    | some s' => drun early s' ls

def phaseWeight : DPhase → Nat
  | .exch => 2
  | .flushing => 1
  | .idle => 0

/-- strictly decreases with every step -/
def dMeasure (s : DSt) : Nat :=
  phaseWeight (s.e false).phase + phaseWeight (s.e true).phase + 2 * (s.e false).toFlush + 2 * (s.e true).toFlush
    + s.ch false + s.ch true

end XC.C31
