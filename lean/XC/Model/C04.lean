/-
  C04 — Poly1305 (internal/poly1305/sum_generic.go, poly1305.go, mac_noasm.go / sum_asm.go).

  Implementation-shaped model: three 64-bit accumulator limbs, `bits.Add64 / Mul64 / Sub64` with
  explicit carries, the `t2 & 3` / `cc` / `cc >> 2` partial reduction, the three
  `panic("poly1305: unexpected overflow")` sites (modelled as `none`), `finalize` with the borrow
  chain and `select64`, the 16-byte buffer of `macGeneric.Write/Sum`, and the `finalized` flag of `MAC`.

  Spec-shaped definitions (`p`, `rOf`, `sOf`, `horner`, `polySpec`, `tagSpec`) are arithmetic on `Nat`.
-/
import XC.Basic
namespace XC.C04

/-! ## math/bits primitives (documented semantics of bits.Add64 / Sub64 / Mul64) -/

/-- `bits.Add64(x, y, carry) = (sum, carryOut)` -/
def add64 (x y c : UInt64) : UInt64 × UInt64 :=
  (UInt64.ofNat (x.toNat + y.toNat + c.toNat), UInt64.ofNat ((x.toNat + y.toNat + c.toNat) / 2 ^ 64))

/-- `bits.Sub64(x, y, borrow) = (diff, borrowOut)` -/
def sub64 (x y b : UInt64) : UInt64 × UInt64 :=
  (UInt64.ofNat (x.toNat + 2 ^ 65 - y.toNat - b.toNat), if x.toNat < y.toNat + b.toNat then 1 else 0)

/-- `bits.Mul64(x, y) = (hi, lo)` -/
def mul64 (x y : UInt64) : UInt64 × UInt64 :=
  (UInt64.ofNat (x.toNat * y.toNat / 2 ^ 64), UInt64.ofNat (x.toNat * y.toNat))

/-! ## sum_generic.go -/

/-- `macState.h` -/
structure H where
  h0 : UInt64
  h1 : UInt64
  h2 : UInt64
deriving DecidableEq, Repr

/-- `uint128{lo, hi}` -/
structure U128 where
  lo : UInt64
  hi : UInt64
deriving DecidableEq, Repr

def mul128 (a b : UInt64) : U128 := ⟨(mul64 a b).2, (mul64 a b).1⟩

/-- `add128`: `none` is `panic("poly1305: unexpected overflow")` -/
def add128 (a b : U128) : Option U128 :=
  let l := add64 a.lo b.lo 0
  let h := add64 a.hi b.hi l.2
  if h.2 != 0 then none else some ⟨l.1, h.1⟩

def shiftRightBy2 (a : U128) : U128 :=
  ⟨a.lo >>> 2 ||| (a.hi &&& 3) <<< 62, a.hi >>> 2⟩

def maskLow2Bits : UInt64 := 0x0000000000000003
def maskNotLow2Bits : UInt64 := ~~~maskLow2Bits

/-- multiplication and partial reduction of one loop iteration of `updateGeneric`,
    after the message block has been added to the accumulator -/
def mulReduce (h0 h1 h2 r0 r1 : UInt64) : Option H :=
  let h0r0 := mul128 h0 r0
  let h1r0 := mul128 h1 r0
  let h2r0 := mul128 h2 r0
  let h0r1 := mul128 h0 r1
  let h1r1 := mul128 h1 r1
  let h2r1 := mul128 h2 r1
  if h2r0.hi != 0 then none else
  if h2r1.hi != 0 then none else
  let m0 := h0r0
  match add128 h1r0 h0r1 with
  | none => none
  | some m1 =>
  match add128 h2r0 h1r1 with
  | none => none
  | some m2 =>
  let m3 := h2r1
  let t0 := m0.lo
  let a1 := add64 m1.lo m0.hi 0
  let a2 := add64 m2.lo m1.hi a1.2
  let a3 := add64 m3.lo m2.hi a2.2
  let t1 := a1.1
  let t2 := a2.1
  let t3 := a3.1
  let cc : U128 := ⟨t2 &&& maskNotLow2Bits, t3⟩
  let b0 := add64 t0 cc.lo 0
  let b1 := add64 t1 cc.hi b0.2
  let g2 := (t2 &&& maskLow2Bits) + b1.2
  let cc := shiftRightBy2 cc
  let c0 := add64 b0.1 cc.lo 0
  let c1 := add64 b1.1 cc.hi c0.2
  some ⟨c0.1, c1.1, g2 + c1.2⟩

/-- one loop iteration: add the block (`m0`, `m1` little-endian words; `hibit` is the `+ 1` added to `h2`
    for a full block, 0 for the padded final block), multiply by `r`, reduce partially -/
def updateBlock (h : H) (r0 r1 m0 m1 hibit : UInt64) : Option H :=
  let a0 := add64 h.h0 m0 0
  let a1 := add64 h.h1 m1 a0.2
  mulReduce a0.1 a1.1 (h.h2 + (a1.2 + hibit)) r0 r1

/-- the final short block: `copy(buf[:], msg); buf[len(msg)] = 1` -/
def padBlock (msg : Bytes) : Bytes := msg ++ [1] ++ zeros (15 - msg.length)

/-- `updateGeneric(state, msg)` over the whole of `msg` -/
def updateGeneric (h : H) (r0 r1 : UInt64) (msg : Bytes) : Option H :=
  if msg.isEmpty then some h
  else if 16 ≤ msg.length then
    match updateBlock h r0 r1 (le64 msg) (le64 (msg.drop 8)) 1 with
    | none => none
    | some h' => updateGeneric h' r0 r1 (msg.drop 16)
  else
    let buf := padBlock msg
    updateBlock h r0 r1 (le64 buf) (le64 (buf.drop 8)) 0
termination_by msg.length
decreasing_by simp only [List.length_drop]; omega

/-- `select64(v, x, y) = ^(v-1)&x | (v-1)&y` -/
def select64 (v x y : UInt64) : UInt64 := ~~~(v - 1) &&& x ||| (v - 1) &&& y

def p0 : UInt64 := 0xFFFFFFFFFFFFFFFB
def p1 : UInt64 := 0xFFFFFFFFFFFFFFFF
def p2 : UInt64 := 0x0000000000000003

/-- `finalize(out, h, s)` -/
def finalize (h : H) (s0 s1 : UInt64) : Bytes :=
  let d0 := sub64 h.h0 p0 0
  let d1 := sub64 h.h1 p1 d0.2
  let d2 := sub64 h.h2 p2 d1.2
  let b := d2.2
  let h0 := select64 b h.h0 d0.1
  let h1 := select64 b h.h1 d1.1
  let e0 := add64 h0 s0 0
  let e1 := add64 h1 s1 e0.2
  u64le e0.1 ++ u64le e1.1

def rMask0 : UInt64 := 0x0FFFFFFC0FFFFFFF
def rMask1 : UInt64 := 0x0FFFFFFC0FFFFFFC

/-- `macGeneric` (`mac` embeds it on both build variants): state + the used part of the buffer -/
structure Mac where
  h : H
  r0 : UInt64
  r1 : UInt64
  s0 : UInt64
  s1 : UInt64
  buf : Bytes            -- `buffer[:offset]`
deriving DecidableEq, Repr

/-- `initialize(key, &m.macState)` (key is 32 bytes) -/
def initMac (key : Bytes) : Mac :=
  { h := ⟨0, 0, 0⟩
    r0 := le64 key &&& rMask0
    r1 := le64 (key.drop 8) &&& rMask1
    s0 := le64 (key.drop 16)
    s1 := le64 (key.drop 24)
    buf := [] }

/-- `macGeneric.Write`; `none` = the overflow panic of `updateGeneric` -/
def Mac.write (m : Mac) (p : Bytes) : Option Mac :=
  if 0 < m.buf.length ∧ m.buf.length + min (16 - m.buf.length) p.length < 16 then
    some { m with buf := m.buf ++ p }
  else
    -- either the buffer is empty, or `p` fills it
    let n := if 0 < m.buf.length then 16 - m.buf.length else 0
    let first := if 0 < m.buf.length then updateGeneric m.h m.r0 m.r1 (m.buf ++ p.take n) else some m.h
    match first with
    | none => none
    | some h1 =>
      let p := p.drop n
      let k := p.length - p.length % 16
      match (if 0 < k then updateGeneric h1 m.r0 m.r1 (p.take k) else some h1) with
      | none => none
      | some h2 => some { m with h := h2, buf := p.drop k }

/-- `macGeneric.Sum` (does not modify the state) -/
def Mac.sum (m : Mac) : Option Bytes :=
  match (if 0 < m.buf.length then updateGeneric m.h m.r0 m.r1 m.buf else some m.h) with
  | none => none
  | some h => some (finalize h m.s0 m.s1)

/-- `subtle.ConstantTimeCompare(x, y) == 1` -/
def ctEq (x y : Bytes) : Bool := x.length == y.length && x == y

/-! ## poly1305.go: the `MAC` wrapper with its `finalized` flag, as a history machine -/

inductive Call where
  | write (p : Bytes)
  | sum (b : Bytes)          -- `Sum(b)` appends the tag to `b`
  | verify (tag : Bytes)
deriving Repr

inductive Out where
  | wrote (n : Nat)
  | tag (t : Bytes)
  | ok (b : Bool)
  | panic
deriving DecidableEq, Repr

structure MAC where
  mac : Mac
  finalized : Bool

def MAC.step (m : MAC) : Call → MAC × Out
  | .write p =>
    if m.finalized then (m, .panic) else
    match m.mac.write p with
    | none => (m, .panic)
    | some mac => ({ m with mac := mac }, .wrote p.length)
  | .sum b =>
    match m.mac.sum with
    | none => (m, .panic)
    | some t => ({ m with finalized := true }, .tag (b ++ t))
  | .verify e =>
    match m.mac.sum with
    | none => (m, .panic)
    | some t => ({ m with finalized := true }, .ok (ctEq e t))

/-- run a history; a panic ends it (the Go goroutine unwinds) -/
def MAC.run (m : MAC) : List Call → List Out
  | [] => []
  | c :: cs =>
    match m.step c with
    | (_, .panic) => [.panic]
    | (m', o) => o :: MAC.run m' cs

/-- run a history where the caller recovers from panics and keeps using the object: the panic of a Write after
    Sum/Verify is raised before anything is modified, so the state is unchanged and later calls go on -/
def MAC.runAll (m : MAC) : List Call → List Out
  | [] => []
  | c :: cs => (m.step c).2 :: MAC.runAll (m.step c).1 cs

/-- `TagSize`, `(*MAC).Size()` -/
def tagSize : Nat := 16

def new (key : Bytes) : MAC := ⟨initMac key, false⟩

/-- one-shot `Sum(out, msg, key)` -/
def sumOneShot (key msg : Bytes) : Option Bytes :=
  match (initMac key).write msg with
  | none => none
  | some m => m.sum

/-- one-shot `Verify(mac, msg, key)` -/
def verifyOneShot (tag key msg : Bytes) : Option Bool :=
  (sumOneShot key msg).map (fun t => ctEq t tag)

/-! ## the mathematical definition -/

def p : Nat := 2 ^ 130 - 5

/-- `r` = first 16 key bytes, little-endian, clamped (RFC 8439 §2.5) -/
def rOf (key : Bytes) : Nat := natOfLE (key.take 16) &&& 0x0ffffffc0ffffffc0ffffffc0fffffff

def sOf (key : Bytes) : Nat := natOfLE ((key.drop 16).take 16)

/-- value of a block of at most 16 bytes with its terminating 1 bit: `block + 2^(8·len)` -/
def blockVal (b : Bytes) : Nat := natOfLE b + 2 ^ (8 * b.length)

/-- Horner evaluation over the 16-byte blocks starting from accumulator `a`:
    `a ← (a + blockVal b) · r mod p` -/
def horner (r : Nat) (a : Nat) (msg : Bytes) : Nat :=
  (chunks 16 msg).foldl (fun acc b => ((acc + blockVal b) * r) % p) a

/-- explicit polynomial: `Σ_i blockVal(b_i) · r^(n-i)` for blocks `b_0 … b_{n-1}` -/
def polySum (r : Nat) : List Bytes → Nat
  | [] => 0
  | b :: rest => blockVal b * r ^ (rest.length + 1) + polySum r rest

/-- the tag as a number: `((Σ blockVal(b_i)·r^(n-i)) mod p + s) mod 2^128` -/
def polySpec (key msg : Bytes) : Nat :=
  (polySum (rOf key) (chunks 16 msg) % p + sOf key) % 2 ^ 128

def tagSpec (key msg : Bytes) : Bytes := natToLE 16 (polySpec key msg)

end XC.C04
