/-
  C45 — the key-ring assembly of openpgp/keys.go (ReadKeyRing, readToNextPublicKey, ReadEntity,
  addUserID, addSubkey) as a state machine over the sequence of items `packet.Reader.Next` yields.
  Every loop is a well-founded recursion on the number of items still unread (`Unread` puts exactly the
  item just taken back in front), so the definitions being accepted is `readEntity_total`.

  Items abstract the packets of two test keys i ∈ {1,2}: primary key `key i false`, subkey
  `key (i+2) true`, user id `uid i`, self-certification `cert i` (type 0x13, issued by primary i over
  uid i), subkey binding `bind i` (type 0x18, issued by primary i over subkey i+2); `ign` is a packet of
  a known type the loops ignore, `skip` one of an unknown type (`Next` skips it), `eUnsup` / `eStruct` a
  well-framed packet whose parser returns UnsupportedError / StructuralError.
  Signature validity is what the real verifier decides for these packets: a `cert i` verifies only
  under primary i right after `uid i`; a `bind i` only under primary i for subkey i+2.
-/
import XC.Basic
namespace XC.C45K
open XC

inductive Item where
  | key (id : Nat) (sub : Bool)
  | uid (id : Nat)
  | cert (id : Nat)
  | bind (id : Nat)
  | ign
  | skip
  | eUnsup
  | eStruct
deriving DecidableEq, Repr

inductive Err where
  | eof | unsup | struct
deriving DecidableEq, Repr

/-- `Reader.Next`: unknown packet types are skipped; `none` = io.EOF -/
def next : List Item → Option (Item × List Item)
  | [] => none
  | .skip :: r => next r
  | i :: r => some (i, r)

theorem next_lt {s r : List Item} {i : Item} (h : next s = some (i, r)) : r.length < s.length := by
  induction s with
  | nil => simp [next] at h
  | cons a t ih =>
    cases a <;> simp only [next, Option.some.injEq, Prod.mk.injEq] at h
    all_goals first
      | (obtain ⟨_, rfl⟩ := h; simp)
      | (have := ih h; simp; omega)

abbrev Res (α : Type) := Except (Err × List Item) (α × List Item)

/-- `addUserID` under primary `prim` for user id `u`: identity added?, and where the stream stands -/
def addUserID (prim u : Nat) (added : Bool) (s : List Item) : Res Bool :=
  match h : next s with
  | none => .ok (added, [])
  | some (.eUnsup, r) => .error (.unsup, r)
  | some (.eStruct, r) => .error (.struct, r)
  | some (.cert i, r) =>
    have := next_lt h
    if i == prim then
      -- certification by the primary key: must verify over this user id
      if u == i then addUserID prim u true r else .error (.struct, r)
    else addUserID prim u added r          -- somebody else's signature: kept, not checked
  | some (.bind _, r) =>
    have := next_lt h
    addUserID prim u added r                -- not a certification type: kept, not checked
  | some (it, r) => .ok (added, it :: r)    -- not a signature: Unread
termination_by s.length

/-- `addSubkey` under primary `prim` for subkey `k`; needs ≥ 1 valid binding signature -/
def addSubkey (prim k : Nat) (hasSig : Bool) (s : List Item) : Res Unit :=
  match h : next s with
  | none => if hasSig then .ok ((), []) else .error (.struct, [])
  | some (.eUnsup, r) => .error (.struct, r)       -- any reader error is wrapped as StructuralError
  | some (.eStruct, r) => .error (.struct, r)
  | some (.cert _, r) => .error (.struct, r)       -- "subkey signature with wrong type"
  | some (.bind i, r) =>
    have := next_lt h
    if i == prim && k == i + 2 then addSubkey prim k true r else .error (.struct, r)
  | some (it, r) => if hasSig then .ok ((), it :: r) else .error (.struct, it :: r)
termination_by s.length

/-- what is left after a call, whether it succeeded or failed -/
def Res.rest {α : Type} : Res α → List Item
  | .ok (_, r) => r
  | .error (_, r) => r

theorem next_le_cons {s r : List Item} {i : Item} (h : next s = some (i, r)) : (i :: r).length ≤ s.length := by
  have := next_lt h; simp only [List.length_cons]; omega

theorem addUserID_le (prim u : Nat) (added : Bool) (s : List Item) :
    (addUserID prim u added s).rest.length ≤ s.length := by
  induction hl : s.length using Nat.strongRecOn generalizing s added with
  | _ n ih =>
    subst hl
    rw [addUserID]
    split
    · simp [Res.rest]
    · rename_i r heq; have := next_lt heq; simp only [Res.rest]; omega
    · rename_i r heq; have := next_lt heq; simp only [Res.rest]; omega
    · rename_i i r' heq
      have hlt := next_lt heq
      split
      · split
        · have := ih r'.length (by omega) true r' rfl; dsimp only; omega
        · simp only [Res.rest]; omega
      · have := ih r'.length (by omega) added r' rfl; dsimp only; omega
    · rename_i i r' heq
      have hlt := next_lt heq
      have := ih r'.length (by omega) added r' rfl; dsimp only; omega
    · rename_i it r' _ _ _ _ heq
      have := next_le_cons heq
      simpa [Res.rest] using this

theorem addSubkey_le (prim k : Nat) (hs : Bool) (s : List Item) :
    (addSubkey prim k hs s).rest.length ≤ s.length := by
  induction hl : s.length using Nat.strongRecOn generalizing s hs with
  | _ n ih =>
    subst hl
    rw [addSubkey]
    split
    · split <;> simp [Res.rest]
    · rename_i r heq; have := next_lt heq; simp only [Res.rest]; omega
    · rename_i r heq; have := next_lt heq; simp only [Res.rest]; omega
    · rename_i i r heq; have := next_lt heq; simp only [Res.rest]; omega
    · rename_i i r' heq
      have hlt := next_lt heq
      split
      · have := ih r'.length (by omega) true r' rfl; dsimp only; omega
      · simp only [Res.rest]; omega
    · rename_i it r' _ _ _ _ heq
      have := next_le_cons heq
      split <;> simpa [Res.rest] using this

structure Entity where
  prim : Nat
  uids : List Nat
  subs : List Nat
deriving DecidableEq, Repr

/-- the `EachPacket` loop of `ReadEntity` -/
def eachPacket (e : Entity) (s : List Item) : Res Entity :=
  match h : next s with
  | none => .ok (e, [])
  | some (.eUnsup, r) => .error (.unsup, r)
  | some (.eStruct, r) => .error (.struct, r)
  | some (.uid u, r) =>
    match h2 : addUserID e.prim u false r with
    | .error x => .error x
    | .ok (added, r') =>
      have : r'.length < s.length := by
        have h0 := next_lt h
        have h1 := addUserID_le e.prim u false r
        rw [h2] at h1; simp only [Res.rest] at h1; omega
      eachPacket (if added && !e.uids.contains u then { e with uids := e.uids ++ [u] } else e) r'
  | some (.key id true, r) =>
    match h2 : addSubkey e.prim id false r with
    | .error x => .error x
    | .ok (_, r') =>
      have : r'.length < s.length := by
        have h0 := next_lt h
        have h1 := addSubkey_le e.prim id false r
        rw [h2] at h1; simp only [Res.rest] at h1; omega
      eachPacket { e with subs := e.subs ++ [id] } r'
  | some (.key id false, r) => .ok (e, .key id false :: r)     -- next entity's primary key: Unread
  | some (_, r) =>
    have := next_lt h
    eachPacket e r                                              -- stray signatures, ignored packets
termination_by s.length

theorem eachPacket_le (e : Entity) (s : List Item) : (eachPacket e s).rest.length ≤ s.length := by
  induction hl : s.length using Nat.strongRecOn generalizing s e with
  | _ n ih =>
    subst hl
    rw [eachPacket]
    split
    · simp [Res.rest]
    · rename_i r heq; have := next_lt heq; simp only [Res.rest]; omega
    · rename_i r heq; have := next_lt heq; simp only [Res.rest]; omega
    · rename_i u r0 heq
      have h0 := next_lt heq
      have h1 := addUserID_le e.prim u false r0
      split
      · rename_i x h2; rw [h2] at h1; obtain ⟨k, rr⟩ := x; simp only [Res.rest] at h1 ⊢; omega
      · rename_i added r' h2
        rw [h2] at h1; simp only [Res.rest] at h1
        have := ih r'.length (by omega) (if added && !e.uids.contains u then { e with uids := e.uids ++ [u] } else e) r' rfl
        dsimp only; omega
    · rename_i id r0 heq
      have h0 := next_lt heq
      have h1 := addSubkey_le e.prim id false r0
      split
      · rename_i x h2; rw [h2] at h1; obtain ⟨k, rr⟩ := x; simp only [Res.rest] at h1 ⊢; omega
      · rename_i u r' h2
        rw [h2] at h1; simp only [Res.rest] at h1
        have := ih r'.length (by omega) { e with subs := e.subs ++ [id] } r' rfl
        dsimp only; omega
    · rename_i id r0 heq
      have := next_le_cons heq
      simpa [Res.rest] using this
    · rename_i it r0 _ _ _ _ _ heq
      have h0 := next_lt heq
      have := ih r0.length (by omega) e r0 rfl; dsimp only; omega

inductive EErr where
  | eof | unsup | struct | notKey      -- notKey: "first packet was not a public/private key" (Structural), packet put back
deriving DecidableEq, Repr

/-- `ReadEntity` -/
def readEntity (s : List Item) : Except (EErr × List Item) (Entity × List Item) :=
  match next s with
  | none => .error (.eof, [])
  | some (.key id _, r) =>
    match eachPacket ⟨id, [], []⟩ r with
    | .error (.unsup, r') => .error (.unsup, r')
    | .error (_, r') => .error (.struct, r')
    | .ok (e, r') => if e.uids.isEmpty then .error (.struct, r') else .ok (e, r')
  | some (.eUnsup, r) => .error (.unsup, r)
  | some (.eStruct, r) => .error (.struct, r)
  | some (it, r) => .error (.notKey, it :: r)

/-- `readToNextPublicKey`: `ok` = positioned at a primary public key (put back);
    `error eof` = stream exhausted; `error struct` = a reader error other than Unsupported (aborts ReadKeyRing) -/
def readToNext (s : List Item) : Except Err (List Item) :=
  match h : next s with
  | none => .error .eof
  | some (.eUnsup, r) => have := next_lt h; readToNext r
  | some (.eStruct, _) => .error .struct
  | some (.key id false, r) => .ok (.key id false :: r)
  | some (_, r) => have := next_lt h; readToNext r
termination_by s.length

theorem readToNext_le (s r : List Item) (h : readToNext s = .ok r) : r.length ≤ s.length := by
  induction hl : s.length using Nat.strongRecOn generalizing s with
  | _ n ih =>
    subst hl
    rw [readToNext] at h
    split at h
    · simp at h
    · rename_i r0 heq; have := next_lt heq; dsimp only at h; have := ih r0.length (by omega) r0 h rfl; omega
    · simp at h
    · rename_i id r0 heq
      have := next_le_cons heq
      simp only [Except.ok.injEq] at h; subst h; exact this
    · rename_i it r0 _ _ _ heq; have := next_lt heq; dsimp only at h; have := ih r0.length (by omega) r0 h rfl; omega

/-- is the next item (after skipping) something other than a primary public key? -/
def headNotPrimary (s : List Item) : Bool :=
  match next s with
  | some (.key _ false, _) => false
  | none => false
  | _ => true

theorem readToNext_lt (s r : List Item) (hp : headNotPrimary s = true) (h : readToNext s = .ok r) :
    r.length < s.length := by
  rw [readToNext] at h
  unfold headNotPrimary at hp
  split at h
  · simp at h
  · rename_i r0 heq; have := next_lt heq; dsimp only at h; have := readToNext_le r0 r h; omega
  · simp at h
  · rename_i id r0 heq; rw [heq] at hp; simp at hp
  · rename_i it r0 _ _ _ heq; have := next_lt heq; dsimp only at h; have := readToNext_le r0 r h; omega

theorem next_not_skip {s r : List Item} (h : next s = some (.skip, r)) : False := by
  induction s with
  | nil => simp [next] at h
  | cons a t ih => cases a <;> simp_all [next]

/-- **readEntity_total / progress**: a successful or failed `ReadEntity` has consumed at least one item,
    except when the first packet is not a key — then that packet is still there (put back), and it is
    not a primary public key, so `readToNextPublicKey` will consume it. -/
theorem readEntity_progress (s : List Item) :
    match readEntity s with
    | .ok (_, r) => r.length < s.length
    | .error (.notKey, r) => r.length ≤ s.length ∧ headNotPrimary r = true
    | .error (.eof, _) => True
    | .error (_, r) => r.length < s.length := by
  unfold readEntity
  cases hn : next s with
  | none => simp
  | some p =>
    obtain ⟨it, r⟩ := p
    have h0 := next_lt hn
    cases it with
    | key id sub =>
      simp only
      have h1 := eachPacket_le ⟨id, [], []⟩ r
      cases he : eachPacket ⟨id, [], []⟩ r with
      | error x =>
        obtain ⟨k, r'⟩ := x
        rw [he] at h1; simp only [Res.rest] at h1
        cases k <;> (try simp only) <;> omega
      | ok y =>
        obtain ⟨e, r'⟩ := y
        rw [he] at h1; simp only [Res.rest] at h1
        by_cases hu : e.uids.isEmpty = true <;> simp [hu] <;> omega
    | eUnsup => simp only; omega
    | eStruct => simp only; omega
    | skip => exact (next_not_skip hn).elim
    | uid u => simp only [List.length_cons, headNotPrimary, next]; exact ⟨by omega, trivial⟩
    | cert u => simp only [List.length_cons, headNotPrimary, next]; exact ⟨by omega, trivial⟩
    | bind u => simp only [List.length_cons, headNotPrimary, next]; exact ⟨by omega, trivial⟩
    | ign => simp only [List.length_cons, headNotPrimary, next]; exact ⟨by omega, trivial⟩

/-- `ReadKeyRing`: entities read; `none` = error result (`el = nil`, or no entity and an error remembered) -/
def readKeyRing (acc : List Entity) (sawErr : Bool) (s : List Item) : Option (List Entity) :=
  match h : readEntity s with
  | .ok (e, r) =>
    have : r.length < s.length := by
      have := readEntity_progress s; rw [h] at this; exact this
    readKeyRing (acc ++ [e]) sawErr r
  | .error (k, r) =>
    if hk : k = .eof then (if acc.isEmpty && sawErr then none else some acc) else
    match h2 : readToNext r with
    | .error .eof => if acc.isEmpty then none else some acc     -- lastUnsupportedError is set
    | .error _ => none                                            -- el = nil
    | .ok r2 =>
      have : r2.length < s.length := by
        have hp := readEntity_progress s
        rw [h] at hp
        cases k with
        | eof => exact absurd rfl hk
        | notKey => have := readToNext_lt r r2 hp.2 h2; omega
        | unsup => have := readToNext_le r r2 h2; simp only at hp; omega
        | struct => have := readToNext_le r r2 h2; simp only at hp; omega
      readKeyRing acc true r2
termination_by s.length

end XC.C45K
