/-
  SSH wire primitives used by the key / certificate / signature models (C38–C41):
  ssh/messages.go  parseUint32, parseUint64, parseString, parseInt, marshalInt, intLength and the
  reflection-driven Marshal/Unmarshal for the field kinds these properties use
  (uint32, uint64, byte, string, []byte, *big.Int, `ssh:"rest"`).

  Everything is structurally recursive (fuel where Go loops) so that the kernel can evaluate the
  model on literals (`decide`) — the non-canonicity witnesses of C41 are proved that way.
  Go `string`s hold arbitrary bytes, so strings are `Bytes`; `<`/`<=` on Go strings is the
  bytewise lexicographic order `bytesLt`.
-/
import XC.Basic
namespace XC.C38
open XC

/-- ASCII name → bytes -/
def nm (x : String) : Bytes := x.toList.map (fun c => UInt8.ofNat c.toNat)

/-- bytes → text for observables (used on ASCII only) -/
def txt (b : Bytes) : String := String.ofList (b.map (fun x => Char.ofNat x.toNat))

/-! ## fixed-width integers -/

def putU32 (n : Nat) : Bytes :=
  [UInt8.ofNat (n / 16777216), UInt8.ofNat (n / 65536), UInt8.ofNat (n / 256), UInt8.ofNat n]

/- literals are written on the LEFT of `*`: `Nat.mul` recurses on its second argument, and a
   symbolic `x * 16777216` makes `whnf` (simp's matcher reduction) unfold sixteen million steps. -/
def parseU32 : Bytes → Option (Nat × Bytes)
  | a :: b :: c :: d :: r => some (16777216 * a.toNat + 65536 * b.toNat + 256 * c.toNat + d.toNat, r)
  | _ => none

def putU64 (n : Nat) : Bytes := putU32 (n / 4294967296) ++ putU32 n

def parseU64 (b : Bytes) : Option (Nat × Bytes) :=
  match parseU32 b with
  | none => none
  | some (hi, r) =>
    match parseU32 r with
    | none => none
    | some (lo, r') => some (4294967296 * hi + lo, r')

/-! ## strings -/

/-- `parseString`: 4-byte big-endian length, then that many bytes -/
def parseString (b : Bytes) : Option (Bytes × Bytes) :=
  match parseU32 b with
  | none => none
  | some (n, r) => if r.length < n then none else some (r.take n, r.drop n)

/-- `appendInt(len(s)); append(s)` (the length is truncated to uint32 like the Go conversion) -/
def putString (s : Bytes) : Bytes := putU32 s.length ++ s

/-! ## mpint (`*big.Int` fields) -/

/-- big-endian value -/
def beNat (bs : Bytes) : Nat := bs.foldl (fun a b => a * 256 + b.toNat) 0

/-- `parseInt` contents → value: two's complement, as written (complement, +1, negate) -/
def mpintVal (c : Bytes) : Int :=
  match c with
  | [] => 0
  | b :: _ =>
    if b.toNat ≥ 128 then - ((beNat (c.map (fun x => x ^^^ 255)) : Int) + 1)
    else (beNat c : Int)

def parseMpint (b : Bytes) : Option (Int × Bytes) :=
  match parseString b with
  | none => none
  | some (c, r) => some (mpintVal c, r)

def natBytesGo : Nat → Nat → Bytes → Bytes
  | 0, _, acc => acc
  | f+1, n, acc => if n = 0 then acc else natBytesGo f (n / 256) (UInt8.ofNat n :: acc)

/-- `big.Int.Bytes()`: minimal big-endian magnitude, empty for 0 -/
def natBytes (n : Nat) : Bytes := natBytesGo n n []

/-- contents written by `marshalInt` -/
def mpintBytes (n : Int) : Bytes :=
  if n < 0 then
    let bs := (natBytes (-n - 1).toNat).map (fun x => x ^^^ 255)
    match bs with
    | [] => [255]
    | b :: _ => if b.toNat < 128 then 255 :: bs else bs
  else if n = 0 then []
  else
    let bs := natBytes n.toNat
    match bs with
    | [] => []
    | b :: _ => if b.toNat ≥ 128 then 0 :: bs else bs

def putMpint (n : Int) : Bytes := putString (mpintBytes n)

/-- `big.Int.BitLen()` of |n| -/
def bitLen (n : Int) : Nat := Nat.log2 n.natAbs + (if n = 0 then 0 else 1)

/-! ## byte-string order (Go string comparison) -/

def bytesLt : Bytes → Bytes → Bool
  | [], [] => false
  | [], _ :: _ => true
  | _ :: _, [] => false
  | a :: x, b :: y => if a.toNat < b.toNat then true else if b.toNat < a.toNat then false else bytesLt x y

def bytesLe (a b : Bytes) : Bool := !(bytesLt b a)

/-! ## lists of strings -/

/-- `for len(in) > 0 { s, in = parseString(in) … }` (every string consumes ≥ 4 bytes, so
    `in.length` is enough fuel) -/
def parseStringsGo : Nat → Bytes → Option (List Bytes)
  | 0, b => if b.isEmpty then some [] else none
  | f+1, b =>
    if b.isEmpty then some [] else
    match parseString b with
    | none => none
    | some (s, r) => (parseStringsGo f r).map (s :: ·)

def parseStrings (b : Bytes) : Option (List Bytes) := parseStringsGo b.length b

def putStrings (l : List Bytes) : Bytes := (l.map putString).flatten

end XC.C38
