/-
  C36 — connection-protocol dispatch and reply matching (ssh/mux.go onePacket / handleGlobalPacket /
  handleChannelOpen / handleUnknownChannelPacket / SendRequest / openChannel, ssh/channel.go handlePacket /
  responseMessageReceived / SendRequest / Accept / Reject / close), modelled AS WRITTEN.

  `onePacket : Mux → Bytes → Outcome × Mux` is total over byte strings; every Go construct that can panic is an
  explicit `Outcome.panic` (indexing `packet[0]`, `packet[1:5]`, the `panic("not a global message")` arm,
  a send on / close of a closed Go channel).  Application behaviour is the fixed policy of the harness:
  after every packet the application drains what the mux delivered (Accept channel types starting with 'a',
  leave 'd…' undecided, Reject others; answer requests named "yes" with success).
-/
import XC.Model.C35
namespace XC.C36

open XC (Bytes)

/-! ## wire decoding (ssh.Unmarshal for the connection-protocol structs) -/

def rdU32 (b : Bytes) : Option (Nat × Bytes) :=
  match b with
  | a :: b1 :: c :: d :: rest => some (a.toNat * 16777216 + b1.toNat * 65536 + c.toNat * 256 + d.toNat, rest)
  | _ => none

def rdStr (b : Bytes) : Option (Bytes × Bytes) :=
  match rdU32 b with
  | none => none
  | some (n, rest) => if rest.length < n then none else some (rest.take n, rest.drop n)

def rdBool (b : Bytes) : Option (Bool × Bytes) :=
  match b with
  | x :: rest => some (x != 0, rest)
  | [] => none

inductive Msg
  | globalRequest (name : Bytes) (want : Bool) (data : Bytes)
  | requestSuccess (data : Bytes)
  | requestFailure (data : Bytes)
  | chanOpen (typ : Bytes) (peersId win maxPkt : Nat) (extra : Bytes)
  | data94 (id len : Nat) (rest : Bytes)
  | openConfirm (id myId myWin maxPkt : Nat) (extra : Bytes)
  | openFailure (id reason : Nat) (msg lang : Bytes)
  | windowAdjust (id n : Nat)
  | eof (id : Nat)
  | close (id : Nat)
  | chanRequest (id : Nat) (name : Bytes) (want : Bool) (data : Bytes)
  | chanSuccess (id : Nat)
  | chanFailure (id : Nat)
  | authSuccess                         -- type 52: accepted only as a one-byte packet
  | ping (data : Bytes)
  | service (name : Bytes)              -- types 5 / 6 (SERVICE_REQUEST / SERVICE_ACCEPT): one string
deriving DecidableEq, Repr

inductive DErr | parse | unexpected | unmodelled
deriving DecidableEq, Repr

/-- all fields consumed? (`if len(data) != 0 { return parseError }`) -/
def done (m : Msg) (rest : Bytes) : Except DErr Msg := if rest.isEmpty then .ok m else .error .parse

/-- `decode(packet)` (messages.go) restricted to the message numbers of the connection protocol + 52;
    95 (extended data) and unknown numbers are `unexpectedMessageError`; other transport/auth numbers that
    decode knows are not modelled (the driver refuses such ops). Precondition packet ≠ [] (see `onePacket`). -/
def decodeBody (t : Nat) (b : Bytes) : Except DErr Msg :=
  if t = 80 then
    match rdStr b with
    | none => .error .parse
    | some (name, r) => match rdBool r with
      | none => .error .parse
      | some (w, r) => .ok (.globalRequest name w r)
  else if t = 81 then .ok (.requestSuccess b)
  else if t = 82 then .ok (.requestFailure b)
  else if t = 90 then
    match rdStr b with
    | none => .error .parse
    | some (typ, r) => match rdU32 r with
      | none => .error .parse
      | some (pid, r) => match rdU32 r with
        | none => .error .parse
        | some (win, r) => match rdU32 r with
          | none => .error .parse
          | some (mp, r) => .ok (.chanOpen typ pid win mp r)
  else if t = 94 then
    match rdU32 b with
    | none => .error .parse
    | some (id, r) => match rdU32 r with
      | none => .error .parse
      | some (len, r) => .ok (.data94 id len r)
  else if t = 91 then
    match rdU32 b with
    | none => .error .parse
    | some (id, r) => match rdU32 r with
      | none => .error .parse
      | some (my, r) => match rdU32 r with
        | none => .error .parse
        | some (win, r) => match rdU32 r with
          | none => .error .parse
          | some (mp, r) => .ok (.openConfirm id my win mp r)
  else if t = 92 then
    match rdU32 b with
    | none => .error .parse
    | some (id, r) => match rdU32 r with
      | none => .error .parse
      | some (reason, r) => match rdStr r with
        | none => .error .parse
        | some (m, r) => match rdStr r with
          | none => .error .parse
          | some (l, r) => done (.openFailure id reason m l) r
  else if t = 93 then
    match rdU32 b with
    | none => .error .parse
    | some (id, r) => match rdU32 r with
      | none => .error .parse
      | some (n, r) => done (.windowAdjust id n) r
  else if t = 96 then
    match rdU32 b with
    | none => .error .parse
    | some (id, r) => done (.eof id) r
  else if t = 97 then
    match rdU32 b with
    | none => .error .parse
    | some (id, r) => done (.close id) r
  else if t = 98 then
    match rdU32 b with
    | none => .error .parse
    | some (id, r) => match rdStr r with
      | none => .error .parse
      | some (name, r) => match rdBool r with
        | none => .error .parse
        | some (w, r) => .ok (.chanRequest id name w r)
  else if t = 99 then
    match rdU32 b with
    | none => .error .parse
    | some (id, r) => done (.chanSuccess id) r
  else if t = 100 then
    match rdU32 b with
    | none => .error .parse
    | some (id, r) => done (.chanFailure id) r
  else if t = 5 || t = 6 then
    -- transport-layer messages that decode() knows; as a "channel packet" the string length is read as the channel id
    match rdStr b with
    | none => .error .parse
    | some (name, r) => done (.service name) r
  else if t = 52 then done .authSuccess b   -- decode rejects trailing bytes after SSH_MSG_USERAUTH_SUCCESS (repo commit 5ae9b7b)
  else if t ∈ [1, 7, 20, 30, 31, 50, 51, 53, 60, 61, 64, 65, 66] then .error .unmodelled
  else .error .unexpected

def decode (p : Bytes) : Except DErr Msg :=
  match p with
  | [] => .error .parse
  | t :: b => decodeBody t.toNat b

/-! ## mux state -/

/-- what sits in `ch.msg` (capacity 16) -/
inductive QMsg | confirm | failure (reason : Nat) | success | reqFailure | other
deriving DecidableEq, Repr

structure Chan where
  remoteId : Nat
  inbound : Bool
  decided : Bool
  reqPending : Bool              -- sentRequestPending
  msgQ : List QMsg               -- ch.msg
  rcv : C35.Rcv                  -- myWindow accounting (handleData)
  remoteWin : Nat
  maxRemote : Nat
  sentClose : Bool
  closed : Bool                  -- ch.close() ran: msg / incomingRequests closed, buffers at EOF
  opener : Option Nat            -- OpenChannel call waiting on ch.msg
  requester : Option Nat         -- SendRequest(wantReply) call waiting on ch.msg
  accepted : Bool                -- the application holds this channel (Accept returned / OpenChannel returned)
  uid : Nat                      -- creation serial (newChannel calls, both directions)
deriving DecidableEq, Repr

inductive GReply | success | failure
deriving DecidableEq, Repr

structure Mux where
  chans : List (Option Chan)     -- chanList.chans (index = local id)
  detached : List Chan           -- channels removed from chanList that the application (or a caller) still holds
  globalPending : Bool
  globalBuf : Option GReply      -- globalResponses (capacity 1)
  globalCaller : Option Nat
  ended : Bool                   -- mux.loop has exited
  nextUid : Nat
  held : List Nat                -- uids of the channels the application holds, in the order it obtained them
deriving DecidableEq, Repr

def Mux.init : Mux := ⟨[], [], false, none, none, false, 0, []⟩

inductive Outcome
  | ok
  | err          -- onePacket returned an error: the loop ends, the connection is torn down
  | blocks       -- the loop goroutine parks for ever in a blocking `ch.msg <- msg` on a full queue (proved unreachable)
  | panic
deriving DecidableEq, Repr

/-- observable events, in order -/
abbrev Evs := List String

def bstr (b : Bytes) : String := if b.isEmpty then "-" else String.ofList (b.map (fun c => Char.ofNat c.toNat))

def getChan (m : Mux) (id : Nat) : Option Chan := (m.chans[id]?).join

def setChan (m : Mux) (id : Nat) (c : Option Chan) : Mux :=
  { m with chans := m.chans.set id c }

/-- chanList.add: first nil slot, else append -/
def addChan (m : Mux) (c : Chan) : Mux × Nat :=
  match m.chans.findIdx? (·.isNone) with
  | some i => ({ m with chans := m.chans.set i (some c) }, i)
  | none => ({ m with chans := m.chans ++ [some c] }, m.chans.length)

def newChan (inbound : Bool) (uid : Nat := 0) : Chan :=
  { uid := uid, remoteId := 0, inbound := inbound, decided := false, reqPending := false, msgQ := [], rcv := C35.Rcv.init,
    remoteWin := 0, maxRemote := 0, sentClose := false, closed := false, opener := none, requester := none,
    accepted := false }

/-- channel.writePacket: refused (io.EOF) once a close was sent / the channel was torn down -/
def chanSend (c : Chan) (ev : String) (isClose : Bool) : Chan × Evs :=
  if c.sentClose then (c, []) else ({ c with sentClose := isClose }, [ev])

/-- `ch.msg <- x` (blocking send; capacity 16). A send on the closed channel panics; with 16 messages queued and
    nobody receiving, the send blocks the mux loop for ever (`Outcome.blocks`). -/
def pushMsg (c : Chan) (x : QMsg) : Outcome × Chan :=
  if c.closed then (.panic, c)
  else if c.msgQ.length ≥ 16 then (.blocks, c)
  else (.ok, { c with msgQ := c.msgQ ++ [x] })

/-- `select { case ch.msg <- x: default: }` -/
def tryPushMsg (c : Chan) (x : QMsg) : Outcome × Chan :=
  if c.closed then (.panic, c)
  else if c.msgQ.length ≥ 16 then (.ok, c)
  else (.ok, { c with msgQ := c.msgQ ++ [x] })

/-- responseMessageReceived -/
def responseOk (c : Chan) : Option Chan :=
  if c.inbound then none else if c.decided then none else some { c with decided := true }

/-- channel.handleData on a data (hdr = 9) or extended data (hdr = 13) packet -/
def handleDataPkt (m : Mux) (id : Nat) (c : Chan) (p : Bytes) (hdr code : Nat) : Outcome × Mux × Evs :=
  if p.length < hdr then (.err, m, []) else
  match rdU32 (p.drop (hdr - 4)) with
  | none => (.panic, m, [])                          -- packet[headerLen-4 : headerLen] out of range
  | some (len, _) =>
    match C35.handleData c.rcv code len (p.length - hdr) with
    | .error _ => (.err, m, [])
    | .ok (r, adj) =>
      let c := { c with rcv := r }
      let (c, ev) := if adj = 0 then (c, []) else chanSend c s!"w93:{c.remoteId}:{adj}" false
      (.ok, setChan m id (some c), ev)

/-- ch.handlePacket for a packet addressed to the known channel `id` -/
def handleChanPacket (m : Mux) (id : Nat) (c : Chan) (p : Bytes) (t : Nat) : Option (Outcome × Mux × Evs) :=
  if t = 94 then some (handleDataPkt m id c p 9 0)
  else if t = 95 then some (handleDataPkt m id c p 13 ((rdU32 (p.drop 5)).map (·.1) |>.getD 0))
  else if t = 97 then
    let (c, ev) := chanSend c s!"w97:{c.remoteId}" true
    -- chanList.remove(localId); ch.close()
    let c := { c with closed := true, sentClose := true }
    let m := setChan m id none
    some (.ok, { m with detached := m.detached ++ [c] }, ev)
  else if t = 96 then some (.ok, m, [])
  else
    match decode p with
    | .error .unmodelled => some (.err, m, [])   -- whatever decode says, a non-channel message is an error here (18df6c0)
    | .error _ => some (.err, m, [])
    | .ok msg =>
      match msg with
      | .openFailure pid reason _ _ =>
        match responseOk c with
        | none => some (.err, m, [])
        | some c =>
          let (o, c) := pushMsg c (.failure reason)
          if o = .blocks then some (.blocks, m, []) else
          -- chanList.remove(msg.PeersID) — the id the peer wrote, which is the id used for the lookup
          let m := setChan m pid none
          some (o, { m with detached := m.detached ++ [c] }, [])
      | .openConfirm _ myId myWin maxPkt _ =>
        match responseOk c with
        | none => some (.err, m, [])
        | some c =>
          if maxPkt < C35.minPacketLength || maxPkt > 2147483648 then some (.err, setChan m id (some c), []) else
          match C35.addWin c.remoteWin myWin with
          | none => none      -- (cannot happen: remoteWin = 0 before the confirmation; result of add is ignored by the code)
          | some w =>
            let c := { c with remoteId := myId, maxRemote := maxPkt, remoteWin := w }
            let (o, c) := pushMsg c .confirm
            some (o, setChan m id (some c), [])
      | .windowAdjust _ n =>
        match C35.addWin c.remoteWin n with
        | none => some (.err, m, [])
        | some w => some (.ok, setChan m id (some { c with remoteWin := w }), [])
      | .chanRequest _ name want _ =>
        if c.closed then some (.panic, m, []) else
        -- delivered to ch.incomingRequests; the application (harness policy) answers immediately
        let ev1 := s!"cr:{id}:{bstr name}:{if want then 1 else 0}"
        if !c.decided || !c.accepted then none else      -- (the application does not hold the channel yet: not modelled)
        if !want then some (.ok, m, [ev1]) else
        let yes := name == "yes".toUTF8.toList
        let (c, ev) := chanSend c (if yes then s!"w99:{c.remoteId}" else s!"w100:{c.remoteId}") false
        some (.ok, setChan m id (some c), ev1 :: ev)
      | .chanSuccess _ =>
        if !c.reqPending then some (.ok, m, []) else
        let (o, c) := tryPushMsg c .success
        some (o, setChan m id (some c), [])
      | .chanFailure _ =>
        if !c.reqPending then some (.ok, m, []) else
        let (o, c) := tryPushMsg c .reqFailure
        some (o, setChan m id (some c), [])
      | _ =>
        -- `default:` a message decode() knows but that is not a channel message: protocol error
        -- (repo commit 18df6c0; it used to be queued with a blocking `ch.msg <- msg`)
        some (.err, m, [])

/-- mux.onePacket on a packet returned by readPacket. `none` = outside the modelled fragment (driver: bad-op). -/
def onePacket (m : Mux) (p : Bytes) : Option (Outcome × Mux × Evs) :=
  match p with
  | [] => some (.panic, m, [])                       -- packet[0] on an empty packet
  | t8 :: body =>
    let t := t8.toNat
    if t = 90 then
      match decode p with
      | .error _ => some (.err, m, [])
      | .ok (.chanOpen typ pid win maxPkt extra) =>
        if maxPkt < C35.minPacketLength || maxPkt > 2147483648 then
          some (.ok, m, [s!"w92:{pid}:2"])
        else
          let c := { newChan true m.nextUid with remoteId := pid, maxRemote := maxPkt, remoteWin := win % 4294967296 }
          let (m, id) := addChan { m with nextUid := m.nextUid + 1 } c
          -- delivered on incomingChannels; application policy: Accept types starting with 'a', else Reject
          let ev1 := s!"nc:{bstr typ}:{extra.length}"          -- ChannelType() and len(ExtraData()) as the application sees them
          if typ.head? == some 100 then
            -- application policy: types starting with 'd' are left undecided (neither Accept nor Reject yet)
            some (.ok, m, [ev1])
          else if typ.head? == some 97 then
            let (c, ev) := chanSend { c with decided := true, accepted := true } s!"w91:{pid}:{id}" false
            some (.ok, { setChan m id (some c) with held := m.held ++ [c.uid] }, ev1 :: ev)
          else
            -- application policy: 'b…' ConnectionFailed, 'u…' UnknownChannelType, 'r…' ResourceShortage, else Prohibited
            let reason := if typ.head? == some 98 then 2 else if typ.head? == some 117 then 3
              else if typ.head? == some 114 then 4 else 1
            let (c, ev) := chanSend { c with decided := true } s!"w92:{pid}:{reason}" false
            let m := setChan m id none
            some (.ok, { m with detached := m.detached ++ [c] }, ev1 :: ev)
      | .ok _ => some (.panic, m, [])
    else if t = 80 || t = 81 || t = 82 then
      match decode p with
      | .error _ => some (.err, m, [])
      | .ok (.globalRequest name want _) =>
        let ev1 := s!"gr:{bstr name}:{if want then 1 else 0}"
        if !want then some (.ok, m, [ev1]) else
        some (.ok, m, [ev1, if name == "yes".toUTF8.toList then "w81" else "w82"])
      | .ok (.requestSuccess _) =>
        if !m.globalPending then some (.ok, m, []) else
        some (.ok, { m with globalBuf := if m.globalBuf.isSome then m.globalBuf else some .success }, [])
      | .ok (.requestFailure _) =>
        if !m.globalPending then some (.ok, m, []) else
        some (.ok, { m with globalBuf := if m.globalBuf.isSome then m.globalBuf else some .failure }, [])
      | .ok _ => some (.panic, m, [])               -- panic("not a global message")
    else if t = 192 then
      match rdStr body with
      | none => some (.err, m, [])
      | some (d, rest) => if rest.isEmpty then some (.ok, m, [s!"w193:{d.length}"]) else some (.err, m, [])
    else
      if p.length < 5 then some (.err, m, []) else
      match rdU32 body with
      | none => some (.panic, m, [])                 -- binary.BigEndian.Uint32(packet[1:]) out of range
      | some (id, _) =>
        match getChan m id with
        | some c => handleChanPacket m id c p t
        | none =>
          -- handleUnknownChannelPacket
          match decode p with
          | .error .unmodelled => some (.err, m, [])   -- decode error or 'invalid channel': an error either way
          | .error _ => some (.err, m, [])
          | .ok (.chanRequest pid _ want _) =>
            if want then some (.ok, m, [s!"w100:{pid}"]) else some (.ok, m, [])
          | .ok _ => some (.err, m, [])

/-- mux.loop exit: dropAll + ch.close() for every channel still listed, queues closed, pending callers fail -/
def shutdown (m : Mux) : Mux :=
  let closeC (c : Chan) : Chan := { c with closed := true, sentClose := true }
  { m with ended := true,
           detached := m.detached ++ (m.chans.filterMap id).map closeC,
           chans := [], globalBuf := none }


/-! ## local calls (application side) -/

def findByUid (m : Mux) (uid : Nat) : Option (Sum Nat Nat × Chan) :=   -- inl slot | inr index in detached
  match m.chans.findIdx? (fun c => match c with | some c => c.uid == uid | none => false) with
  | some i => (getChan m i).map (fun c => (.inl i, c))
  | none =>
    match m.detached.findIdx? (·.uid == uid) with
    | some j => (m.detached[j]?).map (fun c => (.inr j, c))
    | none => none

def putBack (m : Mux) (loc : Sum Nat Nat) (c : Chan) : Mux :=
  match loc with
  | .inl i => setChan m i (some c)
  | .inr j => { m with detached := m.detached.set j c }

/-- mux.OpenChannel: newChannel (added to chanList), send channelOpen, then wait on ch.msg -/
def localOpen (m : Mux) (call : Nat) : Mux × Evs :=
  let c := { newChan false m.nextUid with opener := some call }
  let (m', id) := addChan { m with nextUid := m.nextUid + 1 } c
  if m.ended then
    -- sendMessage fails on the closed connection: OpenChannel returns the error (the channel stays listed)
    (setChan m' id (some { c with opener := none }), [s!"O{call}=err"])
  else (m', [s!"w90:{id}"])

/-- mux.SendRequest -/
def localGlobal (m : Mux) (call : Nat) (want : Bool) : Mux × Evs :=
  let m := if want then { m with globalPending := true, globalBuf := none } else m   -- open the gate, drain stale replies
  if m.ended then ({ m with globalPending := if want then false else m.globalPending }, [s!"G{call}=err"])
  else if !want then (m, ["w80:0", s!"G{call}=nowait"])
  else ({ m with globalCaller := some call }, ["w80:1"])

/-- ch.sentRequestMu: a SendRequest(wantReply) on handle `h` would wait for the mutex held by the call whose reply
    is still awaited (the harness does not issue such a call) -/
def chanReqBlocks (m : Mux) (h : Nat) (want : Bool) : Bool :=
  match m.held[h]? with
  | some uid => match findByUid m uid with
    | some (_, c) => c.requester.isSome && want
    | none => false
  | none => false

/-- channel.SendRequest on one channel: gate + drain (wantReply), send, register the waiting caller -/
def chanReqCore (c : Chan) (call : Nat) (want : Bool) : Chan × Evs :=
  if !c.decided then (c, [s!"R{call}=und"]) else
  -- sentRequestMu taken; sentRequestPending := true; every message still buffered in ch.msg is discarded
  let c := if want then { c with reqPending := true, msgQ := [] } else c
  if c.sentClose then
    -- sendMessage fails (io.EOF); only a wantReply call had opened the gate and closes it again on return
    ({ c with reqPending := if want then false else c.reqPending }, [s!"R{call}=err"]) else
  let ev := s!"w98:{c.remoteId}:{if want then 1 else 0}"
  if !want then (c, [ev, s!"R{call}=nowait"])
  else ({ c with requester := some call }, [ev])

/-- channel.SendRequest on the application's handle `h` (index into `held`) -/
def localChanReq (m : Mux) (call h : Nat) (want : Bool) : Option (Mux × Evs) :=
  match m.held[h]? with
  | none => none
  | some uid =>
    match findByUid m uid with
    | none => none
    | some (loc, c) =>
      let (c', ev) := chanReqCore c call want
      some (putBack m loc c', ev)

/-- channel.Close on handle `h` -/
def localClose (m : Mux) (call h : Nat) : Option (Mux × Evs) :=
  match m.held[h]? with
  | none => none
  | some uid =>
    match findByUid m uid with
    | none => none
    | some (loc, c) =>
      if !c.decided then some (m, [s!"K{call}=und"]) else
      if c.sentClose then some (m, [s!"K{call}=err"]) else
      some (putBack m loc { c with sentClose := true }, [s!"w97:{c.remoteId}", s!"K{call}=ok"])

/-- channel.CloseWrite on handle `h`: sends CHANNEL_EOF (refused once a close was sent) -/
def localEOF (m : Mux) (call h : Nat) : Option (Mux × Evs) :=
  match m.held[h]? with
  | none => none
  | some uid =>
    match findByUid m uid with
    | none => none
    | some (_, c) =>
      if !c.decided then some (m, [s!"E{call}=und"]) else
      if c.sentClose then some (m, [s!"E{call}=err"]) else
      some (m, [s!"w96:{c.remoteId}", s!"E{call}=ok"])

/-- a caller blocked on `ch.msg` (OpenChannel / SendRequest) takes the next message, or sees the closed channel -/
def completeChan (c : Chan) : Chan × Evs × Bool :=      -- (channel, events, application obtained the channel)
  match c.opener, c.requester with
  | some k, _ =>
    match c.msgQ with
    | .confirm :: q => ({ c with msgQ := q, opener := none, accepted := true }, [s!"O{k}=ok"], true)
    | .failure r :: q => ({ c with msgQ := q, opener := none }, [s!"O{k}=fail:{r}"], false)
    | _ :: q => ({ c with msgQ := q, opener := none }, [s!"O{k}=err"], false)
    | [] => if c.closed then ({ c with opener := none }, [s!"O{k}=err"], false) else (c, [], false)
  | none, some k =>
    match c.msgQ with
    | .success :: q => ({ c with msgQ := q, requester := none, reqPending := false }, [s!"R{k}=ok"], false)
    | .reqFailure :: q => ({ c with msgQ := q, requester := none, reqPending := false }, [s!"R{k}=fail"], false)
    | _ :: q => ({ c with msgQ := q, requester := none, reqPending := false }, [s!"R{k}=err"], false)
    | [] => if c.closed then ({ c with requester := none, reqPending := false }, [s!"R{k}=err"], false) else (c, [], false)
  | none, none => (c, [], false)

/-- every blocked caller that can return does (order: global, listed channels by slot, detached) -/
def completions (m : Mux) : Mux × Evs :=
  let (m, ev0) := match m.globalCaller, m.globalBuf with
    | some k, some .success => ({ m with globalCaller := none, globalPending := false, globalBuf := none }, [s!"G{k}=ok"])
    | some k, some .failure => ({ m with globalCaller := none, globalPending := false, globalBuf := none }, [s!"G{k}=fail"])
    | some k, none => if m.ended then ({ m with globalCaller := none, globalPending := false }, [s!"G{k}=err"]) else (m, [])
    | none, _ => (m, [])
  let chans := m.chans.map (Option.map (fun c => (completeChan c).1))
  let ev1 := m.chans.flatMap (fun oc => match oc with
    | some c => (completeChan c).2.1
    | none => [])
  let got1 := m.chans.filterMap (fun oc => match oc with
    | some c => if (completeChan c).2.2 then some c.uid else none
    | none => none)
  let stepD (acc : List Chan × Evs) (c : Chan) :=
    let (c', ev, _) := completeChan c
    (acc.1 ++ [c'], acc.2 ++ ev)
  let (det, ev2) := m.detached.foldl stepD ([], [])
  ({ m with chans := chans, detached := det, held := m.held ++ got1 }, ev0 ++ ev1 ++ ev2)

end XC.C36
