/-
  C12 — shared helpers of the legacy block-cipher models: word load/store on byte lists,
  rotations, ECB over a multiple-of-blocksize buffer.  Core Lean only.
-/
import XC.Basic
namespace XC.C12

/-- two big-endian 32-bit words of an 8-byte block -/
def split8 (bs : Bytes) : UInt32 × UInt32 := (be32 bs, be32 (bs.drop 4))
def join8 (p : UInt32 × UInt32) : Bytes := u32be p.1 ++ u32be p.2

/-- four little-endian 32-bit words of a 16-byte block (Twofish) -/
def split16le (bs : Bytes) : UInt32 × UInt32 × UInt32 × UInt32 :=
  (le32 bs, le32 (bs.drop 4), le32 (bs.drop 8), le32 (bs.drop 12))
def join16le (p : UInt32 × UInt32 × UInt32 × UInt32) : Bytes :=
  u32le p.1 ++ u32le p.2.1 ++ u32le p.2.2.1 ++ u32le p.2.2.2

def le16 (bs : Bytes) : UInt16 := UInt16.ofNat (natOfLE (bs.take 2))
def u16le (w : UInt16) : Bytes := natToLE 2 w.toNat

/-- four little-endian 16-bit words of an 8-byte block (RC2) -/
def split8le16 (bs : Bytes) : UInt16 × UInt16 × UInt16 × UInt16 :=
  (le16 bs, le16 (bs.drop 2), le16 (bs.drop 4), le16 (bs.drop 6))
def join8le16 (p : UInt16 × UInt16 × UInt16 × UInt16) : Bytes :=
  u16le p.1 ++ u16le p.2.1 ++ u16le p.2.2.1 ++ u16le p.2.2.2

/-- `bits.RotateLeft32(x, k)` for `0 ≤ k < 32` (k = 0 is the identity) -/
def rotl32 (x : UInt32) (k : UInt32) : UInt32 :=
  (x <<< (k % 32)) ||| (x >>> ((32 - k % 32) % 32))

def rotl16 (x : UInt16) (k : UInt16) : UInt16 :=
  (x <<< (k % 16)) ||| (x >>> ((16 - k % 16) % 16))

/-- ECB over consecutive `bs`-byte blocks (the harness calls Encrypt/Decrypt once per block);
    `src.length` is a multiple of `bs` (the driver checks). -/
def ecb (bs : Nat) (f : Bytes → Bytes) (src : Bytes) : Bytes :=
  ((chunks bs src).map f).flatten

/-- one step of the cyclic key reader: `b[j]`, then `j++; if j >= len(b) { j = 0 }` -/
@[inline] def nextByte (key : Array UInt8) (j : Nat) : UInt8 × Nat :=
  (key[j]!, if j + 1 ≥ key.size then 0 else j + 1)

/-- blowfish `getNextWord` (and the inlined copy in `ExpandKey`): the next big-endian word of a byte
    array read cyclically from byte position `pos`; returns the word and the new position.
    Caller guarantees `key.size > 0`. -/
def nextWord (key : Array UInt8) (pos : Nat) : UInt32 × Nat :=
  let (b0, j) := nextByte key pos
  let (b1, j) := nextByte key j
  let (b2, j) := nextByte key j
  let (b3, j) := nextByte key j
  (((((b0.toUInt32 <<< 8) ||| b1.toUInt32) <<< 8 ||| b2.toUInt32) <<< 8) ||| b3.toUInt32, j)

/-- byte `p` of the key repeated cyclically -/
def cyc (key : Array UInt8) (p : Nat) : UInt8 := key[p % key.size]!

/-- word `t` of the cyclic key stream: bytes 4t … 4t+3 of the repeated key, big-endian (Horner form) -/
def streamWord (key : Array UInt8) (t : Nat) : UInt32 :=
  ((((cyc key (4*t)).toUInt32 <<< 8) ||| (cyc key (4*t+1)).toUInt32) <<< 8 ||| (cyc key (4*t+2)).toUInt32) <<< 8
    ||| (cyc key (4*t+3)).toUInt32

end XC.C12
