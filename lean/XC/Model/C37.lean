/-
  C37 — remote forward listeners (ssh/tcpip.go, ssh/streamlocal.go, ssh/client.go), modelled AS WRITTEN.

  A labelled transition system whose atomic steps are the mutex-protected critical sections and the
  Go-channel operations of the real code:

    forwardList{Mutex, entries}                       entries : List (Key × listener id)
    forwardEntry.c = make(chan forward, 1)            Lst.buf : Option Fwd, Lst.closed
    handleChannels (one goroutine per channel type)   Handler{queue, pc}; pc = some (f, lid) means: the
                                                      goroutine is inside forwardList.forward, HOLDS THE
                                                      MUTEX and is at `f.c <- forward{…}` for listener lid
    (*tcpListener).Accept / (*unixListener).Accept    acceptors; step accRun
    (*tcpListener).Close → forwardList.remove         closers; step closeRun (needs the mutex)
    Client.listenTCPInternal → forwardList.add        adders; step addRun (needs the mutex)
    NewClient: conn.Wait(); forwards.closeAll()       closeAllPending; step closeAllRun (needs the mutex)

  Every other critical section of forwardList is straight-line code, so the only way the mutex stays
  held across steps is a handler blocked in its channel send: `locked s` is *defined* as
  "some handler pc is some".  Go panics (send on a closed channel, close of a closed channel) are the
  explicit event `Ev.panic`.
-/
import XC.Basic
namespace XC.C37

/-! ## generic LTS vocabulary -/

/-- run a (partial, deterministic-per-label) step function over a list of labels -/
def runFrom {σ α : Type} (step : σ → α → Option σ) : σ → List α → Option σ
  | s, [] => some s
  | s, a :: as => match step s a with
    | none => none
    | some s' => runFrom step s' as

/-- states reachable from `init` by enabled labels -/
inductive ReachableBy {σ α : Type} (step : σ → α → Option σ) (init : σ) : σ → Prop
  | init : ReachableBy step init init
  | step {s s' : σ} (a : α) : ReachableBy step init s → step s a = some s' → ReachableBy step init s'

/-- the induction principle every invariant proof below uses -/
theorem invariant_of_step {σ α : Type} {step : σ → α → Option σ} {init : σ} (Inv : σ → Prop)
    (h0 : Inv init) (hs : ∀ s a s', Inv s → step s a = some s' → Inv s') :
    ∀ s, ReachableBy step init s → Inv s := by
  intro s h
  induction h with
  | init => exact h0
  | step a _ hstep ih => exact hs _ a _ ih hstep

theorem reachable_of_run {σ α : Type} {step : σ → α → Option σ} {init s s' : σ}
    (h : ReachableBy step init s) (as : List α) (hr : runFrom step s as = some s') :
    ReachableBy step init s' := by
  induction as generalizing s with
  | nil => simp [runFrom] at hr; subst hr; exact h
  | cons a as ih =>
    simp only [runFrom] at hr
    cases hst : step s a with
    | none => simp [hst] at hr
    | some s1 =>
      simp [hst] at hr
      exact ih (ReachableBy.step a h hst) hr

/-! ## data -/

inductive Net | tcp | unix
deriving DecidableEq, Repr

/-- what `forwardList.forward` compares: the network and the exact address string
    (`net.JoinHostPort(host, port)` / the socket path; `port = 0` for unix) -/
structure Key where
  net : Net
  host : String
  port : Nat
deriving DecidableEq, Repr

/-- a channel open sent by the peer -/
structure Fwd where
  id : Nat          -- the peer's channel id
  key : Key         -- address carried in the payload (net = which channel type)
  parses : Bool     -- payload unmarshals and (tcp) the originator address/port parse
  known : Bool      -- channel type is forwarded-tcpip / forwarded-streamlocal@openssh.com
deriving DecidableEq, Repr

/-- a listener returned by Listen/ListenTCP/ListenUnix together with its Go channel (capacity 1) -/
structure Lst where
  id : Nat
  key : Key
  buf : Option Fwd
  closed : Bool
deriving DecidableEq, Repr

structure Handler where
  queue : List Fwd            -- opens handed over by Client.handleChannelOpens, not yet processed
  pc : Option (Fwd × Nat)     -- some (f, lid): inside forward(), mutex held, blocked at `c <- f` of listener lid
deriving DecidableEq, Repr

inductive Ev
  | listen (call : Nat) (res : Nat)              -- 0 ok, 1 denied by peer, 2 error (connection gone)
  | accept (call lid : Nat) (res : Option Fwd)   -- some f: (net.Conn for f, nil); none: error
  | close (call lid : Nat) (ok : Bool)           -- Close returned (nil / error)
  | confirm (fid : Nat)                          -- channelOpenConfirm on the wire
  | reject (fid : Nat) (reason : Nat)            -- channelOpenFailure on the wire (1 Prohibited, 2 ConnectionFailed, 3 UnknownChannelType)
  | panic
deriving DecidableEq, Repr

structure State where
  started : Bool                 -- handleForwardsOnce has fired
  alive : Bool                   -- connection up (mux loop running)
  closeAllPending : Bool         -- conn.Wait() returned, forwards.closeAll() not yet run
  entries : List (Key × Nat)     -- forwardList.entries, in order
  lsts : List Lst
  htcp : Handler
  hunix : Handler
  adders : List (Nat × Key)              -- (call, key): forwardList.add waiting for the mutex
  acceptors : List (Nat × Nat)           -- (call, lid): blocked in `<-l.in`
  closers : List (Nat × Nat × Bool)      -- (call, lid, peer will acknowledge the cancel request)
  log : List Ev                          -- newest first
deriving DecidableEq, Repr

def init : State :=
  { started := false, alive := true, closeAllPending := false, entries := [], lsts := [],
    htcp := ⟨[], none⟩, hunix := ⟨[], none⟩, adders := [], acceptors := [], closers := [], log := [] }

inductive Act
  -- environment (application calls, peer packets)
  | listenCall (call : Nat) (key : Key) (deny : Bool)
  | fwdSend (f : Fwd)
  | acceptCall (call lid : Nat)
  | closeCall (call lid : Nat) (cancelOk : Bool)
  | disconnect
  -- internal (one goroutine performs one atomic section)
  | addRun (call : Nat)
  | hTake (n : Net)
  | hSend (n : Net)
  | accRun (call : Nat)
  | closeRun (call : Nat)
  | closeAllRun
deriving DecidableEq, Repr

def State.h (s : State) : Net → Handler
  | .tcp => s.htcp
  | .unix => s.hunix

def State.setH (s : State) (n : Net) (h : Handler) : State :=
  match n with
  | .tcp => { s with htcp := h }
  | .unix => { s with hunix := h }

/-- the forwardList mutex is held across steps exactly when a handler is parked in its send -/
def locked (s : State) : Bool := s.htcp.pc.isSome || s.hunix.pc.isSome

def findEntry (es : List (Key × Nat)) (k : Key) : Option Nat :=
  match es with
  | [] => none
  | (k', lid) :: rest => if k' = k then some lid else findEntry rest k

/-- `append(l.entries[:i], l.entries[i+1:]...)` for the first i whose key matches -/
def removeFirst (es : List (Key × Nat)) (k : Key) : List (Key × Nat) :=
  match es with
  | [] => []
  | (k', lid) :: rest => if k' = k then rest else (k', lid) :: removeFirst rest k

def getLst (ls : List Lst) (lid : Nat) : Option Lst :=
  match ls with
  | [] => none
  | l :: rest => if l.id = lid then some l else getLst rest lid

def updLst (ls : List Lst) (lid : Nat) (f : Lst → Lst) : List Lst :=
  ls.map (fun l => if l.id = lid then f l else l)

def emit (s : State) (e : Ev) : State := { s with log := e :: s.log }

/-- wire events exist only while the connection is up (after the mux loop ended every channel has
    sentClose = true and writePacket returns io.EOF) -/
def emitWire (s : State) (e : Ev) : State := if s.alive then emit s e else s

/-- `close(f.c)`; closing a closed Go channel panics -/
def closeChan (s : State) (lid : Nat) : State :=
  match getLst s.lsts lid with
  | none => s
  | some l =>
    if l.closed then emit s .panic
    else { s with lsts := updLst s.lsts lid (fun l => { l with closed := true }) }

/-- `c <- f` on a channel with room; sending on a closed Go channel panics -/
def putChan (s : State) (lid : Nat) (f : Fwd) : State :=
  match getLst s.lsts lid with
  | none => s
  | some l =>
    if l.closed then emit s .panic
    else { s with lsts := updLst s.lsts lid (fun l => { l with buf := some f }) }

def closeAllChans (s : State) : List (Key × Nat) → State
  | [] => s
  | (_, lid) :: rest => closeAllChans (closeChan s lid) rest

/-- the step function: `none` = the action is not enabled in `s` -/
def next (s : State) : Act → Option State
  | .listenCall call key deny =>
    -- c.handleForwardsOnce.Do(c.handleForwards); SendRequest("tcpip-forward"/"streamlocal-forward", true, …)
    let s := { s with started := true }
    if !s.alive then some (emit s (.listen call 2))
    else if deny then some (emit s (.listen call 1))
    else some { s with adders := s.adders ++ [(call, key)] }
  | .fwdSend f =>
    if !s.alive then none
    else if !s.started || !f.known then
      -- Client.handleChannelOpens: no handler registered for this channel type
      some (emitWire s (.reject f.id 3))
    else
      let h := s.h f.key.net
      some (s.setH f.key.net { h with queue := h.queue ++ [f] })
  | .acceptCall call lid =>
    match getLst s.lsts lid with
    | none => none
    | some _ => some { s with acceptors := s.acceptors ++ [(call, lid)] }
  | .closeCall call lid cancelOk =>
    match getLst s.lsts lid with
    | none => none
    | some _ => some { s with closers := s.closers ++ [(call, lid, cancelOk)] }
  | .disconnect =>
    if !s.alive then none else some { s with alive := false, closeAllPending := true }
  | .addRun call =>
    match s.adders.find? (·.1 = call) with
    | none => none
    | some (_, key) =>
      if locked s || (getLst s.lsts call).isSome then none     -- (call ids are fresh: one listener per Listen call)
      else some (emit { s with adders := s.adders.filter (·.1 ≠ call),
                               entries := s.entries ++ [(key, call)],
                               lsts := s.lsts ++ [⟨call, key, none, false⟩] } (.listen call 0))
  | .hTake n =>
    let h := s.h n
    match h.pc, h.queue with
    | some _, _ => none
    | none, [] => none
    | none, f :: q =>
      if !f.parses then
        -- ch.Reject(ConnectionFailed, …) before forward() is called: no mutex involved
        some (emitWire (s.setH n { h with queue := q }) (.reject f.id 2))
      else if locked s then none
      else match findEntry s.entries f.key with
        | none => some (emitWire (s.setH n { h with queue := q }) (.reject f.id 1))
        | some lid =>
          match getLst s.lsts lid with
          | none => none
          | some l =>
            if l.buf.isNone then some (putChan (s.setH n { h with queue := q }) lid f)
            else some (s.setH n { queue := q, pc := some (f, lid) })
  | .hSend n =>
    let h := s.h n
    match h.pc with
    | none => none
    | some (f, lid) =>
      match getLst s.lsts lid with
      | none => none
      | some l =>
        if l.closed then some (emit (s.setH n { h with pc := none }) .panic)
        else if l.buf.isNone then some (putChan (s.setH n { h with pc := none }) lid f)
        else none
  | .accRun call =>
    match s.acceptors.find? (·.1 = call) with
    | none => none
    | some (_, lid) =>
      match getLst s.lsts lid with
      | none => none
      | some l =>
        let s' := { s with acceptors := s.acceptors.filter (·.1 ≠ call) }
        match l.buf with
        | some f =>
          -- a closed Go channel still delivers what is buffered
          let s'' := { s' with lsts := updLst s'.lsts lid (fun l => { l with buf := none }) }
          if s.alive then some (emit (emit s'' (.confirm f.id)) (.accept call lid (some f)))
          else some (emit s'' (.accept call lid none))      -- newCh.Accept() fails: channel already closed
        | none =>
          if l.closed then some (emit s' (.accept call lid none))   -- io.EOF
          else none
  | .closeRun call =>
    match s.closers.find? (·.1 = call) with
    | none => none
    | some (_, lid, cancelOk) =>
      match getLst s.lsts lid with
      | none => none
      | some l =>
        if locked s then none
        else
          let s' := { s with closers := s.closers.filter (·.1 ≠ call) }
          let s'' := match findEntry s'.entries l.key with
            | none => s'
            | some victim => closeChan { s' with entries := removeFirst s'.entries l.key } victim
          some (emit s'' (.close call lid (s.alive && cancelOk)))
  | .closeAllRun =>
    if !s.closeAllPending || locked s then none
    else
      let s' := closeAllChans s s.entries
      some { s' with entries := [], closeAllPending := false }

abbrev Reachable : State → Prop := ReachableBy next init

def run (as : List Act) : Option State := runFrom next init as

/-- all internal actions an actor of `s` could attempt -/
def internalActs (s : State) : List Act :=
  s.adders.map (fun a => Act.addRun a.1) ++
  [.hTake .tcp, .hTake .unix, .hSend .tcp, .hSend .unix] ++
  s.acceptors.map (fun a => Act.accRun a.1) ++
  s.closers.map (fun c => Act.closeRun c.1) ++
  [.closeAllRun]

/-- successor states by internal actions -/
def internalSucc (s : State) : List State := (internalActs s).filterMap (next s)

/-- no goroutine can move: every actor is blocked or finished -/
def quiescent (s : State) : Bool := (internalSucc s).isEmpty

end XC.C37
