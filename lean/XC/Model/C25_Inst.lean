/-
  C25_Inst — the concrete instances of the abstract packet-cipher model: the cipher / MAC tables of
  ssh/cipher.go (cipherModes) and ssh/mac.go (macModes) with key / IV sizes, built from the executable
  primitive stand-ins.  Also line-protocol helpers shared by the C25 and C26 drivers.
-/
import XC.Model.C25
import XC.Model.C25_Prims
namespace XC.C25

/-- tail-recursive hex parser (packets of 256 KiB arrive as one hex field) -/
def ofHexFast (s : String) : Option Bytes :=
  if s == "-" then some [] else
  let r := s.foldl (fun (st : Option (Array UInt8 × Option Nat)) ch =>
      match st with
      | none => none
      | some (acc, pending) =>
        match hexVal ch with
        | none => none
        | some v =>
          match pending with
          | none => some (acc, some v)
          | some hi => some (acc.push (UInt8.ofNat (16 * hi + v)), none)) (some (#[], none))
  match r with
  | some (acc, none) => some acc.toList
  | _ => none

def hexArg (o : Op) (k : String) : Option Bytes := (o.get? k).bind ofHexFast

def hexListArg (o : Op) (k : String) : Option (List Bytes) :=
  match o.get? k with
  | none => none
  | some "-" => some []
  | some s => (s.splitOn ",").mapM (fun x => if x == "." then some [] else ofHexFast x)

structure CipherInfo where
  keySize : Nat
  ivSize : Nat
  aead : Bool

/-- cipherModes of ssh/cipher.go -/
def cipherInfo : String → Option CipherInfo
  | "none" => some ⟨0, 0, true⟩
  | "aes128-ctr" => some ⟨16, 16, false⟩
  | "aes192-ctr" => some ⟨24, 16, false⟩
  | "aes256-ctr" => some ⟨32, 16, false⟩
  | "aes128-gcm@openssh.com" => some ⟨16, 12, true⟩
  | "aes256-gcm@openssh.com" => some ⟨32, 12, true⟩
  | "chacha20-poly1305@openssh.com" => some ⟨64, 0, true⟩
  | "arcfour128" => some ⟨16, 0, false⟩
  | "arcfour256" => some ⟨32, 0, false⟩
  | "arcfour" => some ⟨16, 0, false⟩
  | "aes128-cbc" => some ⟨16, 16, false⟩
  | "3des-cbc" => some ⟨24, 8, false⟩
  | _ => none

def ksOfArray (a : Array UInt8) : Nat → UInt8 := fun i => a.getD i 0

/-- the packetCipher for (cipher, mac, key, iv, macKey); `ksLen` bounds the keystream a stream cipher
    will be asked for in this run -/
def mkMode (cipher mac : String) (key iv mkey : Bytes) (ksLen : Nat) : Option (Mode × St) :=
  match cipherInfo cipher with
  | none => none
  | some info =>
    if key.length != info.keySize || iv.length != info.ivSize then none else
    let withMac (f : MacAlg → Mode × St) : Option (Mode × St) :=
      match macByName mac with
      | none => none
      | some a => if mkey.length != a.keyLen then none else some (f a)
    match cipher with
    | "none" => some (.stream ⟨fun _ => 0, none, 0, false⟩, ⟨0, []⟩)
    | "aes128-ctr" | "aes192-ctr" | "aes256-ctr" =>
      withMac fun a =>
        let arr := Aes.ctrKeystream (Aes.expandKey key) iv ksLen
        (.stream ⟨ksOfArray arr, some (a.fn mkey), a.size, a.etm⟩, ⟨0, []⟩)
    | "arcfour" =>
      withMac fun a =>
        let arr := rc4Keystream key 0 ksLen
        (.stream ⟨ksOfArray arr, some (a.fn mkey), a.size, a.etm⟩, ⟨0, []⟩)
    | "arcfour128" | "arcfour256" =>
      withMac fun a =>
        let arr := rc4Keystream key 1536 ksLen
        (.stream ⟨ksOfArray arr, some (a.fn mkey), a.size, a.etm⟩, ⟨0, []⟩)
    | "aes128-gcm@openssh.com" | "aes256-gcm@openssh.com" =>
      let k := Aes.expandKey key
      some (.gcm ⟨gcmSeal k, gcmOpen k⟩, ⟨0, iv⟩)
    | "aes128-cbc" =>
      withMac fun a =>
        let k := Aes.expandKey key
        (.cbc ⟨16, Aes.encryptBlock k, Aes.decryptBlock k, a.fn mkey, a.size⟩, ⟨0, iv⟩)
    | "3des-cbc" =>
      withMac fun a =>
        let k := Des.expandKey3 key
        (.cbc ⟨8, Des.encryptBlock3 k, Des.decryptBlock3 k, a.fn mkey, a.size⟩, ⟨0, iv⟩)
    | "chacha20-poly1305@openssh.com" =>
      some (.chacha ⟨XC.C03.keystream, poly1305, key.take 32, key.drop 32⟩, ⟨0, []⟩)
    | _ => none

/-- the observable error class is what the Go error value / type tells, never its text: io.EOF and
    io.ErrUnexpectedEOF are sentinels (`eof`); the CBC reader's verification errors have the type cbcError
    (`cbc`, whether length or MAC); every other error of the package is an untyped errors.New value (`err`).
    Length versus MAC failures remain distinguishable through the number of bytes consumed. -/
def showRErr (cbc : Bool) : RErr → String
  | .eof => "eof"
  | _ => if cbc then "cbc" else "err"

def showWErr : WErr → String
  | .large => "err" | .rand => "rand"

def Mode.isCbc : Mode → Bool
  | .cbc _ => true
  | _ => false

def showRead (cbc : Bool) (rs : List (Except RErr Bytes × Nat)) : String :=
  if rs.isEmpty then "-" else
  ",".intercalate (rs.map fun (r, n) =>
    match r with
    | .ok p => s!"ok:{toHex p}/{n}"
    | .error e => s!"err:{showRErr cbc e}/{n}")

def showWrites (ws : List (Except WErr Bytes)) : String :=
  if ws.isEmpty then "-" else
  ",".intercalate (ws.map fun w =>
    match w with
    | .ok b => toHex b
    | .error e => "E:" ++ showWErr e)

end XC.C25
