/-
  C37 — the REPAIRED step relation `nextFixed` (not the code in /repo: a specification of what a repair of
  findings close-blocked-by-unaccepted-forwards / accept-after-close-returns-buffered-forward must achieve).

  Repair described in the C37 report:
    type forwardEntry struct { addr, network string; c chan forward; done chan struct{} }
    forward():  l.Lock(); e := lookup; l.Unlock()                       -- the mutex is NOT held while sending
                select { case e.c <- fwd: (then: if done is closed, take it back and Reject) ; case <-e.done: return false }
    remove() / closeAll():  under the lock delete the entry and close(e.done)  (e.c is never closed);
                then drain: select { case s := <-e.c: s.newCh.Reject(Prohibited) ; default: }
    Accept():   select { case <-l.done: return io.EOF; default: } ; then select on l.in / l.done

  Same `State` as the as-written model; the fields are re-read as follows:
    Lst.closed          the listener's `done` channel is closed (its `c` is never closed)
    Handler.pc = some (f, lid)   the goroutine has LEFT the critical section holding a reference to the entry of
                        listener lid and sits in the two-way select — it does not hold the mutex
  Every critical section is a single atomic step, so no step is ever disabled by the mutex.
  "send, then see done closed, take the forward back and Reject" is collapsed into the done-branch of hSend:
  whichever of the handler / the remover drains a forward that raced with Close, it is rejected exactly once.
-/
import XC.Model.C37
namespace XC.C37

/-- close(e.done) + drain-and-reject of what is buffered; closing `done` twice would panic -/
def retire (s : State) (lid : Nat) : State :=
  match getLst s.lsts lid with
  | none => s
  | some l =>
    if l.closed then emit s .panic
    else
      let s' := { s with lsts := updLst s.lsts lid (fun l => { l with closed := true, buf := none }) }
      match l.buf with
      | none => s'
      | some f => emitWire s' (.reject f.id 1)

def retireAll (s : State) : List (Key × Nat) → State
  | [] => s
  | (_, lid) :: rest => retireAll (retire s lid) rest

def nextFixed (s : State) : Act → Option State
  | .listenCall call key deny =>
    let s := { s with started := true }
    if !s.alive then some (emit s (.listen call 2))
    else if deny then some (emit s (.listen call 1))
    else some { s with adders := s.adders ++ [(call, key)] }
  | .fwdSend f =>
    if !s.alive then none
    else if !s.started || !f.known then some (emitWire s (.reject f.id 3))
    else
      let h := s.h f.key.net
      some (s.setH f.key.net { h with queue := h.queue ++ [f] })
  | .acceptCall call lid =>
    match getLst s.lsts lid with
    | none => none
    | some _ => some { s with acceptors := s.acceptors ++ [(call, lid)] }
  | .closeCall call lid cancelOk =>
    match getLst s.lsts lid with
    | none => none
    | some _ => some { s with closers := s.closers ++ [(call, lid, cancelOk)] }
  | .disconnect =>
    if !s.alive then none else some { s with alive := false, closeAllPending := true }
  | .addRun call =>
    match s.adders.find? (·.1 = call) with
    | none => none
    | some (_, key) =>
      if (getLst s.lsts call).isSome then none
      else some (emit { s with adders := s.adders.filter (·.1 ≠ call),
                               entries := s.entries ++ [(key, call)],
                               lsts := s.lsts ++ [⟨call, key, none, false⟩] } (.listen call 0))
  | .hTake n =>
    -- parse, then the (atomic) lookup under the lock
    let h := s.h n
    match h.pc, h.queue with
    | some _, _ => none
    | none, [] => none
    | none, f :: q =>
      if !f.parses then some (emitWire (s.setH n { h with queue := q }) (.reject f.id 2))
      else match findEntry s.entries f.key with
        | none => some (emitWire (s.setH n { h with queue := q }) (.reject f.id 1))
        | some lid => some (s.setH n { queue := q, pc := some (f, lid) })
  | .hSend n =>
    -- the two-way select, outside the lock
    let h := s.h n
    match h.pc with
    | none => none
    | some (f, lid) =>
      match getLst s.lsts lid with
      | none => none
      | some l =>
        if l.closed then some (emitWire (s.setH n { h with pc := none }) (.reject f.id 1))
        else if l.buf.isNone then
          some { (s.setH n { h with pc := none }) with
                 lsts := updLst s.lsts lid (fun l => { l with buf := some f }) }
        else none
  | .accRun call =>
    match s.acceptors.find? (·.1 = call) with
    | none => none
    | some (_, lid) =>
      match getLst s.lsts lid with
      | none => none
      | some l =>
        let s' := { s with acceptors := s.acceptors.filter (·.1 ≠ call) }
        if l.closed then some (emit s' (.accept call lid none))        -- done is checked first: io.EOF
        else match l.buf with
          | some f =>
            let s'' := { s' with lsts := updLst s'.lsts lid (fun l => { l with buf := none }) }
            if s.alive then some (emit (emit s'' (.confirm f.id)) (.accept call lid (some f)))
            else some (emit s'' (.accept call lid none))
          | none => none
  | .closeRun call =>
    match s.closers.find? (·.1 = call) with
    | none => none
    | some (_, lid, cancelOk) =>
      match getLst s.lsts lid with
      | none => none
      | some l =>
        let s' := { s with closers := s.closers.filter (·.1 ≠ call) }
        let s'' := match findEntry s'.entries l.key with
          | none => s'
          | some victim => retire { s' with entries := removeFirst s'.entries l.key } victim
        some (emit s'' (.close call lid (s.alive && cancelOk)))
  | .closeAllRun =>
    if !s.closeAllPending then none
    else
      let s' := retireAll s s.entries
      some { s' with entries := [], closeAllPending := false }

abbrev ReachableF : State → Prop := ReachableBy nextFixed init

def runF (as : List Act) : Option State := runFrom nextFixed init as

end XC.C37
