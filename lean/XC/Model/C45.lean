/-
  C45 — the byte-level readers of openpgp/packet as total functions over the remaining input
  (every recursion is well-founded on the length of what is left — no fuel):

    readLength, readHeader (old/new format), spanReader / partialLengthReader / indeterminate bodies
    read to EOF (packet.go), the OpaqueReader packet sequence, readMPI, OpaqueSubpackets /
    parseSignatureSubpacket length forms, the whole v4 `Signature.parse` (signature.go, incl. the
    recursive embedded-signature subpacket), `s2k.Parse`'s specifier reader.

  armor.Decode / clearsign.Decode are the C46 model (imported by the driver).
  A reader over `[]byte` is modelled by the list of bytes still unread (bytes.Reader semantics).
-/
import XC.Basic
namespace XC.C45
open XC

/-- error classes that the property-level observables distinguish -/
inductive RErr where
  | eof      -- io.EOF
  | ueof     -- io.ErrUnexpectedEOF
  | struct   -- errors.StructuralError
  | unsup    -- errors.UnsupportedError
deriving DecidableEq, Repr

def RErr.show : RErr → String
  | .eof => "eof" | .ueof => "ueof" | .struct => "struct" | .unsup => "unsup"

/-! ## lengths and headers (packet.go) -/

/-- `readLength`: new-format length. `ok (length, isPartial, rest)` -/
def readLength : Bytes → Except RErr (Nat × Bool × Bytes)
  | [] => .error .ueof
  | b :: r =>
    if b < 192 then .ok (b.toNat, false, r)
    else if b < 224 then
      match r with
      | [] => .error .ueof
      | c :: r' => .ok ((b.toNat - 192) * 256 + c.toNat + 192, false, r')
    else if b < 255 then .ok (2 ^ (b.toNat % 32), true, r)
    else
      match r with
      | b0 :: b1 :: b2 :: b3 :: r' => .ok (natOfBE [b0, b1, b2, b3], false, r')
      | _ => .error .ueof

/-- the reader `readHeader` returns for the packet contents -/
inductive Body where
  | span (n : Nat)        -- spanReader{r, n}
  | part (n : Nat)        -- partialLengthReader{remaining: n, isPartial: true}
  | indet                 -- the underlying reader itself (old format, length type 3)
deriving DecidableEq, Repr

structure Header where
  tag : Nat
  /-- the `length` result: −1 for partial / indeterminate -/
  length : Int
  body : Body
  rest : Bytes

/-- `readHeader` -/
def readHeader : Bytes → Except RErr Header
  | [] => .error .eof
  | b :: r =>
    if b &&& 0x80 == 0 then .error .struct
    else if b &&& 0x40 == 0 then
      let tag := ((b &&& 0x3f) >>> 2).toNat
      let lt := (b &&& 3).toNat
      if lt == 3 then .ok ⟨tag, -1, .indet, r⟩
      else
        let nb := 2 ^ lt
        if r.length < nb then .error .ueof
        else
          let n := natOfBE (r.take nb)
          .ok ⟨tag, n, .span n, r.drop nb⟩
    else
      let tag := (b &&& 0x3f).toNat
      match readLength r with
      | .error e => .error e
      | .ok (n, true, r') => .ok ⟨tag, -1, .part n, r'⟩
      | .ok (n, false, r') => .ok ⟨tag, n, .span n, r'⟩

theorem readLength_lt {s r : Bytes} {n : Nat} {p : Bool} (h : readLength s = .ok (n, p, r)) :
    r.length < s.length := by
  unfold readLength at h
  split at h
  · simp at h
  · rename_i b t
    split at h
    · simp only [Except.ok.injEq, Prod.mk.injEq] at h; obtain ⟨_, _, rfl⟩ := h; simp
    · split at h
      · split at h
        · simp at h
        · simp only [Except.ok.injEq, Prod.mk.injEq] at h; obtain ⟨_, _, rfl⟩ := h; simp; omega
      · split at h
        · simp only [Except.ok.injEq, Prod.mk.injEq] at h; obtain ⟨_, _, rfl⟩ := h; simp
        · split at h
          · simp only [Except.ok.injEq, Prod.mk.injEq] at h; obtain ⟨_, _, rfl⟩ := h; simp; omega
          · simp at h

/-- a partial-length chunk is never empty: `1 << (b & 0x1f) ≥ 1` -/
theorem readLength_partial_pos {s r : Bytes} {n : Nat} (h : readLength s = .ok (n, true, r)) : 0 < n := by
  unfold readLength at h
  split at h
  · simp at h
  · split at h
    · simp at h
    · split at h
      · split at h <;> simp at h
      · split at h
        · simp only [Except.ok.injEq, Prod.mk.injEq] at h
          obtain ⟨rfl, _, _⟩ := h
          exact Nat.two_pow_pos _
        · split at h <;> simp at h

/-- reading a partial-length body to EOF: `remaining` bytes of the current chunk, then (if the chunk
    was partial) the next length. Returns the contents delivered, the error if any, and what is left
    of the input. Well-founded on the remaining input: every chunk is ≥ 1 byte or is the last. -/
def readPartial (n : Nat) (isPartial : Bool) (s : Bytes) : Bytes × Option RErr × Bytes :=
  if s.length < n then (s, some .ueof, [])
  else if !isPartial then (s.take n, none, s.drop n)
  else
    match h : readLength (s.drop n) with
    | .error e => (s.take n, some e, [])
    | .ok (m, p, r) =>
      have : r.length < s.length := by
        have := readLength_lt h
        simp only [List.length_drop] at this
        omega
      let q := readPartial m p r
      (s.take n ++ q.1, q.2.1, q.2.2)
termination_by s.length

/-- `io.ReadAll(contents)` followed by `consumeAll` on error: contents, error, rest of the input.
    (after an error the underlying reader is left wherever the failed read stopped; we report `[]`) -/
def readBody (b : Body) (s : Bytes) : Bytes × Option RErr × Bytes :=
  match b with
  | .span n => if s.length < n then (s, some .ueof, []) else (s.take n, none, s.drop n)
  | .indet => (s, none, [])
  | .part n => readPartial n true s

/-- one packet of the `OpaqueReader` -/
structure OPkt where
  tag : Nat
  contents : Bytes
deriving DecidableEq, Repr

theorem readHeader_lt {s : Bytes} {h : Header} (hh : readHeader s = .ok h) : h.rest.length < s.length := by
  unfold readHeader at hh
  split at hh
  · simp at hh
  · rename_i b r
    split at hh
    · simp at hh
    · split at hh
      · dsimp only at hh
        split at hh
        · simp only [Except.ok.injEq] at hh; subst hh; simp
        · split at hh
          · simp at hh
          · simp only [Except.ok.injEq] at hh; subst hh
            simp only [List.length_drop, List.length_cons]
            exact Nat.lt_succ_of_le (Nat.sub_le _ _)
      · dsimp only at hh
        split at hh
        · simp at hh
        · rename_i n r' heq
          simp only [Except.ok.injEq] at hh; subst hh
          have := readLength_lt heq; simp; omega
        · rename_i n r' heq
          simp only [Except.ok.injEq] at hh; subst hh
          have := readLength_lt heq; simp; omega

theorem readPartial_rest_le (n : Nat) (p : Bool) (s : Bytes) : (readPartial n p s).2.2.length ≤ s.length := by
  induction hl : s.length using Nat.strongRecOn generalizing n p s with
  | _ k ih =>
    rw [readPartial]
    split
    · simp
    · split
      · simp only [List.length_drop]; omega
      · split
        · simp
        · rename_i m p' r heq
          have h1 := readLength_lt heq
          simp only [List.length_drop] at h1
          have := ih r.length (by omega) m p' r rfl
          simp only
          omega

theorem readBody_rest_le (b : Body) (s : Bytes) : (readBody b s).2.2.length ≤ s.length := by
  cases b with
  | span n => simp only [readBody]; split <;> simp
  | indet => simp [readBody]
  | part n => exact readPartial_rest_le n true s

/-- `OpaqueReader.Next` until the first error: packets, the terminating error, bytes consumed when it
    occurred (only meaningful for `eof`/`struct`, where nothing of a packet body was being read). -/
def opaqueAll (s : Bytes) : List OPkt × RErr :=
  match h : readHeader s with
  | .error e => ([], e)
  | .ok hd =>
    match hb : readBody hd.body hd.rest with
    | (c, some e, _) => ([⟨hd.tag, c⟩], e)     -- Next returns the packet read so far together with the error
    | (c, none, rest) =>
      have : rest.length < s.length := by
        have h1 := readHeader_lt h
        have h2 := readBody_rest_le hd.body hd.rest
        rw [hb] at h2
        simp only at h2
        omega
      let q := opaqueAll rest
      (⟨hd.tag, c⟩ :: q.1, q.2)
termination_by s.length

/-! ## MPI -/

/-- `readMPI`: `ok (bytes, bitLength, rest)` -/
def readMPI : Bytes → Except RErr (Bytes × Nat × Bytes)
  | b0 :: b1 :: r =>
    let bits := b0.toNat * 256 + b1.toNat
    let n := (bits + 7) / 8
    if r.length < n then .error .ueof else .ok (r.take n, bits, r.drop n)
  | _ => .error .ueof

/-! ## signature subpackets -/

/-- the three length forms shared by `nextSubpacket` (opaque.go) and `parseSignatureSubpacket`
    (signature.go): `some (length, bytes after the length field)`; `none` = truncated -/
def subLen : Bytes → Option (Nat × Bytes)
  | [] => none
  | b :: r =>
    if b < 192 then some (b.toNat, r)
    else if b < 255 then
      match r with
      | [] => none
      | c :: r' => some ((b.toNat - 192) * 256 + c.toNat + 192, r')
    else
      match r with
      | b0 :: b1 :: b2 :: b3 :: r' => some (natOfBE [b0, b1, b2, b3], r')
      | _ => none

theorem subLen_lt {s r : Bytes} {n : Nat} (h : subLen s = some (n, r)) : r.length < s.length := by
  unfold subLen at h
  split at h
  · simp at h
  · split at h
    · simp only [Option.some.injEq, Prod.mk.injEq] at h; obtain ⟨_, rfl⟩ := h; simp
    · split at h
      · split at h
        · simp at h
        · simp only [Option.some.injEq, Prod.mk.injEq] at h; obtain ⟨_, rfl⟩ := h; simp; omega
      · split at h
        · simp only [Option.some.injEq, Prod.mk.injEq] at h; obtain ⟨_, rfl⟩ := h; simp; omega
        · simp at h

/-- `OpaqueSubpackets`: `(subpackets as (type byte, contents), truncated?)`.
    `nextSubpacket` also requires room for the type byte before it looks at the length
    (`len(contents) < subHeaderLen`) and rejects `subLen == 0`. -/
def opaqueSubs (s : Bytes) : List (UInt8 × Bytes) × Bool :=
  match h : subLen s with
  | none => ([], !s.isEmpty)
  | some (n, r) =>
    if r.isEmpty then ([], true)              -- no room for the type byte
    else if n > r.length || n == 0 then ([], true)
    else
      have : r.length - n < s.length := by
        have := subLen_lt h
        omega
      let q := opaqueSubs (r.drop n)
      ((r.headD 0, (r.take n).drop 1) :: q.1, q.2)
termination_by s.length

/-! ## v4 signature packets (signature.go) -/

structure SigInfo where
  sigType : UInt8 := 0
  pkAlgo : UInt8 := 0
  hashId : UInt8 := 0
  ctime : Option Nat := none
  issuer : Option Nat := none
  sigLife : Option Nat := none
  keyLife : Option Nat := none
  prefSym : Option Bytes := none
  prefHash : Option Bytes := none
  prefComp : Option Bytes := none
  primary : Option Bool := none
  flags : Option UInt8 := none          -- FlagsValid + the four flag bits (masked with 0x0f)
  revReason : Option (UInt8 × Bytes) := none
  mdc : Bool := false
  hasEmbedded : Bool := false
  embeddedType : UInt8 := 0
  nraw : Nat := 0                        -- len(rawSubpackets)
  hashTag : Bytes := []
  mpiBits : List Nat := []

def hashIdKnown (id : UInt8) : Bool := id == 1 || id == 2 || id == 3 || id == 8 || id == 9 || id == 10 || id == 11
def sigAlgoKnown (a : UInt8) : Bool := a == 1 || a == 3 || a == 17 || a == 19

/-- framing of one subpacket as `parseSignatureSubpacket` does it:
    `error struct` = truncated / zero length; `ok (type, critical, contents, rest)` -/
def nextSigSub (s : Bytes) : Except RErr (UInt8 × Bool × Bytes × Bytes) :=
  match subLen s with
  | none => .error .struct
  | some (n, r) =>
    if n > r.length then .error .struct
    else
      match r.take n with
      | [] => .error .struct
      | t :: c => .ok (t &&& 0x7f, t &&& 0x80 == 0x80, c, r.drop n)

theorem nextSigSub_lt {s c r : Bytes} {t : UInt8} {k : Bool} (h : nextSigSub s = .ok (t, k, c, r)) :
    c.length < s.length ∧ r.length < s.length := by
  unfold nextSigSub at h
  split at h
  · simp at h
  · rename_i n r0 heq
    have h0 := subLen_lt heq
    split at h
    · simp at h
    · split at h
      · simp at h
      · rename_i t0 c0 htk
        simp only [Except.ok.injEq, Prod.mk.injEq] at h
        obtain ⟨_, _, rfl, rfl⟩ := h
        have : (r0.take n).length = (t0 :: c0).length := by rw [htk]
        simp only [List.length_take, List.length_cons] at this
        simp only [List.length_drop]
        omega

mutual
/-- `(*Signature).parse` on the packet contents: `ok (fields, unread rest)` -/
def sigParse (s : Bytes) : Except RErr (SigInfo × Bytes) :=
  if s.length < 1 then .error .ueof else
  if s.getD 0 0 != 4 then .error .unsup else
  if h6 : s.length < 6 then .error .ueof else
  let st := s.getD 1 0
  let pk := s.getD 2 0
  let hid := s.getD 3 0
  if !sigAlgoKnown pk then .error .unsup else
  if !hashIdKnown hid then .error .unsup else
  let hl := (s.getD 4 0).toNat * 256 + (s.getD 5 0).toNat
  let r2 := s.drop 6
  if r2.length < hl then .error .ueof else
  have : (r2.take hl).length < s.length := by
    simp only [r2, List.length_take, List.length_drop]; omega
  match subsParse (r2.take hl) true { sigType := st, pkAlgo := pk, hashId := hid } with
  | .error e => .error e
  | .ok sig =>
    if sig.ctime.isNone then .error .struct else
    let r2' := r2.drop hl
    if r2'.length < 2 then .error .ueof else
    let ul := (r2'.getD 0 0).toNat * 256 + (r2'.getD 1 0).toNat
    let r3 := r2'.drop 2
    if r3.length < ul then .error .ueof else
    have : (r3.take ul).length < s.length := by
      simp only [r3, r2', r2, List.length_take, List.length_drop]; omega
    match subsParse (r3.take ul) false sig with
    | .error e => .error e
    | .ok sig =>
      let r3' := r3.drop ul
      if r3'.length < 2 then .error .ueof else
      let sig := { sig with hashTag := r3'.take 2 }
      match readMPI (r3'.drop 2) with
      | .error e => .error e
      | .ok (_, b1, r5) =>
        if pk == 1 || pk == 3 then .ok ({ sig with mpiBits := [b1] }, r5) else
        match readMPI r5 with
        | .error e => .error e
        | .ok (_, b2, r6) => .ok ({ sig with mpiBits := [b1, b2] }, r6)
termination_by (s.length, 1)

/-- `parseSignatureSubpackets` without the creation-time check (made by the caller per area) -/
def subsParse (area : Bytes) (hashed : Bool) (sig : SigInfo) : Except RErr SigInfo :=
  if area.isEmpty then .ok sig else
  match h : nextSigSub area with
  | .error e => .error e
  | .ok (t, crit, c, rest) =>
    have hlt := nextSigSub_lt h
    let sig := { sig with nraw := sig.nraw + 1 }
    let r : Except RErr SigInfo :=
      if t == 2 then
        if !hashed then .error .struct
        else if c.length != 4 then .error .struct
        else .ok { sig with ctime := some (natOfBE c) }
      else if t == 3 then
        if !hashed then .ok sig
        else if c.length != 4 then .error .struct
        else .ok { sig with sigLife := some (natOfBE c) }
      else if t == 9 then
        if !hashed then .ok sig
        else if c.length != 4 then .error .struct
        else .ok { sig with keyLife := some (natOfBE c) }
      else if t == 11 then (if !hashed then .ok sig else .ok { sig with prefSym := some c })
      else if t == 16 then
        if c.length != 8 then .error .struct else .ok { sig with issuer := some (natOfBE c) }
      else if t == 21 then (if !hashed then .ok sig else .ok { sig with prefHash := some c })
      else if t == 22 then (if !hashed then .ok sig else .ok { sig with prefComp := some c })
      else if t == 25 then
        if !hashed then .ok sig
        else match c with
          | [b] => .ok { sig with primary := some (b > 0) }
          | _ => .error .struct
      else if t == 27 then
        if !hashed then .ok sig
        else match c with
          | [] => .error .struct
          | b :: _ => .ok { sig with flags := some ((sig.flags.getD 0) ||| (b &&& 0x0f)) }   -- flags are only ever set, never cleared
      else if t == 29 then
        if !hashed then .ok sig
        else match c with
          | [] => .error .struct
          | b :: txt => .ok { sig with revReason := some (b, txt) }
      else if t == 30 then
        .ok { sig with mdc := match c with | b :: _ => b &&& 1 == 1 | [] => false }
      else if t == 32 then
        if sig.hasEmbedded then .error .struct else
        have : c.length < area.length := hlt.1
        match sigParse c with
        | .error e => .error e
        | .ok (emb, _) =>
          if emb.sigType != 0x19 then .error .struct
          else .ok { sig with hasEmbedded := true, embeddedType := emb.sigType }
      else if crit then .error .unsup else .ok sig
    match r with
    | .error e => .error e
    | .ok sig =>
      have : rest.length < area.length := hlt.2
      subsParse rest hashed sig
termination_by (area.length, 0)
end

/-- `packet.Read` of a signature packet's contents: version peek then v4 parse (`v3` = not modelled) -/
def sigRead (s : Bytes) : String ⊕ Except RErr (SigInfo × Bytes) :=
  match s with
  | [] => .inr (.error .eof)        -- peekVersion: bufio Peek(1) on an empty reader → io.EOF
  | v :: _ => if v < 4 then .inl "v3" else .inr (sigParse s)

/-! ## S2K specifier (s2k.Parse) -/

/-- `ok (mode, bytes consumed)` -/
def s2kParse : Bytes → Except RErr (Nat × Nat)
  | [] => .error .eof
  | [_] => .error .ueof
  | mode :: hid :: r =>
    if !hashIdKnown hid then .error .unsup
    else if mode == 0 then .ok (0, 2)
    else if mode == 1 then
      if r.isEmpty then .error .eof else if r.length < 8 then .error .ueof else .ok (1, 10)
    else if mode == 3 then
      if r.isEmpty then .error .eof else if r.length < 9 then .error .ueof else .ok (3, 11)
    else .error .unsup

end XC.C45
