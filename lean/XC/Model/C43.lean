/-
  C43 — SSH agent: keyring (ssh/agent/keyring.go), server framing (server.go), client encoders (client.go).

  Model of the code AS WRITTEN:
    * the keyring state `{keys, locked, passphrase}`; `removeLocked` is the swap-delete loop
      (`keys[i] = keys[len-1]; keys = keys[:len-1]`, index not advanced); `expireKeysLocked` is
      `for _, k := range r.keys` over the slice header evaluated ONCE (length and backing array), reading
      slots of the backing array that `removeLocked` mutates while the loop runs — the physical array is
      `live ++ stale`, where `stale` are the slots beyond the current length (never written again);
      an out-of-range index is the explicit outcome `none` (= Go panic), proved unreachable in Props;
    * `Add` (locked / confirm / extensions / signer / replace-by-blob / append), `Remove`, `RemoveAll`,
      `Lock`, `Unlock`, `List`, `SignWithFlags` (flag → algorithm table), `Signers`, `Extension`;
    * `ServeAgent` framing (length 0 / too large close the connection), `processRequest` dispatch with
      `ssh.Unmarshal`'s rules for the request structs (type byte, strings, trailing bytes rejected),
      `parseConstraints`; the client's request encoders and reply decoders.
  Key material is opaque: an identity is (public blob bytes, the bytes the client puts between the opcode
  and the comment of an add request); signatures are represented by (key blob, signature format).
  The clock is a parameter (`now`, in ticks; one second = `tps` ticks).
-/
import XC.Basic
namespace XC.C43
open XC

/-! ## wire primitives (ssh.Marshal / ssh.Unmarshal field rules) -/

def putU32 (n : Nat) : Bytes := natToBE 4 n
def putStr (b : Bytes) : Bytes := putU32 b.length ++ b

def getU32 (b : Bytes) : Option (Nat × Bytes) :=
  if b.length < 4 then none else some (natOfBE (b.take 4), b.drop 4)

/-- `parseString` -/
def getStr (b : Bytes) : Option (Bytes × Bytes) :=
  match getU32 b with
  | none => none
  | some (n, r) => if r.length < n then none else some (r.take n, r.drop n)

def s2b (s : String) : Bytes := s.toUTF8.toList

/-! ## keyring -/

structure PK where
  blob : Bytes
  comment : Bytes
  expire : Option Int
deriving DecidableEq, Repr

/-- `k.expire != nil && time.Now().After(*k.expire)` -/
def PK.expired (k : PK) (now : Int) : Bool :=
  match k.expire with
  | none => false
  | some e => decide (now > e)

structure KR where
  keys : List PK := []
  locked : Bool := false
  pass : Bytes := []
deriving DecidableEq, Repr

/-- `removeLocked` on the live slice.  `pre` = slots `[0,i)` already passed, `rest` = slots `[i,len)`.
    Returns the new live slice, the values left behind in the vacated slots (most recently vacated first:
    they sit directly after the new live slice in the backing array) and `found`. -/
def removeSwap (want : Bytes) (pre : List PK) (rest : List PK) (dropped : List PK) (found : Bool) :
    List PK × List PK × Bool :=
  match rest with
  | [] => (pre, dropped, found)
  | x :: xs =>
    if x.blob == want then
      match _h : xs.getLast? with
      | none => (pre, x :: dropped, true)                          -- i was the last slot
      | some l => removeSwap want pre (l :: xs.dropLast) (l :: dropped) true
    else removeSwap want (pre ++ [x]) xs dropped found
termination_by rest.length
decreasing_by
  · simp [List.length_dropLast]
    cases xs with
    | nil => simp at _h
    | cons a t => simp
  · simp

/-- `expireKeysLocked`: `fuel` = the length the `range` expression had when the loop started,
    `i` = loop index; `none` = index out of range (panic). -/
def expireFrom (now : Int) : Nat → Nat → List PK → List PK → Option (List PK)
  | 0, _, live, _ => some live
  | fuel + 1, i, live, stale =>
    match (live ++ stale)[i]? with
    | none => none
    | some k =>
      if k.expired now then
        let (live', dropped, _) := removeSwap k.blob [] live [] false
        expireFrom now fuel (i + 1) live' (dropped ++ stale)
      else expireFrom now fuel (i + 1) live stale

def expireKeys (now : Int) (keys : List PK) : Option (List PK) :=
  expireFrom now keys.length 0 keys []

inductive Res where
  | ok
  | err
  | keys (ks : List (Bytes × Bytes))        -- (blob, comment) in list order
  | sig (blob : Bytes) (format : Bytes)      -- a signature by that key in that format
  | signers (blobs : List Bytes)
  | unsupported                              -- ErrExtensionUnsupported
  | panic
deriving DecidableEq, Repr

/-- what `Add` is given -/
structure AddReq where
  blob : Bytes            -- public blob of the resulting signer (certificate blob if a certificate is given)
  signerOk : Bool         -- NewSignerFromKey / NewCertSigner succeed
  comment : Bytes
  lifetime : Nat
  confirm : Bool
  nExt : Nat
deriving Repr

/-- replace-by-blob loop of `Add` -/
def replaceFirst (p : PK) : List PK → Option (List PK)
  | [] => none
  | k :: ks => if k.blob == p.blob then some (p :: ks) else (replaceFirst p ks).map (k :: ·)

def tps : Int := 1000000

def KR.add (r : KR) (now : Int) (a : AddReq) : KR × Res :=
  if r.locked then (r, .err)
  else if a.confirm then (r, .err)
  else if a.nExt > 0 then (r, .err)
  else if !a.signerOk then (r, .err)
  else
    let p : PK := ⟨a.blob, a.comment, if a.lifetime > 0 then some (now + a.lifetime * tps) else none⟩
    match replaceFirst p r.keys with
    | some ks => ({ r with keys := ks }, .ok)
    | none => ({ r with keys := r.keys ++ [p] }, .ok)

def KR.remove (r : KR) (blob : Bytes) : KR × Res :=
  if r.locked then (r, .err)
  else
    let (live, _, found) := removeSwap blob [] r.keys [] false
    ({ r with keys := live }, if found then .ok else .err)

def KR.removeAll (r : KR) : KR × Res :=
  if r.locked then (r, .err) else ({ r with keys := [] }, .ok)

def KR.lock (r : KR) (pw : Bytes) : KR × Res :=
  if r.locked then (r, .err) else ({ r with locked := true, pass := pw }, .ok)

def KR.unlock (r : KR) (pw : Bytes) : KR × Res :=
  if !r.locked then (r, .err)
  else if pw != r.pass then (r, .err)
  else ({ r with locked := false, pass := [] }, .ok)

def KR.list (r : KR) (now : Int) : KR × Res :=
  if r.locked then (r, .keys [])
  else match expireKeys now r.keys with
    | none => (r, .panic)
    | some ks => ({ r with keys := ks }, .keys (ks.map fun k => (k.blob, k.comment)))

def KR.signers (r : KR) (now : Int) : KR × Res :=
  if r.locked then (r, .err)
  else match expireKeys now r.keys with
    | none => (r, .panic)
    | some ks => ({ r with keys := ks }, .signers (ks.map (·.blob)))

/-! ### signature algorithm table -/

def kRSA : Bytes := s2b "ssh-rsa"
def kRSA256 : Bytes := s2b "rsa-sha2-256"
def kRSA512 : Bytes := s2b "rsa-sha2-512"

/-- `certKeyAlgoNames`: certificate format → underlying key format (others unchanged) -/
def underlyingFormat (f : Bytes) : Bytes :=
  if f == s2b "ssh-rsa-cert-v01@openssh.com" then kRSA
  else if f == s2b "ssh-ed25519-cert-v01@openssh.com" then s2b "ssh-ed25519"
  else if f == s2b "ecdsa-sha2-nistp256-cert-v01@openssh.com" then s2b "ecdsa-sha2-nistp256"
  else if f == s2b "ecdsa-sha2-nistp384-cert-v01@openssh.com" then s2b "ecdsa-sha2-nistp384"
  else if f == s2b "ecdsa-sha2-nistp521-cert-v01@openssh.com" then s2b "ecdsa-sha2-nistp521"
  else if f == s2b "ssh-dss-cert-v01@openssh.com" then s2b "ssh-dss"
  else f

/-- the format string at the head of a public-key blob -/
def blobFormat (blob : Bytes) : Bytes :=
  match getStr blob with
  | some (f, _) => f
  | none => []

/-- `SignWithFlags`' choice: `none` = error, `some fmt` = signature format produced -/
def sigFormat (blob : Bytes) (flags : Nat) : Option Bytes :=
  let kf := underlyingFormat (blobFormat blob)
  if flags == 0 then some kf
  else if flags == 2 then (if kf == kRSA then some kRSA256 else none)
  else if flags == 4 then (if kf == kRSA then some kRSA512 else none)
  else none

def KR.sign (r : KR) (now : Int) (blob : Bytes) (flags : Nat) : KR × Res :=
  if r.locked then (r, .err)
  else match expireKeys now r.keys with
    | none => (r, .panic)
    | some ks =>
      let r' := { r with keys := ks }
      match ks.find? (fun k => k.blob == blob) with
      | none => (r', .err)
      | some k =>
        match sigFormat k.blob flags with
        | some f => (r', .sig k.blob f)
        | none => (r', .err)

/-! ## operations on the Agent interface (direct use of NewKeyring) -/

inductive Op where
  | add (a : AddReq)
  | remove (blob : Bytes)
  | removeAll
  | lock (pw : Bytes)
  | unlock (pw : Bytes)
  | list
  | sign (blob : Bytes) (flags : Nat)
  | signers
  | extension (typ contents : Bytes)
deriving Repr

def KR.step (r : KR) (now : Int) : Op → KR × Res
  | .add a => r.add now a
  | .remove b => r.remove b
  | .removeAll => r.removeAll
  | .lock pw => r.lock pw
  | .unlock pw => r.unlock pw
  | .list => r.list now
  | .sign b f => r.sign now b f
  | .signers => r.signers now
  | .extension _ _ => (r, .unsupported)

/-- run a history; each op carries the clock value at which it executes -/
def KR.run (r : KR) : List (Int × Op) → KR × List Res
  | [] => (r, [])
  | (t, op) :: rest =>
    let (r', res) := r.step t op
    let (r'', out) := r'.run rest
    (r'', res :: out)

/-! ## server: processRequest -/

/-- an identity the harness can add: public blob and the opaque bytes the client writes between the
    opcode and the comment string -/
structure Ident where
  blob : Bytes
  prefix_ : Bytes
deriving Repr

inductive Reply where
  | failure                     -- [5]
  | success                     -- [6]
  | bytes (b : Bytes)           -- any other fully determined reply
  | sig (blob format : Bytes)   -- [14] string(Marshal(signature))
  | opaque                      -- add request with unknown key material: some reply, not predicted
  | panic
deriving DecidableEq, Repr

/-- `parseConstraints`: (lifetime, confirm, number of extensions) or error -/
def parseConstraints : Nat → Bytes → Nat → Bool → Nat → Option (Nat × Bool × Nat)
  | 0, _, _, _, _ => none   -- unreachable: fuel = length + 1
  | fuel + 1, c, life, conf, next =>
    match c with
    | [] => some (life, conf, next)
    | t :: rest =>
      if t == 1 then
        if c.length < 5 then none
        else parseConstraints fuel (c.drop 5) (natOfBE ((c.drop 1).take 4)) conf next
      else if t == 2 then parseConstraints fuel rest life true next
      else if t == 255 || t == 3 then
        match getStr rest with
        | none => none
        | some (_, r1) =>
          match getStr r1 with
          | none => none
          | some (_, r2) => parseConstraints fuel r2 life conf (next + 1)
      else none

def isPrefixOf (p l : Bytes) : Bool := p.length ≤ l.length && l.take p.length == p

/-- which known identity an add request (after the opcode) carries -/
def findIdent (ids : List Ident) (body : Bytes) : Option (Ident × Bytes) :=
  match ids.find? (fun i => isPrefixOf i.prefix_ body) with
  | some i => some (i, body.drop i.prefix_.length)
  | none => none

def mapRes : Res → Reply
  | .ok => .success
  | .panic => .panic
  | .sig b f => .sig b f
  | _ => .failure

/-- identities answer: `[12] u32(n) (string blob, string comment)*` -/
def encIdentities (ks : List (Bytes × Bytes)) : Bytes :=
  12 :: (putU32 ks.length ++ (ks.map fun k => putStr k.1 ++ putStr k.2).flatten)

/-- `processRequestBytes` for a non-empty request -/
def processRequest (ids : List Ident) (r : KR) (now : Int) (data : Bytes) : KR × Reply :=
  match data with
  | [] => (r, .panic)     -- data[0] on an empty request; ServeAgent never passes one
  | op :: body =>
    if op == 1 then (r, .bytes [2, 0, 0, 0, 0])
    else if op == 9 then (r, .success)
    else if op == 18 then
      match getStr body with
      | some (blob, []) =>
        match getStr blob with          -- wireKey: Format string, Rest
        | none => (r, .failure)
        | some _ => let (r', res) := r.remove blob; (r', mapRes res)
      | _ => (r, .failure)
    else if op == 19 then let (r', res) := r.removeAll; (r', mapRes res)
    else if op == 22 then
      match getStr body with
      | some (pw, []) => let (r', res) := r.lock pw; (r', mapRes res)
      | _ => (r, .failure)
    else if op == 23 then
      match getStr body with
      | some (pw, []) => let (r', res) := r.unlock pw; (r', mapRes res)
      | _ => (r, .failure)
    else if op == 13 then
      match getStr body with
      | none => (r, .failure)
      | some (blob, b1) =>
        match getStr b1 with
        | none => (r, .failure)
        | some (_, b2) =>
          match getU32 b2 with
          | some (flags, []) =>
            match getStr blob with
            | none => (r, .failure)
            | some _ => let (r', res) := r.sign now blob flags; (r', mapRes res)
          | _ => (r, .failure)
    else if op == 11 then
      match r.list now with
      | (r', .keys ks) => (r', .bytes (encIdentities ks))
      | (r', .panic) => (r', .panic)
      | (r', _) => (r', .failure)
    else if op == 17 || op == 25 then
      match findIdent ids body with
      | none => (r, .opaque)
      | some (i, tail) =>
        match getStr tail with
        | none => (r, .failure)
        | some (comment, cons) =>
          match parseConstraints (cons.length + 1) cons 0 false 0 with
          | none => (r, .failure)
          | some (life, conf, next) =>
            let (r', res) := r.add now ⟨i.blob, true, comment, life, conf, next⟩
            (r', mapRes res)
    else if op == 27 then
      match getStr body with
      | none => (r, .failure)
      | some _ => (r, .bytes [5])      -- keyring: ErrExtensionUnsupported → SSH_AGENT_FAILURE
    else (r, .failure)

/-- one unit of input to `ServeAgent`: a 4-byte length header followed by `body` (whose length is the
    header value when the client is honest; a header of 0 or > 16 MiB is sent without a body) -/
structure Frame where
  len : Nat
  body : Bytes
deriving Repr

def maxAgentBytes : Nat := 16 * 2 ^ 20

/-- the `ServeAgent` loop: replies per frame, `none` once the server has returned (connection closed) -/
def serve (ids : List Ident) (now : Int) : KR → List Frame → List (Option Reply)
  | _, [] => []
  | r, f :: rest =>
    if f.len == 0 || f.len > maxAgentBytes then (f :: rest).map fun _ => none
    else
      let (r', rep) := processRequest ids r now f.body
      some rep :: serve ids (now + 1) r' rest

/-! ## client: request encoders, reply decoders -/

def encExt (e : Bytes × Bytes) : Bytes := 255 :: (putStr e.1 ++ putStr e.2)

def encExts : List (Bytes × Bytes) → Bytes
  | [] => []
  | e :: es => encExt e ++ encExts es

def encConstraints (lifetime : Nat) (confirm : Bool) (exts : List (Bytes × Bytes)) : Bytes :=
  (if lifetime != 0 then 1 :: putU32 lifetime else []) ++ ((if confirm then [2] else []) ++ encExts exts)

def encAdd (pfx comment cons : Bytes) : Bytes :=
  (if cons.isEmpty then 17 else 25) :: (pfx ++ (putStr comment ++ cons))

def encRemove (blob : Bytes) : Bytes := 18 :: putStr blob
def encRemoveAll : Bytes := [19]
def encLock (pw : Bytes) : Bytes := 22 :: putStr pw
def encUnlock (pw : Bytes) : Bytes := 23 :: putStr pw
def encList : Bytes := [11]
def encSign (blob data : Bytes) (flags : Nat) : Bytes := 13 :: (putStr blob ++ (putStr data ++ putU32 flags))
def encExtension (typ contents : Bytes) : Bytes := 27 :: (putStr typ ++ contents)

/-- `simpleCall`: success iff the reply's first byte is SSH_AGENT_SUCCESS -/
def decSimple : Reply → Res
  | .success => .ok
  | .bytes (6 :: _) => .ok
  | .panic => .panic
  | _ => .err

/-- `parseKey` loop of `client.List` -/
def decKeys : Nat → Bytes → Option (List (Bytes × Bytes))
  | 0, _ => some []
  | n + 1, data =>
    match getStr data with
    | none => none
    | some (blob, d1) =>
      match getStr d1 with
      | none => none
      | some (comment, d2) =>
        match getStr blob with
        | none => none
        | some _ => (decKeys n d2).map ((blob, comment) :: ·)

def decList : Reply → Res
  | .bytes (12 :: rest) =>
    match getU32 rest with
    | none => .err
    | some (n, data) =>
      if n > maxAgentBytes / 8 then .err
      else match decKeys n data with
        | some ks => .keys ks
        | none => .err
  | .panic => .panic
  | _ => .err

/-- a sign reply given as raw bytes (an agent other than the modelled server): `[14] string(sig)` with
    `sig = string(format) string(blob) rest`; the key is unknown to the model (empty blob) -/
def decSign : Reply → Res
  | .sig b f => .sig b f
  | .bytes (14 :: rest) =>
    match getStr rest with
    | some (sb, []) =>
      if sb.isEmpty then .err else
      match getStr sb with
      | none => .err
      | some (fmt, r1) =>
        match getStr r1 with
        | none => .err
        | some _ => .sig [] fmt
    | _ => .err
  | .panic => .panic
  | _ => .err

def decExtension : Reply → Res
  | .bytes [] => .err
  | .bytes (5 :: _) => .unsupported
  | .failure => .unsupported
  | .bytes (28 :: _) => .err
  | .panic => .panic
  | _ => .ok

/-- an Agent-interface call made through `agent.NewClient` against `ServeAgent(NewKeyring())`.
    `lookup` gives the identity of a blob for add requests. -/
inductive COp where
  | add (i : Ident) (certMismatch : Bool) (comment : Bytes) (lifetime : Nat) (confirm : Bool)
      (exts : List (Bytes × Bytes))
  | remove (blob : Bytes)
  | removeAll
  | lock (pw : Bytes)
  | unlock (pw : Bytes)
  | list
  | sign (blob data : Bytes) (flags : Nat)
  | signers
  | extension (typ contents : Bytes)
deriving Repr

/-- the request bytes the client sends (`none`: the client fails locally without sending) -/
def COp.request : COp → Option Bytes
  | .add i mism comment life conf exts =>
    if mism then none else some (encAdd i.prefix_ comment (encConstraints life conf exts))
  | .remove b => some (encRemove b)
  | .removeAll => some encRemoveAll
  | .lock pw => some (encLock pw)
  | .unlock pw => some (encUnlock pw)
  | .list => some encList
  | .sign b d f => some (encSign b d f)
  | .signers => some encList
  | .extension t c => some (encExtension t c)

def COp.decode : COp → Reply → Res
  | .add .., rep => decSimple rep
  | .remove _, rep => decSimple rep
  | .removeAll, rep => decSimple rep
  | .lock _, rep => decSimple rep
  | .unlock _, rep => decSimple rep
  | .list, rep => decList rep
  | .sign .., rep => decSign rep
  | .signers, rep =>
    match decList rep with
    | .keys ks => .signers (ks.map (·.1))
    | r => r
  | .extension .., rep => decExtension rep

def wireStep (ids : List Ident) (r : KR) (now : Int) (op : COp) : KR × Res :=
  match op.request with
  | none => (r, .err)
  | some req =>
    let (r', rep) := processRequest ids r now req
    (r', op.decode rep)

def wireRun (ids : List Ident) (r : KR) : List (Int × COp) → KR × List Res
  | [] => (r, [])
  | (t, op) :: rest =>
    let (r', res) := wireStep ids r t op
    let (r'', out) := wireRun ids r' rest
    (r'', res :: out)

end XC.C43
