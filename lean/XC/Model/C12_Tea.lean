/-
  C12 / TEA — tea/cipher.go as written: NewCipherWithRounds (16-byte key, even round count),
  Encrypt (running `sum += delta`), Decrypt (`sum = delta * uint32(rounds/2)`, running `sum -= delta`).
-/
import XC.Model.C12_Util
namespace XC.C12.Tea

def delta : UInt32 := 0x9e3779b9

structure Key where
  k0 : UInt32
  k1 : UInt32
  k2 : UInt32
  k3 : UInt32

/-- one loop body of Encrypt, `sum` already incremented -/
def encStep (k : Key) (sum : UInt32) (v : UInt32 × UInt32) : UInt32 × UInt32 :=
  let v0 := v.1 + ((((v.2 <<< 4) + k.k0) ^^^ (v.2 + sum)) ^^^ ((v.2 >>> 5) + k.k1))
  let v1 := v.2 + ((((v0 <<< 4) + k.k2) ^^^ (v0 + sum)) ^^^ ((v0 >>> 5) + k.k3))
  (v0, v1)

/-- one loop body of Decrypt, before `sum -= delta` -/
def decStep (k : Key) (sum : UInt32) (v : UInt32 × UInt32) : UInt32 × UInt32 :=
  let v1 := v.2 - ((((v.1 <<< 4) + k.k2) ^^^ (v.1 + sum)) ^^^ ((v.1 >>> 5) + k.k3))
  let v0 := v.1 - ((((v1 <<< 4) + k.k0) ^^^ (v1 + sum)) ^^^ ((v1 >>> 5) + k.k1))
  (v0, v1)

/-- `for i := 0; i < n; i++ { sum += delta; … }` -/
def encLoop (k : Key) : Nat → UInt32 → UInt32 × UInt32 → UInt32 × UInt32
  | 0, _, v => v
  | n+1, sum, v => encLoop k n (sum + delta) (encStep k (sum + delta) v)

/-- `for i := 0; i < n; i++ { …; sum -= delta }` -/
def decLoop (k : Key) : Nat → UInt32 → UInt32 × UInt32 → UInt32 × UInt32
  | 0, _, v => v
  | n+1, sum, v => decLoop k n (sum - delta) (decStep k sum v)

/-- a constructed cipher: key words and `rounds/2` loop iterations (0 for negative `rounds`) -/
structure Cipher where
  key : Key
  half : Nat

/-- NewCipherWithRounds: `len(key) != 16` → error; `rounds&1 != 0` → error -/
def newCipher (key : Bytes) (rounds : Int) : Option Cipher :=
  if key.length != 16 then none
  else if rounds % 2 != 0 then none
  else some ⟨⟨be32 key, be32 (key.drop 4), be32 (key.drop 8), be32 (key.drop 12)⟩, (rounds / 2).toNat⟩

def encryptW (c : Cipher) (v : UInt32 × UInt32) : UInt32 × UInt32 := encLoop c.key c.half 0 v
def decryptW (c : Cipher) (v : UInt32 × UInt32) : UInt32 × UInt32 :=
  decLoop c.key c.half (delta * UInt32.ofNat c.half) v

def encrypt (c : Cipher) (src : Bytes) : Bytes := join8 (encryptW c (split8 src))
def decrypt (c : Cipher) (src : Bytes) : Bytes := join8 (decryptW c (split8 src))

/-! ### reference: TEA as published (Wheeler & Needham 1994) — cycle i = 1 … n uses sum = i·delta;
    one cycle is two Feistel rounds, so a cipher with `rounds` rounds runs rounds/2 cycles -/

def refEnc (k : Key) : Nat → UInt32 × UInt32 → UInt32 × UInt32
  | 0, v => v
  | n+1, v => encStep k (delta * UInt32.ofNat (n+1)) (refEnc k n v)

/-- decryption undoes cycle n, then n-1, … -/
def refDec (k : Key) : Nat → UInt32 × UInt32 → UInt32 × UInt32
  | 0, v => v
  | n+1, v => refDec k n (decStep k (delta * UInt32.ofNat (n+1)) v)

end XC.C12.Tea
