/-
  C12 / Twofish — twofish/twofish.go as written (port of LibTomCrypt): RS-derived S words,
  sub-keys `k[0..39]` through `h`, key-dependent S-boxes pre-multiplied by the MDS columns,
  8 double rounds.
-/
import XC.Model.C12_Util
import XC.Model.C12_Tables_Twofish
namespace XC.C12.Twofish

def mdsPolynomial : UInt32 := 0x169
def rsPolynomial : UInt32 := 0x14d

/-- one iteration of the branchless multiplier: `result ^= B[a&1]; a >>= 1; B[1] = P[B[1]>>7] ^ (B[1] << 1)`.
    `P[B[1]>>7]` indexes a 2-element array: the model keeps the index explicit (`Props`: it is always ≤ 1). -/
def gfStep (p : UInt32) (st : UInt32 × UInt8 × UInt32) : UInt32 × UInt8 × UInt32 :=
  let (result, a, b) := st
  let result := result ^^^ (if a &&& 1 == 1 then b else 0)
  let idx := b >>> 7
  (result, a >>> 1, (if idx == 0 then 0 else p) ^^^ (b <<< 1))

/-- `gfMult(a, b, p)`: a·b in GF(2^8)/p -/
def gfMult (a b : UInt8) (p : UInt32) : UInt8 :=
  let (result, a, b) := gfStep p (gfStep p (gfStep p (gfStep p (gfStep p (gfStep p (gfStep p (0, a, b.toUInt32)))))))
  (result ^^^ (if a &&& 1 == 1 then b else 0)).toUInt8

def mdsColumnMult (x : UInt8) (col : Nat) : UInt32 :=
  let m01 := x.toUInt32
  let m5B := (gfMult x 0x5B mdsPolynomial).toUInt32
  let mEF := (gfMult x 0xEF mdsPolynomial).toUInt32
  match col with
  | 0 => m01 ||| (m5B <<< 8) ||| (mEF <<< 16) ||| (mEF <<< 24)
  | 1 => mEF ||| (mEF <<< 8) ||| (m5B <<< 16) ||| (m01 <<< 24)
  | 2 => m5B ||| (mEF <<< 8) ||| (m01 <<< 16) ||| (mEF <<< 24)
  | _ => m5B ||| (m01 <<< 8) ||| (mEF <<< 16) ||| (m5B <<< 24)

def sb0 (x : UInt8) : UInt8 := q0[x.toNat]!
def sb1 (x : UInt8) : UInt8 := q1[x.toNat]!

/-- `h(in, key, offset)` with `in = [x,x,x,x]`; `kw = len(key)/8 ∈ {2,3,4}` (with `fallthrough`) -/
def h (x : UInt8) (key : Array UInt8) (offset : Nat) : UInt32 :=
  let kw := key.size / 8
  let kb (w i : Nat) : UInt8 := key[4 * (w + offset) + i]!
  let y0 := x; let y1 := x; let y2 := x; let y3 := x
  let (y0, y1, y2, y3) :=
    if kw == 4 then (sb1 y0 ^^^ kb 6 0, sb0 y1 ^^^ kb 6 1, sb0 y2 ^^^ kb 6 2, sb1 y3 ^^^ kb 6 3) else (y0, y1, y2, y3)
  let (y0, y1, y2, y3) :=
    if kw == 4 || kw == 3 then (sb1 y0 ^^^ kb 4 0, sb1 y1 ^^^ kb 4 1, sb0 y2 ^^^ kb 4 2, sb0 y3 ^^^ kb 4 3) else (y0, y1, y2, y3)
  let y0 := sb1 (sb0 (sb0 y0 ^^^ kb 2 0) ^^^ kb 0 0)
  let y1 := sb0 (sb0 (sb1 y1 ^^^ kb 2 1) ^^^ kb 0 1)
  let y2 := sb1 (sb1 (sb0 y2 ^^^ kb 2 2) ^^^ kb 0 2)
  let y3 := sb0 (sb1 (sb1 y3 ^^^ kb 2 3) ^^^ kb 0 3)
  mdsColumnMult y0 0 ^^^ mdsColumnMult y1 1 ^^^ mdsColumnMult y2 2 ^^^ mdsColumnMult y3 3

/-- `S[4*i+j] = ⊕_k gfMult(key[8*i+k], rs[j][k], rsPolynomial)` -/
def sWords (key : Array UInt8) : Array UInt8 :=
  let k := key.size / 8
  ((List.range (4 * k)).map (fun n =>
    let i := n / 4; let j := n % 4
    (List.range 8).foldl (fun acc kk => acc ^^^ gfMult key[8 * i + kk]! rs[8 * j + kk]! rsPolynomial) 0)).toArray
  ++ Array.replicate (16 - 4 * k) 0

/-- the 40 sub-key words -/
def subKeys (key : Array UInt8) : Array UInt32 :=
  ((List.range 20).flatMap (fun i =>
    let a := h (UInt8.ofNat (2 * i)) key 0
    let b := rotl32 (h (UInt8.ofNat (2 * i + 1)) key 1) 8
    [a + b, rotl32 (2 * b + a) 9])).toArray

structure Cipher where
  s0 : Array UInt32
  s1 : Array UInt32
  s2 : Array UInt32
  s3 : Array UInt32
  k : Array UInt32

/-- the four key-dependent S-boxes (`switch k`) -/
def sBoxes (key : Array UInt8) : Array UInt32 × Array UInt32 × Array UInt32 × Array UInt32 :=
  let S := sWords key
  let kw := key.size / 8
  let tab (g : UInt8 → UInt8) (col : Nat) : Array UInt32 :=
    ((List.range 256).map (fun i => mdsColumnMult (g (UInt8.ofNat i)) col)).toArray
  if kw == 2 then
    (tab (fun b => sb1 (sb0 (sb0 b ^^^ S[0]!) ^^^ S[4]!)) 0,
     tab (fun b => sb0 (sb0 (sb1 b ^^^ S[1]!) ^^^ S[5]!)) 1,
     tab (fun b => sb1 (sb1 (sb0 b ^^^ S[2]!) ^^^ S[6]!)) 2,
     tab (fun b => sb0 (sb1 (sb1 b ^^^ S[3]!) ^^^ S[7]!)) 3)
  else if kw == 3 then
    (tab (fun b => sb1 (sb0 (sb0 (sb1 b ^^^ S[0]!) ^^^ S[4]!) ^^^ S[8]!)) 0,
     tab (fun b => sb0 (sb0 (sb1 (sb1 b ^^^ S[1]!) ^^^ S[5]!) ^^^ S[9]!)) 1,
     tab (fun b => sb1 (sb1 (sb0 (sb0 b ^^^ S[2]!) ^^^ S[6]!) ^^^ S[10]!)) 2,
     tab (fun b => sb0 (sb1 (sb1 (sb0 b ^^^ S[3]!) ^^^ S[7]!) ^^^ S[11]!)) 3)
  else
    (tab (fun b => sb1 (sb0 (sb0 (sb1 (sb1 b ^^^ S[0]!) ^^^ S[4]!) ^^^ S[8]!) ^^^ S[12]!)) 0,
     tab (fun b => sb0 (sb0 (sb1 (sb1 (sb0 b ^^^ S[1]!) ^^^ S[5]!) ^^^ S[9]!) ^^^ S[13]!)) 1,
     tab (fun b => sb1 (sb1 (sb0 (sb0 (sb0 b ^^^ S[2]!) ^^^ S[6]!) ^^^ S[10]!) ^^^ S[14]!)) 2,
     tab (fun b => sb0 (sb1 (sb1 (sb0 (sb1 b ^^^ S[3]!) ^^^ S[7]!) ^^^ S[11]!) ^^^ S[15]!)) 3)

def newCipher (key : Bytes) : Option Cipher :=
  if key.length != 16 && key.length != 24 && key.length != 32 then none else
  let ka := key.toArray
  let (a, b, c, d) := sBoxes ka
  some ⟨a, b, c, d, subKeys ka⟩

/-! ### rounds, for arbitrary S-box functions `g0`, `g1` and arbitrary sub-keys -/

abbrev St := UInt32 × UInt32 × UInt32 × UInt32

def rol1 (x : UInt32) : UInt32 := (x <<< 1) ||| (x >>> 31)
def ror1 (x : UInt32) : UInt32 := (x >>> 1) ||| (x <<< 31)

/-- `g0 x = S1[b0]^S2[b1]^S3[b2]^S4[b3]`, `g1 x = S2[b0]^S3[b1]^S4[b2]^S1[b3]` -/
def g0 (c : Cipher) (x : UInt32) : UInt32 :=
  c.s0[(x &&& 255).toNat]! ^^^ c.s1[((x >>> 8) &&& 255).toNat]! ^^^ c.s2[((x >>> 16) &&& 255).toNat]! ^^^ c.s3[(x >>> 24).toNat]!
def g1 (c : Cipher) (x : UInt32) : UInt32 :=
  c.s1[(x &&& 255).toNat]! ^^^ c.s2[((x >>> 8) &&& 255).toNat]! ^^^ c.s3[((x >>> 16) &&& 255).toNat]! ^^^ c.s0[(x >>> 24).toNat]!

/-- half of a loop body of Encrypt: uses (a,b) to update (c,d) with sub-keys (k0,k1) -/
def encHalf (f0 f1 : UInt32 → UInt32) (a b c d k0 k1 : UInt32) : UInt32 × UInt32 :=
  let t2 := f1 b
  let t1 := f0 a + t2
  (ror1 (c ^^^ (t1 + k0)), rol1 d ^^^ (t2 + t1 + k1))

def decHalf (f0 f1 : UInt32 → UInt32) (a b c d k0 k1 : UInt32) : UInt32 × UInt32 :=
  let t2 := f1 b
  let t1 := f0 a + t2
  (rol1 c ^^^ (t1 + k0), ror1 (d ^^^ (t2 + t1 + k1)))

/-- loop body `i` of Encrypt with `k = c.k[8+4i : 12+4i]` -/
def encRound (f0 f1 : UInt32 → UInt32) (s : St) (k : UInt32 × UInt32 × UInt32 × UInt32) : St :=
  let (a, b, c, d) := s
  let (c, d) := encHalf f0 f1 a b c d k.1 k.2.1
  let (a, b) := encHalf f0 f1 c d a b k.2.2.1 k.2.2.2
  (a, b, c, d)

def decRound (f0 f1 : UInt32 → UInt32) (s : St) (k : UInt32 × UInt32 × UInt32 × UInt32) : St :=
  let (a, b, c, d) := s
  let (a, b) := decHalf f0 f1 c d a b k.2.2.1 k.2.2.2
  let (c, d) := decHalf f0 f1 a b c d k.1 k.2.1
  (a, b, c, d)

/-- `(w0,w1,w2,w3)` whitening words -/
def xor4 (s k : St) : St := (s.1 ^^^ k.1, s.2.1 ^^^ k.2.1, s.2.2.1 ^^^ k.2.2.1, s.2.2.2 ^^^ k.2.2.2)

/-- Encrypt on words: pre-whiten with `kin`, rounds, output `(c,d,a,b)` whitened with `kout` -/
def encCore (f0 f1 : UInt32 → UInt32) (kin kout : St) (rks : List St) (x : St) : St :=
  let (a, b, c, d) := rks.foldl (encRound f0 f1) (xor4 x kin)
  xor4 (c, d, a, b) kout

def decCore (f0 f1 : UInt32 → UInt32) (kin kout : St) (rks : List St) (y : St) : St :=
  let (tc, td, ta, tb) := xor4 y kout
  -- ia = tc ^ k[6], ib = td ^ k[7], ic = ta ^ k[4], id = tb ^ k[5]
  xor4 (rks.reverse.foldl (decRound f0 f1) (ta, tb, tc, td)) kin

def kin (c : Cipher) : St := (c.k[0]!, c.k[1]!, c.k[2]!, c.k[3]!)
def kout (c : Cipher) : St := (c.k[4]!, c.k[5]!, c.k[6]!, c.k[7]!)
def rks (c : Cipher) : List St :=
  (List.range 8).map (fun i => (c.k[8 + 4*i]!, c.k[9 + 4*i]!, c.k[10 + 4*i]!, c.k[11 + 4*i]!))

def encryptW (c : Cipher) (x : St) : St := encCore (g0 c) (g1 c) (kin c) (kout c) (rks c) x
def decryptW (c : Cipher) (x : St) : St := decCore (g0 c) (g1 c) (kin c) (kout c) (rks c) x

def encrypt (c : Cipher) (src : Bytes) : Bytes := join16le (encryptW c (split16le src))
def decrypt (c : Cipher) (src : Bytes) : Bytes := join16le (decryptW c (split16le src))

end XC.C12.Twofish
