/-
  C06 — BLAKE2X extendable output (blake2b/blake2x.go, blake2s/blake2x.go).
  `Xof` is the Go `xof` struct over the C05 digest; `read` follows Read statement by statement
  (drain the buffered node, whole nodes straight into p, a last partial node kept in `block`).
  `blake2xSpec` is the BLAKE2X construction: root hash H0, then node i = BLAKE2(node_offset = i,
  digest length = min(Size, outLen − i·Size), xof length) applied to H0.
-/
import XC.Model.C05
namespace XC.C06
open XC.C05 Variant

def setBytes (b : Bytes) (off : Nat) (v : Bytes) : Bytes := copyAt b off v

def le32n (n : Nat) : Bytes := natToLE 4 n
def le16n (n : Nat) : Bytes := natToLE 2 n

/-- the parameter block `x.cfg`, represented by the two fields the code ever changes after Reset:
    `cfg[0]` (digest length; set to `remaining` for the last, short node) and `cfg[8:12]` (node offset,
    written with PutUint32, i.e. truncated to 32 bits like the uint32 counter it is copied from) -/
structure Cfg where
  dlen : Nat
  nodeOff : Nat
deriving DecidableEq, Repr

/-- what the two XOFs differ in -/
structure XAlg where
  A : Alg
  /-- Size: node / root hash length -/
  size : Nat
  /-- magicUnknownOutputLength -/
  unknown : Nat
  /-- maxOutputLength -/
  maxOut : Nat
  /-- the parameter block `cfg` as bytes: digest length, leaf length, node offset, xof length, inner length -/
  cfgBytes : Nat → Cfg → Bytes
  /-- `x.d.h[1] ^= uint64(x.length) << 32` (2b) / `x.d.h[3] ^= uint32(x.length)` (2s) -/
  rootTweak : A.H → Nat → A.H
  /-- `initConfig`: `h[i] = iv[i] ^ LE(cfg[i*w:])` -/
  cfgH : Bytes → A.H

def XB : XAlg where
  A := B
  size := 64
  unknown := 4294967295
  maxOut := 4294967296 * 64
  cfgBytes len c := setBytes (setBytes (setBytes (setBytes (setBytes (zeros 64) 0 [UInt8.ofNat c.dlen]) 4 (le32n 64)) 8
    (le32n c.nodeOff)) 12 (le32n len)) 17 [64]
  rootTweak h len := { h with a1 := h.a1 ^^^ (UInt64.ofNat len <<< 32) }
  cfgH cfg := (ivH UInt64).xor (H8.read (ofLE : Bytes → UInt64) 8 cfg)

def XS : XAlg where
  A := S
  size := 32
  unknown := 65535
  maxOut := 4294967296 * 32
  cfgBytes len c := setBytes (setBytes (setBytes (setBytes (setBytes (zeros 32) 0 [UInt8.ofNat c.dlen]) 4 (le32n 32)) 8
    (le32n c.nodeOff)) 12 (le16n len)) 15 [32]
  rootTweak h len := { h with a3 := h.a3 ^^^ UInt32.ofNat len }
  cfgH cfg := (ivH UInt32).xor (H8.read (ofLE : Bytes → UInt32) 4 cfg)

structure Xof (X : XAlg) where
  d : Digest X.A
  length : Nat
  remaining : Nat
  cfg : Cfg
  root : Bytes
  block : Bytes
  offset : Nat
  /-- a uint32 in the code; only ever copied into the parameter block with PutUint32, which truncates like the
      counter wraps, so the model keeps the untruncated count -/
  nodeOffset : Nat
  readMode : Bool

variable {X : XAlg}

def Xof.reset (x : Xof X) : Xof X :=
  let d := x.d.reset
  let d := { d with h := X.rootTweak d.h x.length }
  { x with cfg := ⟨X.size, 0⟩, d := d,
           remaining := if x.length = X.unknown then X.maxOut else x.length,
           offset := 0, nodeOffset := 0, readMode := false }

inductive NewErr where
  | keySize
  | tooLarge
deriving DecidableEq, Repr

/-- `NewXOF(size, key)`; `size` is a uint32 (2b) / uint16 (2s), 0 = OutputLengthUnknown -/
def newXOF (X : XAlg) (size : Nat) (key : Bytes) : Except NewErr (Xof X) :=
  if key.length > X.size then .error .keySize
  else if size = X.unknown then .error .tooLarge
  else
    let size := if size = 0 then X.unknown else size
    let d : Digest X.A := { h := X.A.init 0 0, c := X.A.cof 0, size := X.size, block := zeros X.A.bs, offset := 0,
                            key := copyAt (zeros X.A.bs) 0 key, keyLen := key.length }
    let x : Xof X := { d := d, length := size, remaining := 0, cfg := ⟨0, 0⟩, root := zeros X.size,
                       block := zeros X.size, offset := 0, nodeOffset := 0, readMode := false }
    .ok x.reset

/-- `Write`: panics after the first Read -/
def Xof.write (x : Xof X) (p : Bytes) : Option (Xof X) :=
  if x.readMode then none else some { x with d := x.d.write p }

/-- one output node: `initConfig(&cfg); d.Write(root); d.finalize(&block)` -/
def nodeHash (X : XAlg) (len : Nat) (d : Digest X.A) (cfg : Cfg) (root : Bytes) : Digest X.A × Bytes :=
  let d := { d with offset := 0, c := X.A.cof 0, h := X.cfgH (X.cfgBytes len cfg) }
  let d := d.write root
  (d, X.A.out d.finalize)

/-- the `for len(p) >= Size` loop: `k` whole nodes.  `keep = false` models a caller that throws the bytes
    away (the harness's skip step): the state evolves identically, the output is not accumulated. -/
def fullNodes (X : XAlg) (keep : Bool) : Nat → Xof X → Bytes → Xof X × Bytes
  | 0, x, acc => (x, acc)
  | k+1, x, acc =>
    let cfg := { x.cfg with nodeOff := x.nodeOffset }
    let (d, blk) := nodeHash X x.length x.d cfg x.root
    fullNodes X keep k { x with cfg := cfg, nodeOffset := x.nodeOffset + 1, d := d, block := blk,
                                remaining := x.remaining - X.size } (if keep then acc ++ blk else acc)

/-- first statement of Read: the first Read finalizes the root hash -/
def Xof.enterRead (x : Xof X) : Xof X :=
  if x.readMode then x else { x with root := X.A.out x.d.finalize, readMode := true }

/-- phase 3: a node that is only partly consumed (`0 < todo < Size`) stays in `block` -/
def Xof.partialNode (x : Xof X) (keep : Bool) (todo : Nat) (acc : Bytes) : Xof X × Bytes :=
  let cfg := if x.remaining < X.size then { x.cfg with dlen := x.remaining } else x.cfg
  let cfg := { cfg with nodeOff := x.nodeOffset }
  let (d, blk) := nodeHash X x.length x.d cfg x.root
  ({ x with cfg := cfg, nodeOffset := x.nodeOffset + 1, d := d, block := blk,
            offset := todo, remaining := x.remaining - todo }, if keep then acc ++ blk.take todo else acc)

/-- phases 2 and 3 (the buffered node is exhausted, `x.offset = 0`): `n` more bytes -/
def Xof.readNodes (x : Xof X) (keep : Bool) (n : Nat) (acc : Bytes) : Xof X × Bytes :=
  let (x, acc) := fullNodes X keep (n / X.size) x acc
  if n % X.size > 0 then x.partialNode keep (n % X.size) acc else (x, acc)

/-- `Read(p)` with `len(p) = plen`: the new state, the bytes stored in `p[:n]`, and whether io.EOF is returned -/
def Xof.readG (x : Xof X) (keep : Bool) (plen : Nat) : Xof X × Bytes × Bool :=
  let x := x.enterRead
  if x.remaining = 0 then (x, [], true)
  else
    let n := min plen x.remaining
    if x.offset > 0 then
      -- phase 1: what is left of the buffered node
      let br := X.size - x.offset
      if n < br then
        ({ x with offset := x.offset + n, remaining := x.remaining - n }, (x.block.drop x.offset).take n, false)
      else
        let (x', out) := Xof.readNodes { x with offset := 0, remaining := x.remaining - br } keep (n - br)
                            (x.block.drop x.offset)
        (x', out, false)
    else
      let (x', out) := x.readNodes keep n []
      (x', out, false)

def Xof.read (x : Xof X) (plen : Nat) : Xof X × Bytes × Bool := x.readG true plen

/-- a Read whose output the caller discards -/
def Xof.skip (x : Xof X) (plen : Nat) : Xof X := (x.readG false plen).1

/-! ## the BLAKE2X construction -/

/-- total number of output bytes -/
def outLen (X : XAlg) (length : Nat) : Nat := if length = X.unknown then X.maxOut else length

/-- the root hash H0: BLAKE2 of the (keyed) message with the xof length in the parameter block,
    full `Size` bytes -/
def rootHash (X : XAlg) (length : Nat) (key msg : Bytes) : Bytes :=
  let data := (if key.isEmpty then [] else key ++ zeros (X.A.bs - key.length)) ++ msg
  X.A.out (specLoop X.A (X.rootTweak (X.A.init X.size key.length) length) 0 data)

/-- output node `i` with digest length `dl`: BLAKE2 with the node's parameter block (node offset `i`, digest
    length `dl`, xof length) over H0 — one block, final — all `Size` bytes; the construction keeps the first `dl` -/
def nodeFull (X : XAlg) (length : Nat) (h0 : Bytes) (i dl : Nat) : Bytes :=
  X.A.out (specLoop X.A (X.cfgH (X.cfgBytes length ⟨dl, i⟩)) 0 h0)

/-- the BLAKE2X output from node `i` on when `rem` bytes are still to be produced: node `i` contributes
    `min(Size, rem)` bytes (so only the last node is short, with its own digest length in the parameter block) -/
def nodesFrom (X : XAlg) (length : Nat) (h0 : Bytes) (i rem : Nat) : Bytes :=
  if _h : rem = 0 ∨ X.size = 0 then []
  else
    (nodeFull X length h0 i (min X.size rem)).take (min X.size rem) ++
      nodesFrom X length h0 (i + 1) (rem - min X.size rem)
termination_by rem
decreasing_by omega

/-- the whole BLAKE2X output for a declared length (OutputLengthUnknown: 2^32 nodes) -/
def blake2xSpec (X : XAlg) (length : Nat) (key msg : Bytes) : Bytes :=
  nodesFrom X length (rootHash X length key msg) 0 (outLen X length)

end XC.C06
