/-
  C11 — X25519 (curve25519/curve25519.go, a wrapper over the stdlib crypto/ecdh).

  Two layers:
  * `rfcX25519` — RFC 7748 §5 written from the RFC on `Nat` modulo `p = 2^255 − 19`:
    `decodeScalar25519` (clamping), `decodeUCoordinate` (bit 255 masked, non-canonical
    values accepted and reduced by the field arithmetic), the Montgomery ladder with
    `cswap`, `a24 = 121665`, inversion by `z^(p−2)`, `encodeUCoordinate`.
    Executable; it is the oracle for the real code in the correspondence run.
  * the wrapper logic of curve25519.go over an abstract scalar-multiplication function
    `F : scalar → point → 32 bytes` (the stdlib's `x25519ScalarMult`): `x25519`,
    `X25519`, `ScalarMult` (zeroes dst on error), `ScalarBaseMult`.
-/
import XC.Basic
namespace XC.C11

/-! ## RFC 7748 §5 -/

def p : Nat := 2 ^ 255 - 19
def a24 : Nat := 121665

def fadd (a b : Nat) : Nat := (a + b) % p
/-- subtraction in GF(p) for operands already reduced (`b < p`) -/
def fsub (a b : Nat) : Nat := (a + p - b % p) % p
def fmul (a b : Nat) : Nat := (a * b) % p
def fsq (a : Nat) : Nat := (a * a) % p

/-- `b^e mod p` by square-and-multiply on the binary expansion of `e` -/
def fpow (b : Nat) : Nat → Nat
  | 0 => 1 % p
  | e+1 =>
    let h := fpow b ((e+1) / 2)
    let s := fsq h
    if (e+1) % 2 = 1 then fmul s b else s
decreasing_by omega

/-- RFC 7748: inversion "x^(p - 2)" -/
def finv (z : Nat) : Nat := fpow z (p - 2)

/-- `decodeScalar25519`: `k_list[0] &= 248; k_list[31] &= 127; k_list[31] |= 64; decodeLittleEndian`
    (the stdlib does the same three byte operations on its copy `e`) -/
def clamp (k : Bytes) : Bytes :=
  (k.modify 0 (· &&& 248)).modify 31 (fun b => (b &&& 127) ||| 64)

def decodeScalar (k : Bytes) : Nat := natOfLE (clamp k)

/-- `decodeUCoordinate` for bits = 255: `u_list[-1] &= (1<<(bits%8))-1`; the integer may be ≥ p -/
def maskU (u : Bytes) : Bytes := u.modify 31 (· &&& 127)

def decodeU (u : Bytes) : Nat := natOfLE (maskU u)

/-- `encodeUCoordinate`: `u % p`, 32 bytes little-endian -/
def encodeU (u : Nat) : Bytes := natToLE 32 (u % p)

/-- RFC 7748 `cswap`: `dummy = mask(swap) AND (x_2 XOR x_3); x_2 ^= dummy; x_3 ^= dummy`,
    `mask(swap)` = all ones (here: 256 bits) when `swap = 1`, zero when `swap = 0`. -/
def cswap (swap : Nat) (a b : Nat) : Nat × Nat :=
  let mask := if swap = 1 then 2 ^ 256 - 1 else 0
  let dummy := mask &&& (a ^^^ b)
  (a ^^^ dummy, b ^^^ dummy)

structure LState where
  x2 : Nat
  z2 : Nat
  x3 : Nat
  z3 : Nat
  swap : Nat
deriving DecidableEq, Repr

/-- one doubling-and-differential-addition step of the RFC loop body (after the swaps) -/
def ladderBody (x1 : Nat) (x2 z2 x3 z3 : Nat) : Nat × Nat × Nat × Nat :=
  let A := fadd x2 z2
  let AA := fsq A
  let B := fsub x2 z2
  let BB := fsq B
  let E := fsub AA BB
  let C := fadd x3 z3
  let D := fsub x3 z3
  let DA := fmul D A
  let CB := fmul C B
  let x3' := fsq (fadd DA CB)
  let z3' := fmul x1 (fsq (fsub DA CB))
  let x2' := fmul AA BB
  let z2' := fmul E (fadd AA (fmul a24 E))
  (x2', z2', x3', z3')

/-- one iteration of the RFC loop for bit `kt` -/
def ladderStep (x1 : Nat) (s : LState) (kt : Nat) : LState :=
  let swap := s.swap ^^^ kt
  let (x2, x3) := cswap swap s.x2 s.x3
  let (z2, z3) := cswap swap s.z2 s.z3
  let (x2', z2', x3', z3') := ladderBody x1 x2 z2 x3 z3
  ⟨x2', z2', x3', z3', kt⟩

/-- bits `t = n-1 … 0` of `k`, most significant first -/
def bitsDown (k : Nat) : Nat → List Nat
  | 0 => []
  | n+1 => ((k >>> n) &&& 1) :: bitsDown k n

/-- the RFC 7748 X25519 function on integers: scalar `k` (already clamped), u-coordinate `u` -/
def ladder (k u : Nat) : Nat :=
  let x1 := u % p
  let s := (bitsDown k 255).foldl (ladderStep x1) ⟨1, 0, x1, 1, 0⟩
  let (x2, _) := cswap s.swap s.x2 s.x3
  let (z2, _) := cswap s.swap s.z2 s.z3
  fmul x2 (finv z2)

/-- RFC 7748 §5 `X25519(k, u)` on 32-byte strings -/
def rfcX25519 (k u : Bytes) : Bytes := encodeU (ladder (decodeScalar k) (decodeU u))

/-! ## curve25519.go over an abstract `F` (crypto/ecdh's `x25519ScalarMult`) -/

inductive Res where
  | ok (out : Bytes)
  | err
deriving DecidableEq, Repr

/-- Go `copy(dst, src)` -/
def copyInto (dst src : Bytes) : Bytes := src.take dst.length ++ dst.drop src.length

/-- `isZero`: OR of all bytes is 0 -/
def isZero (x : Bytes) : Bool := x.all (· == 0)

def basePoint : Bytes := 9 :: zeros 31

/-- `x25519(dst, scalar, point)`: returns (result, new contents of dst).
    `NewPublicKey` (length of point) is checked before `NewPrivateKey` (length of scalar);
    `ECDH` fails exactly when the 32 output bytes are all zero; on error dst is untouched. -/
def x25519 (F : Bytes → Bytes → Bytes) (dst scalar point : Bytes) : Res × Bytes :=
  if point.length ≠ 32 then (.err, dst)
  else if scalar.length ≠ 32 then (.err, dst)
  else
    let out := F scalar point
    if isZero out then (.err, dst)
    else
      let dst' := copyInto dst out
      (.ok dst', dst')

/-- `X25519(scalar, point)`: fresh zero `dst` -/
def X25519 (F : Bytes → Bytes → Bytes) (scalar point : Bytes) : Res :=
  (x25519 F (zeros 32) scalar point).1

/-- `ScalarMult(dst, scalar, point)`: contents of `*dst` afterwards -/
def ScalarMult (F : Bytes → Bytes → Bytes) (dst scalar point : Bytes) : Bytes :=
  match x25519 F dst scalar point with
  | (.err, d) => d.map (fun _ => 0)
  | (.ok _, d) => d

inductive BaseRes where
  | dst (d : Bytes)
  | panic
deriving DecidableEq, Repr

/-- `ScalarBaseMult(dst, scalar)`: `NewPrivateKey(scalar)` computes `F scalar basePoint` as the public
    key (no zero check); an error there (only: wrong length) is turned into a panic. -/
def ScalarBaseMult (F : Bytes → Bytes → Bytes) (dst scalar : Bytes) : BaseRes :=
  if scalar.length ≠ 32 then .panic
  else .dst (copyInto dst (F scalar basePoint))

end XC.C11
