/-
  C14 — MD4 (md4/md4.go, md4/md4block.go) and RIPEMD-160 (ripemd160/ripemd160.go,
  ripemd160/ripemd160block.go).

  Both packages share the same "MD-style" streaming engine, modelled once and generically:
    * `digest {s, x[64], nx, len}`      ↦ `Digest σ {s, x, len}` where `x` is `d.x[0:nx]`
    * `_Block(d, p)` (absorb every whole 64-byte block of `p`, return bytes consumed) ↦ `blocksGo`
    * `Write` (top-up the partial block, flush, absorb whole blocks, stash the tail)  ↦ `write`
    * `Sum` (copy, pad with 0x80 0…0 to 56 mod 64, append bit length LE, emit state) ↦ `sum`
      — `panic("d.nx != 0")` is the explicit outcome `none`.
  The independent specification `mdHash` is the textbook Merkle–Damgård definition: pad the whole
  message, split into 64-byte blocks, fold the compression function.
-/
import XC.Basic
namespace XC.C14

/-! ## generic engine -/

/-- an MD-style algorithm: initial chaining value, one-block compression, output encoding -/
structure MD (σ : Type) where
  init : σ
  block : σ → Bytes → σ
  out : σ → Bytes

/-- `digest`: chaining value, the `nx` buffered bytes `d.x[0:nx]`, total byte count (uint64, wraps) -/
structure Digest (σ : Type) where
  s : σ
  x : Bytes
  len : UInt64

/-- `_Block`: `for len(p) >= 64 { compress p[:64]; p = p[64:] }`; returns the new chaining value and
    the unconsumed tail `p[n:]`. -/
def blocksGo {σ : Type} (f : σ → Bytes → σ) (s : σ) (p : Bytes) : σ × Bytes :=
  if 64 ≤ p.length then blocksGo f (f s (p.take 64)) (p.drop 64) else (s, p)
termination_by p.length
decreasing_by simp only [List.length_drop]; omega

def reset {σ : Type} (alg : MD σ) : Digest σ := ⟨alg.init, [], 0⟩

/-- `(*digest).Write` as written -/
def write {σ : Type} (alg : MD σ) (d : Digest σ) (p : Bytes) : Digest σ :=
  let len := d.len + UInt64.ofNat p.length
  -- if d.nx > 0 { top up; flush when full }
  let (s1, x1, p1) :=
    if 0 < d.x.length then
      let n := if p.length > 64 - d.x.length then 64 - d.x.length else p.length
      let x := d.x ++ p.take n
      if x.length = 64 then (alg.block d.s x, ([] : Bytes), p.drop n) else (d.s, x, p.drop n)
    else (d.s, d.x, p)
  -- n := _Block(d, p); p = p[n:]
  let (s2, rest) := blocksGo alg.block s1 p1
  -- if len(p) > 0 { d.nx = copy(d.x[:], p) }
  let x2 := if 0 < rest.length then rest else x1
  ⟨s2, x2, len⟩

/-- the padding Write of `Sum`: `tmp[0 : 56-len%64]` or `tmp[0 : 64+56-len%64]`, tmp = 80 00 … 00 (64 bytes) -/
def padBytes (len : UInt64) : Bytes :=
  let tmp : Bytes := 0x80 :: zeros 63
  if len % 64 < 56 then tmp.take (56 - len % 64).toNat else tmp.take (64 + 56 - len % 64).toNat

/-- the length Write of `Sum`: `len <<= 3`, 8 bytes little-endian -/
def lenBytes (len : UInt64) : Bytes := u64le (len <<< 3)

/-- `Sum(in)`: works on a copy of `d0` (the caller's state is not touched: the function returns
    only the output).  `none` = `panic("d.nx != 0")`. -/
def sum {σ : Type} (alg : MD σ) (d0 : Digest σ) (pre : Bytes) : Option Bytes :=
  let d := d0
  let d := write alg d (padBytes d0.len)
  let d := write alg d (lenBytes d0.len)
  if d.x.length ≠ 0 then none else some (pre ++ alg.out d.s)

/-! ## independent specification (Merkle–Damgård) -/

/-- MD strengthening for a message of `L` bytes: 0x80, the minimal number of zero bytes that brings
    the length to 56 mod 64, then the bit length mod 2^64 as 8 little-endian bytes. -/
def mdPad (L : Nat) : Bytes :=
  0x80 :: zeros ((119 - L % 64) % 64) ++ natToLE 8 (8 * L % 2 ^ 64)

def mdHash {σ : Type} (alg : MD σ) (m : Bytes) : Bytes :=
  alg.out ((chunks 64 (m ++ mdPad m.length)).foldl alg.block alg.init)

/-! ## histories -/

inductive HOp where
  | w (p : Bytes)       -- Write(p)
  | s (pre : Bytes)     -- Sum(pre)
  | r                   -- Reset()

/-- run a history from a state; collects the result of every `Sum` (`none` = panic) -/
def run {σ : Type} (alg : MD σ) : Digest σ → List HOp → List (Option Bytes)
  | _, [] => []
  | d, .w p :: t => run alg (write alg d p) t
  | d, .s pre :: t => sum alg d pre :: run alg d t
  | _, .r :: t => run alg (reset alg) t

/-! ## shared 32-bit helpers -/

@[inline] def rotl (x : UInt32) (s : Nat) : UInt32 :=
  (x <<< (UInt32.ofNat s)) ||| (x >>> (UInt32.ofNat (32 - s)))

/-- the sixteen little-endian words of a block -/
def words (p : Bytes) : Array UInt32 :=
  ((List.range 16).map fun i => le32 (p.drop (4 * i))).toArray

@[inline] def idx (t : Array Nat) (i : Nat) : Nat := t.getD i 0
@[inline] def wd (x : Array UInt32) (i : Nat) : UInt32 := x.getD i 0

/-! ## MD4 (RFC 1320) -/
namespace Md4

structure St where
  a : UInt32
  b : UInt32
  c : UInt32
  d : UInt32
deriving DecidableEq, Repr

def shift1 : Array Nat := #[3, 7, 11, 19]
def shift2 : Array Nat := #[3, 5, 9, 13]
def shift3 : Array Nat := #[3, 9, 11, 15]
def xIndex2 : Array Nat := #[0, 4, 8, 12, 1, 5, 9, 13, 2, 6, 10, 14, 3, 7, 11, 15]
def xIndex3 : Array Nat := #[0, 8, 4, 12, 2, 10, 6, 14, 1, 9, 5, 13, 3, 11, 7, 15]

def F (x y z : UInt32) : UInt32 := ((y ^^^ z) &&& x) ^^^ z            -- = (x∧y)∨(¬x∧z)
def G (x y z : UInt32) : UInt32 := (x &&& y) ||| (x &&& z) ||| (y &&& z)
def H (x y z : UInt32) : UInt32 := x ^^^ y ^^^ z

/-- one step: `a += f(b,c,d) + X[x] + k; a = rotl(a, s); a,b,c,d = d,a,b,c` -/
@[inline] def step (fn : UInt32 → UInt32 → UInt32 → UInt32) (k : UInt32) (X : Array UInt32)
    (x s : Nat) (v : St) : St :=
  let a := rotl (v.a + (fn v.b v.c v.d + wd X x + k)) s
  ⟨v.d, a, v.b, v.c⟩

def round1 (X : Array UInt32) (v : St) : St :=
  (List.range 16).foldl (fun v i => step F 0 X i (idx shift1 (i % 4)) v) v
def round2 (X : Array UInt32) (v : St) : St :=
  (List.range 16).foldl (fun v i => step G 0x5a827999 X (idx xIndex2 i) (idx shift2 (i % 4)) v) v
def round3 (X : Array UInt32) (v : St) : St :=
  (List.range 16).foldl (fun v i => step H 0x6ed9eba1 X (idx xIndex3 i) (idx shift3 (i % 4)) v) v

def block (s : St) (p : Bytes) : St :=
  let X := words p
  let v := round3 X (round2 X (round1 X s))
  ⟨v.a + s.a, v.b + s.b, v.c + s.c, v.d + s.d⟩

def alg : MD St where
  init := ⟨0x67452301, 0xEFCDAB89, 0x98BADCFE, 0x10325476⟩
  block := block
  out s := u32le s.a ++ u32le s.b ++ u32le s.c ++ u32le s.d

end Md4

/-! ## RIPEMD-160 -/
namespace Rmd

structure St where
  s0 : UInt32
  s1 : UInt32
  s2 : UInt32
  s3 : UInt32
  s4 : UInt32
deriving DecidableEq, Repr

def nL : Array Nat := #[
  0, 1, 2, 3, 4, 5, 6, 7, 8, 9, 10, 11, 12, 13, 14, 15,
  7, 4, 13, 1, 10, 6, 15, 3, 12, 0, 9, 5, 2, 14, 11, 8,
  3, 10, 14, 4, 9, 15, 8, 1, 2, 7, 0, 6, 13, 11, 5, 12,
  1, 9, 11, 10, 0, 8, 12, 4, 13, 3, 7, 15, 14, 5, 6, 2,
  4, 0, 5, 9, 7, 12, 2, 10, 14, 1, 3, 8, 11, 6, 15, 13]
def rL : Array Nat := #[
  11, 14, 15, 12, 5, 8, 7, 9, 11, 13, 14, 15, 6, 7, 9, 8,
  7, 6, 8, 13, 11, 9, 7, 15, 7, 12, 15, 9, 11, 7, 13, 12,
  11, 13, 6, 7, 14, 9, 13, 15, 14, 8, 13, 6, 5, 12, 7, 5,
  11, 12, 14, 15, 14, 15, 9, 8, 9, 14, 5, 6, 8, 6, 5, 12,
  9, 15, 5, 11, 6, 8, 13, 12, 5, 12, 13, 14, 11, 8, 5, 6]
def nR : Array Nat := #[
  5, 14, 7, 0, 9, 2, 11, 4, 13, 6, 15, 8, 1, 10, 3, 12,
  6, 11, 3, 7, 0, 13, 5, 10, 14, 15, 8, 12, 4, 9, 1, 2,
  15, 5, 1, 3, 7, 14, 6, 9, 11, 8, 12, 2, 10, 0, 4, 13,
  8, 6, 4, 1, 3, 11, 15, 0, 5, 12, 2, 13, 9, 7, 10, 14,
  12, 15, 10, 4, 1, 5, 8, 7, 6, 2, 13, 14, 0, 3, 9, 11]
def rR : Array Nat := #[
  8, 9, 9, 11, 13, 15, 15, 5, 7, 7, 8, 11, 14, 14, 12, 6,
  9, 13, 15, 7, 12, 8, 9, 11, 7, 7, 12, 7, 6, 15, 13, 11,
  9, 7, 15, 11, 8, 6, 6, 14, 12, 13, 5, 14, 13, 13, 7, 5,
  15, 5, 8, 11, 14, 14, 6, 14, 6, 9, 12, 9, 12, 5, 15, 8,
  8, 5, 12, 9, 12, 5, 14, 6, 8, 13, 6, 5, 15, 13, 11, 11]

/-- the five boolean functions of the RIPEMD-160 paper -/
def f1 (x y z : UInt32) : UInt32 := x ^^^ y ^^^ z
def f2 (x y z : UInt32) : UInt32 := (x &&& y) ||| (~~~x &&& z)
def f3 (x y z : UInt32) : UInt32 := (x ||| ~~~y) ^^^ z
def f4 (x y z : UInt32) : UInt32 := (x &&& z) ||| (y &&& ~~~z)
def f5 (x y z : UInt32) : UInt32 := x ^^^ (y ||| ~~~z)

def fL (j : Nat) : UInt32 → UInt32 → UInt32 → UInt32 :=
  if j < 16 then f1 else if j < 32 then f2 else if j < 48 then f3 else if j < 64 then f4 else f5
def fR (j : Nat) : UInt32 → UInt32 → UInt32 → UInt32 :=
  if j < 16 then f5 else if j < 32 then f4 else if j < 48 then f3 else if j < 64 then f2 else f1
def kL (j : Nat) : UInt32 :=
  if j < 16 then 0 else if j < 32 then 0x5a827999 else if j < 48 then 0x6ed9eba1
  else if j < 64 then 0x8f1bbcdc else 0xa953fd4e
def kR (j : Nat) : UInt32 :=
  if j < 16 then 0x50a28be6 else if j < 32 then 0x5c4dd124 else if j < 48 then 0x6d703ef3
  else if j < 64 then 0x7a6d76e9 else 0

/-- one step of one line:
    `alpha = rotl(a + f(b,c,d) + x[n] + k, r) + e; beta = rotl(c,10); a,b,c,d,e = e,alpha,b,beta,d` -/
@[inline] def step (fn : UInt32 → UInt32 → UInt32 → UInt32) (k : UInt32) (x : UInt32) (r : Nat)
    (v : St) : St :=
  let alpha := rotl (v.s0 + fn v.s1 v.s2 v.s3 + x + k) r + v.s4
  ⟨v.s4, alpha, v.s1, rotl v.s2 10, v.s3⟩

def lineL (X : Array UInt32) (v : St) : St :=
  (List.range 80).foldl (fun v j => step (fL j) (kL j) (wd X (idx nL j)) (idx rL j) v) v
def lineR (X : Array UInt32) (v : St) : St :=
  (List.range 80).foldl (fun v j => step (fR j) (kR j) (wd X (idx nR j)) (idx rR j) v) v

def block (s : St) (p : Bytes) : St :=
  let X := words p
  let l := lineL X s
  let r := lineR X s
  -- combine results
  ⟨s.s1 + l.s2 + r.s3, s.s2 + l.s3 + r.s4, s.s3 + l.s4 + r.s0, s.s4 + l.s0 + r.s1, s.s0 + l.s1 + r.s2⟩

def alg : MD St where
  init := ⟨0x67452301, 0xefcdab89, 0x98badcfe, 0x10325476, 0xc3d2e1f0⟩
  block := block
  out s := u32le s.s0 ++ u32le s.s1 ++ u32le s.s2 ++ u32le s.s3 ++ u32le s.s4

end Rmd

/-- one-shot digests (used by C20) -/
def md4 (m : Bytes) : Bytes := mdHash Md4.alg m
def ripemd160 (m : Bytes) : Bytes := mdHash Rmd.alg m

end XC.C14
