/-
  C44 — OpenPGP message framing and integrity plumbing (the code the repo owns, over abstract
  primitives): `serializeHeader`, the partial-length writer (packet.go), the MDC reader/writer
  (symmetrically_encrypted.go), the canonical-text hash filter (canonical_text.go), the v4 signature
  hash suffix / packet layout (signature.go), one-pass-signature, literal-data and
  symmetric-key-encrypted packet layouts, and from them the structure of what `SymmetricallyEncrypt`,
  `Encrypt`, `Sign`, `DetachSign` emit.  Readers are those of the C45 model.
  Hash functions are parameters (`H : Bytes → Bytes`); the driver instantiates them with XC.Prim.
-/
import XC.Basic
import XC.Model.C45
import XC.Model.C46
namespace XC.C44
open XC

/-! ## serializeHeader -/

/-- `serializeHeader(w, ptype, length)` for `0 ≤ length < 2^32`, `ptype < 64` -/
def serializeHeader (tag n : Nat) : Bytes :=
  let b0 := UInt8.ofNat (0xC0 + tag % 64)
  if n < 192 then [b0, UInt8.ofNat n]
  else if n < 8384 then [b0, UInt8.ofNat (192 + (n - 192) / 256), UInt8.ofNat ((n - 192) % 256)]
  else b0 :: 255 :: natToBE 4 n

/-! ## partialLengthWriter -/

structure PW where
  buf : Bytes := []
  sentFirst : Bool := false
deriving DecidableEq, Repr

/-- the `for len(p) > 0` loop of `partialLengthWriter.Write`: `power` persists across iterations;
    `bits.Len32(len) - 1` is `Nat.log2 len` for `0 < len < 2^32` -/
def plLoop (power : Nat) (p : Bytes) : Bytes :=
  if h : p = [] then [] else
  let pw := if p.length < 2 ^ power then Nat.log2 p.length else power
  UInt8.ofNat (224 + pw) :: p.take (2 ^ pw) ++ plLoop pw (p.drop (2 ^ pw))
termination_by p.length
decreasing_by
  simp only [List.length_drop]
  exact Nat.sub_lt (List.length_pos_iff.mpr h) (Nat.two_pow_pos _)

def minFirstPartialWrite : Nat := 512

/-- `(*partialLengthWriter).Write`: new state, bytes written to the underlying writer -/
def pwWrite (w : PW) (p : Bytes) : PW × Bytes :=
  if !w.sentFirst then
    if w.buf.length > 0 || p.length < minFirstPartialWrite then
      let b := w.buf ++ p
      if b.length < minFirstPartialWrite then ({ w with buf := b }, [])
      else ({ buf := [], sentFirst := true }, plLoop 30 b)
    else ({ w with sentFirst := true }, plLoop 30 p)
  else (w, plLoop 30 p)

/-- `Close`: flush a short first buffer, then the final zero length byte -/
def pwClose (w : PW) : Bytes :=
  (if w.buf.length > 0 then plLoop 30 w.buf else []) ++ [0]

def pwRun (w : PW) : List Bytes → PW × Bytes
  | [] => (w, [])
  | c :: cs =>
    let r := pwWrite w c
    let q := pwRun r.1 cs
    (q.1, r.2 ++ q.2)

/-- everything a partial-length writer emits for a sequence of Writes followed by Close -/
def pwAll (chunks : List Bytes) : Bytes :=
  let r := pwRun {} chunks
  r.2 ++ pwClose r.1

/-- reading a partial-length stream (first length byte onwards) with the C45 reader -/
def readStream (s : Bytes) : Bytes × Option C45.RErr × Bytes :=
  match C45.readLength s with
  | .error e => ([], some e, [])
  | .ok (n, p, r) => C45.readPartial n p r

/-! ## MDC: seMDCReader / seMDCWriter -/

def mdcTrailerSize : Nat := 22
def mdcTag : Bytes := [0xD3, 0x14]

/-- the reader under the MDC reader: unread bytes and a script bounding what each `Read` returns
    (partial-length and cipher stream readers return short reads at chunk borders); an exhausted
    script means "as much as asked" -/
structure Under where
  data : Bytes
  script : List Nat

/-- one `in.Read(p)` with `len(p) = m`: bytes returned, EOF flag (bytes.Reader style: EOF only with 0 bytes) -/
def Under.read (u : Under) (m : Nat) : Bytes × Bool × Under :=
  if u.data.isEmpty then ([], true, u)
  else
    let k := match u.script with | [] => m | k :: _ => min m (max k 1)
    (u.data.take k, false, ⟨u.data.drop k, u.script.drop 1⟩)

/-- `io.ReadFull(in, buf[:m])`: keeps reading until `m` bytes or EOF -/
def Under.readFull (u : Under) (m : Nat) : Bytes × Under :=
  if hm : m = 0 then ([], u) else
  if hd : u.data.isEmpty then ([], u) else
  let r := u.read m
  have : m - r.1.length < m := by
    have hne : u.data ≠ [] := by simpa using hd
    have hpos : 0 < u.data.length := List.length_pos_iff.mpr hne
    have : 0 < r.1.length := by
      simp only [r, Under.read, hd]
      cases u.script with
      | nil => simp; omega
      | cons k t => simp; omega
    omega
  let q := Under.readFull r.2.2 (m - r.1.length)
  (r.1 ++ q.1, q.2)
termination_by m

inductive MErr where
  | none | eof | ueof
deriving DecidableEq, Repr

structure MDCR where
  trailer : Bytes := []
  hashed : Bytes := []       -- bytes written to `h` after the prefix
  eof : Bool := false
  error : Bool := false
deriving DecidableEq, Repr

theorem Under.read_pos (u : Under) (m : Nat) (hm : 0 < m) (h : (u.read m).2.1 = false) :
    0 < (u.read m).1.length := by
  unfold Under.read at h ⊢
  by_cases hd : u.data.isEmpty
  · simp [hd] at h
  · have hne : u.data ≠ [] := by simpa using hd
    have hpos : 0 < u.data.length := List.length_pos_iff.mpr hne
    simp only [hd, Bool.false_eq_true, ↓reduceIte]
    cases u.script with
    | nil => simp; omega
    | cons k t => simp; omega

/-- the trailer-filling loop at the start of `Read` -/
def mdcFill (st : MDCR) (u : Under) : MDCR × Under × MErr :=
  if hlt : st.trailer.length < mdcTrailerSize then
    if hE : (u.read (mdcTrailerSize - st.trailer.length)).2.1 then
      -- io.EOF from the underlying reader
      if st.trailer.length != mdcTrailerSize then ({ st with error := true }, u, .ueof)
      else ({ st with eof := true }, u, .eof)
    else
      mdcFill { st with trailer := st.trailer ++ (u.read (mdcTrailerSize - st.trailer.length)).1 }
        (u.read (mdcTrailerSize - st.trailer.length)).2.2
  else (st, u, .none)
termination_by mdcTrailerSize - st.trailer.length
decreasing_by
  have := Under.read_pos u (mdcTrailerSize - st.trailer.length) (by omega) (by simpa using hE)
  simp only [List.length_append]; omega

/-- `(*seMDCReader).Read(buf)` with `len(buf) = m`: new state, underlying reader, bytes delivered, error -/
def mdcRead (st : MDCR) (u : Under) (m : Nat) : MDCR × Under × Bytes × MErr :=
  if st.error then (st, u, [], .ueof) else
  if st.eof then (st, u, [], .eof) else
  let f := mdcFill st u
  if f.2.2 != .none then (f.1, f.2.1, [], f.2.2) else
  let st := f.1
  let u := f.2.1
  if m ≤ mdcTrailerSize then
    let r := u.readFull m
    let n := r.1.length
    let out := st.trailer.take n
    let st := { st with hashed := st.hashed ++ out, trailer := st.trailer.drop n ++ r.1 }
    if n < m then ({ st with eof := true }, r.2, out, .eof) else (st, r.2, out, .none)
  else
    let r := u.read (m - mdcTrailerSize)
    let all := st.trailer ++ r.1
    let n := r.1.length
    let out := all.take n
    let st := { st with hashed := st.hashed ++ out, trailer := all.drop n }
    if r.2.1 then ({ st with eof := true }, r.2.2, out, .eof) else (st, r.2.2, out, .none)

/-! ### progress facts (used for the termination of `Close`'s drain loop) -/

theorem Under.read_split (u : Under) (m : Nat) :
    (u.read m).1 ++ (u.read m).2.2.data = u.data ∧ (u.read m).1.length ≤ m ∧
    ((u.read m).2.1 = true ↔ u.data = []) ∧ ((u.read m).2.1 = true → (u.read m).1 = [] ∧ (u.read m).2.2 = u) := by
  unfold Under.read
  by_cases hd : u.data.isEmpty
  · have : u.data = [] := by simpa using hd
    simp [hd, this]
  · have hne : u.data ≠ [] := by simpa using hd
    simp only [hd, Bool.false_eq_true, ↓reduceIte, List.take_append_drop, List.length_take, true_and]
    refine ⟨?_, by simp [hne], by simp⟩
    cases u.script with
    | nil => simp; omega
    | cons k t => simp; omega

theorem mdcFill_data_le (st : MDCR) (u : Under) : (mdcFill st u).2.1.data.length ≤ u.data.length := by
  induction hl : mdcTrailerSize - st.trailer.length using Nat.strongRecOn generalizing st u with
  | _ n ih =>
    rw [mdcFill]
    split
    · rename_i hlt
      split
      · split <;> simp
      · rename_i hE
        have hpos := Under.read_pos u (mdcTrailerSize - st.trailer.length) (by omega) (by simpa using hE)
        have hsp := (Under.read_split u (mdcTrailerSize - st.trailer.length)).1
        have hlen : (u.read (mdcTrailerSize - st.trailer.length)).2.2.data.length ≤ u.data.length := by
          have := congrArg List.length hsp
          simp only [List.length_append] at this; omega
        have := ih (mdcTrailerSize - (st.trailer ++ (u.read (mdcTrailerSize - st.trailer.length)).1).length)
          (by subst hl; simp only [List.length_append]; omega)
          { st with trailer := st.trailer ++ (u.read (mdcTrailerSize - st.trailer.length)).1 }
          (u.read (mdcTrailerSize - st.trailer.length)).2.2 rfl
        omega
    · simp

/-- a `Read` with a buffer larger than the trailer that returns no error has taken at least one byte
    from the underlying reader -/
theorem mdcRead_progress (st : MDCR) (u : Under) (m : Nat) (hm : mdcTrailerSize < m)
    (h : (mdcRead st u m).2.2.2 = .none) : (mdcRead st u m).2.1.data.length < u.data.length := by
  unfold mdcRead at h ⊢
  by_cases h1 : st.error = true
  · simp [h1] at h
  · by_cases h2 : st.eof = true
    · simp [h1, h2] at h
    · simp only [h1, h2, Bool.false_eq_true, ↓reduceIte] at h ⊢
      by_cases h3 : ((mdcFill st u).2.2 != MErr.none) = true
      · simp only [h3, ↓reduceIte] at h
        simp [h] at h3
      · simp only [h3, Bool.false_eq_true, ↓reduceIte] at h ⊢
        have hm' : ¬ m ≤ mdcTrailerSize := by omega
        simp only [hm', ↓reduceIte] at h ⊢
        have hfill := mdcFill_data_le st u
        by_cases h4 : ((mdcFill st u).2.1.read (m - mdcTrailerSize)).2.1 = true
        · simp [h4] at h
        · simp only [h4, Bool.false_eq_true, ↓reduceIte]
          have hpos := Under.read_pos (mdcFill st u).2.1 (m - mdcTrailerSize) (by omega) (by simpa using h4)
          have hsp := (Under.read_split (mdcFill st u).2.1 (m - mdcTrailerSize)).1
          have := congrArg List.length hsp
          simp only [List.length_append] at this
          omega

inductive CloseRes where
  | ok | readingError | notFound | mismatch
deriving DecidableEq, Repr

/-- the checks `Close` makes once EOF has been seen -/
def mdcCheck (H : Bytes → Bytes) (pre : Bytes) (st : MDCR) : CloseRes :=
  if st.trailer.take 2 != mdcTag then .notFound
  else if H (pre ++ st.hashed ++ mdcTag) != st.trailer.drop 2 then .mismatch
  else .ok

/-- `Close`'s loop `for !ser.eof { Read(buf[1024]) … }`: state, underlying reader, bytes drained,
    and whether EOF (rather than an error) ended it. Well-founded: each error-free 1024-byte Read takes
    at least one byte from the underlying reader (`mdcRead_progress`). -/
def mdcDrain (st : MDCR) (u : Under) : MDCR × Under × Bytes × Bool :=
  if st.eof then (st, u, [], true) else
  match h : (mdcRead st u 1024).2.2.2 with
  | .ueof => ((mdcRead st u 1024).1, (mdcRead st u 1024).2.1, (mdcRead st u 1024).2.2.1, false)
  | .eof => ((mdcRead st u 1024).1, (mdcRead st u 1024).2.1, (mdcRead st u 1024).2.2.1, true)
  | .none =>
    have : (mdcRead st u 1024).2.1.data.length < u.data.length :=
      mdcRead_progress st u 1024 (by decide) h
    let q := mdcDrain (mdcRead st u 1024).1 (mdcRead st u 1024).2.1
    (q.1, q.2.1, (mdcRead st u 1024).2.2.1 ++ q.2.2.1, q.2.2.2)
termination_by u.data.length

def mdcClose (H : Bytes → Bytes) (pre : Bytes) (st : MDCR) (u : Under) : CloseRes × Bytes :=
  if st.error then (.readingError, []) else
  let d := mdcDrain st u
  if !d.2.2.2 then (.readingError, d.2.2.1) else (mdcCheck H pre d.1, d.2.2.1)

/-- a session: `Read`s with the given buffer sizes, then `Close`.
    Observable: per Read the bytes delivered and the error, then the Close result. -/
def mdcSession (H : Bytes → Bytes) (pre : Bytes) (st : MDCR) (u : Under) : List Nat → List (Bytes × MErr) × CloseRes
  | [] => ([], (mdcClose H pre st u).1)
  | m :: ms =>
    let r := mdcRead st u m
    let q := mdcSession H pre r.1 r.2.1 ms
    ((r.2.2.1, r.2.2.2) :: q.1, q.2)

/-- `seMDCWriter`: what is written for plaintext `pt` after the OCFB prefix (whose plaintext is `pre`) -/
def mdcSeal (H : Bytes → Bytes) (pre pt : Bytes) : Bytes := pt ++ mdcTag ++ H (pre ++ pt ++ mdcTag)

/-! ## canonical text hash (canonical_text.go), chunk level -/

/-- `canonicalTextHash.Write(buf)`: state `s` in, state out and the bytes passed to the underlying
    hash; `seg` is `buf[start:i]` -/
def cthWriteLoop (s : Bool) (seg out : Bytes) : Bytes → Bool × Bytes
  | [] => (s, out ++ seg)
  | c :: t =>
    if s then cthWriteLoop false (seg ++ [c]) out t
    else if c == 13 then cthWriteLoop true (seg ++ [c]) out t
    else if c == 10 then cthWriteLoop false [] (out ++ seg ++ [13, 10]) t
    else cthWriteLoop false (seg ++ [c]) out t

def cthWrite (s : Bool) (buf : Bytes) : Bool × Bytes := cthWriteLoop s [] [] buf

def cthChunks (s : Bool) : List Bytes → Bool × Bytes
  | [] => (s, [])
  | c :: cs =>
    let r := cthWrite s c
    let q := cthChunks r.1 cs
    (q.1, r.2 ++ q.2)

/-! ## v4 signature packets as `Sign` + `Serialize` lay them out -/

def subpacket (ty : UInt8) (c : Bytes) : Bytes :=
  -- serializeSubpacketLength(len(contents)+1), type, contents   (lengths < 192 here)
  UInt8.ofNat (c.length + 1) :: ty :: c

/-- hashed area produced by `buildSubpackets` for a data signature: creation time, issuer -/
def sigHashedArea (ctime issuer : Nat) : Bytes :=
  subpacket 2 (natToBE 4 ctime) ++ subpacket 16 (natToBE 8 issuer)

/-- `HashSuffix`: version 4, type, pk algo, hash id, hashed-area length, hashed area, trailer `04 ff len32` -/
def sigHashSuffix (sigType pk hid : UInt8) (ctime issuer : Nat) : Bytes :=
  let h := sigHashedArea ctime issuer
  let l := 6 + h.length
  [4, sigType, pk, hid] ++ natToBE 2 h.length ++ h ++ [4, 0xff] ++ natToBE 4 l

def mpiBytes (bits : Nat) (b : Bytes) : Bytes := natToBE 2 bits ++ b

/-- the serialized signature packet (header included); `mpis` = the signature MPIs as written -/
def sigPacket (sigType pk hid : UInt8) (ctime issuer : Nat) (hashTag : Bytes) (mpis : Bytes) : Bytes :=
  let suf := sigHashSuffix sigType pk hid ctime issuer
  let body := suf.take (suf.length - 6) ++ [0, 0] ++ hashTag ++ mpis
  serializeHeader 2 body.length ++ body

/-- what is hashed for a signature over `msg`: the (possibly canonicalised) message then the suffix -/
def sigHashInput (sigType : UInt8) (msg suffix : Bytes) : Bytes :=
  (if sigType == 1 then C46.cth msg else msg) ++ suffix

/-! ## message packet layouts -/

def opsPacket (sigType hid pk : UInt8) (keyId : Nat) : Bytes :=
  serializeHeader 4 13 ++ [3, sigType, hid, pk] ++ natToBE 8 keyId ++ [1]

/-- the writes `SerializeLiteral` + the caller make into the literal packet's partial-length writer -/
def literalWrites (isBinary : Bool) (name : Bytes) (time : Nat) (chunks : List Bytes) : List Bytes :=
  [[if isBinary then 98 else 116, UInt8.ofNat (name.take 255).length], name.take 255, natToBE 4 time] ++ chunks

/-- the literal data packet: tag byte, then the partial-length stream -/
def literalPacket (isBinary : Bool) (name : Bytes) (time : Nat) (chunks : List Bytes) : Bytes :=
  0xCB :: pwAll (literalWrites isBinary name time chunks)

/-- lengths of the pieces a partial-length writer hands to the writer below it, in order
    (each `w.w.Write(lengthByte)` and `w.w.Write(p[:l])`): needed because the outer encrypted-data
    packet is itself written through a partial-length writer whose chunking depends on these sizes -/
def plLoopSizes (power : Nat) (n : Nat) : List Nat :=
  if h : n = 0 then [] else
  let pw := if n < 2 ^ power then Nat.log2 n else power
  1 :: 2 ^ pw :: plLoopSizes pw (n - 2 ^ pw)
termination_by n
decreasing_by
  exact Nat.sub_lt (Nat.pos_of_ne_zero h) (Nat.two_pow_pos _)

def pwWriteSizes (w : PW) (n : Nat) (bufLen : Nat) : PW × Nat × List Nat :=
  -- same control flow as `pwWrite`, tracking only lengths (`bufLen` = len(w.buf))
  if !w.sentFirst then
    if bufLen > 0 || n < minFirstPartialWrite then
      let b := bufLen + n
      if b < minFirstPartialWrite then (w, b, [])
      else ({ w with sentFirst := true }, 0, plLoopSizes 30 b)
    else ({ w with sentFirst := true }, 0, plLoopSizes 30 n)
  else (w, bufLen, plLoopSizes 30 n)

def pwRunSizes (w : PW) (bufLen : Nat) : List Nat → PW × Nat × List Nat
  | [] => (w, bufLen, [])
  | n :: ns =>
    let r := pwWriteSizes w n bufLen
    let q := pwRunSizes r.1 r.2.1 ns
    (q.1, q.2.1, r.2.2 ++ q.2.2)

def pwAllSizes (writes : List Nat) : List Nat :=
  let r := pwRunSizes {} 0 writes
  r.2.2 ++ (if r.2.1 > 0 then plLoopSizes 30 r.2.1 else []) ++ [1]

/-- sizes of the chunks (partial lengths, then the final definite length) of a partial-length stream -/
def chunkSizes (s : Bytes) : List Nat × Bool :=
  match h : C45.readLength s with
  | .error _ => ([], false)
  | .ok (n, p, r) =>
    if r.length < n then ([n], false)
    else if !p then ([n], true)
    else
      have : r.length - n < s.length := by
        have := C45.readLength_lt h
        omega
      let q := chunkSizes (r.drop n)
      (n :: q.1, q.2)
termination_by s.length

end XC.C44

namespace XC.C44
/-! ## the packet grammar `ReadMessage` accepts (read.go), over the flat stream `packet.Reader` yields

`packet.Reader` keeps a stack of readers: a compressed or decrypted body is pushed and read until its
EOF, then popped silently. As a flat token stream that is `open … close`, with `close` invisible to
`Next`. Key material availability is an oracle (`haveKey`). -/

inductive Tok where
  | skesk | pkesk | seipd | comp | close | ops (last : Bool) | lit | sig | other
deriving DecidableEq, Repr

inductive MsgRes where
  | err                                   -- ReadMessage or reading the body reports an error
  | ok (encrypted signed verified : Bool)  -- plaintext delivered; flags as in MessageDetails
deriving DecidableEq, Repr

/-- `Reader.Next`: pops exhausted inner readers -/
def tnext : List Tok → Option (Tok × List Tok)
  | [] => none
  | .close :: r => tnext r
  | t :: r => some (t, r)

theorem tnext_lt {s r : List Tok} {t : Tok} (h : tnext s = some (t, r)) : r.length < s.length := by
  induction s with
  | nil => simp [tnext] at h
  | cons a x ih =>
    cases a <;> simp only [tnext, Option.some.injEq, Prod.mk.injEq] at h
    all_goals first
      | (obtain ⟨_, rfl⟩ := h; simp)
      | (have := ih h; simp; omega)

/-- after the literal body has been read to EOF: `signatureCheckReader` wants a signature packet next -/
def afterLiteral (enc signed : Bool) (s : List Tok) : MsgRes :=
  if !signed then .ok enc false false
  else match tnext s with
    | some (.sig, _) => .ok enc true true
    | _ => .err                            -- SignatureError: missing / not a signature

/-- skip an unopened container (its contents are never pushed): drop up to its matching `close` -/
def skipBody : Nat → List Tok → List Tok
  | _, [] => []
  | d, .close :: r => if d == 0 then r else skipBody (d - 1) r
  | d, .seipd :: r => skipBody (d + 1) r
  | d, .comp :: r => skipBody (d + 1) r
  | d, _ :: r => skipBody d r

theorem skipBody_le (d : Nat) (s : List Tok) : (skipBody d s).length ≤ s.length := by
  induction s generalizing d with
  | nil => simp [skipBody]
  | cons a t ih =>
    cases a <;> simp only [skipBody, List.length_cons]
    all_goals first
      | (split <;> first | omega | (have := ih (d - 1); omega))
      | (have := ih d; omega)
      | (have := ih (d + 1); omega)

/-- `readSignedMessage`: find the literal data, noting a one-pass signature and descending into compressed data -/
def readSigned (enc signed : Bool) (s : List Tok) : MsgRes :=
  match h : tnext s with
  | none => .err
  | some (.comp, r) => have := tnext_lt h; readSigned enc signed r
  | some (.ops last, r) => have := tnext_lt h; if !last then .err else readSigned enc true r
  | some (.lit, r) => afterLiteral enc signed r
  | some (.seipd, r) =>
    -- not a case of the switch: the packet is dropped together with its (never decrypted) contents
    have : (skipBody 0 r).length < s.length := by have := tnext_lt h; have := skipBody_le 0 r; omega
    readSigned enc signed (skipBody 0 r)
  | some (_, r) => have := tnext_lt h; readSigned enc signed r
termination_by s.length

/-- `ReadMessage`: collect key packets up to the encrypted data packet -/
def readMessage (haveKey : Bool) (nkeys : Nat) (s : List Tok) : MsgRes :=
  match h : tnext s with
  | none => .err
  | some (.skesk, r) => have := tnext_lt h; readMessage haveKey (nkeys + 1) r
  | some (.pkesk, r) =>
    have := tnext_lt h
    readMessage haveKey (if haveKey then nkeys + 1 else nkeys) r      -- only keys found in the keyring count
  | some (.seipd, r) => if nkeys == 0 || !haveKey then .err else readSigned true false r
  | some (.comp, r) => if nkeys != 0 then .err else readSigned false false (.comp :: r)
  | some (.lit, r) => if nkeys != 0 then .err else readSigned false false (.lit :: r)
  | some (.ops l, r) => if nkeys != 0 then .err else readSigned false false (.ops l :: r)
  | some (_, r) => have := tnext_lt h; readMessage haveKey nkeys r
termination_by s.length

/-- what the writers emit -/
def signedBody (signed : Bool) : List Tok :=
  if signed then [.ops true, .lit, .sig] else [.lit]

def writerShape (mode : String) (nrcpt : Nat) (signed compressed : Bool) : List Tok :=
  if mode == "sign" then signedBody true
  else
    let keys := if mode == "sym" then [Tok.skesk] else List.replicate nrcpt Tok.pkesk
    let inner := if compressed then [Tok.comp] ++ signedBody signed ++ [Tok.close] else signedBody signed
    keys ++ [Tok.seipd] ++ inner ++ [Tok.close]

/-- tags of the outermost packets of a shape -/
def outerTags : Nat → List Tok → List Nat
  | _, [] => []
  | d, t :: r =>
    let tag : Nat := match t with
      | .skesk => 3 | .pkesk => 1 | .seipd => 18 | .comp => 8 | .ops _ => 4 | .lit => 11 | .sig => 2 | _ => 0
    match t with
    | .close => outerTags (d - 1) r
    | .seipd | .comp => (if d == 0 then [tag] else []) ++ outerTags (d + 1) r
    | _ => (if d == 0 then [tag] else []) ++ outerTags d r
end XC.C44
