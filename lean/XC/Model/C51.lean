/-
  C51 — acme/autocert: renewal timing (`domainRenewal.next`, renewal.go), the `GetCertificate`
  decision pipeline with `validCert` (autocert.go) and the `certState` owner/reader protocol.

  Model of the code as written (after the fix "do not draw renewal jitter from an empty range").
  Stdlib behaviour used as parameters: `time.Time` arithmetic (instants are unbounded `Int`
  nanoseconds; `Time.Sub` saturates to the int64 `Duration` range, `Time.Add` is exact),
  `math/rand.(*Rand).Int63n` (modelled below from its source), `idna.Lookup.ToASCII`,
  `x509` parsing / `VerifyHostname` and key comparison (oracle bits of a certificate descriptor).
-/
import XC.Basic
namespace XC.C51

/-! ## 1. `domainRenewal.next` -/

def maxDur : Int := 9223372036854775807
def minDur : Int := -9223372036854775808
/-- `time.Time.Sub`: the exact difference, saturated to the `Duration` range -/
def clampDur (x : Int) : Int := if x < minDur then minDur else if x > maxDur then maxDur else x
/-- int64 two's-complement wrap of a `Duration` computation -/
def wrap64 (x : Int) : Int := (x + 9223372036854775808) % 18446744073709551616 - 9223372036854775808

def hour : Int := 3600000000000
def day30 : Int := 2592000000000000

/-- one `Source.Int63()` of the scripted source: the listed values in order (masked to 63 bits), then 0 -/
def draw : List Nat → Nat × List Nat
  | [] => (0, [])
  | v :: r => (v % 9223372036854775808, r)

/-- `v := Int63(); for v > max { v = Int63() }`, with the number of draws -/
def reject (mx : Nat) : List Nat → Nat × Nat
  | [] => (0, 1)
  | v :: r =>
    if v % 9223372036854775808 > mx then
      let (x, k) := reject mx r
      (x, k + 1)
    else (v % 9223372036854775808, 1)

/-- `math/rand.(*Rand).Int63n(n)` over the scripted source: `none` is the panic for `n ≤ 0`;
    otherwise the value and the number of `Int63` draws. -/
def int63n (n : Int) (src : List Nat) : Option (Int × Nat) :=
  if n ≤ 0 then none else
  let m := n.toNat
  if m &&& (m - 1) == 0 then
    some (((draw src).1 &&& (m - 1) : Nat), 1)
  else
    let mx := 9223372036854775807 - 9223372036854775808 % m
    let (v, k) := reject mx src
    some ((v % m : Nat), k)

/-- `threshold` of `next`; `lifetime/3` is Go's truncating division -/
def threshold (renewBefore notBefore notAfter : Int) : Int :=
  if renewBefore > 0 then min renewBefore day30
  else min ((clampDur (notAfter - notBefore)).tdiv 3) day30

def maxJitter (th : Int) : Int := min (th.tdiv 10) hour

/-- the instant `renewAt := notAfter.Add(-(threshold - jitter))` -/
def renewAt (notAfter th jitter : Int) : Int := notAfter + wrap64 (-(wrap64 (th - jitter)))

/-- `domainRenewal.next`: `none` = panic; otherwise (delay, number of source draws) -/
def next (renewBefore notBefore notAfter now : Int) (src : List Nat) : Option (Int × Nat) :=
  let th := threshold renewBefore notBefore notAfter
  let mj := maxJitter th
  let j? : Option (Int × Nat) := if mj > 0 then int63n mj src else some (0, 0)
  match j? with
  | none => none
  | some (j, k) => some (max 0 (clampDur (renewAt notAfter th j - now)), k)

/-- the code before the fix (for the regression theorem only): jitter always drawn -/
def nextUnfixed (renewBefore notBefore notAfter now : Int) (src : List Nat) : Option (Int × Nat) :=
  let th := threshold renewBefore notBefore notAfter
  match int63n (maxJitter th) src with
  | none => none
  | some (j, k) => some (max 0 (clampDur (renewAt notAfter th j - now)), k)

/-! ## 2. `GetCertificate` -/

inductive KT | rsa | ec | other
deriving DecidableEq, Repr

/-- what the stdlib reports about one certificate + private key bundle (oracle bits) -/
structure Cert where
  id : Nat
  nb : Int            -- leaf.NotBefore, unix seconds
  na : Int            -- leaf.NotAfter
  hostOK : Bool       -- leaf.VerifyHostname(ck.domain) == nil
  issuerLE : Bool     -- Issuer.Organization == ["Let's Encrypt"]
  pub : KT            -- type of leaf.PublicKey
  priv : KT           -- type of the private key (rsa / ec)
  keyMatch : Bool     -- same type and the public keys are equal: X and Y (ECDSA), modulus N and exponent E (RSA)
deriving DecidableEq, Repr

structure CertKey where
  domain : Bytes
  isRSA : Bool
  isToken : Bool
deriving DecidableEq, Repr

/-- ASCII literal as bytes (reducible by `decide`, unlike `String.toUTF8`) -/
def asc (s : String) : Bytes := s.toList.map fun c => UInt8.ofNat c.toNat
def sfxToken : Bytes := asc "+token"
def sfxRSA : Bytes := asc "+rsa"

/-- `certKey.String()` -/
def CertKey.str (ck : CertKey) : Bytes :=
  if ck.isToken then ck.domain ++ sfxToken
  else if ck.isRSA then ck.domain ++ sfxRSA
  else ck.domain

/-- `letsEncryptFixDeployTime` = 2022-01-26 00:48:00 UTC -/
def leFixTime : Int := 1643158080

/-- `validCert` as a decision (every failure is the same to its callers); `now` in unix seconds -/
def validCert (ck : CertKey) (c : Cert) (now : Int) : Bool :=
  if now < c.nb then false
  else if now > c.na then false
  else if !c.hostOK then false
  else if c.issuerLE && c.nb < leFixTime then false
  else match c.pub with
    | .rsa => if c.priv != .rsa then false else if !c.keyMatch then false else ck.isRSA || ck.isToken
    | .ec => if c.priv != .ec then false else if !c.keyMatch then false else !ck.isRSA || ck.isToken
    | .other => false

/-- what `Cache.Get` + PEM/key parsing yield for one key -/
inductive CacheVal
  | miss                 -- ErrCacheMiss, or not PEM / leftover junk / no parsable certificate
  | err                  -- Cache.Get failed with another error
  | badKey               -- PEM "PRIVATE" block whose key does not parse: cacheGet returns that error
  | cert (c : Cert)
deriving Repr

inductive GetRes
  | miss | err | ok (c : Cert)
deriving Repr

abbrev Cache := List (Bytes × CacheVal)

/-- `Manager.cacheGet` -/
def cacheGet (cache : Option Cache) (ck : CertKey) (now : Int) : GetRes :=
  match cache with
  | none => .miss
  | some l =>
    match l.lookup ck.str with
    | none => .miss
    | some .miss => .miss
    | some .err => .err
    | some .badKey => .err
    | some (.cert c) => if validCert ck c now then .ok c else .miss

structure Hello where
  name : Bytes                     -- ServerName
  protos : List Bytes              -- SupportedProtos
  sigs : Option (List Nat)         -- SignatureSchemes (none = nil)
  curves : Option (List Nat)       -- SupportedCurves
  suites : List Nat                -- CipherSuites

def alpnProto : Bytes := asc "acme-tls/1"

def wantsTokenCert (h : Hello) : Bool :=
  match h.protos with
  | [p] => p == alpnProto
  | _ => false

def ecdsaSchemes : List Nat := [0x0203, 0x0403, 0x0503, 0x0603]
def ecdsaSuites : List Nat := [0xc007, 0xc009, 0xc00a, 0xc023, 0xc02b, 0xc02c, 0xcca9]

def supportsECDSA (h : Hello) : Bool :=
  let sigOK := match h.sigs with
    | none => true
    | some l => l.any (ecdsaSchemes.contains ·)
  let curveOK := match h.curves with
    | none => true
    | some l => l.contains 23
  sigOK && curveOK && h.suites.any (ecdsaSuites.contains ·)

def dot : UInt8 := 0x2e

/-- `strings.Trim(name, ".")` -/
def trimDots (s : Bytes) : Bytes := ((s.dropWhile (· == dot)).reverse.dropWhile (· == dot)).reverse

/-- `strings.TrimSuffix(name, ".")` -/
def trimSuffixDot (s : Bytes) : Bytes :=
  match s.reverse with
  | c :: r => if c == dot then r.reverse else s
  | [] => s

inductive Ev
  | policy (name : Bytes)
  | get (key : Bytes)
  | order (domain : Bytes)
  | put (key : Bytes)
  | account (tosAgreed : Bool) (contact : Bytes) (eab : Bool)  -- newAccount request seen by the CA (first contact URL)
  | csr (domain : Bytes) (extraExt : Bool)                    -- finalize request: CSR for the domain, with Manager.ExtraExtensions?
deriving DecidableEq, Repr

inductive Res
  | errName | errIdna | errNoToken | errPolicy | errCache | errIssue
  | token (c : Cert)         -- tls-alpn-01 challenge certificate from the cache (validated)
  | tokenMem (c : Cert)      -- tls-alpn-01 challenge certificate from m.certTokens (returned as stored)
  | expiredNotServed         -- only produced by `conform`: what the property demands for a stale m.state entry
  | served (c : Cert)        -- from m.state or the cache
  | issued (c : Cert)        -- freshly obtained from the CA
deriving DecidableEq, Repr

/-- in-memory `m.state` entry once its lock is free -/
inductive StateVal
  | ready (c : Cert)
  | failed                   -- createCert failed: entry without certificate
deriving DecidableEq, Repr

/-- the Manager fields that shape account registration and the CSR -/
structure Acct where
  registered : Bool := false      -- m.client is set: an earlier issuance registered (or found) the account
  terms : Bool := false           -- the CA's directory announces terms of service
  prompt : Option Bool := some true  -- Manager.Prompt: none = nil, some b = a function returning b (AcceptTOS = true)
  email : Bytes := []             -- Manager.Email ("" = none)
  eab : Bool := false             -- Manager.ExternalAccountBinding is set
  extraExt : Bool := false        -- Manager.ExtraExtensions is non-empty
deriving DecidableEq, Repr

structure World where
  whitelist : Option (List Bytes)     -- HostPolicy (none = nil = every host)
  cache : Option Cache                -- none = no Cache configured
  state : List (Bytes × StateVal)     -- m.state, keyed by certKey.String()
  tokens : List (Bytes × Cert) := []  -- m.certTokens: challenge certificates being validated, by name
  ca : CertKey → Option Cert          -- what the CA would issue for a key; none = order refused
  acct : Acct := {}

def policyOK (w : World) (name : Bytes) : Bool :=
  match w.whitelist with
  | none => true
  | some l => l.contains name

/-- the host policy is observable only when one is configured -/
def polEv (w : World) (name : Bytes) : List Ev :=
  match w.whitelist with
  | none => []
  | some _ => [.policy name]

/-- events of `cacheGet`: the cache is only consulted when one is configured -/
def getEv (w : World) (ck : CertKey) : List Ev :=
  match w.cache with
  | none => []
  | some _ => [.get ck.str]

def putEv (w : World) (ck : CertKey) : List Ev :=
  match w.cache with
  | none => []
  | some _ => [.put ck.str]

abbrev Outcome := List Ev × Res × List (Bytes × StateVal)

/-- the two `ServerName` checks at the top of `GetCertificate` -/
def nameOK (h : Hello) : Bool := !h.name.isEmpty && (trimDots h.name).contains dot

/-- the certKey `GetCertificate` works with for a non-token hello -/
def certKeyOf (h : Hello) (name : Bytes) : CertKey := ⟨trimSuffixDot name, !supportsECDSA h, false⟩

/-- tls-alpn-01 challenge hello: `m.certTokens[name]` as it is, else the cache under `name+token`;
    the host policy is not consulted -/
def tokenPath (w : World) (name : Bytes) (now : Int) : Outcome :=
  match w.tokens.lookup name with
  | some c => ([], .tokenMem c, w.state)
  | none =>
    let ck : CertKey := ⟨name, false, true⟩
    match cacheGet w.cache ck now with
    | .ok c => (getEv w ck, .token c, w.state)
    | _ => (getEv w ck, .errNoToken, w.state)

/-- `acmeClient`: register the account unless `m.client` is already set. none = registration cannot even
    be attempted (the CA has terms of service and Manager.Prompt is nil). -/
def acctEv (a : Acct) : Option (List Ev) :=
  if a.registered then some []
  else if a.terms && a.prompt.isNone then none
  else some [.account (a.terms && a.prompt == some true) (if a.email.isEmpty then [] else asc "mailto:" ++ a.email) a.eab]

/-- `createCert` as the owner of a fresh state entry: account registration (first time), order, finalize with the CSR, `validCert` on the CA's answer, `cachePut` -/
def issue (w : World) (ck : CertKey) (now : Int) : Outcome :=
  match acctEv w.acct with
  | none => ([], .errIssue, (ck.str, .failed) :: w.state)
  | some ae =>
    match w.ca ck with
    | none => (ae ++ [.order ck.domain], .errIssue, (ck.str, .failed) :: w.state)
    | some c =>
      if validCert ck c now then
        (ae ++ .order ck.domain :: .csr ck.domain w.acct.extraExt :: putEv w ck, .issued c, (ck.str, .ready c) :: w.state)
      else (ae ++ [.order ck.domain, .csr ck.domain w.acct.extraExt], .errIssue, (ck.str, .failed) :: w.state)

/-- after a call: is the account registered now? (`m.client` is set once Register succeeded) -/
def registeredAfter (w : World) (evs : List Ev) : Bool :=
  w.acct.registered || evs.any fun e => match e with | .account .. => true | _ => false

/-- `Manager.TLSConfig().NextProtos` -/
def tlsNextProtos : List Bytes := [asc "h2", asc "http/1.1", asc "acme-tls/1"]

/-- `m.cert` followed, on ErrCacheMiss, by `createCert` -/
def lookupOrIssue (w : World) (ck : CertKey) (now : Int) : Outcome :=
  match w.state.lookup ck.str with
  | some (.ready c) => ([], .served c, w.state)
  | some .failed => ([], .errIssue, w.state)
  | none =>
    match cacheGet w.cache ck now with
    | .ok c => (getEv w ck, .served c, (ck.str, .ready c) :: w.state)
    | .err => (getEv w ck, .errCache, w.state)
    | .miss =>
      let r := issue w ck now
      (getEv w ck ++ r.1, r.2)

/-- `GetCertificate` for one hello on a quiescent Manager: the externally visible calls
    (host policy, cache, CA orders) in order, the result, and the new `m.state`.
    `ascii` is `idna.Lookup.ToASCII(name)` (none = error). -/
def getCertificate (w : World) (h : Hello) (ascii : Option Bytes) (now : Int) : Outcome :=
  if !nameOK h then ([], .errName, w.state)
  else match ascii with
  | none => ([], .errIdna, w.state)
  | some name =>
    if wantsTokenCert h then tokenPath w name now
    else if !policyOK w name then (polEv w name, .errPolicy, w.state)
    else
      let r := lookupOrIssue w (certKeyOf h name) now
      (polEv w name ++ r.1, r.2)

/-- What the property statement demands instead of the code's behaviour on a stale `m.state` entry
    (observation O6): a certificate that is no longer valid at the clock of the call is not returned.
    Everything else is `getCertificate` unchanged (same events, same new state). -/
def conform (w : World) (h : Hello) (ascii : Option Bytes) (now : Int) : Outcome :=
  let r := getCertificate w h ascii now
  match r.2.1, ascii with
  | .served c, some name => if validCert (certKeyOf h name) c now then r else (r.1, .expiredNotServed, r.2.2)
  | _, _ => r

/-! ## `Manager.HTTPHandler` (http-01 challenge responses, redirect of everything else) -/

inductive HttpRes
  | status (code : Nat) (body : Bytes)     -- body only for 200
  | redirect (location : Bytes)            -- 302 Found
  | fallback                               -- handed to the caller's fallback handler
deriving DecidableEq, Repr

def challengePrefix : Bytes := asc "/.well-known/acme-challenge/"

/-- `hostNoPort` = `stripPort(r.Host)` and `cacheKey` = `path.Base(r.URL.Path)+"+http-01"` are computed by
    the stdlib (parameters); `tokCache` = what `Cache.Get(cacheKey)` yields (none = miss or error). -/
def httpHandler (w : World) (httpTokens : List (Bytes × Bytes)) (tokCache : Option (Option Bytes))
    (fallbackNil : Bool) (method host path uri hostNoPort cacheKey : Bytes) : List Ev × HttpRes :=
  if !(challengePrefix.isPrefixOf path) then
    if !fallbackNil then ([], .fallback)
    else if method != asc "GET" && method != asc "HEAD" then ([], .status 400 [])
    else ([], .redirect (asc "https://" ++ hostNoPort ++ uri))
  else if !policyOK w host then (polEv w host, .status 403 [])
  else
    match httpTokens.lookup path with
    | some v => (polEv w host, .status 200 v)
    | none =>
      match tokCache with
      | none => (polEv w host, .status 404 [])                         -- no Cache configured
      | some none => (polEv w host ++ [.get cacheKey], .status 404 [])
      | some (some v) => (polEv w host ++ [.get cacheKey], .status 200 v)

/-! ## `DirCache`: a key/value store -/

inductive DirOp | put (k v : Bytes) | get (k : Bytes) | del (k : Bytes)
deriving Repr

/-- results of the `get`s, in order: none = ErrCacheMiss -/
def dirRun : List (Bytes × Bytes) → List DirOp → List (Option Bytes)
  | _, [] => []
  | m, .put k v :: r => dirRun ((k, v) :: m.filter (·.1 != k)) r
  | m, .get k :: r => m.lookup k :: dirRun m r
  | m, .del k :: r => dirRun (m.filter (·.1 != k)) r

/-! ## 3. `certState` / `createCert` as a transition system

One `certKey`.  `present` = `m.state[ck]` exists; `issuing` = number of goroutines inside
`authorizedCert` for this key as owner; `timers` = pending "remove the failed state" timers.
Every step is one `stateMu` critical section (or the end of the owner's work). -/

structure Sys where
  present : Bool
  issuing : Nat
  timers : Nat
  orders : Nat        -- orders sent to the CA so far
deriving DecidableEq, Repr

inductive Step : Sys → Sys → Prop
  /-- `certState`: no entry → create one locked, caller is the owner and starts `authorizedCert` -/
  | own (s : Sys) : s.present = false →
      Step s { s with present := true, issuing := s.issuing + 1, orders := s.orders + 1 }
  /-- `certState` / `cert`: entry exists → caller only waits on the read lock -/
  | wait (s : Sys) : s.present = true → Step s s
  /-- `cert`: a valid cached certificate is installed as the entry (no issuance) -/
  | load (s : Sys) : s.present = false → Step s { s with present := true }
  /-- owner finished successfully: entry stays, filled -/
  | done (s : Sys) : s.issuing > 0 → Step s { s with issuing := s.issuing - 1 }
  /-- owner failed: entry stays (empty), a removal timer is armed -/
  | fail (s : Sys) : s.issuing > 0 → Step s { s with issuing := s.issuing - 1, timers := s.timers + 1 }
  /-- the timer fires and deletes the entry (it was still invalid) -/
  | expire (s : Sys) : s.timers > 0 → Step s { s with present := false, timers := s.timers - 1 }
  /-- the timer fires and keeps the entry (it has become valid / was replaced by a renewal) -/
  | keep (s : Sys) : s.timers > 0 → Step s { s with timers := s.timers - 1 }

def Sys.init : Sys := ⟨false, 0, 0, 0⟩

inductive Reachable : Sys → Prop
  | init : Reachable Sys.init
  | step {s t : Sys} : Reachable s → Step s t → Reachable t

end XC.C51
