/-
  C46 — OpenPGP ASCII armor (openpgp/armor/armor.go, encode.go) and cleartext signatures
  (openpgp/clearsign/clearsign.go) — the model of the code as written.

  Armor:     crc24, base64 (std alphabet, padded; stand-in for encoding/base64), the 64-column
             `lineBreaker` with its partial-line state, `Encode`, and `Decode` with the
             bufio.Reader(100).ReadLine line discipline, bytes.TrimSpace (Unicode White_Space),
             header continuation lines, the `lineReader` (96-byte cap, `=XXXX` line, `-----END `)
             and the streaming base64 decoder fed one line per Read (`openpgpReader` CRC check at EOF).
  Clearsign: the `dashEscaper` byte automaton (output text + hashed bytes), `Decode`.
-/
import XC.Basic
namespace XC.C46
open XC

/-! ## byte helpers -/

/-- ASCII string literal as bytes (reduces in the kernel, unlike `String.toUTF8`) -/
def str (s : String) : Bytes := s.toList.map (fun c => UInt8.ofNat c.toNat)

def LF : UInt8 := 10
def CR : UInt8 := 13

/-- `bytes.HasPrefix` -/
def hasPrefix : Bytes → Bytes → Bool
  | _, [] => true
  | [], _ :: _ => false
  | a :: s, b :: p => a == b && hasPrefix s p

/-- `bytes.Index`: position of the first occurrence of `pat` -/
def indexOf (pat : Bytes) : Bytes → Option Nat
  | [] => if pat.isEmpty then some 0 else none
  | b :: s => if hasPrefix (b :: s) pat then some 0 else (indexOf pat s).map (· + 1)

/-- split at the first LF: `(before, some after)`, or `(all, none)` if there is no LF -/
def splitLF : Bytes → Bytes × Option Bytes
  | [] => ([], none)
  | b :: r => if b == LF then ([], some r) else
      let p := splitLF r
      (b :: p.1, p.2)

def dropLastCR (l : Bytes) : Bytes :=
  match l.getLast? with
  | some 13 => l.dropLast
  | _ => l

/-! ## CRC-24 (armor.go `crc24`) -/

/-- the `uint32` accumulator as a natural number (`% 2^32` is the `uint32` wrap of `crc <<= 1`; it never
    fires: the value stays below 2^25) -/
def crcShift (c : Nat) : Nat :=
  let c := (c * 2) % 4294967296
  if c &&& 0x1000000 != 0 then c ^^^ 0x1864cfb else c

def crcByte (crc : Nat) (b : UInt8) : Nat :=
  let c := crc ^^^ (b.toNat * 65536)
  crcShift (crcShift (crcShift (crcShift (crcShift (crcShift (crcShift (crcShift c)))))))

def crc24 (crc : Nat) (d : Bytes) : Nat := d.foldl crcByte crc

def crc24Init : Nat := 0xb704ce
def crc24Mask : Nat := 0xffffff

/-! ## base64, standard alphabet with `=` padding (stand-in for encoding/base64.StdEncoding) -/

def b64char (n : Nat) : UInt8 :=
  if n < 26 then UInt8.ofNat (65 + n)
  else if n < 52 then UInt8.ofNat (97 + (n - 26))
  else if n < 62 then UInt8.ofNat (48 + (n - 52))
  else if n = 62 then 43 else 47

/-- `decodeMap`: value of an alphabet character -/
def b64val (c : UInt8) : Option Nat :=
  let n := c.toNat
  if 65 ≤ n ∧ n ≤ 90 then some (n - 65)
  else if 97 ≤ n ∧ n ≤ 122 then some (n - 97 + 26)
  else if 48 ≤ n ∧ n ≤ 57 then some (n - 48 + 52)
  else if n = 43 then some 62
  else if n = 47 then some 63
  else none

def PAD : UInt8 := 61

def b64enc : Bytes → Bytes
  | a :: b :: c :: rest =>
    let v := a.toNat * 65536 + b.toNat * 256 + c.toNat
    b64char (v / 262144) :: b64char (v / 4096 % 64) :: b64char (v / 64 % 64) :: b64char (v % 64) :: b64enc rest
  | [a, b] =>
    let v := a.toNat * 65536 + b.toNat * 256
    [b64char (v / 262144), b64char (v / 4096 % 64), b64char (v / 64 % 64), PAD]
  | [a] =>
    let v := a.toNat * 65536
    [b64char (v / 262144), b64char (v / 4096 % 64), PAD, PAD]
  | [] => []

/-- result of `Encoding.Decode` on a buffer: bytes written and whether a CorruptInputError occurred -/
structure B64Res where
  out : Bytes
  ok : Bool
deriving DecidableEq, Repr

def bytes3 (v : Nat) : Bytes := [UInt8.ofNat (v / 65536), UInt8.ofNat (v / 256 % 256), UInt8.ofNat (v % 256)]

/-- `Encoding.Decode` (non-strict, padded) on a buffer without CR/LF whose length is a multiple
    of four (what the stream decoder hands it). Quantum by quantum as `decodeQuantum`:
    padding is accepted in the 3rd/4th place; anything after a padded quantum in the same buffer is
    "trailing garbage" (error, but the padded quantum's bytes are delivered). -/
def b64decBuf : Bytes → B64Res
  | a :: b :: c :: d :: rest =>
    match b64val a, b64val b with
    | some x, some y =>
      match b64val c with
      | some z =>
        match b64val d with
        | some w =>
          let r := b64decBuf rest
          ⟨bytes3 (x * 262144 + y * 4096 + z * 64 + w) ++ r.out, r.ok⟩
        | none =>
          if d == PAD then ⟨(bytes3 (x * 262144 + y * 4096 + z * 64)).take 2, rest.isEmpty⟩
          else ⟨[], false⟩
      | none =>
        if c == PAD then
          if d == PAD then ⟨(bytes3 (x * 262144 + y * 4096)).take 1, rest.isEmpty⟩ else ⟨[], false⟩
        else ⟨[], false⟩
    | _, _ => ⟨[], false⟩
  | [] => ⟨[], true⟩
  | _ => ⟨[], false⟩   -- not reached: the stream decoder passes multiples of four

/-! ## lineBreaker (encode.go) -/

/-- `lineBreaker` state: `line[0:used]` (as a list, so `used = line.length`), `haveWritten`;
    `panicked` records the slice-bounds panic Go would raise if `used ≥ lineLength` were ever reached. -/
structure LB where
  line : Bytes := []
  hw : Bool := false
  panicked : Bool := false
deriving DecidableEq, Repr

def lineLength : Nat := 64

/-- `(*lineBreaker).Write`: returns the new state and the bytes written to `out` -/
def lbWrite (st : LB) (b : Bytes) : LB × Bytes :=
  if b.isEmpty then (st, []) else
  if _h : lineLength ≤ st.line.length then ({ st with panicked := true }, []) else
  let nl : Bytes := if st.line.isEmpty && st.hw then [LF] else []
  if st.line.length + b.length < lineLength then
    ({ st with line := st.line ++ b }, nl)
  else
    let excess := lineLength - st.line.length
    let r := lbWrite { line := [], hw := true, panicked := st.panicked } (b.drop excess)
    (r.1, nl ++ st.line ++ b.take excess ++ r.2)
termination_by b.length
decreasing_by
  simp only [List.length_drop]
  have : b.length ≠ 0 := by
    intro h0
    have : b = [] := List.eq_nil_of_length_eq_zero h0
    simp_all
  simp only [lineLength] at *
  omega

/-- `(*lineBreaker).Close` -/
def lbClose (st : LB) : Bytes := st.line

/-- a sequence of Writes followed by Close; everything written to `out` -/
def lbRun (st : LB) : List Bytes → LB × Bytes
  | [] => (st, [])
  | c :: cs =>
    let r := lbWrite st c
    let r2 := lbRun r.1 cs
    (r2.1, r.2 ++ r2.2)

def lbAll (pieces : List Bytes) : Bytes :=
  let r := lbRun {} pieces
  r.2 ++ lbClose r.1

/-- spec shape: lines of exactly 64 bytes (the last possibly shorter) separated by single LFs -/
def breakLines (bs : Bytes) : Bytes := [LF].intercalate (chunks lineLength bs)

/-! ## Encode -/

abbrev Hdr := List (Bytes × Bytes)

def armorStart : Bytes := str "-----BEGIN "
def armorEnd : Bytes := str "-----END "
def armorEOL : Bytes := str "-----"

def hdrLine (kv : Bytes × Bytes) : Bytes := kv.1 ++ str ": " ++ kv.2

def encHead (ty : Bytes) (hdr : Hdr) : Bytes :=
  armorStart ++ ty ++ armorEOL ++ [LF] ++ (hdr.map (fun kv => hdrLine kv ++ [LF])).flatten ++ [LF]

/-- `byte(e.crc >> 16), byte(e.crc >> 8), byte(e.crc)` -/
def crcBytes (c : Nat) : Bytes :=
  [UInt8.ofNat (c / 65536 % 256), UInt8.ofNat (c / 256 % 256), UInt8.ofNat (c % 256)]

def encTail (ty : Bytes) (crc : Nat) : Bytes :=
  [LF, PAD] ++ b64enc (crcBytes crc) ++ [LF] ++ armorEnd ++ ty ++ armorEOL

/-- spec-shaped encoder: a function of the whole body -/
def encode (ty : Bytes) (hdr : Hdr) (body : Bytes) : Bytes :=
  encHead ty hdr ++ breakLines (b64enc body) ++ encTail ty (crc24 crc24Init body)

/-- cut `bs` at the given absolute offsets (increasing); the last piece is the remainder -/
def cutAt (bs : Bytes) (pos : Nat) : List Nat → List Bytes
  | [] => [bs]
  | o :: os => bs.take (o - pos) :: cutAt (bs.drop (o - pos)) (max o pos) os

/-- implementation-shaped encoder: `encoding.Write` per chunk (running CRC), the base64 text reaches the
    lineBreaker in pieces (here: after each Write the complete quanta so far, the padded tail at Close —
    the stdlib encoder's own piece boundaries are immaterial by `lbAll_eq`), `Close` writes the trailer. -/
def encodeGo (ty : Bytes) (hdr : Hdr) (chunks : List Bytes) : Bytes :=
  let crc := chunks.foldl crc24 crc24Init
  let text := b64enc chunks.flatten
  let offs := (chunks.foldl (fun (acc : Nat × List Nat) c => (acc.1 + c.length, (4 * ((acc.1 + c.length) / 3)) :: acc.2)) (0, [])).2.reverse
  encHead ty hdr ++ lbAll (cutAt text 0 offs) ++ encTail ty crc

/-! ## bufio.Reader (size 100) ReadLine -/

def bufSize : Nat := 100

/-- one `ReadLine` on the remaining input: `none` = io.EOF, else `(line, isPrefix, rest)`.
    A line is returned whole iff its LF is among the next 100 bytes (or the input ends within 99 bytes);
    otherwise the first 100 bytes are a prefix fragment — 99 if the 100th is a CR (put back). -/
def readLine (s : Bytes) : Option (Bytes × Bool × Bytes) :=
  if s.isEmpty then none else
  let p := splitLF s
  if p.1.length < bufSize then
    match p.2 with
    | some r => some (dropLastCR p.1, false, r)
    | none => some (p.1, false, [])
  else
    let f := s.take bufSize
    if f.getLast? == some CR then some (s.take (bufSize - 1), true, s.drop (bufSize - 1))
    else some (f, true, s.drop bufSize)

theorem splitLF_length (s : Bytes) :
    (splitLF s).1.length ≤ s.length ∧
    (∀ r, (splitLF s).2 = some r → (splitLF s).1.length + 1 + r.length = s.length) ∧
    ((splitLF s).2 = none → (splitLF s).1 = s) := by
  induction s with
  | nil => simp [splitLF]
  | cons b t ih =>
    unfold splitLF
    by_cases hb : b == LF
    · simp [hb]; omega
    · simp only [hb, Bool.false_eq_true, ↓reduceIte, List.length_cons]
      refine ⟨by omega, ?_, ?_⟩
      · intro r hr; have := ih.2.1 r hr; omega
      · intro hn; rw [ih.2.2 hn]

theorem readLine_lt {s l r : Bytes} {p : Bool} (h : readLine s = some (l, p, r)) :
    r.length < s.length := by
  unfold readLine at h
  by_cases hs : s.isEmpty
  · simp [hs] at h
  · simp only [hs, Bool.false_eq_true, ↓reduceIte] at h
    have hpos : 0 < s.length := by
      cases s with
      | nil => simp at hs
      | cons => simp
    have hsp := splitLF_length s
    by_cases hl : (splitLF s).1.length < bufSize
    · simp only [hl, ↓reduceIte] at h
      cases h2 : (splitLF s).2 with
      | none =>
        simp only [h2, Option.some.injEq, Prod.mk.injEq] at h
        obtain ⟨_, _, rfl⟩ := h
        simpa using hpos
      | some r' =>
        simp only [h2, Option.some.injEq, Prod.mk.injEq] at h
        obtain ⟨_, _, rfl⟩ := h
        have := hsp.2.1 r' h2
        omega
    · simp only [hl, ↓reduceIte] at h
      have hge : bufSize ≤ s.length := by omega
      simp only [bufSize] at *
      by_cases hc : ((List.take 100 s).getLast? == some CR) = true
      · simp only [hc, ↓reduceIte, Option.some.injEq, Prod.mk.injEq] at h
        obtain ⟨_, _, rfl⟩ := h
        simp only [List.length_drop]
        omega
      · simp only [hc, Bool.false_eq_true, ↓reduceIte, Option.some.injEq, Prod.mk.injEq] at h
        obtain ⟨_, _, rfl⟩ := h
        simp only [List.length_drop]
        omega

/-! ## bytes.TrimSpace (unicode.IsSpace over UTF-8) -/

def isAsciiSpace (b : UInt8) : Bool := b == 9 || b == 10 || b == 11 || b == 12 || b == 13 || b == 32

/-- third byte of `E2 80 xx` encodings that are White_Space: U+2000–U+200A, U+2028, U+2029, U+202F -/
def isE280Space (c : UInt8) : Bool := (0x80 ≤ c && c ≤ 0x8A) || c == 0xA8 || c == 0xA9 || c == 0xAF

/-- byte length of a White_Space rune encoded at the head of `s`, 0 if `s` does not start with one -/
def leadSpace : Bytes → Nat
  | [] => 0
  | a :: t =>
    if isAsciiSpace a then 1 else
    match t with
    | [] => 0
    | b :: u =>
      if a == 0xC2 && (b == 0x85 || b == 0xA0) then 2 else
      match u with
      | [] => 0
      | c :: _ =>
        if a == 0xE1 && b == 0x9A && c == 0x80 then 3
        else if a == 0xE2 && b == 0x80 && isE280Space c then 3
        else if a == 0xE2 && b == 0x81 && c == 0x9F then 3
        else if a == 0xE3 && b == 0x80 && c == 0x80 then 3
        else 0

/-- the same for the tail of a string, given reversed -/
def trailSpace : Bytes → Nat
  | [] => 0
  | c :: t =>
    if isAsciiSpace c then 1 else
    match t with
    | [] => 0
    | b :: u =>
      if b == 0xC2 && (c == 0x85 || c == 0xA0) then 2 else
      match u with
      | [] => 0
      | a :: _ =>
        if a == 0xE1 && b == 0x9A && c == 0x80 then 3
        else if a == 0xE2 && b == 0x80 && isE280Space c then 3
        else if a == 0xE2 && b == 0x81 && c == 0x9F then 3
        else if a == 0xE3 && b == 0x80 && c == 0x80 then 3
        else 0

theorem leadSpace_pos {s : Bytes} (h : leadSpace s ≠ 0) : s ≠ [] := by
  intro hs; subst hs; simp [leadSpace] at h

theorem trailSpace_pos {s : Bytes} (h : trailSpace s ≠ 0) : s ≠ [] := by
  intro hs; subst hs; simp [trailSpace] at h

def trimLeftSp (s : Bytes) : Bytes :=
  if h : leadSpace s = 0 then s else trimLeftSp (s.drop (leadSpace s))
termination_by s.length
decreasing_by
  have := leadSpace_pos h
  cases s with
  | nil => simp at this
  | cons a t => simp only [List.length_drop, List.length_cons]; omega

def trimRevSp (s : Bytes) : Bytes :=
  if h : trailSpace s = 0 then s else trimRevSp (s.drop (trailSpace s))
termination_by s.length
decreasing_by
  have := trailSpace_pos h
  cases s with
  | nil => simp at this
  | cons a t => simp only [List.length_drop, List.length_cons]; omega

/-- `bytes.TrimSpace` -/
def trimSpace (s : Bytes) : Bytes := (trimRevSp (trimLeftSp s).reverse).reverse

/-! ## armor.Decode: block search and headers -/

/-- `p.Header[k] = v` / `p.Header[k] += v` on an association list (Go map; order irrelevant) -/
def hdrSet (m : Hdr) (k v : Bytes) : Hdr :=
  if m.any (·.1 == k) then m.map (fun e => if e.1 == k then (k, v) else e) else m ++ [(k, v)]

def hdrAppend (m : Hdr) (k v : Bytes) : Hdr :=
  if m.any (·.1 == k) then m.map (fun e => if e.1 == k then (k, e.2 ++ v) else e) else m ++ [(k, v)]

inductive Phase where
  /-- skipping leading garbage; `ign` = the previous ReadLine returned isPrefix -/
  | skip (ign : Bool)
  /-- reading headers of a block of type `ty`; `cont` = next line is a continuation; `last` = lastKey -/
  | hdrs (ty : Bytes) (m : Hdr) (cont : Bool) (last : Bytes)

/-- `Decode` up to the blank line that ends the headers: `none` = `(nil, err)`;
    `some (type, headers, rest)` where `rest` is what the body's lineReader will see. -/
def findBlock (ph : Phase) (s : Bytes) : Option (Bytes × Hdr × Bytes) :=
  match h : readLine s with
  | none => none
  | some (line, isPrefix, rest) =>
    have : rest.length < s.length := readLine_lt h
    match ph with
    | .skip ign =>
      if isPrefix || ign then findBlock (.skip isPrefix) rest else
      let line := trimSpace line
      if line.length > armorStart.length + armorEOL.length && hasPrefix line armorStart then
        findBlock (.hdrs ((line.drop armorStart.length).take (line.length - armorStart.length - armorEOL.length)) [] false []) rest
      else findBlock (.skip false) rest
    | .hdrs ty m cont last =>
      if cont then findBlock (.hdrs ty (hdrAppend m last line) isPrefix last) rest else
      let line := trimSpace line
      if line.isEmpty then some (ty, m, rest) else
      match indexOf (str ": ") line with
      | none =>
        -- `goto TryNextBlock`: ignoreNext still holds `false` from the skip loop
        findBlock (.skip false) rest
      | some i =>
        let k := line.take i
        findBlock (.hdrs ty (hdrSet m k (line.drop (i + 2))) isPrefix k) rest
termination_by s.length

/-! ## body: lineReader, base64 stream decoder, openpgpReader -/

/-- how the lineReader's stream of lines ends -/
inductive LineEnd where
  | eof            -- `-----END ` line, or the input ran out: io.EOF, crcSet = false
  | eofCrc (crc : Nat)   -- `=XXXX` line followed by an `-----END ` line: io.EOF, crcSet = true
  | corrupt        -- ArmorCorrupt (over-long line, or no END after the checksum line)
  | b64err         -- CorruptInputError from decoding the checksum line
deriving DecidableEq, Repr

/-- all lines the lineReader hands out (each Read has room for a whole line), and how it ends -/
def bodyLines (s : Bytes) : List Bytes × LineEnd :=
  match h : readLine s with
  | none => ([], .eof)
  | some (line, isPrefix, rest) =>
    have : rest.length < s.length := readLine_lt h
    if isPrefix then ([], .corrupt) else
    if hasPrefix line armorEnd then ([], .eof) else
    if line.length == 5 && line.head? == some PAD then
      -- `Encoding.Decode` skips CR/LF; an all-CR payload decodes to 0 bytes without error
      let cs := (line.drop 1).filter (fun b => b != CR && b != LF)
      let r := if cs.isEmpty then ⟨[], true⟩ else b64decBuf cs
      if !r.ok then ([], .b64err)
      else if r.out.length != 3 then
        -- `m != 3 || err != nil { return }` with err == nil: Read returns (0, nil); the line is skipped
        let q := bodyLines rest
        ([] :: q.1, q.2)
      else
        let crc := (r.out.getD 0 0).toNat * 65536 + (r.out.getD 1 0).toNat * 256 + (r.out.getD 2 0).toNat
        match readLine rest with
        | none => ([], .corrupt)          -- io.EOF: line is empty, not an END line
        | some (l2, _, _) => if hasPrefix l2 armorEnd then ([], .eofCrc crc) else ([], .corrupt)
    else if line.length > 96 then ([], .corrupt)
    else
      let q := bodyLines rest
      (line :: q.1, q.2)
termination_by s.length

/-- outcome of reading `Block.Body` to the end -/
inductive BodyEnd where
  | eof | corrupt | b64 | ueof
deriving DecidableEq, Repr

/-- base64 stream decoder over the lineReader: each refill appends one line (CR stripped by the
    newline filter) to the 0–3 leftover characters; as soon as ≥ 4 characters are buffered the largest
    multiple of four is decoded with `b64decBuf`. Returns the bytes delivered and the end status. -/
def b64Stream (left : Bytes) (fin : LineEnd) : List Bytes → Bytes × Option LineEnd
  | [] =>
    if left.isEmpty then ([], some fin)
    else match fin with
      | .eof | .eofCrc _ => ([], none)      -- io.ErrUnexpectedEOF
      | e => ([], some e)
  | l :: ls =>
    let buf := left ++ l.filter (fun b => b != CR && b != LF)
    if buf.length < 4 then b64Stream buf fin ls else
    let nr := buf.length / 4 * 4
    let r := b64decBuf (buf.take nr)
    if !r.ok then (r.out, some .b64err) else
    let q := b64Stream (buf.drop nr) fin ls
    (r.out ++ q.1, q.2)

/-- `io.ReadAll(block.Body)`-like: bytes delivered, final status -/
def readBody (s : Bytes) : Bytes × BodyEnd :=
  let bl := bodyLines s
  let r := b64Stream [] bl.2 bl.1
  match r.2 with
  | none => (r.1, .ueof)
  | some .b64err => (r.1, .b64)
  | some .corrupt => (r.1, .corrupt)
  | some .eof => (r.1, .eof)
  | some (.eofCrc c) =>
    if c != (crc24 crc24Init r.1) % 16777216 then (r.1, .corrupt) else (r.1, .eof)   -- `& crc24Mask`

/-- `armor.Decode` then reading the body to its end -/
def decode (s : Bytes) : Option (Bytes × Hdr × Bytes × BodyEnd) :=
  match findBlock (.skip false) s with
  | none => none
  | some (ty, m, rest) =>
    let b := readBody rest
    some (ty, m, b.1, b.2)

/-! ## clearsign: dashEscaper -/

structure DE where
  bol : Bool := true        -- atBeginningOfLine
  first : Bool := true      -- isFirstLine
  ws : Bytes := []          -- whitespace
  out : Bytes := []         -- written to `buffered` (reversed accumulation is avoided: lists are short)
  hash : Bytes := []        -- written to `toHash`
deriving DecidableEq, Repr

def isWs (b : UInt8) : Bool := b == 32 || b == 9 || b == 13

def CRLF : Bytes := [CR, LF]

/-- one iteration of the `for _, b := range data` loop of `dashEscaper.Write` -/
def deStep (d : DE) (b : UInt8) : DE :=
  let d := if d.bol then { d with hash := d.hash ++ (if d.first then [] else CRLF), first := false } else d
  if isWs b then { d with ws := d.ws ++ [b], bol := false } else
  if d.bol then
    if b == 45 then { d with out := d.out ++ [45, 32, 45], hash := d.hash ++ [b], bol := false }
    else if b == LF then { d with out := d.out ++ [b] }
    else { d with out := d.out ++ [b], hash := d.hash ++ [b], bol := false }
  else
    if b == LF then { d with ws := [], out := d.out ++ [b], bol := true }
    else { d with ws := [], out := d.out ++ d.ws ++ [b], hash := d.hash ++ d.ws ++ [b] }

def deWrite (d : DE) (data : Bytes) : DE := data.foldl deStep d

/-- the text part of `Close`: a final LF unless at the beginning of a line -/
def deClose (d : DE) : DE := if d.bol then d else { d with out := d.out ++ [LF] }

def csStart : Bytes := str "-----BEGIN PGP SIGNED MESSAGE-----"
def csEndText : Bytes := str "-----BEGIN PGP SIGNATURE-----"
def csEnd : Bytes := str "\n-----END PGP SIGNATURE-----"

/-- what `clearsign.Encode` … `Close` writes before the armored signature, and the hashed bytes -/
def csEncode (hashName : Bytes) (chunks : List Bytes) : Bytes × Bytes :=
  let d := deClose (chunks.foldl deWrite {})
  (csStart ++ [LF] ++ str "Hash: " ++ hashName ++ [LF, LF] ++ d.out, d.hash)

/-! ### spec side: canonical lines -/

/-- trailing SP/TAB/CR removed -/
def trimR : Bytes → Bytes
  | [] => []
  | b :: l => let t := trimR l; if t.isEmpty && isWs b then [] else b :: t

/-- split on LF; a final segment that is empty is not a line -/
def linesOf (s : Bytes) : List Bytes :=
  match h : splitLF s with
  | (l, none) => if l.isEmpty then [] else [l]
  | (l, some r) => l :: linesOf r
termination_by s.length
decreasing_by
  have h2 := (splitLF_length s).2.1 r (by rw [h])
  omega

def canonLines (pt : Bytes) : List Bytes := (linesOf pt).map trimR

def escLine (l : Bytes) : Bytes := (if l.head? == some 45 then [45, 32] else []) ++ l ++ [LF]

/-- the dash-escaped text -/
def escText (ls : List Bytes) : Bytes := (ls.map escLine).flatten
/-- `Block.Plaintext` -/
def plainText (ls : List Bytes) : Bytes := (ls.map (· ++ [LF])).flatten
/-- `Block.Bytes` = the signed bytes -/
def signedBytes (ls : List Bytes) : Bytes := CRLF.intercalate ls

/-! ## clearsign.Decode -/

/-- `getLine` -/
def getLine (data : Bytes) : Bytes × Bytes :=
  match splitLF data with
  | (l, none) => (l, [])
  | (l, some r) => (dropLastCR l, r)

theorem getLine_le (d : Bytes) : (getLine d).2.length ≤ d.length := by
  unfold getLine
  have h := splitLF_length d
  split
  · simp
  · rename_i l r heq
    have := h.2.1 r (by rw [heq])
    simp; omega

theorem getLine_lt (d : Bytes) (h : d ≠ []) : (getLine d).2.length < d.length := by
  unfold getLine
  have hs := splitLF_length d
  split
  · cases d with
    | nil => exact absurd rfl h
    | cons => simp
  · rename_i l r heq
    have := hs.2.1 r (by rw [heq])
    simp; omega

def trimRightSpTab (l : Bytes) : Bytes := (l.reverse.dropWhile (fun b => b == 32 || b == 9)).reverse

/-- the header loop: `none` = reject, else `(hash values in order, rest)` -/
def csHeaders (rest : Bytes) (acc : List Bytes) : Option (List Bytes × Bytes) :=
  if h : rest = [] then none else
  let p := getLine rest
  have : p.2.length < rest.length := getLine_lt rest h
  if p.1.isEmpty then some (acc, p.2) else
  if p.1.any (fun b => b < 0x20 || b > 0x7e) then none else
  match indexOf [58] p.1 with
  | none => none
  | some i =>
    let key := trimSpace (p.1.take i)
    if key != str "Hash" then none else
    csHeaders p.2 (acc ++ [trimSpace (p.1.drop (i + 1))])
termination_by rest.length

/-- the text loop: `none` = reject; else `(lines with escapes and trailing SP/TAB removed, rest)`
    where `rest` starts at the `-----BEGIN PGP SIGNATURE-----` line -/
def csText (rest : Bytes) : Option (List Bytes × Bytes) :=
  if _hne : rest = [] then none else     -- `getLine []` = `([], [])`: the next test would reject it
  let p := getLine rest
  if p.1.isEmpty && p.2.isEmpty then none else
  if p.1 == csEndText then some ([], rest) else
  let line := if hasPrefix p.1 [45, 32] then p.1.drop 2 else p.1
  match csText p.2 with
  | none => none
  | some (ls, r) => some (trimRightSpTab line :: ls, r)
termination_by rest.length
decreasing_by exact getLine_lt rest _hne

structure CSBlock where
  hashes : List Bytes
  plaintext : Bytes
  bytes : Bytes
  armorType : Bytes
  armorHdr : Hdr
  armorBody : Bytes
  armorEnd : BodyEnd
  rest : Bytes

/-- the last part of `clearsign.Decode`: find the END marker of the armored signature, take the
    trailing CR/LFs, and hand that span to `armor.Decode`; `rest` starts at the signature's BEGIN line -/
def csArmor (rest : Bytes) : Option (Bytes × Hdr × Bytes × BodyEnd × Bytes) :=
  match indexOf csEnd rest with
  | none => none
  | some i =>
    let j := i + csEnd.length
    let tail := rest.drop j
    let k := (tail.takeWhile (fun b => b == CR || b == LF)).length
    let armored := rest.take (j + k)
    match findBlock (.skip false) armored with
    | none => none
    | some (ty, m, brest) =>
      let b := readBody brest
      some (ty, m, b.1, b.2, tail.drop k)

/-- `clearsign.Decode`: `none` = `(nil, data)` -/
def csDecode (data : Bytes) : Option CSBlock :=
  let start := LF :: csStart
  let r0 : Option Bytes :=
    if hasPrefix data csStart then some (data.drop csStart.length)
    else (indexOf start data).map (fun i => data.drop (i + start.length))
  match r0 with
  | none => none
  | some rest =>
    let p := getLine rest
    if !p.1.isEmpty then none else
    match csHeaders p.2 [] with
    | none => none
    | some (hs, rest) =>
      match csText rest with
      | none => none
      | some (ls, rest) =>
        match csArmor rest with
        | none => none
        | some (ty, m, body, e, rest') => some ⟨hs, plainText ls, signedBytes ls, ty, m, body, e, rest'⟩

end XC.C46

namespace XC.C46
/-! ## canonical text hash (openpgp/canonical_text.go), per byte: what reaches the underlying hash -/

/-- state 0/1 as `Bool` (`true` = the previous byte was a CR seen in state 0) -/
def cthStep (st : Bool × Bytes) (c : UInt8) : Bool × Bytes :=
  if st.1 then (false, st.2 ++ [c])
  else if c == CR then (true, st.2 ++ [c])
  else if c == LF then (false, st.2 ++ CRLF)
  else (false, st.2 ++ [c])

def cth (bs : Bytes) : Bytes := (bs.foldl cthStep (false, [])).2
end XC.C46
