/-
  C23 — cryptobyte ASN.1 readers and Add* builders (cryptobyte/asn1.go), model of the code as written.
  `String` is a `List UInt8`; a reader returns `none` for Go's `false` and the parsed value plus the
  remaining string otherwise.  (`int` is 64 bits: amd64 — `int(length) < 0` in readASN1 cannot fire.)
-/
import XC.Basic
namespace XC.C23

/-! ## String.read and readASN1 -/

/-- `String.read(n)`: the first `n` bytes and the rest, or failure -/
def read (n : Nat) (s : Bytes) : Option (Bytes × Bytes) :=
  if s.length < n then none else some (s.take n, s.drop n)

/-- `readUnsigned`: big-endian fold (uint32 accumulator; length ≤ 4 at the only call site) -/
def readUnsigned (bs : Bytes) : Nat := bs.foldl (fun acc b => (acc * 256 + b.toNat) % 2 ^ 32) 0

structure Elem where
  tag : UInt8
  hdr : Nat          -- header length (2 … 6)
  whole : Bytes      -- the element including header
  rest : Bytes
deriving Repr, DecidableEq

/-- `readASN1` (common part of ReadAnyASN1 / ReadAnyASN1Element) -/
def readASN1 (s : Bytes) : Option Elem :=
  match s with
  | tag :: lenByte :: _ =>
    if tag &&& 0x1f == 0x1f then none else
    if lenByte &&& 0x80 == 0 then
      match read (lenByte.toNat + 2) s with
      | none => none
      | some (w, r) => some ⟨tag, 2, w, r⟩
    else
      let lenLen := (lenByte &&& 0x7f).toNat
      if lenLen == 0 || lenLen > 4 || s.length < 2 + lenLen then none else
      let len32 := readUnsigned ((s.drop 2).take lenLen)
      if len32 < 128 then none else
      if len32 >>> ((lenLen - 1) * 8) == 0 then none else
      let headerLen := 2 + lenLen
      if (headerLen + len32) % 2 ^ 32 < len32 then none else
      match read (headerLen + len32) s with
      | none => none
      | some (w, r) => some ⟨tag, headerLen, w, r⟩
  | _ => none

def Elem.body (e : Elem) : Bytes := e.whole.drop e.hdr

/-- `ReadAnyASN1`: (tag, contents, rest) -/
def readAnyASN1 (s : Bytes) : Option (UInt8 × Bytes × Bytes) :=
  (readASN1 s).map fun e => (e.tag, e.body, e.rest)

/-- `ReadAnyASN1Element`: (tag, whole element, rest) -/
def readAnyASN1Element (s : Bytes) : Option (UInt8 × Bytes × Bytes) :=
  (readASN1 s).map fun e => (e.tag, e.whole, e.rest)

/-- `ReadASN1(out, tag)` -/
def readASN1Tag (tag : UInt8) (s : Bytes) : Option (Bytes × Bytes) :=
  match readAnyASN1 s with
  | some (t, b, r) => if t == tag then some (b, r) else none
  | none => none

/-- `ReadASN1Element(out, tag)` -/
def readASN1ElementTag (tag : UInt8) (s : Bytes) : Option (Bytes × Bytes) :=
  match readAnyASN1Element s with
  | some (t, b, r) => if t == tag then some (b, r) else none
  | none => none

/-! ## DER length octets (spec) -/

/-- the unique minimal (DER) length octets of `n < 2^32` -/
def derLen (n : Nat) : Bytes :=
  if n < 0x80 then [UInt8.ofNat n]
  else if n < 0x100 then 0x81 :: natToBE 1 n
  else if n < 0x10000 then 0x82 :: natToBE 2 n
  else if n < 0x1000000 then 0x83 :: natToBE 3 n
  else 0x84 :: natToBE 4 n

end XC.C23
