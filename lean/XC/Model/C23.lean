/-
  C23 — cryptobyte ASN.1 readers and Add* builders (cryptobyte/asn1.go), model of the code as written.
  `String` is a `List UInt8`; a reader returns `none` for Go's `false` and the parsed value plus the
  remaining string otherwise.  (`int` is 64 bits: amd64 — `int(length) < 0` in readASN1 cannot fire.)
-/
import XC.Basic
namespace XC.C23

/-! ## String.read and readASN1 -/

/-- `String.read(n)`: the first `n` bytes and the rest, or failure -/
def read (n : Nat) (s : Bytes) : Option (Bytes × Bytes) :=
  if s.length < n then none else some (s.take n, s.drop n)

/-- `readUnsigned`: big-endian fold (uint32 accumulator; length ≤ 4 at the only call site) -/
def readUnsigned (bs : Bytes) : Nat := bs.foldl (fun acc b => (acc * 256 + b.toNat) % 2 ^ 32) 0

structure Elem where
  tag : UInt8
  hdr : Nat          -- header length (2 … 6)
  whole : Bytes      -- the element including header
  rest : Bytes
deriving Repr, DecidableEq

/-- `readASN1` (common part of ReadAnyASN1 / ReadAnyASN1Element) -/
def readASN1 (s : Bytes) : Option Elem :=
  match s with
  | tag :: lenByte :: _ =>
    if tag &&& 0x1f == 0x1f then none else
    if lenByte &&& 0x80 == 0 then
      match read (lenByte.toNat + 2) s with
      | none => none
      | some (w, r) => some ⟨tag, 2, w, r⟩
    else
      let lenLen := (lenByte &&& 0x7f).toNat
      if lenLen == 0 || lenLen > 4 || s.length < 2 + lenLen then none else
      let len32 := readUnsigned ((s.drop 2).take lenLen)
      if len32 < 128 then none else
      if len32 >>> ((lenLen - 1) * 8) == 0 then none else
      let headerLen := 2 + lenLen
      if (headerLen + len32) % 2 ^ 32 < len32 then none else
      match read (headerLen + len32) s with
      | none => none
      | some (w, r) => some ⟨tag, headerLen, w, r⟩
  | _ => none

def Elem.body (e : Elem) : Bytes := e.whole.drop e.hdr

/-- `ReadAnyASN1`: (tag, contents, rest) -/
def readAnyASN1 (s : Bytes) : Option (UInt8 × Bytes × Bytes) :=
  (readASN1 s).map fun e => (e.tag, e.body, e.rest)

/-- `ReadAnyASN1Element`: (tag, whole element, rest) -/
def readAnyASN1Element (s : Bytes) : Option (UInt8 × Bytes × Bytes) :=
  (readASN1 s).map fun e => (e.tag, e.whole, e.rest)

/-- `ReadASN1(out, tag)` -/
def readASN1Tag (tag : UInt8) (s : Bytes) : Option (Bytes × Bytes) :=
  match readAnyASN1 s with
  | some (t, b, r) => if t == tag then some (b, r) else none
  | none => none

/-- `ReadASN1Element(out, tag)` -/
def readASN1ElementTag (tag : UInt8) (s : Bytes) : Option (Bytes × Bytes) :=
  match readAnyASN1Element s with
  | some (t, b, r) => if t == tag then some (b, r) else none
  | none => none

/-! ## DER length octets (spec) -/

/-- the unique minimal (DER) length octets of `n < 2^32` -/
def derLen (n : Nat) : Bytes :=
  if n < 0x80 then [UInt8.ofNat n]
  else if n < 0x100 then 0x81 :: natToBE 1 n
  else if n < 0x10000 then 0x82 :: natToBE 2 n
  else if n < 0x1000000 then 0x83 :: natToBE 3 n
  else 0x84 :: natToBE 4 n


/-! ## INTEGER -/

/-- `checkASN1Integer`: non-empty and minimally encoded -/
def checkASN1Integer : Bytes → Bool
  | [] => false
  | [_] => true
  | b0 :: b1 :: _ =>
    !((b0 == 0 && b1 &&& 0x80 == 0) || (b0 == 0xff && b1 &&& 0x80 == 0x80))

/-- the two's-complement value of big-endian `bs` (0 for the empty string) -/
def twosVal (bs : Bytes) : Int :=
  match bs with
  | [] => 0
  | b0 :: _ => if b0 &&& 0x80 == 0x80 then (natOfBE bs : Int) - (256 : Int) ^ bs.length else natOfBE bs

/-- the loop shared by asn1Signed / asn1Unsigned, on a 64-bit word: `*out <<= 8; *out |= n[i]` -/
def shiftIn (n : Bytes) : BitVec 64 :=
  n.foldl (fun a b => (a <<< 8) ||| BitVec.ofNat 64 b.toNat) 0#64

/-- `asn1Signed` as written: at most 8 bytes, shift them in, then `<<= 64-8·len` and the arithmetic
    `>>= 64-8·len` to sign-extend (`uint8(length)*8` does not wrap for length ≤ 8) -/
def asn1Signed (bs : Bytes) : Option Int :=
  if bs.length > 8 then none else
  let s := 64 - bs.length * 8
  some (((shiftIn bs) <<< s).sshiftRight s).toInt

/-- `asn1Unsigned` as written (called on non-empty `bs`): at most 9 bytes, the ninth only as a leading
    zero; a set top bit means negative; then the same shift-in loop on a uint64 -/
def asn1Unsigned (bs : Bytes) : Option Nat :=
  match bs with
  | [] => none          -- Go would index n[0] and panic; unreachable after checkASN1Integer
  | b0 :: _ =>
    if bs.length > 9 || (bs.length == 9 && b0 != 0) then none else
    if b0 &&& 0x80 != 0 then none else
    some (shiftIn bs).toNat

/-- the INTEGER (or `tag`) contents after the minimality check -/
def readIntBody (tag : UInt8) (s : Bytes) : Option (Bytes × Bytes) :=
  match readASN1Tag tag s with
  | some (b, r) => if checkASN1Integer b then some (b, r) else none
  | none => none

/-- `ReadASN1Int64WithTag` / readASN1Int64 -/
def readInt64Tag (tag : UInt8) (s : Bytes) : Option (Int × Bytes) :=
  match readIntBody tag s with
  | some (b, r) => (asn1Signed b).map fun v => (v, r)
  | none => none

/-- `ReadASN1Integer(*intN)`: `bits` ∈ {8,16,32,64} (`int` = 64) -/
def readSigned (bits : Nat) (s : Bytes) : Option (Int × Bytes) :=
  match readInt64Tag 2 s with
  | some (v, r) => if v < -(2 : Int) ^ (bits - 1) || v ≥ (2 : Int) ^ (bits - 1) then none else some (v, r)
  | none => none

/-- `ReadASN1Integer(*uintN)` -/
def readUnsignedInt (bits : Nat) (s : Bytes) : Option (Nat × Bytes) :=
  match readIntBody 2 s with
  | some (b, r) =>
    match asn1Unsigned b with
    | some v => if v ≥ 2 ^ bits then none else some (v, r)
    | none => none
  | none => none

/-- `ReadASN1Integer(*big.Int)` -/
def readBigInt (s : Bytes) : Option (Int × Bytes) :=
  (readIntBody 2 s).map fun (b, r) => (twosVal b, r)

def stripZeros : Bytes → Bytes
  | 0 :: b :: r => stripZeros (b :: r)
  | bs => bs

/-- `ReadASN1Integer(*[]byte)`: non-negative only, leading zeros removed (zero = one zero byte) -/
def readIntBytes (s : Bytes) : Option (Bytes × Bytes) :=
  match readIntBody 2 s with
  | some (b, r) =>
    match b with
    | b0 :: _ => if b0 &&& 0x80 == 0x80 then none else some (stripZeros b, r)
    | [] => none
  | none => none

/-- `ReadASN1Enum` (`int` is 64 bits) -/
def readEnum (s : Bytes) : Option (Int × Bytes) := readInt64Tag 10 s

/-! ## BOOLEAN, BIT STRING, OCTET STRING -/

def readBool (s : Bytes) : Option (Bool × Bytes) :=
  match readASN1Tag 1 s with
  | some ([b], r) => if b == 0 then some (false, r) else if b == 0xff then some (true, r) else none
  | _ => none

/-- `ReadASN1BitString`: (BitLength, Bytes) -/
def readBitString (s : Bytes) : Option ((Nat × Bytes) × Bytes) :=
  match readASN1Tag 3 s with
  | some (pad :: bytes, r) =>
    if pad > 7 then none else
    match bytes.getLast? with
    | none => if pad != 0 then none else some ((0, []), r)
    | some last =>
      if last &&& ((1 <<< pad) - 1) != 0 then none else some ((bytes.length * 8 - pad.toNat, bytes), r)
  | _ => none

/-- `ReadASN1BitStringAsBytes` -/
def readBitStringAsBytes (s : Bytes) : Option (Bytes × Bytes) :=
  match readASN1Tag 3 s with
  | some (pad :: bytes, r) => if pad != 0 then none else some (bytes, r)
  | _ => none

/-! ## OBJECT IDENTIFIER -/

/-- `readBase128Int`: `fuel` = 5 − i, `first` = (i == 0) -/
def readBase128 : Nat → Bool → Nat → Bytes → Option (Nat × Bytes)
  | _, _, _, [] => none                           -- truncated
  | 0, _, _, _ :: _ => none                       -- i == 5
  | fuel + 1, first, ret, b :: s =>
    if ret ≥ 2 ^ 24 then none else
    if first && b == 0x80 then none else
    let ret := ret * 128 + (b &&& 0x7f).toNat
    if b &&& 0x80 == 0 then some (ret, s) else readBase128 fuel false ret s

def readArcs : Nat → Bytes → Option (List Nat)
  | _, [] => some []
  | 0, _ :: _ => none
  | fuel + 1, s =>
    match readBase128 5 true 0 s with
    | some (v, s') => (readArcs fuel s').map (v :: ·)
    | none => none

def readOID (s : Bytes) : Option (List Nat × Bytes) :=
  match readASN1Tag 6 s with
  | some (b, r) =>
    if b.isEmpty then none else
    match readBase128 5 true 0 b with
    | some (v, b') =>
      let hd := if v < 80 then [v / 40, v % 40] else [2, v - 80]
      (readArcs b'.length b').map fun arcs => (hd ++ arcs, r)
    | none => none
  | none => none

/-! ## optional variants -/

def peekTag (tag : UInt8) (s : Bytes) : Bool :=
  match s with
  | [] => false
  | b :: _ => b == tag

/-- `ReadOptionalASN1`: (present, contents, rest) -/
def readOptional (tag : UInt8) (s : Bytes) : Option (Bool × Bytes × Bytes) :=
  if peekTag tag s then
    (readASN1Tag tag s).map fun (b, r) => (true, b, r)
  else some (false, [], s)

/-- `SkipOptionalASN1` -/
def skipOptional (tag : UInt8) (s : Bytes) : Option Bytes :=
  if peekTag tag s then (readASN1Tag tag s).map (·.2) else some s

/-- explicit-tag wrapper: the inner reader must consume the wrapper's contents completely -/
def readOptionalWith {α : Type} (inner : Bytes → Option (α × Bytes)) (dflt : α) (tag : UInt8) (s : Bytes) :
    Option (α × Bytes) :=
  match readOptional tag s with
  | some (false, _, r) => some (dflt, r)
  | some (true, b, r) =>
    match inner b with
    | some (v, []) => some (v, r)
    | _ => none
  | none => none

/-- `ReadOptionalASN1Boolean` (as fixed in /repo a2374cc): `child.ReadASN1Boolean(out) && child.Empty()` —
    like the INTEGER / OCTET STRING variants, the explicit wrapper must hold exactly one BOOLEAN -/
def readOptionalBool (dflt : Bool) (tag : UInt8) (s : Bytes) : Option (Bool × Bytes) :=
  readOptionalWith readBool dflt tag s

/-- `ReadOptionalASN1OctetString`: (present, octets, rest) -/
def readOptionalOctets (tag : UInt8) (s : Bytes) : Option (Bool × Bytes × Bytes) :=
  match readOptional tag s with
  | some (false, _, r) => some (false, [], r)
  | some (true, b, r) =>
    match readASN1Tag 4 b with
    | some (o, []) => some (true, o, r)
    | _ => none
  | none => none

/-! ## Add* builders (growable builder; each returns the bytes appended, `none` = builder error) -/

/-- AddASN1(tag, body) for an already computed body (no overflow below 4 GiB) -/
def addASN1 (tag : UInt8) (body : Bytes) : Option Bytes :=
  if tag &&& 0x1f == 0x1f then none else
  if body.length > 0xfffffffe then none else
  some (tag :: (derLen body.length ++ body))

/-- number of bytes `addASN1Signed` emits: `for i := v; i >= 0x80 || i < -0x80; i >>= 8 { length++ }` -/
def signedLen : Nat → Int → Nat
  | 0, _ => 1
  | fuel + 1, i => if i ≥ 0x80 || i < -0x80 then 1 + signedLen fuel (i / 256) else 1

/-- the low `n` bytes of `v` (two's complement), big-endian: `v >> ((n-1)*8) & 0xff …` -/
def intBytes (n : Nat) (v : Int) : Bytes := natToBE n (v % (256 : Int) ^ n).toNat

/-- `addASN1Signed(tag, v)`, `v` an int64 -/
def addSigned (tag : UInt8) (v : Int) : Option Bytes := addASN1 tag (intBytes (signedLen 8 v) v)

def unsignedLen : Nat → Nat → Nat
  | 0, _ => 1
  | fuel + 1, i => if i ≥ 0x80 then 1 + unsignedLen fuel (i / 256) else 1

/-- `AddASN1Uint64` -/
def addUint64 (v : Nat) : Option Bytes := addASN1 2 (intBytes (unsignedLen 9 v) v)

/-- number of bytes of the minimal two's complement of any integer -/
def bigLen (v : Int) : Nat := signedLen (v.natAbs + 1) v

/-- `AddASN1BigInt` -/
def addBigInt (v : Int) : Option Bytes := addASN1 2 (intBytes (bigLen v) v)

def addOctetString (bs : Bytes) : Option Bytes := addASN1 4 bs
def addBitString (bs : Bytes) : Option Bytes := addASN1 3 (0 :: bs)
def addBool (v : Bool) : Option Bytes := addASN1 1 [if v then 0xff else 0]
def addNull : Bytes := [5, 0]

/-- `addBase128Int(n)` for an int64 `n` (a negative `n` emits nothing: the length loop never runs) -/
def base128Len : Nat → Nat → Nat
  | 0, _ => 0
  | fuel + 1, i => if i > 0 then 1 + base128Len fuel (i / 128) else 0

def base128Digits : Nat → Nat → Bytes
  | 0, _ => []
  | i + 1, n =>
    let o := UInt8.ofNat ((n / 128 ^ i) % 128)
    (if i != 0 then o ||| 0x80 else o) :: base128Digits i n

def addBase128 (n : Int) : Bytes :=
  if n < 0 then [] else
  let n := n.toNat
  base128Digits (if n == 0 then 1 else base128Len 10 n) n

/-- `AddASN1ObjectIdentifier` (arcs are Go ints; isValidOID as fixed in /repo 857ea63: `40*oid[0]+oid[1]` must
    not overflow int64) -/
def addOID (oid : List Int) : Option Bytes :=
  match oid with
  | a :: b :: rest =>
    if a > 2 || (a ≤ 1 && b ≥ 40) then none else
    if a == 2 && b > 2 ^ 63 - 1 - 80 then none else
    if oid.any (· < 0) then none else
    addASN1 6 (addBase128 (a * 40 + b) ++ (rest.map addBase128).flatten)
  | _ => none

end XC.C23
